#!/usr/bin/env python3
"""Regenerate the tables of DESIGN.md section 5.1/5.2 (from known_findings.jsonl) and Appendix C (from seeded/*/meta.json)."""
import json, subprocess, os, re, glob
p='/verif/DESIGN.md'
s=open(p).read()
rows=[json.loads(l) for l in open('/verif/known_findings.jsonl') if l.strip()]
def subj(c):
    return subprocess.run(['git','-C','/repo','log','-1','--format=%s',c],stdout=subprocess.PIPE,text=True).stdout.strip()
def esc(x): return x.replace('|','/').replace('\n',' ')
t1='| property | commit | what failed (first key) |\n|---|---|---|\n'
for e in rows:
    if e['status']=='fixed':
        t1+='| %s | `%s` %s | %s (`%s`) |\n' % (e['property'], e['commit'], esc(subj(e['commit'])), esc(e['what']), esc(e['key'])[:120])
t2='| property | key | what fails and why it is not repaired |\n|---|---|---|\n'
for e in rows:
    if e['status']=='known':
        t2+='| %s | `%s` | %s |\n' % (e['property'], esc(e['key']), esc(e['what']))
def replace_table(s, heading, table):
    i=s.index(heading)
    j=s.index('| property |', i)
    k=j
    # end of table = first blank line after j
    m=re.search(r'\n\n', s[j:])
    k=j+m.start()+1
    return s[:j]+table+s[k:]
s=replace_table(s,'### 5.1 Repaired',t1)
s=replace_table(s,'### 5.2 Recorded, not repaired',t2)
# Appendix C
metas=[]
for f in sorted(glob.glob('/verif/seeded/*/meta.json')):
    metas.append(json.load(open(f)))
t3='| id | property | caught by (tier) | missed by | note |\n|---|---|---|---|---|\n'
for m in metas:
    cb='; '.join('%s (%s)'%(k,v) for k,v in m.get('caught_by',{}).items()) or '**none**'
    t3+='| %s | %s | %s | %s | %s |\n' % (m['id'], m['property'], esc(cb), esc('; '.join(m.get('missed_by',[])) or '—'), esc(m.get('note','')))
i=s.index('## Appendix C')
j=s.index('| id |', i)
mm=re.search(r'\n\n', s[j:])
k=j+mm.start()+1 if mm else len(s)
s=s[:j]+t3+s[k:]
open(p,'w').write(s)
print('fixed=%d known=%d seeded=%d'%(sum(e['status']=='fixed' for e in rows),sum(e['status']=='known' for e in rows),len(metas)))
