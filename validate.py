#!/usr/bin/env python3
"""Validate MANIFEST.json and evidence/*.json against the schemas (uses the tooling venv's jsonschema)."""
import json, sys, glob
import jsonschema
ok = True
m = json.load(open('/verif/MANIFEST.json'))
try:
    jsonschema.validate(m, json.load(open('/root/.vp/MANIFEST.schema.json')))
    print("MANIFEST ok: %d checks, %d not_applicable" % (len(m['checks']), len(m.get('not_applicable', []))))
except Exception as e:
    ok = False; print("MANIFEST INVALID:", e)
props = [json.loads(l)['id'] for l in open('/verif/properties.jsonl')]
claimed = [c['property_id'] for c in m['checks']]
na = [c['property_id'] for c in m.get('not_applicable', [])]
for p in props:
    if (p in claimed) == (p in na):
        ok = False; print("property", p, "must be exactly one of claimed / not_applicable")
es = json.load(open('/root/.vp/EVIDENCE.schema.json'))
for f in sorted(glob.glob('/verif/evidence/*.json')):
    try:
        jsonschema.validate(json.load(open(f)), es); print("ok", f)
    except Exception as e:
        ok = False; print("INVALID", f, str(e)[:300])
sys.exit(0 if ok else 1)
