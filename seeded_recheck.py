#!/usr/bin/env python3
"""Re-run, for every seeded change, the quick check of its own property against a scratch
worktree carrying the change, and print one line per change. meta.json files are not touched.
usage: seeded_recheck.py [id-prefix ...]   (e.g. C01 C05 to limit the run)
"""
import json, os, subprocess, sys, glob
want = sys.argv[1:]
rows = []
for d in sorted(glob.glob('/verif/seeded/*/')):
    sid = os.path.basename(d.rstrip('/'))
    if want and not any(sid.startswith(w) for w in want):
        continue
    prop = sid.split('-')[0]
    p = subprocess.run(['python3', '/verif/seeded_eval.py', d, prop, '--skip-demo'], text=True, stdout=subprocess.PIPE, stderr=subprocess.STDOUT)
    try:
        ev = json.loads(p.stdout[p.stdout.index('{'):])
        c = ev['checks'][prop]
        res = 'CAUGHT' if c['exit'] == 1 and c['n_keys'] > 0 else 'missed(exit %d)' % c['exit']
        print(sid, res, c['n_keys'], 'keys', c['wall_s'], 's', flush=True)
    except Exception as e:
        print(sid, 'ERROR', str(e)[:100], p.stdout[-300:].replace('\n', ' '), flush=True)
