#!/usr/bin/env python3
"""Evaluate a seeded change: confirm its demonstration (fails with, passes without),
then run the given /verif checks against a scratch worktree carrying the change.

usage: seeded_eval.py <seed-dir> <check-id>[,<check-id>...] [--tier quick] [--scale X] [--skip-demo]
  <seed-dir> contains patch.diff and demo_test.go (first comment lines: directory + go test command)
"""
import json, os, re, subprocess, sys, shutil, time
sd = os.path.abspath(sys.argv[1])
checks = sys.argv[2].split(",")
tier = "quick"
scale = None
skip_demo = "--skip-demo" in sys.argv
if "--tier" in sys.argv: tier = sys.argv[sys.argv.index("--tier")+1]
if "--scale" in sys.argv: scale = sys.argv[sys.argv.index("--scale")+1]
tag = re.sub(r"[^A-Za-z0-9]", "-", sd.strip("/"))[-40:]
wt = "/tmp/se-" + tag
work = wt + "-work"
env = dict(os.environ, GOFLAGS="-mod=mod", GOPROXY="off")
def sh(cmd, **kw):
    return subprocess.run(cmd, shell=True, text=True, errors="replace", stdout=subprocess.PIPE, stderr=subprocess.STDOUT, env=env, **kw)
sh("git -C /repo worktree remove --force %s; rm -rf %s %s" % (wt, wt, work))
r = sh("git -C /repo worktree add --detach %s HEAD" % wt)
out = {"seed_dir": sd, "repo_head": sh("git -C /repo rev-parse --short HEAD").stdout.strip()}
try:
    demo = os.path.join(sd, "demo_test.go")
    head = open(demo).read().split("\n")[:25]
    ddir = None; dcmd = None
    for l in head:
        m = re.search(r"((?:tm|gcrypto|gdriver|gexchange|gwatchdog|internal|cmd)/[A-Za-z0-9_/.-]*)", l)
        if m and ddir is None and os.path.isdir(os.path.join(wt, m.group(1).rstrip("/"))):
            ddir = m.group(1).rstrip("/")
        m = re.search(r"(go test .*)$", l)
        if m and dcmd is None:
            dcmd = m.group(1).strip().rstrip("`")
    out["demo_dir"], out["demo_cmd"] = ddir, dcmd
    if not skip_demo and ddir and dcmd:
        shutil.copy(demo, os.path.join(wt, ddir, "zz_seeded_demo_test.go"))
        c = sh(dcmd, cwd=wt)
        out["demo_clean_pass"] = (c.returncode == 0)
        if c.returncode != 0: out["demo_clean_tail"] = c.stdout[-800:]
    a = sh("git apply %s" % os.path.join(sd, "patch.diff"), cwd=wt)
    out["patch_applies"] = (a.returncode == 0)
    if a.returncode != 0:
        out["apply_err"] = a.stdout[-500:]
    else:
        b = sh("go build ./...", cwd=wt)
        out["builds"] = (b.returncode == 0)
        if not skip_demo and ddir and dcmd:
            c = sh(dcmd, cwd=wt)
            out["demo_fails_with_change"] = (c.returncode != 0)
            os.remove(os.path.join(wt, ddir, "zz_seeded_demo_test.go"))
        out["checks"] = {}
        for ck in checks:
            e = dict(env, VERIF_REPO=wt, VERIF_WORK=work)
            if scale: e["VERIF_SCALE"] = scale
            t0 = time.time()
            p = subprocess.run(["python3", "/verif/vcheck.py", ck, tier], text=True, stdout=subprocess.PIPE, stderr=subprocess.STDOUT, env=e, cwd="/verif")
            keys = sorted(set(re.findall(r"^  key=(.*)$", p.stdout, re.M)))
            out["checks"][ck] = {"exit": p.returncode, "keys": keys[:12], "n_keys": len(keys), "wall_s": round(time.time()-t0), "summary": p.stdout.strip().split("\n")[-1][:300] if p.returncode != 1 else [l for l in p.stdout.split("\n") if " seed=" in l][-1:]}
finally:
    sh("git -C /repo worktree remove --force %s; rm -rf %s %s; git -C /repo worktree prune" % (wt, wt, work))
print(json.dumps(out, indent=1))
