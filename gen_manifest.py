#!/usr/bin/env python3
"""Regenerate MANIFEST.json from checks.py (single source of truth)."""
import json, subprocess
from checks import CHECKS, NOT_BUILT_REASON, NOT_APPLICABLE
props = [json.loads(l)['id'] for l in open('/verif/properties.jsonl')]
hook_commits = [l.strip() for l in open('/verif/hook_commits.txt') if l.strip()] if __import__('os').path.exists('/verif/hook_commits.txt') else []
m = {
 "version": 1,
 "setup_cmd": "python3 vcheck.py --setup",
 "hooks": {
  "guard": "verif",
  "enable": "go test -tags verif (in-tree harnesses are injected with -overlay from /verif/harness/intree; /repo/internal/verifhook is inert without the tag)",
  "baseline_off_cmd": "cd /repo && GOFLAGS=-mod=mod GOPROXY=off go test -json -vet=off -count=1 -timeout 25m ./...",
  "source_commits": hook_commits,
  "add_only": True,
 },
 "engines": [
  {"name": "E1-mirror", "path": "harness/intree/tm/tmengine/internal/tmmirror", "serves_properties": ["C01","C04","C05","C06","C07","C09","C10","C11"], "kind_free_text": "real tmmirror.Mirror on wrapped mem-stores driven by a stateful hostile history generator; independent ed25519/power oracles after every step"},
  {"name": "E2-statemachine", "path": "harness/intree/tm/tmengine/internal/tmstate", "serves_properties": ["C02","C08","C12"], "kind_free_text": "real tmstate.StateMachine with every boundary recorded; trace specification oracle"},
  {"name": "E3-network", "path": "harness/intree/tm/tmengine", "serves_properties": ["C03","C07","C09"], "kind_free_text": "N full engines in one process behind an adversarial router with a Byzantine injector"},
  {"name": "E4-property", "path": "harness/ext", "serves_properties": ["C13","C14","C15","C17","C18","C19"], "kind_free_text": "generated inputs against reference models through the public API"},
  {"name": "E5-linearizability", "path": "harness/ext/c16", "serves_properties": ["C16","C19"], "kind_free_text": "porcupine over histories recorded at the store interface + race detector"},
  {"name": "E6-p2p-line", "path": "harness/intree/tm/tmp2p", "serves_properties": ["C20"], "kind_free_text": "A-B-C line topologies over libp2p and the in-memory daisy chain"},
 ],
 "checks": [],
 "not_applicable": [],
 "notes": "Every check is runtime monitoring of the real code compiled from /repo's working tree; see DESIGN.md. known_findings.jsonl lists genuine defects recorded rather than repaired.",
}
claimed = set(l.strip() for l in open('/verif/claimed.txt') if l.strip() and not l.startswith('#'))
for p in props:
    if p in CHECKS and p in claimed:
        c = CHECKS[p]
        m["checks"].append({
          "property_id": p,
          "quick_cmd": "python3 vcheck.py %s quick" % p,
          "thorough_cmd": "python3 vcheck.py %s thorough" % p,
          "evidence_file": "/verif/evidence/%s.json" % p,
          "replay_cmd_template": "python3 vcheck.py %s --replay {path}" % p,
          "engine": c.get("engine", ""),
          "level_claimed": {"category": c.get("level", "exploration"), "text": c["level_text"], "design_ref": c.get("design_ref", "DESIGN.md section 4, " + p)},
          "level_note": c["level_note"],
          "technique": c["technique"],
        })
    elif p in NOT_APPLICABLE:
        m["not_applicable"].append({"property_id": p, "reason": NOT_APPLICABLE[p]})
    else:
        m["not_applicable"].append({"property_id": p, "reason": NOT_BUILT_REASON})
json.dump(m, open('/verif/MANIFEST.json', 'w'), indent=1)
print("claimed:", [c["property_id"] for c in m["checks"]])
