#!/usr/bin/env python3
"""Import a seeded change produced by a sub-agent into /verif/seeded/<id>/.

usage: seeded_import.py <src-dir> <id> <check>[,<check>...] [--note "text"]
Runs seeded_eval.py (demonstration with/without the change, then the named checks against a
scratch worktree carrying the change), copies patch.diff, the demonstration and notes.md, and
writes meta.json from what the evaluation observed. Nothing here touches /repo's working tree.
"""
import json, os, shutil, subprocess, sys
src, sid, checks = sys.argv[1], sys.argv[2], sys.argv[3]
note = sys.argv[sys.argv.index("--note")+1] if "--note" in sys.argv else None
p = subprocess.run(["python3", "/verif/seeded_eval.py", src, checks], text=True, stdout=subprocess.PIPE, stderr=subprocess.STDOUT)
try:
    ev = json.loads(p.stdout[p.stdout.index("{"):])
except Exception:
    print(p.stdout[-3000:]); sys.exit(2)
dst = os.path.join("/verif/seeded", sid)
os.makedirs(dst, exist_ok=True)
for f in os.listdir(src):
    if f.endswith(".go") or f in ("patch.diff", "notes.md"):
        if os.path.abspath(os.path.join(src, f)) != os.path.abspath(os.path.join(dst, f)):
            shutil.copy(os.path.join(src, f), os.path.join(dst, f))
caught, missed, keys = {}, [], {}
for ck, v in ev.get("checks", {}).items():
    if v["exit"] == 1 and v["n_keys"] > 0:
        caught[ck] = "quick"; keys[ck] = v["keys"]
    else:
        missed.append(ck + " quick" + ("" if v["exit"] == 0 else " (exit %d)" % v["exit"]))
meta = {
    "id": sid, "property": sid.split("-")[0],
    "origin": "fresh sub-agent given only the property text and a scratch worktree",
    "needs_to_manifest": "see notes.md",
    "confirmed": {
        "patch_applies_to_repo_head": ev.get("patch_applies"), "builds": ev.get("builds"),
        "demo_passes_on_clean_tree": ev.get("demo_clean_pass"), "demo_fails_with_change": ev.get("demo_fails_with_change"),
        "repo_head": ev.get("repo_head"), "how": "python3 seeded_import.py <dir> <id> <checks> (seeded_eval.py)"},
    "caught_by": caught, "violation_keys": keys, "missed_by": missed}
if note: meta["note"] = note
json.dump(meta, open(os.path.join(dst, "meta.json"), "w"), indent=1)
print(json.dumps(meta, indent=1))
