#!/bin/bash
# usage: sweep.sh <first-seed> <last-seed> [tier] [checks...]
# Runs every (or the named) check at each seed and prints one line per run plus any violation/inconclusive detail.
a=${1:-1}; b=${2:-3}; tier=${3:-quick}; shift 3 2>/dev/null
checks="$@"
[ -z "$checks" ] && checks="C01 C02 C03 C04 C05 C06 C07 C08 C09 C10 C11 C12 C13 C14 C15 C16 C17 C18 C19 C20"
for seed in $(seq $a $b); do
  for p in $checks; do
    out=$(VERIF_SEED=$seed python3 vcheck.py $p $tier 2>&1)
    rc=$?
    echo "$out" | grep " seed=" | tail -1 | sed "s/^/rc=$rc /"
    if [ $rc -ne 0 ]; then
      echo "$out" | grep -A2 "^VIOLATION\|^INCONCLUSIVE" | cut -c1-400
      mkdir -p sweep_witness; cp work/$p/witness-*.json sweep_witness/ 2>/dev/null; for f in work/$p/witness-*.json; do [ -f "$f" ] && cp "$f" "sweep_witness/$p-seed$seed-$(basename $f)"; done
    fi
  done
done
