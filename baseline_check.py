#!/usr/bin/env python3
"""Run gordian's baseline suite with the verif guard OFF and compare with BASELINE.json stable_pass (by name)."""
import json, os, subprocess, sys, time
env = dict(os.environ, GOFLAGS="-mod=mod", GOPROXY="off")
env.pop("GOSUMDB", None)
t0 = time.time()
repo = sys.argv[1] if len(sys.argv) > 1 else "/repo"
p = subprocess.run(["go", "test", "-json", "-vet=off", "-count=1", "-timeout", "25m", "./..."], cwd=repo, env=env, stdout=subprocess.PIPE, stderr=subprocess.PIPE, text=True)
passed, failed = set(), set()
for line in p.stdout.splitlines():
    try:
        e = json.loads(line)
    except Exception:
        continue
    if e.get("Test") and e.get("Action") in ("pass", "fail"):
        name = "%s::%s" % (e["Package"], e["Test"])
        (passed if e["Action"] == "pass" else failed).add(name)
b = json.load(open("/root/.vp/BASELINE.json"))
stable = set(b["stable_pass"])
missing = sorted(stable - passed)
# The sandbox is shared with other heavy jobs: re-run stable tests that failed, alone, before judging.
still = []
for m in missing:
    pkg, test = m.split("::", 1)
    rel = "./" + pkg.replace("github.com/gordian-engine/gordian/", "")
    import re as _re
    pat = "/".join("^" + _re.escape(seg) + "$" for seg in test.split("/"))  # this (sub)test only, not its flaky siblings
    ok = False
    for _ in range(3):
        q = subprocess.run(["go", "test", "-vet=off", "-count=1", "-run", pat, rel], cwd=repo, env=env, stdout=subprocess.PIPE, stderr=subprocess.STDOUT, text=True)
        if q.returncode == 0:
            ok = True
            break
    if ok:
        print("  (stable test %s failed in the full run under load, passes alone)" % m)
        passed.add(m)
    else:
        still.append(m)
missing = still
print("passed=%d failed=%d stable=%d stable_not_passed=%d wall=%.0fs" % (len(passed), len(failed), len(stable), len(missing), time.time() - t0))
for m in missing:
    print("  STABLE TEST NOT PASSED:", m, "(failed)" if m in failed else "(not run)")
for f in sorted(failed - stable):
    print("  non-stable failure:", f)
if p.returncode != 0 and not failed:
    print(p.stderr[-3000:])
sys.exit(1 if missing else 0)
