package c13

// Key material, worlds (key set + messages + honest signatures) and the
// independent validity oracle for both signature-proof schemes.
//
// simple: keys and signatures come from crypto/ed25519 directly; validity of
//         an offered signature is decided by crypto/ed25519.Verify.
// bls:    keys come from gblsminsig.NewSigner with fixed input key material;
//         the harness keeps a ledger of the honest signature of every key over
//         every message and builds the expected aggregate of any node with blst
//         itself. BLS signatures are unique per (key set, message) and their
//         compressed encoding is canonical, so "offered bytes == ledger bytes"
//         decides validity without asking the code under test.

import (
	"bytes"
	"context"
	"crypto/ed25519"
	"crypto/sha256"
	"encoding/binary"
	"encoding/hex"
	"fmt"
	"math/rand/v2"
	"sync"

	"github.com/gordian-engine/gordian/gcrypto"
	"github.com/gordian-engine/gordian/gcrypto/gblsminsig"
	blst "github.com/supranational/blst/bindings/go"
)

const (
	kindSimple = "simple"
	kindBLS    = "bls"

	simplePool = 40 // candidate keys are drawn from this pool; max key-set size 33
	simpleMaxN = 33
	blsPool    = 24 // max key-set size 17
	blsMaxN    = 17
	blsMsgPool = 8
	nMsgs      = 4 // messages per world: 0 = program/main message, 1..3 = other blocks
)

// ---------------------------------------------------------------- ed25519 pool

var (
	edOnce sync.Once
	edPriv []ed25519.PrivateKey
	edPub  []gcrypto.Ed25519PubKey
)

func edInit() {
	edOnce.Do(func() {
		edPriv = make([]ed25519.PrivateKey, simplePool)
		edPub = make([]gcrypto.Ed25519PubKey, simplePool)
		for i := range edPriv {
			seed := sha256.Sum256([]byte(fmt.Sprintf("verif-c13-ed25519-%d", i)))
			edPriv[i] = ed25519.NewKeyFromSeed(seed[:])
			edPub[i] = gcrypto.Ed25519PubKey(edPriv[i].Public().(ed25519.PublicKey))
		}
	})
}

// ---------------------------------------------------------------- BLS pool

var (
	blsOnce    sync.Once
	blsSigners []gblsminsig.Signer
	blsPub     []gblsminsig.PubKey
	blsMsgs    [][]byte
	blsLedger  [][][]byte // [pool key][msg] -> honest compressed signature
)

func blsInit() {
	blsOnce.Do(func() {
		blsSigners = make([]gblsminsig.Signer, blsPool)
		blsPub = make([]gblsminsig.PubKey, blsPool)
		blsLedger = make([][][]byte, blsPool)
		blsMsgs = make([][]byte, blsMsgPool)
		for m := range blsMsgs {
			h := sha256.Sum256([]byte(fmt.Sprintf("verif-c13-bls-msg-%d", m)))
			// different lengths, including a one-byte message
			blsMsgs[m] = append([]byte(nil), h[:1+(m*9)%32]...)
		}
		var wg sync.WaitGroup
		for i := 0; i < blsPool; i++ {
			wg.Add(1)
			go func(i int) {
				defer wg.Done()
				ikm := sha256.Sum256([]byte(fmt.Sprintf("verif-c13-bls-%d", i)))
				s, err := gblsminsig.NewSigner(ikm[:])
				if err != nil {
					panic(err)
				}
				blsSigners[i] = s
				blsPub[i] = s.PubKey().(gblsminsig.PubKey)
				blsLedger[i] = make([][]byte, blsMsgPool)
				for m := range blsMsgs {
					sig, err := s.Sign(context.Background(), blsMsgs[m])
					if err != nil {
						panic(err)
					}
					blsLedger[i][m] = sig
				}
			}(i)
		}
		wg.Wait()
	})
}

// aggregate the compressed G1 signatures with blst directly.
func blsAggregate(sigs [][]byte) []byte {
	acc := new(blst.P1)
	for _, s := range sigs {
		a := new(blst.P1Affine).Uncompress(s)
		if a == nil {
			panic("harness: ledger signature does not decompress")
		}
		acc = acc.Add(a)
	}
	return acc.ToAffine().Compress()
}

// blsInfinitySig is the compressed point at infinity of G1.
func blsInfinitySig() []byte {
	b := make([]byte, 48)
	b[0] = 0xc0
	return b
}

// ---------------------------------------------------------------- world

type world struct {
	kind string
	sch  gcrypto.CommonMessageSignatureProofScheme
	n    int
	pool []int // pool index of the key at each position
	keys []gcrypto.PubKey
	hash string
	msgs [][]byte
	// bls: index of msgs[m] in the global message pool
	msgIx []int
	leaf  [][][]byte // [m][i], lazily filled for simple
	// bls geometry
	W      int
	nNodes int
	agg    []map[int][]byte
	// a key that is not part of the key set
	foreignPool int
	// simple: memo of crypto/ed25519.Verify results (signatures are re-verified
	// after every step; the oracle stays ed25519.Verify)
	vcache map[string]bool
}

func (w *world) edVerify(m, id int, sig []byte) bool {
	k := string([]byte{byte(m), byte(id)}) + string(sig)
	if v, ok := w.vcache[k]; ok {
		return v
	}
	v := ed25519.Verify(ed25519.PublicKey(edPub[w.pool[id]]), w.msgs[m], sig)
	if w.vcache == nil {
		w.vcache = map[string]bool{}
	}
	w.vcache[k] = v
	return v
}

func newWorld(kind string, rng *rand.Rand, n int) *world {
	w := &world{kind: kind, n: n}
	var poolN int
	switch kind {
	case kindSimple:
		edInit()
		w.sch = gcrypto.SimpleCommonMessageSignatureProofScheme{}
		poolN = simplePool
	case kindBLS:
		blsInit()
		w.sch = gblsminsig.SignatureProofScheme{}
		poolN = blsPool
	}
	perm := rng.Perm(poolN)
	w.pool = perm[:n]
	w.foreignPool = perm[n]
	w.keys = make([]gcrypto.PubKey, n)
	h := sha256.New()
	for i, pi := range w.pool {
		w.keys[i] = w.poolKey(pi)
		h.Write(w.keys[i].PubKeyBytes())
	}
	w.hash = hex.EncodeToString(h.Sum(nil)[:12])

	w.msgs = make([][]byte, nMsgs)
	w.leaf = make([][][]byte, nMsgs)
	switch kind {
	case kindSimple:
		seen := map[string]bool{}
		for m := 0; m < nMsgs; m++ {
			for {
				l := rng.IntN(48)
				if m == 1 && rng.IntN(8) == 0 {
					l = 0 // the empty message is a legal sign content
				}
				b := make([]byte, l)
				for j := range b {
					b[j] = byte(rng.UintN(256))
				}
				if !seen[string(b)] {
					seen[string(b)] = true
					w.msgs[m] = b
					break
				}
			}
			w.leaf[m] = make([][]byte, n)
		}
	case kindBLS:
		mp := rng.Perm(blsMsgPool)
		w.msgIx = mp[:nMsgs]
		for m := 0; m < nMsgs; m++ {
			w.msgs[m] = blsMsgs[w.msgIx[m]]
			w.leaf[m] = make([][]byte, n)
			for i, pi := range w.pool {
				w.leaf[m][i] = blsLedger[pi][w.msgIx[m]]
			}
		}
		w.W = 1
		for w.W < n {
			w.W <<= 1
		}
		w.nNodes = 2*w.W - 1
		w.agg = make([]map[int][]byte, nMsgs)
		for m := range w.agg {
			w.agg[m] = map[int][]byte{}
		}
	}
	return w
}

func (w *world) poolKey(pi int) gcrypto.PubKey {
	if w.kind == kindSimple {
		return edPub[pi]
	}
	return blsPub[pi]
}

// leafSig is the honest signature of the key at position i over message m.
// Callers must not modify the result.
func (w *world) leafSig(m, i int) []byte {
	if s := w.leaf[m][i]; s != nil {
		return s
	}
	s := ed25519.Sign(edPriv[w.pool[i]], w.msgs[m])
	w.leaf[m][i] = s
	return s
}

// foreignSig is an honest signature over message m by the key outside the set.
func (w *world) foreignSig(m int) []byte {
	if w.kind == kindSimple {
		return ed25519.Sign(edPriv[w.foreignPool], w.msgs[m])
	}
	return blsLedger[w.foreignPool][w.msgIx[m]]
}

func (w *world) sigLen() int {
	if w.kind == kindSimple {
		return ed25519.SignatureSize
	}
	return 48
}

func be16(v int) []byte {
	var b [2]byte
	binary.BigEndian.PutUint16(b[:], uint16(v))
	return b[:]
}

// ---- BLS tree geometry (written from the documentation of the scheme: leaves
// padded to a power of two W, node ids W.. enumerate the pairwise layers).

// nodeMask returns the real leaves covered by node id; ok is false outside the tree.
func (w *world) nodeMask(id int) (mask uint64, ok bool) {
	if id < 0 || id >= w.nNodes {
		return 0, false
	}
	start, width, layer := 0, w.W, 0
	for id >= start+width {
		start += width
		width >>= 1
		layer++
	}
	off := id - start
	lo := off << layer
	hi := (off + 1) << layer
	for i := lo; i < hi && i < w.n; i++ {
		mask |= 1 << uint(i)
	}
	return mask, true
}

// nodeID returns the id of the node at the given layer and offset.
func (w *world) nodeID(layer, off int) int {
	start, width := 0, w.W
	for l := 0; l < layer; l++ {
		start += width
		width >>= 1
	}
	return start + off
}

func (w *world) layers() int {
	l := 1
	for x := w.W; x > 1; x >>= 1 {
		l++
	}
	return l
}

// aggOver is the expected compressed aggregate of the honest signatures of
// the signers in mask over message m (mask != 0).
func (w *world) aggOver(m int, mask uint64) []byte {
	var sigs [][]byte
	for i := 0; i < w.n; i++ {
		if mask&(1<<uint(i)) != 0 {
			sigs = append(sigs, w.leafSig(m, i))
		}
	}
	if len(sigs) == 1 {
		return sigs[0]
	}
	return blsAggregate(sigs)
}

// nodeSig is the expected signature of a tree node (nil if it has no real leaf).
func (w *world) nodeSig(m, id int) []byte {
	if s, ok := w.agg[m][id]; ok {
		return s
	}
	mask, ok := w.nodeMask(id)
	var s []byte
	if ok && mask != 0 {
		s = w.aggOver(m, mask)
	}
	w.agg[m][id] = s
	return s
}

// aggKey is the aggregated public key of the signers in mask (blst directly).
func (w *world) aggKey(mask uint64) gblsminsig.PubKey {
	acc := new(blst.P2)
	for i := 0; i < w.n; i++ {
		if mask&(1<<uint(i)) != 0 {
			k := blst.P2Affine(blsPub[w.pool[i]])
			acc = acc.Add(&k)
		}
	}
	return gblsminsig.PubKey(*acc.ToAffine())
}

// ---------------------------------------------------------------- entry oracle

const (
	evValid    = iota // well-formed key id, signature verifies: bits in mask must be set
	evInvalid         // must not set any bit and must clear AllValidSignatures
	evUnjudged        // documentation does not say; bits in mask may be set
)

// judgeEntry decides one sparse signature offered to a proof over message m.
func (w *world) judgeEntry(m int, e gcrypto.SparseSignature) (cls int, mask uint64) {
	switch w.kind {
	case kindSimple:
		if len(e.KeyID) < 2 {
			return evInvalid, 0
		}
		id := int(binary.BigEndian.Uint16(e.KeyID[:2]))
		ok := id < w.n && w.edVerify(m, id, e.Sig)
		if !ok {
			return evInvalid, 0
		}
		if len(e.KeyID) > 2 {
			// HasSparseKeyID and the KeyIDChecker call such an id invalid, MergeSparse
			// reads its first two bytes. The signature does verify for that key.
			return evUnjudged, 1 << uint(id)
		}
		return evValid, 1 << uint(id)
	default:
		if len(e.KeyID) != 2 {
			return evInvalid, 0
		}
		id := int(binary.BigEndian.Uint16(e.KeyID))
		mask, ok := w.nodeMask(id)
		if !ok {
			return evInvalid, 0
		}
		if mask == 0 {
			// padding node without any key: whatever is said about the
			// signature, there is no signer whose bit could be set.
			return evUnjudged, 0
		}
		if bytes.Equal(e.Sig, w.nodeSig(m, id)) {
			return evValid, mask
		}
		return evInvalid, 0
	}
}

// honestEntries builds a sparse list carrying exactly the signers in mask.
// style 0: canonical (one entry per signer / maximal aggregates);
// style 1: random mix of leaves and aggregates, shuffled, with repetitions.
func (w *world) honestEntries(rng *rand.Rand, m int, mask uint64, style int) []gcrypto.SparseSignature {
	var out []gcrypto.SparseSignature
	add := func(id int, sig []byte) {
		out = append(out, gcrypto.SparseSignature{KeyID: be16(id), Sig: bytes.Clone(sig)})
	}
	if w.kind == kindSimple {
		for i := 0; i < w.n; i++ {
			if mask&(1<<uint(i)) != 0 {
				add(i, w.leafSig(m, i))
			}
		}
	} else {
		top := w.layers() - 1
		var walk func(layer, off int)
		walk = func(layer, off int) {
			id := w.nodeID(layer, off)
			nm, _ := w.nodeMask(id)
			if nm == 0 || nm&mask == 0 {
				return
			}
			full := nm&mask == nm
			if layer == 0 {
				add(id, w.leafSig(m, off))
				return
			}
			if full && (style == 0 || rng.IntN(3) != 0) {
				add(id, w.nodeSig(m, id))
				if style == 1 && rng.IntN(6) == 0 {
					// redundant information below an aggregate
					walk(layer-1, 2*off+rng.IntN(2))
				}
				return
			}
			walk(layer-1, 2*off)
			walk(layer-1, 2*off+1)
		}
		walk(top, 0)
	}
	if style == 1 && len(out) > 0 {
		for k := rng.IntN(3); k > 0; k-- {
			d := out[rng.IntN(len(out))]
			out = append(out, gcrypto.SparseSignature{KeyID: bytes.Clone(d.KeyID), Sig: bytes.Clone(d.Sig)})
		}
		rng.Shuffle(len(out), func(a, b int) { out[a], out[b] = out[b], out[a] })
	}
	return out
}

func randMask(rng *rand.Rand, n int) uint64 {
	var full uint64 = (1 << uint(n)) - 1
	switch rng.IntN(8) {
	case 0:
		return 0
	case 1:
		return full
	case 2:
		return 1 << uint(rng.IntN(n))
	case 3: // a contiguous run
		a, b := rng.IntN(n), rng.IntN(n)
		if a > b {
			a, b = b, a
		}
		return (((uint64(1) << uint(b-a+1)) - 1) << uint(a)) & full
	default:
		return rng.Uint64()&rng.Uint64()&full | rng.Uint64()&rng.Uint64()&rng.Uint64()&full
	}
}

func maskList(mask uint64) []int {
	out := []int{}
	for i := 0; i < 64; i++ {
		if mask&(1<<uint(i)) != 0 {
			out = append(out, i)
		}
	}
	return out
}

func strictSuperset(a, b uint64) bool { return a&b == b && a != b }
