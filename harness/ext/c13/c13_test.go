package c13

// C13 — signature proofs merge as verified set union and round-trip.
//
// Reference model: a proof is a set of signer indices (uint64 mask). Random
// programs over {AddSignature, Merge, MergeSparse, Clone+mutate, AsSparse->rebuild,
// Derive, ...} are run against the real proof types of both shipped schemes; after
// every operation every live proof is compared with its model (bit set and sparse
// form), merge flags are compared with the model's verdict where the interface
// documentation fixes them, and every call into gordian runs under verifkit.Guard.
// The second half of each case finalizes a partition of the signers into
// main/rest blocks, validates it back, and then feeds corrupted finalized proofs
// to ValidateFinalizedProof.

import (
	"bytes"
	"encoding/hex"
	"fmt"
	"math/rand/v2"
	"os"
	"sort"
	"strconv"
	"strings"
	"sync"
	"testing"

	"github.com/bits-and-blooms/bitset"
	"github.com/gordian-engine/gordian/gcrypto"
	"verif/ext/verifkit"
)

const maxPool = 5

type proofState struct {
	p     gcrypto.CommonMessageSignatureProof
	model uint64
	m     int // index of the message this proof is about
	tag   string
}

type opRec struct {
	op   string
	t, s int
	raw  any
	note string
}

type caseCtx struct {
	r    *verifkit.Run
	w    *world
	rng  *rand.Rand
	id   string
	pool []*proofState
	aux  []*proofState
	ops  []opRec

	stats        map[string]int64
	judgedMerges int
	opKinds      []byte
	finNote      string
	finJudged    bool
}

func (c *caseCtx) count(name string) { c.stats[name]++ }

// ------------------------------------------------------------------ witness

func sparseJSON(sp gcrypto.SparseSignatureProof) map[string]any {
	return map[string]any{"pubKeyHash": sp.PubKeyHash, "signatures": sigsJSON(sp.Signatures)}
}

func sigsJSON(ss []gcrypto.SparseSignature) []map[string]string {
	out := make([]map[string]string, 0, len(ss))
	for _, s := range ss {
		out = append(out, map[string]string{"keyID": hex.EncodeToString(s.KeyID), "sig": hex.EncodeToString(s.Sig)})
	}
	return out
}

func (o opRec) json() map[string]any {
	m := map[string]any{"op": o.op, "target": o.t}
	if o.s >= 0 {
		m["source"] = o.s
	}
	if o.note != "" {
		m["note"] = o.note
	}
	switch v := o.raw.(type) {
	case nil:
	case gcrypto.SparseSignatureProof:
		m["sparse"] = sparseJSON(v)
	case []byte:
		m["sig"] = hex.EncodeToString(v)
	default:
		m["detail"] = v
	}
	return m
}

func (c *caseCtx) witness(extra map[string]any) map[string]any {
	w := c.w
	keys := make([]string, len(w.keys))
	for i, k := range w.keys {
		keys[i] = hex.EncodeToString(k.PubKeyBytes())
	}
	msgs := make([]string, len(w.msgs))
	for i, m := range w.msgs {
		msgs[i] = hex.EncodeToString(m)
	}
	ops := make([]map[string]any, 0, len(c.ops))
	for _, o := range c.ops {
		ops = append(ops, o.json())
	}
	models := []string{}
	for _, ps := range c.pool {
		models = append(models, fmt.Sprintf("%s msg%d %v", ps.tag, ps.m, maskList(ps.model)))
	}
	out := map[string]any{
		"scheme": w.kind, "case": c.id, "nKeys": w.n, "keyPoolIndices": w.pool,
		"pubKeys": keys, "pubKeyHash": w.hash, "messages": msgs,
		"note":           "keys: simple = ed25519.NewKeyFromSeed(sha256(\"verif-c13-ed25519-<poolIdx>\")); bls = gblsminsig.NewSigner(sha256(\"verif-c13-bls-<poolIdx>\")). Operations are listed in execution order; the last one is the failing one. target/source are pool slots; every pool proof is over messages[0] unless stated.",
		"operations":     ops,
		"modelsBeforeOp": models,
	}
	for k, v := range extra {
		out[k] = v
	}
	return out
}

// seenKeys: the kit keeps the first witness per key; building further ones is wasted work.
var seenKeys sync.Map

func (c *caseCtx) violate(key, what string, extra map[string]any) {
	c.count("violations_raised")
	// same defect, same key: "n(-#)" and "n(#)" are one message template
	key = strings.ReplaceAll(key, "-#", "#")
	v, _ := seenKeys.LoadOrStore(key, new(sync.Once))
	first := false
	v.(*sync.Once).Do(func() {
		first = true
		c.r.Violate(key, what, c.id, c.witness(extra))
	})
	if !first {
		c.r.Violate(key, what, c.id, nil)
	}
}

// guard runs one call into gordian; a panic is a violation keyed by panic site + scheme.
func (c *caseCtx) guard(site string, fn func()) (panicked bool) {
	p, key, msg, stack := verifkit.Guard(fn)
	if p {
		c.count("panics")
		if len(stack) > 3000 {
			stack = stack[:3000]
		}
		c.violate(key+":"+c.w.kind, fmt.Sprintf("%s %s panicked: %s", c.w.kind, site, msg),
			map[string]any{"site": site, "panic": msg, "stack": stack})
	}
	return p
}

func (c *caseCtx) log(op string, t, s int, raw any, note string) {
	c.ops = append(c.ops, opRec{op: op, t: t, s: s, raw: raw, note: note})
	c.count("op." + op)
}

// ------------------------------------------------------------------ observation

// readBits returns the signer mask of a proof. Bits outside the key set are a violation.
func (c *caseCtx) readBits(p gcrypto.CommonMessageSignatureProof, site string) (mask uint64, ok bool) {
	var bs bitset.BitSet
	if c.rng.IntN(4) == 0 {
		// the destination may hold stale content: it must be overwritten
		bs.Set(70).Set(2).Set(uint(c.w.n))
	}
	if c.guard("SignatureBitSet after "+site, func() { p.SignatureBitSet(&bs) }) {
		return 0, false
	}
	return c.maskOf(&bs, site)
}

func (c *caseCtx) maskOf(bs *bitset.BitSet, site string) (mask uint64, ok bool) {
	ok = true
	for u, found := bs.NextSet(0); found; u, found = bs.NextSet(u + 1) {
		if int(u) >= c.w.n {
			c.violate("C13:bit-beyond-key-set:"+c.w.kind+":"+siteClass(site),
				fmt.Sprintf("bit %d is set in a proof over %d keys after %s", u, c.w.n, site),
				map[string]any{"bit": u})
			ok = false
			continue
		}
		mask |= 1 << u
	}
	return mask, ok
}

// siteClass strips everything after the first space so that keys stay stable.
func siteClass(s string) string {
	if i := strings.IndexByte(s, ' '); i >= 0 {
		return s[:i]
	}
	return s
}

// checkBounds compares the observed set with [lower, upper] and resyncs the model.
func (c *caseCtx) checkBounds(ps *proofState, op string, prior, lower, upper uint64) (after uint64, exact bool) {
	after, _ = c.readBits(ps.p, op)
	exact = true
	if bad := after &^ upper; bad != 0 {
		exact = false
		c.violate("C13:bit-set-for-invalid-signature:"+c.w.kind+":"+op,
			fmt.Sprintf("%s set signer bits %v that were neither present before nor offered with a verifying signature (before %v, after %v)", op, maskList(bad), maskList(prior), maskList(after)),
			map[string]any{"before": maskList(prior), "after": maskList(after), "unjustified": maskList(bad)})
	}
	if lost := prior &^ after; lost != 0 {
		exact = false
		c.violate("C13:signer-bit-lost:"+c.w.kind+":"+op,
			fmt.Sprintf("%s cleared signer bits %v (before %v, after %v)", op, maskList(lost), maskList(prior), maskList(after)),
			map[string]any{"before": maskList(prior), "after": maskList(after)})
	}
	if miss := lower &^ prior &^ after; miss != 0 {
		exact = false
		c.violate("C13:valid-signature-not-merged:"+c.w.kind+":"+op,
			fmt.Sprintf("%s was offered verifying signatures of signers %v but their bits are not set (before %v, after %v)", op, maskList(miss), maskList(prior), maskList(after)),
			map[string]any{"before": maskList(prior), "after": maskList(after), "missing": maskList(miss)})
	}
	ps.model = after
	return after, exact
}

// checkAll compares every live proof with its model: bit set and sparse form.
func (c *caseCtx) checkAll(op string) {
	all := append(append([]*proofState{}, c.pool...), c.aux...)
	for slot, ps := range all {
		got, _ := c.readBits(ps.p, op)
		if got != ps.model {
			c.violate("C13:uninvolved-proof-changed:"+c.w.kind+":"+op,
				fmt.Sprintf("after %s the proof in slot %d (%s) holds %v, the model says %v: an operation changed a proof it must not touch (clone/merge-source independence)", op, slot, ps.tag, maskList(got), maskList(ps.model)),
				map[string]any{"slot": slot, "got": maskList(got), "model": maskList(ps.model)})
			ps.model = got
		}
		c.checkSparse(ps, slot, op)
	}
}

// checkSparse: the sparse form carries exactly the model set, with verifying signatures.
func (c *caseCtx) checkSparse(ps *proofState, slot int, op string) {
	var sp gcrypto.SparseSignatureProof
	if c.guard("AsSparse after "+op, func() { sp = ps.p.AsSparse() }) {
		return
	}
	if sp.PubKeyHash != c.w.hash && ps.tag != "otherhash" {
		c.violate("C13:sparse-pubkeyhash-differs:"+c.w.kind, "AsSparse().PubKeyHash differs from the hash the proof was created with",
			map[string]any{"slot": slot, "sparse": sparseJSON(sp)})
	}
	var union uint64
	for _, e := range sp.Signatures {
		cls, mask := c.w.judgeEntry(ps.m, e)
		if cls != evValid {
			c.violate("C13:sparse-form-has-non-verifying-entry:"+c.w.kind+":"+op,
				fmt.Sprintf("after %s, AsSparse of slot %d (%s) contains an entry (key id %x) whose signature does not verify for that id", op, slot, ps.tag, e.KeyID),
				map[string]any{"slot": slot, "sparse": sparseJSON(sp)})
			continue
		}
		union |= mask
	}
	if union != ps.model {
		c.violate("C13:sparse-form-differs-from-bit-set:"+c.w.kind+":"+op,
			fmt.Sprintf("after %s, AsSparse of slot %d (%s) carries signers %v but the bit set is %v", op, slot, ps.tag, maskList(union), maskList(ps.model)),
			map[string]any{"slot": slot, "sparse": sparseJSON(sp), "bitset": maskList(ps.model)})
	}
	// the key id checker of the scheme must accept what the scheme itself emits
	chk := c.w.sch.KeyIDChecker(c.w.keys)
	for _, e := range sp.Signatures {
		var ok bool
		if c.guard("KeyIDChecker.IsValid", func() { ok = chk.IsValid(e.KeyID) }) {
			continue
		}
		if !ok {
			c.violate("C13:keyidchecker-rejects-own-sparse-id:"+c.w.kind, fmt.Sprintf("KeyIDChecker.IsValid(%x) is false for an id produced by AsSparse", e.KeyID),
				map[string]any{"slot": slot, "sparse": sparseJSON(sp)})
		}
	}
}

func (c *caseCtx) flag(name, op string, got, want bool, detail map[string]any) {
	c.count("flag_judged." + name)
	if got == want {
		return
	}
	detail["flag"] = name
	detail["got"] = got
	detail["want"] = want
	c.violate("C13:merge-flag-mismatch:"+name+":"+c.w.kind+":"+op,
		fmt.Sprintf("%s returned %s=%v, the model says %v (%v)", op, name, got, want, detail), detail)
}

// ------------------------------------------------------------------ pool

func (c *caseCtx) newProof(m int, hash, tag string) *proofState {
	var p gcrypto.CommonMessageSignatureProof
	var err error
	if c.guard("New", func() { p, err = c.w.sch.New(c.w.msgs[m], c.w.keys, hash) }) || err != nil || p == nil {
		if err != nil {
			c.violate("C13:new-returns-error:"+c.w.kind, "scheme.New returned an error: "+err.Error(), nil)
		}
		return nil
	}
	return &proofState{p: p, m: m, tag: tag}
}

func (c *caseCtx) put(ps *proofState, protect int) int {
	if len(c.pool) < maxPool {
		c.pool = append(c.pool, ps)
		return len(c.pool) - 1
	}
	for {
		i := c.rng.IntN(len(c.pool))
		if i != protect {
			c.pool[i] = ps
			return i
		}
	}
}

func (c *caseCtx) pick() int { return c.rng.IntN(len(c.pool)) }

// ------------------------------------------------------------------ operations

func (c *caseCtx) pickSigner(ps *proofState, preferAbsent bool) int {
	n := c.w.n
	for try := 0; try < 6; try++ {
		i := c.rng.IntN(n)
		has := ps.model&(1<<uint(i)) != 0
		if has != preferAbsent {
			return i
		}
	}
	return c.rng.IntN(n)
}

func (c *caseCtx) opAddValid(t int) {
	ps := c.pool[t]
	i := c.pickSigner(ps, c.rng.IntN(4) != 0)
	sig := bytes.Clone(c.w.leafSig(ps.m, i))
	c.log("AddSignature", t, -1, sig, fmt.Sprintf("valid signature of key %d", i))
	prior := ps.model
	var err error
	if c.guard("AddSignature", func() { err = ps.p.AddSignature(sig, c.w.keys[i]) }) {
		c.checkBounds(ps, "AddSignature", prior, prior, prior|1<<uint(i))
		return
	}
	c.checkBounds(ps, "AddSignature", prior, prior|1<<uint(i), prior|1<<uint(i))
	if err != nil {
		c.violate("C13:AddSignature-rejects-valid-signature:"+c.w.kind, "AddSignature returned an error for a verifying signature of a candidate key: "+err.Error(),
			map[string]any{"key": i})
	}
}

// mutateSig returns a non-verifying variant of the honest signature of signer i.
func (c *caseCtx) mutateSig(m, i int) (sig []byte, tag string) {
	w, rng := c.w, c.rng
	good := bytes.Clone(w.leafSig(m, i))
	switch rng.IntN(9) {
	case 0:
		return bytes.Clone(w.leafSig((m+1+rng.IntN(nMsgs-1))%nMsgs, i)), "sig-of-other-message"
	case 1:
		if w.n > 1 {
			j := (i + 1 + rng.IntN(w.n-1)) % w.n
			return bytes.Clone(w.leafSig(m, j)), "sig-of-other-key"
		}
		return bytes.Clone(w.foreignSig(m)), "sig-of-foreign-key"
	case 2:
		good[rng.IntN(len(good))] ^= 1 << uint(rng.IntN(8))
		return good, "sig-bitflip"
	case 3:
		return good[:rng.IntN(len(good))], "sig-truncated"
	case 4:
		if rng.IntN(2) == 0 {
			return nil, "sig-nil"
		}
		return []byte{}, "sig-empty"
	case 5:
		return append(good, byte(rng.UintN(256))), "sig-extended"
	case 6:
		b := make([]byte, w.sigLen())
		for k := range b {
			b[k] = byte(rng.UintN(256))
		}
		return b, "sig-random"
	case 7:
		if w.kind == kindBLS {
			return blsInfinitySig(), "sig-infinity"
		}
		return make([]byte, w.sigLen()), "sig-zero"
	default:
		return make([]byte, w.sigLen()), "sig-zero"
	}
}

func (c *caseCtx) opAddInvalid(t int) {
	ps := c.pool[t]
	i := c.pickSigner(ps, c.rng.IntN(2) == 0)
	sig, tag := c.mutateSig(ps.m, i)
	cls, _ := c.w.judgeEntry(ps.m, gcrypto.SparseSignature{KeyID: be16(c.leafID(i)), Sig: sig})
	c.log("AddSignature", t, -1, bytes.Clone(sig), fmt.Sprintf("%s for key %d (key has bit: %v)", tag, i, ps.model&(1<<uint(i)) != 0))
	prior := ps.model
	if cls == evValid { // astronomically unlikely
		c.count("mutation_still_valid")
		_ = c.guard("AddSignature", func() { _ = ps.p.AddSignature(sig, c.w.keys[i]) })
		c.checkBounds(ps, "AddSignature", prior, prior|1<<uint(i), prior|1<<uint(i))
		return
	}
	var err error
	if c.guard("AddSignature", func() { err = ps.p.AddSignature(sig, c.w.keys[i]) }) {
		c.checkBounds(ps, "AddSignature", prior, prior, prior)
		return
	}
	c.checkBounds(ps, "AddSignature", prior, prior, prior)
	if err == nil {
		c.violate("C13:AddSignature-accepts-invalid-signature:"+c.w.kind, "AddSignature returned nil for a signature that does not verify ("+tag+")",
			map[string]any{"key": i, "mutation": tag})
	}
}

func (c *caseCtx) leafID(i int) int { return i }

func (c *caseCtx) opAddUnknown(t int) {
	ps := c.pool[t]
	sig := bytes.Clone(c.w.foreignSig(ps.m))
	key := c.w.poolKey(c.w.foreignPool)
	c.log("AddSignature", t, -1, sig, fmt.Sprintf("valid signature of a key outside the key set (pool index %d, %x)", c.w.foreignPool, key.PubKeyBytes()))
	prior := ps.model
	var err error
	if c.guard("AddSignature", func() { err = ps.p.AddSignature(sig, key) }) {
		c.checkBounds(ps, "AddSignature", prior, prior, prior)
		return
	}
	c.checkBounds(ps, "AddSignature", prior, prior, prior)
	if err == nil {
		c.violate("C13:AddSignature-accepts-unknown-key:"+c.w.kind, "AddSignature returned nil for a key that is not a candidate key", nil)
	}
}

// opAddAggKey (BLS): AddSignature with an aggregated key of the tree. The
// documentation does not say whether this is accepted; only the bits are judged.
func (c *caseCtx) opAddAggKey(t int) {
	w := c.w
	if w.kind != kindBLS || w.W < 2 {
		return
	}
	ps := c.pool[t]
	id := w.W + c.rng.IntN(w.nNodes-w.W)
	mask, _ := w.nodeMask(id)
	if mask == 0 || mask&(mask-1) == 0 {
		return
	}
	key := w.aggKey(mask)
	valid := c.rng.IntN(3) != 0
	var sig []byte
	if valid {
		sig = bytes.Clone(w.nodeSig(ps.m, id))
	} else {
		sig = bytes.Clone(w.leafSig(ps.m, maskList(mask)[0]))
	}
	c.log("AddSignature", t, -1, sig, fmt.Sprintf("aggregated key of node %d (signers %v), valid aggregate signature: %v", id, maskList(mask), valid))
	prior := ps.model
	var err error
	c.guard("AddSignature", func() { err = ps.p.AddSignature(sig, key) })
	upper := prior
	if valid {
		upper |= mask
	}
	after, _ := c.checkBounds(ps, "AddSignature", prior, prior, upper)
	if err != nil && after != prior {
		c.violate("C13:AddSignature-error-but-bits-changed:"+w.kind, "AddSignature returned an error and changed the bit set", nil)
	}
	c.count("unjudged.add_with_aggregated_key")
}

func (c *caseCtx) opMerge(t, s int) {
	dst, src := c.pool[t], c.pool[s]
	c.log("Merge", t, s, nil, fmt.Sprintf("target holds %v, source holds %v", maskList(dst.model), maskList(src.model)))
	prior, offered := dst.model, src.model
	var res gcrypto.SignatureProofMergeResult
	if c.guard("Merge", func() { res = dst.p.Merge(src.p) }) {
		c.checkBounds(dst, "Merge", prior, prior, prior|offered)
		return
	}
	_, exact := c.checkBounds(dst, "Merge", prior, prior|offered, prior|offered)
	d := func() map[string]any {
		return map[string]any{"before": maskList(prior), "offered": maskList(offered), "result": fmt.Sprintf("%+v", res)}
	}
	if !exact {
		return
	}
	c.flag("AllValidSignatures", "Merge", res.AllValidSignatures, true, d())
	c.flag("IncreasedSignatures", "Merge", res.IncreasedSignatures, offered&^prior != 0, d())
	if prior == 0 && offered == 0 {
		c.count("unjudged.strict_superset_both_empty")
	} else {
		c.flag("WasStrictSuperset", "Merge", res.WasStrictSuperset, strictSuperset(offered, prior), d())
	}
	c.judgedMerges++
}

// opMergeMismatch merges a proof about another message (same keys, same hash) or
// with another key hash. Those signatures do not verify for the target's message /
// the proofs do not match: no bit may change and nothing was increased.
func (c *caseCtx) opMergeMismatch(t int) {
	dst := c.pool[t]
	var other *proofState
	if c.rng.IntN(3) == 0 {
		other = c.newProof(dst.m, c.w.hash+"x", "otherhash")
	} else {
		other = c.newProof((dst.m+1+c.rng.IntN(nMsgs-1))%nMsgs, c.w.hash, "othermsg")
	}
	if other == nil {
		return
	}
	mask := randMask(c.rng, c.w.n)
	for _, i := range maskList(mask) {
		sig := bytes.Clone(c.w.leafSig(other.m, i))
		c.guard("AddSignature", func() { _ = other.p.AddSignature(sig, c.w.keys[i]) })
	}
	other.model, _ = c.readBits(other.p, "AddSignature")
	if other.model != mask {
		c.violate("C13:valid-signature-not-merged:"+c.w.kind+":AddSignature", "building a proof from valid signatures did not give the signer set", map[string]any{"want": maskList(mask), "got": maskList(other.model)})
	}
	if len(c.aux) >= 2 {
		c.aux = c.aux[1:]
	}
	c.aux = append(c.aux, other)
	c.log("Merge", t, -1, map[string]any{"otherMessageIndex": other.m, "otherHash": string(other.p.PubKeyHash()), "otherSigners": maskList(mask)}, "source does not match the target ("+other.tag+")")
	prior := dst.model
	var res gcrypto.SignatureProofMergeResult
	if c.guard("Merge", func() { res = dst.p.Merge(other.p) }) {
		c.checkBounds(dst, "Merge", prior, prior, prior)
		return
	}
	if _, exact := c.checkBounds(dst, "Merge", prior, prior, prior); exact {
		c.flag("IncreasedSignatures", "Merge", res.IncreasedSignatures, false,
			map[string]any{"before": maskList(prior), "mismatch": other.tag, "result": fmt.Sprintf("%+v", res)})
	}
	var mt bool
	if !c.guard("Matches", func() { mt = dst.p.Matches(other.p) }) && mt {
		c.violate("C13:matches-true-for-different-proof:"+c.w.kind, "Matches is true for a proof with another message or key hash", map[string]any{"mismatch": other.tag})
	}
}

// mergeSparse runs MergeSparse on ps and judges bits and flags.
func (c *caseCtx) mergeSparse(ps *proofState, sp gcrypto.SparseSignatureProof, op string) (res gcrypto.SignatureProofMergeResult, ok bool) {
	prior := ps.model
	var must, may, offered uint64
	anyInvalid, anyUnjudged := false, false
	for _, e := range sp.Signatures {
		cls, mask := c.w.judgeEntry(ps.m, e)
		switch cls {
		case evValid:
			must |= mask
		case evInvalid:
			anyInvalid = true
		default:
			anyUnjudged = true
			may |= mask
		}
	}
	offered = must | may
	hashOK := sp.PubKeyHash == c.w.hash
	lower, upper := prior|must, prior|must|may
	if !hashOK {
		lower = prior
	}
	if c.guard("MergeSparse", func() { res = ps.p.MergeSparse(sp) }) {
		// entries before the faulting one may have been merged
		c.checkBounds(ps, op, prior, prior, upper)
		return res, false
	}
	after, exact := c.checkBounds(ps, op, prior, lower, upper)
	if !exact {
		return res, false
	}
	d := func() map[string]any {
		return map[string]any{"before": maskList(prior), "offeredValid": maskList(must), "anyInvalidEntry": anyInvalid, "after": maskList(after), "result": fmt.Sprintf("%+v", res)}
	}
	if !hashOK {
		c.count("unjudged.flags_pubkeyhash_mismatch")
		return res, true
	}
	switch {
	case anyInvalid:
		c.flag("AllValidSignatures", op, res.AllValidSignatures, false, d())
	case anyUnjudged:
		c.count("unjudged.allvalid_with_undocumented_key_id")
	default:
		c.flag("AllValidSignatures", op, res.AllValidSignatures, true, d())
	}
	if lower == upper {
		c.flag("IncreasedSignatures", op, res.IncreasedSignatures, after != prior, d())
	}
	switch {
	case anyInvalid || anyUnjudged:
		c.count("unjudged.strict_superset_with_invalid_entries")
	case prior == 0 && offered == 0:
		c.count("unjudged.strict_superset_both_empty")
	default:
		c.flag("WasStrictSuperset", op, res.WasStrictSuperset, strictSuperset(offered, prior), d())
	}
	c.judgedMerges++
	return res, true
}

func (c *caseCtx) opMergeSparseHonest(t int) {
	ps := c.pool[t]
	var sp gcrypto.SparseSignatureProof
	note := ""
	if len(c.pool) > 1 && c.rng.IntN(2) == 0 {
		s := c.pick()
		src := c.pool[s]
		if c.guard("AsSparse", func() { sp = src.p.AsSparse() }) {
			return
		}
		note = fmt.Sprintf("AsSparse of slot %d (%v)", s, maskList(src.model))
	} else {
		mask := randMask(c.rng, c.w.n)
		if c.rng.IntN(3) == 0 {
			mask |= ps.model // a superset of what the target holds
		}
		style := c.rng.IntN(2)
		sp = gcrypto.SparseSignatureProof{PubKeyHash: c.w.hash, Signatures: c.w.honestEntries(c.rng, ps.m, mask, style)}
		note = fmt.Sprintf("honest entries for %v, style %d", maskList(mask), style)
	}
	c.log("MergeSparse", t, -1, sp, note)
	c.mergeSparse(ps, sp, "MergeSparse")
}

// badEntry builds one corrupted sparse entry around signer i.
func (c *caseCtx) badEntry(ps *proofState, i int) (gcrypto.SparseSignature, string) {
	w, rng := c.w, c.rng
	good := gcrypto.SparseSignature{KeyID: be16(i), Sig: bytes.Clone(w.leafSig(ps.m, i))}
	pick := rng.IntN(14)
	switch {
	case pick < 4: // key id length 0,1,3,4 with a verifying signature
		switch pick {
		case 0:
			if rng.IntN(2) == 0 {
				good.KeyID = nil
			} else {
				good.KeyID = []byte{}
			}
			return good, "keyid-len0"
		case 1:
			good.KeyID = []byte{byte(i)}
			return good, "keyid-len1"
		case 2:
			good.KeyID = append(be16(i), byte(rng.UintN(256)))
			return good, "keyid-len3"
		default:
			good.KeyID = append(be16(i), byte(rng.UintN(256)), byte(rng.UintN(256)))
			return good, "keyid-len4"
		}
	case pick < 6: // out of range
		cands := []int{w.n, w.n + 1 + rng.IntN(40), 0xFFFF, 0x0100 | i, 0x8000 | i}
		if w.kind == kindBLS {
			cands = append(cands, w.nNodes, w.nNodes+1, 2*w.nNodes)
		}
		good.KeyID = be16(cands[rng.IntN(len(cands))])
		return good, "keyid-out-of-range-or-foreign-node"
	case pick < 7: // another key's id
		if w.n > 1 {
			good.KeyID = be16((i + 1 + rng.IntN(w.n-1)) % w.n)
		}
		return good, "keyid-of-other-key"
	case pick < 9 && w.kind == kindBLS && w.W > 1: // aggregate / padding ids
		id := w.W + rng.IntN(w.nNodes-w.W)
		if rng.IntN(3) == 0 && w.W > w.n {
			id = w.n + rng.IntN(w.W-w.n) // padded leaf
		}
		good.KeyID = be16(id)
		mask, _ := w.nodeMask(id)
		switch rng.IntN(3) {
		case 0:
			good.Sig = blsInfinitySig()
			return good, fmt.Sprintf("bls-node-%d(%v)-with-infinity-signature", id, maskList(mask))
		case 1:
			if mask != 0 { // aggregate of a strict subset / of other signers
				sub := mask & randMask(rng, w.n)
				if sub == 0 || sub == mask {
					sub = 1 << uint(i)
				}
				good.Sig = bytes.Clone(w.aggOver(ps.m, sub))
				return good, fmt.Sprintf("bls-node-%d(%v)-with-aggregate-of-%v", id, maskList(mask), maskList(sub))
			}
		}
		return good, fmt.Sprintf("bls-node-%d(%v)-with-leaf-signature-of-%d", id, maskList(mask), i)
	default:
		sig, tag := c.mutateSig(ps.m, i)
		good.Sig = sig
		return good, tag
	}
}

func (c *caseCtx) opMergeSparseCorrupt(t int) {
	ps := c.pool[t]
	w, rng := c.w, c.rng
	mask := uint64(0)
	if rng.IntN(3) != 0 {
		mask = randMask(rng, w.n)
	}
	entries := w.honestEntries(rng, ps.m, mask, rng.IntN(2))
	var tags []string
	for k := 1 + rng.IntN(3); k > 0; k-- {
		i := c.pickSigner(ps, rng.IntN(2) == 0)
		e, tag := c.badEntry(ps, i)
		tags = append(tags, fmt.Sprintf("%s@signer%d(has bit: %v)", tag, i, ps.model&(1<<uint(i)) != 0))
		pos := rng.IntN(len(entries) + 1)
		entries = append(entries, gcrypto.SparseSignature{})
		copy(entries[pos+1:], entries[pos:])
		entries[pos] = e
	}
	sp := gcrypto.SparseSignatureProof{PubKeyHash: w.hash, Signatures: entries}
	if rng.IntN(12) == 0 {
		sp.PubKeyHash = w.hash[:len(w.hash)-1]
		tags = append(tags, "wrong-pubkeyhash")
	}
	c.log("MergeSparse", t, -1, sp, "honest entries for "+fmt.Sprint(maskList(mask))+" plus corruptions: "+strings.Join(tags, ", "))
	c.count("op.MergeSparse.corrupt")
	c.mergeSparse(ps, sp, "MergeSparse")
}

func (c *caseCtx) mutate(t int) {
	if c.rng.IntN(2) == 0 {
		c.opAddValid(t)
	} else {
		c.opMergeSparseHonest(t)
	}
	c.checkAll("mutation-after-Clone")
}

func (c *caseCtx) opClone(s int) {
	src := c.pool[s]
	c.log("Clone", -1, s, nil, "")
	var cl gcrypto.CommonMessageSignatureProof
	if c.guard("Clone", func() { cl = src.p.Clone() }) || cl == nil {
		return
	}
	t := c.put(&proofState{p: cl, model: src.model, m: src.m, tag: "clone"}, s)
	c.ops[len(c.ops)-1].t = t
	c.checkAll("Clone")
	var mt bool
	if !c.guard("Matches", func() { mt = src.p.Matches(cl) && cl.Matches(src.p) }) && !mt {
		c.violate("C13:clone-does-not-match-origin:"+c.w.kind, "Matches is false between a proof and its clone", nil)
	}
	// mutate the clone, then the origin; checkAll after each finds shared state
	c.mutate(t)
	c.mutate(s)
}

func (c *caseCtx) opDerive(s int) {
	src := c.pool[s]
	c.log("Derive", -1, s, nil, "")
	var d gcrypto.CommonMessageSignatureProof
	if c.guard("Derive", func() { d = src.p.Derive() }) || d == nil {
		return
	}
	t := c.put(&proofState{p: d, model: 0, m: src.m, tag: "derived"}, s)
	c.ops[len(c.ops)-1].t = t
	c.checkAll("Derive")
	var mt bool
	if !c.guard("Matches", func() { mt = src.p.Matches(d) }) && !mt {
		c.violate("C13:derived-does-not-match-origin:"+c.w.kind, "Matches is false between a proof and its Derive()", nil)
	}
	if !bytes.Equal(d.Message(), c.w.msgs[src.m]) || string(d.PubKeyHash()) != c.w.hash {
		c.violate("C13:derived-message-or-hash-differs:"+c.w.kind, "Derive() changed Message or PubKeyHash", nil)
	}
	c.mutate(t)
}

// opRebuild: a fresh proof fed with AsSparse of the source holds the same set.
func (c *caseCtx) opRebuild(s int) {
	src := c.pool[s]
	var sp gcrypto.SparseSignatureProof
	if c.guard("AsSparse", func() { sp = src.p.AsSparse() }) {
		return
	}
	np := c.newProof(src.m, c.w.hash, "rebuilt")
	if np == nil {
		return
	}
	t := c.put(np, s)
	c.log("New+MergeSparse", t, s, sp, "rebuild from AsSparse of the source")
	res, ok := c.mergeSparse(np, sp, "MergeSparse")
	if ok && np.model != src.model {
		c.violate("C13:rebuild-from-sparse-differs:"+c.w.kind,
			fmt.Sprintf("a proof rebuilt from AsSparse holds %v, the original %v (merge result %+v)", maskList(np.model), maskList(src.model), res),
			map[string]any{"sparse": sparseJSON(sp)})
	}
	c.count("rebuilds")
}

func (c *caseCtx) opHasKeyID(t int) {
	ps := c.pool[t]
	w, rng := c.w, c.rng
	var kid []byte
	switch rng.IntN(6) {
	case 0:
		kid = make([]byte, rng.IntN(6))
		for k := range kid {
			kid[k] = byte(rng.UintN(256))
		}
	case 1:
		kid = be16(w.n + rng.IntN(70))
	default:
		if w.kind == kindBLS && rng.IntN(2) == 0 {
			kid = be16(rng.IntN(w.nNodes))
		} else {
			kid = be16(rng.IntN(w.n))
		}
	}
	c.log("HasSparseKeyID", t, -1, map[string]string{"keyID": hex.EncodeToString(kid)}, "")
	var has, valid bool
	if c.guard("HasSparseKeyID", func() { has, valid = ps.p.HasSparseKeyID(kid) }) {
		return
	}
	var chk bool
	c.guard("KeyIDChecker.IsValid", func() { chk = w.sch.KeyIDChecker(w.keys).IsValid(kid) })
	_ = chk
	bad := func(what string) {
		c.violate("C13:HasSparseKeyID-wrong:"+w.kind+":"+what, fmt.Sprintf("HasSparseKeyID(%x) = (has %v, valid %v) on a proof holding %v: %s", kid, has, valid, maskList(ps.model), what),
			map[string]any{"keyID": hex.EncodeToString(kid)})
	}
	if has && !valid {
		bad("has-without-valid")
	}
	if len(kid) != 2 {
		if valid {
			bad("valid-for-wrong-length-id")
		}
		return
	}
	id := int(kid[0])<<8 | int(kid[1])
	if w.kind == kindSimple {
		if id >= w.n {
			if valid {
				bad("valid-for-out-of-range-id")
			}
			return
		}
		if !valid {
			bad("invalid-for-candidate-id")
		}
		if has != (ps.model&(1<<uint(id)) != 0) {
			bad("has-differs-from-bit")
		}
		return
	}
	mask, ok := w.nodeMask(id)
	if !ok {
		if valid {
			bad("valid-for-out-of-range-id")
		}
		return
	}
	if mask != 0 && !valid {
		bad("invalid-for-candidate-id")
	}
	if has && mask&^ps.model != 0 {
		bad("has-for-absent-signers")
	}
}

func (c *caseCtx) step() {
	w := c.rng.IntN(100)
	t := c.pick()
	var kind byte
	switch {
	case w < 18:
		kind = 'a'
		c.opAddValid(t)
	case w < 26:
		kind = 'i'
		c.opAddInvalid(t)
	case w < 28:
		kind = 'u'
		c.opAddUnknown(t)
	case w < 31:
		kind = 'g'
		c.opAddAggKey(t)
	case w < 45:
		kind = 'M'
		c.opMerge(t, c.pick())
	case w < 48:
		kind = 'x'
		c.opMergeMismatch(t)
	case w < 61:
		kind = 'S'
		c.opMergeSparseHonest(t)
	case w < 75:
		kind = 'C'
		c.opMergeSparseCorrupt(t)
	case w < 82:
		kind = 'c'
		c.opClone(t)
	case w < 86:
		kind = 'd'
		c.opDerive(t)
	case w < 92:
		kind = 'r'
		c.opRebuild(t)
	case w < 96:
		kind = 'h'
		c.opHasKeyID(t)
	default:
		kind = 'n'
		if np := c.newProof(0, c.w.hash, "new"); np != nil {
			t = c.put(np, -1)
			c.log("New", t, -1, nil, "")
		}
	}
	c.opKinds = append(c.opKinds, kind)
	c.checkAll("op")
}

// ------------------------------------------------------------------ driver

type totals struct {
	mu    sync.Mutex
	stats map[string]int64
}

func (tt *totals) merge(m map[string]int64) {
	tt.mu.Lock()
	for k, v := range m {
		tt.stats[k] += v
	}
	tt.mu.Unlock()
}

func runCase(r *verifkit.Run, kind string, idx, maxN int, tt *totals) {
	rng := r.CaseRNG(idx)
	n := 1 + idx%maxN
	c := &caseCtx{r: r, rng: rng, id: kind + ":" + strconv.Itoa(idx), stats: map[string]int64{}}
	p, key, msg, stack := verifkit.Guard(func() {
		c.w = newWorld(kind, rng, n)
		first := c.newProof(0, c.w.hash, "new")
		if first == nil {
			return
		}
		c.pool = append(c.pool, first)
		c.checkAll("New")
		steps := 6 + rng.IntN(36)
		for s := 0; s < steps; s++ {
			c.step()
		}
		c.finalizePhase()
	})
	if p {
		if strings.HasPrefix(key, "panic:?:") {
			r.Inconclusive("harness bug in case %s: %s\n%s", c.id, msg, stack)
		} else {
			c.violate(key+":"+kind, "unguarded call panicked: "+msg, map[string]any{"stack": stack})
		}
	}
	r.Eval(1)
	c.stats[fmt.Sprintf("keyset_size.%02d", n)]++
	if c.judgedMerges > 0 && c.finJudged {
		models := make([]string, 0, len(c.pool))
		for _, ps := range c.pool {
			models = append(models, strconv.FormatUint(ps.model, 16))
		}
		sort.Strings(models)
		r.Nontrivial(kind, n, fmt.Sprint(c.w.pool), string(c.opKinds), strings.Join(models, ","), c.finNote)
		c.stats["nontrivial_cases"]++
	}
	if r.WantSample() && idx%7 == 3 {
		ops := make([]string, 0, len(c.ops))
		for _, o := range c.ops {
			ops = append(ops, fmt.Sprintf("%s t=%d s=%d %s", o.op, o.t, o.s, o.note))
		}
		if len(ops) > 25 {
			ops = append(ops[:25], fmt.Sprintf("... %d more", len(ops)-25))
		}
		r.Sample(map[string]any{"case": c.id, "scheme": kind, "nKeys": n, "operations": ops, "judgedMerges": c.judgedMerges, "finalize": c.finNote})
	}
	tt.merge(c.stats)
}

func runScheme(t *testing.T, kind string, maxN, quick, thorough int, rule string) {
	r := verifkit.Start("C13")
	if r == nil {
		t.Skip("not started by the /verif driver")
	}
	defer r.Finish()
	r.SetRule(rule)
	tt := &totals{stats: map[string]int64{}}

	if r.Replay != "" {
		// replay one case: the witness file names it as "<scheme>:<index>"
		b, _ := os.ReadFile(r.Replay)
		if i := bytes.Index(b, []byte(`"`+kind+`:`)); i >= 0 {
			rest := b[i+len(kind)+2:]
			j := bytes.IndexByte(rest, '"')
			if idx, err := strconv.Atoi(string(rest[:j])); err == nil {
				runCase(r, kind, idx, maxN, tt)
			}
		}
	} else {
		n := r.N(quick, thorough)
		if kind == kindBLS {
			blsInit()
		} else {
			edInit()
			keyIDCheckerExactness(r)
		}
		r.Parallel(n, func(i int) { runCase(r, kind, i, maxN, tt) })
	}
	for _, k := range verifkit.SortedKeys(tt.stats) {
		r.Count(k, tt.stats[k])
	}
}

// keyIDCheckerExactness: for the simple scheme a key id is valid iff it is the 2-byte
// big-endian index of one of the keys, for every key count including none.
func keyIDCheckerExactness(r *verifkit.Run) {
	sch := gcrypto.SimpleCommonMessageSignatureProofScheme{}
	pool := make([]gcrypto.PubKey, 40)
	for i := range pool {
		var b [32]byte
		b[0], b[1] = byte(i), 0x77
		pool[i] = gcrypto.Ed25519PubKey(b[:])
	}
	for n := 0; n <= len(pool); n++ {
		var chk gcrypto.KeyIDChecker
		if p, key, msg, _ := verifkit.Guard(func() { chk = sch.KeyIDChecker(pool[:n]) }); p {
			r.Violate(key, "KeyIDChecker panicked: "+msg, fmt.Sprintf("keyidchecker:%d", n), nil)
			continue
		}
		for _, id := range []int{0, 1, n - 1, n, n + 1, 255, 256, 65535} {
			if id < 0 {
				continue
			}
			kid := []byte{byte(id >> 8), byte(id)}
			got := chk.IsValid(kid)
			if want := id < n; got != want {
				r.Violate("C13:keyidchecker-wrong-for-key-count:simple", fmt.Sprintf("KeyIDChecker over %d keys: IsValid(%x) = %v, want %v", n, kid, got, want), fmt.Sprintf("keyidchecker:%d", n), map[string]any{"keys": n, "key_id": id})
			}
			r.Eval(1)
		}
		for _, kid := range [][]byte{nil, {}, {0}, {0, 0, 0}} {
			if chk.IsValid(kid) {
				r.Violate("C13:keyidchecker-accepts-wrong-length-id:simple", fmt.Sprintf("KeyIDChecker over %d keys accepts the %d-byte id %x", n, len(kid), kid), fmt.Sprintf("keyidchecker:%d", n), nil)
			}
		}
	}
}

const ruleText = "case i: key-set size n = 1 + i mod maxN (simple: every n in 1..33, BLS: every n in 1..17), keys = random n-subset of a fixed pool in random order; a random program of 6..41 steps over up to 5 live proofs drawn from {AddSignature valid/invalid/unknown key/aggregated key, Merge, Merge of a non-matching proof, MergeSparse honest (AsSparse of another proof or generated leaf/aggregate entries with repetitions), MergeSparse with 1..3 corrupted entries (key id length 0/1/3/4, out of range, other key, BLS aggregate/padding ids; signature bit flip, truncation, other message, other key, random, zero/infinity; wrong PubKeyHash), Clone+mutate both, Derive+mutate, AsSparse->New+MergeSparse, HasSparseKeyID, New}; after every step every live proof is compared with its model set (SignatureBitSet and AsSparse, whose entries are re-verified independently). Then 1..3 finalize rounds: random partition of the signers into main + 0..3 rest blocks built through random routes, Finalize -> ValidateFinalizedProof must give back exactly the per-block sets (double signers reported), followed by 4..8 corrupted finalized proofs judged for panics and for soundness of any returned set. Validity oracle: crypto/ed25519.Verify (simple), ledger of harness-made signatures aggregated with blst directly (BLS). Non-trivial = a case with at least one judged merge and one judged finalize round trip; digest over (scheme, n, key choice, operation kinds, final sets, partition)."

func TestVerif_C13_Simple(t *testing.T) {
	runScheme(t, kindSimple, simpleMaxN, 2000, 60000, ruleText)
}

func TestVerif_C13_BLS(t *testing.T) {
	quick, thorough := 300, 10000
	if strings.Contains(os.Getenv("VERIF_SUB"), "asan") {
		quick, thorough = 100, 1000
	}
	runScheme(t, kindBLS, blsMaxN, quick, thorough, ruleText)
}
