package c13

// Finalize -> ValidateFinalizedProof round trips over partitions of the signers
// into main/rest blocks, and corrupted finalized proofs.

import (
	"bytes"
	"encoding/binary"
	"encoding/hex"
	"fmt"
	"sort"
	"strings"

	"github.com/bits-and-blooms/bitset"
	"github.com/gordian-engine/gordian/gcrypto"
	"verif/ext/verifkit"
)

func (c *caseCtx) finalizePhase() {
	rounds := 1 + c.rng.IntN(3)
	for k := 0; k < rounds; k++ {
		c.finalizeRound()
	}
}

// buildBlock makes a proof over message m that holds exactly mask, through a random route.
func (c *caseCtx) buildBlock(m int, mask uint64) *proofState {
	ps := c.newProof(m, c.w.hash, fmt.Sprintf("block-msg%d", m))
	if ps == nil {
		return nil
	}
	route := c.rng.IntN(3)
	addLeaves := func(dst *proofState, mk uint64) {
		l := maskList(mk)
		c.rng.Shuffle(len(l), func(a, b int) { l[a], l[b] = l[b], l[a] })
		for _, i := range l {
			sig := bytes.Clone(c.w.leafSig(m, i))
			c.guard("AddSignature", func() { _ = dst.p.AddSignature(sig, c.w.keys[i]) })
		}
	}
	switch route {
	case 0:
		addLeaves(ps, mask)
	case 1:
		sp := gcrypto.SparseSignatureProof{PubKeyHash: c.w.hash, Signatures: c.w.honestEntries(c.rng, m, mask, 1)}
		c.guard("MergeSparse", func() { _ = ps.p.MergeSparse(sp) })
	default:
		part := mask & randMask(c.rng, c.w.n)
		addLeaves(ps, part)
		other := c.newProof(m, c.w.hash, "block-part")
		if other != nil {
			addLeaves(other, mask&^part)
			c.guard("Merge", func() { _ = ps.p.Merge(other.p) })
		}
	}
	got, _ := c.readBits(ps.p, "block-construction")
	if got != mask {
		c.violate("C13:valid-signature-not-merged:"+c.w.kind+":block-construction",
			fmt.Sprintf("a block proof built from verifying signatures of %v (route %d) holds %v", maskList(mask), route, maskList(got)),
			map[string]any{"route": route, "want": maskList(mask), "got": maskList(got), "messageIndex": m})
		return nil
	}
	ps.model = mask
	return ps
}

func cloneSigs(ss []gcrypto.SparseSignature) []gcrypto.SparseSignature {
	if ss == nil {
		return nil
	}
	out := make([]gcrypto.SparseSignature, len(ss))
	for i, s := range ss {
		out[i] = gcrypto.SparseSignature{KeyID: bytes.Clone(s.KeyID), Sig: bytes.Clone(s.Sig)}
	}
	return out
}

func cloneFin(f gcrypto.FinalizedCommonMessageSignatureProof) gcrypto.FinalizedCommonMessageSignatureProof {
	out := f
	out.MainMessage = bytes.Clone(f.MainMessage)
	out.MainSignatures = cloneSigs(f.MainSignatures)
	if f.Rest != nil {
		out.Rest = make(map[string][]gcrypto.SparseSignature, len(f.Rest))
		for k, v := range f.Rest {
			out.Rest[k] = cloneSigs(v)
		}
	}
	return out
}

func finJSON(f gcrypto.FinalizedCommonMessageSignatureProof) map[string]any {
	rest := map[string]any{}
	for k, v := range f.Rest {
		rest[hex.EncodeToString([]byte(k))] = sigsJSON(v)
	}
	return map[string]any{
		"pubKeyHash": f.PubKeyHash, "mainMessage": hex.EncodeToString(f.MainMessage),
		"mainSignatures": sigsJSON(f.MainSignatures), "rest": rest, "nKeys": len(f.Keys),
	}
}

func (c *caseCtx) msgIndex(msg []byte) int {
	for m, x := range c.w.msgs {
		if bytes.Equal(x, msg) {
			return m
		}
	}
	return -1
}

// validate runs ValidateFinalizedProof under guard and converts the output.
func (c *caseCtx) validate(f gcrypto.FinalizedCommonMessageSignatureProof, site string) (sets map[int]uint64, isNil, unique, panicked bool) {
	hashes := map[string]string{string(f.MainMessage): fmt.Sprintf("H%d", c.msgIndex(f.MainMessage))}
	for k := range f.Rest {
		hashes[k] = fmt.Sprintf("H%d", c.msgIndex([]byte(k)))
	}
	var out map[string]*bitset.BitSet
	if c.guard("ValidateFinalizedProof", func() { out, unique = c.w.sch.ValidateFinalizedProof(f, hashes) }) {
		return nil, true, false, true
	}
	if out == nil {
		return nil, true, unique, false
	}
	sets = map[int]uint64{}
	for h, bs := range out {
		var m int
		if _, err := fmt.Sscanf(h, "H%d", &m); err != nil || bs == nil {
			c.violate("C13:validate-finalized-unknown-hash-or-nil-set:"+c.w.kind, fmt.Sprintf("ValidateFinalizedProof returned key %q / nil bit set", h), map[string]any{"finalized": finJSON(f)})
			continue
		}
		sets[m], _ = c.maskOf(bs, "ValidateFinalizedProof")
	}
	return sets, false, unique, false
}

func blockSigs(f gcrypto.FinalizedCommonMessageSignatureProof, msg []byte) []gcrypto.SparseSignature {
	if bytes.Equal(f.MainMessage, msg) {
		return f.MainSignatures
	}
	return f.Rest[string(msg)]
}

// sound checks that every returned set is backed by verifying signatures in the input.
func (c *caseCtx) sound(f gcrypto.FinalizedCommonMessageSignatureProof, sets map[int]uint64, unique bool, how string) {
	w := c.w
	var seen uint64
	dup := false
	for m, set := range sets {
		if m < 0 || m >= len(w.msgs) {
			continue
		}
		if seen&set != 0 {
			dup = true
		}
		seen |= set
		sigs := blockSigs(f, w.msgs[m])
		backed := false
		if w.kind == kindSimple {
			var have uint64
			for _, e := range sigs {
				if cls, mask := w.judgeEntry(m, e); cls != evInvalid {
					have |= mask
				}
			}
			backed = set&^have == 0
		} else {
			backed = len(sigs) == 1 && set != 0 && bytes.Equal(sigs[0].Sig, w.aggOver(m, set))
		}
		if !backed {
			c.violate("C13:validate-finalized-returns-unbacked-signers:"+w.kind,
				fmt.Sprintf("ValidateFinalizedProof (%s) reports signers %v for message %d, but the finalized proof holds no verifying signature of exactly those signers", how, maskList(set), m),
				map[string]any{"finalized": finJSON(f), "reported": maskList(set), "messageIndex": m, "corruption": how})
		}
	}
	if dup && unique {
		c.violate("C13:double-signer-not-reported:"+w.kind,
			fmt.Sprintf("ValidateFinalizedProof (%s) returned overlapping signer sets with allSignaturesUnique=true", how),
			map[string]any{"finalized": finJSON(f), "corruption": how})
	}
}

// simpleExpect is the complete oracle for the simple scheme on any finalized input.
func (c *caseCtx) simpleExpect(f gcrypto.FinalizedCommonMessageSignatureProof) (sets map[int]uint64, mustNil, unjudged bool) {
	sets = map[int]uint64{}
	do := func(msg []byte, sigs []gcrypto.SparseSignature) {
		m := c.msgIndex(msg)
		var set uint64
		for _, e := range sigs {
			cls, mask := c.w.judgeEntry(m, e)
			switch cls {
			case evInvalid:
				mustNil = true
			case evUnjudged:
				unjudged = true
			}
			set |= mask
		}
		sets[m] = set
	}
	do(f.MainMessage, f.MainSignatures)
	for k, v := range f.Rest {
		do([]byte(k), v)
	}
	return
}

func setsString(sets map[int]uint64) string {
	var parts []string
	for m, s := range sets {
		parts = append(parts, fmt.Sprintf("msg%d:%v", m, maskList(s)))
	}
	sort.Strings(parts)
	return strings.Join(parts, " ")
}

func (c *caseCtx) finalizeRound() {
	w, rng := c.w, c.rng
	K := rng.IntN(nMsgs) // rest blocks
	blocks := make([]uint64, K+1)
	for i := 0; i < w.n; i++ {
		x := rng.IntN(10)
		switch {
		case x < 6 || K == 0 && x < 9:
			blocks[0] |= 1 << uint(i)
		case x < 9:
			blocks[1+rng.IntN(K)] |= 1 << uint(i)
		}
	}
	edgeEmpty := rng.IntN(25) == 0
	if !edgeEmpty {
		if blocks[0] == 0 {
			blocks[0] = 1 << uint(rng.IntN(w.n))
			for b := 1; b <= K; b++ {
				blocks[b] &^= blocks[0]
			}
		}
		// drop empty rest blocks
		nb := blocks[:1]
		for b := 1; b <= K; b++ {
			if blocks[b] != 0 {
				nb = append(nb, blocks[b])
			}
		}
		blocks = nb
		K = len(blocks) - 1
	} else if rng.IntN(2) == 0 {
		blocks[0] = 0
	}
	double := false
	if K >= 1 && rng.IntN(5) == 0 {
		// one signer signs in two blocks
		a := rng.IntN(K + 1)
		if blocks[a] != 0 {
			l := maskList(blocks[a])
			i := l[rng.IntN(len(l))]
			b := (a + 1 + rng.IntN(K)) % (K + 1)
			blocks[b] |= 1 << uint(i)
			double = true
		}
	}
	hasEmpty := false
	for _, b := range blocks {
		if b == 0 {
			hasEmpty = true
		}
	}
	// message of block b: a random injection into the world's messages
	perm := rng.Perm(nMsgs)
	want := map[int]uint64{}
	proofs := make([]*proofState, len(blocks))
	for b, mask := range blocks {
		proofs[b] = c.buildBlock(perm[b], mask)
		if proofs[b] == nil {
			return
		}
		want[perm[b]] = mask
	}
	part := setsString(want)
	c.log("Finalize", -1, -1, map[string]any{"mainMessageIndex": perm[0], "blocks": part, "doubleSigner": double}, "main = first listed block of the partition; rest in shuffled order")
	c.count("finalize.rounds")
	c.count(fmt.Sprintf("finalize.rest_blocks.%d", K))

	rest := make([]gcrypto.CommonMessageSignatureProof, 0, K)
	for b := 1; b <= K; b++ {
		rest = append(rest, proofs[b].p)
	}
	rng.Shuffle(len(rest), func(a, b int) { rest[a], rest[b] = rest[b], rest[a] })

	var fin gcrypto.FinalizedCommonMessageSignatureProof
	if double && w.kind == kindBLS {
		// gblsminsig.Finalize panics by design when a rest proof contains a signer
		// already used ("should have been detected much earlier"): not judged.
		p, key, msg, stack := verifkit.Guard(func() { fin = w.sch.Finalize(proofs[0].p, rest) })
		if p {
			if strings.Contains(msg, "not part of the projection") {
				c.count("unjudged.bls_finalize_panics_on_double_signer")
			} else {
				c.violate(key+":"+w.kind, "Finalize panicked: "+msg, map[string]any{"stack": stack})
			}
			return
		}
	} else if c.guard("Finalize", func() { fin = w.sch.Finalize(proofs[0].p, rest) }) {
		return
	}
	for b, ps := range proofs {
		if got, _ := c.readBits(ps.p, "Finalize"); got != blocks[b] {
			c.violate("C13:uninvolved-proof-changed:"+w.kind+":Finalize", "Finalize changed an input proof", map[string]any{"block": b, "got": maskList(got), "want": maskList(blocks[b])})
		}
	}

	sets, isNil, unique, panicked := c.validate(fin, "honest")
	if !panicked {
		d := map[string]any{"finalized": finJSON(fin), "partition": part, "unique": unique, "returnedNil": isNil, "returned": setsString(sets)}
		switch {
		case hasEmpty:
			c.count("unjudged.finalize_with_empty_block")
			if !isNil {
				c.sound(fin, nonEmpty(sets), unique, "honest, empty block")
			}
		case double:
			c.count("finalize.double_signer_judged")
			if unique {
				c.violate("C13:double-signer-not-reported:"+w.kind, "a signer present in two blocks of a finalized proof was not reported: allSignaturesUnique=true ("+part+")", d)
			}
			if !isNil {
				c.sound(fin, sets, false, "honest, double signer")
			}
			c.finJudged = true
		default:
			c.count("finalize.round_trips_judged")
			c.finJudged = true
			if isNil || !unique {
				c.violate("C13:finalize-round-trip-rejected:"+w.kind,
					fmt.Sprintf("Finalize -> ValidateFinalizedProof of an honest partition (%s) returned nil=%v unique=%v", part, isNil, unique), d)
			} else if setsString(sets) != part {
				c.violate("C13:finalize-round-trip-wrong-sets:"+w.kind,
					fmt.Sprintf("Finalize -> ValidateFinalizedProof returned %s for the partition %s", setsString(sets), part), d)
			}
		}
		if isNil && unique {
			c.violate("C13:validate-finalized-nil-map-but-unique:"+w.kind, "ValidateFinalizedProof returned a nil map with allSignaturesUnique=true", d)
		}
	}
	c.finNote = part
	if w.kind == kindSimple && !hasEmpty {
		// CanMergeFinalizedProofs: the finalized main signatures merge into a fresh proof
		if w.sch.CanMergeFinalizedProofs() {
			np := c.newProof(perm[0], w.hash, "from-finalized")
			if np != nil {
				sp := gcrypto.SparseSignatureProof{PubKeyHash: fin.PubKeyHash, Signatures: cloneSigs(fin.MainSignatures)}
				c.log("New+MergeSparse", -1, -1, sp, "finalized main signatures into a fresh proof")
				c.mergeSparse(np, sp, "MergeSparse")
				if np.model != blocks[0] {
					c.violate("C13:rebuild-from-sparse-differs:"+w.kind, "merging the finalized main signatures into a fresh proof does not give the main signer set", map[string]any{"got": maskList(np.model), "want": maskList(blocks[0])})
				}
			}
		}
	}

	// corrupted finalized proofs
	for k := 4 + rng.IntN(5); k > 0; k-- {
		bad, how := c.corruptFin(fin, perm)
		if how == "" {
			continue
		}
		c.ops = append(c.ops, opRec{op: "ValidateFinalizedProof", t: -1, s: -1, raw: finJSON(bad), note: "corruption: " + how})
		c.count("finalize.corrupted_inputs")
		sets, isNil, unique, panicked := c.validate(bad, how)
		if panicked {
			continue
		}
		if isNil {
			c.count("finalize.corrupted_rejected")
			if unique {
				c.violate("C13:validate-finalized-nil-map-but-unique:"+w.kind, "ValidateFinalizedProof returned a nil map with allSignaturesUnique=true", map[string]any{"finalized": finJSON(bad), "corruption": how})
			}
		} else {
			c.count("finalize.corrupted_accepted")
			c.sound(bad, nonEmptyIf(w.kind == kindSimple, sets), unique, how)
		}
		if w.kind == kindSimple {
			exp, mustNil, unj := c.simpleExpect(bad)
			switch {
			case bad.PubKeyHash != w.hash:
				// MergeSparse documents nothing about a foreign hash; soundness only
			case mustNil:
				if !isNil {
					c.violate("C13:validate-finalized-accepts-invalid-signature:"+w.kind,
						"ValidateFinalizedProof returned a non-nil map although the finalized proof contains a non-verifying signature ("+how+")",
						map[string]any{"finalized": finJSON(bad), "corruption": how, "returned": setsString(sets)})
				}
			case unj:
				c.count("unjudged.finalized_with_undocumented_key_id")
			default:
				var all uint64
				disjoint := true
				for _, s := range exp {
					if all&s != 0 {
						disjoint = false
					}
					all |= s
				}
				if isNil && disjoint {
					c.violate("C13:finalize-round-trip-rejected:"+w.kind, "ValidateFinalizedProof rejected a finalized proof in which every signature verifies ("+how+")",
						map[string]any{"finalized": finJSON(bad), "corruption": how})
				} else if !isNil && unique != disjoint {
					c.violate("C13:double-signer-not-reported:"+w.kind, fmt.Sprintf("allSignaturesUnique=%v but the per-block sets are %s (%s)", unique, setsString(exp), how),
						map[string]any{"finalized": finJSON(bad), "corruption": how})
				} else if !isNil && unique && setsString(sets) != setsString(exp) {
					c.violate("C13:finalize-round-trip-wrong-sets:"+w.kind, fmt.Sprintf("ValidateFinalizedProof returned %s, the verifying signatures are %s (%s)", setsString(sets), setsString(exp), how),
						map[string]any{"finalized": finJSON(bad), "corruption": how})
				}
			}
		}
	}
}

func nonEmpty(sets map[int]uint64) map[int]uint64 {
	out := map[int]uint64{}
	for k, v := range sets {
		if v != 0 {
			out[k] = v
		}
	}
	return out
}

func nonEmptyIf(cond bool, sets map[int]uint64) map[int]uint64 {
	if cond {
		return nonEmpty(sets)
	}
	return sets
}

// corruptFin applies one mutation to a copy of the finalized proof.
func (c *caseCtx) corruptFin(orig gcrypto.FinalizedCommonMessageSignatureProof, perm []int) (gcrypto.FinalizedCommonMessageSignatureProof, string) {
	w, rng := c.w, c.rng
	f := cloneFin(orig)
	restKeys := make([]string, 0, len(f.Rest))
	for k := range f.Rest {
		restKeys = append(restKeys, k)
	}
	sort.Strings(restKeys)
	// pick a block
	blockName := "main"
	sigs := &f.MainSignatures
	blockMsg := f.MainMessage
	if len(restKeys) > 0 && rng.IntN(2) == 0 {
		k := restKeys[rng.IntN(len(restKeys))]
		ss := f.Rest[k]
		sigs = &ss
		blockName = "rest:" + hex.EncodeToString([]byte(k))
		blockMsg = []byte(k)
		defer func() { f.Rest[k] = *sigs }()
	}
	m := c.msgIndex(blockMsg)
	entry := func() *gcrypto.SparseSignature {
		if len(*sigs) == 0 {
			return nil
		}
		return &(*sigs)[rng.IntN(len(*sigs))]
	}
	switch rng.IntN(9) {
	case 0: // key id length
		e := entry()
		if e == nil {
			return f, ""
		}
		switch x := rng.IntN(5); {
		case x == 0:
			e.KeyID = nil
			return f, blockName + ":keyid-len0"
		case x == 1 && len(e.KeyID) > 0:
			e.KeyID = e.KeyID[:1]
			return f, blockName + ":keyid-len1"
		case x == 2 && len(e.KeyID) > 2:
			e.KeyID = e.KeyID[:2+rng.IntN(len(e.KeyID)-2)]
			return f, blockName + ":keyid-truncated"
		case x == 3:
			e.KeyID = append(e.KeyID, byte(rng.UintN(256)))
			return f, blockName + ":keyid-one-byte-longer"
		default:
			e.KeyID = append(e.KeyID, byte(rng.UintN(256)), byte(rng.UintN(256)))
			return f, blockName + ":keyid-two-bytes-longer"
		}
	case 1: // count / index header
		e := entry()
		if e == nil || len(e.KeyID) < 2 {
			return f, ""
		}
		cands := []int{0, w.n, w.n + 1, 0xFFFF, int(binary.BigEndian.Uint16(e.KeyID[:2])) + 1, int(binary.BigEndian.Uint16(e.KeyID[:2])) - 1, 0x100}
		v := cands[rng.IntN(len(cands))]
		if v < 0 {
			v = 0
		}
		binary.BigEndian.PutUint16(e.KeyID[:2], uint16(v))
		return f, fmt.Sprintf("%s:keyid-first-two-bytes=%d", blockName, v)
	case 2: // BLS combination index
		e := entry()
		if e == nil || w.kind != kindBLS || len(e.KeyID) < 2 {
			return f, ""
		}
		switch rng.IntN(4) {
		case 0:
			e.KeyID = append(e.KeyID[:2:2], bytes.Repeat([]byte{0xFF}, 1+rng.IntN(9))...)
			return f, blockName + ":combination-index-all-ones"
		case 1:
			if len(e.KeyID) == 2 {
				e.KeyID = append(e.KeyID, 1)
			} else {
				e.KeyID[len(e.KeyID)-1]++
			}
			return f, blockName + ":combination-index-plus-one"
		case 2:
			idx := make([]byte, 1+rng.IntN(4))
			for i := range idx {
				idx[i] = byte(rng.UintN(256))
			}
			e.KeyID = append(e.KeyID[:2:2], idx...)
			return f, blockName + ":combination-index-random"
		default:
			e.KeyID = append([]byte{e.KeyID[0], e.KeyID[1], 0}, e.KeyID[2:]...)
			return f, blockName + ":combination-index-leading-zero"
		}
	case 3, 4: // signature bytes
		e := entry()
		if e == nil {
			return f, ""
		}
		switch rng.IntN(6) {
		case 0:
			if len(e.Sig) == 0 {
				return f, ""
			}
			e.Sig[rng.IntN(len(e.Sig))] ^= 1 << uint(rng.IntN(8))
			return f, blockName + ":sig-bitflip"
		case 1:
			if len(e.Sig) == 0 {
				return f, ""
			}
			e.Sig = e.Sig[:rng.IntN(len(e.Sig))]
			return f, blockName + ":sig-truncated"
		case 2:
			e.Sig = nil
			return f, blockName + ":sig-nil"
		case 3:
			b := make([]byte, w.sigLen())
			for i := range b {
				b[i] = byte(rng.UintN(256))
			}
			e.Sig = b
			return f, blockName + ":sig-random"
		case 4:
			if w.kind == kindBLS {
				e.Sig = blsInfinitySig()
				return f, blockName + ":sig-infinity"
			}
			e.Sig = make([]byte, w.sigLen())
			return f, blockName + ":sig-zero"
		default:
			// honest signature of some signer over another message
			i := rng.IntN(w.n)
			e.Sig = bytes.Clone(w.leafSig((m+1)%nMsgs, i))
			return f, blockName + ":sig-of-other-message"
		}
	case 5: // structure of the signature list
		switch rng.IntN(4) {
		case 0:
			*sigs = nil
			return f, blockName + ":no-signatures"
		case 1:
			*sigs = []gcrypto.SparseSignature{}
			return f, blockName + ":empty-signature-list"
		case 2:
			if e := entry(); e != nil {
				*sigs = append(*sigs, gcrypto.SparseSignature{KeyID: bytes.Clone(e.KeyID), Sig: bytes.Clone(e.Sig)})
				return f, blockName + ":duplicated-entry"
			}
			return f, ""
		default:
			if len(*sigs) > 0 {
				*sigs = (*sigs)[:len(*sigs)-1]
				return f, blockName + ":dropped-last-entry"
			}
			return f, ""
		}
	case 6: // extra rest block for an unused message
		used := map[int]bool{c.msgIndex(f.MainMessage): true}
		for k := range f.Rest {
			used[c.msgIndex([]byte(k))] = true
		}
		for mm := 0; mm < nMsgs; mm++ {
			if used[mm] {
				continue
			}
			if f.Rest == nil {
				f.Rest = map[string][]gcrypto.SparseSignature{}
			}
			i := rng.IntN(w.n)
			var kid []byte
			switch {
			case w.kind == kindSimple:
				kid = be16(i)
			case rng.IntN(2) == 0:
				kid = be16(1) // k=1, combination index 0
			default:
				kid = []byte{0, 1, byte(rng.UintN(uint(w.n) + 2))}
			}
			sig := bytes.Clone(w.leafSig(mm, i))
			how := "extra-rest-block-with-valid-signature-of-signer-%d"
			if rng.IntN(3) == 0 {
				sig[0] ^= 0x10
				how = "extra-rest-block-with-broken-signature-of-signer-%d"
			}
			f.Rest[string(w.msgs[mm])] = []gcrypto.SparseSignature{{KeyID: kid, Sig: sig}}
			return f, fmt.Sprintf(how+"-keyid-%x", i, kid)
		}
		return f, ""
	case 7: // swap the signature lists of main and a rest block
		if len(restKeys) == 0 {
			return f, ""
		}
		k := restKeys[rng.IntN(len(restKeys))]
		if blockName != "main" {
			return f, ""
		}
		f.MainSignatures, f.Rest[k] = f.Rest[k], f.MainSignatures
		sigs = &f.MainSignatures
		return f, "swapped-main-and-rest-signature-lists"
	default:
		f.PubKeyHash += "x"
		return f, "pubkeyhash-changed"
	}
}
