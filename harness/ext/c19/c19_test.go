// Package c19 decides property C19 ("the transaction buffer's pending list
// always applies cleanly in order") by runtime monitoring of the real
// gdriver/gtxbuf.Buffer.
//
// User semantics handed to the buffer: the state is a small vector of balances
// plus a nonce per account; a transaction is one of
//
//	transfer(a -> b, x)          valid iff balance[a] >= x
//	setIfEquals(a, expect, new)  valid iff balance[a] == expect
//	nonceOp(a, nonce, delta)     valid iff nonce[a] == nonce (then nonce[a]++ and balance[a] += delta)
//	alwaysFails
//
// so validity depends on order and flips after a rebase. The apply function
// returns a fresh copy of the state and wraps every "does not apply" error in
// gtxbuf.TxInvalidError as the package documents; transaction ids are unique and
// the deleter matches by id.
//
// Oracles. Sequential histories: after every call the result is compared
// exactly with a ~30-line reference buffer (refBuf), then Buffered() is read
// back and (a) compared with the reference pending list and (b) independently
// replayed from the current base with the user function - every transaction
// must apply, in order. Concurrent histories (4 clients, <= 40 operations,
// AddTx/Buffered/Rebase mixed) are recorded with a logical clock and checked
// with porcupine against the same reference used as sequential specification;
// a checker timeout is inconclusive. Independently every Buffered() result of a
// concurrent history must replay cleanly from at least one base the buffer was
// ever given.
package c19

import (
	"context"
	"crypto/sha256"
	"encoding/json"
	"errors"
	"fmt"
	"io"
	"log/slog"
	"math/rand/v2"
	"runtime"
	"slices"
	"sync"
	"sync/atomic"
	"testing"
	"time"

	"github.com/anishathalye/porcupine"
	"github.com/gordian-engine/gordian/gdriver/gtxbuf"
	"verif/ext/verifkit"
)

// ---------------------------------------------------------------------------
// user semantics

type state struct {
	Bal   []int `json:"bal"`
	Nonce []int `json:"nonce"`
}

func (s state) clone() state { return state{Bal: slices.Clone(s.Bal), Nonce: slices.Clone(s.Nonce)} }
func (s state) key() string  { return fmt.Sprint(s.Bal, s.Nonce) }

const (
	opTransfer = iota
	opSetIfEquals
	opNonce
	opFail
)

var opName = [...]string{"transfer", "setIfEquals", "nonceOp", "alwaysFails"}

type tx struct {
	ID int `json:"id"`
	Op int `json:"op"`
	A  int `json:"a"`
	B  int `json:"b"`
	X  int `json:"x"`
	Y  int `json:"y"`
}

func (t tx) String() string {
	switch t.Op {
	case opTransfer:
		return fmt.Sprintf("#%d transfer(%d->%d,%d)", t.ID, t.A, t.B, t.X)
	case opSetIfEquals:
		return fmt.Sprintf("#%d setIfEquals(%d,%d,%d)", t.ID, t.A, t.X, t.Y)
	case opNonce:
		return fmt.Sprintf("#%d nonceOp(%d,n=%d,%+d)", t.ID, t.A, t.X, t.Y)
	}
	return fmt.Sprintf("#%d alwaysFails", t.ID)
}

var (
	errInsufficient = errors.New("insufficient balance")
	errNotEqual     = errors.New("value differs from expectation")
	errNonce        = errors.New("wrong nonce")
	errNever        = errors.New("transaction never applies")
)

// applyTx is the user function: pure, returns a new copy of the state, wraps
// every rejection in gtxbuf.TxInvalidError.
func applyTx(_ context.Context, s state, t tx) (state, error) {
	n := s.clone()
	switch t.Op {
	case opTransfer:
		if s.Bal[t.A] < t.X {
			return state{}, gtxbuf.TxInvalidError{Err: fmt.Errorf("tx %d: %w", t.ID, errInsufficient)}
		}
		n.Bal[t.A] -= t.X
		n.Bal[t.B] += t.X
	case opSetIfEquals:
		if s.Bal[t.A] != t.X {
			return state{}, gtxbuf.TxInvalidError{Err: errNotEqual}
		}
		n.Bal[t.A] = t.Y
	case opNonce:
		if s.Nonce[t.A] != t.X {
			return state{}, gtxbuf.TxInvalidError{Err: fmt.Errorf("tx %d: %w", t.ID, errNonce)}
		}
		n.Nonce[t.A]++
		n.Bal[t.A] += t.Y
		if n.Bal[t.A] < 0 {
			n.Bal[t.A] = 0
		}
	default:
		return state{}, gtxbuf.TxInvalidError{Err: errNever}
	}
	return n, nil
}

func deleter(_ context.Context, reject []tx) func(tx) bool {
	ids := make(map[int]struct{}, len(reject))
	for _, t := range reject {
		ids[t.ID] = struct{}{}
	}
	return func(t tx) bool { _, ok := ids[t.ID]; return ok }
}

// ---------------------------------------------------------------------------
// reference buffer: the sequential specification (values are never mutated).

type refBuf struct {
	base state
	pend []tx
}

func (b refBuf) cur() state {
	s := b.base
	for _, t := range b.pend {
		s, _ = applyTx(nil, s, t) // cannot fail: invariant of the reference
	}
	return s
}

func (b refBuf) add(t tx) (refBuf, error) {
	if _, err := applyTx(nil, b.cur(), t); err != nil {
		return b, err
	}
	return refBuf{base: b.base, pend: append(slices.Clone(b.pend), t)}, nil
}

func (b refBuf) rebase(nb state, applied []tx) (refBuf, []tx) {
	gone := map[int]bool{}
	for _, t := range applied {
		gone[t.ID] = true
	}
	out, s := refBuf{base: nb}, nb
	var invalidated []tx
	for _, t := range b.pend {
		if gone[t.ID] {
			continue
		}
		n, err := applyTx(nil, s, t)
		if err != nil {
			invalidated = append(invalidated, t)
			continue
		}
		s, out.pend = n, append(out.pend, t)
	}
	return out, invalidated
}

func ids(l []tx) []int {
	out := make([]int, len(l))
	for i, t := range l {
		out[i] = t.ID
	}
	return out
}

// replays reports the index of the first transaction of l that does not apply
// in order from base, or -1.
func replays(base state, l []tx) int {
	s := base
	for i, t := range l {
		n, err := applyTx(nil, s, t)
		if err != nil {
			return i
		}
		s = n
	}
	return -1
}

// ---------------------------------------------------------------------------
// generators

type gen struct {
	rng    *rand.Rand
	nacc   int
	nextID *int
}

func (g gen) randState() state {
	s := state{Bal: make([]int, g.nacc), Nonce: make([]int, g.nacc)}
	for i := range s.Bal {
		s.Bal[i] = g.rng.IntN(6)
		if g.rng.IntN(4) == 0 {
			s.Nonce[i] = g.rng.IntN(3)
		}
	}
	return s
}

// tx draws a transaction; with probability 2/3 it is made to apply to hint.
func (g gen) tx(hint state) tx {
	*g.nextID++
	t := tx{ID: *g.nextID, A: g.rng.IntN(g.nacc), B: g.rng.IntN(g.nacc)}
	likely := g.rng.IntN(3) != 0
	switch x := g.rng.IntN(20); {
	case x < 8:
		t.Op = opTransfer
		t.X = g.rng.IntN(7)
		if likely && hint.Bal[t.A] > 0 {
			t.X = 1 + g.rng.IntN(hint.Bal[t.A])
		}
	case x < 13:
		t.Op = opSetIfEquals
		t.X, t.Y = g.rng.IntN(6), g.rng.IntN(6)
		if likely {
			t.X = hint.Bal[t.A]
		}
	case x < 19:
		t.Op = opNonce
		t.X, t.Y = g.rng.IntN(4), g.rng.IntN(5)-2
		if likely {
			t.X = hint.Nonce[t.A]
		}
	default:
		t.Op = opFail
	}
	return t
}

// block draws what a rebase reports: a new base and the applied list, shaped
// like a committed block (some pending transactions, some foreign ones).
func (g gen) block(ref refBuf) (state, []tx) {
	var blk []tx
	switch x := g.rng.IntN(10); {
	case x < 4: // a prefix of the pending list
		if len(ref.pend) > 0 {
			blk = slices.Clone(ref.pend[:g.rng.IntN(len(ref.pend)+1)])
		}
	case x < 8: // an arbitrary subset, kept in order
		for _, t := range ref.pend {
			if g.rng.IntN(2) == 0 {
				blk = append(blk, t)
			}
		}
	}
	// foreign transactions from other proposers, before, between or after ours
	for n := g.rng.IntN(3); n > 0; n-- {
		f := g.tx(ref.base)
		at := g.rng.IntN(len(blk) + 1)
		blk = slices.Insert(blk, at, f)
	}
	if g.rng.IntN(8) == 0 {
		return g.randState(), blk // a base unrelated to ours (state sync, reorg)
	}
	nb := ref.base
	var applied []tx
	for _, t := range blk {
		if n, err := applyTx(nil, nb, t); err == nil {
			nb = n
			applied = append(applied, t)
		}
	}
	if g.rng.IntN(6) == 0 && len(ref.pend) > 0 {
		// the driver reports a pending tx as applied although the base does not
		// reflect it, or reports one twice: still "reported applied".
		applied = append(applied, ref.pend[g.rng.IntN(len(ref.pend))])
	}
	return nb.clone(), applied
}

// ---------------------------------------------------------------------------
// sequential histories

type seqOp struct {
	Op          string `json:"op"`
	Tx          *tx    `json:"tx,omitempty"`
	NewBase     *state `json:"new_base,omitempty"`
	Applied     []int  `json:"applied_ids,omitempty"`
	GotErr      string `json:"got_err,omitempty"`
	WantErr     string `json:"want_err,omitempty"`
	GotIDs      []int  `json:"got_ids,omitempty"`
	WantIDs     []int  `json:"want_ids,omitempty"`
	PendingRead []int  `json:"buffered_after"`
}

type counters struct {
	addOK, addRejected, buffered, rebases          int64
	rebaseInvalidated, rebaseDeleted, rebaseKept   int64
	rebaseNonEmpty, replayChecks, orderDependent   int64
	orderEnabled                                   int64
	porcOK, porcIllegal, porcUnknown, overlapPairs int64
	concOps, concBufferedReplayChecks              int64
}

func errStr(e error) string {
	if e == nil {
		return ""
	}
	return e.Error()
}

func newBuffer(ctx context.Context, base state) *gtxbuf.Buffer[state, tx] {
	log := slog.New(slog.NewTextHandler(io.Discard, nil))
	b := gtxbuf.New(ctx, log, applyTx, deleter)
	b.Initialize(ctx, base.clone())
	return b
}

func runSequential(r *verifkit.Run, ci int, c *counters) (nontrivial bool, digest []byte, sample any) {
	caseID := fmt.Sprintf("seq-%d", ci)
	r.BeginCase(caseID)
	rng := r.NamedRNG("seq", ci)
	nextID := 0
	g := gen{rng: rng, nacc: 2 + rng.IntN(3), nextID: &nextID}
	base := g.randState()
	nops := 8 + rng.IntN(50)

	ctx, cancel := context.WithCancel(context.Background())
	buf := newBuffer(ctx, base)
	defer func() { cancel(); buf.Wait() }()

	ref := refBuf{base: base}
	var hist []seqOp
	violated := false
	violate := func(key, what string) {
		violated = true
		r.Violate(key, what, caseID, map[string]any{"case": caseID, "seed": r.Seed, "accounts": g.nacc,
			"initial_base": base, "history": hist, "tx_legend": "op 0 transfer(a->b,x) 1 setIfEquals(a,x expect,y new) 2 nonceOp(a,x nonce,y delta) 3 alwaysFails"})
	}
	var sawInvalidation, sawAdd bool

	for i := 0; i < nops; i++ {
		var op seqOp
		bad := ""
		afterKind := ""
		switch x := rng.IntN(20); {
		case x < 12: // AddTx
			t := g.tx(ref.cur())
			op = seqOp{Op: "AddTx", Tx: &t}
			afterKind = "AddTx"
			got := buf.AddTx(ctx, t)
			nref, want := ref.add(t)
			op.GotErr, op.WantErr = errStr(got), errStr(want)
			switch {
			case got == nil && want != nil:
				bad = "C19:addtx-accepted-tx-that-does-not-apply-after-pending"
			case got != nil && want == nil:
				bad = "C19:addtx-rejected-tx-that-applies-after-pending"
			case got != nil && (got.Error() != want.Error() || !errors.As(got, new(gtxbuf.TxInvalidError))):
				bad = "C19:addtx-error-not-returned-directly"
			}
			if got == nil {
				c.addOK++
				sawAdd = true
			} else {
				c.addRejected++
			}
			ref = nref
		case x < 15: // Buffered, sometimes with a destination prefix
			op = seqOp{Op: "Buffered"}
			afterKind = "Buffered"
			var dst []tx
			if rng.IntN(2) == 0 {
				dst = make([]tx, 1, 1+rng.IntN(8))
				dst[0] = tx{ID: -1}
			}
			got := buf.Buffered(ctx, dst)
			c.buffered++
			if len(dst) == 1 {
				if len(got) == 0 || got[0].ID != -1 {
					bad = "C19:buffered-does-not-append-to-dst"
				} else {
					got = got[1:]
				}
			}
			op.GotIDs, op.WantIDs = ids(got), ids(ref.pend)
			if bad == "" && !slices.Equal(got, ref.pend) {
				bad = "C19:buffered-differs-from-reference"
			}
		default: // Rebase
			nb, applied := g.block(ref)
			op = seqOp{Op: "Rebase", NewBase: &nb, Applied: ids(applied)}
			afterKind = "Rebase"
			before := len(ref.pend)
			gotInv, gotErr := buf.Rebase(ctx, nb.clone(), slices.Clone(applied))
			nref, wantInv := ref.rebase(nb, applied)
			op.GotIDs, op.WantIDs, op.GotErr = ids(gotInv), ids(wantInv), errStr(gotErr)
			c.rebases++
			if before > 0 {
				c.rebaseNonEmpty++
			}
			c.rebaseInvalidated += int64(len(wantInv))
			c.rebaseKept += int64(len(nref.pend))
			c.rebaseDeleted += int64(before - len(wantInv) - len(nref.pend))
			for _, t := range wantInv {
				if _, err := applyTx(nil, nb, t); err == nil {
					c.orderDependent++ // applies to the bare new base, but not after the kept ones
				}
			}
			for _, t := range nref.pend {
				if _, err := applyTx(nil, nb, t); err != nil {
					c.orderEnabled++ // applies only thanks to the kept ones before it
				}
			}
			if len(wantInv) > 0 || before-len(nref.pend) > 0 {
				sawInvalidation = true
			}
			switch {
			case gotErr != nil:
				bad = "C19:rebase-returned-error-although-every-rejection-is-TxInvalidError"
			case !slices.Equal(gotInv, wantInv):
				bad = "C19:rebase-invalidated-list-differs-from-reference"
			}
			ref = nref
		}

		// Read the pending list back: exact comparison, then the independent replay.
		pend := buf.Buffered(ctx, nil)
		op.PendingRead = ids(pend)
		hist = append(hist, op)
		c.replayChecks++
		if bad != "" {
			violate(bad, fmt.Sprintf("operation %d (%s): got err=%q ids=%v, reference err=%q ids=%v", i, op.Op, op.GotErr, op.GotIDs, op.WantErr, op.WantIDs))
		}
		if k := replays(ref.base, pend); k >= 0 {
			key := "C19:pending-list-does-not-apply-in-order:after-" + afterKind
			if op.Op == "Rebase" {
				for _, a := range op.Applied {
					if slices.Contains(ids(pend), a) {
						key = "C19:rebase-kept-tx-reported-applied"
					}
				}
			}
			violate(key, fmt.Sprintf("after operation %d (%s) Buffered() = %v; replayed from the current base %s the transaction at index %d (%s) does not apply", i, op.Op, ids(pend), ref.base.key(), k, pend[k]))
		} else if !slices.Equal(pend, ref.pend) {
			key := "C19:pending-list-differs-from-reference:after-" + afterKind
			if op.Op == "Rebase" {
				for _, a := range op.Applied {
					if slices.Contains(ids(pend), a) {
						key = "C19:rebase-kept-tx-reported-applied"
					}
				}
			}
			violate(key, fmt.Sprintf("after operation %d (%s) Buffered() = %v, reference pending list = %v", i, op.Op, ids(pend), ids(ref.pend)))
		}
		if violated {
			// the real buffer and the reference have diverged; later comparisons
			// in this history would only repeat the same finding.
			break
		}
	}
	b, _ := json.Marshal(hist)
	d := sha256.Sum256(append([]byte(base.key()), b...))
	return sawAdd && sawInvalidation, d[:], map[string]any{"case": caseID, "accounts": g.nacc, "initial_base": base, "history": firstOps(hist, 8)}
}

func firstOps(h []seqOp, n int) []seqOp {
	if len(h) > n {
		return h[:n]
	}
	return h
}

// ---------------------------------------------------------------------------
// concurrent histories

type cIn struct {
	Op      string `json:"op"`
	Tx      *tx    `json:"tx,omitempty"`
	NewBase *state `json:"new_base,omitempty"`
	Applied []tx   `json:"applied,omitempty"`
}

type cOut struct {
	Err string `json:"err,omitempty"`
	IDs []int  `json:"ids"`
}

type cRec struct {
	Client int   `json:"client"`
	In     cIn   `json:"in"`
	Out    cOut  `json:"out"`
	Call   int64 `json:"call"`
	Return int64 `json:"return"`
}

func model(base state) porcupine.Model {
	return porcupine.Model{
		Init: func() interface{} { return refBuf{base: base} },
		Step: func(st, in, out interface{}) (bool, interface{}) {
			b, i, o := st.(refBuf), in.(cIn), out.(cOut)
			switch i.Op {
			case "AddTx":
				nb, err := b.add(*i.Tx)
				return errStr(err) == o.Err, nb
			case "Buffered":
				return slices.Equal(ids(b.pend), o.IDs), b
			default:
				nb, inv := b.rebase(*i.NewBase, i.Applied)
				return o.Err == "" && slices.Equal(ids(inv), o.IDs), nb
			}
		},
		Equal: func(a, b interface{}) bool {
			x, y := a.(refBuf), b.(refBuf)
			return x.base.key() == y.base.key() && slices.Equal(x.pend, y.pend)
		},
		DescribeOperation: func(in, out interface{}) string {
			bi, _ := json.Marshal(in)
			bo, _ := json.Marshal(out)
			return string(bi) + " -> " + string(bo)
		},
	}
}

func runConcurrent(r *verifkit.Run, ci int, c *counters) (nontrivial bool, digest []byte, sample any) {
	caseID := fmt.Sprintf("conc-%d", ci)
	r.BeginCase(caseID)
	rng := r.NamedRNG("conc", ci)
	nextID := 0
	g := gen{rng: rng, nacc: 2 + rng.IntN(2), nextID: &nextID}
	base := g.randState()

	// Pre-generate every client's operations: the case list is a pure function of the seed.
	const clients = 4
	plan := make([][]cIn, clients)
	yields := make([][]int, clients)
	var pool []tx
	bases := []state{base}
	hint := base
	for cl := 0; cl < clients; cl++ {
		n := 4 + rng.IntN(7) // 4..10 -> at most 40
		for k := 0; k < n; k++ {
			var in cIn
			switch x := rng.IntN(20); {
			case x < 11:
				t := g.tx(hint)
				if n2, err := applyTx(nil, hint, t); err == nil && rng.IntN(2) == 0 {
					hint = n2
				}
				pool = append(pool, t)
				in = cIn{Op: "AddTx", Tx: &t}
			case x < 15:
				in = cIn{Op: "Buffered"}
			default:
				var applied []tx
				for _, t := range pool {
					if rng.IntN(3) == 0 {
						applied = append(applied, t)
					}
				}
				nb := bases[rng.IntN(len(bases))]
				if rng.IntN(3) == 0 {
					nb = g.randState()
				} else {
					for _, t := range applied {
						if n2, err := applyTx(nil, nb, t); err == nil {
							nb = n2
						}
					}
				}
				nb = nb.clone()
				bases = append(bases, nb)
				hint = nb
				in = cIn{Op: "Rebase", NewBase: &nb, Applied: applied}
			}
			plan[cl] = append(plan[cl], in)
			yields[cl] = append(yields[cl], rng.IntN(4))
		}
	}

	ctx, cancel := context.WithCancel(context.Background())
	buf := newBuffer(ctx, base)
	defer func() { cancel(); buf.Wait() }()

	var clock atomic.Int64
	recs := make([][]cRec, clients)
	start := make(chan struct{})
	var wg sync.WaitGroup
	for cl := 0; cl < clients; cl++ {
		wg.Add(1)
		go func(cl int) {
			defer wg.Done()
			<-start
			for k, in := range plan[cl] {
				for y := yields[cl][k]; y > 0; y-- {
					runtime.Gosched()
				}
				rec := cRec{Client: cl, In: in}
				rec.Call = clock.Add(1)
				switch in.Op {
				case "AddTx":
					rec.Out.Err = errStr(buf.AddTx(ctx, *in.Tx))
				case "Buffered":
					rec.Out.IDs = ids(buf.Buffered(ctx, nil))
				default:
					inv, err := buf.Rebase(ctx, in.NewBase.clone(), slices.Clone(in.Applied))
					rec.Out.IDs, rec.Out.Err = ids(inv), errStr(err)
				}
				rec.Return = clock.Add(1)
				recs[cl] = append(recs[cl], rec)
			}
		}(cl)
	}
	close(start)
	done := make(chan struct{})
	go func() { wg.Wait(); close(done) }()
	t := time.NewTimer(120 * time.Second)
	select {
	case <-done:
		t.Stop()
	case <-t.C:
		r.Inconclusive("%s: clients did not finish within 120 s", caseID)
		return false, nil, nil
	}
	// one last read after everybody finished
	last := cRec{Client: 0, In: cIn{Op: "Buffered"}, Call: clock.Add(1)}
	last.Out.IDs = ids(buf.Buffered(ctx, nil))
	last.Return = clock.Add(1)
	recs[0] = append(recs[0], last)

	var all []cRec
	var ops []porcupine.Operation
	byID := map[int]tx{}
	for _, t := range pool {
		byID[t.ID] = t
	}
	for cl := range recs {
		for _, rec := range recs[cl] {
			all = append(all, rec)
			ops = append(ops, porcupine.Operation{ClientId: rec.Client, Input: rec.In, Call: rec.Call, Output: rec.Out, Return: rec.Return})
		}
	}
	slices.SortFunc(all, func(a, b cRec) int { return int(a.Call - b.Call) })
	c.concOps += int64(len(all))
	witness := func() map[string]any {
		return map[string]any{"case": caseID, "seed": r.Seed, "accounts": g.nacc, "initial_base": base, "history_by_call_time": all,
			"note": "call/return are ticks of one logical clock (atomic counter), not wall time"}
	}

	// independent necessary condition: every Buffered() result replays on some base
	for _, rec := range all {
		if rec.In.Op != "Buffered" {
			continue
		}
		c.concBufferedReplayChecks++
		l := make([]tx, len(rec.Out.IDs))
		for i, id := range rec.Out.IDs {
			l[i] = byID[id]
		}
		ok := false
		for _, b := range bases {
			if replays(b, l) < 0 {
				ok = true
				break
			}
		}
		if !ok {
			r.Violate("C19:concurrent-buffered-list-applies-in-order-on-no-base-ever-given",
				fmt.Sprintf("Buffered() returned %v, which does not apply in order from the initial base nor from any base passed to Rebase", rec.Out.IDs), caseID, witness())
		}
	}

	overlap := 0
	kinds := map[string]bool{}
	for i := range all {
		kinds[all[i].In.Op] = true
		for j := i + 1; j < len(all) && all[j].Call < all[i].Return; j++ {
			overlap++
		}
	}
	c.overlapPairs += int64(overlap)

	switch porcupine.CheckOperationsTimeout(model(base), ops, 60*time.Second) {
	case porcupine.Ok:
		c.porcOK++
	case porcupine.Illegal:
		c.porcIllegal++
		r.Violate("C19:concurrent-history-not-linearizable-against-reference-buffer",
			fmt.Sprintf("no sequential order of the %d recorded AddTx/Buffered/Rebase calls that respects real-time order is explained by the reference buffer", len(all)), caseID, witness())
	default:
		c.porcUnknown++
		r.Inconclusive("%s: porcupine timed out on %d operations", caseID, len(all))
		return false, nil, nil
	}
	b, _ := json.Marshal(all)
	d := sha256.Sum256(b)
	return overlap >= 1 && kinds["AddTx"] && kinds["Rebase"], d[:], map[string]any{"case": caseID, "initial_base": base, "operations": len(all), "overlapping_pairs": overlap, "first_operations": all[:min(6, len(all))]}
}

// ---------------------------------------------------------------------------

func run(t *testing.T, nSeqQ, nSeqT, nConcQ, nConcT int) {
	r := verifkit.Start("C19")
	if r == nil {
		t.Skip("not started by the /verif driver")
	}
	defer r.Finish()
	r.SetRule("State = 2-4 balances + nonces; transactions transfer / setIfEquals / nonce-ordered / always-fails with unique ids, rejections wrapped in gtxbuf.TxInvalidError, deleter by id. Sequential cases: 8-57 calls (60% AddTx, two thirds of them made to apply to the reference's current state; 15% Buffered with or without dst prefix; 25% Rebase onto a base obtained by applying a block = prefix/subset of the pending list mixed with foreign transactions, or onto an unrelated base, applied list = the block's successful transactions, sometimes plus a pending one); after every call exact comparison with a reference buffer and independent replay of Buffered() from the current base with the user function. Concurrent cases: 4 clients, 17-41 calls in total pre-drawn from the case PRNG, logical-clock history checked by porcupine against the same reference, plus 'every Buffered() result replays on some base ever given'. Non-trivial = sequential case with an accepted AddTx and a Rebase that removed something (applied or invalidated), or concurrent case with >= 1 overlapping pair of calls and both AddTx and Rebase; digest = SHA-256 of the recorded history.")

	nSeq, nConc := r.N(nSeqQ, nSeqT), r.N(nConcQ, nConcT)
	var mu sync.Mutex
	var tot counters
	merge := func(c *counters) {
		mu.Lock()
		defer mu.Unlock()
		tot.addOK += c.addOK
		tot.addRejected += c.addRejected
		tot.buffered += c.buffered
		tot.rebases += c.rebases
		tot.rebaseInvalidated += c.rebaseInvalidated
		tot.rebaseDeleted += c.rebaseDeleted
		tot.rebaseKept += c.rebaseKept
		tot.rebaseNonEmpty += c.rebaseNonEmpty
		tot.replayChecks += c.replayChecks
		tot.orderDependent += c.orderDependent
		tot.orderEnabled += c.orderEnabled
		tot.porcOK += c.porcOK
		tot.porcIllegal += c.porcIllegal
		tot.porcUnknown += c.porcUnknown
		tot.overlapPairs += c.overlapPairs
		tot.concOps += c.concOps
		tot.concBufferedReplayChecks += c.concBufferedReplayChecks
	}
	var ntSeq, ntConc atomic.Int64
	r.Parallel(nSeq, func(i int) {
		var c counters
		nt, d, s := runSequential(r, i, &c)
		r.Eval(1)
		if nt {
			r.Nontrivial("seq", d)
			ntSeq.Add(1)
		}
		if i < 2 {
			r.Sample(s)
		}
		merge(&c)
	})
	r.Parallel(nConc, func(i int) {
		var c counters
		nt, d, s := runConcurrent(r, i, &c)
		r.Eval(1)
		if nt {
			r.Nontrivial("conc", d)
			ntConc.Add(1)
		}
		if i < 2 && s != nil {
			r.Sample(s)
		}
		merge(&c)
	})
	r.Count("sequential_cases", int64(nSeq))
	r.Count("concurrent_cases", int64(nConc))
	r.Count("sequential_cases_nontrivial", ntSeq.Load())
	r.Count("concurrent_cases_nontrivial", ntConc.Load())
	r.Count("seq_addtx_accepted", tot.addOK)
	r.Count("seq_addtx_rejected", tot.addRejected)
	r.Count("seq_buffered_calls", tot.buffered)
	r.Count("seq_rebase_calls", tot.rebases)
	r.Count("seq_rebase_calls_with_pending", tot.rebaseNonEmpty)
	r.Count("seq_rebase_txs_invalidated", tot.rebaseInvalidated)
	r.Count("seq_rebase_txs_invalidated_only_because_of_order", tot.orderDependent)
	r.Count("seq_rebase_txs_kept_only_thanks_to_earlier_kept_ones", tot.orderEnabled)
	r.Count("seq_rebase_txs_deleted_as_applied", tot.rebaseDeleted)
	r.Count("seq_rebase_txs_kept", tot.rebaseKept)
	r.Count("seq_readback_and_replay_checks", tot.replayChecks)
	r.Count("conc_operations", tot.concOps)
	r.Count("conc_overlapping_call_pairs", tot.overlapPairs)
	r.Count("conc_buffered_replay_checks", tot.concBufferedReplayChecks)
	r.Count("porcupine_ok", tot.porcOK)
	r.Count("porcupine_illegal", tot.porcIllegal)
	r.Count("porcupine_timeout", tot.porcUnknown)
	if nConc > 0 && ntConc.Load() == 0 {
		r.Inconclusive("no concurrent history had overlapping calls")
	}
}

func TestVerif_C19(t *testing.T) { run(t, 5000, 100000, 500, 5000) }

// TestVerif_C19_race is the same workload, smaller, for the -race build.
func TestVerif_C19_race(t *testing.T) { run(t, 500, 5000, 300, 1000) }
