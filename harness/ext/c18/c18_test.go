package c18

import (
	"fmt"
	"math/bits"
	"sync/atomic"
	"testing"

	"github.com/gordian-engine/gordian/tm/tmconsensus"
	"verif/ext/verifkit"
)

// u128 is (hi, lo).
type u128 struct{ hi, lo uint64 }

func mul(a uint64, k uint64) u128 {
	hi, lo := bits.Mul64(a, k)
	return u128{hi, lo}
}
func gt(a, b u128) bool  { return a.hi > b.hi || (a.hi == b.hi && a.lo > b.lo) }
func ge(a, b u128) bool  { return a.hi > b.hi || (a.hi == b.hi && a.lo >= b.lo) }
func lt(a, b u128) bool  { return gt(b, a) }
func le(a, b u128) bool  { return ge(b, a) }
func str(a u128) string  { return fmt.Sprintf("%#x_%016x", a.hi, a.lo) }
func sub1(m uint64) bool { return m >= 1 }

// check evaluates the oracle for one n. It returns a violation key or "".
func check(n uint64) (key, what string) {
	var maj, min uint64
	if p, _, msg, _ := verifkit.Guard(func() { maj = tmconsensus.ByzantineMajority(n) }); p {
		return "C18:majority-panics", fmt.Sprintf("ByzantineMajority(%d) panicked: %s", n, msg)
	}
	if p, _, msg, _ := verifkit.Guard(func() { min = tmconsensus.ByzantineMinority(n) }); p {
		return "C18:minority-panics", fmt.Sprintf("ByzantineMinority(%d) panicked: %s", n, msg)
	}
	n2 := mul(n, 2)
	n1 := u128{0, n}
	// majority: smallest m with 3m > 2n
	if !gt(mul(maj, 3), n2) {
		return "C18:majority-too-small", fmt.Sprintf("n=%d maj=%d: 3*maj=%s is not > 2n=%s", n, maj, str(mul(maj, 3)), str(n2))
	}
	if maj == 0 || !le(mul(maj-1, 3), n2) {
		return "C18:majority-not-minimal", fmt.Sprintf("n=%d maj=%d: 3*(maj-1) already exceeds 2n", n, maj)
	}
	// minority: smallest m with 3m >= n
	if !ge(mul(min, 3), n1) {
		return "C18:minority-too-small", fmt.Sprintf("n=%d min=%d: 3*min < n", n, min)
	}
	if min == 0 || !lt(mul(min-1, 3), n1) {
		return "C18:minority-not-minimal", fmt.Sprintf("n=%d min=%d: 3*(min-1) already reaches n", n, min)
	}
	// Quorum intersection: two sets of power >= maj out of n overlap in >= 2*maj-n,
	// which must reach the minority threshold.
	if maj > n {
		return "C18:majority-exceeds-total", fmt.Sprintf("n=%d maj=%d", n, maj)
	}
	d, borrow := bits.Sub64(maj, n-maj, 0) // 2*maj - n, computed as maj-(n-maj)
	if borrow != 0 || d < min {
		return "C18:quorum-intersection-below-minority", fmt.Sprintf("n=%d maj=%d min=%d: 2*maj-n=%d", n, maj, min, d)
	}
	// a set strictly below the minority can neither form a majority nor block one:
	// (min-1) < maj and n-(min-1) >= maj.
	if min-1 >= maj || n-(min-1) < maj {
		return "C18:sub-minority-can-block-or-form-majority", fmt.Sprintf("n=%d maj=%d min=%d", n, maj, min)
	}
	return "", ""
}

func TestVerif_C18(t *testing.T) {
	r := verifkit.Start("C18")
	if r == nil {
		t.Skip("not started by the /verif driver")
	}
	defer r.Finish()
	r.SetRule("n enumerated exhaustively in [1,2^k] (k=22 quick, 31 thorough), every n within +-1000 of 2^k, of j*2^k/3 (j=1,2) and of 2^64-1, the top 2^20 values below 2^64, and PRNG-drawn 64-bit values; oracle in 128-bit arithmetic (math/bits). Non-trivial = distinct (n mod 3, bit length of n, overflow class of 3*maj) classes seen, each holding at least one evaluated n.")

	var evals atomic.Int64
	classes := make([]atomic.Int64, 3*65*2)
	eval := func(n uint64) {
		if n == 0 {
			return
		}
		evals.Add(1)
		if key, what := check(n); key != "" {
			r.Violate(key, what, fmt.Sprintf("n=%d", n), map[string]any{"n": fmt.Sprint(n)})
		}
		ov := 0
		if n > (1<<64-1)/2 {
			ov = 1
		}
		classes[(int(n%3)*65+bits.Len64(n))*2+ov].Add(1)
	}

	// 1. exhaustive range, split over workers.
	k := 22
	if !r.Quick() {
		k = 31
	}
	top := uint64(1) << k
	const chunk = 1 << 16
	nchunks := int(top / chunk)
	r.Parallel(nchunks, func(i int) {
		lo := uint64(i) * chunk
		for n := lo + 1; n <= lo+chunk; n++ {
			eval(n)
		}
	})
	r.Count("exhaustive_upto", int64(top))

	// 2. structured edges.
	var edges []uint64
	for b := 1; b <= 64; b++ {
		var p uint64
		if b == 64 {
			p = 1<<64 - 1
		} else {
			p = uint64(1) << b
		}
		for _, c := range []uint64{p, p / 3, p / 3 * 2, p/3*2 + 1} {
			edges = append(edges, c)
		}
	}
	r.Parallel(len(edges), func(i int) {
		c := edges[i]
		for d := uint64(0); d <= 1000; d++ {
			if c+d >= c {
				eval(c + d)
			}
			if c >= d {
				eval(c - d)
			}
		}
	})
	r.Count("edge_centres", int64(len(edges)))

	// 3. top of the range.
	const topN = 1 << 20
	r.Parallel(16, func(i int) {
		per := uint64(topN / 16)
		start := ^uint64(0) - uint64(i)*per
		for d := uint64(0); d < per; d++ {
			eval(start - d)
		}
	})

	// 4. PRNG-drawn values at all magnitudes.
	draws := r.N(1_000_000, 100_000_000)
	per := draws / 64
	r.Parallel(64, func(i int) {
		rng := r.CaseRNG(i)
		for j := 0; j < per; j++ {
			v := rng.Uint64()
			eval(v >> (rng.UintN(64)))
		}
	})

	r.Eval(int(evals.Load()))
	for i := range classes {
		if classes[i].Load() > 0 {
			r.Nontrivial("class", i)
		}
	}
	for _, n := range []uint64{1, 2, 3, 10, 12, 1 << 62, 1<<64 - 1, 6148914691236517205, 12297829382473034410} {
		r.Sample(map[string]any{"n": fmt.Sprint(n), "majority": fmt.Sprint(tmconsensus.ByzantineMajority(n)), "minority": fmt.Sprint(tmconsensus.ByzantineMinority(n))})
		if !r.WantSample() {
			break
		}
	}
}
