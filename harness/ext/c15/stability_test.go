package c15

import (
	"bytes"
	"encoding/hex"
	"fmt"
	"runtime"
	"unsafe"

	"github.com/gordian-engine/gordian/tm/tmconsensus"
	"verif/ext/verifkit"
)

// Returned-value stability: the bytes handed back by tmconsensus.ProposalSignBytes /
// PrevoteSignBytes / PrecommitSignBytes are what gets signed. They must be the
// scheme's content for that target, must stay unchanged while the caller holds
// them (whatever helper is called next, also across a GC), and two results must
// never share backing memory.

var helperNames = [3]string{"ProposalSignBytes", "PrevoteSignBytes", "PrecommitSignBytes"}

type stabTarget struct {
	h     tmconsensus.Header
	round uint32
	ann   tmconsensus.Annotations
	vt    tmconsensus.VoteTarget
}

func (t stabTarget) dump(helper int) any {
	if helper == 0 {
		return map[string]any{"header": dumpHeader(t.h), "round": t.round, "proposal_annotations": map[string]any{"User": hexOrNil(t.ann.User), "Driver": hexOrNil(t.ann.Driver)}}
	}
	return map[string]any{"height": fmt.Sprint(t.vt.Height), "round": t.vt.Round, "block_hash_hex": hex.EncodeToString([]byte(t.vt.BlockHash))}
}

// callHelper runs one helper; expected is the scheme's own content written into a harness-owned buffer.
func callHelper(helper int, t stabTarget) (got []byte, expected []byte, err error) {
	var w bytes.Buffer
	switch helper {
	case 0:
		if _, err = sigScheme.WriteProposalSigningContent(&w, t.h, t.round, t.ann); err != nil {
			return nil, nil, err
		}
		got, err = tmconsensus.ProposalSignBytes(t.h, t.round, t.ann, sigScheme)
	case 1:
		if _, err = sigScheme.WritePrevoteSigningContent(&w, t.vt); err != nil {
			return nil, nil, err
		}
		got, err = tmconsensus.PrevoteSignBytes(t.vt, sigScheme)
	default:
		if _, err = sigScheme.WritePrecommitSigningContent(&w, t.vt); err != nil {
			return nil, nil, err
		}
		got, err = tmconsensus.PrecommitSignBytes(t.vt, sigScheme)
	}
	return got, w.Bytes(), err
}

type kept struct {
	helper int
	t      stabTarget
	b      []byte // exactly what the helper returned, never copied
	s      string // copy taken right after the call
	step   int
}

func overlaps(a, b []byte) bool {
	if cap(a) == 0 || cap(b) == 0 {
		return false
	}
	a0 := uintptr(unsafe.Pointer(unsafe.SliceData(a)))
	b0 := uintptr(unsafe.Pointer(unsafe.SliceData(b)))
	return a0 < b0+uintptr(cap(b)) && b0 < a0+uintptr(cap(a))
}

// stabilityPhase runs in the calling goroutine with GOMAXPROCS(1), so that the
// helpers' sync.Pool hands the same buffer to consecutive calls.
func stabilityPhase(r *verifkit.Run) {
	old := runtime.GOMAXPROCS(1)
	defer runtime.GOMAXPROCS(old)

	rng := r.NamedRNG("stability", 0)
	hh := hostileHashes(rng)
	headers := make([]tmconsensus.Header, 48)
	for i := range headers {
		headers[i] = genHeader(rng)
		if bh, err := hashScheme.Block(headers[i]); err == nil {
			headers[i].Hash = bh
		}
	}
	draw := func() stabTarget {
		t := stabTarget{h: headers[rng.IntN(len(headers))], round: genU32(rng), ann: tmconsensus.Annotations{User: genAnn(rng), Driver: genAnn(rng)}}
		t.vt = tmconsensus.VoteTarget{Height: genU64(rng), Round: genU32(rng)}
		switch x := rng.UintN(10); {
		case x < 2:
		case x < 6:
			t.vt.BlockHash = hh[rng.IntN(len(hh))]
		default:
			t.vt.BlockHash = string(rbytes(rng, 32))
		}
		return t
	}
	// every order of the three helpers, then orders with repeats
	var orders [][]int
	for a := 0; a < 3; a++ {
		for b := 0; b < 3; b++ {
			orders = append(orders, []int{a, b})
			for c := 0; c < 3; c++ {
				orders = append(orders, []int{a, b, c})
			}
		}
	}
	nSeq := r.N(20000, 100000)
	var calls, checks int64
	orderSeen := map[string]struct{}{}
	for q := 0; q < nSeq; q++ {
		var order []int
		if q < 4*len(orders) {
			order = orders[q%len(orders)]
		} else {
			order = make([]int, 2+rng.IntN(5))
			for i := range order {
				order[i] = rng.IntN(3)
			}
		}
		caseID := fmt.Sprintf("sign/stability/%d", q)
		var ks []kept
		bad := false
		for step, hp := range order {
			t := draw()
			var got, exp []byte
			var err error
			if p, key, msg, stack := verifkit.Guard(func() { got, exp, err = callHelper(hp, t) }); p {
				r.Violate(key, helperNames[hp]+" panicked: "+msg, caseID, map[string]any{"target": t.dump(hp), "stack": stack})
				bad = true
				break
			}
			if err != nil {
				r.Violate("C15:sign-bytes-error:"+helperNames[hp], helperNames[hp]+" returned an error: "+err.Error(), caseID, map[string]any{"target": t.dump(hp)})
				bad = true
				break
			}
			calls++
			k := kept{helper: hp, t: t, b: got, s: string(got), step: step}
			if k.s != string(exp) {
				r.Violate("C15:sign-bytes-helper-differs-from-scheme:"+helperNames[hp],
					fmt.Sprintf("%s returned %q but the scheme's Write...SigningContent for the same target writes %q", helperNames[hp], k.s, exp), caseID,
					map[string]any{"target": t.dump(hp), "returned": k.s, "scheme_content": string(exp)})
			}
			ks = append(ks, k)
		}
		if bad {
			continue
		}
		if q%16 == 5 && (q < 20000 || q%512 == 5) {
			// a full collection with the sign-bytes index on the heap takes a few hundred
			// milliseconds: every 16th sequence of the first 20000, every 512th after that
			runtime.GC()
		}
		if q%8 == 3 { // a burst of further calls of all three helpers
			for j := 0; j < 9; j++ {
				t := draw()
				_, _, _ = callHelper(j%3, t)
				calls++
			}
		}
		names := make([]string, len(order))
		for i, hp := range order {
			names[i] = helperNames[hp]
		}
		for i, k := range ks {
			checks++
			if string(k.b) != k.s {
				r.Violate("C15:sign-bytes-result-aliased-or-mutated-after-return:"+helperNames[k.helper],
					fmt.Sprintf("the slice returned by %s (call %d of sequence %v) changed after later helper calls: it was %q and now reads %q, so a signature made over it is over different bytes than the scheme defined for its target",
						helperNames[k.helper], k.step+1, names, k.s, k.b), caseID,
					map[string]any{"sequence": names, "call_index": k.step, "target": k.t.dump(k.helper), "bytes_right_after_call": k.s, "bytes_now": string(k.b),
						"gc_before_check": q%16 == 5, "burst_before_check": q%8 == 3})
			}
			for j := i + 1; j < len(ks); j++ {
				if overlaps(k.b, ks[j].b) {
					r.Violate("C15:sign-bytes-result-aliased-or-mutated-after-return:"+helperNames[k.helper],
						fmt.Sprintf("the slices returned by %s (call %d) and %s (call %d) of sequence %v share backing memory", helperNames[k.helper], k.step+1, helperNames[ks[j].helper], ks[j].step+1, names), caseID,
						map[string]any{"sequence": names, "first_target": k.t.dump(k.helper), "second_target": ks[j].t.dump(ks[j].helper), "shared_memory": true})
				}
			}
		}
		key := fmt.Sprint(order)
		if _, ok := orderSeen[key]; !ok {
			orderSeen[key] = struct{}{}
			r.Nontrivial("stability-order", key)
		}
	}
	r.Eval(int(calls))
	r.Count("sign.stability.sequences", int64(nSeq))
	r.Count("sign.stability.helper-calls", calls)
	r.Count("sign.stability.kept-results-rechecked", checks)
	r.Count("sign.stability.distinct-call-orders", int64(len(orderSeen)))
}
