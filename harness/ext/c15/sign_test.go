package c15

import (
	"bytes"
	"encoding/hex"
	"fmt"
	"math/rand/v2"
	"sort"
	"strings"
	"testing"

	"github.com/gordian-engine/gordian/tm/tmconsensus"
	"verif/ext/verifkit"
)

// item is one thing that gets signed, with the identity the property speaks of:
// (kind, height, round, block hash).
type item struct {
	kind   string // "prevote", "precommit", "proposal"
	height uint64
	round  uint32
	hash   string // "" = nil (votes); for proposals the SimpleHashScheme.Block hash of the proposed header
	bytes  []byte
	desc   string // how it was generated (proposals: which header variant)
	// proposals are regenerated for the witness instead of being kept in memory
	run      *verifkit.Run
	propCase int
	propVar  int
}

func (it item) id() string {
	return fmt.Sprintf("%s|%d|%d|%d|%s", it.kind, it.height, it.round, len(it.hash), it.hash)
}

func (it item) dump() any {
	m := map[string]any{"kind": it.kind, "height": fmt.Sprint(it.height), "round": it.round, "block_hash_hex": hex.EncodeToString([]byte(it.hash)),
		"block_hash_is_nil": it.hash == "", "sign_bytes": string(it.bytes), "sign_bytes_hex": hex.EncodeToString(it.bytes), "generated_as": it.desc}
	if it.kind == "proposal" && it.run != nil {
		v := propVariants(it.run, it.propCase)[it.propVar]
		m["proposed_header"] = dumpHeader(v.h)
		m["proposal_annotations"] = map[string]any{"User": hexOrNil(v.ann.User), "Driver": hexOrNil(v.ann.Driver)}
	}
	return m
}

func signVote(r *verifkit.Run, caseID, kind string, vt tmconsensus.VoteTarget) ([]byte, bool) {
	var out []byte
	var err error
	p, key, msg, stack := verifkit.Guard(func() {
		if kind == "prevote" {
			out, err = tmconsensus.PrevoteSignBytes(vt, sigScheme)
		} else {
			out, err = tmconsensus.PrecommitSignBytes(vt, sigScheme)
		}
	})
	if p {
		r.Violate(key, kind+" sign bytes panicked: "+msg, caseID, map[string]any{"height": fmt.Sprint(vt.Height), "round": vt.Round, "hash_hex": hex.EncodeToString([]byte(vt.BlockHash)), "stack": stack})
		return nil, false
	}
	if err != nil {
		r.Violate("C15:sign-bytes-error:"+kind, kind+" sign bytes returned an error: "+err.Error(), caseID, map[string]any{"height": fmt.Sprint(vt.Height), "round": vt.Round, "hash_hex": hex.EncodeToString([]byte(vt.BlockHash))})
		return nil, false
	}
	return out, true
}

func signProposal(r *verifkit.Run, caseID string, h tmconsensus.Header, round uint32, ann tmconsensus.Annotations) ([]byte, bool) {
	var out []byte
	var err error
	p, key, msg, stack := verifkit.Guard(func() { out, err = tmconsensus.ProposalSignBytes(h, round, ann, sigScheme) })
	if p {
		r.Violate(key, "proposal sign bytes panicked: "+msg, caseID, map[string]any{"header": dumpHeader(h), "round": round, "stack": stack})
		return nil, false
	}
	if err != nil {
		r.Violate("C15:sign-bytes-error:proposal", "proposal sign bytes returned an error: "+err.Error(), caseID, map[string]any{"header": dumpHeader(h), "round": round})
		return nil, false
	}
	return out, true
}

var edgeHeights = []uint64{0, 1, 2, 9, 10, 11, 12, 19, 21, 99, 100, 101, 110, 111, 1 << 31, 1 << 32, 1 << 63, ^uint64(0) - 1, ^uint64(0)}
var edgeRounds = []uint32{0, 1, 2, 9, 10, 11, 12, 21, 100, 101, 110, 111, 1 << 31, ^uint32(0) - 1, ^uint32(0)}

// hostileHashes: nil, prefixes of each other, newlines, '=', the literal labels,
// hex look-alikes.
func hostileHashes(rng *rand.Rand) []string {
	out := []string{""}
	full := rbytes(rng, 32)
	for n := 1; n <= 32; n++ {
		out = append(out, string(full[:n]))
	}
	out = append(out, string(full)+"\n", string(full)+"\x00", string(full)+"=", "\n"+string(full))
	for _, s := range hostileBits {
		out = append(out, s)
	}
	out = append(out,
		"a", "ab", "abc", "6162", "ab\n", "\nab", "a\nb", "\n\n", " ", "  ", "\r\n", "\t",
		"Round=1\n", "\nRound=1\n", "1\nRound=1", "Height=1\nRound=1\n", "BlockHash=ab\n", "BlockHash=6162\n", "\nBlockHash=", "=ab", "ab=",
		"NIL PREVOTE:", "NIL PRECOMMIT:", "PREVOTE:", "PRECOMMIT:", "PROPOSAL:", "NIL ", "NIL",
		"PREVOTE:\nHeight=1\nRound=0\nBlockHash=", "PRECOMMIT:\nHeight=1\nRound=0\n",
		"PrevBlockHash=", "DataID=", "UserAnnotation=", "DriverAnnotation=\n",
		"00", "\x00\x00", "\x30\x30", "0", "<nil>", "%!x(MISSING)", "%d", "\xff", "\xff\xff",
		strings.Repeat("a", 31), strings.Repeat("a", 32), strings.Repeat("a", 33), strings.Repeat("\n", 32),
		hex.EncodeToString(full), strings.ToUpper(hex.EncodeToString(full[:4])), hex.EncodeToString(full[:4]),
	)
	for k := 0; k < 12; k++ {
		out = append(out, string(rbytes(rng, 32)))
	}
	return out
}

type collisionIndex struct {
	r        *verifkit.Run
	byBytes  map[string]item
	byID     map[string][]byte
	judged   int64
	distinct int64
}

// add records one item and judges it against everything seen so far.
func (ci *collisionIndex) add(it item, caseID string) {
	id := it.id()
	if it.kind != "proposal" {
		// votes: the bytes are a function of the identity alone
		if prev, ok := ci.byID[id]; ok {
			if !bytes.Equal(prev, it.bytes) {
				ci.r.Violate("C15:sign-bytes-nondeterministic:"+it.kind, "the same vote target produced different sign bytes", caseID, map[string]any{"item": it.dump(), "earlier_bytes": string(prev)})
			}
			return
		}
		ci.byID[id] = it.bytes
	}
	ci.judged++
	prev, ok := ci.byBytes[string(it.bytes)]
	if !ok {
		ci.byBytes[string(it.bytes)] = it
		ci.distinct++
		return
	}
	if prev.id() == id {
		return
	}
	// same bytes, different (kind, height, round, hash): classify
	kinds := []string{prev.kind, it.kind}
	sort.Strings(kinds)
	var dims []string
	if prev.height != it.height {
		dims = append(dims, "height")
	}
	if prev.round != it.round {
		dims = append(dims, "round")
	}
	if prev.hash != it.hash {
		if (prev.hash == "") != (it.hash == "") {
			dims = append(dims, "hash(nil-vs-block)")
		} else {
			dims = append(dims, "hash")
		}
	}
	key := "C15:sign-bytes-collision:" + kinds[0] + "/" + kinds[1] + ":" + strings.Join(dims, "+")
	what := fmt.Sprintf("a %s for (height %d, round %d, hash %x) and a %s for (height %d, round %d, hash %x) have identical sign bytes %q",
		prev.kind, prev.height, prev.round, prev.hash, it.kind, it.height, it.round, it.hash, it.bytes)
	if prev.kind == "proposal" && it.kind == "proposal" && len(dims) == 1 && strings.HasPrefix(dims[0], "hash") {
		key = "C15:proposal-sign-bytes-do-not-bind-block-hash"
		what = fmt.Sprintf("two proposals for height %d round %d whose headers hash to different block hashes (%x vs %x; variants %q vs %q) have identical sign bytes, so the proposer's signature is valid for both",
			it.height, it.round, prev.hash, it.hash, prev.desc, it.desc)
	}
	ci.r.Violate(key, what, caseID, map[string]any{"a": prev.dump(), "b": it.dump(), "differs_in": dims})
}

type pv struct {
	desc  string
	h     tmconsensus.Header
	round uint32
	ann   tmconsensus.Annotations
}

// propVariants regenerates proposal case i: a pure function of (seed, i).
func propVariants(r *verifkit.Run, i int) []pv {
	prng := r.NamedRNG("proposal", i)
	base := genHeader(prng)
	if prng.UintN(3) == 0 {
		base.Height = edgeHeights[prng.IntN(len(edgeHeights))]
	}
	round := genU32(prng)
	if prng.UintN(3) == 0 {
		round = edgeRounds[prng.IntN(len(edgeRounds))]
	}
	ann := tmconsensus.Annotations{User: genAnn(prng), Driver: genAnn(prng)}

	vars := []pv{{"base", base, round, ann}}
	mut := func(name string) (tmconsensus.Header, bool) {
		for _, m := range allMutations {
			if m.name == name {
				return m.fn(prng, cloneHeader(base))
			}
		}
		panic("unknown mutation " + name)
	}
	// signed-content changes
	for _, name := range []string{"height", "prevblockhash", "dataid", "prevappstatehash", "shift:dataid->prevappstatehash", "shift:prevblockhash<->dataid"} {
		if h2, ok := mut(name); ok {
			vars = append(vars, pv{"header." + name, h2, round, ann})
		}
	}
	vars = append(vars, pv{"round+1", base, round + 1, ann}, pv{"round*10", base, round*10 + 1, ann})
	vars = append(vars, pv{"height<->round", func() tmconsensus.Header { h2 := cloneHeader(base); h2.Height = uint64(round); return h2 }(), uint32(base.Height), ann})
	vars = append(vars, pv{"proposal-annotations-swapped", base, round, tmconsensus.Annotations{User: ann.Driver, Driver: ann.User}})
	// changes outside the signed content: only the block hash tells these apart
	for _, name := range []string{"nextvalset.key", "nextvalset.power", "valset.validator-added", "commit.round", "commit.pubkeyhash", "commit.block-added", "ann.user-content", "ann.driver-nil-vs-empty"} {
		if h2, ok := mut(name); ok {
			vars = append(vars, pv{"header." + name + " (not in the signed content)", h2, round, ann})
		}
	}
	return vars
}

func TestVerif_C15_signbytes(t *testing.T) {
	r := verifkit.Start("C15")
	if r == nil {
		t.Skip("not started by the /verif driver")
	}
	defer r.Finish()
	r.SetRule("Sign bytes: a family of prevote/precommit targets = {prevote, precommit} x edge heights (0,1,9,10,11,...,2^64-1) x edge rounds x hostile block hashes (nil, all 32 prefixes of one hash, newlines, '=', the literal labels 'Round=1\\n', 'NIL PREVOTE:', hex look-alikes) plus PRNG draws, " +
		"and a family of proposals = generated headers (hash computed with SimpleHashScheme.Block) x rounds x proposal annotations, each with variants changing height, round, a signed field, or only fields outside the signed content. " +
		"All sign bytes go into one index keyed by the bytes; two items with equal bytes but different (kind, height, round, block hash) are a violation (all pairs). " +
		"Returned-value stability: in one goroutine (GOMAXPROCS 1) the helpers ProposalSignBytes/PrevoteSignBytes/PrecommitSignBytes are called in every order of 2-3 and in random orders of 2-6 for drawn targets; every returned slice is kept uncopied next to an immediate string copy and the scheme's own Write...SigningContent output, and after the following calls (every 16th sequence a runtime.GC - every 512th after the first 20000 -, every 8th a burst of 9 more calls) each kept slice must still equal its copy and no two results may overlap in memory. " +
		"Non-trivial = distinct (kind, height, round, hash) identities indexed plus distinct helper call orders exercised.")

	ci := &collisionIndex{r: r, byBytes: map[string]item{}, byID: map[string][]byte{}}
	rng := r.NamedRNG("sign-family", 0)
	hh := hostileHashes(rng)
	cnt := map[string]int64{}

	// structured cross product
	for _, kind := range []string{"prevote", "precommit"} {
		for _, ht := range edgeHeights {
			for _, rd := range edgeRounds {
				for _, bh := range hh {
					vt := tmconsensus.VoteTarget{Height: ht, Round: rd, BlockHash: bh}
					b, ok := signVote(r, "sign/structured", kind, vt)
					if !ok {
						continue
					}
					ci.add(item{kind: kind, height: ht, round: rd, hash: bh, bytes: b, desc: "structured"}, "sign/structured")
					cnt["sign.votes.structured"]++
				}
			}
		}
	}
	// PRNG draws (mix of edge and random components)
	nDraw := r.N(60000, 400000)
	pool := append([]string{}, hh...)
	for i := 0; i < nDraw; i++ {
		kind := "prevote"
		if rng.UintN(2) == 0 {
			kind = "precommit"
		}
		var ht uint64
		if rng.UintN(3) == 0 {
			ht = edgeHeights[rng.IntN(len(edgeHeights))]
		} else {
			ht = genU64(rng)
		}
		var rd uint32
		if rng.UintN(3) == 0 {
			rd = edgeRounds[rng.IntN(len(edgeRounds))]
		} else {
			rd = genU32(rng)
		}
		var bh string
		switch x := rng.UintN(10); {
		case x < 2:
			bh = ""
		case x < 6:
			bh = pool[rng.IntN(len(pool))]
		case x < 8:
			bh = string(genHashLike(rng))
		default:
			bh = string(rbytes(rng, 32))
			if len(pool) < 4096 {
				pool = append(pool, bh)
			}
		}
		vt := tmconsensus.VoteTarget{Height: ht, Round: rd, BlockHash: bh}
		caseID := fmt.Sprintf("sign/draw/%d", i)
		b, ok := signVote(r, caseID, kind, vt)
		if !ok {
			continue
		}
		ci.add(item{kind: kind, height: ht, round: rd, hash: bh, bytes: b, desc: "drawn"}, caseID)
		cnt["sign.votes.drawn"]++
		if i < 2 {
			r.Sample(map[string]any{"kind": kind, "height": fmt.Sprint(ht), "round": rd, "hash_hex": hex.EncodeToString([]byte(bh)), "sign_bytes": string(b)})
		}
	}

	// proposals
	nProp := r.N(1500, 15000)
	for i := 0; i < nProp; i++ {
		caseID := fmt.Sprintf("sign/proposal/%d", i)
		vars := propVariants(r, i)
		base, round, ann := vars[0].h, vars[0].round, vars[0].ann
		_, _, _ = base, round, ann
		for vi, v := range vars {
			bh, ok := block(r, caseID, v.h)
			if !ok {
				continue
			}
			v.h.Hash = bh
			b, ok := signProposal(r, caseID, v.h, v.round, v.ann)
			if !ok {
				continue
			}
			// determinism and independence from the stored Hash's presence is not demanded; identity uses the computed hash.
			ci.add(item{kind: "proposal", height: v.h.Height, round: v.round, hash: string(bh), bytes: b, desc: v.desc,
				run: r, propCase: i, propVar: vi}, caseID)
			cnt["sign.proposals"]++
		}
		if i == 0 {
			b, _ := signProposal(r, caseID, base, round, ann)
			r.Sample(map[string]any{"kind": "proposal", "header": dumpHeader(base), "round": round, "sign_bytes": string(b)})
		}
	}

	stabilityPhase(r)

	r.Eval(int(cnt["sign.votes.structured"] + cnt["sign.votes.drawn"] + cnt["sign.proposals"]))
	for k, v := range cnt {
		r.Count(k, v)
	}
	r.Count("sign.identities-judged", ci.judged)
	r.Count("sign.distinct-sign-bytes", ci.distinct)
	// non-trivial: distinct identities (digest per identity)
	for id := range ci.byID {
		r.Nontrivial("sign", id)
	}
	for _, it := range ci.byBytes {
		if it.kind == "proposal" {
			r.Nontrivial("sign", it.id())
		}
	}
}
