package c15

import (
	"bytes"
	"crypto/sha256"
	"encoding/binary"
	"encoding/hex"
	"fmt"
	"math/rand/v2"
	"sort"
	"strconv"
	"strings"
	"sync"
	"testing"

	"github.com/gordian-engine/gordian/gcrypto"
	"github.com/gordian-engine/gordian/tm/tmconsensus"
	"github.com/gordian-engine/gordian/tm/tmconsensus/tmconsensustest"
	"verif/ext/verifkit"
)

var (
	hashScheme = tmconsensustest.SimpleHashScheme{}
	sigScheme  = tmconsensustest.SimpleSignatureScheme{}
)

func rbytes(rng *rand.Rand, n int) []byte {
	b := make([]byte, n)
	for i := range b {
		b[i] = byte(rng.UintN(256))
	}
	return b
}

// hostile byte strings: separators and labels of the text serializations.
var hostileBits = []string{"\n", "=", ":", ", ", " => (", ")", ".", "Height: 1\n", "Height=1\n", "Round=1\n", "DataID: ", "UserAnnotation: ", "BlockHash=",
	"<nil>", "nil", "\x00", "0", "30", "%x", "BLOCK\n", "PREVOTE:\n", "NIL PREVOTE:\n", "PRECOMMIT:\n", "PROPOSAL:\n"}

func genHashLike(rng *rand.Rand) []byte {
	switch x := rng.UintN(100); {
	case x < 6:
		return nil
	case x < 12:
		return []byte{}
	case x < 70:
		return rbytes(rng, 32)
	case x < 85:
		return rbytes(rng, 1+int(rng.UintN(48)))
	default:
		s := hostileBits[rng.IntN(len(hostileBits))]
		if rng.UintN(2) == 0 {
			s = string(rbytes(rng, int(rng.UintN(6)))) + s + string(rbytes(rng, int(rng.UintN(6))))
		}
		return []byte(s)
	}
}

func genAnn(rng *rand.Rand) []byte {
	switch rng.UintN(4) {
	case 0:
		return nil
	case 1:
		return []byte{}
	case 2:
		return []byte(hostileBits[rng.IntN(len(hostileBits))])
	default:
		return rbytes(rng, 1+int(rng.UintN(40)))
	}
}

func genU64(rng *rand.Rand) uint64 {
	switch rng.UintN(6) {
	case 0:
		return uint64(rng.UintN(3))
	case 1:
		return []uint64{9, 10, 11, 99, 100, 101, 110, 111}[rng.IntN(8)]
	case 2:
		return ^uint64(0) - uint64(rng.UintN(2))
	default:
		return rng.Uint64() >> rng.UintN(64)
	}
}

func genU32(rng *rand.Rand) uint32 {
	switch rng.UintN(5) {
	case 0:
		return uint32(rng.UintN(3))
	case 1:
		return []uint32{9, 10, 11, 99, 100, 101, 110, 111}[rng.IntN(8)]
	case 2:
		return ^uint32(0) - uint32(rng.UintN(2))
	default:
		return rng.Uint32() >> rng.UintN(32)
	}
}

func genVals(rng *rand.Rand) []tmconsensus.Validator {
	n := 1 + rng.IntN(4)
	if rng.UintN(5) == 0 {
		n = 1 + rng.IntN(40)
	}
	vals := make([]tmconsensus.Validator, n)
	for i := range vals {
		vals[i] = tmconsensus.Validator{PubKey: gcrypto.Ed25519PubKey(rbytes(rng, 32)), Power: 1 + rng.Uint64()>>rng.UintN(64)}
	}
	return vals
}

// mkSet builds a consistent set: lists and hashes together.
func mkSet(vals []tmconsensus.Validator) tmconsensus.ValidatorSet {
	vs, err := tmconsensus.NewValidatorSet(append([]tmconsensus.Validator{}, vals...), hashScheme)
	if err != nil {
		panic(err)
	}
	return vs
}

func genSig(rng *rand.Rand) gcrypto.SparseSignature {
	kid := []byte{byte(rng.UintN(256)), byte(rng.UintN(256))}
	if rng.UintN(6) == 0 {
		kid = rbytes(rng, int(rng.UintN(6)))
	}
	sig := rbytes(rng, 64)
	if rng.UintN(6) == 0 {
		sig = rbytes(rng, int(rng.UintN(40)))
	}
	return gcrypto.SparseSignature{KeyID: kid, Sig: sig}
}

func genSigs(rng *rand.Rand) []gcrypto.SparseSignature {
	n := rng.IntN(6)
	if n == 0 && rng.UintN(2) == 0 {
		return nil
	}
	out := make([]gcrypto.SparseSignature, n)
	for i := range out {
		out[i] = genSig(rng)
	}
	return out
}

func genBlockKey(rng *rand.Rand) string {
	if rng.UintN(5) == 0 {
		return string(genHashLike(rng))
	}
	return string(rbytes(rng, 32))
}

func genCommitProof(rng *rand.Rand) tmconsensus.CommitProof {
	p := tmconsensus.CommitProof{Round: genU32(rng), PubKeyHash: string(genHashLike(rng))}
	switch rng.UintN(10) {
	case 0:
		return p
	case 1:
		p.Proofs = map[string][]gcrypto.SparseSignature{}
		return p
	}
	n := 1 + rng.IntN(5)
	p.Proofs = make(map[string][]gcrypto.SparseSignature, n)
	if rng.UintN(3) == 0 {
		p.Proofs[""] = genSigs(rng)
	}
	for len(p.Proofs) < n {
		p.Proofs[genBlockKey(rng)] = genSigs(rng)
	}
	return p
}

func genHeader(rng *rand.Rand) tmconsensus.Header {
	h := tmconsensus.Header{
		PrevBlockHash:    genHashLike(rng),
		Height:           genU64(rng),
		PrevCommitProof:  genCommitProof(rng),
		ValidatorSet:     mkSet(genVals(rng)),
		DataID:           genHashLike(rng),
		PrevAppStateHash: genHashLike(rng),
		Annotations:      tmconsensus.Annotations{User: genAnn(rng), Driver: genAnn(rng)},
	}
	if rng.UintN(2) == 0 {
		h.NextValidatorSet = h.ValidatorSet
	} else {
		h.NextValidatorSet = mkSet(genVals(rng))
	}
	return h
}

func cloneHeader(h tmconsensus.Header) tmconsensus.Header {
	c := h
	c.Hash = bytes.Clone(h.Hash)
	c.PrevBlockHash = bytes.Clone(h.PrevBlockHash)
	c.DataID = bytes.Clone(h.DataID)
	c.PrevAppStateHash = bytes.Clone(h.PrevAppStateHash)
	c.Annotations.User = bytes.Clone(h.Annotations.User)
	c.Annotations.Driver = bytes.Clone(h.Annotations.Driver)
	if h.PrevCommitProof.Proofs != nil {
		c.PrevCommitProof = h.PrevCommitProof.Clone()
		for k, v := range h.PrevCommitProof.Proofs { // keep nil-ness of lists
			if v == nil {
				c.PrevCommitProof.Proofs[k] = nil
			}
		}
	}
	// Validator sets are immutable values here: mutations replace them wholesale.
	return c
}

// ---------------------------------------------------------------------------
// Independent canonical form, per semantic field (length-prefixed, so it is
// injective; nil == empty except for annotations; signature lists are multisets).

var fieldNames = []string{"prevblockhash", "height", "commit.round", "commit.pubkeyhash", "commit.blocks", "commit.sigs",
	"valset", "nextvalset", "dataid", "prevappstatehash", "ann.user", "ann.driver"}

const nFields = 12

func lp(w *bytes.Buffer, b []byte) {
	var l [4]byte
	binary.BigEndian.PutUint32(l[:], uint32(len(b)))
	w.Write(l[:])
	w.Write(b)
}

func canonSet(vs tmconsensus.ValidatorSet) (full, lists []byte) {
	var w bytes.Buffer
	for _, v := range vs.Validators {
		lp(&w, []byte(v.PubKey.TypeName()))
		lp(&w, v.PubKey.PubKeyBytes())
		fmt.Fprintf(&w, "%d;", v.Power)
	}
	lists = bytes.Clone(w.Bytes())
	lp(&w, vs.PubKeyHash)
	lp(&w, vs.VotePowerHash)
	return w.Bytes(), lists
}

func canonAnn(a []byte) []byte {
	if a == nil {
		return []byte("nil")
	}
	return append([]byte("set:"), a...)
}

func canonFields(h tmconsensus.Header) [nFields][]byte {
	var f [nFields][]byte
	f[0] = bytes.Clone(h.PrevBlockHash)
	f[1] = []byte(fmt.Sprint(h.Height))
	f[2] = []byte(fmt.Sprint(h.PrevCommitProof.Round))
	f[3] = []byte(h.PrevCommitProof.PubKeyHash)
	keys := make([]string, 0, len(h.PrevCommitProof.Proofs))
	for k := range h.PrevCommitProof.Proofs {
		keys = append(keys, k)
	}
	sort.Strings(keys)
	var wb, ws bytes.Buffer
	for _, k := range keys {
		lp(&wb, []byte(k))
		sigs := h.PrevCommitProof.Proofs[k]
		ss := make([]string, len(sigs))
		for i, s := range sigs {
			var e bytes.Buffer
			lp(&e, s.KeyID)
			lp(&e, s.Sig)
			ss[i] = e.String()
		}
		sort.Strings(ss)
		fmt.Fprintf(&ws, "[%d]", len(ss))
		for _, s := range ss {
			ws.WriteString(s)
		}
	}
	f[4] = wb.Bytes()
	f[5] = ws.Bytes()
	f[6], _ = canonSet(h.ValidatorSet)
	f[7], _ = canonSet(h.NextValidatorSet)
	f[8] = bytes.Clone(h.DataID)
	f[9] = bytes.Clone(h.PrevAppStateHash)
	f[10] = canonAnn(h.Annotations.User)
	f[11] = canonAnn(h.Annotations.Driver)
	return f
}

func canonDigest(f [nFields][]byte) (d [16]byte, per [nFields]uint32) {
	hs := sha256.New()
	for i, x := range f {
		var w bytes.Buffer
		lp(&w, x)
		hs.Write(w.Bytes())
		s := sha256.Sum256(x)
		per[i] = binary.BigEndian.Uint32(s[:4])
	}
	copy(d[:], hs.Sum(nil))
	return
}

func diffFields(a, b [nFields][]byte) []string {
	var out []string
	for i := range a {
		if !bytes.Equal(a[i], b[i]) {
			out = append(out, fieldNames[i])
		}
	}
	return out
}

// ---------------------------------------------------------------------------
// Mutations: each returns a changed deep copy (or ok=false when not applicable).

type mutation struct {
	name string
	fn   func(rng *rand.Rand, h tmconsensus.Header) (tmconsensus.Header, bool)
}

func changeBytes(rng *rand.Rand, b []byte) []byte {
	switch x := rng.UintN(5); {
	case x == 0 && len(b) > 0: // flip one bit
		c := bytes.Clone(b)
		c[rng.IntN(len(c))] ^= 1 << rng.UintN(8)
		return c
	case x == 1: // append (prefix relation)
		return append(bytes.Clone(b), byte(rng.UintN(256)))
	case x == 2 && len(b) > 0: // truncate (prefix relation)
		return bytes.Clone(b[:len(b)-1])
	case x == 3: // append a separator of the text form
		return append(bytes.Clone(b), hostileBits[rng.IntN(len(hostileBits))]...)
	default:
		for {
			c := rbytes(rng, 32)
			if !bytes.Equal(c, b) {
				return c
			}
		}
	}
}

func sortedKeys(m map[string][]gcrypto.SparseSignature) []string {
	ks := make([]string, 0, len(m))
	for k := range m {
		ks = append(ks, k)
	}
	sort.Strings(ks)
	return ks
}

func ensureMap(h *tmconsensus.Header) {
	if h.PrevCommitProof.Proofs == nil {
		h.PrevCommitProof.Proofs = map[string][]gcrypto.SparseSignature{}
	}
}

// pickEntry returns a block key of the commit proof whose entry has at least minSigs signatures.
func pickEntry(rng *rand.Rand, h tmconsensus.Header, minSigs int) (string, bool) {
	var c []string
	for _, k := range sortedKeys(h.PrevCommitProof.Proofs) {
		if len(h.PrevCommitProof.Proofs[k]) >= minSigs {
			c = append(c, k)
		}
	}
	if len(c) == 0 {
		return "", false
	}
	return c[rng.IntN(len(c))], true
}

func mutateVals(rng *rand.Rand, vs tmconsensus.ValidatorSet, how int) (tmconsensus.ValidatorSet, bool) {
	vals := append([]tmconsensus.Validator{}, vs.Validators...)
	switch how {
	case 0: // power
		i := rng.IntN(len(vals))
		vals[i].Power ^= 1 << rng.UintN(63)
		if vals[i].Power == 0 {
			vals[i].Power = 7
		}
	case 1: // key
		i := rng.IntN(len(vals))
		vals[i].PubKey = gcrypto.Ed25519PubKey(rbytes(rng, 32))
	case 2: // add
		vals = append(vals, tmconsensus.Validator{PubKey: gcrypto.Ed25519PubKey(rbytes(rng, 32)), Power: 1 + uint64(rng.UintN(1000))})
	case 3: // remove
		if len(vals) < 2 {
			return vs, false
		}
		i := rng.IntN(len(vals))
		vals = append(vals[:i:i], vals[i+1:]...)
	case 4: // swap two
		if len(vals) < 2 {
			return vs, false
		}
		i := rng.IntN(len(vals) - 1)
		vals[i], vals[i+1] = vals[i+1], vals[i]
	case 5: // move one unit of power between neighbours: same total, "1,23" vs "12,3" style
		if len(vals) < 2 || vals[0].Power < 2 || vals[1].Power == ^uint64(0) {
			return vs, false
		}
		vals[0].Power--
		vals[1].Power++
	case 6: // the decimal digits of two neighbouring powers split at another place: "12","3" vs "1","23"
		if len(vals) < 2 {
			return vs, false
		}
		i := rng.IntN(len(vals) - 1)
		a, b := strconv.FormatUint(vals[i].Power, 10), strconv.FormatUint(vals[i+1].Power, 10)
		digits := a + b
		var cuts []int
		for c := 1; c < len(digits); c++ {
			if c == len(a) || digits[c] == '0' {
				continue // the original split, or a leading zero in the second number
			}
			cuts = append(cuts, c)
		}
		rng.Shuffle(len(cuts), func(x, y int) { cuts[x], cuts[y] = cuts[y], cuts[x] })
		done := false
		for _, c := range cuts {
			p0, e0 := strconv.ParseUint(digits[:c], 10, 64)
			p1, e1 := strconv.ParseUint(digits[c:], 10, 64)
			if e0 == nil && e1 == nil && p0 > 0 && p1 > 0 {
				vals[i].Power, vals[i+1].Power = p0, p1
				done = true
				break
			}
		}
		if !done {
			return vs, false
		}
	}
	return mkSet(vals), true
}

var mutations = []mutation{
	{"prevblockhash", func(rng *rand.Rand, h tmconsensus.Header) (tmconsensus.Header, bool) {
		h.PrevBlockHash = changeBytes(rng, h.PrevBlockHash)
		return h, true
	}},
	{"height", func(rng *rand.Rand, h tmconsensus.Header) (tmconsensus.Header, bool) {
		switch rng.UintN(4) {
		case 0:
			h.Height++
		case 1:
			h.Height--
		case 2:
			h.Height = h.Height*10 + uint64(rng.UintN(10))
		default:
			h.Height = rng.Uint64()
		}
		return h, true
	}},
	{"commit.round", func(rng *rand.Rand, h tmconsensus.Header) (tmconsensus.Header, bool) {
		switch rng.UintN(3) {
		case 0:
			h.PrevCommitProof.Round++
		case 1:
			h.PrevCommitProof.Round = h.PrevCommitProof.Round*10 + uint32(rng.UintN(10))
		default:
			h.PrevCommitProof.Round = rng.Uint32()
		}
		return h, true
	}},
	{"commit.pubkeyhash", func(rng *rand.Rand, h tmconsensus.Header) (tmconsensus.Header, bool) {
		h.PrevCommitProof.PubKeyHash = string(changeBytes(rng, []byte(h.PrevCommitProof.PubKeyHash)))
		return h, true
	}},
	{"commit.block-added", func(rng *rand.Rand, h tmconsensus.Header) (tmconsensus.Header, bool) {
		ensureMap(&h)
		k := genBlockKey(rng)
		if _, dup := h.PrevCommitProof.Proofs[k]; dup {
			return h, false
		}
		h.PrevCommitProof.Proofs[k] = genSigs(rng)
		return h, true
	}},
	{"commit.block-added-without-signatures", func(rng *rand.Rand, h tmconsensus.Header) (tmconsensus.Header, bool) {
		ensureMap(&h)
		k := genBlockKey(rng)
		if _, dup := h.PrevCommitProof.Proofs[k]; dup {
			return h, false
		}
		h.PrevCommitProof.Proofs[k] = nil
		return h, true
	}},
	{"commit.nil-block-added", func(rng *rand.Rand, h tmconsensus.Header) (tmconsensus.Header, bool) {
		ensureMap(&h)
		if _, dup := h.PrevCommitProof.Proofs[""]; dup {
			return h, false
		}
		h.PrevCommitProof.Proofs[""] = genSigs(rng)
		return h, true
	}},
	{"commit.block-removed", func(rng *rand.Rand, h tmconsensus.Header) (tmconsensus.Header, bool) {
		k, ok := pickEntry(rng, h, 0)
		if !ok {
			return h, false
		}
		delete(h.PrevCommitProof.Proofs, k)
		return h, true
	}},
	{"commit.block-rekeyed", func(rng *rand.Rand, h tmconsensus.Header) (tmconsensus.Header, bool) {
		k, ok := pickEntry(rng, h, 0)
		if !ok {
			return h, false
		}
		nk := string(changeBytes(rng, []byte(k)))
		if _, dup := h.PrevCommitProof.Proofs[nk]; dup {
			return h, false
		}
		h.PrevCommitProof.Proofs[nk] = h.PrevCommitProof.Proofs[k]
		delete(h.PrevCommitProof.Proofs, k)
		return h, true
	}},
	{"commit.sig-keyid", func(rng *rand.Rand, h tmconsensus.Header) (tmconsensus.Header, bool) {
		k, ok := pickEntry(rng, h, 1)
		if !ok {
			return h, false
		}
		s := h.PrevCommitProof.Proofs[k]
		i := rng.IntN(len(s))
		s[i].KeyID = changeBytes(rng, s[i].KeyID)
		return h, true
	}},
	{"commit.sig-keyid-signature-boundary-moved", func(rng *rand.Rand, h tmconsensus.Header) (tmconsensus.Header, bool) {
		// the bytes of key id and signature stay the same in order; only the place where the
		// key id ends moves ("0001"+"aabb" -> "00"+"01aabb" or "0001aa"+"bb")
		k, ok := pickEntry(rng, h, 1)
		if !ok {
			return h, false
		}
		s := h.PrevCommitProof.Proofs[k]
		i := rng.IntN(len(s))
		all := append(append([]byte{}, s[i].KeyID...), s[i].Sig...)
		if len(all) < 2 {
			return h, false
		}
		cut := rng.IntN(len(all) + 1)
		for tries := 0; cut == len(s[i].KeyID) && tries < 8; tries++ {
			cut = rng.IntN(len(all) + 1)
		}
		if cut == len(s[i].KeyID) {
			return h, false
		}
		s[i].KeyID, s[i].Sig = append([]byte{}, all[:cut]...), append([]byte{}, all[cut:]...)
		return h, true
	}},
	{"commit.sig-bytes", func(rng *rand.Rand, h tmconsensus.Header) (tmconsensus.Header, bool) {
		k, ok := pickEntry(rng, h, 1)
		if !ok {
			return h, false
		}
		s := h.PrevCommitProof.Proofs[k]
		i := rng.IntN(len(s))
		s[i].Sig = changeBytes(rng, s[i].Sig)
		return h, true
	}},
	{"commit.sig-added", func(rng *rand.Rand, h tmconsensus.Header) (tmconsensus.Header, bool) {
		k, ok := pickEntry(rng, h, 0)
		if !ok {
			return h, false
		}
		h.PrevCommitProof.Proofs[k] = append(h.PrevCommitProof.Proofs[k], genSig(rng))
		return h, true
	}},
	{"commit.sig-removed", func(rng *rand.Rand, h tmconsensus.Header) (tmconsensus.Header, bool) {
		k, ok := pickEntry(rng, h, 1)
		if !ok {
			return h, false
		}
		s := h.PrevCommitProof.Proofs[k]
		i := rng.IntN(len(s))
		h.PrevCommitProof.Proofs[k] = append(s[:i:i], s[i+1:]...)
		return h, true
	}},
	{"commit.sig-moved-to-other-block", func(rng *rand.Rand, h tmconsensus.Header) (tmconsensus.Header, bool) {
		k, ok := pickEntry(rng, h, 1)
		if !ok || len(h.PrevCommitProof.Proofs) < 2 {
			return h, false
		}
		var others []string
		for _, o := range sortedKeys(h.PrevCommitProof.Proofs) {
			if o != k {
				others = append(others, o)
			}
		}
		o := others[rng.IntN(len(others))]
		s := h.PrevCommitProof.Proofs[k]
		i := rng.IntN(len(s))
		h.PrevCommitProof.Proofs[o] = append(h.PrevCommitProof.Proofs[o], s[i])
		h.PrevCommitProof.Proofs[k] = append(s[:i:i], s[i+1:]...)
		return h, true
	}},
	{"dataid", func(rng *rand.Rand, h tmconsensus.Header) (tmconsensus.Header, bool) {
		h.DataID = changeBytes(rng, h.DataID)
		return h, true
	}},
	{"prevappstatehash", func(rng *rand.Rand, h tmconsensus.Header) (tmconsensus.Header, bool) {
		h.PrevAppStateHash = changeBytes(rng, h.PrevAppStateHash)
		return h, true
	}},
	{"ann.user-content", func(rng *rand.Rand, h tmconsensus.Header) (tmconsensus.Header, bool) {
		h.Annotations.User = changeBytes(rng, h.Annotations.User)
		return h, true
	}},
	{"ann.driver-content", func(rng *rand.Rand, h tmconsensus.Header) (tmconsensus.Header, bool) {
		h.Annotations.Driver = changeBytes(rng, h.Annotations.Driver)
		return h, true
	}},
	{"ann.user-nil-vs-empty", func(rng *rand.Rand, h tmconsensus.Header) (tmconsensus.Header, bool) {
		switch {
		case h.Annotations.User == nil:
			h.Annotations.User = []byte{}
		case len(h.Annotations.User) == 0:
			h.Annotations.User = nil
		default:
			if rng.UintN(2) == 0 {
				h.Annotations.User = nil
			} else {
				h.Annotations.User = []byte{}
			}
		}
		return h, true
	}},
	{"ann.driver-nil-vs-empty", func(rng *rand.Rand, h tmconsensus.Header) (tmconsensus.Header, bool) {
		switch {
		case h.Annotations.Driver == nil:
			h.Annotations.Driver = []byte{}
		case len(h.Annotations.Driver) == 0:
			h.Annotations.Driver = nil
		default:
			if rng.UintN(2) == 0 {
				h.Annotations.Driver = nil
			} else {
				h.Annotations.Driver = []byte{}
			}
		}
		return h, true
	}},
	// Two-field changes that keep the concatenation of neighbouring values.
	{"shift:ann.user<->ann.driver", func(rng *rand.Rand, h tmconsensus.Header) (tmconsensus.Header, bool) {
		h.Annotations.User, h.Annotations.Driver = h.Annotations.Driver, h.Annotations.User
		return h, true
	}},
	{"shift:dataid->prevappstatehash", func(rng *rand.Rand, h tmconsensus.Header) (tmconsensus.Header, bool) {
		if len(h.DataID) == 0 {
			return h, false
		}
		n := len(h.DataID) - 1
		h.PrevAppStateHash = append([]byte{h.DataID[n]}, h.PrevAppStateHash...)
		h.DataID = h.DataID[:n]
		return h, true
	}},
	{"shift:valset<->nextvalset", func(rng *rand.Rand, h tmconsensus.Header) (tmconsensus.Header, bool) {
		h.ValidatorSet, h.NextValidatorSet = h.NextValidatorSet, h.ValidatorSet
		return h, true
	}},
	{"shift:height<->commit.round", func(rng *rand.Rand, h tmconsensus.Header) (tmconsensus.Header, bool) {
		if h.Height > uint64(^uint32(0)) {
			return h, false
		}
		h.Height, h.PrevCommitProof.Round = uint64(h.PrevCommitProof.Round), uint32(h.Height)
		return h, true
	}},
	{"shift:prevblockhash<->dataid", func(rng *rand.Rand, h tmconsensus.Header) (tmconsensus.Header, bool) {
		h.PrevBlockHash, h.DataID = h.DataID, h.PrevBlockHash
		return h, true
	}},
	{"shift:commit.pubkeyhash->block-key", func(rng *rand.Rand, h tmconsensus.Header) (tmconsensus.Header, bool) {
		// the nil block entry <-> an entry literally keyed "<nil>" (the text form prints "<nil>" for the nil block)
		s, ok := h.PrevCommitProof.Proofs[""]
		if !ok {
			return h, false
		}
		if _, dup := h.PrevCommitProof.Proofs["<nil>"]; dup {
			return h, false
		}
		delete(h.PrevCommitProof.Proofs, "")
		h.PrevCommitProof.Proofs["<nil>"] = s
		return h, true
	}},
}

func valsetMutations() []mutation {
	var out []mutation
	names := []string{"power", "key", "validator-added", "validator-removed", "validators-swapped", "power-moved-to-neighbour", "power-digits-split-elsewhere"}
	for how, n := range names {
		how := how
		out = append(out, mutation{"valset." + n, func(rng *rand.Rand, h tmconsensus.Header) (tmconsensus.Header, bool) {
			vs, ok := mutateVals(rng, h.ValidatorSet, how)
			h.ValidatorSet = vs
			return h, ok
		}})
		out = append(out, mutation{"nextvalset." + n, func(rng *rand.Rand, h tmconsensus.Header) (tmconsensus.Header, bool) {
			vs, ok := mutateVals(rng, h.NextValidatorSet, how)
			h.NextValidatorSet = vs
			return h, ok
		}})
	}
	return out
}

var allMutations = append(append([]mutation{}, mutations...), valsetMutations()...)

// caseHeaders regenerates case i: the base header and its mutants
// (index 0 = base). A pure function of (seed, i).
type variant struct {
	name string
	h    tmconsensus.Header
}

func caseHeaders(r *verifkit.Run, i int) []variant {
	rng := r.CaseRNG(i)
	base := genHeader(rng)
	out := []variant{{"base", base}}
	for _, m := range allMutations {
		h2, ok := m.fn(rng, cloneHeader(base))
		if !ok {
			continue
		}
		out = append(out, variant{m.name, h2})
	}
	// a few multi-field changes
	for k := 0; k < 3; k++ {
		h2 := cloneHeader(base)
		var names []string
		for j := 0; j < 2+rng.IntN(2); j++ {
			m := allMutations[rng.IntN(len(allMutations))]
			if h3, ok := m.fn(rng, h2); ok {
				h2 = h3
				names = append(names, m.name)
			}
		}
		out = append(out, variant{"multi(" + strings.Join(names, ",") + ")", h2})
	}
	return out
}

func dumpSet(v tmconsensus.ValidatorSet) any {
	l := make([]string, len(v.Validators))
	for i, x := range v.Validators {
		l[i] = fmt.Sprintf("%x/%d", x.PubKey.PubKeyBytes(), x.Power)
	}
	return map[string]any{"validators(key/power)": l, "PubKeyHash": hex.EncodeToString(v.PubKeyHash), "VotePowerHash": hex.EncodeToString(v.VotePowerHash)}
}

func hexOrNil(b []byte) any {
	if b == nil {
		return nil
	}
	return hex.EncodeToString(b)
}

func dumpHeader(h tmconsensus.Header) any {
	var proofs any
	if h.PrevCommitProof.Proofs != nil {
		m := map[string]any{}
		for k, v := range h.PrevCommitProof.Proofs {
			l := make([]string, len(v))
			for i, s := range v {
				l[i] = fmt.Sprintf("%x:%x", s.KeyID, s.Sig)
			}
			m[hex.EncodeToString([]byte(k))] = l
		}
		proofs = m
	}
	return map[string]any{
		"Hash(stored)": hexOrNil(h.Hash), "PrevBlockHash": hexOrNil(h.PrevBlockHash), "Height": fmt.Sprint(h.Height),
		"PrevCommitProof": map[string]any{"Round": h.PrevCommitProof.Round, "PubKeyHash": hex.EncodeToString([]byte(h.PrevCommitProof.PubKeyHash)), "Proofs(blockhash -> keyid:sig)": proofs},
		"ValidatorSet":    dumpSet(h.ValidatorSet), "NextValidatorSet": dumpSet(h.NextValidatorSet),
		"DataID": hexOrNil(h.DataID), "PrevAppStateHash": hexOrNil(h.PrevAppStateHash),
		"Annotations.User": hexOrNil(h.Annotations.User), "Annotations.Driver": hexOrNil(h.Annotations.Driver),
	}
}

// block calls the hash scheme under Guard.
func block(r *verifkit.Run, caseID string, h tmconsensus.Header) ([]byte, bool) {
	var out []byte
	var err error
	if p, key, msg, stack := verifkit.Guard(func() { out, err = hashScheme.Block(h) }); p {
		r.Violate(key, "SimpleHashScheme.Block panicked on a well-formed header: "+msg, caseID, map[string]any{"header": dumpHeader(h), "stack": stack})
		return nil, false
	}
	if err != nil {
		r.Violate("C15:hash-error", "SimpleHashScheme.Block returned an error for a well-formed header: "+err.Error(), caseID, map[string]any{"header": dumpHeader(h)})
		return nil, false
	}
	return out, true
}

type pairRec struct {
	hash  [32]byte
	canon [16]byte
	per   [nFields]uint32
	cse   uint32
	vi    uint16
}

func TestVerif_C15_hash(t *testing.T) {
	r := verifkit.Start("C15")
	if r == nil {
		t.Skip("not started by the /verif driver")
	}
	defer r.Finish()
	r.SetRule("Hash: per case a PRNG-generated well-formed header (1-40 validators with hashes computed from the lists, commit proof with nil/empty/1-5 entries incl. the nil block, byte fields nil/empty/32 bytes/separator-laden) and about 40 variants each differing in one semantic field " +
		"(PrevBlockHash, Height, commit Round/PubKeyHash, block entry added/removed/re-keyed, signature key id / bytes / added / removed / moved, ValidatorSet and NextValidatorSet changed consistently, DataID, PrevAppStateHash, each annotation incl. nil vs empty) or in two neighbouring fields. " +
		"Oracle: (1) Block is the same for a different stored Hash and for 5 map insertion orders and leaves its input unchanged; (2) whenever an independent length-prefixed canonical form says two headers differ, the hashes differ — judged for base/variant pairs and, by sorting, for all pairs of the whole family. " +
		"Non-trivial = distinct base headers with at least one judged pair.")
	n := r.N(2000, 40000)

	var mu sync.Mutex
	recs := make([]pairRec, 0, n*44)

	insens := func(caseID, how string, a, b tmconsensus.Header, names [2]string, fields []string, ha []byte) {
		key := "C15:hash-insensitive:" + strings.Join(fields, "+")
		r.Violate(key, fmt.Sprintf("two headers that differ in %s (%s: %s vs %s) have the same block hash %x", strings.Join(fields, ", "), how, names[0], names[1], ha),
			caseID, map[string]any{"differing_fields": fields, "variant_a": names[0], "variant_b": names[1], "header_a": dumpHeader(a), "header_b": dumpHeader(b), "hash": hex.EncodeToString(ha)})
	}

	r.Parallel(n, func(i int) {
		caseID := fmt.Sprintf("hash/%d", i)
		rng := r.NamedRNG("determinism", i)
		vs := caseHeaders(r, i)
		base := vs[0].h
		bf := canonFields(base)
		bh, ok := block(r, caseID, base)
		if !ok {
			return
		}
		local := make([]pairRec, 0, len(vs))
		cnt := map[string]int64{}
		judged := 0

		// (1) determinism
		for k := 0; k < 5; k++ {
			h2 := cloneHeader(base)
			how := ""
			switch k {
			case 0:
				how = "same value again"
			case 1:
				h2.Hash = rbytes(rng, 32)
				how = "stored Hash = random 32 bytes"
			case 2:
				h2.Hash = bh
				how = "stored Hash = its own hash"
			case 3:
				h2.Hash = []byte{}
				how = "stored Hash = empty"
			case 4:
				h2.Hash = rbytes(rng, 1+int(rng.UintN(70)))
				how = "stored Hash = random length"
			}
			hcopy := bytes.Clone(h2.Hash)
			g, ok := block(r, caseID, h2)
			if !ok {
				continue
			}
			if !bytes.Equal(h2.Hash, hcopy) || diffFields(canonFields(h2), bf) != nil {
				r.Violate("C15:hash-modifies-input", "SimpleHashScheme.Block modified the header it was given", caseID, map[string]any{"header": dumpHeader(base)})
			}
			if !bytes.Equal(g, bh) {
				key := "C15:hash-depends-on-stored-hash-field"
				if k == 0 {
					key = "C15:hash-nondeterministic"
				}
				r.Violate(key, fmt.Sprintf("Block differs for the same header (%s): %x vs %x", how, bh, g), caseID, map[string]any{"header": dumpHeader(base), "variation": how, "stored_hash": hex.EncodeToString(h2.Hash)})
			}
			cnt["hash.determinism.stored-hash-variations"]++
		}
		if keys := sortedKeys(base.PrevCommitProof.Proofs); len(keys) >= 2 {
			for k := 0; k < 5; k++ {
				perm := rng.Perm(len(keys))
				h2 := cloneHeader(base)
				m := make(map[string][]gcrypto.SparseSignature)
				for _, j := range perm {
					m[keys[j]] = h2.PrevCommitProof.Proofs[keys[j]]
				}
				h2.PrevCommitProof.Proofs = m
				g, ok := block(r, caseID, h2)
				if ok && !bytes.Equal(g, bh) {
					r.Violate("C15:hash-depends-on-map-order", fmt.Sprintf("Block differs when the commit-proof map is built in another insertion order: %x vs %x", bh, g), caseID,
						map[string]any{"header": dumpHeader(base), "insertion_order": perm})
				}
				cnt["hash.determinism.map-insertion-orders"]++
			}
			judged++
		}

		// (2) sensitivity, base vs each variant
		for vi, v := range vs {
			f := canonFields(v.h)
			var g []byte
			if vi == 0 {
				g = bh
			} else {
				var ok bool
				if g, ok = block(r, caseID, v.h); !ok {
					continue
				}
			}
			var rec pairRec
			copy(rec.hash[:], g)
			rec.canon, rec.per = canonDigest(f)
			rec.cse, rec.vi = uint32(i), uint16(vi)
			local = append(local, rec)
			if vi == 0 {
				continue
			}
			fields := diffFields(bf, f)
			if len(fields) == 0 {
				cnt["hash.variant-equals-base(unjudged)"]++
				continue
			}
			// soundness guard: a validator-set change must show in the set hashes, else the pair is about PubKeys/VotePowers, not Block.
			skip := false
			for _, pr := range [][2]tmconsensus.ValidatorSet{{base.ValidatorSet, v.h.ValidatorSet}, {base.NextValidatorSet, v.h.NextValidatorSet}} {
				_, la := canonSet(pr[0])
				_, lb := canonSet(pr[1])
				if !bytes.Equal(la, lb) && bytes.Equal(pr[0].PubKeyHash, pr[1].PubKeyHash) && bytes.Equal(pr[0].VotePowerHash, pr[1].VotePowerHash) {
					r.Violate("C15:validator-set-hash-collision", "two different validator lists have the same PubKeyHash and VotePowerHash", caseID,
						map[string]any{"set_a": dumpSet(pr[0]), "set_b": dumpSet(pr[1])})
					skip = true
				}
			}
			if skip {
				continue
			}
			judged++
			cls := v.name
			if strings.HasPrefix(cls, "multi(") {
				cls = "multi"
			}
			cnt["hash.pairs."+cls]++
			if bytes.Equal(g, bh) {
				insens(caseID, "directed pair", base, v.h, [2]string{"base", v.name}, fields, g)
				cnt["hash.insensitive."+cls]++
			}
		}
		r.Eval(len(vs))
		if judged > 0 {
			d, _ := canonDigest(bf)
			r.Nontrivial("hash", d[:])
		}
		for k, v := range cnt {
			r.Count(k, v)
		}
		if i < 2 && len(vs) > 10 {
			r.Sample(map[string]any{"case": caseID, "base": dumpHeader(base), "base_hash": hex.EncodeToString(bh), "variants": len(vs) - 1})
		}
		mu.Lock()
		recs = append(recs, local...)
		mu.Unlock()
	})

	// (2') all pairs of the family, by sorting on the hash.
	sort.Slice(recs, func(a, b int) bool {
		if c := bytes.Compare(recs[a].hash[:], recs[b].hash[:]); c != 0 {
			return c < 0
		}
		if recs[a].cse != recs[b].cse {
			return recs[a].cse < recs[b].cse
		}
		return recs[a].vi < recs[b].vi
	})
	r.Count("hash.family-size(all pairs compared by sort)", int64(len(recs)))
	groups, reported := 0, 0
	for lo := 0; lo < len(recs); {
		hi := lo + 1
		for hi < len(recs) && recs[hi].hash == recs[lo].hash {
			hi++
		}
		// within a group of equal hashes every canonical form must be equal
		for k := lo + 1; k < hi; k++ {
			if recs[k].canon == recs[lo].canon {
				continue
			}
			groups++
			a, b := recs[lo], recs[k]
			if a.cse == b.cse && (a.vi == 0 || b.vi == 0) {
				continue // already judged as a directed pair
			}
			if reported >= 200 {
				continue
			}
			reported++
			va, vb := caseHeaders(r, int(a.cse))[a.vi], caseHeaders(r, int(b.cse))[b.vi]
			fields := diffFields(canonFields(va.h), canonFields(vb.h))
			if len(fields) == 0 {
				continue
			}
			g, _ := hashScheme.Block(va.h)
			insens(fmt.Sprintf("hash/%d.%d~%d.%d", a.cse, a.vi, b.cse, b.vi), "all-pairs", va.h, vb.h,
				[2]string{fmt.Sprintf("case %d %s", a.cse, va.name), fmt.Sprintf("case %d %s", b.cse, vb.name)}, fields, g)
		}
		lo = hi
	}
	r.Count("hash.all-pairs.colliding-pairs", int64(groups))
}
