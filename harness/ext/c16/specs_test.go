package c16

// One spec per shipped in-memory store: how to build it, how to draw an
// operation, how to invoke it through the tmstore interface, how to partition
// the history, and a small sequential reference model.
//
// The models state only what the tmstore interface documentation, errors.go
// and the tmstoretest compliance suites establish. Where those are silent the
// step function accepts every outcome the store may choose, derives the next
// state from the observed outcome, and returns a note starting with
// "unjudged:" (counted in the sequential mode).

import (
	"context"
	"encoding/hex"
	"fmt"
	"math/rand/v2"
	"sort"
	"strings"

	"github.com/gordian-engine/gordian/gcrypto"
	"github.com/gordian-engine/gordian/tm/tmconsensus"
	"github.com/gordian-engine/gordian/tm/tmstore"
	"github.com/gordian-engine/gordian/tm/tmstore/tmmemstore"
)

// pop is one operation as the checker sees it: partition key, input, output.
type pop struct {
	Part string
	In   any
	Out  any
}

type spec struct {
	name    string
	newSUT  func() any
	newPool func(rng *rand.Rand) any
	// gen draws one operation; tag is unique per written value in the history.
	gen func(rng *rand.Rand, pool any, tag string) any
	// prep binds the real arguments; invoke performs exactly the interface
	// call (it is what the call/return stamps bracket), finish renders the
	// results afterwards.
	prep   func(sut any, in any) (invoke func(), finish func() any)
	opName func(in any) string
	outErr func(out any) string
	expand func(in, out any) []pop
	init   func() any
	step   func(st, in, out any) (ok bool, next any, note string)
}

func one(part string, in, out any) []pop { return []pop{{Part: part, In: in, Out: out}} }

func mismatch(format string, a ...any) string { return fmt.Sprintf(format, a...) }

var bg = context.Background()

// ---------------------------------------------------------------------------
// ActionStore: per (height, round) {proposed header?, prevote?, precommit?, key}

type asIn struct {
	Op     string `json:"op"`
	H      uint64 `json:"h"`
	R      uint32 `json:"r"`
	PH     string `json:"ph,omitempty"`
	Key    string `json:"key,omitempty"`
	Target string `json:"target,omitempty"`
	Sig    string `json:"sig,omitempty"`

	ph     tmconsensus.ProposedHeader
	key    gcrypto.PubKey
	target string
	sig    []byte
}

type asOut struct {
	Err string `json:"err"`
	H   uint64 `json:"h,omitempty"`
	R   uint32 `json:"r,omitempty"`
	PH  string `json:"ph,omitempty"`
	Key string `json:"key,omitempty"`
	PVT string `json:"prevote_target,omitempty"`
	PVS string `json:"prevote_sig,omitempty"`
	PCT string `json:"precommit_target,omitempty"`
	PCS string `json:"precommit_sig,omitempty"`
}

type asSt struct {
	HasPH    bool
	PH       string
	HasPV    bool
	PVT, PVS string
	HasPC    bool
	PCT, PCS string
	Key      string
}

type hrPair struct {
	H uint64
	R uint32
}

type asPool struct {
	pairs   []hrPair
	keys    []gcrypto.PubKey
	hashes  []string
	valsets []tmconsensus.ValidatorSet
}

func actionSpec() *spec {
	return &spec{
		name:   "actionstore",
		newSUT: func() any { return tmstore.ActionStore(tmmemstore.NewActionStore()) },
		newPool: func(rng *rand.Rand) any {
			p := &asPool{}
			n := 2 + rng.IntN(4)
			seen := map[hrPair]bool{}
			hs := distinctHeights(rng, 2, false)
			for len(p.pairs) < n {
				x := hrPair{pick(rng, hs), pick(rng, edgeRounds)}
				if !seen[x] {
					seen[x] = true
					p.pairs = append(p.pairs, x)
				}
			}
			p.keys = []gcrypto.PubKey{genKey(rng), genKey(rng)}
			p.hashes = []string{string(rb(rng, 8)), string(rb(rng, 8)), ""}
			p.valsets = []tmconsensus.ValidatorSet{genValSet(rng), genValSet(rng)}
			return p
		},
		gen: func(rng *rand.Rand, pool any, tag string) any {
			p := pool.(*asPool)
			hr := pick(rng, p.pairs)
			in := &asIn{H: hr.H, R: hr.R}
			key := p.keys[0]
			if rng.IntN(5) == 0 {
				key = p.keys[1]
			}
			switch x := rng.IntN(100); {
			case x < 18:
				in.Op = "SaveProposedHeaderAction"
				in.ph = genPH(rng, hr.H, hr.R, rb(rng, 8), key, tag, p.valsets)
				in.PH = cPH(in.ph)
			case x < 66:
				in.Op = "SavePrevoteAction"
				if x >= 42 {
					in.Op = "SavePrecommitAction"
				}
				in.key = key
				in.Key = hx(key.PubKeyBytes())
				in.target = pick(rng, p.hashes)
				in.Target = hx([]byte(in.target))
				in.sig = append([]byte(tag+"#"), rb(rng, 8)...)
				in.Sig = hx(in.sig)
			default:
				in.Op = "LoadActions"
				if rng.IntN(12) == 0 {
					in.R++ // usually a round nobody wrote to
				}
			}
			return in
		},
		prep: func(sut any, in any) (func(), func() any) {
			s := sut.(tmstore.ActionStore)
			a := in.(*asIn)
			var err error
			switch a.Op {
			case "SaveProposedHeaderAction":
				return func() { err = s.SaveProposedHeaderAction(bg, a.ph) },
					func() any { return asOut{Err: cErr(err)} }
			case "SavePrevoteAction":
				vt := tmconsensus.VoteTarget{Height: a.H, Round: a.R, BlockHash: a.target}
				return func() { err = s.SavePrevoteAction(bg, a.key, vt, a.sig) },
					func() any { return asOut{Err: cErr(err)} }
			case "SavePrecommitAction":
				vt := tmconsensus.VoteTarget{Height: a.H, Round: a.R, BlockHash: a.target}
				return func() { err = s.SavePrecommitAction(bg, a.key, vt, a.sig) },
					func() any { return asOut{Err: cErr(err)} }
			default:
				var ra tmstore.RoundActions
				return func() { ra, err = s.LoadActions(bg, a.H, a.R) },
					func() any {
						o := asOut{Err: cErr(err)}
						if err == nil {
							o.H, o.R = ra.Height, ra.Round
							o.PH = cPH(ra.ProposedHeader)
							if ra.PubKey != nil {
								o.Key = hx(ra.PubKey.PubKeyBytes())
							}
							o.PVT, o.PVS = hx([]byte(ra.PrevoteTarget)), hx([]byte(ra.PrevoteSignature))
							o.PCT, o.PCS = hx([]byte(ra.PrecommitTarget)), hx([]byte(ra.PrecommitSignature))
						}
						return o
					}
			}
		},
		opName: func(in any) string { return in.(*asIn).Op },
		outErr: func(out any) string { return out.(asOut).Err },
		expand: func(in, out any) []pop {
			a := in.(*asIn)
			return one(fmt.Sprintf("%d/%d", a.H, a.R), in, out)
		},
		init: func() any { return asSt{} },
		step: func(st, in, out any) (bool, any, string) {
			s, a, o := st.(asSt), in.(*asIn), out.(asOut)
			vote := func(typ string, has bool) (bool, string) {
				var allowed []string
				if has {
					allowed = append(allowed, eDouble(typ))
				}
				if s.Key != "" && s.Key != a.Key {
					allowed = append(allowed, ePubKeyChanged(typ, s.Key, a.Key))
				}
				if len(allowed) == 0 {
					return false, ""
				}
				for _, e := range allowed {
					if o.Err == e {
						return true, ""
					}
				}
				return true, mismatch("%s must be refused with %s; got %q", a.Op, strings.Join(allowed, " or "), o.Err)
			}
			switch a.Op {
			case "SaveProposedHeaderAction":
				if s.HasPH {
					if o.Err != eDouble("proposed block") {
						return false, s, mismatch("a proposed header is already recorded for %d/%d: want %s, got %q", a.H, a.R, eDouble("proposed block"), o.Err)
					}
					return true, s, ""
				}
				if o.Err != "" {
					return false, s, mismatch("first proposed header for %d/%d must be accepted, got %q", a.H, a.R, o.Err)
				}
				s.HasPH, s.PH = true, a.PH
				return true, s, ""
			case "SavePrevoteAction":
				if refuse, why := vote("prevote", s.HasPV); refuse {
					note := ""
					if why == "" && s.HasPV && s.Key != a.Key {
						note = "unjudged:actionstore:double-action-vs-key-change-precedence"
					}
					return why == "", s, why + note
				}
				if o.Err != "" {
					return false, s, mismatch("first prevote for %d/%d with an unchanged key must be accepted, got %q", a.H, a.R, o.Err)
				}
				s.HasPV, s.PVT, s.PVS, s.Key = true, a.Target, a.Sig, a.Key
				return true, s, ""
			case "SavePrecommitAction":
				if refuse, why := vote("precommit", s.HasPC); refuse {
					note := ""
					if why == "" && s.HasPC && s.Key != a.Key {
						note = "unjudged:actionstore:double-action-vs-key-change-precedence"
					}
					return why == "", s, why + note
				}
				if o.Err != "" {
					return false, s, mismatch("first precommit for %d/%d with an unchanged key must be accepted, got %q", a.H, a.R, o.Err)
				}
				s.HasPC, s.PCT, s.PCS, s.Key = true, a.Target, a.Sig, a.Key
				return true, s, ""
			default:
				if !s.HasPH && !s.HasPV && !s.HasPC {
					if want := eRoundUnknown(a.H, a.R); o.Err != want {
						return false, s, mismatch("nothing recorded for %d/%d: want %s, got err=%q", a.H, a.R, want, o.Err)
					}
					return true, s, ""
				}
				wantPH := zeroPH
				if s.HasPH {
					wantPH = s.PH
				}
				switch {
				case o.Err != "":
					return false, s, mismatch("actions are recorded for %d/%d but LoadActions failed: %q", a.H, a.R, o.Err)
				case o.H != a.H || o.R != a.R:
					return false, s, mismatch("LoadActions(%d,%d) returned Height/Round %d/%d", a.H, a.R, o.H, o.R)
				case o.PH != wantPH:
					return false, s, mismatch("LoadActions(%d,%d) proposed header differs from the recorded one: want %s got %s", a.H, a.R, wantPH, o.PH)
				case o.PVT != s.PVT || o.PVS != s.PVS:
					return false, s, mismatch("LoadActions(%d,%d) prevote differs: want target=%s sig=%s got target=%s sig=%s", a.H, a.R, s.PVT, s.PVS, o.PVT, o.PVS)
				case o.PCT != s.PCT || o.PCS != s.PCS:
					return false, s, mismatch("LoadActions(%d,%d) precommit differs: want target=%s sig=%s got target=%s sig=%s", a.H, a.R, s.PCT, s.PCS, o.PCT, o.PCS)
				case s.Key != "" && o.Key != s.Key:
					return false, s, mismatch("LoadActions(%d,%d) pubkey differs: want %s got %s", a.H, a.R, s.Key, o.Key)
				}
				if s.Key == "" {
					return true, s, "unjudged:actionstore:pubkey-of-round-without-votes"
				}
				return true, s, ""
			}
		},
	}
}

// ---------------------------------------------------------------------------
// FinalizationStore: per height, write-once

type fsIn struct {
	Op   string `json:"op"`
	H    uint64 `json:"h"`
	R    uint32 `json:"r,omitempty"`
	Hash string `json:"block_hash,omitempty"`
	VS   string `json:"valset,omitempty"`
	App  string `json:"app_state_hash,omitempty"`

	hash, app string
	vs        tmconsensus.ValidatorSet
}

type fsOut struct {
	Err  string `json:"err"`
	R    uint32 `json:"r,omitempty"`
	Hash string `json:"block_hash,omitempty"`
	VS   string `json:"valset,omitempty"`
	App  string `json:"app_state_hash,omitempty"`
}

type fsSt struct {
	Has           bool
	R             uint32
	Hash, VS, App string
}

type fsPool struct {
	heights []uint64
	valsets []tmconsensus.ValidatorSet

	// committed header store: headers and proofs generated so far, per height, so that a later
	// save can carry the very same header with another proof (the proof is the subjective half
	// of a committed header: the mirror may save a height again with more signatures)
	hdrs   map[uint64][]tmconsensus.Header
	proofs map[uint64][]tmconsensus.CommitProof
}

func finalizationSpec() *spec {
	return &spec{
		name:   "finalizationstore",
		newSUT: func() any { return tmstore.FinalizationStore(tmmemstore.NewFinalizationStore()) },
		newPool: func(rng *rand.Rand) any {
			return &fsPool{
				// height 0 is real: the engine stores the genesis finalization at InitialHeight-1.
				heights: distinctHeights(rng, 2+rng.IntN(4), true),
				valsets: []tmconsensus.ValidatorSet{genValSet(rng), genValSet(rng)},
			}
		},
		gen: func(rng *rand.Rand, pool any, tag string) any {
			p := pool.(*fsPool)
			in := &fsIn{H: pick(rng, p.heights)}
			if rng.IntN(100) < 50 {
				in.Op = "SaveFinalization"
				in.R = pick(rng, edgeRounds)
				in.hash = tag + "#" + string(rb(rng, 6))
				in.app = "app-" + tag
				in.vs = pick(rng, p.valsets)
				in.Hash, in.App, in.VS = hx([]byte(in.hash)), hx([]byte(in.app)), cValSet(in.vs)
			} else {
				in.Op = "LoadFinalizationByHeight"
				if rng.IntN(12) == 0 {
					in.H += 11
				}
			}
			return in
		},
		prep: func(sut any, in any) (func(), func() any) {
			s := sut.(tmstore.FinalizationStore)
			a := in.(*fsIn)
			var err error
			if a.Op == "SaveFinalization" {
				return func() { err = s.SaveFinalization(bg, a.H, a.R, a.hash, a.vs, a.app) },
					func() any { return fsOut{Err: cErr(err)} }
			}
			var (
				r       uint32
				bh, ash string
				vs      tmconsensus.ValidatorSet
			)
			return func() { r, bh, vs, ash, err = s.LoadFinalizationByHeight(bg, a.H) },
				func() any {
					o := fsOut{Err: cErr(err)}
					if err == nil {
						o.R, o.Hash, o.VS, o.App = r, hx([]byte(bh)), cValSet(vs), hx([]byte(ash))
					}
					return o
				}
		},
		opName: func(in any) string { return in.(*fsIn).Op },
		outErr: func(out any) string { return out.(fsOut).Err },
		expand: func(in, out any) []pop { return one(fmt.Sprint(in.(*fsIn).H), in, out) },
		init:   func() any { return fsSt{} },
		step: func(st, in, out any) (bool, any, string) {
			s, a, o := st.(fsSt), in.(*fsIn), out.(fsOut)
			if a.Op == "SaveFinalization" {
				if s.Has {
					if want := eFinOverwrite(a.H); o.Err != want {
						return false, s, mismatch("height %d already has a finalization: want %s, got %q", a.H, want, o.Err)
					}
					return true, s, ""
				}
				if o.Err != "" {
					return false, s, mismatch("first finalization for height %d must be accepted, got %q", a.H, o.Err)
				}
				return true, fsSt{Has: true, R: a.R, Hash: a.Hash, VS: a.VS, App: a.App}, ""
			}
			if !s.Has {
				if want := eHeightUnknown(a.H); o.Err != want {
					return false, s, mismatch("no finalization at height %d: want %s, got err=%q", a.H, want, o.Err)
				}
				return true, s, ""
			}
			if o.Err != "" || o.R != s.R || o.Hash != s.Hash || o.VS != s.VS || o.App != s.App {
				return false, s, mismatch("LoadFinalizationByHeight(%d) differs from the saved finalization: want r=%d hash=%s app=%s vs=%s; got err=%q r=%d hash=%s app=%s vs=%s",
					a.H, s.R, s.Hash, s.App, s.VS, o.Err, o.R, o.Hash, o.App, o.VS)
			}
			return true, s, ""
		},
	}
}

// ---------------------------------------------------------------------------
// CommittedHeaderStore: per height, last completed save

type chIn struct {
	Op string `json:"op"`
	H  uint64 `json:"h"`
	CH string `json:"committed_header,omitempty"`

	ch tmconsensus.CommittedHeader
}

type chOut struct {
	Err string `json:"err"`
	CH  string `json:"committed_header,omitempty"`
}

type chSt struct {
	Has bool
	CH  string
}

func committedHeaderSpec() *spec {
	return &spec{
		name:   "committedheaderstore",
		newSUT: func() any { return tmstore.CommittedHeaderStore(tmmemstore.NewCommittedHeaderStore()) },
		newPool: func(rng *rand.Rand) any {
			return &fsPool{
				heights: distinctHeights(rng, 2+rng.IntN(2), false),
				valsets: []tmconsensus.ValidatorSet{genValSet(rng), genValSet(rng)},
			}
		},
		gen: func(rng *rand.Rand, pool any, tag string) any {
			p := pool.(*fsPool)
			in := &chIn{H: pick(rng, p.heights)}
			if rng.IntN(100) < 45 {
				in.Op = "SaveCommittedHeader"
				if p.hdrs == nil {
					p.hdrs, p.proofs = map[uint64][]tmconsensus.Header{}, map[uint64][]tmconsensus.CommitProof{}
				}
				switch x := rng.IntN(10); {
				case x < 4 && len(p.hdrs[in.H]) > 0:
					// the same header (same hash) as an earlier save of this height, another proof:
					// a fresh one, or an earlier one of this height grown by more signatures
					in.ch.Header = pick(rng, p.hdrs[in.H])
					if rng.IntN(2) == 0 {
						in.ch.Proof = genCommitProof(rng, tag)
					} else {
						old := pick(rng, p.proofs[in.H])
						np := tmconsensus.CommitProof{Round: old.Round, PubKeyHash: old.PubKeyHash}
						if old.Proofs != nil || rng.IntN(2) == 0 {
							np.Proofs = map[string][]gcrypto.SparseSignature{}
							for k, v := range old.Proofs {
								np.Proofs[k] = append(append([]gcrypto.SparseSignature{}, v...), genSigs(rng, tag)...)
							}
							if len(np.Proofs) == 0 || rng.IntN(3) == 0 {
								np.Proofs[string(rb(rng, 8))] = genSigs(rng, tag)
							}
						}
						in.ch.Proof = np
					}
				case x < 5 && len(p.proofs[in.H]) > 0:
					// another header, an earlier proof
					in.ch = tmconsensus.CommittedHeader{
						Header: genHeader(rng, in.H, rb(rng, 8), tag, p.valsets),
						Proof:  pick(rng, p.proofs[in.H]),
					}
				default:
					in.ch = tmconsensus.CommittedHeader{
						Header: genHeader(rng, in.H, rb(rng, 8), tag, p.valsets),
						Proof:  genCommitProof(rng, tag),
					}
				}
				p.hdrs[in.H] = append(p.hdrs[in.H], in.ch.Header)
				p.proofs[in.H] = append(p.proofs[in.H], in.ch.Proof)
				in.CH = cCH(in.ch)
			} else {
				in.Op = "LoadCommittedHeader"
				if rng.IntN(12) == 0 {
					in.H += 11
				}
			}
			return in
		},
		prep: func(sut any, in any) (func(), func() any) {
			s := sut.(tmstore.CommittedHeaderStore)
			a := in.(*chIn)
			var err error
			if a.Op == "SaveCommittedHeader" {
				return func() { err = s.SaveCommittedHeader(bg, a.ch) },
					func() any { return chOut{Err: cErr(err)} }
			}
			var ch tmconsensus.CommittedHeader
			return func() { ch, err = s.LoadCommittedHeader(bg, a.H) },
				func() any {
					o := chOut{Err: cErr(err)}
					if err == nil {
						o.CH = cCH(ch)
					}
					return o
				}
		},
		opName: func(in any) string { return in.(*chIn).Op },
		outErr: func(out any) string { return out.(chOut).Err },
		expand: func(in, out any) []pop { return one(fmt.Sprint(in.(*chIn).H), in, out) },
		init:   func() any { return chSt{} },
		step: func(st, in, out any) (bool, any, string) {
			s, a, o := st.(chSt), in.(*chIn), out.(chOut)
			if a.Op == "SaveCommittedHeader" {
				if o.Err == "" {
					return true, chSt{Has: true, CH: a.CH}, ""
				}
				if !s.Has {
					return false, s, mismatch("first committed header for height %d must be accepted, got %q", a.H, o.Err)
				}
				// The interface is silent about saving a height twice; a store that
				// refuses keeps the old value.
				return true, s, "unjudged:committedheaderstore:second-save-refused"
			}
			if !s.Has {
				if want := eHeightUnknown(a.H); o.Err != want {
					return false, s, mismatch("no committed header at height %d: want %s, got err=%q", a.H, want, o.Err)
				}
				return true, s, ""
			}
			if o.Err != "" || o.CH != s.CH {
				return false, s, mismatch("LoadCommittedHeader(%d) differs from the latest completed save: want %s; got err=%q %s", a.H, s.CH, o.Err, o.CH)
			}
			return true, s, ""
		},
	}
}

// ---------------------------------------------------------------------------
// MirrorStore and StateMachineStore: single registers

type regIn struct {
	Op string `json:"op"`
	A  uint64 `json:"a,omitempty"` // voting height | height
	B  uint32 `json:"b,omitempty"` // voting round  | round
	C  uint64 `json:"c,omitempty"` // committing height
	D  uint32 `json:"d,omitempty"` // committing round
}

type regOut struct {
	Err string `json:"err"`
	A   uint64 `json:"a,omitempty"`
	B   uint32 `json:"b,omitempty"`
	C   uint64 `json:"c,omitempty"`
	D   uint32 `json:"d,omitempty"`
}

type regSt struct {
	Init bool
	A    uint64
	B    uint32
	C    uint64
	D    uint32
}

func regStep(getName string) func(st, in, out any) (bool, any, string) {
	return func(st, in, out any) (bool, any, string) {
		s, a, o := st.(regSt), in.(*regIn), out.(regOut)
		if a.Op != getName {
			if o.Err != "" {
				return false, s, mismatch("%s(%d,%d,%d,%d) must succeed, got %q", a.Op, a.A, a.B, a.C, a.D, o.Err)
			}
			return true, regSt{Init: true, A: a.A, B: a.B, C: a.C, D: a.D}, ""
		}
		if !s.Init {
			if o.Err != eUninit {
				return false, s, mismatch("%s before any set: want %s, got err=%q", a.Op, eUninit, o.Err)
			}
			return true, s, ""
		}
		if o.Err != "" || o.A != s.A || o.B != s.B || o.C != s.C || o.D != s.D {
			return false, s, mismatch("%s differs from the latest completed set: want (%d,%d,%d,%d); got err=%q (%d,%d,%d,%d)", a.Op, s.A, s.B, s.C, s.D, o.Err, o.A, o.B, o.C, o.D)
		}
		return true, s, ""
	}
}

// uniqueFromTag turns "c<client>n<counter>" into a number that is unique in
// the history and never zero (height zero is the stores' "unset" sentinel and
// is probed separately).
func uniqueFromTag(tag string) uint64 {
	var c, n uint64
	fmt.Sscanf(tag, "c%dn%d", &c, &n)
	return 1 + c*10_000 + n
}

func mirrorSpec() *spec {
	return &spec{
		name:    "mirrorstore",
		newSUT:  func() any { return tmstore.MirrorStore(tmmemstore.NewMirrorStore()) },
		newPool: func(rng *rand.Rand) any { return nil },
		gen: func(rng *rand.Rand, _ any, tag string) any {
			if rng.IntN(100) < 45 {
				u := uniqueFromTag(tag)
				in := &regIn{Op: "SetNetworkHeightRound", A: u, B: pick(rng, edgeRounds), C: u - 1, D: pick(rng, edgeRounds)}
				if rng.IntN(4) == 0 {
					in.A = ^uint64(0) - u // still unique, exercises the top of the range
				}
				return in
			}
			return &regIn{Op: "NetworkHeightRound"}
		},
		prep: func(sut any, in any) (func(), func() any) {
			s := sut.(tmstore.MirrorStore)
			a := in.(*regIn)
			var err error
			if a.Op == "SetNetworkHeightRound" {
				return func() { err = s.SetNetworkHeightRound(bg, a.A, a.B, a.C, a.D) },
					func() any { return regOut{Err: cErr(err)} }
			}
			var o regOut
			return func() { o.A, o.B, o.C, o.D, err = s.NetworkHeightRound(bg) },
				func() any {
					if err != nil {
						return regOut{Err: cErr(err)}
					}
					return o
				}
		},
		opName: func(in any) string { return in.(*regIn).Op },
		outErr: func(out any) string { return out.(regOut).Err },
		expand: func(in, out any) []pop { return one("", in, out) },
		init:   func() any { return regSt{} },
		step:   regStep("NetworkHeightRound"),
	}
}

func stateMachineSpec() *spec {
	return &spec{
		name:    "statemachinestore",
		newSUT:  func() any { return tmstore.StateMachineStore(tmmemstore.NewStateMachineStore()) },
		newPool: func(rng *rand.Rand) any { return nil },
		gen: func(rng *rand.Rand, _ any, tag string) any {
			if rng.IntN(100) < 45 {
				u := uniqueFromTag(tag)
				in := &regIn{Op: "SetStateMachineHeightRound", A: u, B: pick(rng, edgeRounds)}
				if rng.IntN(4) == 0 {
					in.A = ^uint64(0) - u
				}
				return in
			}
			return &regIn{Op: "StateMachineHeightRound"}
		},
		prep: func(sut any, in any) (func(), func() any) {
			s := sut.(tmstore.StateMachineStore)
			a := in.(*regIn)
			var err error
			if a.Op == "SetStateMachineHeightRound" {
				return func() { err = s.SetStateMachineHeightRound(bg, a.A, a.B) },
					func() any { return regOut{Err: cErr(err)} }
			}
			var o regOut
			return func() { o.A, o.B, err = s.StateMachineHeightRound(bg) },
				func() any {
					if err != nil {
						return regOut{Err: cErr(err)}
					}
					return o
				}
		},
		opName: func(in any) string { return in.(*regIn).Op },
		outErr: func(out any) string { return out.(regOut).Err },
		expand: func(in, out any) []pop { return one("", in, out) },
		init:   func() any { return regSt{} },
		step:   regStep("StateMachineHeightRound"),
	}
}

// ---------------------------------------------------------------------------
// RoundStore: per height (replayed headers interact across rounds)

type rsIn struct {
	Op       string   `json:"op"`
	H        uint64   `json:"h"`
	R        uint32   `json:"r"`
	PH       string   `json:"ph,omitempty"`
	Hash     string   `json:"hash,omitempty"`
	Proposer string   `json:"proposer,omitempty"`
	Hdr      string   `json:"replayed_as_ph,omitempty"`
	SSC      string   `json:"proofs,omitempty"`
	Hashes   []string `json:"proof_block_hashes,omitempty"`

	ph  tmconsensus.ProposedHeader
	hdr tmconsensus.Header
	ssc tmconsensus.SparseSignatureCollection
}

type rsOut struct {
	Err string   `json:"err"`
	PHs []string `json:"phs,omitempty"`
	PV  string   `json:"prevotes,omitempty"`
	PC  string   `json:"precommits,omitempty"`
}

type rsPH struct{ Hash, Proposer, Canon string }

type rsRound struct {
	R        uint32
	PHs      []rsPH // sorted by Canon
	HasPV    bool
	PV       string
	HasPC    bool
	PC       string
	PCHashes []string
}

type rsHdr struct{ Hash, Canon string }

// rsSt is immutable: every update copies what it changes.
type rsSt struct {
	Rounds   []rsRound // sorted by R
	Replayed []rsHdr   // sorted by Canon, no duplicates
}

func (s rsSt) round(r uint32) (rsRound, bool) {
	for _, x := range s.Rounds {
		if x.R == r {
			return x, true
		}
	}
	return rsRound{R: r}, false
}

func (s rsSt) withRound(nr rsRound) rsSt {
	out := rsSt{Replayed: s.Replayed}
	done := false
	for _, x := range s.Rounds {
		if x.R == nr.R {
			out.Rounds = append(out.Rounds, nr)
			done = true
		} else {
			out.Rounds = append(out.Rounds, x)
		}
	}
	if !done {
		out.Rounds = append(out.Rounds, nr)
		sort.Slice(out.Rounds, func(i, j int) bool { return out.Rounds[i].R < out.Rounds[j].R })
	}
	return out
}

type rsPool struct {
	heights   []uint64
	rounds    []uint32
	hashes    map[uint64][][]byte
	proposers []gcrypto.PubKey
	valsets   []tmconsensus.ValidatorSet
}

func isOverwrite(e string) bool { return strings.HasPrefix(e, "OverwriteError{") && !strings.Contains(e, "+") }

func roundSpec() *spec {
	return &spec{
		name:   "roundstore",
		newSUT: func() any { return tmstore.RoundStore(tmmemstore.NewRoundStore()) },
		newPool: func(rng *rand.Rand) any {
			p := &rsPool{
				heights:   distinctHeights(rng, 2, false),
				hashes:    map[uint64][][]byte{},
				proposers: []gcrypto.PubKey{genKey(rng), genKey(rng)},
				valsets:   []tmconsensus.ValidatorSet{genValSet(rng), genValSet(rng)},
			}
			r0 := pick(rng, edgeRounds)
			p.rounds = []uint32{r0, r0 + 1}
			for _, h := range p.heights {
				p.hashes[h] = [][]byte{rb(rng, 8), rb(rng, 8)}
			}
			return p
		},
		gen: func(rng *rand.Rand, pool any, tag string) any {
			p := pool.(*rsPool)
			in := &rsIn{H: pick(rng, p.heights), R: pick(rng, p.rounds)}
			hs := p.hashes[in.H]
			switch x := rng.IntN(100); {
			case x < 22:
				in.Op = "SaveRoundProposedHeader"
				prop := pick(rng, p.proposers)
				hash := pick(rng, hs)
				in.ph = genPH(rng, in.H, in.R, hash, prop, tag, p.valsets)
				in.PH, in.Hash, in.Proposer = cPH(in.ph), hx(hash), hx(prop.PubKeyBytes())
			case x < 32:
				in.Op = "SaveRoundReplayedHeader"
				in.R = 0
				hash := pick(rng, hs)
				if rng.IntN(3) == 0 {
					hash = rb(rng, 8) // a hash nobody proposes
				}
				in.hdr = genHeader(rng, in.H, hash, tag, p.valsets)
				in.Hash = hx(hash)
				in.Hdr = cPH(tmconsensus.ProposedHeader{Header: in.hdr})
			case x < 65:
				in.Op = "OverwriteRoundPrevoteProofs"
				if x >= 45 {
					in.Op = "OverwriteRoundPrecommitProofs"
				}
				cands := []string{string(hs[0]), string(hs[1]), "", string(rb(rng, 8))}
				var votes []string
				for _, c := range cands {
					if rng.IntN(2) == 0 {
						votes = append(votes, c)
					}
				}
				if len(votes) == 0 {
					votes = []string{pick(rng, cands)}
				}
				in.ssc = genSSC(rng, votes, tag)
				in.SSC = cSSC(in.ssc)
				for _, v := range votes {
					in.Hashes = append(in.Hashes, hx([]byte(v)))
				}
			default:
				in.Op = "LoadRoundState"
				if rng.IntN(12) == 0 {
					in.R += 2
				}
			}
			return in
		},
		prep: func(sut any, in any) (func(), func() any) {
			s := sut.(tmstore.RoundStore)
			a := in.(*rsIn)
			var err error
			fin := func() any { return rsOut{Err: cErr(err)} }
			switch a.Op {
			case "SaveRoundProposedHeader":
				return func() { err = s.SaveRoundProposedHeader(bg, a.ph) }, fin
			case "SaveRoundReplayedHeader":
				return func() { err = s.SaveRoundReplayedHeader(bg, a.hdr) }, fin
			case "OverwriteRoundPrevoteProofs":
				return func() { err = s.OverwriteRoundPrevoteProofs(bg, a.H, a.R, a.ssc) }, fin
			case "OverwriteRoundPrecommitProofs":
				return func() { err = s.OverwriteRoundPrecommitProofs(bg, a.H, a.R, a.ssc) }, fin
			}
			var (
				phs    []tmconsensus.ProposedHeader
				pv, pc tmconsensus.SparseSignatureCollection
			)
			return func() { phs, pv, pc, err = s.LoadRoundState(bg, a.H, a.R) },
				func() any {
					o := rsOut{Err: cErr(err)}
					if err == nil {
						for _, ph := range phs {
							o.PHs = append(o.PHs, cPH(ph))
						}
						sort.Strings(o.PHs)
						o.PV, o.PC = cSSC(pv), cSSC(pc)
					}
					return o
				}
		},
		opName: func(in any) string { return in.(*rsIn).Op },
		outErr: func(out any) string { return out.(rsOut).Err },
		expand: func(in, out any) []pop { return one(fmt.Sprint(in.(*rsIn).H), in, out) },
		init:   func() any { return rsSt{} },
		step: func(st, in, out any) (bool, any, string) {
			s, a, o := st.(rsSt), in.(*rsIn), out.(rsOut)
			switch a.Op {
			case "SaveRoundProposedHeader":
				rd, _ := s.round(a.R)
				exact, sameProposer := false, false
				for _, x := range rd.PHs {
					if x.Proposer == a.Proposer {
						sameProposer = true
						if x.Hash == a.Hash {
							exact = true
						}
					}
				}
				replayedSame := false
				for _, x := range s.Replayed {
					if x.Hash == a.Hash {
						replayedSame = true
					}
				}
				wantErr := eOverwrite("pubkey", a.Proposer)
				if exact {
					if o.Err != wantErr {
						return false, s, mismatch("proposer %s already has a proposed header with hash %s at %d/%d: want %s, got %q", a.Proposer, a.Hash, a.H, a.R, wantErr, o.Err)
					}
					return true, s, ""
				}
				if o.Err == "" {
					nr := rd
					nr.PHs = append(append([]rsPH(nil), rd.PHs...), rsPH{Hash: a.Hash, Proposer: a.Proposer, Canon: a.PH})
					sort.Slice(nr.PHs, func(i, j int) bool { return nr.PHs[i].Canon < nr.PHs[j].Canon })
					return true, s.withRound(nr), ""
				}
				// Documentation is ambiguous about a proposer's second, different
				// header in a round, and silent about a header whose hash was
				// already saved as replayed: a refusal that stores nothing is accepted.
				if sameProposer && o.Err == wantErr {
					return true, s, "unjudged:roundstore:second-different-header-of-proposer-refused"
				}
				if replayedSame && isOverwrite(o.Err) {
					return true, s, "unjudged:roundstore:proposed-header-after-replayed-refused"
				}
				return false, s, mismatch("new proposed header (hash %s, proposer %s) at %d/%d must be accepted, got %q", a.Hash, a.Proposer, a.H, a.R, o.Err)
			case "SaveRoundReplayedHeader":
				conflict := false
				for _, rd := range s.Rounds {
					for _, x := range rd.PHs {
						if x.Hash == a.Hash {
							conflict = true
						}
					}
				}
				if conflict {
					if want := eOverwrite("hash", a.Hash); o.Err != want {
						return false, s, mismatch("a proposed header with hash %s exists at height %d: want %s, got %q", a.Hash, a.H, want, o.Err)
					}
					return true, s, ""
				}
				have := false
				for _, x := range s.Replayed {
					if x.Hash == a.Hash {
						have = true
					}
				}
				if o.Err == "" {
					for _, x := range s.Replayed {
						if x.Canon == a.Hdr {
							return true, s, ""
						}
					}
					ns := rsSt{Rounds: s.Rounds, Replayed: append(append([]rsHdr(nil), s.Replayed...), rsHdr{Hash: a.Hash, Canon: a.Hdr})}
					sort.Slice(ns.Replayed, func(i, j int) bool { return ns.Replayed[i].Canon < ns.Replayed[j].Canon })
					return true, ns, ""
				}
				if have && isOverwrite(o.Err) {
					return true, s, "unjudged:roundstore:second-replayed-header-same-hash-refused"
				}
				return false, s, mismatch("replayed header with unused hash %s at height %d must be accepted, got %q", a.Hash, a.H, o.Err)
			case "OverwriteRoundPrevoteProofs", "OverwriteRoundPrecommitProofs":
				if o.Err != "" {
					return false, s, mismatch("%s(%d,%d) must succeed, got %q", a.Op, a.H, a.R, o.Err)
				}
				nr, _ := s.round(a.R)
				if a.Op == "OverwriteRoundPrevoteProofs" {
					nr.HasPV, nr.PV = true, a.SSC
				} else {
					nr.HasPC, nr.PC, nr.PCHashes = true, a.SSC, a.Hashes
				}
				return true, s.withRound(nr), ""
			default:
				rd, _ := s.round(a.R)
				if len(rd.PHs) == 0 && !rd.HasPV && !rd.HasPC {
					if want := eRoundUnknown(a.H, a.R); o.Err != want {
						return false, s, mismatch("no proposed header or votes at %d/%d: want %s, got err=%q", a.H, a.R, want, o.Err)
					}
					return true, s, ""
				}
				if o.Err != "" {
					return false, s, mismatch("LoadRoundState(%d,%d) failed although the round has data: %q", a.H, a.R, o.Err)
				}
				wantPV, wantPC := zeroSSC, zeroSSC
				if rd.HasPV {
					wantPV = rd.PV
				}
				if rd.HasPC {
					wantPC = rd.PC
				}
				if o.PV != wantPV {
					return false, s, mismatch("LoadRoundState(%d,%d) prevotes differ from the latest overwrite: want %s got %s", a.H, a.R, wantPV, o.PV)
				}
				if o.PC != wantPC {
					return false, s, mismatch("LoadRoundState(%d,%d) precommits differ from the latest overwrite: want %s got %s", a.H, a.R, wantPC, o.PC)
				}
				// Proposed headers as a set: everything saved for the round plus the
				// replayed headers the round's precommits vote for. A replayed header
				// not (yet) tied to this round by a precommit, or one whose hash also
				// has a full proposed header here, may or may not be listed.
				required, optional := map[string]bool{}, map[string]bool{}
				fullHash := map[string]bool{}
				for _, x := range rd.PHs {
					required[x.Canon] = true
					fullHash[x.Hash] = true
				}
				for _, rh := range s.Replayed {
					voted := false
					for _, h := range rd.PCHashes {
						if h != "" && h == rh.Hash {
							voted = true
						}
					}
					if voted && !fullHash[rh.Hash] {
						required[rh.Canon] = true
					} else {
						optional[rh.Canon] = true
					}
				}
				got := map[string]bool{}
				note := ""
				for _, c := range o.PHs {
					got[c] = true
					if !required[c] {
						if !optional[c] {
							return false, s, mismatch("LoadRoundState(%d,%d) returned a proposed header nobody saved for this round: %s", a.H, a.R, c)
						}
						note = "unjudged:roundstore:replayed-header-listed-without-precommit"
					}
				}
				for c := range required {
					if !got[c] {
						return false, s, mismatch("LoadRoundState(%d,%d) is missing a saved header: %s (returned %d headers)", a.H, a.R, c, len(o.PHs))
					}
				}
				return true, s, note
			}
		},
	}
}

// ---------------------------------------------------------------------------
// ValidatorStore: content addressed, per hash. LoadValidators reads one key
// hash and one power hash; it is split into one sub-observation per hash
// (sound, because entries are never removed or changed; slightly weaker than
// demanding that both reads happen at one instant).

type vsIn struct {
	Op   string   `json:"op"`
	Keys []string `json:"keys,omitempty"`
	Pows []uint64 `json:"pows,omitempty"`
	KH   string   `json:"key_hash,omitempty"`
	PH   string   `json:"pow_hash,omitempty"`
	// lengths of the pool entries behind KH / PH, -1 when the hash is random
	KLen int `json:"key_len"`
	PLen int `json:"pow_len"`

	keys []gcrypto.PubKey
}

type vsOut struct {
	Err  string   `json:"err"`
	Hash string   `json:"hash,omitempty"`
	Keys []string `json:"keys,omitempty"`
	Pows []uint64 `json:"pows,omitempty"`
}

type vsSubIn struct {
	Op   string `json:"op"`
	Hash string `json:"hash"`
	Len  int    `json:"len"`
}

type vsSubOut struct {
	Found bool     `json:"found"`
	N     int      `json:"n"`
	Keys  []string `json:"keys,omitempty"`
	Pows  []uint64 `json:"pows,omitempty"`
	Bad   string   `json:"bad,omitempty"`
}

type vsSt struct{ Has bool }

type vsPool struct {
	keySets [][]gcrypto.PubKey
	powSets [][]uint64
}

func keysHex(keys []gcrypto.PubKey) []string {
	out := make([]string, len(keys))
	for i, k := range keys {
		out[i] = hx(k.PubKeyBytes())
	}
	return out
}

func hashOfHexKeys(keys []string) string {
	bs := make([][]byte, len(keys))
	for i, k := range keys {
		bs[i] = []byte(unhex(k))
	}
	return hx(ownKeysHash(bs))
}

func unhex(s string) string {
	b, _ := hex.DecodeString(s)
	return string(b)
}

func validatorSpec() *spec {
	return &spec{
		name:   "validatorstore",
		newSUT: func() any { return tmstore.ValidatorStore(tmmemstore.NewValidatorStore(ownHashScheme{})) },
		newPool: func(rng *rand.Rand) any {
			p := &vsPool{}
			lens := []int{1 + rng.IntN(4), 1 + rng.IntN(4), 1 + rng.IntN(4)}
			for _, n := range lens {
				var ks []gcrypto.PubKey
				for i := 0; i < n; i++ {
					ks = append(ks, genKey(rng))
				}
				p.keySets = append(p.keySets, ks)
			}
			// power sets: two share lengths with key sets, one is drawn freely
			for i, n := range []int{lens[0], lens[1], 1 + rng.IntN(4)} {
				var ps []uint64
				for j := 0; j < n; j++ {
					ps = append(ps, rng.Uint64()>>rng.UintN(64))
				}
				ps[0] += uint64(i) // keep the three sets distinct
				p.powSets = append(p.powSets, ps)
			}
			return p
		},
		gen: func(rng *rand.Rand, pool any, tag string) any {
			p := pool.(*vsPool)
			in := &vsIn{KLen: -1, PLen: -1}
			pickKeys := func(allowRandom bool) {
				if allowRandom && rng.IntN(8) == 0 {
					in.KH = hx(rb(rng, 32))
					return
				}
				ks := pick(rng, p.keySets)
				in.keys = append([]gcrypto.PubKey(nil), ks...) // the store keeps what it is given
				in.Keys = keysHex(ks)
				in.KH = hashOfHexKeys(in.Keys)
				in.KLen = len(ks)
			}
			pickPows := func(allowRandom bool) {
				if allowRandom && rng.IntN(8) == 0 {
					in.PH = hx(rb(rng, 32))
					return
				}
				ps := pick(rng, p.powSets)
				in.Pows = append([]uint64(nil), ps...)
				in.PH = hx(ownPowsHash(ps))
				in.PLen = len(ps)
			}
			switch x := rng.IntN(100); {
			case x < 18:
				in.Op = "SavePubKeys"
				pickKeys(false)
			case x < 36:
				in.Op = "SaveVotePowers"
				pickPows(false)
			case x < 54:
				in.Op = "LoadPubKeys"
				pickKeys(true)
			case x < 72:
				in.Op = "LoadVotePowers"
				pickPows(true)
			default:
				in.Op = "LoadValidators"
				pickKeys(true)
				pickPows(true)
			}
			return in
		},
		prep: func(sut any, in any) (func(), func() any) {
			s := sut.(tmstore.ValidatorStore)
			a := in.(*vsIn)
			var err error
			switch a.Op {
			case "SavePubKeys":
				var h string
				return func() { h, err = s.SavePubKeys(bg, a.keys) },
					func() any { return vsOut{Err: cErr(err), Hash: hx([]byte(h))} }
			case "SaveVotePowers":
				var h string
				pows := append([]uint64(nil), a.Pows...)
				return func() { h, err = s.SaveVotePowers(bg, pows) },
					func() any { return vsOut{Err: cErr(err), Hash: hx([]byte(h))} }
			case "LoadPubKeys":
				var ks []gcrypto.PubKey
				kh := unhex(a.KH)
				return func() { ks, err = s.LoadPubKeys(bg, kh) },
					func() any {
						o := vsOut{Err: cErr(err)}
						if err == nil {
							o.Keys = keysHex(ks)
						}
						return o
					}
			case "LoadVotePowers":
				var ps []uint64
				ph := unhex(a.PH)
				return func() { ps, err = s.LoadVotePowers(bg, ph) },
					func() any {
						o := vsOut{Err: cErr(err)}
						if err == nil {
							o.Pows = append([]uint64(nil), ps...)
						}
						return o
					}
			default:
				var vals []tmconsensus.Validator
				kh, ph := unhex(a.KH), unhex(a.PH)
				return func() { vals, err = s.LoadValidators(bg, kh, ph) },
					func() any {
						o := vsOut{Err: cErr(err)}
						if err == nil {
							o.Keys, o.Pows = []string{}, []uint64{}
							for _, v := range vals {
								k := ""
								if v.PubKey != nil {
									k = hx(v.PubKey.PubKeyBytes())
								}
								o.Keys = append(o.Keys, k)
								o.Pows = append(o.Pows, v.Power)
							}
						}
						return o
					}
			}
		},
		opName: func(in any) string { return in.(*vsIn).Op },
		outErr: func(out any) string { return out.(vsOut).Err },
		expand: func(in, out any) []pop {
			a, o := in.(*vsIn), out.(vsOut)
			switch a.Op {
			case "SavePubKeys", "LoadPubKeys":
				return one("k:"+a.KH, in, out)
			case "SaveVotePowers", "LoadVotePowers":
				return one("p:"+a.PH, in, out)
			}
			k := vsSubOut{Found: true, N: -1}
			p := vsSubOut{Found: true, N: -1}
			switch {
			case o.Err == "":
				k.Keys, k.N = o.Keys, len(o.Keys)
				p.Pows, p.N = o.Pows, len(o.Pows)
			case strings.HasPrefix(o.Err, "PubKeyPowerCountMismatchError{") && !strings.Contains(o.Err, "+"):
				fmt.Sscanf(o.Err, "PubKeyPowerCountMismatchError{%d,%d}", &k.N, &p.N)
				if k.N == p.N {
					k.Bad = "count mismatch error with equal counts: " + o.Err
					p.Bad = k.Bad
				}
			default:
				rest := 0
				for _, part := range strings.Split(o.Err, "+") {
					switch part {
					case eNoKeys(a.KH):
						k.Found = false
					case eNoPows(a.PH):
						p.Found = false
					default:
						rest++
					}
				}
				if rest > 0 || (k.Found && p.Found) {
					k.Bad = "LoadValidators returned an error that is not one of the documented ones for these hashes: " + o.Err
					p.Bad = k.Bad
				}
			}
			return []pop{
				{Part: "k:" + a.KH, In: &vsSubIn{Op: "LoadValidators.keys", Hash: a.KH, Len: a.KLen}, Out: k},
				{Part: "p:" + a.PH, In: &vsSubIn{Op: "LoadValidators.pows", Hash: a.PH, Len: a.PLen}, Out: p},
			}
		},
		init: func() any { return vsSt{} },
		step: func(st, in, out any) (bool, any, string) {
			s := st.(vsSt)
			if sub, ok := in.(*vsSubIn); ok {
				o := out.(vsSubOut)
				switch {
				case o.Bad != "":
					return false, s, o.Bad
				case o.Found != s.Has:
					return false, s, mismatch("%s: hash %s saved=%t but the load reported found=%t", sub.Op, sub.Hash, s.Has, o.Found)
				case !o.Found:
					return true, s, ""
				case sub.Op == "LoadValidators.keys" && o.Keys != nil && hashOfHexKeys(o.Keys) != sub.Hash:
					return false, s, mismatch("LoadValidators returned public keys %v that do not hash to the requested %s", o.Keys, sub.Hash)
				case sub.Op == "LoadValidators.pows" && o.Pows != nil && hx(ownPowsHash(o.Pows)) != sub.Hash:
					return false, s, mismatch("LoadValidators returned powers %v that do not hash to the requested %s", o.Pows, sub.Hash)
				case o.N >= 0 && sub.Len >= 0 && o.N != sub.Len:
					return false, s, mismatch("%s: %d entries reported for hash %s which holds %d", sub.Op, o.N, sub.Hash, sub.Len)
				}
				return true, s, ""
			}
			a, o := in.(*vsIn), out.(vsOut)
			switch a.Op {
			case "SavePubKeys", "SaveVotePowers":
				want, exist := a.KH, eKeysExist(a.KH)
				if a.Op == "SaveVotePowers" {
					want, exist = a.PH, ePowsExist(a.PH)
				}
				if o.Hash != want {
					return false, s, mismatch("%s returned hash %s, the hash scheme gives %s", a.Op, o.Hash, want)
				}
				if s.Has {
					if o.Err != exist {
						return false, s, mismatch("%s of an already saved set: want %s, got %q", a.Op, exist, o.Err)
					}
					return true, s, ""
				}
				if o.Err != "" {
					return false, s, mismatch("first %s of a set must succeed, got %q", a.Op, o.Err)
				}
				return true, vsSt{Has: true}, ""
			case "LoadPubKeys":
				if !s.Has {
					if want := eNoKeys(a.KH); o.Err != want {
						return false, s, mismatch("LoadPubKeys of an unsaved hash: want %s, got err=%q keys=%v", want, o.Err, o.Keys)
					}
					return true, s, ""
				}
				if o.Err != "" || hashOfHexKeys(o.Keys) != a.KH {
					return false, s, mismatch("LoadPubKeys(%s) returned err=%q keys=%v which do not hash to it", a.KH, o.Err, o.Keys)
				}
				return true, s, ""
			default: // LoadVotePowers
				if !s.Has {
					if want := eNoPows(a.PH); o.Err != want {
						return false, s, mismatch("LoadVotePowers of an unsaved hash: want %s, got err=%q pows=%v", want, o.Err, o.Pows)
					}
					return true, s, ""
				}
				if o.Err != "" || hx(ownPowsHash(o.Pows)) != a.PH {
					return false, s, mismatch("LoadVotePowers(%s) returned err=%q pows=%v which do not hash to it", a.PH, o.Err, o.Pows)
				}
				return true, s, ""
			}
		},
	}
}

func allSpecs() []*spec {
	return []*spec{
		actionSpec(), roundSpec(), finalizationSpec(), committedHeaderSpec(),
		mirrorSpec(), stateMachineSpec(), validatorSpec(),
	}
}
