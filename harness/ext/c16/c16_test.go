// Package c16 monitors property C16: the shipped in-memory stores
// (tm/tmstore/tmmemstore) are linearizable implementations of their tmstore
// interface contracts and honour the no-overwrite rules.
//
// Three observation modes, all against the real stores through the tmstore
// interfaces:
//
//   - concurrent histories: N client goroutines run pre-drawn operations on
//     2-6 keys; call and return are stamped from one atomic counter right
//     around the interface call; porcupine decides, per key partition, whether
//     a linearization consistent with the sequential model (specs_test.go)
//     exists;
//   - sequential differential: one goroutine, random operation sequences, the
//     model is compared after every single call (deterministic, catches
//     contract errors without any scheduling luck);
//   - edge probes: a handful of inputs the documentation does not cover
//     (height 0, empty signature, caller-mutated slices). Observed and
//     reported in notes and counters, never judged.
//
// The "race" sub-run executes a quarter of the cases under -race; the driver
// turns a race report with a tmmemstore frame into a violation.
package c16

import (
	"crypto/sha256"
	"encoding/json"
	"fmt"
	"math/rand/v2"
	"os"
	"reflect"
	"runtime"
	"sort"
	"strconv"
	"strings"
	"sync"
	"sync/atomic"
	"testing"
	"time"

	"github.com/anishathalye/porcupine"
	"github.com/gordian-engine/gordian/gcrypto"
	"github.com/gordian-engine/gordian/tm/tmconsensus"
	"github.com/gordian-engine/gordian/tm/tmstore"
	"github.com/gordian-engine/gordian/tm/tmstore/tmmemstore"
	"verif/ext/verifkit"
)

const (
	checkerTimeout = 2 * time.Minute
	historyTimeout = 60 * time.Second
	opsPerClient   = 12
)

// rec is one recorded operation of a history.
type rec struct {
	Client int    `json:"client"`
	Seq    int    `json:"seq"`
	Call   int64  `json:"call"`
	Ret    int64  `json:"return"`
	Op     string `json:"op"`
	In     any    `json:"in"`
	Out    any    `json:"out"`
	Panic  string `json:"panic,omitempty"`
}

type history struct {
	sp       *spec
	idx      int
	clients  int
	lockstep bool
	recs     []rec
	digest   [32]byte // over the generated inputs

	panicKey, panicMsg, panicStack string
	panicRec                       *rec
	hung                           bool
}

func (h *history) caseID() string { return fmt.Sprintf("%s/conc/%d", h.sp.name, h.idx) }

// execHistory draws and runs one concurrent history. Everything random is
// drawn from rng before the clients start.
func execHistory(sp *spec, idx int, rng *rand.Rand) *history {
	h := &history{sp: sp, idx: idx}
	h.clients = []int{2, 3, 4, 8, 8, 8, 8, 8}[rng.IntN(8)]
	h.lockstep = rng.IntN(3) != 0
	pool := sp.newPool(rng)
	plans := make([][]any, h.clients)
	yields := make([][]int, h.clients)
	dg := sha256.New()
	for c := range plans {
		for k := 0; k < opsPerClient; k++ {
			in := sp.gen(rng, pool, fmt.Sprintf("c%dn%d", c, k))
			plans[c] = append(plans[c], in)
			yields[c] = append(yields[c], rng.IntN(4))
			b, _ := json.Marshal(in)
			dg.Write(b)
			dg.Write([]byte{0})
		}
	}
	copy(h.digest[:], dg.Sum(nil))

	sut := sp.newSUT()
	var clock, arrived, ready atomic.Int64
	var abort atomic.Bool
	start := make(chan struct{})
	per := make([][]rec, h.clients)
	var wg sync.WaitGroup
	var pmu sync.Mutex
	for c := 0; c < h.clients; c++ {
		wg.Add(1)
		go func(c int) {
			defer wg.Done()
			<-start
			// spin barrier: channel wake-ups are microseconds apart, longer than
			// a whole client's plan; this makes the clients really start together
			ready.Add(1)
			for spin := 1; ready.Load() < int64(h.clients) && !abort.Load(); spin++ {
				if spin&31 == 0 {
					runtime.Gosched()
				}
			}
			for k, in := range plans[c] {
				invoke, finish := sp.prep(sut, in)
				if h.lockstep {
					// all clients issue their k-th operation together
					arrived.Add(1)
					target := int64((k + 1) * h.clients)
					for spin := 1; arrived.Load() < target && !abort.Load(); spin++ {
						if spin&31 == 0 {
							runtime.Gosched()
						}
					}
				} else {
					for y := 0; y < yields[c][k]; y++ {
						runtime.Gosched()
					}
				}
				call := clock.Add(1)
				panicked, pkey, pmsg, pstack := verifkit.Guard(invoke)
				ret := clock.Add(1)
				rc := rec{Client: c, Seq: k, Call: call, Ret: ret, Op: sp.opName(in), In: in}
				if panicked {
					rc.Panic = pmsg
					pmu.Lock()
					if h.panicKey == "" {
						h.panicKey, h.panicMsg, h.panicStack = pkey, pmsg, pstack
						cp := rc
						h.panicRec = &cp
					}
					pmu.Unlock()
				} else {
					rc.Out = finish()
				}
				per[c] = append(per[c], rc)
			}
		}(c)
	}
	done := make(chan struct{})
	go func() { wg.Wait(); close(done) }()
	close(start)
	select {
	case <-done:
	case <-time.After(historyTimeout):
		h.hung = true
		abort.Store(true) // release the clients that spin on a barrier; a client blocked inside the store stays blocked
		return h
	}
	for _, rs := range per {
		h.recs = append(h.recs, rs...)
	}
	sort.Slice(h.recs, func(i, j int) bool { return h.recs[i].Call < h.recs[j].Call })
	return h
}

// pin is the porcupine input: the partition key travels with the operation.
type pin struct {
	Part string
	In   any
	Rec  int
}

func modelFor(sp *spec) porcupine.Model {
	return porcupine.Model{
		Partition: func(hist []porcupine.Operation) [][]porcupine.Operation {
			by := map[string][]porcupine.Operation{}
			var keys []string
			for _, op := range hist {
				k := op.Input.(pin).Part
				if _, ok := by[k]; !ok {
					keys = append(keys, k)
				}
				by[k] = append(by[k], op)
			}
			sort.Strings(keys)
			out := make([][]porcupine.Operation, 0, len(keys))
			for _, k := range keys {
				out = append(out, by[k])
			}
			return out
		},
		Init: sp.init,
		Step: func(st, in, out any) (bool, any) {
			ok, next, _ := sp.step(st, in.(pin).In, out)
			return ok, next
		},
		Equal: func(a, b any) bool { return reflect.DeepEqual(a, b) },
	}
}

type checkStats struct {
	partitions   int
	overlapPairs int
}

// checkHistory runs porcupine over one history and records the verdict.
func checkHistory(r *verifkit.Run, h *history) (st checkStats) {
	sp := h.sp
	var ops []porcupine.Operation
	for i, rc := range h.recs {
		for _, p := range sp.expand(rc.In, rc.Out) {
			ops = append(ops, porcupine.Operation{
				ClientId: rc.Client,
				Input:    pin{Part: p.Part, In: p.In, Rec: i},
				Call:     rc.Call,
				Output:   p.Out,
				Return:   rc.Ret,
			})
		}
	}
	model := modelFor(sp)
	parts := model.Partition(ops)
	st.partitions = len(parts)
	for _, part := range parts {
		for i := range part {
			for j := i + 1; j < len(part); j++ {
				a, b := part[i], part[j]
				if a.ClientId != b.ClientId && a.Call < b.Return && b.Call < a.Return {
					st.overlapPairs++
				}
			}
		}
	}
	switch porcupine.CheckOperationsTimeout(model, ops, checkerTimeout) {
	case porcupine.Ok:
		return
	case porcupine.Unknown:
		r.Inconclusive("%s: linearizability checker timed out after %s on %d operations", h.caseID(), checkerTimeout, len(ops))
		return
	}
	// Illegal: name the partition(s) without a linearization.
	for _, part := range parts {
		res := porcupine.CheckOperationsTimeout(model, part, checkerTimeout)
		if res == porcupine.Unknown {
			r.Inconclusive("%s: linearizability checker timed out on one partition", h.caseID())
			continue
		}
		if res != porcupine.Illegal {
			continue
		}
		key := part[0].Input.(pin).Part
		type wop struct {
			rec
			CheckedAs any `json:"checked_as,omitempty"`
			Observed  any `json:"observed,omitempty"`
		}
		var w []wop
		for _, op := range part {
			p := op.Input.(pin)
			x := wop{rec: h.recs[p.Rec]}
			if _, sub := p.In.(*vsSubIn); sub {
				x.CheckedAs, x.Observed = p.In, op.Output
			}
			w = append(w, x)
		}
		sort.Slice(w, func(i, j int) bool { return w[i].Call < w[j].Call })
		r.Violate("C16:"+sp.name+":not-linearizable",
			fmt.Sprintf("%s: the %d operations on key %q admit no linearization consistent with the %s contract (clients=%d lockstep=%t)", h.caseID(), len(part), key, sp.name, h.clients, h.lockstep),
			h.caseID(),
			map[string]any{
				"store": sp.name, "history": h.idx, "clients": h.clients, "lockstep": h.lockstep,
				"partition": key, "history_ops": len(h.recs), "operations": w,
				"note": "call/return are stamps of one atomic counter taken immediately before and after the interface call",
			})
	}
	return
}

// runSequential executes one random single-goroutine sequence and compares
// with the model after every call.
func runSequential(r *verifkit.Run, sp *spec, idx int, counts map[string]int64) {
	rng := r.NamedRNG("seq-"+sp.name, idx)
	caseID := fmt.Sprintf("%s/seq/%d", sp.name, idx)
	pool := sp.newPool(rng)
	sut := sp.newSUT()
	states := map[string]any{}
	n := 30 + rng.IntN(90)
	var log []rec
	refusals, reads := 0, 0
	for k := 0; k < n; k++ {
		in := sp.gen(rng, pool, fmt.Sprintf("c%dn%d", rng.IntN(4), k))
		invoke, finish := sp.prep(sut, in)
		rc := rec{Seq: k, Call: int64(2*k + 1), Ret: int64(2*k + 2), Op: sp.opName(in), In: in}
		if p, key, msg, stack := verifkit.Guard(invoke); p {
			rc.Panic = msg
			log = append(log, rc)
			r.Violate(key, fmt.Sprintf("%s: %s panicked: %s", caseID, rc.Op, msg), caseID,
				map[string]any{"store": sp.name, "operations": log, "stack": stack})
			return
		}
		rc.Out = finish()
		log = append(log, rc)
		e := sp.outErr(rc.Out)
		counts["seq."+sp.name+".op."+rc.Op+"."+errClass(e)]++
		if e != "" {
			refusals++
		} else if strings.HasPrefix(rc.Op, "Load") || strings.HasSuffix(rc.Op, "HeightRound") && !strings.HasPrefix(rc.Op, "Set") {
			reads++
		}
		for _, p := range sp.expand(in, rc.Out) {
			st, ok := states[p.Part]
			if !ok {
				st = sp.init()
			}
			good, next, note := sp.step(st, p.In, p.Out)
			if !good {
				r.Violate("C16:"+sp.name+":seq-mismatch:"+rc.Op,
					fmt.Sprintf("%s op #%d: %s", caseID, k, note), caseID,
					map[string]any{
						"store": sp.name, "sequence": idx, "failing_op": k, "expected": note,
						"model_state_before": fmt.Sprintf("%+v", st), "operations": log,
					})
				return
			}
			if strings.Contains(note, "unjudged:") {
				counts[note[strings.Index(note, "unjudged:"):]]++
			}
			states[p.Part] = next
		}
	}
	counts["seq."+sp.name+".sequences"]++
	counts["seq."+sp.name+".ops"] += int64(n)
	counts["seq."+sp.name+".keys"] += int64(len(states))
	if refusals > 0 && reads > 0 {
		r.Nontrivial("seq", sp.name, idx, r.Seed)
	}
}

func TestVerif_C16(t *testing.T) {
	r := verifkit.Start("C16")
	if r == nil {
		t.Skip("not started by the /verif driver")
	}
	defer r.Finish()
	r.SetRule("Per store (action, round, finalization, committed-header, mirror, state-machine, validator): concurrent histories of 2-8 client goroutines x 12 pre-drawn operations on 2-6 keys (heights/rounds/hashes incl. extreme values), unique written values, two thirds of the histories issue the k-th operation of all clients in lockstep; porcupine checks each key partition against the sequential contract model. Plus single-goroutine random sequences of 30-120 operations compared with the model after every call. A concurrent history is non-trivial when at least two operations of different clients on one key overlap in [call,return]; a sequence is non-trivial when it contained at least one refusal/not-found outcome and one successful read that was compared.")

	specs := allSpecs()
	nConc := r.N(400, 10000)
	nSeq := r.N(600, 25000)
	if r.Sub == "race" {
		nConc, nSeq = max(1, nConc/4), max(1, nSeq/4)
	}
	onlyStore, onlyMode, onlyIdx := "", "", -1
	if r.Replay != "" {
		var w struct {
			Case string `json:"case"`
		}
		if b, err := os.ReadFile(r.Replay); err == nil && json.Unmarshal(b, &w) == nil {
			if f := strings.Split(w.Case, "/"); len(f) == 3 {
				onlyStore, onlyMode = f[0], f[1]
				onlyIdx, _ = strconv.Atoi(f[2])
			}
		}
		r.Note("replay of %s/%s/%d: sequential cases re-execute deterministically; concurrent cases re-run the same operation plan under a new schedule", onlyStore, onlyMode, onlyIdx)
	}

	execWorkers := max(1, r.Workers/8)
	var cmu sync.Mutex
	total := map[string]int64{}
	merge := func(m map[string]int64) {
		cmu.Lock()
		for k, v := range m {
			total[k] += v
		}
		cmu.Unlock()
	}

	for _, sp := range specs {
		if onlyStore != "" && sp.name != onlyStore {
			continue
		}
		// ---- concurrent histories: execute a chunk with few histories in
		// flight (so that the clients of one history really run in parallel),
		// then check the chunk on all cores.
		var idxs []int
		for i := 0; i < nConc; i++ {
			if onlyIdx >= 0 && (onlyMode != "conc" || i != onlyIdx) {
				continue
			}
			idxs = append(idxs, i)
		}
		const chunk = 128
		var storeHung atomic.Bool // a call into this store blocked: stop using it
		for lo := 0; lo < len(idxs); lo += chunk {
			hi := min(lo+chunk, len(idxs))
			if storeHung.Load() {
				break
			}
			hs := make([]*history, hi-lo)
			var next atomic.Int64
			var wg sync.WaitGroup
			for w := 0; w < execWorkers; w++ {
				wg.Add(1)
				go func() {
					defer wg.Done()
					for {
						j := int(next.Add(1) - 1)
						if j >= len(hs) {
							return
						}
						i := idxs[lo+j]
						if storeHung.Load() {
							continue // hs[j] stays nil
						}
						r.BeginCase(fmt.Sprintf("%s/conc/%d", sp.name, i))
						hs[j] = execHistory(sp, i, r.NamedRNG("conc-"+sp.name, i))
						if hs[j].hung {
							storeHung.Store(true)
						}
					}
				}()
			}
			wg.Wait()
			r.Parallel(len(hs), func(j int) {
				h := hs[j]
				if h == nil {
					return
				}
				c := map[string]int64{}
				defer merge(c)
				r.Eval(1)
				if h.hung {
					r.Inconclusive("%s: clients did not finish within %s (a store call blocked)", h.caseID(), historyTimeout)
					return
				}
				c["conc."+sp.name+".histories"]++
				c["conc."+sp.name+".ops"] += int64(len(h.recs))
				if h.lockstep {
					c["conc."+sp.name+".lockstep_histories"]++
				}
				for _, rc := range h.recs {
					if rc.Panic == "" {
						c["conc."+sp.name+".op."+rc.Op+"."+errClass(sp.outErr(rc.Out))]++
					}
				}
				if h.panicKey != "" {
					r.Violate(h.panicKey, fmt.Sprintf("%s: %s panicked: %s", h.caseID(), h.panicRec.Op, h.panicMsg), h.caseID(),
						map[string]any{"store": sp.name, "operation": h.panicRec, "stack": h.panicStack, "operations": h.recs})
					return
				}
				st := checkHistory(r, h)
				c["conc."+sp.name+".partitions"] += int64(st.partitions)
				c["conc."+sp.name+".overlapping_pairs"] += int64(st.overlapPairs)
				if st.overlapPairs > 0 {
					c["conc."+sp.name+".overlapping_histories"]++
					r.Nontrivial("conc", sp.name, h.idx, h.digest[:])
				}
				if h.idx == 0 && r.WantSample() {
					m := min(len(h.recs), 6)
					r.Sample(map[string]any{"case": h.caseID(), "clients": h.clients, "lockstep": h.lockstep,
						"ops": len(h.recs), "partitions": st.partitions, "overlapping_pairs": st.overlapPairs, "first_ops": h.recs[:m]})
				}
			})
		}

		// ---- sequential differential
		if storeHung.Load() {
			r.Inconclusive("%s: sequential mode skipped because a call into the store blocked", sp.name)
			continue
		}
		var sidx []int
		for i := 0; i < nSeq; i++ {
			if onlyIdx >= 0 && (onlyMode != "seq" || i != onlyIdx) {
				continue
			}
			sidx = append(sidx, i)
		}
		r.Parallel(len(sidx), func(j int) {
			c := map[string]int64{}
			defer merge(c)
			r.Eval(1)
			runSequential(r, sp, sidx[j], c)
		})
	}

	if onlyIdx < 0 {
		edgeProbes(r, total)
	}
	for k, v := range total {
		r.Count(k, v)
	}
}

// edgeProbes observes inputs the documentation does not cover. Nothing here is
// judged; the outcomes go to counters (edge.<name>.<outcome>) and notes so that
// a reader can see what the shipped stores do.
func edgeProbes(r *verifkit.Run, counts map[string]int64) {
	rng := r.NamedRNG("edge", 0)
	seen := map[string]bool{}
	var omu sync.Mutex
	closed := false
	defer func() { omu.Lock(); closed = true; omu.Unlock() }()
	obs := func(name, outcome, detail string) {
		omu.Lock()
		defer omu.Unlock()
		if closed { // a probe that was abandoned by its watchdog came back late
			return
		}
		counts["edge."+name+"."+outcome]++
		if !seen[name] {
			seen[name] = true
			r.Note("edge probe (not judged) %s: %s - %s", name, outcome, detail)
		}
	}
	guard := func(name string, fn func()) {
		// own goroutine and a watchdog: a probe that blocks inside the store
		// must not hang the run (the goroutine is abandoned)
		done := make(chan struct{})
		go func() {
			defer close(done)
			if p, _, msg, _ := verifkit.Guard(fn); p {
				obs(name, "panicked", msg)
			}
		}()
		select {
		case <-done:
		case <-time.After(10 * time.Second):
			obs(name, "blocked", "the probe did not return within 10s")
		}
	}
	vs := []tmconsensus.ValidatorSet{genValSet(rng)}

	guard("actionstore.empty-signature-second-prevote", func() {
		s := tmstore.ActionStore(tmmemstore.NewActionStore())
		k := genKey(rng)
		vt := tmconsensus.VoteTarget{Height: 3, Round: 1, BlockHash: "a"}
		e1 := s.SavePrevoteAction(bg, k, vt, nil)
		vt.BlockHash = "b"
		e2 := s.SavePrevoteAction(bg, k, vt, []byte("sig2"))
		if e1 == nil && e2 == nil {
			obs("actionstore.empty-signature-second-prevote", "second-accepted", "SavePrevoteAction(sig=nil) then SavePrevoteAction for another block at the same height/round: both returned nil (presence is tracked by signature != \"\")")
		} else {
			obs("actionstore.empty-signature-second-prevote", "refused", fmt.Sprintf("first=%q second=%q", cErr(e1), cErr(e2)))
		}
	})
	guard("actionstore.height-zero-second-proposal", func() {
		s := tmstore.ActionStore(tmmemstore.NewActionStore())
		k := genKey(rng)
		e1 := s.SaveProposedHeaderAction(bg, genPH(rng, 0, 0, rb(rng, 8), k, "e1", vs))
		e2 := s.SaveProposedHeaderAction(bg, genPH(rng, 0, 0, rb(rng, 8), k, "e2", vs))
		if e1 == nil && e2 == nil {
			obs("actionstore.height-zero-second-proposal", "second-accepted", "two SaveProposedHeaderAction at height 0 round 0 both returned nil (presence is tracked by Header.Height != 0)")
		} else {
			obs("actionstore.height-zero-second-proposal", "refused", fmt.Sprintf("first=%q second=%q", cErr(e1), cErr(e2)))
		}
	})
	guard("mirrorstore.voting-height-zero", func() {
		s := tmstore.MirrorStore(tmmemstore.NewMirrorStore())
		_ = s.SetNetworkHeightRound(bg, 0, 4, 0, 2)
		_, _, _, _, err := s.NetworkHeightRound(bg)
		if err != nil {
			obs("mirrorstore.voting-height-zero", "reads-uninitialized", "SetNetworkHeightRound(0,4,0,2) then NetworkHeightRound: "+cErr(err))
		} else {
			obs("mirrorstore.voting-height-zero", "reads-value", "")
		}
	})
	guard("statemachinestore.height-zero", func() {
		s := tmstore.StateMachineStore(tmmemstore.NewStateMachineStore())
		_ = s.SetStateMachineHeightRound(bg, 0, 4)
		_, _, err := s.StateMachineHeightRound(bg)
		if err != nil {
			obs("statemachinestore.height-zero", "reads-uninitialized", "SetStateMachineHeightRound(0,4) then StateMachineHeightRound: "+cErr(err))
		} else {
			obs("statemachinestore.height-zero", "reads-value", "")
		}
	})
	guard("validatorstore.caller-mutates-saved-keys", func() {
		s := tmstore.ValidatorStore(tmmemstore.NewValidatorStore(ownHashScheme{}))
		keys := []gcrypto.PubKey{genKey(rng), genKey(rng)}
		h, _ := s.SavePubKeys(bg, keys)
		keys[0] = genKey(rng)
		got, err := s.LoadPubKeys(bg, h)
		if err == nil && hashOfHexKeys(keysHex(got)) != hx([]byte(h)) {
			obs("validatorstore.caller-mutates-saved-keys", "store-aliases-input", "SavePubKeys keeps the caller's slice: after the caller overwrote keys[0], LoadPubKeys(hash) returns keys that no longer hash to it (SaveVotePowers clones)")
		} else {
			obs("validatorstore.caller-mutates-saved-keys", "isolated", "")
		}
	})
	guard("validatorstore.caller-mutates-loaded-powers", func() {
		s := tmstore.ValidatorStore(tmmemstore.NewValidatorStore(ownHashScheme{}))
		h, _ := s.SaveVotePowers(bg, []uint64{5, 6, 7})
		got, _ := s.LoadVotePowers(bg, h)
		if len(got) > 0 {
			got[0] = 99
		}
		again, err := s.LoadVotePowers(bg, h)
		if err == nil && hx(ownPowsHash(again)) != hx([]byte(h)) {
			obs("validatorstore.caller-mutates-loaded-powers", "store-aliases-output", "LoadVotePowers returns the internal slice: a caller writing to it changes what the next LoadVotePowers(hash) returns")
		} else {
			obs("validatorstore.caller-mutates-loaded-powers", "isolated", "")
		}
	})
	guard("roundstore.empty-proof-collection", func() {
		s := tmstore.RoundStore(tmmemstore.NewRoundStore())
		_ = s.OverwriteRoundPrevoteProofs(bg, 2, 0, tmconsensus.SparseSignatureCollection{PubKeyHash: []byte("x")})
		_, _, _, err := s.LoadRoundState(bg, 2, 0)
		obs("roundstore.empty-proof-collection", "load-"+errClass(cErr(err)), "OverwriteRoundPrevoteProofs with a collection without block signatures, then LoadRoundState")
	})
	guard("roundstore.replayed-header-saved-twice", func() {
		s := tmstore.RoundStore(tmmemstore.NewRoundStore())
		hdr := genHeader(rng, 2, []byte("hash-x"), "e", vs)
		e1 := s.SaveRoundReplayedHeader(bg, hdr)
		e2 := s.SaveRoundReplayedHeader(bg, hdr)
		_ = s.OverwriteRoundPrecommitProofs(bg, 2, 0, genSSC(rng, []string{"hash-x"}, "e"))
		phs, _, _, _ := s.LoadRoundState(bg, 2, 0)
		obs("roundstore.replayed-header-saved-twice", fmt.Sprintf("second-save-%s-listed-%dx", errClass(cErr(e2)), len(phs)), fmt.Sprintf("first save %q", cErr(e1)))
	})
}
