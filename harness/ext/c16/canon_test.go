package c16

// Canonical, deterministic renderings of the values the stores hold, and
// generators for arbitrary values. The renderings are the oracle's notion of
// "exactly what was saved": every field of a value is in its rendering, map
// keys are sorted, nil and empty byte strings are not distinguished (the
// interface documentation does not).

import (
	"crypto/sha256"
	"encoding/hex"
	"errors"
	"fmt"
	"math/rand/v2"
	"sort"
	"strings"

	"github.com/gordian-engine/gordian/gcrypto"
	"github.com/gordian-engine/gordian/tm/tmconsensus"
	"github.com/gordian-engine/gordian/tm/tmstore"
)

func hx(b []byte) string { return hex.EncodeToString(b) }

func cKey(k gcrypto.PubKey) (s string) {
	if k == nil {
		return "nil"
	}
	defer func() {
		if x := recover(); x != nil {
			s = fmt.Sprintf("unprintable-key(%v)", x)
		}
	}()
	b := k.PubKeyBytes()
	if len(b) == 0 {
		return "nil"
	}
	return k.TypeName() + ":" + hx(b)
}

func cSigs(ss []gcrypto.SparseSignature) string {
	var sb strings.Builder
	sb.WriteByte('[')
	for i, s := range ss {
		if i > 0 {
			sb.WriteByte(',')
		}
		sb.WriteString(hx(s.KeyID))
		sb.WriteByte(':')
		sb.WriteString(hx(s.Sig))
	}
	sb.WriteByte(']')
	return sb.String()
}

func cProofMap(m map[string][]gcrypto.SparseSignature) string {
	ks := make([]string, 0, len(m))
	for k := range m {
		ks = append(ks, k)
	}
	sort.Strings(ks)
	var sb strings.Builder
	sb.WriteByte('{')
	for i, k := range ks {
		if i > 0 {
			sb.WriteByte(';')
		}
		sb.WriteString(hx([]byte(k)))
		sb.WriteString("=>")
		sb.WriteString(cSigs(m[k]))
	}
	sb.WriteByte('}')
	return sb.String()
}

func cCommitProof(p tmconsensus.CommitProof) string {
	return fmt.Sprintf("cp{r=%d,pkh=%s,proofs=%s}", p.Round, hx([]byte(p.PubKeyHash)), cProofMap(p.Proofs))
}

// cValSet renders what ValidatorSet.Equal compares (validators and the two
// hashes). The PubKeys field is derived data and is not judged.
func cValSet(v tmconsensus.ValidatorSet) string {
	var sb strings.Builder
	fmt.Fprintf(&sb, "vs{pkh=%s,vph=%s,vals=[", hx(v.PubKeyHash), hx(v.VotePowerHash))
	for i, val := range v.Validators {
		if i > 0 {
			sb.WriteByte(',')
		}
		fmt.Fprintf(&sb, "%s/%d", cKey(val.PubKey), val.Power)
	}
	sb.WriteString("]}")
	return sb.String()
}

func cAnn(a tmconsensus.Annotations) string {
	return fmt.Sprintf("ann{u=%s,d=%s}", hx(a.User), hx(a.Driver))
}

func cHeader(h tmconsensus.Header) string {
	return fmt.Sprintf("hdr{hash=%s,prev=%s,h=%d,pcp=%s,vs=%s,nvs=%s,data=%s,pash=%s,%s}",
		hx(h.Hash), hx(h.PrevBlockHash), h.Height, cCommitProof(h.PrevCommitProof),
		cValSet(h.ValidatorSet), cValSet(h.NextValidatorSet), hx(h.DataID), hx(h.PrevAppStateHash), cAnn(h.Annotations))
}

func cPH(ph tmconsensus.ProposedHeader) string {
	return fmt.Sprintf("ph{%s,r=%d,pk=%s,%s,sig=%s}", cHeader(ph.Header), ph.Round, cKey(ph.ProposerPubKey), cAnn(ph.Annotations), hx(ph.Signature))
}

func cCH(ch tmconsensus.CommittedHeader) string {
	return fmt.Sprintf("ch{%s,%s}", cHeader(ch.Header), cCommitProof(ch.Proof))
}

func cSSC(c tmconsensus.SparseSignatureCollection) string {
	return fmt.Sprintf("ssc{pkh=%s,sigs=%s}", hx(c.PubKeyHash), cProofMap(c.BlockSignatures))
}

var (
	zeroPH  = cPH(tmconsensus.ProposedHeader{})
	zeroSSC = cSSC(tmconsensus.SparseSignatureCollection{})
)

// cErr renders an error as the list of documented error values it matches
// (errors.As, so wrapped and joined errors are seen), or "other:<text>".
// The empty string is the nil error.
func cErr(err error) string {
	if err == nil {
		return ""
	}
	var parts []string
	var e1 tmstore.DoubleActionError
	if errors.As(err, &e1) {
		parts = append(parts, eDouble(e1.Type))
	}
	var e2 tmstore.PubKeyChangedError
	if errors.As(err, &e2) {
		parts = append(parts, ePubKeyChanged(e2.ActionType, hx([]byte(e2.Want)), hx([]byte(e2.Got))))
	}
	var e3 tmstore.OverwriteError
	if errors.As(err, &e3) {
		parts = append(parts, eOverwrite(e3.Field, e3.Value))
	}
	var e4 tmstore.FinalizationOverwriteError
	if errors.As(err, &e4) {
		parts = append(parts, eFinOverwrite(e4.Height))
	}
	if errors.Is(err, tmstore.ErrStoreUninitialized) {
		parts = append(parts, eUninit)
	}
	var e5 tmconsensus.RoundUnknownError
	if errors.As(err, &e5) {
		parts = append(parts, eRoundUnknown(e5.WantHeight, e5.WantRound))
	}
	var e6 tmconsensus.HeightUnknownError
	if errors.As(err, &e6) {
		parts = append(parts, eHeightUnknown(e6.Want))
	}
	var e7 tmstore.PubKeysAlreadyExistError
	if errors.As(err, &e7) {
		parts = append(parts, eKeysExist(hx([]byte(e7.ExistingHash))))
	}
	var e8 tmstore.VotePowersAlreadyExistError
	if errors.As(err, &e8) {
		parts = append(parts, ePowsExist(hx([]byte(e8.ExistingHash))))
	}
	var e9 tmstore.NoPubKeyHashError
	if errors.As(err, &e9) {
		parts = append(parts, eNoKeys(hx([]byte(e9.Want))))
	}
	var e10 tmstore.NoVotePowerHashError
	if errors.As(err, &e10) {
		parts = append(parts, eNoPows(hx([]byte(e10.Want))))
	}
	var e11 tmstore.PubKeyPowerCountMismatchError
	if errors.As(err, &e11) {
		parts = append(parts, eCountMismatch(e11.NPubKeys, e11.NVotePower))
	}
	if len(parts) == 0 {
		msg := err.Error()
		if len(msg) > 200 {
			msg = msg[:200]
		}
		return "other:" + msg
	}
	sort.Strings(parts)
	return strings.Join(parts, "+")
}

const eUninit = "ErrStoreUninitialized"

func eDouble(typ string) string { return "DoubleActionError{" + typ + "}" }
func ePubKeyChanged(typ, want, got string) string {
	return "PubKeyChangedError{" + typ + ",want=" + want + ",got=" + got + "}"
}
func eOverwrite(field, value string) string { return "OverwriteError{" + field + "=" + value + "}" }
func eFinOverwrite(h uint64) string        { return fmt.Sprintf("FinalizationOverwriteError{%d}", h) }
func eRoundUnknown(h uint64, r uint32) string {
	return fmt.Sprintf("RoundUnknownError{%d/%d}", h, r)
}
func eHeightUnknown(h uint64) string { return fmt.Sprintf("HeightUnknownError{%d}", h) }
func eKeysExist(h string) string     { return "PubKeysAlreadyExistError{" + h + "}" }
func ePowsExist(h string) string     { return "VotePowersAlreadyExistError{" + h + "}" }
func eNoKeys(h string) string        { return "NoPubKeyHashError{" + h + "}" }
func eNoPows(h string) string        { return "NoVotePowerHashError{" + h + "}" }
func eCountMismatch(n, m int) string {
	return fmt.Sprintf("PubKeyPowerCountMismatchError{%d,%d}", n, m)
}

// errClass strips the arguments: "DoubleActionError{prevote}" -> "DoubleActionError".
func errClass(e string) string {
	if e == "" {
		return "ok"
	}
	if strings.HasPrefix(e, "other:") {
		return "other"
	}
	var cs []string
	for _, p := range strings.Split(e, "+") {
		if i := strings.IndexByte(p, '{'); i >= 0 {
			p = p[:i]
		}
		cs = append(cs, p)
	}
	return strings.Join(cs, "+")
}

// ---------------------------------------------------------------------------
// value generators

func rb(rng *rand.Rand, n int) []byte {
	b := make([]byte, n)
	for i := range b {
		b[i] = byte(rng.UintN(256))
	}
	return b
}

func pick[T any](rng *rand.Rand, xs []T) T { return xs[rng.IntN(len(xs))] }

func genKey(rng *rand.Rand) gcrypto.PubKey { return gcrypto.Ed25519PubKey(rb(rng, 32)) }

func genValSet(rng *rand.Rand) tmconsensus.ValidatorSet {
	n := 1 + rng.IntN(3)
	vs := tmconsensus.ValidatorSet{
		PubKeyHash:    rb(rng, 32),
		VotePowerHash: rb(rng, 32),
	}
	for i := 0; i < n; i++ {
		k := genKey(rng)
		vs.Validators = append(vs.Validators, tmconsensus.Validator{PubKey: k, Power: rng.Uint64() >> rng.UintN(64)})
		vs.PubKeys = append(vs.PubKeys, k)
	}
	return vs
}

func genSigs(rng *rand.Rand, tag string) []gcrypto.SparseSignature {
	n := 1 + rng.IntN(2)
	out := make([]gcrypto.SparseSignature, n)
	for i := range out {
		out[i] = gcrypto.SparseSignature{
			KeyID: rb(rng, 1+rng.IntN(3)),
			Sig:   append([]byte(tag+"#"), rb(rng, 8)...),
		}
	}
	return out
}

func genCommitProof(rng *rand.Rand, tag string) tmconsensus.CommitProof {
	p := tmconsensus.CommitProof{Round: rng.Uint32() >> rng.UintN(32), PubKeyHash: string(rb(rng, 8))}
	switch rng.IntN(4) {
	case 0: // initial height: no proofs
	default:
		p.Proofs = map[string][]gcrypto.SparseSignature{}
		for i, n := 0, 1+rng.IntN(2); i < n; i++ {
			h := ""
			if i > 0 || rng.IntN(2) == 0 {
				h = string(rb(rng, 8))
			}
			p.Proofs[h] = genSigs(rng, tag)
		}
	}
	return p
}

// genHeader builds an arbitrary header with the given height and hash; the
// unique tag of the write goes into DataID.
func genHeader(rng *rand.Rand, height uint64, hash []byte, tag string, valsets []tmconsensus.ValidatorSet) tmconsensus.Header {
	h := tmconsensus.Header{
		Hash:             hash,
		PrevBlockHash:    rb(rng, 8),
		Height:           height,
		PrevCommitProof:  genCommitProof(rng, tag),
		ValidatorSet:     pick(rng, valsets),
		NextValidatorSet: pick(rng, valsets),
		DataID:           []byte(tag),
		PrevAppStateHash: rb(rng, 8),
	}
	if rng.IntN(2) == 0 {
		h.Annotations.User = rb(rng, 4)
	}
	if rng.IntN(3) == 0 {
		h.Annotations.Driver = rb(rng, 4)
	}
	return h
}

func genPH(rng *rand.Rand, height uint64, round uint32, hash []byte, proposer gcrypto.PubKey, tag string, valsets []tmconsensus.ValidatorSet) tmconsensus.ProposedHeader {
	ph := tmconsensus.ProposedHeader{
		Header:         genHeader(rng, height, hash, tag, valsets),
		Round:          round,
		ProposerPubKey: proposer,
		Signature:      append([]byte(tag+"#"), rb(rng, 8)...),
	}
	if rng.IntN(2) == 0 {
		ph.Annotations.User = rb(rng, 4)
	}
	return ph
}

// genSSC builds a non-empty sparse signature collection voting for the given
// block hashes ("" is nil).
func genSSC(rng *rand.Rand, hashes []string, tag string) tmconsensus.SparseSignatureCollection {
	c := tmconsensus.SparseSignatureCollection{
		PubKeyHash:      rb(rng, 8),
		BlockSignatures: map[string][]gcrypto.SparseSignature{},
	}
	for _, h := range hashes {
		c.BlockSignatures[h] = genSigs(rng, tag)
	}
	return c
}

var edgeHeights = []uint64{1, 2, 3, 7, 1 << 32, 1<<63 + 5, ^uint64(0) - 1, ^uint64(0)}
var edgeRounds = []uint32{0, 1, 2, 5, 1 << 31, ^uint32(0)}

// distinctHeights draws n distinct heights, small and extreme ones mixed.
func distinctHeights(rng *rand.Rand, n int, allowZero bool) []uint64 {
	seen := map[uint64]bool{}
	var out []uint64
	for len(out) < n {
		h := pick(rng, edgeHeights)
		if allowZero && rng.IntN(6) == 0 {
			h = 0
		}
		if !seen[h] {
			seen[h] = true
			out = append(out, h)
		}
	}
	return out
}

// ---------------------------------------------------------------------------
// the harness's own hash scheme for the validator store: SHA-256 over an
// unambiguous rendering. The store is parameterised by a HashScheme, so the
// oracle can recompute every hash without touching gordian code.

type ownHashScheme struct{}

func (ownHashScheme) Block(tmconsensus.Header) ([]byte, error) {
	return nil, errors.New("c16: Block hashing is not used by the validator store")
}

func ownKeysHash(keys [][]byte) []byte {
	h := sha256.New()
	h.Write([]byte("keys"))
	for _, k := range keys {
		fmt.Fprintf(h, "|%d:", len(k))
		h.Write(k)
	}
	return h.Sum(nil)
}

func ownPowsHash(pows []uint64) []byte {
	h := sha256.New()
	h.Write([]byte("pows"))
	for _, p := range pows {
		fmt.Fprintf(h, "|%d", p)
	}
	return h.Sum(nil)
}

func (ownHashScheme) PubKeys(keys []gcrypto.PubKey) ([]byte, error) {
	bs := make([][]byte, len(keys))
	for i, k := range keys {
		bs[i] = k.PubKeyBytes()
	}
	return ownKeysHash(bs), nil
}

func (ownHashScheme) VotePowers(pows []uint64) ([]byte, error) {
	return ownPowsHash(pows), nil
}
