package c14

import (
	"bytes"
	"crypto/sha256"
	"encoding/base64"
	"encoding/hex"
	"encoding/json"
	"errors"
	"fmt"
	"math/rand/v2"
	"sort"
	"strings"
	"testing"

	"github.com/gordian-engine/gordian/gcrypto"
	"github.com/gordian-engine/gordian/tm/tmcodec"
	"github.com/gordian-engine/gordian/tm/tmcodec/tmjson"
	"github.com/gordian-engine/gordian/tm/tmconsensus"
	"verif/ext/verifkit"
)

// ---------------------------------------------------------------------------
// Witness dumps (hex everywhere, so the value can be rebuilt by hand).

func dumpSigs(s []gcrypto.SparseSignature) any {
	if s == nil {
		return nil
	}
	out := make([]map[string]any, len(s))
	for i, x := range s {
		out[i] = map[string]any{"KeyID": hexOrNil(x.KeyID), "Sig": hexOrNil(x.Sig)}
	}
	return out
}

func hexOrNil(b []byte) any {
	if b == nil {
		return nil
	}
	return hex.EncodeToString(b)
}

func dumpProofMap(m map[string][]gcrypto.SparseSignature) any {
	if m == nil {
		return nil
	}
	out := map[string]any{}
	for k, v := range m {
		out[hex.EncodeToString([]byte(k))] = dumpSigs(v)
	}
	return out
}

func dumpCommitProof(p tmconsensus.CommitProof) any {
	return map[string]any{"Round": p.Round, "PubKeyHash": hex.EncodeToString([]byte(p.PubKeyHash)), "Proofs": dumpProofMap(p.Proofs)}
}

func dumpValSet(v tmconsensus.ValidatorSet) any {
	var vals any
	if v.Validators != nil {
		l := make([]map[string]any, len(v.Validators))
		for i, x := range v.Validators {
			l[i] = map[string]any{"type": x.PubKey.TypeName(), "key": hex.EncodeToString(x.PubKey.PubKeyBytes()), "power": fmt.Sprint(x.Power)}
		}
		vals = l
	}
	return map[string]any{"Validators": vals, "PubKeyHash": hexOrNil(v.PubKeyHash), "VotePowerHash": hexOrNil(v.VotePowerHash)}
}

func dumpHeader(h tmconsensus.Header) any {
	return map[string]any{
		"Hash": hexOrNil(h.Hash), "PrevBlockHash": hexOrNil(h.PrevBlockHash), "Height": fmt.Sprint(h.Height),
		"PrevCommitProof": dumpCommitProof(h.PrevCommitProof),
		"ValidatorSet":    dumpValSet(h.ValidatorSet), "NextValidatorSet": dumpValSet(h.NextValidatorSet),
		"DataID": hexOrNil(h.DataID), "PrevAppStateHash": hexOrNil(h.PrevAppStateHash),
		"UserAnnotation": hexOrNil(h.Annotations.User), "DriverAnnotation": hexOrNil(h.Annotations.Driver),
	}
}

func dumpPH(p tmconsensus.ProposedHeader) any {
	m := map[string]any{
		"Header": dumpHeader(p.Header), "Round": p.Round, "Signature": hexOrNil(p.Signature),
		"UserAnnotation": hexOrNil(p.Annotations.User), "DriverAnnotation": hexOrNil(p.Annotations.Driver),
	}
	if p.ProposerPubKey != nil {
		m["ProposerPubKey"] = p.ProposerPubKey.TypeName() + ":" + hex.EncodeToString(p.ProposerPubKey.PubKeyBytes())
	}
	return m
}

func dumpSparse(h uint64, rd uint32, pkh string, m map[string][]gcrypto.SparseSignature) any {
	return map[string]any{"Height": fmt.Sprint(h), "Round": rd, "PubKeyHash": hex.EncodeToString([]byte(pkh)), "Proofs": dumpProofMap(m)}
}

// ---------------------------------------------------------------------------
// Round trip.

type rtCtx struct {
	r      *verifkit.Run
	mc     tmjson.MarshalCodec
	caseID string
	encs   [][]byte

	// reuse: decode into the value the previous decode of that type left behind (one variable
	// used across a receive loop) instead of into a zero value
	reuse  bool
	prevH  tmconsensus.Header
	prevPH tmconsensus.ProposedHeader
	prevCH tmconsensus.CommittedHeader
	prevPV tmconsensus.PrevoteSparseProof
	prevPC tmconsensus.PrecommitSparseProof
	prevCM tmcodec.ConsensusMessage
}

// do runs marshal+unmarshal under Guard and reports marshal/unmarshal errors and panics.
// It returns the encoding and true when the decoded value is ready to compare.
func (c *rtCtx) do(kind string, orig any, marshal func() ([]byte, error), unmarshal func([]byte) error) ([]byte, bool) {
	var enc []byte
	var err error
	if p, key, msg, stack := verifkit.Guard(func() { enc, err = marshal() }); p {
		c.r.Violate(key, "Marshal"+kind+" panicked on a well-formed value: "+msg, c.caseID,
			map[string]any{"kind": kind, "original": orig, "stack": stack})
		return nil, false
	}
	if err != nil {
		c.r.Violate("C14:marshal-error:"+kind, "Marshal"+kind+" returned an error for a well-formed value: "+err.Error(), c.caseID,
			map[string]any{"kind": kind, "original": orig})
		return nil, false
	}
	c.encs = append(c.encs, enc)
	if p, key, msg, stack := verifkit.Guard(func() { err = unmarshal(enc) }); p {
		c.r.Violate(key, "Unmarshal"+kind+" panicked on the encoder's own output: "+msg, c.caseID,
			map[string]any{"kind": kind, "original": orig, "encoded": string(enc), "stack": stack})
		return enc, false
	}
	if err != nil {
		c.r.Violate("C14:unmarshal-error-on-own-output:"+kind+":"+verifkit.Normalize(err.Error()),
			"Unmarshal"+kind+" rejected the encoder's own output: "+err.Error(), c.caseID,
			map[string]any{"kind": kind, "original": orig, "encoded": string(enc)})
		return enc, false
	}
	return enc, true
}

func (c *rtCtx) judge(kind string, orig any, enc []byte, d diffs) {
	if len(d) == 0 {
		return
	}
	if len(d) > 12 {
		d = d[:12]
	}
	c.r.Violate("C14:roundtrip:"+kind+":"+diffClass(d),
		fmt.Sprintf("Unmarshal%s(Marshal%s(x)) != x: %s", kind, kind, d[0]), c.caseID,
		map[string]any{"kind": kind, "original": orig, "encoded": string(enc), "differences": []string(d)})
}

func (c *rtCtx) header(kind string, h tmconsensus.Header) {
	var got tmconsensus.Header
	if c.reuse {
		got = c.prevH
		defer func() { c.prevH = got }()
	}
	enc, ok := c.do(kind, dumpHeader(h),
		func() ([]byte, error) { return c.mc.MarshalHeader(h) },
		func(b []byte) error { return c.mc.UnmarshalHeader(b, &got) })
	if !ok {
		return
	}
	var d diffs
	cmpHeader(&d, "Header", h, got)
	cmpHeaderHash(&d, "Header", h, got)
	c.judge(kind, dumpHeader(h), enc, d)
}

func (c *rtCtx) proposed(ph tmconsensus.ProposedHeader) {
	var got tmconsensus.ProposedHeader
	if c.reuse {
		got = c.prevPH
		defer func() { c.prevPH = got }()
	}
	enc, ok := c.do("ProposedHeader", dumpPH(ph),
		func() ([]byte, error) { return c.mc.MarshalProposedHeader(ph) },
		func(b []byte) error { return c.mc.UnmarshalProposedHeader(b, &got) })
	if !ok {
		return
	}
	var d diffs
	cmpProposedHeader(&d, ph, got)
	c.judge("ProposedHeader", dumpPH(ph), enc, d)
}

func (c *rtCtx) committed(ch tmconsensus.CommittedHeader) {
	var got tmconsensus.CommittedHeader
	if c.reuse {
		got = c.prevCH
		defer func() { c.prevCH = got }()
	}
	dump := map[string]any{"Header": dumpHeader(ch.Header), "Proof": dumpCommitProof(ch.Proof)}
	enc, ok := c.do("CommittedHeader", dump,
		func() ([]byte, error) { return c.mc.MarshalCommittedHeader(ch) },
		func(b []byte) error { return c.mc.UnmarshalCommittedHeader(b, &got) })
	if !ok {
		return
	}
	var d diffs
	cmpHeader(&d, "Header", ch.Header, got.Header)
	cmpHeaderHash(&d, "Header", ch.Header, got.Header)
	cmpCommitProof(&d, "Proof", ch.Proof, got.Proof)
	c.judge("CommittedHeader", dump, enc, d)
}

func cmpPrevote(d *diffs, a, b tmconsensus.PrevoteSparseProof) {
	if a.Height != b.Height {
		d.add("Height", "%d != %d", a.Height, b.Height)
	}
	if a.Round != b.Round {
		d.add("Round", "%d != %d", a.Round, b.Round)
	}
	if a.PubKeyHash != b.PubKeyHash {
		d.add("PubKeyHash", "%x != %x", a.PubKeyHash, b.PubKeyHash)
	}
	cmpProofMap(d, "Proofs", a.Proofs, b.Proofs)
}

func cmpPrecommit(d *diffs, a, b tmconsensus.PrecommitSparseProof) {
	cmpPrevote(d, tmconsensus.PrevoteSparseProof(a), tmconsensus.PrevoteSparseProof(b))
}

func (c *rtCtx) prevote(p tmconsensus.PrevoteSparseProof) {
	var got tmconsensus.PrevoteSparseProof
	if c.reuse {
		got = c.prevPV
		defer func() { c.prevPV = got }()
	}
	dump := dumpSparse(p.Height, p.Round, p.PubKeyHash, p.Proofs)
	enc, ok := c.do("PrevoteProof", dump,
		func() ([]byte, error) { return c.mc.MarshalPrevoteProof(p) },
		func(b []byte) error { return c.mc.UnmarshalPrevoteProof(b, &got) })
	if !ok {
		return
	}
	var d diffs
	cmpPrevote(&d, p, got)
	c.judge("PrevoteProof", dump, enc, d)
}

func (c *rtCtx) precommit(p tmconsensus.PrecommitSparseProof) {
	var got tmconsensus.PrecommitSparseProof
	if c.reuse {
		got = c.prevPC
		defer func() { c.prevPC = got }()
	}
	dump := dumpSparse(p.Height, p.Round, p.PubKeyHash, p.Proofs)
	enc, ok := c.do("PrecommitProof", dump,
		func() ([]byte, error) { return c.mc.MarshalPrecommitProof(p) },
		func(b []byte) error { return c.mc.UnmarshalPrecommitProof(b, &got) })
	if !ok {
		return
	}
	var d diffs
	cmpPrecommit(&d, p, got)
	c.judge("PrecommitProof", dump, enc, d)
}

func (c *rtCtx) message(m tmcodec.ConsensusMessage) {
	want := variantOf(m)
	kind := "ConsensusMessage/" + want
	var dump any
	switch {
	case m.ProposedHeader != nil:
		dump = dumpPH(*m.ProposedHeader)
	case m.PrevoteProof != nil:
		dump = dumpSparse(m.PrevoteProof.Height, m.PrevoteProof.Round, m.PrevoteProof.PubKeyHash, m.PrevoteProof.Proofs)
	default:
		dump = dumpSparse(m.PrecommitProof.Height, m.PrecommitProof.Round, m.PrecommitProof.PubKeyHash, m.PrecommitProof.Proofs)
	}
	var got tmcodec.ConsensusMessage
	if c.reuse {
		got = c.prevCM
		defer func() { c.prevCM = got }()
	}
	enc, ok := c.do(kind, dump,
		func() ([]byte, error) { return c.mc.MarshalConsensusMessage(m) },
		func(b []byte) error { return c.mc.UnmarshalConsensusMessage(b, &got) })
	if !ok {
		return
	}
	if v := variantOf(got); v != want {
		c.r.Violate("C14:consensus-message-variant:"+want+"->"+v,
			fmt.Sprintf("a ConsensusMessage encoded from variant %s decoded as %s", want, v), c.caseID,
			map[string]any{"original": dump, "encoded": string(enc)})
		return
	}
	var d diffs
	switch {
	case m.ProposedHeader != nil:
		cmpProposedHeader(&d, *m.ProposedHeader, *got.ProposedHeader)
	case m.PrevoteProof != nil:
		cmpPrevote(&d, *m.PrevoteProof, *got.PrevoteProof)
	default:
		cmpPrecommit(&d, *m.PrecommitProof, *got.PrecommitProof)
	}
	c.judge(kind, dump, enc, d)
}

func TestVerif_C14_roundtrip(t *testing.T) {
	r := verifkit.Start("C14")
	if r == nil {
		t.Skip("not started by the /verif driver")
	}
	defer r.Finish()
	r.SetRule("Round trip: per case one PRNG-generated Header, ProposedHeader, CommittedHeader, prevote and precommit sparse proof and the three ConsensusMessage variants " +
		"(0-40 validators of ed25519, BLS or mixed keys; every byte field nil / empty / populated; commit and vote proofs as nil map, empty map or 1-5 entries incl. the nil-block entry, each with nil / empty / 1-6 signatures; " +
		"heights and rounds incl. 0, 2^53+1 and the maximum) encoded and decoded by tmjson.MarshalCodec; an independent comparer (nil == empty, signatures as multisets) plus SimpleHashScheme.Block and ProposalSignBytes equality judge the result. " +
		"Non-trivial = distinct case digests (SHA-256 over all eight encodings) whose eight values were all decoded and compared.")
	mc, _ := newCodec()
	blsKeys()
	n := r.N(3000, 100000)
	r.Parallel(n, func(i int) {
		rng := r.CaseRNG(i)
		c := &rtCtx{r: r, mc: mc, caseID: fmt.Sprintf("roundtrip/%d", i)}
		maxVals := 40
		if i%4 == 0 {
			maxVals = 5
		}
		h := genHeader(rng, maxVals)
		ph := genProposedHeader(rng, maxVals)
		ch := genCommittedHeader(rng, maxVals)
		pv := genPrevote(rng)
		pc := genPrecommit(rng)
		c.header("Header", h)
		c.proposed(ph)
		c.committed(ch)
		c.prevote(pv)
		c.precommit(pc)
		ph2 := genProposedHeader(rng, 6)
		c.message(tmcodec.ConsensusMessage{ProposedHeader: &ph2})
		pv2 := genPrevote(rng)
		c.message(tmcodec.ConsensusMessage{PrevoteProof: &pv2})
		pc2 := genPrecommit(rng)
		c.message(tmcodec.ConsensusMessage{PrecommitProof: &pc2})
		r.Eval(8)
		want := 8
		if i%2 == 1 {
			// a second value of every type, decoded into the variable the first decode filled
			// (one destination used across a receive loop)
			c.reuse = true
			c.prevH, c.prevPH, c.prevCH = h, ph, ch
			c.prevPV, c.prevPC = pv, pc
			c.prevCM = tmcodec.ConsensusMessage{PrevoteProof: &pv2}
			c.caseID = fmt.Sprintf("roundtrip/%d/into-used-destination", i)
			c.header("Header", genHeader(rng, 6))
			c.proposed(genProposedHeader(rng, 6))
			c.committed(genCommittedHeader(rng, 6))
			c.prevote(genPrevote(rng))
			c.precommit(genPrecommit(rng))
			pc3 := genPrecommit(rng)
			c.message(tmcodec.ConsensusMessage{PrecommitProof: &pc3})
			pv3 := genPrevote(rng)
			c.message(tmcodec.ConsensusMessage{PrevoteProof: &pv3})
			r.Eval(7)
			want = 15
		}

		if len(c.encs) == want {
			hs := sha256.New()
			for _, e := range c.encs {
				hs.Write(e)
				hs.Write([]byte{0})
			}
			r.Nontrivial("rt", hs.Sum(nil))
		}
		// what was generated
		cnt := map[string]int64{}
		for _, hh := range []tmconsensus.Header{h, ph.Header, ch.Header} {
			nv := len(hh.ValidatorSet.Validators)
			switch {
			case nv == 0:
				cnt["rt.headers.validators=0"]++
			case nv <= 4:
				cnt["rt.headers.validators=1-4"]++
			case nv <= 20:
				cnt["rt.headers.validators=5-20"]++
			default:
				cnt["rt.headers.validators=21-40"]++
			}
			if nv > 0 && hh.ValidatorSet.Validators[0].PubKey.TypeName() != "ed25519" {
				cnt["rt.headers.first_key_bls"]++
			}
			switch np := len(hh.PrevCommitProof.Proofs); {
			case hh.PrevCommitProof.Proofs == nil:
				cnt["rt.commitproof.nil_map"]++
			case np == 0:
				cnt["rt.commitproof.empty_map"]++
			case np == 1:
				cnt["rt.commitproof.1_entry"]++
			default:
				cnt["rt.commitproof.multi_entry"]++
			}
			for _, a := range [][]byte{hh.Annotations.User, hh.Annotations.Driver} {
				switch {
				case a == nil:
					cnt["rt.annotation.nil"]++
				case len(a) == 0:
					cnt["rt.annotation.empty"]++
				default:
					cnt["rt.annotation.populated"]++
				}
			}
		}
		if ph.ProposerPubKey == nil {
			cnt["rt.proposed.nil_proposer_key"]++
		}
		for k, v := range cnt {
			r.Count(k, v)
		}
		if i < 2 {
			r.Sample(map[string]any{"case": c.caseID, "prevote": dumpSparse(pv.Height, pv.Round, pv.PubKeyHash, pv.Proofs), "prevote_encoded": string(c.encs[min(3, len(c.encs)-1)])})
		}
	})
}

// ---------------------------------------------------------------------------
// Totality.

var methodNames = []string{"Header", "ProposedHeader", "CommittedHeader", "PrevoteProof", "PrecommitProof", "ConsensusMessage"}

type totCtx struct {
	r      *verifkit.Run
	mc     tmjson.MarshalCodec
	reg    *gcrypto.Registry
	caseNo int
	caseID string
	cnt    map[string]int64
	seen   map[string]struct{}
	buf    bytes.Buffer // rendered mutated document, reused (decoders copy what they keep)
	env    []byte
}

func (c *totCtx) render(n *jnode) []byte {
	c.buf.Reset()
	n.write(&c.buf)
	return c.buf.Bytes()
}

func callMethod(mc tmjson.MarshalCodec, m int, b []byte) error {
	switch m {
	case 0:
		var v tmconsensus.Header
		return mc.UnmarshalHeader(b, &v)
	case 1:
		var v tmconsensus.ProposedHeader
		return mc.UnmarshalProposedHeader(b, &v)
	case 2:
		var v tmconsensus.CommittedHeader
		return mc.UnmarshalCommittedHeader(b, &v)
	case 3:
		var v tmconsensus.PrevoteSparseProof
		return mc.UnmarshalPrevoteProof(b, &v)
	case 4:
		var v tmconsensus.PrecommitSparseProof
		return mc.UnmarshalPrecommitProof(b, &v)
	default:
		var v tmcodec.ConsensusMessage
		return mc.UnmarshalConsensusMessage(b, &v)
	}
}

func inputWitness(b []byte) map[string]any {
	w := map[string]any{"input_len": len(b)}
	if len(b) <= 1<<18 {
		w["input_hex"] = hex.EncodeToString(b)
		if json.Valid(b) || isPrintable(b) {
			w["input_text"] = string(b)
		}
	} else {
		w["input_head"] = string(b[:2048])
		w["input_tail"] = string(b[len(b)-512:])
		w["input_sha256"] = fmt.Sprintf("%x", sha256.Sum256(b))
	}
	return w
}

func isPrintable(b []byte) bool {
	for _, c := range b {
		if c < 0x20 || c > 0x7e {
			return false
		}
	}
	return true
}

// feed calls Unmarshal<method m> on b under Guard and classifies the outcome.
func (c *totCtx) feed(m int, class string, desc string, b []byte) {
	var err error
	p, key, msg, stack := verifkit.Guard(func() { err = callMethod(c.mc, m, b) })
	outcome := "ok"
	switch {
	case p:
		outcome = "panic"
		w := inputWitness(b)
		w["method"] = "Unmarshal" + methodNames[m]
		w["mutation"] = desc
		w["stack"] = stack
		c.r.Violate(key, fmt.Sprintf("Unmarshal%s panicked on %s input (%s): %s", methodNames[m], class, desc, msg), c.caseID, w)
	case err != nil:
		var se *json.SyntaxError
		var te *json.UnmarshalTypeError
		switch {
		case errors.As(err, &se) || strings.Contains(err.Error(), "unexpected end of JSON") || strings.Contains(err.Error(), "invalid character"):
			outcome = "json_syntax_error"
		case errors.As(err, &te) || strings.Contains(err.Error(), "illegal base64") || strings.Contains(err.Error(), "json:"):
			outcome = "json_value_error"
		default:
			outcome = "conversion_error"
		}
	}
	c.cnt["tot."+methodNames[m]+"."+outcome]++
	c.cnt["tot.inputs."+class]++
	if outcome == "ok" || outcome == "conversion_error" || outcome == "panic" {
		k := class + "/" + methodNames[m] + "/" + outcome
		if _, ok := c.seen[k]; !ok {
			c.seen[k] = struct{}{}
			c.r.Nontrivial("tot", c.caseNo, k)
		}
	}
	c.r.Eval(1)
}

func (c *totCtx) feedAll(class, desc string, b []byte) {
	for m := range methodNames {
		c.feed(m, class, desc, b)
	}
}

// feedKind feeds b to its native method; encodings of message kinds are also
// wrapped into a ConsensusMessage envelope.
func (c *totCtx) feedKind(kind int, class, desc string, b []byte) {
	c.feed(kind, class, desc, b)
	var field string
	switch kind {
	case 1:
		field = "ProposedHeader"
	case 3:
		field = "PrevoteProof"
	case 4:
		field = "PrecommitProof"
	default:
		return
	}
	env := append(c.env[:0], `{"`+field+`":`...)
	env = append(env, b...)
	env = append(env, '}')
	c.env = env
	c.feed(5, class, desc+" (in "+field+" envelope)", env)
}

func b64(b []byte) string { return base64.StdEncoding.EncodeToString(b) }

func keyPrefix(name string) []byte {
	p := make([]byte, 8)
	copy(p, name)
	return p
}

// hostileStrings are the replacements for every string (= base64 byte field).
func hostileStrings(rng *rand.Rand) []*jnode {
	out := []*jnode{str(""), str("!"), str("A"), str("AA"), str("AAA="), str("not base64 at all")}
	for n := 1; n <= 9; n++ {
		out = append(out, str(b64(rbytes(rng, n))))
	}
	ed, bls := keyPrefix("ed25519"), keyPrefix("bls-ms")
	out = append(out,
		str(b64(ed[:7])), str(b64(ed)), str(b64(append(append([]byte{}, ed...), 1))),
		str(b64(append(append([]byte{}, ed...), rbytes(rng, 31)...))),
		str(b64(append(append([]byte{}, ed...), rbytes(rng, 33)...))),
		str(b64(bls)), str(b64(append(append([]byte{}, bls...), rbytes(rng, 95)...))),
		str(b64(append(append([]byte{}, bls...), rbytes(rng, 96)...))),
		str(b64(append(append([]byte{}, bls...), make([]byte, 96)...))),
		str(b64(append(append([]byte{}, bls...), append([]byte{0xc0}, make([]byte, 95)...)...))), // compressed infinity
		str(b64(append(keyPrefix("unknown"), rbytes(rng, 32)...))),
		str(b64(append([]byte("ed25519!"), rbytes(rng, 32)...))),
	)
	return out
}

// keyNameFamily: the registered type names, all their prefixes, every zero-padding
// width, and extensions, as public key values (a decoder must not let a value that
// merely spells a type name through the prefix lookup).
func keyNameFamily(rng *rand.Rand) [][]byte {
	var out [][]byte
	for _, name := range []string{"ed25519", "bls-ms"} {
		for n := 1; n <= len(name); n++ {
			out = append(out, []byte(name[:n]))
		}
		for w := len(name) + 1; w <= 10; w++ { // name zero-padded to every width around the 8-byte prefix
			p := make([]byte, w)
			copy(p, name)
			out = append(out, p)
		}
		out = append(out,
			append([]byte(name), rbytes(rng, 1)...),  // name directly followed by payload, no padding
			append([]byte(name), rbytes(rng, 32)...), // same, 32-byte payload
			append(keyPrefix(name), rbytes(rng, 1)...),
			append(keyPrefix(name), rbytes(rng, 2)...),
			append(append([]byte(name), 0), rbytes(rng, 32)...),    // one padding byte short/long
			append(append([]byte{0}, name...), rbytes(rng, 32)...), // leading zero
			append([]byte(strings.ToUpper(name)+"\x00"), rbytes(rng, 32)...),
		)
	}
	return out
}

var hostileNumbers = []string{"0", "-1", "-0", "1", "100000", "4294967295", "4294967296", "18446744073709551615", "18446744073709551616",
	"1.5", "1e3", "1e400", "1E-400", "9223372036854775808", "00", "0x10", "+1", "NaN"}

func (c *totCtx) mutateTree(kind int, enc []byte, rng *rand.Rand, huge bool) {
	root, err := parseJSON(enc)
	if err != nil {
		c.r.Inconclusive("harness: cannot tokenize the encoder's output: %v", err)
		return
	}
	var slots []slot
	root.slots("$", &slots)
	hs := hostileStrings(rng)
	knf := keyNameFamily(rng)
	try := func(s slot, desc string, repl *jnode) {
		old := s.parent.vals[s.idx]
		s.parent.vals[s.idx] = repl
		c.feedKind(kind, "field-mutation", s.path+" := "+desc, c.render(root))
		s.parent.vals[s.idx] = old
	}
	for _, s := range slots {
		old := s.parent.vals[s.idx]
		p := s.parent
		// null, type confusion
		try(s, "null", raw("null"))
		if old.kind != 's' {
			try(s, `"AAAA"`, str("AAAA"))
		}
		if old.kind != 'n' {
			try(s, "7", raw("7"))
		}
		if old.kind != 'o' {
			try(s, "{}", raw("{}"))
		}
		if old.kind != 'a' {
			try(s, "[]", raw("[]"))
		}
		try(s, "true", raw("true"))
		// delete
		{
			keys, vals := p.keys, p.vals
			if p.kind == 'o' {
				p.keys = append(append([]string{}, keys[:s.idx]...), keys[s.idx+1:]...)
			}
			p.vals = append(append([]*jnode{}, vals[:s.idx]...), vals[s.idx+1:]...)
			c.feedKind(kind, "field-mutation", s.path+" deleted", c.render(root))
			p.keys, p.vals = keys, vals
		}
		// duplicate (same value, null, and a lower-cased key: encoding/json matches keys case-insensitively)
		if p.kind == 'o' {
			keys, vals := p.keys, p.vals
			for _, dv := range []struct {
				d string
				k string
				v *jnode
			}{
				{"duplicated", keys[s.idx], old},
				{"duplicated with null", keys[s.idx], raw("null")},
				{"duplicated with \"\"", keys[s.idx], str("")},
				{"duplicated under lower-case key", strings.ToLower(keys[s.idx]), raw("{}")},
			} {
				p.keys = append(append([]string{}, keys...), dv.k)
				p.vals = append(append([]*jnode{}, vals...), dv.v)
				c.feedKind(kind, "field-mutation", s.path+" "+dv.d, c.render(root))
			}
			p.keys, p.vals = keys, vals
		} else {
			vals := p.vals
			p.vals = append(append([]*jnode{}, vals...), old)
			c.feedKind(kind, "field-mutation", s.path+" element duplicated", c.render(root))
			p.vals = vals
		}
		switch old.kind {
		case 's':
			for _, h := range hs {
				try(s, fmt.Sprintf("%q", h.text), h)
			}
			if strings.HasSuffix(s.path, "PubKey") { // .PubKey of validators, .ProposerPubKey
				for _, kb := range knf {
					try(s, fmt.Sprintf("key bytes %q", kb), str(b64(kb)))
				}
				c.cnt["tot.key-field-slots"]++
			}
		case 'n':
			for _, h := range hostileNumbers {
				try(s, h, raw(h))
			}
		case 'a':
			for _, h := range []string{"[null]", "[{}]", "[[]]", `["AAAA"]`, "[7]", "[{},null,{}]"} {
				try(s, h, raw(h))
			}
			if huge {
				elem := raw("{}")
				if len(old.vals) > 0 {
					elem = old.vals[0]
				}
				old2 := s.parent.vals[s.idx]
				for _, hv := range []struct {
					d string
					e *jnode
					n int
				}{{"first element x 100000", elem, 100000}, {"{} x 20000", raw("{}"), 20000}, {"null x 20000", raw("null"), 20000}} {
					s.parent.vals[s.idx] = repeat(hv.e, hv.n)
					c.feedKind(kind, "huge-count", s.path+" := "+hv.d, c.render(root))
				}
				s.parent.vals[s.idx] = old2
			}
		case 'o':
			try(s, `{"":null}`, raw(`{"":null}`))
		}
	}
	c.cnt["tot.slots"] += int64(len(slots))
}

func (c *totCtx) truncations(kind int, enc []byte, rng *rand.Rand) {
	if len(enc) <= 4096 {
		for k := 0; k < len(enc); k++ {
			c.feedKind(kind, "truncation", fmt.Sprintf("first %d of %d bytes", k, len(enc)), enc[:k])
		}
		c.cnt["tot.truncated_at_every_byte"]++
		return
	}
	for j := 0; j < 256; j++ {
		k := rng.IntN(len(enc))
		c.feedKind(kind, "truncation", fmt.Sprintf("first %d of %d bytes", k, len(enc)), enc[:k])
	}
}

func (c *totCtx) bitflips(kind int, enc []byte, rng *rand.Rand) {
	if len(enc) == 0 {
		return
	}
	for j := 0; j < 96; j++ {
		b := append([]byte{}, enc...)
		flips := 1
		if j >= 64 {
			flips = 2 + rng.IntN(6)
		}
		var d []string
		for f := 0; f < flips; f++ {
			pos, bit := rng.IntN(len(b)), rng.UintN(8)
			b[pos] ^= 1 << bit
			d = append(d, fmt.Sprintf("%d.%d", pos, bit))
		}
		c.feedKind(kind, "bit-flip", "bits "+strings.Join(d, ","), b)
	}
	// byte deletions / insertions / swaps of structural characters
	for j := 0; j < 32; j++ {
		b := append([]byte{}, enc...)
		pos := rng.IntN(len(b))
		switch rng.UintN(3) {
		case 0:
			b = append(b[:pos], b[pos+1:]...)
		case 1:
			ins := []byte(`{}[]",:0n\`)[rng.IntN(10)]
			b = append(b[:pos], append([]byte{ins}, b[pos:]...)...)
		default:
			b[pos] = []byte(`{}[]",:0n\`)[rng.IntN(10)]
		}
		c.feedKind(kind, "byte-edit", fmt.Sprintf("edit at %d", pos), b)
	}
}

// Schema-guided hostile documents: the right field names with right or wrong
// value types and hostile contents, so that decoding gets past the JSON layer.
var schema = map[string][][2]string{
	"header": {{"Hash", "bytes"}, {"PrevBlockHash", "bytes"}, {"Height", "num"}, {"PrevCommitProof", "obj:commit"},
		{"ValidatorSet", "obj:valset"}, {"NextValidatorSet", "obj:valset"}, {"DataID", "bytes"}, {"PrevAppStateHash", "bytes"},
		{"UserAnnotation", "bytes"}, {"DriverAnnotation", "bytes"}},
	"commit": {{"Round", "num"}, {"PubKeyHash", "bytes"}, {"Commits", "arr:entry"}},
	"entry":  {{"BlockHash", "bytes"}, {"Signatures", "arr:sig"}},
	"sig":    {{"KeyID", "bytes"}, {"Sig", "bytes"}},
	"valset": {{"Validators", "arr:val"}, {"PubKeyHash", "bytes"}, {"VotePowerHash", "bytes"}},
	"val":    {{"PubKey", "key"}, {"Power", "num"}},
	"ph": {{"Header", "obj:header"}, {"Round", "num"}, {"ProposerPubKey", "key"}, {"Signature", "bytes"},
		{"UserAnnotation", "bytes"}, {"DriverAnnotation", "bytes"}},
	"ch":     {{"Header", "obj:header"}, {"Proof", "obj:commit"}},
	"sparse": {{"Height", "num"}, {"Round", "num"}, {"PubKeyHash", "bytes"}, {"Proofs", "arr:entry"}},
	"cm":     {{"ProposedHeader", "obj:ph"}, {"PrevoteProof", "obj:sparse"}, {"PrecommitProof", "obj:sparse"}},
}

func genKeyString(rng *rand.Rand) *jnode {
	ed, bls := keyPrefix("ed25519"), keyPrefix("bls-ms")
	switch rng.UintN(9) {
	case 0:
		return str(b64(rbytes(rng, int(rng.UintN(8)))))
	case 1:
		return str(b64(append(ed, rbytes(rng, 32)...)))
	case 2:
		return str(b64(append(ed, rbytes(rng, int(rng.UintN(70)))...)))
	case 3:
		return str(b64(append(bls, rbytes(rng, 96)...)))
	case 4:
		p := blsKeys()
		return str(b64(append(bls, p[rng.IntN(len(p))].PubKeyBytes()...)))
	case 5:
		p := blsKeys()
		kb := append([]byte{}, p[rng.IntN(len(p))].PubKeyBytes()...)
		kb[rng.IntN(len(kb))] ^= 1 << rng.UintN(8)
		return str(b64(append(bls, kb...)))
	case 6:
		return str(b64(append(bls, rbytes(rng, int(rng.UintN(120)))...)))
	case 7:
		return str(b64(append(rbytes(rng, 8), rbytes(rng, 32)...)))
	default:
		return str(b64(rbytes(rng, int(rng.UintN(60)))))
	}
}

func genAny(rng *rand.Rand, depth int) *jnode {
	switch x := rng.UintN(10); {
	case x < 2:
		return raw([]string{"null", "true", "false"}[rng.IntN(3)])
	case x < 4:
		return raw(hostileNumbers[rng.IntN(len(hostileNumbers)-4)])
	case x < 6:
		return genKeyString(rng)
	case x < 8 && depth > 0:
		n := &jnode{kind: 'a'}
		for k := rng.IntN(4); k > 0; k-- {
			n.vals = append(n.vals, genAny(rng, depth-1))
		}
		return n
	case depth > 0:
		names := []string{"header", "commit", "entry", "sig", "valset", "val", "ph", "ch", "sparse", "cm"}
		return genSchema(rng, names[rng.IntN(len(names))], depth-1)
	}
	return str("")
}

func genSchema(rng *rand.Rand, name string, depth int) *jnode {
	n := &jnode{kind: 'o'}
	for _, f := range schema[name] {
		x := rng.UintN(100)
		if x < 12 {
			continue
		}
		key := f[0]
		if rng.UintN(20) == 0 {
			key = strings.ToLower(key)
		}
		var v *jnode
		switch {
		case x < 20:
			v = raw("null")
		case x < 28 || depth <= 0:
			v = genAny(rng, min(depth, 2))
		default:
			typ := f[1]
			switch {
			case typ == "bytes":
				if rng.UintN(4) == 0 {
					v = genKeyString(rng)
				} else {
					v = str(b64(rbytes(rng, int(rng.UintN(40)))))
				}
			case typ == "key":
				v = genKeyString(rng)
			case typ == "num":
				if rng.UintN(3) == 0 {
					v = raw(hostileNumbers[rng.IntN(len(hostileNumbers)-4)])
				} else {
					v = raw(fmt.Sprint(rng.Uint64() >> rng.UintN(64)))
				}
			case strings.HasPrefix(typ, "obj:"):
				v = genSchema(rng, typ[4:], depth-1)
			case strings.HasPrefix(typ, "arr:"):
				a := &jnode{kind: 'a'}
				for k := rng.IntN(4); k > 0; k-- {
					if rng.UintN(12) == 0 {
						a.vals = append(a.vals, genAny(rng, 1))
					} else {
						a.vals = append(a.vals, genSchema(rng, typ[4:], depth-1))
					}
				}
				v = a
			}
		}
		n.keys = append(n.keys, key)
		n.vals = append(n.vals, v)
		if rng.UintN(40) == 0 { // duplicate field
			n.keys = append(n.keys, key)
			n.vals = append(n.vals, genAny(rng, 1))
		}
	}
	return n
}

func (c *totCtx) randomInputs(rng *rand.Rand) {
	for j := 0; j < 24; j++ {
		c.feedAll("random-bytes", "uniform random bytes", rbytes(rng, int(rng.UintN(300))))
	}
	alphabet := []string{"{", "}", "[", "]", ":", ",", `"`, `"Header"`, `"PubKey"`, `"Validators"`, `"ValidatorSet"`, `"Commits"`, `"Proofs"`,
		`"Signatures"`, `"ProposedHeader"`, `"PrevoteProof"`, `"PrevCommitProof"`, `"PubKeyHash"`, `"AAAA"`, `""`, "null", "0", "1", "true", " ", "\n", "\\", "\x00", "\xff"}
	for j := 0; j < 24; j++ {
		var sb strings.Builder
		for k := rng.IntN(60); k > 0; k-- {
			sb.WriteString(alphabet[rng.IntN(len(alphabet))])
		}
		c.feedAll("random-bytes", "random JSON token soup", []byte(sb.String()))
	}
	tops := []string{"header", "ph", "ch", "sparse", "sparse", "cm"}
	for j := 0; j < 96; j++ {
		top := tops[rng.IntN(len(tops))]
		doc := genSchema(rng, top, 6).bytes()
		c.feedAll("random-document", "schema-guided random "+top+" document", doc)
	}
	for j := 0; j < 16; j++ {
		c.feedAll("random-document", "random JSON value", genAny(rng, 4).bytes())
	}
}

func (c *totCtx) registryInputs(rng *rand.Rand) {
	try := func(desc string, b []byte) {
		p, key, msg, stack := verifkit.Guard(func() { _, _ = c.reg.Unmarshal(b) })
		c.r.Eval(1)
		if p {
			c.cnt["tot.Registry.Unmarshal.panic"]++
			c.r.Violate(key, fmt.Sprintf("gcrypto.Registry.Unmarshal panicked on a %d-byte input (%s): %s", len(b), desc, msg), c.caseID,
				map[string]any{"method": "gcrypto.Registry.Unmarshal", "input_hex": hex.EncodeToString(b), "input_is_nil": b == nil, "stack": stack})
		} else {
			c.cnt["tot.Registry.Unmarshal.returned"]++
		}
		k := "registry/" + fmt.Sprint(min(len(b), 9))
		if _, ok := c.seen[k]; !ok {
			c.seen[k] = struct{}{}
			c.r.Nontrivial("tot", c.caseNo, k)
		}
	}
	try("nil", nil)
	for n := 0; n <= 16; n++ {
		try("zero bytes", make([]byte, n))
		try("random bytes", rbytes(rng, n))
		e := append(keyPrefix("ed25519"), rbytes(rng, 8)...)
		try("prefix of an ed25519 encoding", append([]byte{}, e[:n]...))
		b := append(keyPrefix("bls-ms"), rbytes(rng, 8)...)
		try("prefix of a bls-ms encoding", append([]byte{}, b[:n]...))
	}
	for _, kb := range keyNameFamily(rng) {
		try("registered type name family", kb)
	}
	for j := 0; j < 16; j++ {
		try("bls-ms prefix + random payload", append(keyPrefix("bls-ms"), rbytes(rng, 90+int(rng.UintN(12)))...))
		try("random bytes", rbytes(rng, int(rng.UintN(200))))
	}
}

func TestVerif_C14_totality(t *testing.T) {
	r := verifkit.Start("C14")
	if r == nil {
		t.Skip("not started by the /verif driver")
	}
	defer r.Finish()
	r.SetRule("Totality: per case six valid encodings (Header, ProposedHeader, CommittedHeader, prevote, precommit with 0-3 validators; every 32nd case up to 40) are " +
		"(a) truncated at every byte (<= 4 KiB, else 256 random cuts), (b) hit by 96 single/multi bit flips and 32 byte edits, (c) mutated at every JSON position: null, wrong type, deleted, duplicated (same/null/empty/lower-case key), " +
		"every string replaced by empty, invalid and 1-9-byte base64 and by short/odd ed25519 and bls-ms key encodings (every public-key field additionally by the registered type names, all their prefixes, every zero-padding width and unpadded extensions), every number by boundary/overflow/float literals, every array by degenerate arrays and (one encoding of every 16th case) 10^5 copies of an element; " +
		"message kinds are also fed through a ConsensusMessage envelope; (d) uniform random bytes, JSON token soup and schema-guided random documents go to all six Unmarshal methods; (e) gcrypto.Registry.Unmarshal gets every length 0-16 and random inputs. " +
		"Every call runs under recover; a panic is a violation keyed by panic site. Non-trivial = distinct (case, mutation class, method, outcome) where the decoder got past JSON parsing (value returned, conversion error, or panic).")
	mc, reg := newCodec()
	blsKeys()
	n := r.N(96, 2400)
	r.Parallel(n, func(i int) {
		rng := r.CaseRNG(i)
		c := &totCtx{r: r, mc: mc, reg: reg, caseNo: i, caseID: fmt.Sprintf("totality/%d", i), cnt: map[string]int64{}, seen: map[string]struct{}{}}
		r.BeginCase(c.caseID)
		maxVals := 3
		hugeKind := -1 // one encoding kind per 16th case gets the 10^5-element arrays
		if i%16 == 7 {
			hugeKind = (i / 16) % 5
		}
		if i%32 == 19 {
			maxVals = 40
		}
		type base struct {
			kind int
			enc  []byte
		}
		var bases []base
		add := func(kind int, f func() ([]byte, error)) {
			var enc []byte
			var err error
			if p, _, _, _ := verifkit.Guard(func() { enc, err = f() }); p || err != nil {
				return // judged by the round-trip sub-run
			}
			bases = append(bases, base{kind, enc})
		}
		keyMode := 0 // BLS keys cost a subgroup check per decode: every 4th case only
		if i%4 == 1 {
			keyMode = 1 + i/4%2
		}
		h := genHeaderMode(rng, maxVals, keyMode)
		ph := genProposedHeader(rng, maxVals)
		ph.Header = genHeaderMode(rng, maxVals, keyMode)
		if keyMode == 0 && ph.ProposerPubKey != nil {
			ph.ProposerPubKey = genPubKey(rng, 0)
		}
		ch := genCommittedHeader(rng, maxVals)
		ch.Header = genHeaderMode(rng, maxVals, keyMode)
		pv := genPrevote(rng)
		pc := genPrecommit(rng)
		add(0, func() ([]byte, error) { return mc.MarshalHeader(h) })
		add(1, func() ([]byte, error) { return mc.MarshalProposedHeader(ph) })
		add(2, func() ([]byte, error) { return mc.MarshalCommittedHeader(ch) })
		add(3, func() ([]byte, error) { return mc.MarshalPrevoteProof(pv) })
		add(4, func() ([]byte, error) { return mc.MarshalPrecommitProof(pc) })
		for _, b := range bases {
			c.truncations(b.kind, b.enc, rng)
			c.bitflips(b.kind, b.enc, rng)
			c.mutateTree(b.kind, b.enc, rng, b.kind == hugeKind)
		}
		c.randomInputs(rng)
		c.registryInputs(rng)
		ks := make([]string, 0, len(c.cnt))
		for k := range c.cnt {
			ks = append(ks, k)
		}
		sort.Strings(ks)
		for _, k := range ks {
			r.Count(k, c.cnt[k])
		}
		if i == 0 && len(bases) > 3 {
			r.Sample(map[string]any{"case": c.caseID, "base_prevote_encoding": string(bases[3].enc), "inputs_derived_from_this_case": c.cnt["tot.inputs.truncation"] + c.cnt["tot.inputs.field-mutation"] + c.cnt["tot.inputs.bit-flip"]})
		}
	})
}
