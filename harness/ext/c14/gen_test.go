package c14

import (
	"bytes"
	"crypto/sha256"
	"fmt"
	"math/rand/v2"
	"sort"
	"sync"

	"github.com/gordian-engine/gordian/gcrypto"
	"github.com/gordian-engine/gordian/gcrypto/gblsminsig"
	"github.com/gordian-engine/gordian/tm/tmcodec"
	"github.com/gordian-engine/gordian/tm/tmcodec/tmjson"
	"github.com/gordian-engine/gordian/tm/tmconsensus"
	"github.com/gordian-engine/gordian/tm/tmconsensus/tmconsensustest"
)

var (
	hashScheme = tmconsensustest.SimpleHashScheme{}
	sigScheme  = tmconsensustest.SimpleSignatureScheme{}
)

// newCodec builds the codec exactly as tmjson's own test does, plus BLS.
func newCodec() (tmjson.MarshalCodec, *gcrypto.Registry) {
	reg := new(gcrypto.Registry)
	gcrypto.RegisterEd25519(reg)
	gblsminsig.Register(reg)
	return tmjson.MarshalCodec{CryptoRegistry: reg}, reg
}

// A fixed pool of real BLS public keys (key generation is the only expensive
// part of value generation). The pool is a constant, so case lists remain a
// pure function of (seed, tier).
var (
	blsOnce sync.Once
	blsPool []gcrypto.PubKey
)

func blsKeys() []gcrypto.PubKey {
	blsOnce.Do(func() {
		for i := 0; i < 48; i++ {
			ikm := sha256.Sum256([]byte(fmt.Sprintf("verif-c14-bls-%d", i)))
			s, err := gblsminsig.NewSigner(ikm[:])
			if err != nil {
				panic(err)
			}
			blsPool = append(blsPool, s.PubKey())
		}
	})
	return blsPool
}

func rbytes(rng *rand.Rand, n int) []byte {
	b := make([]byte, n)
	for i := range b {
		b[i] = byte(rng.UintN(256))
	}
	return b
}

// optBytes draws a byte slice that is nil, empty-but-non-nil, or populated.
func optBytes(rng *rand.Rand, typical int) []byte {
	switch x := rng.UintN(100); {
	case x < 10:
		return nil
	case x < 20:
		return []byte{}
	case x < 75:
		return rbytes(rng, typical)
	default:
		return rbytes(rng, 1+int(rng.UintN(80)))
	}
}

func optString(rng *rand.Rand, typical int) string {
	switch x := rng.UintN(100); {
	case x < 12:
		return ""
	case x < 75:
		return string(rbytes(rng, typical))
	default:
		return string(rbytes(rng, 1+int(rng.UintN(80))))
	}
}

func genAnnotations(rng *rand.Rand) tmconsensus.Annotations {
	one := func() []byte {
		switch rng.UintN(4) {
		case 0:
			return nil
		case 1:
			return []byte{}
		case 2:
			return []byte("annotation-" + fmt.Sprint(rng.UintN(1000)))
		default:
			return rbytes(rng, 1+int(rng.UintN(60)))
		}
	}
	return tmconsensus.Annotations{User: one(), Driver: one()}
}

func genU64(rng *rand.Rand) uint64 {
	switch rng.UintN(6) {
	case 0:
		return 0
	case 1:
		return uint64(rng.UintN(10))
	case 2:
		return ^uint64(0)
	case 3:
		return 1 << 53 // beyond float64 exactness +1
	case 4:
		return (1 << 53) + 1
	default:
		return rng.Uint64() >> rng.UintN(64)
	}
}

func genU32(rng *rand.Rand) uint32 {
	switch rng.UintN(5) {
	case 0:
		return 0
	case 1:
		return uint32(rng.UintN(5))
	case 2:
		return ^uint32(0)
	default:
		return rng.Uint32() >> rng.UintN(32)
	}
}

func genPubKey(rng *rand.Rand, mode int) gcrypto.PubKey {
	useBLS := mode == 1 || (mode == 2 && rng.UintN(2) == 0)
	if useBLS {
		p := blsKeys()
		return p[rng.IntN(len(p))]
	}
	return gcrypto.Ed25519PubKey(rbytes(rng, 32))
}

func genNVals(rng *rand.Rand, maxVals int) int {
	if maxVals <= 0 {
		return 0
	}
	switch x := rng.UintN(100); {
	case x < 8:
		return 0
	case x < 50:
		return 1 + rng.IntN(min(4, maxVals))
	case x < 60:
		return maxVals
	default:
		return 1 + rng.IntN(maxVals)
	}
}

func genValSet(rng *rand.Rand, maxVals, mode int) tmconsensus.ValidatorSet {
	n := genNVals(rng, maxVals)
	if n == 0 {
		vs := tmconsensus.ValidatorSet{
			PubKeyHash:    optBytes(rng, 32),
			VotePowerHash: optBytes(rng, 32),
		}
		if rng.UintN(2) == 0 {
			vs.Validators = []tmconsensus.Validator{}
			vs.PubKeys = []gcrypto.PubKey{}
		}
		return vs
	}
	vals := make([]tmconsensus.Validator, n)
	for i := range vals {
		vals[i] = tmconsensus.Validator{PubKey: genPubKey(rng, mode), Power: genU64(rng)}
	}
	vs, err := tmconsensus.NewValidatorSet(vals, hashScheme)
	if err != nil {
		panic(err)
	}
	return vs
}

func genSigs(rng *rand.Rand) []gcrypto.SparseSignature {
	switch rng.UintN(8) {
	case 0:
		return nil
	case 1:
		return []gcrypto.SparseSignature{}
	}
	n := 1 + rng.IntN(6)
	out := make([]gcrypto.SparseSignature, n)
	for i := range out {
		var kid, sig []byte
		switch x := rng.UintN(10); {
		case x < 6:
			kid = []byte{byte(rng.UintN(256)), byte(rng.UintN(256))}
		case x < 7:
			kid = nil
		case x < 8:
			kid = []byte{}
		default:
			kid = rbytes(rng, 1+int(rng.UintN(12)))
		}
		switch x := rng.UintN(10); {
		case x < 6:
			sig = rbytes(rng, 64)
		case x < 7:
			sig = nil
		case x < 8:
			sig = []byte{}
		default:
			sig = rbytes(rng, 1+int(rng.UintN(100)))
		}
		out[i] = gcrypto.SparseSignature{KeyID: kid, Sig: sig}
	}
	return out
}

// genProofMap draws 0–5 proof entries: nil map, empty map, with or without
// the nil-block entry "".
func genProofMap(rng *rand.Rand) map[string][]gcrypto.SparseSignature {
	switch rng.UintN(10) {
	case 0:
		return nil
	case 1:
		return map[string][]gcrypto.SparseSignature{}
	}
	n := 1 + rng.IntN(5)
	m := make(map[string][]gcrypto.SparseSignature, n)
	if rng.UintN(3) == 0 {
		m[""] = genSigs(rng)
	}
	for len(m) < n {
		var k string
		if rng.UintN(4) == 0 {
			k = string(rbytes(rng, 1+int(rng.UintN(40))))
		} else {
			k = string(rbytes(rng, 32))
		}
		m[k] = genSigs(rng)
	}
	return m
}

func genCommitProof(rng *rand.Rand) tmconsensus.CommitProof {
	switch rng.UintN(10) {
	case 0:
		// The zero proof of an initial-height header.
		return tmconsensus.CommitProof{}
	case 1:
		// "a non-nil map at initial height is meaningful" (tmjson/json.go).
		return tmconsensus.CommitProof{Proofs: map[string][]gcrypto.SparseSignature{}}
	}
	return tmconsensus.CommitProof{
		Round:      genU32(rng),
		PubKeyHash: optString(rng, 32),
		Proofs:     genProofMap(rng),
	}
}

func genHeader(rng *rand.Rand, maxVals int) tmconsensus.Header {
	mode := 0 // ed25519
	switch x := rng.UintN(100); {
	case x >= 85:
		mode = 2 // mixed
	case x >= 70:
		mode = 1 // BLS
	}
	return genHeaderMode(rng, maxVals, mode)
}

// genHeaderMode: mode 0 = ed25519 keys, 1 = BLS keys, 2 = mixed.
func genHeaderMode(rng *rand.Rand, maxVals, mode int) tmconsensus.Header {
	h := tmconsensus.Header{
		PrevBlockHash:    optBytes(rng, 32),
		Height:           genU64(rng),
		PrevCommitProof:  genCommitProof(rng),
		ValidatorSet:     genValSet(rng, maxVals, mode),
		DataID:           optBytes(rng, 32),
		PrevAppStateHash: optBytes(rng, 32),
		Annotations:      genAnnotations(rng),
	}
	switch x := rng.UintN(12); {
	case x < 4:
		h.NextValidatorSet = h.ValidatorSet
	case x < 7 && len(h.ValidatorSet.Validators) > 0:
		// the next set is a small edit of the current one: the same keys with other powers,
		// a reordering, one validator more or one fewer (what applications really return)
		vals := append([]tmconsensus.Validator{}, h.ValidatorSet.Validators...)
		switch rng.UintN(4) {
		case 0:
			for i := range vals {
				if rng.UintN(2) == 0 {
					vals[i].Power = genU64(rng)
				}
			}
			vals[rng.IntN(len(vals))].Power ^= 1
		case 1:
			rng.Shuffle(len(vals), func(a, b int) { vals[a], vals[b] = vals[b], vals[a] })
		case 2:
			vals = append(vals, tmconsensus.Validator{PubKey: genPubKey(rng, mode), Power: genU64(rng)})
		default:
			vals = vals[:len(vals)-1]
		}
		if len(vals) == 0 {
			h.NextValidatorSet = genValSet(rng, maxVals, mode)
			break
		}
		vs, err := tmconsensus.NewValidatorSet(vals, hashScheme)
		if err != nil {
			panic(err)
		}
		h.NextValidatorSet = vs
	default:
		h.NextValidatorSet = genValSet(rng, maxVals, mode)
	}
	switch rng.UintN(6) {
	case 0:
		h.Hash = nil
	case 1:
		h.Hash = []byte{}
	case 2:
		h.Hash = rbytes(rng, 1+int(rng.UintN(64)))
	default:
		bh, err := hashScheme.Block(h)
		if err != nil {
			panic(err)
		}
		h.Hash = bh
	}
	return h
}

func genProposedHeader(rng *rand.Rand, maxVals int) tmconsensus.ProposedHeader {
	h := genHeader(rng, maxVals)
	ph := tmconsensus.ProposedHeader{
		Header:      h,
		Round:       genU32(rng),
		Annotations: genAnnotations(rng),
	}
	switch x := rng.UintN(10); {
	case x < 2:
		ph.ProposerPubKey = nil
	case x < 7 && len(h.ValidatorSet.PubKeys) > 0:
		ph.ProposerPubKey = h.ValidatorSet.PubKeys[rng.IntN(len(h.ValidatorSet.PubKeys))]
	default:
		ph.ProposerPubKey = genPubKey(rng, int(rng.UintN(2)))
	}
	switch x := rng.UintN(10); {
	case x < 1:
		ph.Signature = nil
	case x < 2:
		ph.Signature = []byte{}
	case x < 8:
		ph.Signature = rbytes(rng, 64)
	default:
		ph.Signature = rbytes(rng, 1+int(rng.UintN(100)))
	}
	return ph
}

func genCommittedHeader(rng *rand.Rand, maxVals int) tmconsensus.CommittedHeader {
	return tmconsensus.CommittedHeader{
		Header: genHeader(rng, maxVals),
		Proof:  genCommitProof(rng),
	}
}

func genPrevote(rng *rand.Rand) tmconsensus.PrevoteSparseProof {
	return tmconsensus.PrevoteSparseProof{
		Height: genU64(rng), Round: genU32(rng),
		PubKeyHash: optString(rng, 32),
		Proofs:     genProofMap(rng),
	}
}

func genPrecommit(rng *rand.Rand) tmconsensus.PrecommitSparseProof {
	return tmconsensus.PrecommitSparseProof{
		Height: genU64(rng), Round: genU32(rng),
		PubKeyHash: optString(rng, 32),
		Proofs:     genProofMap(rng),
	}
}

// ---------------------------------------------------------------------------
// Independent field-by-field comparison (nil ≡ empty for slices and maps).

type diffs []string

func (d *diffs) add(path string, format string, a ...any) {
	*d = append(*d, path+": "+fmt.Sprintf(format, a...))
}

func cmpBytes(d *diffs, path string, a, b []byte) {
	if !bytes.Equal(a, b) {
		d.add(path, "%x != %x", a, b)
	}
}

func sortedSigs(s []gcrypto.SparseSignature) []string {
	out := make([]string, len(s))
	for i, x := range s {
		out[i] = fmt.Sprintf("%d:%x:%d:%x", len(x.KeyID), x.KeyID, len(x.Sig), x.Sig)
	}
	sort.Strings(out)
	return out
}

func cmpProofMap(d *diffs, path string, a, b map[string][]gcrypto.SparseSignature) {
	if len(a) != len(b) {
		d.add(path, "entry count %d != %d", len(a), len(b))
		return
	}
	for k, sa := range a {
		sb, ok := b[k]
		if !ok {
			d.add(path, "entry for block %x lost", k)
			continue
		}
		xa, xb := sortedSigs(sa), sortedSigs(sb)
		if len(xa) != len(xb) {
			d.add(path, "block %x: %d signatures != %d", k, len(xa), len(xb))
			continue
		}
		for i := range xa {
			if xa[i] != xb[i] {
				d.add(path, "block %x: signature %s != %s", k, xa[i], xb[i])
				break
			}
		}
	}
}

func cmpCommitProof(d *diffs, path string, a, b tmconsensus.CommitProof) {
	if a.Round != b.Round {
		d.add(path+".Round", "%d != %d", a.Round, b.Round)
	}
	if a.PubKeyHash != b.PubKeyHash {
		d.add(path+".PubKeyHash", "%x != %x", a.PubKeyHash, b.PubKeyHash)
	}
	cmpProofMap(d, path+".Proofs", a.Proofs, b.Proofs)
}

func cmpPubKey(d *diffs, path string, a, b gcrypto.PubKey) {
	if (a == nil) != (b == nil) {
		d.add(path, "nil-ness differs: %v vs %v", a == nil, b == nil)
		return
	}
	if a == nil {
		return
	}
	if a.TypeName() != b.TypeName() {
		d.add(path, "type %s != %s", a.TypeName(), b.TypeName())
		return
	}
	if !bytes.Equal(a.PubKeyBytes(), b.PubKeyBytes()) {
		d.add(path, "%x != %x", a.PubKeyBytes(), b.PubKeyBytes())
		return
	}
	if !a.Equal(b) || !b.Equal(a) {
		d.add(path, "Equal() false for identical type and bytes %x", a.PubKeyBytes())
	}
}

func cmpValSet(d *diffs, path string, a, b tmconsensus.ValidatorSet) {
	cmpBytes(d, path+".PubKeyHash", a.PubKeyHash, b.PubKeyHash)
	cmpBytes(d, path+".VotePowerHash", a.VotePowerHash, b.VotePowerHash)
	if len(a.Validators) != len(b.Validators) {
		d.add(path+".Validators", "len %d != %d", len(a.Validators), len(b.Validators))
		return
	}
	if len(a.PubKeys) != len(b.PubKeys) {
		d.add(path+".PubKeys", "len %d != %d", len(a.PubKeys), len(b.PubKeys))
		return
	}
	for i := range a.Validators {
		p := fmt.Sprintf("%s.Validators[%d]", path, i)
		if a.Validators[i].Power != b.Validators[i].Power {
			d.add(p+".Power", "%d != %d", a.Validators[i].Power, b.Validators[i].Power)
		}
		cmpPubKey(d, p+".PubKey", a.Validators[i].PubKey, b.Validators[i].PubKey)
	}
	for i := range a.PubKeys {
		cmpPubKey(d, fmt.Sprintf("%s.PubKeys[%d]", path, i), a.PubKeys[i], b.PubKeys[i])
	}
}

func cmpHeader(d *diffs, path string, a, b tmconsensus.Header) {
	cmpBytes(d, path+".Hash", a.Hash, b.Hash)
	cmpBytes(d, path+".PrevBlockHash", a.PrevBlockHash, b.PrevBlockHash)
	if a.Height != b.Height {
		d.add(path+".Height", "%d != %d", a.Height, b.Height)
	}
	cmpCommitProof(d, path+".PrevCommitProof", a.PrevCommitProof, b.PrevCommitProof)
	cmpValSet(d, path+".ValidatorSet", a.ValidatorSet, b.ValidatorSet)
	cmpValSet(d, path+".NextValidatorSet", a.NextValidatorSet, b.NextValidatorSet)
	cmpBytes(d, path+".DataID", a.DataID, b.DataID)
	cmpBytes(d, path+".PrevAppStateHash", a.PrevAppStateHash, b.PrevAppStateHash)
	cmpBytes(d, path+".Annotations.User", a.Annotations.User, b.Annotations.User)
	cmpBytes(d, path+".Annotations.Driver", a.Annotations.Driver, b.Annotations.Driver)
}

// cmpHeaderHash adds the derived-value oracle: both headers must hash alike
// (this is what makes nil-vs-empty annotations consensus relevant).
func cmpHeaderHash(d *diffs, path string, a, b tmconsensus.Header) {
	ha, ea := hashScheme.Block(a)
	hb, eb := hashScheme.Block(b)
	if ea != nil || eb != nil {
		d.add(path+".<BlockHash>", "hash errors %v / %v", ea, eb)
		return
	}
	if !bytes.Equal(ha, hb) {
		d.add(path+".<BlockHash>", "HashScheme.Block differs: %x != %x", ha, hb)
	}
}

func cmpProposedHeader(d *diffs, a, b tmconsensus.ProposedHeader) {
	cmpHeader(d, "Header", a.Header, b.Header)
	cmpHeaderHash(d, "Header", a.Header, b.Header)
	if a.Round != b.Round {
		d.add("Round", "%d != %d", a.Round, b.Round)
	}
	cmpPubKey(d, "ProposerPubKey", a.ProposerPubKey, b.ProposerPubKey)
	cmpBytes(d, "Signature", a.Signature, b.Signature)
	cmpBytes(d, "Annotations.User", a.Annotations.User, b.Annotations.User)
	cmpBytes(d, "Annotations.Driver", a.Annotations.Driver, b.Annotations.Driver)
	sa, ea := tmconsensus.ProposalSignBytes(a.Header, a.Round, a.Annotations, sigScheme)
	sb, eb := tmconsensus.ProposalSignBytes(b.Header, b.Round, b.Annotations, sigScheme)
	if ea != nil || eb != nil {
		d.add("<ProposalSignBytes>", "errors %v / %v", ea, eb)
	} else if !bytes.Equal(sa, sb) {
		d.add("<ProposalSignBytes>", "%q != %q", sa, sb)
	}
}

// diffClass turns the first difference into a stable key component:
// the path with indices and values removed.
func diffClass(d diffs) string {
	if len(d) == 0 {
		return ""
	}
	s := d[0]
	if i := bytes.IndexByte([]byte(s), ':'); i >= 0 {
		s = s[:i]
	}
	out := make([]byte, 0, len(s))
	skip := false
	for i := 0; i < len(s); i++ {
		switch {
		case s[i] == '[':
			skip = true
			out = append(out, '[', ']')
		case s[i] == ']':
			skip = false
		case !skip:
			out = append(out, s[i])
		}
	}
	return string(out)
}

func variantOf(m tmcodec.ConsensusMessage) string {
	s := ""
	if m.ProposedHeader != nil {
		s += "ProposedHeader"
	}
	if m.PrevoteProof != nil {
		s += "PrevoteProof"
	}
	if m.PrecommitProof != nil {
		s += "PrecommitProof"
	}
	if s == "" {
		s = "none"
	}
	return s
}
