package c14

import (
	"bytes"
	"encoding/json"
	"fmt"
	"io"
)

// A minimal order- and duplicate-preserving JSON tree, so that the harness can
// delete, duplicate and replace fields of a real encoding and write it back
// byte-exactly elsewhere. encoding/json is used only to tokenize.

type jnode struct {
	kind  byte // 'o' object, 'a' array, 's' string, 'n' number, 'l' literal (true/false/null), 'r' raw text, 'R' array of count copies of text
	count int
	keys  []string
	vals  []*jnode // object values or array elements
	text  string   // 's': decoded string; 'n','l','r': literal text
	q     []byte   // 's': cached JSON quoting of text
}

func parseJSON(b []byte) (*jnode, error) {
	dec := json.NewDecoder(bytes.NewReader(b))
	dec.UseNumber()
	n, err := parseValue(dec)
	if err != nil {
		return nil, err
	}
	if _, err := dec.Token(); err != io.EOF {
		return nil, fmt.Errorf("trailing data")
	}
	return n, nil
}

func parseValue(dec *json.Decoder) (*jnode, error) {
	tok, err := dec.Token()
	if err != nil {
		return nil, err
	}
	switch t := tok.(type) {
	case json.Delim:
		switch t {
		case '{':
			n := &jnode{kind: 'o'}
			for dec.More() {
				kt, err := dec.Token()
				if err != nil {
					return nil, err
				}
				k, ok := kt.(string)
				if !ok {
					return nil, fmt.Errorf("non-string key")
				}
				v, err := parseValue(dec)
				if err != nil {
					return nil, err
				}
				n.keys = append(n.keys, k)
				n.vals = append(n.vals, v)
			}
			if _, err := dec.Token(); err != nil {
				return nil, err
			}
			return n, nil
		case '[':
			n := &jnode{kind: 'a'}
			for dec.More() {
				v, err := parseValue(dec)
				if err != nil {
					return nil, err
				}
				n.vals = append(n.vals, v)
			}
			if _, err := dec.Token(); err != nil {
				return nil, err
			}
			return n, nil
		}
		return nil, fmt.Errorf("unexpected delimiter %v", t)
	case string:
		return &jnode{kind: 's', text: t}, nil
	case json.Number:
		return &jnode{kind: 'n', text: string(t)}, nil
	case bool:
		if t {
			return &jnode{kind: 'l', text: "true"}, nil
		}
		return &jnode{kind: 'l', text: "false"}, nil
	case nil:
		return &jnode{kind: 'l', text: "null"}, nil
	}
	return nil, fmt.Errorf("unexpected token %v", tok)
}

func (n *jnode) write(w *bytes.Buffer) {
	switch n.kind {
	case 'o':
		w.WriteByte('{')
		for i, k := range n.keys {
			if i > 0 {
				w.WriteByte(',')
			}
			kb, _ := json.Marshal(k)
			w.Write(kb)
			w.WriteByte(':')
			n.vals[i].write(w)
		}
		w.WriteByte('}')
	case 'a':
		w.WriteByte('[')
		for i, v := range n.vals {
			if i > 0 {
				w.WriteByte(',')
			}
			v.write(w)
		}
		w.WriteByte(']')
	case 's':
		if n.q == nil {
			n.q, _ = json.Marshal(n.text)
		}
		w.Write(n.q)
	case 'R':
		w.Grow((len(n.text) + 1) * n.count)
		w.WriteByte('[')
		for i := 0; i < n.count; i++ {
			if i > 0 {
				w.WriteByte(',')
			}
			w.WriteString(n.text)
		}
		w.WriteByte(']')
	default:
		w.WriteString(n.text)
	}
}

func (n *jnode) bytes() []byte {
	var w bytes.Buffer
	n.write(&w)
	return w.Bytes()
}

// slot is one replaceable position: vals[idx] of a container.
type slot struct {
	parent *jnode
	idx    int
	path   string
}

func (n *jnode) slots(path string, out *[]slot) {
	for i, v := range n.vals {
		var p string
		if n.kind == 'o' {
			p = path + "." + n.keys[i]
		} else {
			p = path + "[]"
		}
		*out = append(*out, slot{n, i, p})
		v.slots(p, out)
	}
}

func raw(s string) *jnode { return &jnode{kind: 'r', text: s} }
func str(s string) *jnode { return &jnode{kind: 's', text: s} }

// repeat is an array of count copies of elem, rendered on the fly.
func repeat(elem *jnode, count int) *jnode {
	var e bytes.Buffer
	elem.write(&e)
	return &jnode{kind: 'R', text: e.String(), count: count}
}
