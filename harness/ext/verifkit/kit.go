// Package verifkit is the shared plumbing for every /verif harness:
// configuration from the environment, per-case PRNGs that are a pure function
// of (seed, property, case index), thread-safe counters, violation records
// with stable signature keys, and result.json for the python driver.
//
// The same source files are used from the external module (harness/ext) and,
// through `go test -overlay`, as github.com/gordian-engine/gordian/internal/verifkit.
package verifkit

import (
	"crypto/sha256"
	"encoding/binary"
	"encoding/hex"
	"encoding/json"
	"fmt"
	"math/rand/v2"
	"os"
	"path/filepath"
	"regexp"
	"runtime"
	"runtime/debug"
	"sort"
	"strconv"
	"strings"
	"sync"
	"sync/atomic"
	"time"
)

// Violation is one observed refutation of a property.
type Violation struct {
	// Key is a stable signature: it identifies the specific failing thing
	// (panic site, oracle class), with numbers stripped, so that
	// known_findings.jsonl can list it.
	Key     string `json:"key"`
	What    string `json:"what"`
	Case    string `json:"case"`
	Count   int    `json:"count"`
	Witness any    `json:"witness,omitempty"`
}

// Result is what the driver reads.
type Result struct {
	Property     string           `json:"property"`
	Sub          string           `json:"sub"`
	Tier         string           `json:"tier"`
	Seed         uint64           `json:"seed"`
	Evaluations  int64            `json:"evaluations"`
	Nontrivial   int              `json:"distinct_nontrivial"`
	Rule         string           `json:"rule"`
	Samples      []any            `json:"samples"`
	Violations   []*Violation     `json:"violations"`
	Inconclusive []string         `json:"inconclusive"`
	Counters     map[string]int64 `json:"counters"`
	Notes        []string         `json:"notes,omitempty"`
	WallS        float64          `json:"wall_s"`
	Finished     bool             `json:"finished"`
}

// Run collects everything for one sub-run of one property.
type Run struct {
	Prop    string
	Sub     string
	Tier    string
	Seed    uint64
	OutDir  string
	Workers int
	Replay  string // path of a witness to replay, or ""
	Scale   float64

	start time.Time

	mu         sync.Mutex
	evals      atomic.Int64
	nontrivial map[[32]byte]struct{}
	samples    []any
	maxSamples int
	viol       map[string]*Violation
	violOrder  []string
	inconc     []string
	counters   map[string]int64
	notes      []string
	rule       string
}

// Enabled reports whether the driver launched this process.
func Enabled() bool { return os.Getenv("VERIF_OUT") != "" }

// Start reads the environment. It returns nil when the driver did not start
// the process (then the calling test must skip).
func Start(prop string) *Run {
	out := os.Getenv("VERIF_OUT")
	if out == "" {
		return nil
	}
	r := &Run{
		Prop:       prop,
		Sub:        envOr("VERIF_SUB", "main"),
		Tier:       envOr("VERIF_TIER", "quick"),
		OutDir:     out,
		Workers:    runtime.GOMAXPROCS(0),
		Replay:     os.Getenv("VERIF_REPLAY"),
		Scale:      1,
		start:      time.Now(),
		nontrivial: map[[32]byte]struct{}{},
		viol:       map[string]*Violation{},
		counters:   map[string]int64{},
		maxSamples: 4,
	}
	if s := os.Getenv("VERIF_SEED"); s != "" {
		if v, err := strconv.ParseUint(s, 10, 64); err == nil {
			r.Seed = v
		} else if v, err := strconv.ParseInt(s, 10, 64); err == nil {
			r.Seed = uint64(v)
		}
	}
	if s := os.Getenv("VERIF_WORKERS"); s != "" {
		if v, err := strconv.Atoi(s); err == nil && v > 0 {
			r.Workers = v
		}
	}
	if s := os.Getenv("VERIF_SCALE"); s != "" {
		if v, err := strconv.ParseFloat(s, 64); err == nil && v > 0 {
			r.Scale = v
		}
	}
	_ = os.MkdirAll(out, 0o755)
	// A result file that says "not finished" exists from the very start, so a
	// process that dies is distinguishable from one that never ran.
	r.write(false)
	return r
}

func envOr(k, d string) string {
	if v := os.Getenv(k); v != "" {
		return v
	}
	return d
}

// Quick reports whether this is the quick tier.
func (r *Run) Quick() bool { return r.Tier != "thorough" }

// N picks the case count for the tier, scaled by VERIF_SCALE.
func (r *Run) N(quick, thorough int) int {
	n := quick
	if !r.Quick() {
		n = thorough
	}
	n = int(float64(n) * r.Scale)
	if n < 1 {
		n = 1
	}
	return n
}

// CaseRNG returns the PRNG of case i: a pure function of (seed, prop, sub, i).
func (r *Run) CaseRNG(i int) *rand.Rand {
	return r.NamedRNG("case", i)
}

// NamedRNG returns an independent PRNG stream.
func (r *Run) NamedRNG(name string, i int) *rand.Rand {
	h := sha256.New()
	var b [8]byte
	binary.LittleEndian.PutUint64(b[:], r.Seed)
	h.Write(b[:])
	h.Write([]byte(r.Prop))
	h.Write([]byte{0})
	h.Write([]byte(r.Sub))
	h.Write([]byte{0})
	h.Write([]byte(name))
	h.Write([]byte{0})
	binary.LittleEndian.PutUint64(b[:], uint64(i))
	h.Write(b[:])
	s := h.Sum(nil)
	return rand.New(rand.NewPCG(binary.LittleEndian.Uint64(s[:8]), binary.LittleEndian.Uint64(s[8:16])))
}

// BeginCase records the case about to run, so a fatal death is attributable.
func (r *Run) BeginCase(id string) {
	_ = os.WriteFile(filepath.Join(r.OutDir, "current_case."+r.Sub), []byte(id), 0o644)
}

// Eval counts executed cases.
func (r *Run) Eval(n int) { r.evals.Add(int64(n)) }

// Nontrivial records the digest of a case whose monitor observed what the
// property is about. Distinct digests are counted.
func (r *Run) Nontrivial(parts ...any) {
	h := sha256.New()
	for _, p := range parts {
		switch v := p.(type) {
		case []byte:
			h.Write(v)
		case string:
			h.Write([]byte(v))
		default:
			fmt.Fprintf(h, "%v", v)
		}
		h.Write([]byte{0})
	}
	var d [32]byte
	copy(d[:], h.Sum(nil))
	r.mu.Lock()
	r.nontrivial[d] = struct{}{}
	r.mu.Unlock()
}

// NontrivialCount returns the number of distinct non-trivial digests so far.
func (r *Run) NontrivialCount() int {
	r.mu.Lock()
	defer r.mu.Unlock()
	return len(r.nontrivial)
}

// Sample keeps up to a handful of real cases for the evidence file.
func (r *Run) Sample(v any) {
	r.mu.Lock()
	defer r.mu.Unlock()
	if len(r.samples) < r.maxSamples {
		r.samples = append(r.samples, v)
	}
}

// WantSample reports whether another sample would be kept.
func (r *Run) WantSample() bool {
	r.mu.Lock()
	defer r.mu.Unlock()
	return len(r.samples) < r.maxSamples
}

// Count adds to a named counter (events by type, hook hits, …).
func (r *Run) Count(name string, n int64) {
	r.mu.Lock()
	r.counters[name] += n
	r.mu.Unlock()
}

// Note appends a free-text note to the result.
func (r *Run) Note(format string, a ...any) {
	r.mu.Lock()
	if len(r.notes) < 200 {
		r.notes = append(r.notes, fmt.Sprintf(format, a...))
	}
	r.mu.Unlock()
}

// SetRule states how cases are generated and what makes one non-trivial.
func (r *Run) SetRule(s string) {
	r.mu.Lock()
	r.rule = s
	r.mu.Unlock()
}

// Inconclusive records a reason the run cannot be called held or violated.
func (r *Run) Inconclusive(format string, a ...any) {
	r.mu.Lock()
	if len(r.inconc) < 50 {
		r.inconc = append(r.inconc, fmt.Sprintf(format, a...))
	}
	r.mu.Unlock()
}

// Violate records a violation. The first witness per key is kept.
func (r *Run) Violate(key, what, caseID string, witness any) {
	r.mu.Lock()
	defer r.mu.Unlock()
	if v, ok := r.viol[key]; ok {
		v.Count++
		return
	}
	r.viol[key] = &Violation{Key: key, What: what, Case: caseID, Count: 1, Witness: witness}
	r.violOrder = append(r.violOrder, key)
	// Persist at once: the process may die before Finish.
	r.writeLocked(false)
}

// ViolationCount returns the number of distinct violation keys.
func (r *Run) ViolationCount() int {
	r.mu.Lock()
	defer r.mu.Unlock()
	return len(r.viol)
}

// Finish writes the final result.json.
func (r *Run) Finish() {
	r.write(true)
}

func (r *Run) write(fin bool) {
	r.mu.Lock()
	defer r.mu.Unlock()
	r.writeLocked(fin)
}

func (r *Run) writeLocked(fin bool) {
	res := Result{
		Property:     r.Prop,
		Sub:          r.Sub,
		Tier:         r.Tier,
		Seed:         r.Seed,
		Evaluations:  r.evals.Load(),
		Nontrivial:   len(r.nontrivial),
		Rule:         r.rule,
		Samples:      r.samples,
		Inconclusive: r.inconc,
		Counters:     r.counters,
		Notes:        r.notes,
		WallS:        time.Since(r.start).Seconds(),
		Finished:     fin,
	}
	for _, k := range r.violOrder {
		res.Violations = append(res.Violations, r.viol[k])
	}
	b, err := json.MarshalIndent(res, "", " ")
	if err != nil {
		b = []byte(fmt.Sprintf(`{"property":%q,"sub":%q,"finished":false,"marshal_error":%q}`, r.Prop, r.Sub, err.Error()))
	}
	tmp := filepath.Join(r.OutDir, "result."+r.Sub+".json.tmp")
	if err := os.WriteFile(tmp, b, 0o644); err == nil {
		_ = os.Rename(tmp, filepath.Join(r.OutDir, "result."+r.Sub+".json"))
	}
}

// Parallel runs fn(i) for i in [0,n) on r.Workers goroutines. A panic inside
// fn is recorded as a violation keyed by PanicKey (harness code must not
// panic; the code under test must not either) and the case ends.
func (r *Run) Parallel(n int, fn func(i int)) {
	var next atomic.Int64
	var wg sync.WaitGroup
	w := r.Workers
	if w > n {
		w = n
	}
	for k := 0; k < w; k++ {
		wg.Add(1)
		go func() {
			defer wg.Done()
			for {
				i := int(next.Add(1) - 1)
				if i >= n {
					return
				}
				fn(i)
			}
		}()
	}
	wg.Wait()
}

// Guard runs fn and converts a panic into (key, message, stack).
func Guard(fn func()) (panicked bool, key string, msg string, stack string) {
	defer func() {
		if x := recover(); x != nil {
			panicked = true
			stack = string(debug.Stack())
			msg = fmt.Sprint(x)
			key = PanicKey(msg, stack)
		}
	}()
	fn()
	return
}

var (
	reHex    = regexp.MustCompile(`0x[0-9a-fA-F]+|\b[0-9a-fA-F]{8,}\b`)
	reNum    = regexp.MustCompile(`\d+`)
	reFrame  = regexp.MustCompile(`(?m)^(github\.com/gordian-engine/gordian/[^\s(]+(?:\([^)]*\))?[^\s(]*)\(`)
	reGoexit = regexp.MustCompile(`verifkit|verifhook|zz_verif|_test\.|\.Verif|\.verif`)
)

// Normalize strips numbers and hex strings from a message.
func Normalize(msg string) string {
	msg = reHex.ReplaceAllString(msg, "#")
	msg = reNum.ReplaceAllString(msg, "#")
	if len(msg) > 160 {
		msg = msg[:160]
	}
	return msg
}

// PanicKey builds "panic:<innermost gordian function>:<normalized message>".
// The innermost gordian (non-harness) frame is where the panic was raised or,
// for runtime errors, the gordian statement that faulted.
func PanicKey(msg, stack string) string {
	fn := "?"
	for _, m := range reFrame.FindAllStringSubmatch(stack, -1) {
		f := m[1]
		if reGoexit.MatchString(f) {
			continue
		}
		f = strings.TrimPrefix(f, "github.com/gordian-engine/gordian/")
		fn = f
		break
	}
	return "panic:" + fn + ":" + Normalize(firstLine(msg))
}

func firstLine(s string) string {
	if i := strings.IndexByte(s, '\n'); i >= 0 {
		return s[:i]
	}
	return s
}

// Hex is a short helper for witnesses.
func Hex(b []byte) string { return hex.EncodeToString(b) }

// SortedKeys returns the sorted keys of a string-keyed map.
func SortedKeys[V any](m map[string]V) []string {
	ks := make([]string, 0, len(m))
	for k := range m {
		ks = append(ks, k)
	}
	sort.Strings(ks)
	return ks
}
