package c06

// C06, pure part: tmconsensus.VoteSummary against an independent recomputation,
// over random validator sets, power distributions and vote multisets in which one
// validator may vote for many targets; the same multiset presented through maps built
// in different insertion orders (and iterated in Go's randomized order) must give the
// same summary.

import (
	"crypto/ed25519"
	"encoding/binary"
	"fmt"
	"math/rand/v2"
	"sort"
	"testing"

	"github.com/gordian-engine/gordian/gcrypto"
	"github.com/gordian-engine/gordian/tm/tmconsensus"
	"verif/ext/verifkit"
)

type world struct {
	vals []tmconsensus.Validator
	keys []ed25519.PrivateKey
	pubs []gcrypto.PubKey
	sigs map[string][]byte
}

func newWorld(rng *rand.Rand, n int) *world {
	w := &world{}
	prof := rng.IntN(5)
	for i := 0; i < n; i++ {
		var seed [32]byte
		for k := 0; k < 4; k++ {
			binary.LittleEndian.PutUint64(seed[k*8:], rng.Uint64())
		}
		priv := ed25519.NewKeyFromSeed(seed[:])
		pub := gcrypto.Ed25519PubKey(priv.Public().(ed25519.PublicKey))
		var pow uint64
		switch prof {
		case 0:
			pow = 1
		case 1:
			pow = uint64(1 + rng.IntN(9))
		case 2:
			pow = 1<<59 + uint64(rng.IntN(100))
		case 3:
			pow = uint64(100000 - 10*i)
		default:
			pow = uint64(1 + rng.IntN(3))
			if i == 0 {
				pow = 1000
			}
		}
		w.keys = append(w.keys, priv)
		w.pubs = append(w.pubs, pub)
		w.vals = append(w.vals, tmconsensus.Validator{PubKey: pub, Power: pow})
	}
	return w
}

func (w *world) proof(msg string, signers []int) gcrypto.CommonMessageSignatureProof {
	p, err := gcrypto.NewSimpleCommonMessageSignatureProof([]byte(msg), w.pubs, "pkh")
	if err != nil {
		panic(err)
	}
	if w.sigs == nil {
		w.sigs = map[string][]byte{}
	}
	for _, i := range signers {
		k := fmt.Sprintf("%d|%s", i, msg)
		sig, ok := w.sigs[k]
		if !ok {
			sig = ed25519.Sign(w.keys[i], []byte(msg))
			w.sigs[k] = sig
		}
		if err := p.AddSignature(sig, w.pubs[i]); err != nil {
			panic(err)
		}
	}
	return p
}

type expect struct {
	avail, total uint64
	block        map[string]uint64
	max          uint64
}

func TestVerif_C06_summary(t *testing.T) {
	r := verifkit.Start("C06")
	if r == nil {
		t.Skip("not started by the /verif driver")
	}
	defer r.Finish()
	r.SetRule("pure VoteSummary: random validator sets (1-9 validators, five power distributions incl. 2^59 scale), vote multisets over 1-6 targets (nil included) in which a validator may sign several targets; SetAvailablePower/SetPrevotePowers/SetPrecommitPowers/SetVotePowers compared with an independent recomputation (available = sum, per target = sum over signers, total = power of the union of signers, most-voted maximal); the same multiset presented 5 times through maps built in different insertion orders must give the identical most-voted target; reuse of one summary value across validator sets and vote sets must not leak (Reset/clear). Non-trivial = distinct cases with >= 2 targets and >= 1 validator signing more than one target.")
	n := r.N(8000, 1000000)
	r.Parallel(n, func(i int) {
		rng := r.CaseRNG(i)
		id := fmt.Sprintf("c06-%d", i)
		r.Eval(1)
		if p, key, msg, stack := verifkit.Guard(func() { runCase(r, id, rng) }); p {
			r.Violate("C06:"+key, "VoteSummary panicked: "+msg, id, map[string]any{"stack": stack})
		}
	})
}

func runCase(r *verifkit.Run, id string, rng *rand.Rand) {
	w := newWorld(rng, 1+rng.IntN(9))
	nv := len(w.vals)
	nt := 1 + rng.IntN(6)
	targets := make([]string, nt)
	for k := range targets {
		if k == 0 && rng.IntN(2) == 0 {
			targets[k] = ""
		} else {
			targets[k] = fmt.Sprintf("hash-%d-%d", k, rng.Uint32())
		}
	}
	signersOf := map[string][]int{}
	multi := false
	seen := map[int]int{}
	for _, tg := range targets {
		for v := 0; v < nv; v++ {
			if rng.IntN(3) == 0 {
				signersOf[tg] = append(signersOf[tg], v)
				seen[v]++
				if seen[v] > 1 {
					multi = true
				}
			}
		}
	}
	// sometimes a target with an empty proof (no signers)
	exp := expect{block: map[string]uint64{}}
	union := map[int]bool{}
	for _, v := range w.vals {
		exp.avail += v.Power
	}
	for _, tg := range targets {
		var p uint64
		for _, v := range signersOf[tg] {
			p += w.vals[v].Power
			union[v] = true
		}
		exp.block[tg] = p
		if p > exp.max {
			exp.max = p
		}
	}
	for v := range union {
		exp.total += w.vals[v].Power
	}

	precommit := rng.IntN(2) == 0
	var firstMost string
	// a summary value that is reused, pre-polluted with other data
	reused := tmconsensus.NewVoteSummary()
	{
		w2 := newWorld(rng, 1+rng.IntN(5))
		reused.SetAvailablePower(w2.vals)
		junk := map[string]gcrypto.CommonMessageSignatureProof{"junk": w2.proof("junk", []int{0})}
		reused.SetVotePowers(w2.vals, junk, junk)
	}
	for rep := 0; rep < 5; rep++ {
		order := rng.Perm(nt)
		proofs := make(map[string]gcrypto.CommonMessageSignatureProof)
		for _, k := range order {
			tg := targets[k]
			proofs[tg] = w.proof("vote|"+tg, signersOf[tg])
		}
		vs := tmconsensus.NewVoteSummary()
		if rep == 4 {
			vs = reused
		}
		vs.SetAvailablePower(w.vals)
		var total uint64
		var block map[string]uint64
		var most string
		switch {
		case rep == 3:
			vs.SetVotePowers(w.vals, proofs, proofs)
			if precommit {
				total, block, most = vs.TotalPrecommitPower, vs.PrecommitBlockPower, vs.MostVotedPrecommitHash
			} else {
				total, block, most = vs.TotalPrevotePower, vs.PrevoteBlockPower, vs.MostVotedPrevoteHash
			}
		case precommit:
			vs.SetPrecommitPowers(w.vals, proofs)
			// call twice: must not accumulate
			vs.SetPrecommitPowers(w.vals, proofs)
			total, block, most = vs.TotalPrecommitPower, vs.PrecommitBlockPower, vs.MostVotedPrecommitHash
		default:
			vs.SetPrevotePowers(w.vals, proofs)
			vs.SetPrevotePowers(w.vals, proofs)
			total, block, most = vs.TotalPrevotePower, vs.PrevoteBlockPower, vs.MostVotedPrevoteHash
		}
		kind := "prevote"
		if precommit {
			kind = "precommit"
		}
		wit := func() map[string]any {
			pows := make([]uint64, nv)
			for i, v := range w.vals {
				pows[i] = v.Power
			}
			ts := make([]string, 0, nt)
			for _, tg := range targets {
				ts = append(ts, fmt.Sprintf("%q<-%v", tg, signersOf[tg]))
			}
			sort.Strings(ts)
			return map[string]any{"powers": fmt.Sprint(pows), "votes": ts, "kind": kind, "rep": rep, "reported_total": total, "reported_block": fmt.Sprint(block), "reported_most": most}
		}
		if vs.AvailablePower != exp.avail {
			r.Violate("C06:pure:available-power-differs-from-sum", fmt.Sprintf("available power %d, validators sum to %d", vs.AvailablePower, exp.avail), id, wit())
		}
		if total != exp.total {
			r.Violate("C06:pure:total-power-differs-from-union-of-signers:"+kind, fmt.Sprintf("total %s power %d, distinct signers hold %d", kind, total, exp.total), id, wit())
		}
		for tg, p := range exp.block {
			if block[tg] != p {
				r.Violate("C06:pure:target-power-differs-from-recomputed:"+kind, fmt.Sprintf("%s power of %q reported %d, recomputed %d", kind, tg, block[tg], p), id, wit())
			}
		}
		for tg, p := range block {
			if _, ok := exp.block[tg]; !ok && p != 0 {
				r.Violate("C06:pure:power-reported-for-absent-target:"+kind, fmt.Sprintf("%s power %d reported for %q which was not offered (stale entry)", kind, p, tg), id, wit())
			}
		}
		if exp.block[most] != exp.max {
			r.Violate("C06:pure:most-voted-target-is-not-maximal:"+kind, fmt.Sprintf("most voted %q has %d, maximum is %d", most, exp.block[most], exp.max), id, wit())
		}
		if rep == 0 {
			firstMost = most
		} else if most != firstMost {
			r.Violate("C06:pure:most-voted-target-depends-on-order:"+kind, fmt.Sprintf("the same vote multiset gave most-voted %q and %q", firstMost, most), id, wit())
		}
	}
	// Clone independence
	vs := tmconsensus.NewVoteSummary()
	vs.SetAvailablePower(w.vals)
	c := vs.Clone()
	c.PrevoteBlockPower["x"] = 7
	if _, ok := vs.PrevoteBlockPower["x"]; ok {
		r.Violate("C06:pure:clone-shares-maps", "mutating a cloned summary changed the original", id, nil)
	}
	if nt >= 2 && multi {
		r.Nontrivial("c06", id)
		if r.WantSample() {
			ts := make([]string, 0, nt)
			for _, tg := range targets {
				ts = append(ts, fmt.Sprintf("%q<-%v", tg, signersOf[tg]))
			}
			r.Sample(map[string]any{"case": id, "validators": nv, "votes": ts, "expected_total": exp.total, "available": exp.avail})
		}
	}
}
