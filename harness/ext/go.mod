module verif/ext

go 1.25

require (
	github.com/anishathalye/porcupine v1.3.0
	github.com/gordian-engine/gordian v0.0.0
)

require github.com/bits-and-blooms/bitset v1.20.0 // indirect

replace github.com/gordian-engine/gordian => /repo
