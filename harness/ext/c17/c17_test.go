// Package c17 decides property C17 ("gossip broadcasts everything the node
// knows and nothing else") by runtime monitoring of the real
// tmgossip.ChattyStrategy.
//
// A small simulator of the mirror kernel's gossip output (sim) produces
// sequences of tmelink.NetworkViewUpdate that are shaped like the kernel's:
// the first update carries the voting view; per (height, round) a view only
// grows and its versions only increase; a precommit majority for a block
// moves Voting to Committing and opens (h+1, 0) / (h+1, 1); a nil precommit
// majority (or 100 % of precommits without a majority) advances the round and
// queues the final state of the dead round as a NilVotedRound (one per update,
// oldest first, exactly like gossipViewManager.AddNilVotedRound/MarkSent: when
// several rounds die while the strategy is busy, the later ones go out in
// updates that carry only NilVotedRound, with or without RoundSessionChanges,
// or together with whatever views changed meanwhile); a minority of
// votes in the next-round view makes voting jump there (no NilVotedRound);
// equivocating validators sign a second target (equal signer count, different
// signature set); like the kernel's gossipViewManager the simulator only
// hands the strategy the *latest* state, so several kernel steps may be
// coalesced into one update.
//
// The strategy under test runs against a recording broadcaster whose three
// Outgoing* channels are unbuffered and drained by one recorder goroutine.
//
// Barrier (no sleep decides anything): ChattyStrategy.kernel receives from its
// input channel only at the top of its for/select loop, i.e. after every
// gchan.SendC of the previous update returned; the harness input channel is
// unbuffered, hence "update k+1 was accepted" proves that update k was fully
// processed and - the Outgoing* channels being unbuffered - that the recorder
// took every value offered for it. After the last generated update the harness
// sends a sentinel update (a voting view at a far-away height with one header;
// it is judged like any other update) and a final barrier update that carries
// only RoundSessionChanges; when that one has been accepted everything is
// quiescent, the recorder is synchronised through its own unbuffered channel
// and the oracle runs.
//
// Oracle: IN = all proposed headers and all (kind, height, round, target hash,
// signer key id, signature bytes) the simulator put into delivered views
// (computed from the simulator's own bookkeeping, not from gordian's proof
// objects); OUT = everything offered on the Outgoing* channels. IN must be a
// subset of OUT and OUT a subset of IN.
package c17

import (
	"bytes"
	"context"
	"crypto/sha256"
	"encoding/binary"
	"encoding/hex"
	"encoding/json"
	"fmt"
	"io"
	"log/slog"
	"maps"
	"math/rand/v2"
	"reflect"
	"slices"
	"sort"
	"sync"
	"testing"
	"time"

	"github.com/gordian-engine/gordian/gcrypto"
	"github.com/gordian-engine/gordian/tm/tmconsensus"
	"github.com/gordian-engine/gordian/tm/tmconsensus/tmconsensustest"
	"github.com/gordian-engine/gordian/tm/tmengine/tmelink"
	"github.com/gordian-engine/gordian/tm/tmgossip"
	"verif/ext/verifkit"
)

const (
	roleCommitting = "committing"
	roleVoting     = "voting"
	roleNext       = "next-round"
	roleNVR        = "nil-voted-round"

	kindPrevote   = 0
	kindPrecommit = 1

	sentinelHeight = uint64(1) << 40

	watchdog = 60 * time.Second
)

var kindName = [2]string{"prevote", "precommit"}

// ---------------------------------------------------------------------------
// recording broadcaster

type outMsg struct {
	kind   string // "proposed-header", "prevote", "precommit"
	ph     tmconsensus.ProposedHeader
	h      uint64
	r      uint32
	pkHash string
	proofs map[string][]gcrypto.SparseSignature
}

type recorder struct {
	ph   chan tmconsensus.ProposedHeader
	pv   chan tmconsensus.PrevoteSparseProof
	pc   chan tmconsensus.PrecommitSparseProof
	sync chan struct{}
	stop chan struct{}
	done chan struct{}

	msgs []outMsg // owned by run() until a sync/stop handshake
}

func newRecorder() *recorder {
	return &recorder{
		ph:   make(chan tmconsensus.ProposedHeader),
		pv:   make(chan tmconsensus.PrevoteSparseProof),
		pc:   make(chan tmconsensus.PrecommitSparseProof),
		sync: make(chan struct{}),
		stop: make(chan struct{}),
		done: make(chan struct{}),
	}
}

func (c *recorder) OutgoingProposedHeaders() chan<- tmconsensus.ProposedHeader   { return c.ph }
func (c *recorder) OutgoingPrevoteProofs() chan<- tmconsensus.PrevoteSparseProof { return c.pv }
func (c *recorder) OutgoingPrecommitProofs() chan<- tmconsensus.PrecommitSparseProof {
	return c.pc
}

func (c *recorder) run() {
	defer close(c.done)
	for {
		select {
		case ph := <-c.ph:
			c.msgs = append(c.msgs, outMsg{kind: "proposed-header", ph: ph})
		case p := <-c.pv:
			c.msgs = append(c.msgs, outMsg{kind: "prevote", h: p.Height, r: p.Round, pkHash: p.PubKeyHash, proofs: p.Proofs})
		case p := <-c.pc:
			c.msgs = append(c.msgs, outMsg{kind: "precommit", h: p.Height, r: p.Round, pkHash: p.PubKeyHash, proofs: p.Proofs})
		case <-c.sync:
			// Everything received before this point has been appended.
		case <-c.stop:
			return
		}
	}
}

// ---------------------------------------------------------------------------
// the simulator's model of one view

type mview struct {
	exists bool
	h      uint64
	r      uint32

	phs []tmconsensus.ProposedHeader

	// kind -> target hash -> validator index -> signature bytes
	votes [2]map[string]map[int][]byte
	// the gordian proof objects built from the same signatures
	proofs [2]map[string]gcrypto.CommonMessageSignatureProof

	version      uint32
	kindVersion  [2]uint32
	blockVersion [2]map[string]uint32

	prevCommit tmconsensus.CommitProof

	dirty bool
}

func freshView(h uint64, r uint32, pc tmconsensus.CommitProof) mview {
	v := mview{exists: true, h: h, r: r, version: 1, prevCommit: pc, dirty: true}
	for k := 0; k < 2; k++ {
		v.votes[k] = map[string]map[int][]byte{}
		v.proofs[k] = map[string]gcrypto.CommonMessageSignatureProof{}
		v.blockVersion[k] = map[string]uint32{}
		v.kindVersion[k] = 1
	}
	return v
}

func (v *mview) signers(kind int) map[int]bool {
	u := map[int]bool{}
	for _, m := range v.votes[kind] {
		for i := range m {
			u[i] = true
		}
	}
	return u
}

// descriptions that go into witnesses

type viewDesc struct {
	Role       string           `json:"role"`
	H          uint64           `json:"height"`
	R          uint32           `json:"round"`
	Version    uint32           `json:"version"`
	Headers    []string         `json:"proposed_header_hashes"`
	Prevotes   map[string][]int `json:"prevote_signers_by_target"`
	Precommits map[string][]int `json:"precommit_signers_by_target"`
}

type updDesc struct {
	Index int        `json:"update"`
	Views []viewDesc `json:"views"`
}

func hashName(h string) string {
	if h == "" {
		return "nil"
	}
	return hex.EncodeToString([]byte(h))
}

func (v *mview) desc(role string) viewDesc {
	d := viewDesc{Role: role, H: v.h, R: v.r, Version: v.version,
		Prevotes: map[string][]int{}, Precommits: map[string][]int{}}
	for _, ph := range v.phs {
		d.Headers = append(d.Headers, hex.EncodeToString(ph.Header.Hash))
	}
	for k, dst := range []map[string][]int{d.Prevotes, d.Precommits} {
		for hash, m := range v.votes[k] {
			idxs := make([]int, 0, len(m))
			for i := range m {
				idxs = append(idxs, i)
			}
			sort.Ints(idxs)
			dst[hashName(hash)] = idxs
		}
	}
	return d
}

// ---------------------------------------------------------------------------
// oracle bookkeeping

type item struct {
	Kind      string `json:"kind"`
	H         uint64 `json:"height"`
	R         uint32 `json:"round"`
	Target    string `json:"target_hash"`
	Signer    int    `json:"signer_index"`
	KeyID     string `json:"key_id"`
	Sig       string `json:"signature"`
	FirstUpd  int    `json:"first_delivered_in_update"`
	FirstRole string `json:"first_delivered_in_role"`
	Reason    string `json:"diff_situation_at_first_delivery"`

	judged bool
	ph     *tmconsensus.ProposedHeader
}

type roleSummary struct {
	set    bool
	h      uint64
	r      uint32
	nPH    int
	nUnion [2]int
}

type oracle struct {
	items map[string]*item
	order []string
	prev  map[string]roleSummary

	nvrAlone bool // the update being observed carries nothing but a NilVotedRound
}

func voteKey(kind int, h uint64, r uint32, hash string, keyID, sig []byte) string {
	return fmt.Sprintf("%s|%d|%d|%x|%x|%x", kindName[kind], h, r, hash, keyID, sig)
}

func phKey(ph tmconsensus.ProposedHeader) string {
	return fmt.Sprintf("ph|%d|%d|%x|%x", ph.Header.Height, ph.Round, ph.Header.Hash, ph.Signature)
}

func keyID(idx int) []byte {
	var b [2]byte
	binary.BigEndian.PutUint16(b[:], uint16(idx))
	return b[:]
}

func (o *oracle) observe(upd int, role string, v *mview) {
	prev := o.prev[role]
	same := prev.set && prev.h == v.h && prev.r == v.r
	var nUnion [2]int
	for k := 0; k < 2; k++ {
		nUnion[k] = len(v.signers(k))
	}
	reasonFor := func(kind int) string {
		switch {
		case role == roleNVR && upd == 0:
			return "nil-voted-round-in-first-update"
		case role == roleNVR && o.nvrAlone:
			return "nil-voted-round-in-update-without-other-views"
		case role == roleNVR:
			return "nil-voted-round"
		case upd == 0:
			return "first-update"
		case !same:
			return "view-switched"
		case kind < 0:
			if len(v.phs) == prev.nPH {
				return "equal-header-count"
			}
			return "header-count-changed"
		case nUnion[kind] == prev.nUnion[kind]:
			return "equal-signer-count"
		default:
			return "signer-count-changed"
		}
	}
	add := func(key string, it item, judged bool) {
		if cur, ok := o.items[key]; ok {
			cur.judged = cur.judged || judged
			return
		}
		it.FirstUpd, it.FirstRole = upd, role
		it.judged = judged
		o.items[key] = &it
		o.order = append(o.order, key)
	}
	for i := range v.phs {
		ph := v.phs[i]
		add(phKey(ph), item{Kind: "proposed-header", H: ph.Header.Height, R: ph.Round,
			Target: hex.EncodeToString(ph.Header.Hash), Signer: -1, Sig: hex.EncodeToString(ph.Signature),
			Reason: reasonFor(-1), ph: &ph},
			// The property singles out "the final precommits of a nil-committed
			// round"; whether the other content of a NilVotedRound view must be
			// offered too is left unjudged (and counted).
			role != roleNVR)
	}
	for k := 0; k < 2; k++ {
		for hash, m := range v.votes[k] {
			for idx, sig := range m {
				kid := keyID(idx)
				add(voteKey(k, v.h, v.r, hash, kid, sig), item{Kind: kindName[k], H: v.h, R: v.r,
					Target: hashName(hash), Signer: idx, KeyID: hex.EncodeToString(kid), Sig: hex.EncodeToString(sig),
					Reason: reasonFor(k)},
					role != roleNVR || k == kindPrecommit)
			}
		}
	}
	if role != roleNVR {
		o.prev[role] = roleSummary{set: true, h: v.h, r: v.r, nPH: len(v.phs), nUnion: nUnion}
	}
}

// ---------------------------------------------------------------------------
// simulator

type stats struct {
	updates, views, nvr, commits, advances, jumps, coalesced int64
	nvrQueuedBehind, nvrOnly, nvrOnlyWithRSC, nvrWithViews   int64
	equivocations, equalCountChanges, viewSwitches           int64
	unknownHashVotes                                         int64
}

type sim struct {
	ctx        context.Context
	fx         *tmconsensustest.Fixture
	n          int
	vals       []tmconsensus.Validator
	valSet     tmconsensus.ValidatorSet
	pkHash     string
	total      uint64
	phSeq      int
	appHash    byte
	pastPHs    map[uint64][]tmconsensus.ProposedHeader // every proposal made so far, by height
	reproposed int

	committing, voting, next mview
	// nil-voted rounds not yet handed to the strategy, oldest first; an update
	// carries one of them (gossipViewManager.NilVotedRound + queuedNilVotedRounds).
	nvrQueue []*mview

	in       chan tmelink.NetworkViewUpdate
	stratEnd <-chan struct{}

	log     []updDesc
	orc     *oracle
	st      stats
	failure string // harness could not go on (inconclusive or violation recorded by caller)
	failKey string
	pending int // kernel steps since last delivery
}

// powerProfiles: 0 keeps the fixture's nearly equal powers; 1 gives validators 0 and 1
// 40 % each (the two of them exceed 2/3, so rounds die on two signatures); 2 gives
// validator 0 half of the power.
const nPowerProfiles = 3

func newSim(ctx context.Context, n int, profile int, in chan tmelink.NetworkViewUpdate, stratEnd <-chan struct{}) *sim {
	fx := tmconsensustest.NewEd25519Fixture(n)
	switch profile {
	case 1:
		for i := range fx.PrivVals {
			fx.PrivVals[i].Val.Power = uint64(100 + i)
		}
		rest := uint64(0)
		for i := 2; i < n; i++ {
			rest += fx.PrivVals[i].Val.Power
		}
		fx.PrivVals[0].Val.Power = 2*rest + 1
		fx.PrivVals[1].Val.Power = 2 * rest
	case 2:
		rest := uint64(0)
		for i := range fx.PrivVals {
			fx.PrivVals[i].Val.Power = uint64(100 + i)
			if i > 0 {
				rest += uint64(100 + i)
			}
		}
		fx.PrivVals[0].Val.Power = rest
	}
	_ = fx.DefaultGenesis()
	s := &sim{ctx: ctx, fx: fx, n: n, vals: fx.Vals(), valSet: fx.ValSet(), in: in, stratEnd: stratEnd,
		orc: &oracle{items: map[string]*item{}, prev: map[string]roleSummary{}}}
	s.pkHash = string(s.valSet.PubKeyHash)
	for _, v := range s.vals {
		s.total += v.Power
	}
	empty := tmconsensus.CommitProof{Proofs: map[string][]gcrypto.SparseSignature{}}
	s.voting = freshView(1, 0, empty)
	s.next = freshView(1, 1, empty)
	return s
}

func (s *sim) view(role string) *mview {
	switch role {
	case roleCommitting:
		return &s.committing
	case roleVoting:
		return &s.voting
	default:
		return &s.next
	}
}

func (s *sim) power(set map[int]bool) uint64 {
	var p uint64
	for i := range set {
		p += s.vals[i].Power
	}
	return p
}

func (s *sim) maj() uint64 { return s.total*2/3 + 1 }
func (s *sim) min() uint64 { return (s.total + 2) / 3 }

// addPH adds a freshly built, really signed proposed header to the view.
func (s *sim) addPH(role string, proposer int) []byte {
	v := s.view(role)
	if !v.exists || role == roleCommitting {
		return nil
	}
	s.phSeq++
	ph := s.fx.NextProposedHeader([]byte(fmt.Sprintf("data-%d-%d-%d", v.h, v.r, s.phSeq)), proposer)
	if old := s.pastPHs[v.h]; len(old) > 0 && s.phSeq%4 == 0 {
		// the block of an earlier proposal of this height proposed again (same header, same
		// hash): in a later round after a round that did not commit it, or by a second
		// proposer in the same round. Round, proposer, annotations and signature differ, so it
		// is another proposal, of another view.
		ph = old[(s.phSeq/4)%len(old)]
		ph.Header.PrevCommitProof.Proofs = maps.Clone(ph.Header.PrevCommitProof.Proofs)
		s.reproposed++
	}
	ph.Round = v.r
	ph.Annotations = tmconsensus.Annotations{User: []byte(fmt.Sprintf("u%d", s.phSeq))}
	s.fx.SignProposal(s.ctx, &ph, proposer)
	if s.pastPHs == nil {
		s.pastPHs = map[uint64][]tmconsensus.ProposedHeader{}
	}
	s.pastPHs[v.h] = append(s.pastPHs[v.h], ph)
	v.phs = append(v.phs, ph)
	v.version++
	v.dirty = true
	s.pending++
	return ph.Header.Hash
}

// addVotes adds really signed votes of the validators idxs for target hash.
func (s *sim) addVotes(kind int, role string, hash string, idxs []int) {
	v := s.view(role)
	if !v.exists || len(idxs) == 0 {
		return
	}
	vt := tmconsensus.VoteTarget{Height: v.h, Round: v.r, BlockHash: hash}
	already := v.signers(kind)
	unionBefore := len(already)
	added := false
	for _, idx := range idxs {
		if _, ok := v.votes[kind][hash][idx]; ok {
			continue
		}
		var sig []byte
		if kind == kindPrevote {
			sig = s.fx.PrevoteSignature(s.ctx, vt, idx)
		} else {
			sig = s.fx.PrecommitSignature(s.ctx, vt, idx)
		}
		proof, ok := v.proofs[kind][hash]
		if !ok {
			if kind == kindPrevote {
				proof = s.fx.PrevoteSignatureProof(s.ctx, vt, nil, nil)
			} else {
				proof = s.fx.PrecommitSignatureProof(s.ctx, vt, nil, nil)
			}
			v.proofs[kind][hash] = proof
			v.votes[kind][hash] = map[int][]byte{}
		}
		if err := proof.AddSignature(sig, s.fx.ValidatorPubKey(idx)); err != nil {
			s.failure = "harness: AddSignature failed: " + err.Error()
			return
		}
		v.votes[kind][hash][idx] = sig
		if already[idx] {
			s.st.equivocations++
		}
		added = true
	}
	if !added {
		return
	}
	if len(v.signers(kind)) == unionBefore {
		s.st.equalCountChanges++
	}
	v.version++
	v.kindVersion[kind]++
	v.blockVersion[kind][hash]++
	v.dirty = true
	s.pending++
	s.transitions(kind, role)
}

func (s *sim) transitions(kind int, role string) {
	switch {
	case role == roleVoting && kind == kindPrecommit:
		v := &s.voting
		var bestHash string
		var best uint64
		for hash, m := range v.votes[kind] {
			set := map[int]bool{}
			for i := range m {
				set[i] = true
			}
			if p := s.power(set); p > best || (p == best && hash < bestHash) {
				best, bestHash = p, hash
			}
		}
		if best >= s.maj() {
			if bestHash == "" {
				s.advance()
				return
			}
			for _, ph := range v.phs {
				if string(ph.Header.Hash) == bestHash {
					s.commit(ph.Header)
					return
				}
			}
			return // the kernel would go and fetch the header
		}
		if s.power(v.signers(kind)) == s.total {
			s.advance()
		}
	case role == roleNext:
		if s.power(s.next.signers(kind)) >= s.min() {
			s.jump()
		}
	}
}

func (s *sim) commit(h tmconsensus.Header) {
	s.st.commits++
	s.st.viewSwitches++
	s.appHash++
	s.fx.CommitBlock(h, []byte{s.appHash}, s.voting.r, s.voting.proofs[kindPrecommit])
	pc := tmconsensus.CommitProof{Round: s.voting.r, PubKeyHash: s.pkHash, Proofs: map[string][]gcrypto.SparseSignature{}}
	for hash, p := range s.voting.proofs[kindPrecommit] {
		pc.Proofs[hash] = p.AsSparse().Signatures
	}
	s.committing = s.voting
	s.committing.dirty = true
	s.voting = freshView(h.Height+1, 0, pc)
	s.next = freshView(h.Height+1, 1, pc)
	s.pending++
}

func (s *sim) advance() {
	s.st.advances++
	s.st.viewSwitches++
	snap := s.voting // the maps are never touched again: voting is replaced below
	if len(s.nvrQueue) > 0 {
		s.st.nvrQueuedBehind++
	}
	s.nvrQueue = append(s.nvrQueue, &snap)
	s.shiftRound()
}

func (s *sim) jump() {
	s.st.jumps++
	s.st.viewSwitches++
	s.shiftRound()
}

func (s *sim) shiftRound() {
	pc := s.voting.prevCommit
	s.voting = s.next
	s.voting.dirty = true
	s.next = freshView(s.voting.h, s.voting.r+1, pc)
	s.pending++
}

func cloneProofs(m map[string]gcrypto.CommonMessageSignatureProof) map[string]gcrypto.CommonMessageSignatureProof {
	out := make(map[string]gcrypto.CommonMessageSignatureProof, len(m))
	for k, p := range m {
		out[k] = p.Clone()
	}
	return out
}

func (s *sim) vrv(v *mview) *tmconsensus.VersionedRoundView {
	out := &tmconsensus.VersionedRoundView{
		RoundView: tmconsensus.RoundView{
			Height: v.h, Round: v.r,
			ValidatorSet:    s.valSet,
			PrevCommitProof: v.prevCommit.Clone(),
			ProposedHeaders: slices.Clone(v.phs),
			PrevoteProofs:   cloneProofs(v.proofs[kindPrevote]),
			PrecommitProofs: cloneProofs(v.proofs[kindPrecommit]),
			VoteSummary:     tmconsensus.NewVoteSummary(),
		},
		Version:                v.version,
		PrevoteVersion:         v.kindVersion[kindPrevote],
		PrecommitVersion:       v.kindVersion[kindPrecommit],
		PrevoteBlockVersions:   maps.Clone(v.blockVersion[kindPrevote]),
		PrecommitBlockVersions: maps.Clone(v.blockVersion[kindPrecommit]),
	}
	out.VoteSummary.SetAvailablePower(s.vals)
	out.VoteSummary.SetVotePowers(s.vals, out.PrevoteProofs, out.PrecommitProofs)
	return out
}

// send hands one update to the strategy. Acceptance is the barrier.
func (s *sim) send(u tmelink.NetworkViewUpdate) bool {
	if s.failure != "" {
		return false
	}
	t := time.NewTimer(watchdog)
	defer t.Stop()
	select {
	case s.in <- u:
		return true
	case <-s.stratEnd:
		s.failKey = "C17:strategy-stopped-while-updates-pending"
		s.failure = "ChattyStrategy kernel goroutine ended although its context is live and the engine still has updates"
		return false
	case <-t.C:
		s.failure = "watchdog: update not accepted within 60 s"
		return false
	}
}

// deliver sends the current state of every view that changed since the last
// delivery (exactly what gossipViewManager.Output does).
func (s *sim) deliver() bool {
	var u tmelink.NetworkViewUpdate
	d := updDesc{Index: len(s.log)}
	type obs struct {
		role string
		v    mview
	}
	var seen []obs
	if s.committing.exists && s.committing.dirty {
		u.Committing = s.vrv(&s.committing)
		s.committing.dirty = false
		seen = append(seen, obs{roleCommitting, s.committing})
	}
	if len(s.nvrQueue) > 0 {
		// one nil-voted round per update, oldest first
		nv := s.nvrQueue[0]
		s.nvrQueue = s.nvrQueue[1:]
		u.NilVotedRound = s.vrv(nv)
		seen = append(seen, obs{roleNVR, *nv})
		s.st.nvr++
	}
	if s.voting.dirty {
		u.Voting = s.vrv(&s.voting)
		s.voting.dirty = false
		seen = append(seen, obs{roleVoting, s.voting})
	}
	if s.next.dirty {
		u.NextRound = s.vrv(&s.next)
		s.next.dirty = false
		seen = append(seen, obs{roleNext, s.next})
	}
	if len(seen) == 0 {
		return false
	}
	if len(s.log) == 0 && u.Voting == nil {
		s.failure = "harness: first update without voting view"
		return false
	}
	nvrAlone := u.NilVotedRound != nil && len(seen) == 1
	withRSC := true
	if nvrAlone {
		// A queued nil-voted round goes out on its own as soon as the strategy
		// reads again; the kernel's pending round session changes were flushed
		// with the previous update, unless MarkSent just expired old grace
		// sessions. Both shapes alternate (starting shape by validator count).
		withRSC = (s.st.nvrOnly+int64(s.n))%2 == 1
		s.st.nvrOnly++
		if withRSC {
			s.st.nvrOnlyWithRSC++
		}
	} else if u.NilVotedRound != nil {
		s.st.nvrWithViews++
	}
	if withRSC {
		u.RoundSessionChanges = []tmelink.RoundSessionChange{{Height: s.voting.h, Round: s.voting.r, State: tmelink.RoundSessionStateActive}}
	}
	if !s.send(u) {
		return false
	}
	s.orc.nvrAlone = nvrAlone
	for i := range seen {
		s.orc.observe(d.Index, seen[i].role, &seen[i].v)
		d.Views = append(d.Views, seen[i].v.desc(seen[i].role))
	}
	s.log = append(s.log, d)
	s.st.updates++
	s.st.views += int64(len(seen))
	if s.pending > 1 {
		s.st.coalesced += int64(s.pending - 1)
	}
	s.pending = 0
	return true
}

// finish delivers the sentinel view and the barrier update.
func (s *sim) finish() bool {
	ph := s.fx.NextProposedHeader([]byte("sentinel"), 0)
	ph.Header.Height = sentinelHeight
	s.fx.RecalculateHash(&ph.Header)
	s.fx.SignProposal(s.ctx, &ph, 0)
	s.voting = freshView(sentinelHeight, 0, tmconsensus.CommitProof{Proofs: map[string][]gcrypto.SparseSignature{}})
	s.voting.phs = []tmconsensus.ProposedHeader{ph}
	s.committing.dirty, s.next.dirty, s.nvrQueue = false, false, nil
	if !s.deliver() {
		return false
	}
	return s.send(tmelink.NetworkViewUpdate{
		RoundSessionChanges: []tmelink.RoundSessionChange{{Height: sentinelHeight, Round: 0, State: tmelink.RoundSessionStateExpired}},
	})
}

// ---------------------------------------------------------------------------
// random workload

func pick(rng *rand.Rand, set []int, k int) []int {
	set = slices.Clone(set)
	rng.Shuffle(len(set), func(i, j int) { set[i], set[j] = set[j], set[i] })
	if k > len(set) {
		k = len(set)
	}
	return set[:k]
}

func (s *sim) randomEvent(rng *rand.Rand, pEquiv float64) {
	type choice struct {
		w    int
		act  int // 0 ph, 1 prevote, 2 precommit, 3 nil-precommit burst
		role string
	}
	choices := []choice{
		{3, 0, roleVoting}, {1, 0, roleNext},
		{6, 1, roleVoting}, {1, 1, roleNext}, {1, 1, roleCommitting},
		{5, 2, roleVoting}, {1, 2, roleNext}, {2, 2, roleCommitting},
		{2, 3, roleVoting},
	}
	tot := 0
	for _, c := range choices {
		tot += c.w
	}
	x := rng.IntN(tot)
	var c choice
	for _, c = range choices {
		if x < c.w {
			break
		}
		x -= c.w
	}
	v := s.view(c.role)
	if !v.exists {
		return
	}
	if c.act == 0 {
		if len(v.phs) < 3 {
			s.addPH(c.role, rng.IntN(s.n))
		}
		return
	}
	if c.act == 3 {
		// one precommit message carrying enough nil precommits to end the round
		// (the whole network timed out): rounds can die back to back, faster
		// than the strategy reads.
		var fresh []int
		for i := 0; i < s.n; i++ {
			if _, ok := v.votes[kindPrecommit][""][i]; !ok {
				fresh = append(fresh, i)
			}
		}
		need := 2*s.n/3 + 1 - len(v.votes[kindPrecommit][""])
		if need > 0 && need <= len(fresh) {
			s.addVotes(kindPrecommit, roleVoting, "", pick(rng, fresh, need))
		}
		return
	}
	kind := c.act - 1
	// target: a proposed header of the view, nil, an already voted target, or
	// (prevotes only) a hash nobody has a header for.
	var targets []string
	for _, ph := range v.phs {
		targets = append(targets, string(ph.Header.Hash), string(ph.Header.Hash))
	}
	targets = append(targets, "")
	for h := range v.votes[kind] {
		targets = append(targets, h)
	}
	sort.Strings(targets)
	hash := targets[rng.IntN(len(targets))]
	if kind == kindPrecommit && rng.IntN(2) == 0 {
		// honest validators precommit what gathered prevotes: follow the crowd,
		// so that heights really commit.
		best, bestN := hash, -1
		for _, k := range []int{kindPrecommit, kindPrevote} {
			for _, h := range verifkit.SortedKeys(v.votes[k]) {
				if n := len(v.votes[k][h]); n > bestN {
					best, bestN = h, n
				}
			}
			if bestN >= 0 {
				break
			}
		}
		hash = best
	}
	if kind == kindPrevote && rng.IntN(25) == 0 {
		b := make([]byte, 32)
		for i := range b {
			b[i] = byte(rng.UintN(256))
		}
		hash = string(b)
		s.st.unknownHashVotes++
	}
	signedAny := v.signers(kind)
	var fresh, equiv []int
	for i := 0; i < s.n; i++ {
		if _, ok := v.votes[kind][hash][i]; ok {
			continue
		}
		if signedAny[i] {
			equiv = append(equiv, i)
		} else {
			fresh = append(fresh, i)
		}
	}
	var idxs []int
	switch {
	case len(equiv) > 0 && rng.Float64() < pEquiv:
		idxs = pick(rng, equiv, 1)
		if rng.IntN(3) == 0 {
			idxs = append(idxs, pick(rng, fresh, 1)...)
		}
	case len(fresh) > 0:
		idxs = pick(rng, fresh, 1+rng.IntN(2))
	default:
		return
	}
	s.addVotes(kind, c.role, hash, idxs)
}

type caseParams struct {
	N        int     `json:"validators"`
	Target   int     `json:"updates_wanted"`
	PDeliver float64 `json:"p_deliver_after_kernel_step"`
	PEquiv   float64 `json:"p_equivocation"`
	Pre      int     `json:"kernel_steps_before_first_update"`
	Power    int     `json:"power_profile"`
}

func drawParams(rng *rand.Rand) caseParams {
	return caseParams{
		N:        4 + rng.IntN(4),
		Target:   2 + rng.IntN(23),
		PDeliver: []float64{1, 1, 0.75, 0.5}[rng.IntN(4)],
		PEquiv:   []float64{0, 0.15, 0.4}[rng.IntN(3)],
		Pre:      rng.IntN(6),
		Power:    []int{0, 0, 1, 1, 2}[rng.IntN(5)],
	}
}

func randomScript(rng *rand.Rand, p caseParams) func(*sim) {
	return func(s *sim) {
		for i := 0; i < p.Pre; i++ {
			s.randomEvent(rng, p.PEquiv)
		}
		if !s.deliver() {
			return
		}
		for steps := 0; int(s.st.updates) < p.Target && steps < 600 && s.failure == ""; steps++ {
			s.randomEvent(rng, p.PEquiv)
			if rng.Float64() < p.PDeliver {
				s.deliver()
				// further nil-voted rounds are waiting: the kernel offers the next
				// one at once; the strategy may read it before or after the next
				// kernel step.
				for len(s.nvrQueue) > 0 && int(s.st.updates) < p.Target && rng.IntN(3) != 0 {
					s.deliver()
				}
			}
		}
	}
}

// directed scripts: the smallest histories for the behaviours the property names.
type directed struct {
	name    string
	n       int
	run     func(*sim)
	profile int
}

var directedCases = []directed{
	{"directed-equivocating-prevote-same-signer-count", 4, func(s *sim) {
		a := string(s.addPH(roleVoting, 0))
		b := string(s.addPH(roleVoting, 1))
		s.addVotes(kindPrevote, roleVoting, a, []int{0})
		s.deliver()
		s.addVotes(kindPrevote, roleVoting, b, []int{0})
		s.deliver()
	}, 0},
	{"directed-equivocating-precommit-same-signer-count", 4, func(s *sim) {
		a := string(s.addPH(roleVoting, 0))
		s.addVotes(kindPrecommit, roleVoting, a, []int{1})
		s.deliver()
		s.addVotes(kindPrecommit, roleVoting, "", []int{1})
		s.deliver()
	}, 0},
	{"directed-nil-committed-round-final-precommits", 4, func(s *sim) {
		s.addPH(roleVoting, 0)
		s.addVotes(kindPrevote, roleVoting, "", []int{0, 1, 2})
		s.addVotes(kindPrecommit, roleVoting, "", []int{0, 1})
		s.deliver()
		s.addVotes(kindPrecommit, roleVoting, "", []int{2}) // > 2/3 nil: round advances
		s.deliver()
	}, 0},
	{"directed-nil-committed-round-before-first-update", 4, func(s *sim) {
		// the round dies before the strategy has read anything: the kernel's
		// first output then carries Voting (1,1) and NilVotedRound (1,0).
		s.addVotes(kindPrecommit, roleVoting, "", []int{0, 1, 2})
		s.deliver()
	}, 0},
	{"directed-two-nil-committed-rounds-while-strategy-busy", 4, func(s *sim) {
		// rounds 0 and 1 both nil-commit between two reads of the strategy: the
		// first update after that carries the views and NilVotedRound (1,0), the
		// next one carries nothing but NilVotedRound (1,1).
		s.addPH(roleVoting, 0)
		s.deliver()
		s.addVotes(kindPrecommit, roleVoting, "", []int{0, 1, 2}) // round 0 dies
		s.addVotes(kindPrecommit, roleVoting, "", []int{1, 2, 3}) // round 1 dies
		s.deliver()
		s.deliver()
	}, 0},
	{"directed-three-nil-committed-rounds-queue-drained-one-per-update", 4, func(s *sim) {
		s.deliver()
		s.addVotes(kindPrecommit, roleVoting, "", []int{0, 1, 2})
		s.addVotes(kindPrecommit, roleVoting, "", []int{0, 1, 3})
		s.addVotes(kindPrecommit, roleVoting, "", []int{0, 2, 3})
		s.deliver()                                       // views + NilVotedRound (1,0)
		s.deliver()                                       // NilVotedRound (1,1) only, no session changes
		s.addVotes(kindPrevote, roleVoting, "", []int{1}) // a kernel step slips in
		s.deliver()                                       // voting view + NilVotedRound (1,2)
	}, 0},
	{"directed-queued-nil-voted-round-with-the-signer-counts-of-the-newer-voting-view", 4, func(s *sim) {
		// validators 0 and 1 hold more than 2/3: they nil-commit rounds 0 and 1 back to back
		// while the strategy is busy; in round 2 the two light validators precommit nil
		// first. The update after that carries the views and NilVotedRound (1,0); the next
		// one only NilVotedRound (1,1), whose precommit map has the same target and as
		// many signers as the voting view (1,2) handed over before it.
		s.deliver()
		s.addVotes(kindPrecommit, roleVoting, "", []int{0, 1})
		s.addVotes(kindPrecommit, roleVoting, "", []int{0, 1})
		s.addVotes(kindPrecommit, roleVoting, "", []int{2, 3})
		s.deliver()
		s.deliver()
	}, 1},
	{"directed-nil-voted-round-only-with-session-changes", 4, func(s *sim) {
		s.deliver()
		s.addVotes(kindPrecommit, roleVoting, "", []int{0, 1, 2})
		s.addVotes(kindPrecommit, roleVoting, "", []int{0, 1, 3})
		s.addVotes(kindPrecommit, roleVoting, "", []int{0, 2, 3})
		s.deliver() // views + NilVotedRound (1,0)
		s.deliver() // NilVotedRound (1,1) only
		s.deliver() // NilVotedRound (1,2) only, with RoundSessionChanges
	}, 0},
	{"directed-commit-then-late-precommit", 4, func(s *sim) {
		a := string(s.addPH(roleVoting, 0))
		s.addVotes(kindPrevote, roleVoting, a, []int{0, 1, 2})
		s.deliver()
		s.addVotes(kindPrecommit, roleVoting, a, []int{0, 1, 2}) // commits height 1
		s.deliver()
		s.addVotes(kindPrecommit, roleCommitting, a, []int{3})
		s.addPH(roleVoting, 1)
		s.deliver()
	}, 0},
	{"directed-next-round-content-then-jump", 4, func(s *sim) {
		s.addPH(roleVoting, 0)
		s.deliver()
		b := string(s.addPH(roleNext, 1))
		s.addVotes(kindPrevote, roleNext, b, []int{1})
		s.deliver()
		s.addVotes(kindPrevote, roleNext, b, []int{2}) // minority reached: jump to round 1
		s.addPH(roleNext, 2)                           // new next round (1,2) gets a header before the strategy reads
		s.deliver()
	}, 0},
}

// ---------------------------------------------------------------------------
// one case

type caseOut struct {
	st           stats
	nIn, nOut    int
	outMsgs      int
	unjudged     int
	dupOffers    int
	digest       []byte
	inconclusive string
	violations   int
	sample       map[string]any
}

func outSummary(msgs []outMsg) []map[string]any {
	var out []map[string]any
	for i, m := range msgs {
		e := map[string]any{"seq": i, "kind": m.kind}
		if m.kind == "proposed-header" {
			e["height"], e["round"], e["hash"] = m.ph.Header.Height, m.ph.Round, hex.EncodeToString(m.ph.Header.Hash)
		} else {
			e["height"], e["round"] = m.h, m.r
			sg := map[string][]string{}
			for hash, sigs := range m.proofs {
				for _, ss := range sigs {
					sg[hashName(hash)] = append(sg[hashName(hash)], hex.EncodeToString(ss.KeyID))
				}
			}
			e["signer_key_ids_by_target"] = sg
		}
		out = append(out, e)
	}
	return out
}

func runCase(r *verifkit.Run, caseID string, n int, profile int, params any, script func(*sim)) caseOut {
	var co caseOut
	r.BeginCase(caseID)
	ctx, cancel := context.WithCancel(context.Background())
	defer cancel()

	rec := newRecorder()
	go rec.run()
	log := slog.New(slog.NewTextHandler(io.Discard, nil))
	strat := tmgossip.NewChattyStrategy(ctx, log, rec)
	in := make(chan tmelink.NetworkViewUpdate) // unbuffered: acceptance is the barrier
	strat.Start(in)
	stratEnd := make(chan struct{})
	go func() { strat.Wait(); close(stratEnd) }()

	s := newSim(ctx, n, profile, in, stratEnd)
	script(s)
	ok := s.failure == "" && s.finish()

	// synchronise with the recorder, then stop everything.
	if ok {
		t := time.NewTimer(watchdog)
		select {
		case rec.sync <- struct{}{}:
		case <-t.C:
			s.failure = "watchdog: recorder did not synchronise"
			ok = false
		}
		t.Stop()
	}
	cancel()
	t := time.NewTimer(watchdog)
	select {
	case <-stratEnd:
	case <-t.C:
		if s.failure == "" {
			s.failure = "watchdog: strategy did not stop after context cancellation"
		}
		ok = false
	}
	t.Stop()
	close(rec.stop)
	<-rec.done

	co.st = s.st
	witness := func(extra map[string]any) map[string]any {
		w := map[string]any{"case": caseID, "seed": r.Seed, "params": params, "validators": n,
			"updates": s.log, "offered": outSummary(rec.msgs)}
		for k, v := range extra {
			w[k] = v
		}
		return w
	}
	if !ok {
		if s.failKey != "" {
			r.Violate(s.failKey, s.failure, caseID, witness(nil))
			co.violations++
		} else {
			co.inconclusive = caseID + ": " + s.failure
		}
		return co
	}

	// ---- OUT
	out := map[string]int{}
	for seq, m := range rec.msgs {
		co.outMsgs++
		if m.kind == "proposed-header" {
			k := phKey(m.ph)
			out[k]++
			it, okIn := s.orc.items[k]
			if !okIn {
				r.Violate("C17:offered-proposed-header-not-in-any-delivered-view",
					fmt.Sprintf("proposed header h=%d r=%d hash=%x was offered but is in no delivered view", m.ph.Header.Height, m.ph.Round, m.ph.Header.Hash),
					caseID, witness(map[string]any{"offered_seq": seq}))
				co.violations++
			} else if !reflect.DeepEqual(*it.ph, m.ph) {
				r.Violate("C17:offered-proposed-header-differs-from-delivered",
					fmt.Sprintf("proposed header h=%d r=%d hash=%x was offered with altered fields", m.ph.Header.Height, m.ph.Round, m.ph.Header.Hash),
					caseID, witness(map[string]any{"offered_seq": seq}))
				co.violations++
			}
			continue
		}
		kind := kindPrevote
		if m.kind == "precommit" {
			kind = kindPrecommit
		}
		if m.pkHash != s.pkHash {
			r.Violate("C17:offered-vote-message-with-foreign-pubkey-hash",
				fmt.Sprintf("%s message h=%d r=%d carries pub key hash %x, views have %x", m.kind, m.h, m.r, m.pkHash, s.pkHash),
				caseID, witness(map[string]any{"offered_seq": seq}))
			co.violations++
		}
		for hash, sigs := range m.proofs {
			for _, ss := range sigs {
				k := voteKey(kind, m.h, m.r, hash, ss.KeyID, ss.Sig)
				out[k]++
				if _, okIn := s.orc.items[k]; !okIn {
					r.Violate("C17:offered-"+m.kind+"-signature-not-in-any-delivered-view",
						fmt.Sprintf("%s h=%d r=%d target=%s key id %x sig %x was offered but is in no delivered view", m.kind, m.h, m.r, hashName(hash), ss.KeyID, ss.Sig),
						caseID, witness(map[string]any{"offered_seq": seq}))
					co.violations++
				}
			}
		}
	}
	co.nOut = len(out)
	for _, c := range out {
		if c > 1 {
			co.dupOffers += c - 1
		}
	}

	// ---- IN subset of OUT
	co.nIn = len(s.orc.items)
	for _, k := range s.orc.order {
		it := s.orc.items[k]
		if out[k] > 0 {
			continue
		}
		if !it.judged {
			co.unjudged++
			continue
		}
		var key, what string
		switch {
		case it.Kind == "proposed-header":
			key = "C17:proposed-header-never-offered:" + it.Reason
			what = fmt.Sprintf("proposed header h=%d r=%d hash=%s was delivered (first in update %d, %s view, %s) and never offered to the broadcaster",
				it.H, it.R, it.Target, it.FirstUpd, it.FirstRole, it.Reason)
		case it.Reason == "equal-signer-count":
			// one defect for both vote kinds: the diff compares signer counts
			key = "C17:vote-signature-never-offered:equal-signer-count-different-signatures"
			what = fmt.Sprintf("%s of validator %d for target %s at h=%d r=%d arrived in update %d (%s view) while the number of distinct signers of the view did not change; it was never offered to the broadcaster",
				it.Kind, it.Signer, it.Target, it.H, it.R, it.FirstUpd, it.FirstRole)
		default:
			key = "C17:vote-signature-never-offered:" + it.Kind + ":" + it.Reason
			what = fmt.Sprintf("%s of validator %d for target %s at h=%d r=%d was delivered (first in update %d, %s view, %s) and never offered to the broadcaster",
				it.Kind, it.Signer, it.Target, it.H, it.R, it.FirstUpd, it.FirstRole, it.Reason)
		}
		r.Violate(key, what, caseID, witness(map[string]any{"missing": it}))
		co.violations++
	}

	b, _ := json.Marshal(s.log)
	d := sha256.Sum256(b)
	co.digest = d[:]
	co.sample = map[string]any{"case": caseID, "params": params, "updates_delivered": len(s.log),
		"in_items": co.nIn, "distinct_out_items": co.nOut, "out_messages": co.outMsgs,
		"commits": s.st.commits, "nil_advances": s.st.advances, "jumps": s.st.jumps,
		"equivocations": s.st.equivocations, "first_updates": firstN(s.log, 3)}
	return co
}

func firstN(l []updDesc, n int) []updDesc {
	if len(l) > n {
		return l[:n]
	}
	return l
}

// selfCheck makes sure the harness' idea of the sparse key id matches the
// proof scheme in use; otherwise every comparison would be meaningless.
func selfCheck() error {
	fx := tmconsensustest.NewEd25519Fixture(4)
	ctx := context.Background()
	vt := tmconsensus.VoteTarget{Height: 1, Round: 0, BlockHash: "x"}
	p := fx.PrevoteSignatureProof(ctx, vt, nil, []int{2})
	sp := p.AsSparse()
	if len(sp.Signatures) != 1 || !bytes.Equal(sp.Signatures[0].KeyID, keyID(2)) ||
		!bytes.Equal(sp.Signatures[0].Sig, fx.PrevoteSignature(ctx, vt, 2)) {
		return fmt.Errorf("sparse form of a one-signature proof is %+v; harness expects key id %x and the deterministic ed25519 signature", sp, keyID(2))
	}
	return nil
}

func TestVerif_C17(t *testing.T) {
	r := verifkit.Start("C17")
	if r == nil {
		t.Skip("not started by the /verif driver")
	}
	defer r.Finish()
	r.SetRule("Each case runs a real tmgossip.ChattyStrategy against a recording broadcaster (unbuffered Outgoing* channels) and feeds it 2-25 NetworkViewUpdates produced by a simulator of the mirror kernel's gossip output: 4-7 ed25519 validators from tmconsensustest.NewEd25519Fixture, really signed proposed headers and votes, views growing per (height, round) with increasing versions, commits (Voting->Committing, new height), nil-committed rounds queued as NilVotedRound (one per update, oldest first: together with views, alone, alone with RoundSessionChanges), jumps to the next round, votes for unknown hashes, precommit messages that nil-commit a round at once (so rounds die back to back), equivocation with probability 0/0.15/0.4 (equal signer count, different signatures), and delivery after each kernel step with probability 1/0.75/0.5 (the kernel only ever hands over its latest state). 10 directed minimal histories run first. Barrier: acceptance of the next update on the unbuffered input channel; a sentinel view plus a final barrier update end each case. Oracle: set equality between everything in delivered views (headers; kind,height,round,target,key id,signature bytes - from the simulator's own bookkeeping) and everything offered; prevotes/headers that occur only in a NilVotedRound view are not judged (counted as nvr_only_items_not_offered_unjudged). Non-trivial = a case with >= 2 delivered updates whose IN and OUT are both non-empty, digest = SHA-256 of the delivered update history.")

	if err := selfCheck(); err != nil {
		r.Inconclusive("self check failed: %v", err)
		return
	}

	nRandom := r.N(1000, 50000)
	var mu sync.Mutex
	agg := map[string]int64{}
	account := func(co caseOut, sample bool) {
		r.Eval(1)
		if co.inconclusive != "" {
			r.Inconclusive("%s", co.inconclusive)
			return
		}
		if co.digest != nil && co.st.updates >= 2 && co.nIn > 0 && co.nOut > 0 {
			r.Nontrivial(co.digest)
		}
		if co.sample != nil && sample {
			r.Sample(co.sample)
		}
		mu.Lock()
		agg["updates_delivered"] += co.st.updates
		agg["views_delivered"] += co.st.views
		agg["nil_voted_round_views_delivered"] += co.st.nvr
		agg["nil_voted_rounds_queued_behind_an_unsent_one"] += co.st.nvrQueuedBehind
		agg["updates_with_nil_voted_round_only"] += co.st.nvrOnly
		agg["updates_with_nil_voted_round_and_session_changes_only"] += co.st.nvrOnlyWithRSC
		agg["updates_with_nil_voted_round_and_views"] += co.st.nvrWithViews
		agg["kernel_commits"] += co.st.commits
		agg["kernel_nil_round_advances"] += co.st.advances
		agg["kernel_round_jumps"] += co.st.jumps
		agg["kernel_steps_coalesced_into_a_later_update"] += co.st.coalesced
		agg["equivocating_signatures_added"] += co.st.equivocations
		agg["vote_additions_with_unchanged_signer_count"] += co.st.equalCountChanges
		agg["votes_for_unknown_hash"] += co.st.unknownHashVotes
		agg["in_items"] += int64(co.nIn)
		agg["distinct_out_items"] += int64(co.nOut)
		agg["out_messages"] += int64(co.outMsgs)
		agg["repeated_offers"] += int64(co.dupOffers)
		agg["nvr_only_items_not_offered_unjudged"] += int64(co.unjudged)
		agg["violating_items"] += int64(co.violations)
		mu.Unlock()
	}
	// The directed histories run first and one after the other, so that the
	// witness kept for a key is the minimal history whenever there is one.
	for i, d := range directedCases {
		account(runCase(r, d.name, d.n, d.profile, map[string]any{"directed": d.name, "power_profile": d.profile}, d.run), i < 2)
	}
	r.Parallel(nRandom, func(ci int) {
		rng := r.CaseRNG(ci)
		p := drawParams(rng)
		account(runCase(r, fmt.Sprintf("random-%d", ci), p.N, p.Power, p, randomScript(rng, p)), ci < 2)
	})
	for _, k := range verifkit.SortedKeys(agg) {
		r.Count(k, agg[k])
	}
}
