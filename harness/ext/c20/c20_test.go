package c20

// C20, in-memory half: DaisyChain A - B - C.
//
// A and C are endpoints with recording accept-all handlers; B is the node
// under observation. Its handler is a harness ConsensusHandler that records
// the tag carried by each message and answers with a verdict that is a pure
// function of that tag. The oracle looks only at (what the far endpoint
// received) and (what B's handlers recorded).

import (
	"context"
	"fmt"
	"strconv"
	"strings"
	"sync"
	"sync/atomic"
	"testing"
	"time"

	"github.com/gordian-engine/gordian/gcrypto"
	"github.com/gordian-engine/gordian/gexchange"
	"github.com/gordian-engine/gordian/tm/tmconsensus"
	"github.com/gordian-engine/gordian/tm/tmp2p/tmp2ptest"
	"verif/ext/verifkit"
)

type dcVerdict struct {
	name string
	f    gexchange.Feedback
}

// Index 0 must be "accepted" (sentinels use it).
var dcVerdicts = []dcVerdict{
	{"accepted", gexchange.FeedbackAccepted},
	{"rejected", gexchange.FeedbackRejected},
	{"ignored", gexchange.FeedbackIgnored},
	{"unspecified(0)", gexchange.Feedback(0)},
	{"reject-and-disconnect(4)", gexchange.Feedback(4)},
	{"out-of-range(200)", gexchange.Feedback(200)},
}

const dcTagPrefix = "c20dc"

// tag = c20dc|<chain>|<verdict index>|<seq>
func dcTag(chain, verdict, seq int) string {
	return fmt.Sprintf("%s|%d|%d|%d", dcTagPrefix, chain, verdict, seq)
}

// dcVerdictOf is the pure function tag -> verdict.
func dcVerdictOf(tag string) (int, bool) {
	p := strings.Split(tag, "|")
	if len(p) != 4 || p[0] != dcTagPrefix {
		return 0, false
	}
	v, err := strconv.Atoi(p[2])
	if err != nil || v < 0 || v >= len(dcVerdicts) {
		return 0, false
	}
	return v, true
}

type dcRecord struct {
	Handler string `json:"handler"`
	Verdict string `json:"verdict"`
	Kind    string `json:"kind"`
	Seq     int64  `json:"order"`
}

type dcRecorder struct {
	mu      sync.Mutex
	recs    map[string][]dcRecord
	foreign int
	order   *atomic.Int64
}

func newDCRecorder(order *atomic.Int64) *dcRecorder {
	return &dcRecorder{recs: map[string][]dcRecord{}, order: order}
}

func (r *dcRecorder) add(tag string, rec dcRecord) {
	rec.Seq = r.order.Add(1)
	r.mu.Lock()
	r.recs[tag] = append(r.recs[tag], rec)
	r.mu.Unlock()
}

func (r *dcRecorder) get(tag string) []dcRecord {
	r.mu.Lock()
	defer r.mu.Unlock()
	return append([]dcRecord(nil), r.recs[tag]...)
}

func (r *dcRecorder) has(tag string) bool {
	r.mu.Lock()
	defer r.mu.Unlock()
	return len(r.recs[tag]) > 0
}

// dcHandler: verdict is a pure function of the tag. acceptAll handlers are the endpoints.
type dcHandler struct {
	name      string
	rec       *dcRecorder
	acceptAll bool
}

func (h *dcHandler) handle(tag, kind string) gexchange.Feedback {
	if h.acceptAll {
		h.rec.add(tag, dcRecord{Handler: h.name, Verdict: "accepted", Kind: kind})
		return gexchange.FeedbackAccepted
	}
	v, ok := dcVerdictOf(tag)
	if !ok {
		h.rec.mu.Lock()
		h.rec.foreign++
		h.rec.mu.Unlock()
		return gexchange.FeedbackIgnored
	}
	h.rec.add(tag, dcRecord{Handler: h.name, Verdict: dcVerdicts[v].name, Kind: kind})
	return dcVerdicts[v].f
}

func (h *dcHandler) HandleProposedHeader(_ context.Context, ph tmconsensus.ProposedHeader) gexchange.Feedback {
	return h.handle(string(ph.Header.DataID), "proposed-header")
}

func dcProofTag(proofs map[string][]gcrypto.SparseSignature) string {
	for _, sigs := range proofs {
		for _, s := range sigs {
			return string(s.Sig)
		}
	}
	return ""
}

func (h *dcHandler) HandlePrevoteProofs(_ context.Context, p tmconsensus.PrevoteSparseProof) gexchange.Feedback {
	return h.handle(dcProofTag(p.Proofs), "prevote")
}

func (h *dcHandler) HandlePrecommitProofs(_ context.Context, p tmconsensus.PrecommitSparseProof) gexchange.Feedback {
	return h.handle(dcProofTag(p.Proofs), "precommit")
}

var dcKinds = []string{"proposed-header", "prevote", "precommit"}

type dcMsg struct {
	Tag     string `json:"tag"`
	Kind    string `json:"kind"`
	Verdict string `json:"verdict_if_handled"`
	Phase   string `json:"phase"`
	Dir     string `json:"direction"`
}

type dcEndpoint struct {
	name string
	conn *tmp2ptest.DaisyChainConnection
	rec  *dcRecorder
}

func (e *dcEndpoint) send(ctx context.Context, kind int, tag string, seq int) bool {
	bc := e.conn.ConsensusBroadcaster()
	switch kind {
	case 0:
		ph := tmconsensus.ProposedHeader{
			Header: tmconsensus.Header{Height: uint64(seq + 1), DataID: []byte(tag), Hash: []byte("hash-" + tag)},
			Round:  uint32(seq % 3),
		}
		select {
		case bc.OutgoingProposedHeaders() <- ph:
			return true
		case <-ctx.Done():
			return false
		}
	case 1:
		p := tmconsensus.PrevoteSparseProof{Height: uint64(seq + 1), Round: uint32(seq % 3), PubKeyHash: "pkh",
			Proofs: map[string][]gcrypto.SparseSignature{"block": {{KeyID: []byte{0, 0}, Sig: []byte(tag)}}}}
		select {
		case bc.OutgoingPrevoteProofs() <- p:
			return true
		case <-ctx.Done():
			return false
		}
	default:
		p := tmconsensus.PrecommitSparseProof{Height: uint64(seq + 1), Round: uint32(seq % 3), PubKeyHash: "pkh",
			Proofs: map[string][]gcrypto.SparseSignature{"": {{KeyID: []byte{0, 1}, Sig: []byte(tag)}}}}
		select {
		case bc.OutgoingPrecommitProofs() <- p:
			return true
		case <-ctx.Done():
			return false
		}
	}
}

type dcTotals struct {
	published, handled, relayed        [6]atomic.Int64 // by verdict index
	relayedNoRecord                    [2]atomic.Int64 // 0: static no-handler phases, 1: dynamic
	relayedNoRecordByDir               [2]atomic.Int64
	swaps, swapSkipped, sentinels      atomic.Int64
	publishedNoHandlerStatic           atomic.Int64
	publishedByKind                    [3]atomic.Int64
	handledWhileNilPhaseStatic         atomic.Int64
	duplicatesAtFarEnd, foreignAtB     atomic.Int64
	chains, chainsTimedOut, phasesSeen atomic.Int64
}

func TestVerif_C20_daisychain(t *testing.T) {
	r := verifkit.Start("C20")
	if r == nil {
		t.Skip("not started by the /verif driver")
	}
	defer r.Finish()
	r.SetRule("tmp2ptest.DaisyChainNetwork line A-B-C per case. Endpoints A and C have recording accept-all handlers and publish proposed headers, prevote and precommit proofs carrying a unique tag (direction alternates per phase). B's handler (H1/H2, swapped by the harness, or none) records the tag and answers accepted/rejected/ignored/0/4/200 as a pure function of the tag. Phases: never-set handler, H1, explicit nil, H2 (static, no swap in flight), then dynamic phases in which a second goroutine calls SetConsensusHandler every 1-5 messages cycling {nil,H1,H2}. Quiescence by sentinels (accepted verdict, stable handler) on each of the three FIFO outgoing channels, twice. Oracle: every tag the far endpoint received must have a B-handler record with verdict accepted. Non-trivial = (case, phase) in which B's handler was called or the far endpoint received something; digest = (case, phase, counts).")

	nChains := r.N(32, 1024)
	perDyn := r.N(500, 5000)
	perStatic := r.N(24, 120)
	var tot dcTotals

	r.Parallel(nChains, func(i int) {
		caseID := fmt.Sprintf("chain-%d", i)
		r.BeginCase(caseID)
		done := make(chan struct{})
		ctx, cancel := context.WithCancel(context.Background())
		go func() {
			defer close(done)
			dcRunChain(t, r, ctx, i, perStatic, perDyn, &tot)
		}()
		select {
		case <-done:
			cancel()
		case <-time.After(180 * time.Second):
			tot.chainsTimedOut.Add(1)
			r.Inconclusive("%s: did not finish within 180s (watchdog)", caseID)
			cancel()
			select {
			case <-done:
			case <-time.After(20 * time.Second):
			}
		}
		r.Eval(1)
	})

	for v := range dcVerdicts {
		r.Count("published."+dcVerdicts[v].name, tot.published[v].Load())
		r.Count("handled_by_B."+dcVerdicts[v].name, tot.handled[v].Load())
		r.Count("relayed_to_far_end."+dcVerdicts[v].name, tot.relayed[v].Load())
	}
	for k := range dcKinds {
		r.Count("published_kind."+dcKinds[k], tot.publishedByKind[k].Load())
	}
	r.Count("published_in_static_no_handler_phases", tot.publishedNoHandlerStatic.Load())
	r.Count("relayed_without_B_record.static_no_handler", tot.relayedNoRecord[0].Load())
	r.Count("relayed_without_B_record.dynamic", tot.relayedNoRecord[1].Load())
	r.Count("relayed_without_B_record.A_to_C", tot.relayedNoRecordByDir[0].Load())
	r.Count("relayed_without_B_record.C_to_A", tot.relayedNoRecordByDir[1].Load())
	r.Count("handler_swaps", tot.swaps.Load())
	r.Count("handler_swaps_skipped_busy", tot.swapSkipped.Load())
	r.Count("sentinels", tot.sentinels.Load())
	r.Count("duplicates_at_far_end(not judged)", tot.duplicatesAtFarEnd.Load())
	r.Count("foreign_tags_at_B", tot.foreignAtB.Load())
	r.Count("chains", tot.chains.Load())
	r.Count("chains_timed_out", tot.chainsTimedOut.Load())
}

type dcPhase struct {
	name    string
	handler int // -2: leave as is (never set), -1: nil, 1: H1, 2: H2
	dynamic bool
	n       int
	dir     int // 0: A->C, 1: C->A
}

func dcRunChain(t *testing.T, r *verifkit.Run, ctx context.Context, idx, perStatic, perDyn int, tot *dcTotals) {
	caseID := fmt.Sprintf("chain-%d", idx)
	rng := r.CaseRNG(idx)
	nctx, ncancel := context.WithCancel(ctx)
	net := tmp2ptest.NewDaisyChainNetwork(t, nctx)
	defer func() {
		ncancel()
		net.Wait()
	}()

	var order atomic.Int64
	connA, errA := net.Connect(nctx)
	connB, errB := net.Connect(nctx)
	connC, errC := net.Connect(nctx)
	if errA != nil || errB != nil || errC != nil {
		r.Inconclusive("%s: connect failed: %v %v %v", caseID, errA, errB, errC)
		return
	}
	tot.chains.Add(1)
	ends := [2]*dcEndpoint{
		{name: "A", conn: connA, rec: newDCRecorder(&order)},
		{name: "C", conn: connC, rec: newDCRecorder(&order)},
	}
	connA.SetConsensusHandler(nctx, &dcHandler{name: "A", rec: ends[0].rec, acceptAll: true})
	connC.SetConsensusHandler(nctx, &dcHandler{name: "C", rec: ends[1].rec, acceptAll: true})

	bRec := newDCRecorder(&order)
	handlers := map[int]tmconsensus.ConsensusHandler{
		-1: nil,
		1:  &dcHandler{name: "H1", rec: bRec},
		2:  &dcHandler{name: "H2", rec: bRec},
	}
	var setMu sync.Mutex
	setB := func(h int) {
		setMu.Lock()
		defer setMu.Unlock()
		connB.SetConsensusHandler(nctx, handlers[h])
	}

	d0 := rng.IntN(2)
	phases := []dcPhase{
		{name: "static:never-set", handler: -2, n: perStatic, dir: d0},
		{name: "static:H1", handler: 1, n: perStatic, dir: 1 - d0},
		{name: "static:nil", handler: -1, n: perStatic, dir: 1 - d0},
		{name: "static:nil-reverse", handler: -1, n: perStatic, dir: d0},
		{name: "static:H2", handler: 2, n: perStatic, dir: d0},
		{name: "dynamic:0", handler: -2, dynamic: true, n: perDyn / 2, dir: d0},
		{name: "dynamic:1", handler: -2, dynamic: true, n: perDyn - perDyn/2, dir: 1 - d0},
	}

	var published []dcMsg
	seq := 0
	publish := func(ph dcPhase, verdict int, kind int) bool {
		tag := dcTag(idx, verdict, seq)
		seq++
		src := ends[ph.dir]
		published = append(published, dcMsg{Tag: tag, Kind: dcKinds[kind], Verdict: dcVerdicts[verdict].name, Phase: ph.name,
			Dir: src.name + "->" + ends[1-ph.dir].name})
		tot.published[verdict].Add(1)
		tot.publishedByKind[kind].Add(1)
		return src.send(nctx, kind, tag, seq)
	}

	// quiesce: with a stable accepting handler at B, a sentinel on each of the
	// three FIFO channels of the sender; wait until the far end has all three,
	// then a second round (bounded extra sentinels).
	quiesce := func(dir int) bool {
		for round := 0; round < 2; round++ {
			var tags []string
			for k := 0; k < 3; k++ {
				tag := dcTag(idx, 0, seq)
				seq++
				tags = append(tags, tag)
				tot.sentinels.Add(1)
				published = append(published, dcMsg{Tag: tag, Kind: dcKinds[k], Verdict: "accepted", Phase: "sentinel",
					Dir: ends[dir].name + "->" + ends[1-dir].name})
				if !ends[dir].send(nctx, k, tag, seq) {
					return false
				}
			}
			deadline := time.Now().Add(60 * time.Second) // watchdog only
			for _, tag := range tags {
				for !ends[1-dir].rec.has(tag) {
					if time.Now().After(deadline) || nctx.Err() != nil {
						return false
					}
					time.Sleep(50 * time.Microsecond)
				}
			}
		}
		return true
	}

	for _, ph := range phases {
		if nctx.Err() != nil {
			return
		}
		if ph.handler != -2 {
			setB(ph.handler)
			tot.swaps.Add(1)
		}
		if !ph.dynamic {
			for k := 0; k < ph.n; k++ {
				if !publish(ph, rng.IntN(len(dcVerdicts)), rng.IntN(3)) {
					return
				}
			}
			if ph.handler == -1 || ph.name == "static:never-set" {
				tot.publishedNoHandlerStatic.Add(int64(ph.n))
				// Workload timing only (never an oracle input): give the chain a
				// moment to move the messages past B before a handler is installed
				// for the sentinels, so that this phase really exercises "no handler".
				first := len(published) - ph.n
				for w := 0; w < 400; w++ {
					all := true
					for _, m := range published[first:] {
						if !ends[1-ph.dir].rec.has(m.Tag) {
							all = false
							break
						}
					}
					if all {
						break
					}
					time.Sleep(50 * time.Microsecond)
				}
			}
		} else {
			// Swapper goroutine: SetConsensusHandler concurrently with the publisher.
			tokens := make(chan int, 1)
			var wg sync.WaitGroup
			wg.Add(1)
			go func() {
				defer wg.Done()
				for h := range tokens {
					setB(h)
					tot.swaps.Add(1)
				}
			}()
			cycle := []int{-1, 1, 2}
			ci := rng.IntN(3)
			nextSwap := 1 + rng.IntN(5)
			for k := 0; k < ph.n; k++ {
				if !publish(ph, rng.IntN(len(dcVerdicts)), rng.IntN(3)) {
					close(tokens)
					wg.Wait()
					return
				}
				nextSwap--
				if nextSwap == 0 {
					nextSwap = 1 + rng.IntN(5)
					// Blocks only while the previous replacement has not even been
					// picked up; the replacement itself runs concurrently.
					select {
					case tokens <- cycle[ci%3]:
						ci++
					case <-nctx.Done():
					}
				}
			}
			close(tokens)
			wg.Wait()
		}
		// End of phase: stable accepting handler, then sentinels.
		setB(1)
		tot.swaps.Add(1)
		if !quiesce(ph.dir) {
			if ctx.Err() == nil {
				r.Inconclusive("%s: sentinels of phase %s did not arrive within 60s", caseID, ph.name)
			}
			return
		}
		tot.phasesSeen.Add(1)
	}

	// ------------------------------------------------------------ oracle
	bRec.mu.Lock()
	tot.foreignAtB.Add(int64(bRec.foreign))
	bRec.mu.Unlock()
	type phaseStat struct{ handled, relayed, published int }
	stats := map[string]*phaseStat{}
	for _, m := range published {
		st := stats[m.Phase]
		if st == nil {
			st = &phaseStat{}
			stats[m.Phase] = st
		}
		st.published++
		v, _ := dcVerdictOf(m.Tag)
		recs := bRec.get(m.Tag)
		if len(recs) > 0 {
			tot.handled[v].Add(1)
			st.handled++
		}
		far := ends[0]
		dirIdx := 1
		if strings.HasPrefix(m.Dir, "A->") {
			far = ends[1]
			dirIdx = 0
		}
		got := far.rec.get(m.Tag)
		if len(got) == 0 {
			continue
		}
		st.relayed++
		tot.relayed[v].Add(1)
		if len(got) > 1 {
			tot.duplicatesAtFarEnd.Add(1)
		}
		wit := map[string]any{
			"message":             m,
			"chain":               "A(conn 1) - B(conn 2) - C(conn 3), tmp2ptest.NewDaisyChainNetwork",
			"B_handler_records":   recs,
			"far_end_records":     got,
			"B_handler_semantics": "verdict = third field of the tag: 0 accepted, 1 rejected, 2 ignored, 3 Feedback(0), 4 Feedback(4), 5 Feedback(200)",
		}
		switch {
		case len(recs) == 0:
			if strings.HasPrefix(m.Phase, "dynamic") {
				tot.relayedNoRecord[1].Add(1)
			} else {
				tot.relayedNoRecord[0].Add(1)
			}
			tot.relayedNoRecordByDir[dirIdx].Add(1)
			r.Violate("C20:daisychain:relayed-without-handler-call",
				fmt.Sprintf("%s received %s message %q (phase %s) although no handler of B was ever called with it", far.name, m.Kind, m.Tag, m.Phase),
				caseID, wit)
		case recs[0].Verdict != "accepted":
			r.Violate("C20:daisychain:relayed-despite-verdict:"+recs[0].Verdict,
				fmt.Sprintf("%s received %s message %q (phase %s) although B's handler %s answered %s", far.name, m.Kind, m.Tag, m.Phase, recs[0].Handler, recs[0].Verdict),
				caseID, wit)
		}
	}
	for name, st := range stats {
		if st.handled > 0 || st.relayed > 0 {
			r.Nontrivial("daisychain", idx, name, st.published, st.handled, st.relayed)
		}
	}
	if idx < 2 {
		ps := map[string]any{}
		for name, st := range stats {
			ps[name] = map[string]int{"published": st.published, "handled_by_B": st.handled, "relayed": st.relayed}
		}
		r.Sample(map[string]any{"case": caseID, "phases": ps})
	}
}
