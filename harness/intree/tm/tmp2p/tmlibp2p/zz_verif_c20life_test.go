//go:build verif

package tmlibp2p_test

// C20, connection lifecycle: "messages arriving while no handler is installed ... are never
// relayed" also holds for the two moments the line scenario (zz_verif_c20_test.go) does not
// reach, because there B's connection exists before anybody is connected and is only torn
// down after the last message: (1) while tmlibp2p.NewConnection is starting up on a host that
// is already part of the network (peers connected, topic traffic flowing), and (2) while
// Connection.Disconnect is running. In both, A publishes a dense stream of valid messages;
// whatever C receives from B (A and C cannot talk to each other) must have been accepted by
// B's handler. In (1) B has no handler at all, in (2) B's handler rejects every message of the
// stream, so every relayed stream message is a violation.

import (
	"context"
	"crypto/sha256"
	"fmt"
	"io"
	"log/slog"
	"sync"
	"sync/atomic"
	"testing"
	"time"

	"github.com/gordian-engine/gordian/internal/verifkit"
	"github.com/gordian-engine/gordian/tm/tmp2p/tmlibp2p"
	"github.com/libp2p/go-libp2p"
	pubsub "github.com/libp2p/go-libp2p-pubsub"
	"github.com/libp2p/go-libp2p/core/network"
	"github.com/libp2p/go-libp2p/core/peer"
)

const (
	c20KeyStartup    = "C20:libp2p:relayed-while-no-handler:connection-starting"
	c20KeyDisconnect = "C20:libp2p:relayed-without-acceptance:connection-disconnecting"
)

type c20LifeTotals struct {
	rounds, failed                      atomic.Int64
	startupPublished, startupAtC        atomic.Int64
	disconnectPublished, disconnectAtC  atomic.Int64
	warmSeen, warmMissing, inconclusive atomic.Int64
	handlerCallsDuringDisconnect        atomic.Int64
	startupAcceptedLater                atomic.Int64
}

func TestVerif_C20_lifecycle(t *testing.T) {
	r := verifkit.Start("C20")
	if r == nil {
		t.Skip("not started by the /verif driver")
	}
	defer r.Finish()
	r.SetRule("libp2p line A-B-C on 127.0.0.1 as in the libp2p sub-run, but B's host is connected to A and C (both subscribed, A publishing a stream of valid, tagged consensus messages every 100-300 us) before tmlibp2p.NewConnection(B) is called, and the stream goes on for 40 ms after it returned; no handler is ever set in that phase, so any stream message C receives from B is a violation. Then a handler that accepts is set and sentinels prove the path A->B->C; then a stream of messages the handler rejects is published while Connection.Disconnect runs: any of those C receives from B is a violation. Non-trivial = distinct rounds in which C received a warm-up sentinel through B (the path really relays) and both streams were published.")

	n := r.N(12, 200)
	var tot c20LifeTotals
	workers := 4
	var next atomic.Int64
	var wg sync.WaitGroup
	ctx, cancel := context.WithCancel(context.Background())
	defer cancel()
	for w := 0; w < workers; w++ {
		wg.Add(1)
		go func() {
			defer wg.Done()
			for {
				i := int(next.Add(1) - 1)
				if i >= n {
					return
				}
				caseID := fmt.Sprintf("lifecycle-%d", i)
				r.BeginCase(caseID)
				if p, key, msg, stack := verifkit.Guard(func() { c20RunLifecycle(r, ctx, i, &tot) }); p {
					r.Violate(key, "panic while running the lifecycle scenario: "+msg, caseID, map[string]any{"panic": msg, "stack": stack})
				}
			}
		}()
	}
	wg.Wait()
	r.Count("lifecycle.rounds", tot.rounds.Load())
	r.Count("lifecycle.rounds_failed_to_set_up", tot.failed.Load())
	r.Count("lifecycle.startup.published", tot.startupPublished.Load())
	r.Count("lifecycle.startup.received_by_C_from_B", tot.startupAtC.Load())
	r.Count("lifecycle.startup.received_but_accepted_by_the_handler_installed_later", tot.startupAcceptedLater.Load())
	r.Count("lifecycle.disconnect.published", tot.disconnectPublished.Load())
	r.Count("lifecycle.disconnect.received_by_C_from_B", tot.disconnectAtC.Load())
	r.Count("lifecycle.disconnect.handler_calls", tot.handlerCallsDuringDisconnect.Load())
	r.Count("lifecycle.warmup.sentinel_seen", tot.warmSeen.Load())
	r.Count("lifecycle.warmup.sentinel_missing", tot.warmMissing.Load())
	r.Count("lifecycle.receptions_not_usable", tot.inconclusive.Load())
}

func c20RunLifecycle(r *verifkit.Run, ctx context.Context, idx int, tot *c20LifeTotals) {
	caseID := fmt.Sprintf("lifecycle-%d", idx)
	rng := r.CaseRNG(idx)
	gen := newC20Gen(r.NamedRNG("gen", idx))
	tot.rounds.Add(1)
	fail := func(format string, a ...any) {
		tot.failed.Add(1)
		r.Note("%s: %s", caseID, fmt.Sprintf(format, a...))
	}
	variant := c20Variant{
		Heartbeat:   []time.Duration{45 * time.Millisecond, 100 * time.Millisecond}[rng.IntN(2)],
		BDials:      rng.IntN(2) == 1,
		ASubscribes: true,
		Flood:       true,
	}
	privA, idA, err := c20Key(rng)
	if err != nil {
		fail("key: %v", err)
		return
	}
	privB, idB, _ := c20Key(rng)
	privC, idC, _ := c20Key(rng)

	tctx, tcancel := context.WithCancel(ctx)
	defer tcancel()

	hostA, err := libp2p.New(c20HostOpts(privA, libp2p.ConnectionGater(&c20Gater{banned: idC}))...)
	if err != nil {
		fail("host A: %v", err)
		return
	}
	defer hostA.Close()
	hostC, err := libp2p.New(c20HostOpts(privC, libp2p.ConnectionGater(&c20Gater{banned: idA}))...)
	if err != nil {
		fail("host C: %v", err)
		return
	}
	defer hostC.Close()
	bTracer := newC20Tracer()
	hostB, err := tmlibp2p.NewHost(tctx, tmlibp2p.HostOptions{
		Options:       c20HostOpts(privB),
		PubSubOptions: c20PubSubOpts(variant, pubsub.WithRawTracer(bTracer)),
	})
	if err != nil {
		fail("host B: %v", err)
		return
	}
	closedB := false
	defer func() {
		if !closedB {
			hostB.Close()
		}
	}()

	psA, err := pubsub.NewGossipSub(tctx, hostA, c20PubSubOpts(variant, pubsub.WithFloodPublish(true))...)
	if err != nil {
		fail("pubsub A: %v", err)
		return
	}
	psC, err := pubsub.NewGossipSub(tctx, hostC, c20PubSubOpts(variant)...)
	if err != nil {
		fail("pubsub C: %v", err)
		return
	}
	var order atomic.Int64
	cRec := &c20CRecorder{recv: map[[32]byte][]c20Reception{}}
	err = psC.RegisterTopicValidator(c20Topic, func(_ context.Context, from peer.ID, msg *pubsub.Message) pubsub.ValidationResult {
		d := sha256.Sum256(msg.GetData())
		rec := c20Reception{
			From: from.String(), Origin: msg.GetFrom().String(), FromIsB: from == idB,
			ACConnected: hostC.Network().Connectedness(idA) == network.Connected ||
				hostA.Network().Connectedness(idC) == network.Connected,
			Order: order.Add(1),
		}
		cRec.mu.Lock()
		cRec.recv[d] = append(cRec.recv[d], rec)
		cRec.mu.Unlock()
		return pubsub.ValidationAccept
	})
	if err != nil {
		fail("validator C: %v", err)
		return
	}
	topicC, err := psC.Join(c20Topic)
	if err != nil {
		fail("join C: %v", err)
		return
	}
	subC, err := topicC.Subscribe()
	if err != nil {
		fail("subscribe C: %v", err)
		return
	}
	go func() {
		for {
			if _, err := subC.Next(tctx); err != nil {
				return
			}
		}
	}()
	topicA, err := psA.Join(c20Topic)
	if err != nil {
		fail("join A: %v", err)
		return
	}
	subA, err := topicA.Subscribe()
	if err != nil {
		fail("subscribe A: %v", err)
		return
	}
	go func() {
		for {
			if _, err := subA.Next(tctx); err != nil {
				return
			}
		}
	}()

	// B's host joins the network first: connected to A and to C, no Connection yet.
	if variant.BDials {
		if err := hostB.Libp2pHost().Connect(tctx, peer.AddrInfo{ID: idA, Addrs: hostA.Addrs()}); err != nil {
			fail("connect B->A: %v", err)
			return
		}
		if err := hostB.Libp2pHost().Connect(tctx, peer.AddrInfo{ID: idC, Addrs: hostC.Addrs()}); err != nil {
			fail("connect B->C: %v", err)
			return
		}
	} else {
		aiB := peer.AddrInfo{ID: idB, Addrs: hostB.Libp2pHost().Addrs()}
		if err := hostA.Connect(tctx, aiB); err != nil {
			fail("connect A->B: %v", err)
			return
		}
		if err := hostC.Connect(tctx, aiB); err != nil {
			fail("connect C->B: %v", err)
			return
		}
	}
	// let the peers exchange their subscriptions (B's pubsub learns that A and C are on the topic)
	time.Sleep(time.Duration(30+rng.IntN(60)) * time.Millisecond)

	type sent struct {
		tag    string
		kind   string
		digest [32]byte
	}
	seq := 0
	var mu sync.Mutex
	publishOne := func(verdict int, list *[]sent) {
		mu.Lock()
		tag := c20Tag(1000+idx, verdict, seq)
		seq++
		kind := c20ValidKinds[seq%len(c20ValidKinds)]
		mu.Unlock()
		data, err := gen.valid(r.NamedRNG("life-"+tag, idx), kind, tag, seq)
		if err != nil {
			return
		}
		if err := topicA.Publish(tctx, data); err != nil {
			return
		}
		mu.Lock()
		*list = append(*list, sent{tag, kind, sha256.Sum256(data)})
		mu.Unlock()
		r.Eval(1)
	}
	stream := func(verdict int, list *[]sent, stop <-chan struct{}, done chan<- struct{}, paceUS int) {
		defer close(done)
		for {
			select {
			case <-stop:
				return
			case <-tctx.Done():
				return
			default:
			}
			publishOne(verdict, list)
			time.Sleep(time.Duration(paceUS) * time.Microsecond)
		}
	}

	// ---- (1) NewConnection while the topic is busy
	var startup []sent
	stop1, done1 := make(chan struct{}), make(chan struct{})
	go stream(0, &startup, stop1, done1, 100+rng.IntN(200))
	time.Sleep(time.Duration(2+rng.IntN(8)) * time.Millisecond)
	log := slog.New(slog.NewTextHandler(io.Discard, nil))
	connB, err := tmlibp2p.NewConnection(tctx, log, hostB, gen.codec)
	if err != nil {
		close(stop1)
		<-done1
		fail("connection B: %v", err)
		return
	}
	time.Sleep(40 * time.Millisecond)
	close(stop1)
	<-done1
	tot.startupPublished.Add(int64(len(startup)))

	// ---- prove the path: accepting handler, sentinels
	bRec := &c20HRecorder{recs: map[string][]c20HRecord{}, order: &order}
	connB.SetConsensusHandler(tctx, &c20Handler{name: "H1", rec: bRec})
	var warm []sent
	seen := false
	for k := 0; k < 150 && !seen && tctx.Err() == nil; k++ {
		publishOne(0, &warm)
		deadline := time.Now().Add(100 * time.Millisecond)
		for time.Now().Before(deadline) {
			if cRec.has(warm[len(warm)-1].digest) {
				seen = true
				break
			}
			time.Sleep(300 * time.Microsecond)
		}
	}
	if seen {
		tot.warmSeen.Add(1)
	} else {
		tot.warmMissing.Add(1)
	}

	// ---- (2) Disconnect while messages the handler rejects keep coming
	var closing []sent
	stop2, done2 := make(chan struct{}), make(chan struct{})
	go stream(1, &closing, stop2, done2, 100+rng.IntN(200))
	time.Sleep(time.Duration(5+rng.IntN(10)) * time.Millisecond)
	connB.Disconnect()
	closedB = true
	time.Sleep(15 * time.Millisecond)
	close(stop2)
	<-done2
	tot.disconnectPublished.Add(int64(len(closing)))
	time.Sleep(30 * time.Millisecond)

	// ---- oracle
	usable := func(d [32]byte) []c20Reception {
		var out []c20Reception
		for _, g := range cRec.get(d) {
			if g.ACConnected || !g.FromIsB {
				tot.inconclusive.Add(1)
				continue
			}
			out = append(out, g)
		}
		return out
	}
	topo := map[string]any{"A": idA.String(), "B": idB.String(), "C": idC.String(), "variant": variant}
	nStart := 0
	for _, m := range startup {
		if got := usable(m.digest); len(got) > 0 {
			nStart++
			tot.startupAtC.Add(1)
			accepted := false
			for _, hr := range bRec.get(m.tag) {
				accepted = accepted || hr.Verdict == "accepted"
			}
			if accepted {
				// still queued in B's pubsub when the accepting handler was installed afterwards,
				// and accepted by it: a legitimate relay
				tot.startupAcceptedLater.Add(1)
				continue
			}
			r.Violate(c20KeyStartup,
				fmt.Sprintf("C received %s message %q from B, published while tmlibp2p.NewConnection(B) was starting on a connected host; B never had a consensus handler in that phase (handler records for the tag: %d)", m.kind, m.tag, len(bRec.get(m.tag))),
				caseID, map[string]any{"topology": topo, "tag": m.tag, "kind": m.kind, "C_receptions": got, "stream_length": len(startup)})
		}
	}
	for _, m := range closing {
		recs := bRec.get(m.tag)
		tot.handlerCallsDuringDisconnect.Add(int64(len(recs)))
		if got := usable(m.digest); len(got) > 0 {
			tot.disconnectAtC.Add(1)
			r.Violate(c20KeyDisconnect,
				fmt.Sprintf("C received %s message %q from B, published while Connection.Disconnect(B) was running; B's handler rejects that message (handler records for the tag: %v)", m.kind, m.tag, recs),
				caseID, map[string]any{"topology": topo, "tag": m.tag, "kind": m.kind, "C_receptions": got, "B_handler_records": recs, "stream_length": len(closing)})
		}
	}
	if seen && len(startup) > 0 && len(closing) > 0 {
		r.Nontrivial("lifecycle", idx, len(startup) > 0, len(closing) > 0)
	}
	if r.WantSample() && seen {
		r.Sample(map[string]any{"case": caseID, "topology": topo, "startup_stream": len(startup), "startup_received_by_C_from_B": nStart,
			"disconnect_stream": len(closing), "warmup_sentinels_until_seen": len(warm)})
	}
}
