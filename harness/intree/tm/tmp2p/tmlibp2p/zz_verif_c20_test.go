//go:build verif

package tmlibp2p_test

// C20, libp2p half: line A - B - C on 127.0.0.1.
//
//	A  raw go-libp2p host + gossipsub, publishes on "consensus/v1"
//	B  a real tmlibp2p.Host + tmlibp2p.Connection (the code under test)
//	C  raw go-libp2p host + gossipsub subscriber with a recording accept-all validator
//
// A and C carry connection gaters refusing each other, so everything C receives
// was forwarded by B. Every payload carries a unique tag; B's consensus handler
// (a harness value) records the tag and answers with a verdict that is a pure
// function of the tag. Oracle: every tag C received must have a B-handler record
// whose verdict is "accepted".
//
// Independent observation points: C's topic validator (judge), B's handler
// records (judge), and a pubsub.RawTracer attached to B's gossipsub through the
// public tmlibp2p.HostOptions.PubSubOptions (barriers and diagnosis only).

import (
	"context"
	"crypto/ed25519"
	"crypto/sha256"
	"encoding/hex"
	"encoding/json"
	"fmt"
	"io"
	"log/slog"
	"math/rand/v2"
	"strconv"
	"strings"
	"sync"
	"sync/atomic"
	"testing"
	"time"
	"unicode/utf8"

	"github.com/gordian-engine/gordian/gcrypto"
	"github.com/gordian-engine/gordian/gexchange"
	"github.com/gordian-engine/gordian/internal/verifhook"
	"github.com/gordian-engine/gordian/internal/verifkit"
	"github.com/gordian-engine/gordian/tm/tmcodec"
	"github.com/gordian-engine/gordian/tm/tmcodec/tmjson"
	"github.com/gordian-engine/gordian/tm/tmconsensus"
	"github.com/gordian-engine/gordian/tm/tmp2p/tmlibp2p"
	"github.com/libp2p/go-libp2p"
	pubsub "github.com/libp2p/go-libp2p-pubsub"
	"github.com/libp2p/go-libp2p/core/control"
	"github.com/libp2p/go-libp2p/core/crypto"
	"github.com/libp2p/go-libp2p/core/network"
	"github.com/libp2p/go-libp2p/core/peer"
	"github.com/libp2p/go-libp2p/core/protocol"
	"github.com/libp2p/go-libp2p/p2p/transport/tcp"
	ma "github.com/multiformats/go-multiaddr"
)

const (
	c20Topic      = "consensus/v1" // tmlibp2p's topicConsensus (unexported there)
	c20HookGap    = "tmlibp2p.sethandler.gap"
	c20TagPrefix  = "c20lp"
	c20KeyNoCall  = "C20:libp2p:relayed-without-handler-call"
	c20KeyNoCallS = "C20:libp2p:relayed-without-handler-call:stable-handler"
	c20KeyNoHdl   = "C20:libp2p:relayed-while-no-handler"
	c20KeyVerdict = "C20:libp2p:relayed-despite-verdict:"
	c20KeyUndec   = "C20:libp2p:relayed-undecodable"
	c20KeyRepeat  = "C20:libp2p:repeat-relayed-without-accepting-handler-call"
	c20KeyNoVar   = "C20:libp2p:relayed-no-variant"
)

type c20Verdict struct {
	name string
	f    gexchange.Feedback
}

// Index 0 must be "accepted" (sentinels use it).
var c20Verdicts = []c20Verdict{
	{"accepted", gexchange.FeedbackAccepted},
	{"rejected", gexchange.FeedbackRejected},
	{"ignored", gexchange.FeedbackIgnored},
	{"unspecified(0)", gexchange.Feedback(0)},
	{"reject-and-disconnect(4)", gexchange.Feedback(4)},
	{"out-of-range(200)", gexchange.Feedback(200)},
}

// tag = c20lp|<topology>|<verdict index>|<seq>
func c20Tag(topo, verdict, seq int) string {
	return fmt.Sprintf("%s|%d|%d|%d", c20TagPrefix, topo, verdict, seq)
}

// c20VerdictOf is the pure function tag -> verdict.
func c20VerdictOf(tag string) (int, bool) {
	p := strings.Split(tag, "|")
	if len(p) != 4 || p[0] != c20TagPrefix {
		return 0, false
	}
	v, err := strconv.Atoi(p[2])
	if err != nil || v < 0 || v >= len(c20Verdicts) {
		return 0, false
	}
	return v, true
}

// ---------------------------------------------------------------- B's handler

type c20HRecord struct {
	Handler string `json:"handler"`
	Verdict string `json:"verdict"`
	Kind    string `json:"kind"`
	Order   int64  `json:"order"`
}

type c20HRecorder struct {
	mu      sync.Mutex
	recs    map[string][]c20HRecord
	foreign int
	order   *atomic.Int64
}

func (r *c20HRecorder) get(tag string) []c20HRecord {
	r.mu.Lock()
	defer r.mu.Unlock()
	return append([]c20HRecord(nil), r.recs[tag]...)
}

type c20Handler struct {
	name string
	rec  *c20HRecorder
}

func (h *c20Handler) handle(tag, kind string) gexchange.Feedback {
	v, ok := c20VerdictOf(tag)
	h.rec.mu.Lock()
	defer h.rec.mu.Unlock()
	if !ok {
		h.rec.foreign++
		return gexchange.FeedbackIgnored
	}
	if len(h.rec.recs[tag]) > 0 {
		// Like a real consensus handler, B's handlers take a message they have already been given
		// as old news: a repeat is ignored whatever the first answer was. (gossipsub itself never
		// hands a message to the validator twice; only a payload published again does.)
		h.rec.recs[tag] = append(h.rec.recs[tag], c20HRecord{Handler: h.name, Verdict: "ignored-repeat", Kind: kind, Order: h.rec.order.Add(1)})
		return gexchange.FeedbackIgnored
	}
	h.rec.recs[tag] = append(h.rec.recs[tag], c20HRecord{Handler: h.name, Verdict: c20Verdicts[v].name, Kind: kind, Order: h.rec.order.Add(1)})
	return c20Verdicts[v].f
}

func (h *c20Handler) HandleProposedHeader(_ context.Context, ph tmconsensus.ProposedHeader) gexchange.Feedback {
	return h.handle(string(ph.Header.DataID), "proposed-header")
}

func c20ProofTag(proofs map[string][]gcrypto.SparseSignature) string {
	for _, sigs := range proofs {
		for _, s := range sigs {
			if strings.HasPrefix(string(s.Sig), c20TagPrefix) {
				return string(s.Sig)
			}
		}
	}
	return ""
}

func (h *c20Handler) HandlePrevoteProofs(_ context.Context, p tmconsensus.PrevoteSparseProof) gexchange.Feedback {
	return h.handle(c20ProofTag(p.Proofs), "prevote")
}

func (h *c20Handler) HandlePrecommitProofs(_ context.Context, p tmconsensus.PrecommitSparseProof) gexchange.Feedback {
	return h.handle(c20ProofTag(p.Proofs), "precommit")
}

// ------------------------------------------------------------------- gater

type c20Gater struct {
	banned  peer.ID
	refused atomic.Int64
}

func (g *c20Gater) ok(p peer.ID) bool {
	if p == g.banned {
		g.refused.Add(1)
		return false
	}
	return true
}
func (g *c20Gater) InterceptPeerDial(p peer.ID) bool                 { return g.ok(p) }
func (g *c20Gater) InterceptAddrDial(p peer.ID, _ ma.Multiaddr) bool { return g.ok(p) }
func (g *c20Gater) InterceptAccept(network.ConnMultiaddrs) bool      { return true }
func (g *c20Gater) InterceptSecured(_ network.Direction, p peer.ID, _ network.ConnMultiaddrs) bool {
	return g.ok(p)
}
func (g *c20Gater) InterceptUpgraded(network.Conn) (bool, control.DisconnectReason) { return true, 0 }

// ------------------------------------------------------------------ tracer

type c20Fate struct {
	Validate  int      `json:"entered_validation"`
	Deliver   int      `json:"delivered"`
	Duplicate int      `json:"duplicate"`
	Reject    []string `json:"rejected,omitempty"`
}

func (f *c20Fate) terminal() bool { return f != nil && (f.Deliver > 0 || len(f.Reject) > 0) }

// c20Tracer is a pubsub.RawTracer. It only records.
type c20Tracer struct {
	mu      sync.Mutex
	fates   map[[32]byte]*c20Fate
	grafts  map[peer.ID]int
	dropped int
}

func newC20Tracer() *c20Tracer {
	return &c20Tracer{fates: map[[32]byte]*c20Fate{}, grafts: map[peer.ID]int{}}
}

func (t *c20Tracer) fate(msg *pubsub.Message) *c20Fate {
	d := sha256.Sum256(msg.GetData())
	f := t.fates[d]
	if f == nil {
		f = &c20Fate{}
		t.fates[d] = f
	}
	return f
}
func (t *c20Tracer) get(d [32]byte) c20Fate {
	t.mu.Lock()
	defer t.mu.Unlock()
	if f := t.fates[d]; f != nil {
		c := *f
		c.Reject = append([]string(nil), f.Reject...)
		return c
	}
	return c20Fate{}
}
func (t *c20Tracer) grafted(p peer.ID) bool {
	t.mu.Lock()
	defer t.mu.Unlock()
	return t.grafts[p] > 0
}
func (t *c20Tracer) AddPeer(peer.ID, protocol.ID) {}
func (t *c20Tracer) RemovePeer(peer.ID)           {}
func (t *c20Tracer) Join(string)                  {}
func (t *c20Tracer) Leave(string)                 {}
func (t *c20Tracer) Graft(p peer.ID, topic string) {
	if topic != c20Topic {
		return
	}
	t.mu.Lock()
	t.grafts[p]++
	t.mu.Unlock()
}
func (t *c20Tracer) Prune(p peer.ID, topic string) {
	if topic != c20Topic {
		return
	}
	t.mu.Lock()
	t.grafts[p]--
	t.mu.Unlock()
}
func (t *c20Tracer) ValidateMessage(msg *pubsub.Message) {
	t.mu.Lock()
	t.fate(msg).Validate++
	t.mu.Unlock()
}
func (t *c20Tracer) DeliverMessage(msg *pubsub.Message) {
	t.mu.Lock()
	t.fate(msg).Deliver++
	t.mu.Unlock()
}
func (t *c20Tracer) RejectMessage(msg *pubsub.Message, reason string) {
	t.mu.Lock()
	f := t.fate(msg)
	f.Reject = append(f.Reject, reason)
	t.mu.Unlock()
}
func (t *c20Tracer) DuplicateMessage(msg *pubsub.Message) {
	t.mu.Lock()
	t.fate(msg).Duplicate++
	t.mu.Unlock()
}
func (t *c20Tracer) ThrottlePeer(peer.ID)                 {}
func (t *c20Tracer) RecvRPC(*pubsub.RPC)                  {}
func (t *c20Tracer) SendRPC(*pubsub.RPC, peer.ID)         {}
func (t *c20Tracer) UndeliverableMessage(*pubsub.Message) {}
func (t *c20Tracer) DropRPC(rpc *pubsub.RPC, _ peer.ID) {
	if len(rpc.GetPublish()) > 0 {
		t.mu.Lock()
		t.dropped += len(rpc.GetPublish())
		t.mu.Unlock()
	}
}

// --------------------------------------------------------------- C's record

type c20Reception struct {
	From        string `json:"received_from"`
	Origin      string `json:"origin"`
	FromIsB     bool   `json:"received_from_is_B"`
	ACConnected bool   `json:"A_C_connected_at_reception"`
	Order       int64  `json:"order"`
}

type c20CRecorder struct {
	mu   sync.Mutex
	recv map[[32]byte][]c20Reception
}

func (c *c20CRecorder) has(d [32]byte) bool {
	c.mu.Lock()
	defer c.mu.Unlock()
	return len(c.recv[d]) > 0
}
func (c *c20CRecorder) get(d [32]byte) []c20Reception {
	c.mu.Lock()
	defer c.mu.Unlock()
	return append([]c20Reception(nil), c.recv[d]...)
}

// ---------------------------------------------------------------- payloads

type c20Msg struct {
	Tag        string `json:"tag"`
	Kind       string `json:"kind"`
	Decodable  bool   `json:"decodable"`
	Verdict    string `json:"verdict_if_handled"`
	Phase      string `json:"phase"`
	PhaseClass string `json:"phase_class"` // static-nohandler | static-handler | dynamic | sentinel
	HookDelay  bool   `json:"hook_delay_active"`
	Payload    string `json:"payload"`
	PayloadHex bool   `json:"payload_is_hex"`

	// NotJSON: the payload is not one JSON document (json.Valid of encoding/json says so,
	// independently of the codec under test): undecodable whatever a decoder makes of a prefix.
	NotJSON bool `json:"not_a_json_document,omitempty"`
	// Replays: the same bytes published again later (a fresh pubsub message each time).
	Replays []*c20Replay `json:"published_again,omitempty"`

	verdict int
	digest  [32]byte
	data    []byte
}

type c20Replay struct {
	Phase      string `json:"phase"`
	PhaseClass string `json:"phase_class"`
	OrderAt    int64  `json:"order_at_publication"`
}

var c20ValidKinds = []string{"ph-min", "ph-full", "prevote", "precommit"}
var c20BadKinds = []string{"garbage", "truncated", "wrong-type", "unknown-key-type", "unknown-validator-key-type", "short-key", "no-variant", "trailing-garbage", "two-documents"}

type c20Gen struct {
	codec tmjson.MarshalCodec
	pub   gcrypto.PubKey
}

func newC20Gen(rng *rand.Rand) *c20Gen {
	reg := new(gcrypto.Registry)
	gcrypto.RegisterEd25519(reg)
	seed := make([]byte, ed25519.SeedSize)
	for i := range seed {
		seed[i] = byte(rng.UintN(256))
	}
	priv := ed25519.NewKeyFromSeed(seed)
	return &c20Gen{
		codec: tmjson.MarshalCodec{CryptoRegistry: reg},
		pub:   gcrypto.Ed25519PubKey(priv.Public().(ed25519.PublicKey)),
	}
}

func c20RandBytes(rng *rand.Rand, n int) []byte {
	b := make([]byte, n)
	for i := range b {
		b[i] = byte(rng.UintN(256))
	}
	return b
}

// valid returns a valid tmjson encoding of a consensus message carrying tag.
func (g *c20Gen) valid(rng *rand.Rand, kind, tag string, seq int) ([]byte, error) {
	var cm tmcodec.ConsensusMessage
	switch kind {
	case "ph-min":
		cm.ProposedHeader = &tmconsensus.ProposedHeader{
			Header: tmconsensus.Header{Height: uint64(seq + 1), Hash: c20RandBytes(rng, 32), DataID: []byte(tag)},
			Round:  uint32(rng.IntN(4)),
		}
	case "ph-full":
		vals := []tmconsensus.Validator{{PubKey: g.pub, Power: 1 + uint64(rng.IntN(1000))}, {PubKey: g.pub, Power: 7}}
		vs := tmconsensus.ValidatorSet{Validators: vals, PubKeys: []gcrypto.PubKey{g.pub, g.pub},
			PubKeyHash: c20RandBytes(rng, 32), VotePowerHash: c20RandBytes(rng, 32)}
		cm.ProposedHeader = &tmconsensus.ProposedHeader{
			Header: tmconsensus.Header{
				Height: uint64(seq + 2), Hash: c20RandBytes(rng, 32), PrevBlockHash: c20RandBytes(rng, 32),
				PrevCommitProof: tmconsensus.CommitProof{Round: 1, PubKeyHash: "pkh",
					Proofs: map[string][]gcrypto.SparseSignature{"prev": {{KeyID: []byte{0, 0}, Sig: c20RandBytes(rng, 64)}}}},
				ValidatorSet: vs, NextValidatorSet: vs,
				DataID: []byte(tag), PrevAppStateHash: c20RandBytes(rng, 8),
				Annotations: tmconsensus.Annotations{User: []byte("u"), Driver: []byte("d")},
			},
			Round:          uint32(rng.IntN(4)),
			ProposerPubKey: g.pub,
			Signature:      c20RandBytes(rng, 64),
			Annotations:    tmconsensus.Annotations{User: []byte(tag)},
		}
	case "prevote":
		cm.PrevoteProof = &tmconsensus.PrevoteSparseProof{Height: uint64(seq + 1), Round: uint32(rng.IntN(4)), PubKeyHash: "pkh",
			Proofs: map[string][]gcrypto.SparseSignature{
				string(c20RandBytes(rng, 32)): {{KeyID: []byte{0, 0}, Sig: []byte(tag)}},
				"":                            {{KeyID: []byte{0, 1}, Sig: []byte(tag)}},
			}}
	case "precommit":
		cm.PrecommitProof = &tmconsensus.PrecommitSparseProof{Height: uint64(seq + 1), Round: uint32(rng.IntN(4)), PubKeyHash: "pkh",
			Proofs: map[string][]gcrypto.SparseSignature{
				string(c20RandBytes(rng, 32)): {{KeyID: []byte{0, 2}, Sig: []byte(tag)}},
			}}
	default:
		return nil, fmt.Errorf("unknown kind %s", kind)
	}
	return g.codec.MarshalConsensusMessage(cm)
}

// bad returns a payload that is not a decodable consensus message (or, for
// "no-variant", decodes to a message with no variant set). All contain the tag
// so that every payload is unique.
func (g *c20Gen) bad(rng *rand.Rand, kind, tag string, seq int) ([]byte, error) {
	switch kind {
	case "garbage":
		return append(c20RandBytes(rng, 1+rng.IntN(200)), []byte(tag)...), nil
	case "truncated":
		b, err := g.valid(rng, c20ValidKinds[rng.IntN(len(c20ValidKinds))], tag, seq)
		if err != nil {
			return nil, err
		}
		// Keep the tag (base64 inside) by cutting only the tail.
		cut := len(b) - 1 - rng.IntN(3)
		return b[:cut], nil
	case "wrong-type":
		return []byte(fmt.Sprintf(`{"PrevoteProof":{"Height":%q,"Round":0}}`, tag)), nil
	case "unknown-key-type", "unknown-validator-key-type", "short-key":
		b, err := g.valid(rng, "ph-full", tag, seq)
		if err != nil {
			return nil, err
		}
		var m map[string]json.RawMessage
		if err := json.Unmarshal(b, &m); err != nil {
			return nil, err
		}
		var ph map[string]json.RawMessage
		if err := json.Unmarshal(m["ProposedHeader"], &ph); err != nil {
			return nil, err
		}
		badKey := append([]byte("nosuchky"), c20RandBytes(rng, 32)...)
		if kind == "short-key" {
			badKey = c20RandBytes(rng, 1+rng.IntN(7))
		}
		kb, _ := json.Marshal(badKey)
		if kind == "unknown-validator-key-type" {
			var hdr map[string]json.RawMessage
			if err := json.Unmarshal(ph["Header"], &hdr); err != nil {
				return nil, err
			}
			hdr["ValidatorSet"] = json.RawMessage(fmt.Sprintf(`{"Validators":[{"PubKey":%s,"Power":1}],"PubKeyHash":"AA==","VotePowerHash":"AA=="}`, kb))
			ph["Header"], _ = json.Marshal(hdr)
		} else {
			ph["ProposerPubKey"] = kb
		}
		m["ProposedHeader"], _ = json.Marshal(ph)
		return json.Marshal(m)
	case "no-variant":
		return []byte(fmt.Sprintf(`{"Tag":%q}`, tag)), nil
	case "trailing-garbage", "two-documents":
		// A complete, valid message (it carries the tag, and B's handler would accept it)
		// followed by more bytes: not one JSON document, so not a decodable message, even
		// though a decoder that stops after the first value finds an acceptable one.
		b, err := g.valid(rng, c20ValidKinds[rng.IntN(len(c20ValidKinds))], tag, seq)
		if err != nil {
			return nil, err
		}
		if kind == "two-documents" {
			b2, err := g.valid(rng, c20ValidKinds[rng.IntN(len(c20ValidKinds))], "second-"+tag, seq+1)
			if err != nil {
				return nil, err
			}
			if rng.IntN(2) == 0 {
				b = append(b, '\n')
			}
			return append(b, b2...), nil
		}
		tails := []string{"x", "}", "]", ",", " {", "\x00", "\n\"tail\"", "garbage " + tag}
		return append(b, []byte(tails[rng.IntN(len(tails))])...), nil
	}
	return nil, fmt.Errorf("unknown bad kind %s", kind)
}

// ---------------------------------------------------------------- totals

type c20Totals struct {
	published, handled, relayed [6]atomic.Int64 // decodable messages by verdict index
	publishedBad, relayedBad    atomic.Int64
	publishedByKind             sync.Map // kind -> *atomic.Int64

	relayedNoRecord    struct{ staticNoHandler, staticHandler, dynNoHook, dynHook atomic.Int64 }
	bDeliveredNoRecord struct{ dynNoHook, dynHook, static atomic.Int64 }
	publishedDyn       struct{ noHook, hook atomic.Int64 }

	swaps, swapsNoHook, swapsHook atomic.Int64
	hookHits, hookDelays          atomic.Int64
	sentinels, sentinelsSeen      atomic.Int64
	republished, replaysJudged    atomic.Int64
	inconclusiveReceptions        atomic.Int64
	foreignAtC, foreignAtB        atomic.Int64
	staticDemoted                 atomic.Int64
	droppedAtA                    atomic.Int64
	gaterRefusals                 atomic.Int64
	skippedShortKeyPanics         atomic.Int64
	skippedExpectationMismatch    atomic.Int64
	topologies, topologiesFailed  atomic.Int64
	bFateByReason                 sync.Map
}

func (t *c20Totals) kind(k string) *atomic.Int64 {
	v, _ := t.publishedByKind.LoadOrStore(k, new(atomic.Int64))
	return v.(*atomic.Int64)
}
func (t *c20Totals) reason(k string) *atomic.Int64 {
	v, _ := t.bFateByReason.LoadOrStore(k, new(atomic.Int64))
	return v.(*atomic.Int64)
}

// ---------------------------------------------------------------- the test

func TestVerif_C20_libp2p(t *testing.T) {
	r := verifkit.Start("C20")
	if r == nil {
		t.Skip("not started by the /verif driver")
	}
	defer r.Finish()
	r.SetRule("libp2p line A-B-C on 127.0.0.1: A raw gossipsub publisher, B real tmlibp2p.Connection, C raw subscriber with a recording accept-all validator; A and C gate each other out (probed, and re-checked at every reception). Payloads: valid tmjson encodings of proposed headers (minimal and full), prevote and precommit proofs carrying a unique tag, plus garbage, truncated JSON, wrong field types, unknown key types, short keys and no-variant objects. B's handler (H1/H2/none) records the tag and answers accepted/rejected/ignored/0/4/200 as a pure function of the tag. Static phases (handler never set, H1, nil, H2; all messages of the phase reach a final state in B's pubsub tracer before the next SetConsensusHandler) and dynamic phases (a second goroutine calls SetConsensusHandler every 2-6 messages cycling {nil,H1,H2}), the latter without and with a 2-20ms delay at hook tmlibp2p.sethandler.gap. Quiescence: sentinels (accepted verdict, stable handler) until C has seen one published after the last real message, then 3 more. Oracle: every tag C received must have a B-handler record with verdict accepted. Non-trivial = distinct (topology, phase, kind, verdict, handled, relayed) observations with handled or relayed true.")

	nTopo := r.N(1, 24)
	perDyn := r.N(150, 3000)
	staticMul := r.N(1, 3)
	var tot c20Totals

	workers := 4
	if nTopo < workers {
		workers = nTopo
	}
	var next atomic.Int64
	var wg sync.WaitGroup
	for w := 0; w < workers; w++ {
		wg.Add(1)
		go func() {
			defer wg.Done()
			for {
				i := int(next.Add(1) - 1)
				if i >= nTopo {
					return
				}
				caseID := fmt.Sprintf("topology-%d", i)
				r.BeginCase(caseID)
				done := make(chan struct{})
				ctx, cancel := context.WithCancel(context.Background())
				go func() {
					defer close(done)
					p, key, msg, stack := verifkit.Guard(func() { c20RunTopology(r, ctx, i, perDyn, staticMul, &tot) })
					if p {
						r.Violate(key, "panic while running the libp2p line: "+msg, caseID, map[string]any{"panic": msg, "stack": stack})
					}
				}()
				select {
				case <-done:
				case <-time.After(15 * time.Minute):
					r.Inconclusive("%s: did not finish within 15 minutes (watchdog)", caseID)
				}
				cancel()
				select {
				case <-done:
				case <-time.After(30 * time.Second):
				}
			}
		}()
	}
	wg.Wait()

	for v := range c20Verdicts {
		r.Count("published."+c20Verdicts[v].name, tot.published[v].Load())
		r.Count("handled_by_B."+c20Verdicts[v].name, tot.handled[v].Load())
		r.Count("relayed_to_C."+c20Verdicts[v].name, tot.relayed[v].Load())
	}
	r.Count("published.undecodable_or_no_variant", tot.publishedBad.Load())
	r.Count("published_again.same_payload_new_pubsub_message", tot.republished.Load())
	r.Count("published_again.judged", tot.replaysJudged.Load())
	r.Count("relayed_to_C.undecodable_or_no_variant", tot.relayedBad.Load())
	tot.publishedByKind.Range(func(k, v any) bool {
		r.Count("published_kind."+k.(string), v.(*atomic.Int64).Load())
		return true
	})
	tot.bFateByReason.Range(func(k, v any) bool {
		r.Count("fate_at_B."+k.(string), v.(*atomic.Int64).Load())
		return true
	})
	r.Count("published_dynamic.nohook", tot.publishedDyn.noHook.Load())
	r.Count("published_dynamic.hook", tot.publishedDyn.hook.Load())
	r.Count("relayed_without_B_record.static_no_handler", tot.relayedNoRecord.staticNoHandler.Load())
	r.Count("relayed_without_B_record.static_handler", tot.relayedNoRecord.staticHandler.Load())
	r.Count("relayed_without_B_record.dynamic_nohook", tot.relayedNoRecord.dynNoHook.Load())
	r.Count("relayed_without_B_record.dynamic_hook", tot.relayedNoRecord.dynHook.Load())
	r.Count("delivered_by_B_pubsub_without_handler_call.dynamic_nohook", tot.bDeliveredNoRecord.dynNoHook.Load())
	r.Count("delivered_by_B_pubsub_without_handler_call.dynamic_hook", tot.bDeliveredNoRecord.dynHook.Load())
	r.Count("delivered_by_B_pubsub_without_handler_call.static", tot.bDeliveredNoRecord.static.Load())
	r.Count("handler_swaps", tot.swaps.Load())
	r.Count("handler_swaps.dynamic_nohook", tot.swapsNoHook.Load())
	r.Count("handler_swaps.dynamic_hook", tot.swapsHook.Load())
	r.Count("hook_hits."+c20HookGap, tot.hookHits.Load())
	r.Count("hook_delays_injected", tot.hookDelays.Load())
	r.Count("sentinels_published", tot.sentinels.Load())
	r.Count("sentinels_seen_by_C", tot.sentinelsSeen.Load())
	r.Count("receptions_discarded_inconclusive(A_C_connected_or_not_from_B)", tot.inconclusiveReceptions.Load())
	r.Count("foreign_payloads_at_C", tot.foreignAtC.Load())
	r.Count("foreign_tags_at_B_handler", tot.foreignAtB.Load())
	r.Count("static_messages_without_final_state_at_B(demoted_to_dynamic)", tot.staticDemoted.Load())
	r.Count("publish_rpcs_dropped_at_A", tot.droppedAtA.Load())
	r.Count("gater_refusals", tot.gaterRefusals.Load())
	r.Count("short_key_payloads_not_published_because_codec_panics", tot.skippedShortKeyPanics.Load())
	r.Count("payloads_skipped_expectation_mismatch", tot.skippedExpectationMismatch.Load())
	r.Count("topologies", tot.topologies.Load())
	r.Count("topologies_failed_setup", tot.topologiesFailed.Load())
	if tot.hookHits.Load() == 0 {
		r.Inconclusive("hook point %s was never reached (hooks not compiled in?)", c20HookGap)
	}
}

// ------------------------------------------------------------- one topology

type c20Variant struct {
	Heartbeat   time.Duration `json:"heartbeat"`
	BDials      bool          `json:"b_dials_a_and_c"`
	ASubscribes bool          `json:"a_subscribes"`
	Flood       bool          `json:"a_flood_publish"`
	PaceUS      int           `json:"pace_us"`
}

func c20Key(rng *rand.Rand) (crypto.PrivKey, peer.ID, error) {
	var seed [32]byte
	for i := range seed {
		seed[i] = byte(rng.UintN(256))
	}
	priv, _, err := crypto.GenerateEd25519Key(rand.NewChaCha8(seed))
	if err != nil {
		return nil, "", err
	}
	id, err := peer.IDFromPrivateKey(priv)
	return priv, id, err
}

func c20HostOpts(priv crypto.PrivKey, extra ...libp2p.Option) []libp2p.Option {
	opts := []libp2p.Option{
		libp2p.Identity(priv),
		libp2p.ListenAddrStrings("/ip4/127.0.0.1/tcp/0"),
		libp2p.Transport(tcp.NewTCPTransport),
		libp2p.ForceReachabilityPublic(),
		libp2p.DisableRelay(),
		libp2p.DisableMetrics(),
	}
	return append(opts, extra...)
}

func c20PubSubOpts(v c20Variant, extra ...pubsub.Option) []pubsub.Option {
	p := pubsub.DefaultGossipSubParams()
	// Same small values as tmlibp2ptest uses, heartbeat per variant.
	p.HeartbeatInitialDelay = 8 * time.Millisecond
	p.HeartbeatInterval = v.Heartbeat
	p.DirectConnectInitialDelay = 11 * time.Millisecond
	return append([]pubsub.Option{pubsub.WithGossipSubParams(p)}, extra...)
}

func c20RunTopology(r *verifkit.Run, ctx context.Context, idx, perDyn, staticMul int, tot *c20Totals) {
	caseID := fmt.Sprintf("topology-%d", idx)
	rng := r.CaseRNG(idx)
	hookRNG := r.NamedRNG("hookdelay", idx) // used on B's connection goroutine only
	gen := newC20Gen(r.NamedRNG("gen", idx))

	variant := c20Variant{
		Heartbeat:   []time.Duration{45 * time.Millisecond, 45 * time.Millisecond, 100 * time.Millisecond, 250 * time.Millisecond}[rng.IntN(4)],
		BDials:      rng.IntN(2) == 1,
		ASubscribes: rng.IntN(3) != 0,
		Flood:       rng.IntN(4) != 0,
		PaceUS:      []int{150, 400, 1000}[rng.IntN(3)],
	}
	if idx == 0 {
		// The first topology is the plain one.
		variant = c20Variant{Heartbeat: 45 * time.Millisecond, ASubscribes: true, Flood: true, PaceUS: 400}
	}

	fail := func(format string, a ...any) {
		tot.topologiesFailed.Add(1)
		if ctx.Err() == nil {
			r.Inconclusive("%s: %s", caseID, fmt.Sprintf(format, a...))
		}
	}

	privA, idA, err := c20Key(rng)
	if err != nil {
		fail("key: %v", err)
		return
	}
	privB, idB, _ := c20Key(rng)
	privC, idC, _ := c20Key(rng)

	tctx, tcancel := context.WithCancel(ctx)
	defer tcancel()

	gaterA := &c20Gater{banned: idC}
	gaterC := &c20Gater{banned: idA}
	hostA, err := libp2p.New(c20HostOpts(privA, libp2p.ConnectionGater(gaterA))...)
	if err != nil {
		fail("host A: %v", err)
		return
	}
	defer hostA.Close()
	hostC, err := libp2p.New(c20HostOpts(privC, libp2p.ConnectionGater(gaterC))...)
	if err != nil {
		fail("host C: %v", err)
		return
	}
	defer hostC.Close()

	// B: the code under test, built only through its public constructors.
	bTracer := newC20Tracer()
	hostB, err := tmlibp2p.NewHost(tctx, tmlibp2p.HostOptions{
		Options:       c20HostOpts(privB),
		PubSubOptions: c20PubSubOpts(variant, pubsub.WithRawTracer(bTracer)),
	})
	if err != nil {
		fail("host B: %v", err)
		return
	}
	if hostB.Libp2pHost().ID() != idB {
		fail("host B has an unexpected peer id")
		return
	}

	// Hook: delay between unregister and register, only while delayOn is set.
	var delayOn atomic.Bool
	var hookHits, hookDelays atomic.Int64
	connCtx := verifhook.WithPoints(tctx, func(_ context.Context, name string) {
		if name != c20HookGap {
			return
		}
		hookHits.Add(1)
		if delayOn.Load() {
			hookDelays.Add(1)
			time.Sleep(time.Duration(2000+hookRNG.IntN(18000)) * time.Microsecond)
		}
	})
	log := slog.New(slog.NewTextHandler(io.Discard, nil))
	connB, err := tmlibp2p.NewConnection(connCtx, log, hostB, gen.codec)
	if err != nil {
		hostB.Close()
		fail("connection B: %v", err)
		return
	}
	defer connB.Disconnect()
	defer func() {
		tot.hookHits.Add(hookHits.Load())
		tot.hookDelays.Add(hookDelays.Load())
		tot.gaterRefusals.Add(gaterA.refused.Load() + gaterC.refused.Load())
	}()

	aTracer := newC20Tracer()
	psA, err := pubsub.NewGossipSub(tctx, hostA, c20PubSubOpts(variant, pubsub.WithRawTracer(aTracer), pubsub.WithFloodPublish(variant.Flood))...)
	if err != nil {
		fail("pubsub A: %v", err)
		return
	}
	psC, err := pubsub.NewGossipSub(tctx, hostC, c20PubSubOpts(variant)...)
	if err != nil {
		fail("pubsub C: %v", err)
		return
	}

	// C: recording accept-all validator.
	var order atomic.Int64
	cRec := &c20CRecorder{recv: map[[32]byte][]c20Reception{}}
	err = psC.RegisterTopicValidator(c20Topic, func(_ context.Context, from peer.ID, msg *pubsub.Message) pubsub.ValidationResult {
		d := sha256.Sum256(msg.GetData())
		rec := c20Reception{
			From:    from.String(),
			Origin:  msg.GetFrom().String(),
			FromIsB: from == idB,
			ACConnected: hostC.Network().Connectedness(idA) == network.Connected ||
				hostA.Network().Connectedness(idC) == network.Connected,
			Order: order.Add(1),
		}
		cRec.mu.Lock()
		cRec.recv[d] = append(cRec.recv[d], rec)
		cRec.mu.Unlock()
		return pubsub.ValidationAccept
	})
	if err != nil {
		fail("validator C: %v", err)
		return
	}
	topicC, err := psC.Join(c20Topic)
	if err != nil {
		fail("join C: %v", err)
		return
	}
	subC, err := topicC.Subscribe()
	if err != nil {
		fail("subscribe C: %v", err)
		return
	}
	go func() {
		for {
			if _, err := subC.Next(tctx); err != nil {
				return
			}
		}
	}()
	topicA, err := psA.Join(c20Topic)
	if err != nil {
		fail("join A: %v", err)
		return
	}
	if variant.ASubscribes {
		subA, err := topicA.Subscribe()
		if err != nil {
			fail("subscribe A: %v", err)
			return
		}
		go func() {
			for {
				if _, err := subA.Next(tctx); err != nil {
					return
				}
			}
		}()
	}

	// Connect A-B and B-C only.
	aiB := peer.AddrInfo{ID: idB, Addrs: hostB.Libp2pHost().Addrs()}
	if variant.BDials {
		if err := hostB.Libp2pHost().Connect(tctx, peer.AddrInfo{ID: idA, Addrs: hostA.Addrs()}); err != nil {
			fail("connect B->A: %v", err)
			return
		}
		if err := hostB.Libp2pHost().Connect(tctx, peer.AddrInfo{ID: idC, Addrs: hostC.Addrs()}); err != nil {
			fail("connect B->C: %v", err)
			return
		}
	} else {
		if err := hostA.Connect(tctx, aiB); err != nil {
			fail("connect A->B: %v", err)
			return
		}
		if err := hostC.Connect(tctx, aiB); err != nil {
			fail("connect C->B: %v", err)
			return
		}
	}
	// Probe the gaters in both directions.
	errAC := hostA.Connect(tctx, peer.AddrInfo{ID: idC, Addrs: hostC.Addrs()})
	errCA := hostC.Connect(tctx, peer.AddrInfo{ID: idA, Addrs: hostA.Addrs()})
	acConnected := func() bool {
		return hostA.Network().Connectedness(idC) == network.Connected || hostC.Network().Connectedness(idA) == network.Connected
	}
	if errAC == nil || errCA == nil || acConnected() {
		fail("connection gaters did not keep A and C apart (errAC=%v errCA=%v)", errAC, errCA)
		return
	}

	contains := func(ps []peer.ID, p peer.ID) bool {
		for _, x := range ps {
			if x == p {
				return true
			}
		}
		return false
	}
	// Readiness (watchdog 60s): A and C know B on the topic, B's mesh holds C.
	readyDeadline := time.Now().Add(60 * time.Second)
	for !(contains(psA.ListPeers(c20Topic), idB) && contains(psC.ListPeers(c20Topic), idB) && bTracer.grafted(idC)) {
		if time.Now().After(readyDeadline) || tctx.Err() != nil {
			fail("mesh did not form within 60s")
			return
		}
		time.Sleep(2 * time.Millisecond)
	}
	tot.topologies.Add(1)

	// ------------------------------------------------------------ workload
	bRec := &c20HRecorder{recs: map[string][]c20HRecord{}, order: &order}
	handlers := map[int]tmconsensus.ConsensusHandler{
		-1: nil,
		1:  &c20Handler{name: "H1", rec: bRec},
		2:  &c20Handler{name: "H2", rec: bRec},
	}
	setB := func(h int) {
		connB.SetConsensusHandler(tctx, handlers[h])
		tot.swaps.Add(1)
	}

	var published []*c20Msg
	seq := 0
	pace := func() {
		time.Sleep(time.Duration(variant.PaceUS/2+rng.IntN(variant.PaceUS)) * time.Microsecond)
	}
	// publish builds, pre-checks and publishes one payload. It returns nil if the
	// payload was skipped.
	publish := func(phase, class string, kind string, verdict int) *c20Msg {
		if kind == "trailing-garbage" || kind == "two-documents" {
			verdict = 0 // the message in front is one B's handler would accept
		}
		tag := c20Tag(idx, verdict, seq)
		seq++
		decodable := false
		var data []byte
		var err error
		for _, k := range c20ValidKinds {
			if k == kind {
				decodable = true
			}
		}
		if decodable {
			data, err = gen.valid(rng, kind, tag, seq)
		} else {
			data, err = gen.bad(rng, kind, tag, seq)
		}
		if err != nil {
			r.Note("%s: could not build %s payload: %v", caseID, kind, err)
			return nil
		}
		// Pre-check against the codec B uses, so that "decodable" means what B's
		// codec says (a payload that panics the codec is never published: the
		// panic would be raised on a pubsub goroutine of this process; that
		// defect belongs to the codec properties, it is counted here).
		var cm tmcodec.ConsensusMessage
		var derr error
		if p, _, msg, _ := verifkit.Guard(func() { derr = gen.codec.UnmarshalConsensusMessage(data, &cm) }); p {
			if kind == "short-key" {
				tot.skippedShortKeyPanics.Add(1)
			} else {
				r.Note("%s: codec panicked on a %s payload: %s", caseID, kind, msg)
				tot.skippedExpectationMismatch.Add(1)
			}
			return nil
		}
		hasVariant := cm.ProposedHeader != nil || cm.PrevoteProof != nil || cm.PrecommitProof != nil
		notJSON := !json.Valid(data)
		switch {
		case !decodable && notJSON:
			// undecodable by the wire format itself; what the codec under test says is not asked
		case decodable && (derr != nil || !hasVariant),
			!decodable && kind != "no-variant" && derr == nil,
			kind == "no-variant" && (derr != nil || hasVariant):
			tot.skippedExpectationMismatch.Add(1)
			return nil
		}
		m := &c20Msg{Tag: tag, Kind: kind, Decodable: decodable, Verdict: c20Verdicts[verdict].name, Phase: phase, PhaseClass: class,
			HookDelay: delayOn.Load(), verdict: verdict, digest: sha256.Sum256(data), data: data, NotJSON: !decodable && notJSON}
		if utf8.Valid(data) {
			m.Payload = string(data)
		} else {
			m.Payload, m.PayloadHex = hex.EncodeToString(data), true
		}
		if !decodable {
			m.Verdict = "-"
		}
		published = append(published, m)
		if err := topicA.Publish(tctx, data); err != nil {
			r.Note("%s: publish failed: %v", caseID, err)
			return m
		}
		if class != "sentinel" {
			if decodable {
				tot.published[verdict].Add(1)
			} else {
				tot.publishedBad.Add(1)
			}
			tot.kind(kind).Add(1)
		}
		r.Eval(1)
		return m
	}
	// republish publishes the bytes of an earlier message again: a fresh pubsub message (new
	// sequence number) with the same payload, as a chatty peer re-sending what it knows does.
	// Only messages C already holds are used, so whatever C receives after this point with
	// that payload is a relay of the repeat.
	var replayPool []*c20Msg
	republish := func(phase, class string) {
		var cand []*c20Msg
		for _, m := range replayPool {
			if m.Decodable && m.verdict == 0 && cRec.has(m.digest) && len(m.Replays) < 3 {
				cand = append(cand, m)
			}
		}
		if len(cand) == 0 {
			return
		}
		m := cand[rng.IntN(len(cand))]
		m.Replays = append(m.Replays, &c20Replay{Phase: phase, PhaseClass: class, OrderAt: order.Add(1)})
		if err := topicA.Publish(tctx, m.data); err != nil {
			r.Note("%s: publishing again failed: %v", caseID, err)
			return
		}
		tot.republished.Add(1)
		r.Eval(1)
	}
	randomMsg := func(phase, class string) *c20Msg {
		if rng.IntN(5) == 0 {
			return publish(phase, class, c20BadKinds[rng.IntN(len(c20BadKinds))], rng.IntN(len(c20Verdicts)))
		}
		return publish(phase, class, c20ValidKinds[rng.IntN(len(c20ValidKinds))], rng.IntN(len(c20Verdicts)))
	}

	// waitC polls until C has the message (bounded); no oracle depends on it.
	waitC := func(m *c20Msg, d time.Duration) bool {
		deadline := time.Now().Add(d)
		for !cRec.has(m.digest) {
			if time.Now().After(deadline) || tctx.Err() != nil {
				return false
			}
			time.Sleep(200 * time.Microsecond)
		}
		return true
	}
	// quiesce: stable accepting handler H1 is installed by the caller.
	quiesce := func(phase string) bool {
		seen := 0
		for k := 0; k < 200 && seen < 4; k++ {
			m := publish(phase, "sentinel", "prevote", 0)
			if m == nil {
				return false
			}
			tot.sentinels.Add(1)
			if waitC(m, 250*time.Millisecond) {
				seen++
				tot.sentinelsSeen.Add(1)
			}
			if tctx.Err() != nil {
				return false
			}
		}
		return seen >= 4
	}
	// barrier: every message of a static phase reached a final state in B's pubsub.
	barrier := func(msgs []*c20Msg) {
		deadline := time.Now().Add(10 * time.Second)
		for _, m := range msgs {
			for {
				f := bTracer.get(m.digest)
				if f.terminal() {
					break
				}
				if time.Now().After(deadline) || tctx.Err() != nil {
					m.PhaseClass = "dynamic" // cannot be attributed to the stable state
					tot.staticDemoted.Add(1)
					break
				}
				time.Sleep(200 * time.Microsecond)
			}
		}
	}
	staticPhase := func(name, class string, n int, allCombos bool) {
		var msgs []*c20Msg
		add := func(m *c20Msg) {
			if m != nil {
				msgs = append(msgs, m)
			}
			pace()
		}
		if allCombos {
			for v := range c20Verdicts {
				for _, k := range c20ValidKinds {
					add(publish(name, class, k, v))
				}
			}
			for _, k := range c20BadKinds {
				add(publish(name, class, k, rng.IntN(len(c20Verdicts))))
			}
		}
		for k := 0; k < n; k++ {
			add(randomMsg(name, class))
			if k%3 == 2 {
				republish(name, class)
				pace()
			}
		}
		barrier(msgs)
		if name == "static:H1" {
			replayPool = append(replayPool, msgs...)
		}
	}
	dynamicPhase := func(name string, n int, hook bool) {
		delayOn.Store(hook)
		tokens := make(chan int, 1)
		var wg sync.WaitGroup
		wg.Add(1)
		swapRNG := r.NamedRNG("swap-"+name, idx)
		go func() {
			defer wg.Done()
			for h := range tokens {
				setB(h)
				if hook {
					tot.swapsHook.Add(1)
					// leave some time with a registered validator between gaps
					time.Sleep(time.Duration(swapRNG.IntN(8000)) * time.Microsecond)
				} else {
					tot.swapsNoHook.Add(1)
				}
			}
		}()
		cycle := []int{-1, 1, 2}
		ci := rng.IntN(3)
		nextSwap := 2 + rng.IntN(5)
		burst := 0
		for k := 0; k < n && tctx.Err() == nil; k++ {
			if k%5 == 4 {
				republish(name, "dynamic")
			}
			if m := randomMsg(name, "dynamic"); m != nil {
				if hook {
					tot.publishedDyn.hook.Add(1)
				} else {
					tot.publishedDyn.noHook.Add(1)
				}
			}
			if burst > 0 {
				// right after asking for a replacement: a few messages back to back,
				// so that some arrive while B is between unregister and register
				burst--
			} else {
				pace()
			}
			nextSwap--
			if nextSwap == 0 {
				nextSwap = 2 + rng.IntN(5)
				select {
				case tokens <- cycle[ci%3]:
					ci++
					burst = rng.IntN(4)
				case <-tctx.Done():
				}
			}
		}
		close(tokens)
		wg.Wait()
		delayOn.Store(false)
	}

	// 1. handler never set (initial ignore-all validator).
	staticPhase("static:never-set", "static-nohandler", 6*staticMul, false)
	// 2. H1 installed; prove the path A->B->C end to end.
	setB(1)
	if !quiesce("warm-up") {
		fail("no warm-up sentinel reached C (path A->B->C not working)")
		return
	}
	// 3. static phases.
	staticPhase("static:H1", "static-handler", 6*staticMul, true)
	setB(-1)
	staticPhase("static:nil", "static-nohandler", 12*staticMul, false)
	setB(2)
	staticPhase("static:H2", "static-handler", 12*staticMul, false)
	// 4. dynamic without injected delay.
	dynamicPhase("dynamic:nohook", perDyn, false)
	setB(1)
	if !quiesce("quiesce:nohook") {
		fail("sentinels after the dynamic phase did not reach C")
		return
	}
	// 5. dynamic with the gap held open for 2-20ms.
	dynamicPhase("dynamic:hook", perDyn, true)
	setB(1)
	if !quiesce("quiesce:hook") {
		fail("sentinels after the delayed dynamic phase did not reach C")
		return
	}

	// -------------------------------------------------------------- oracle
	bRec.mu.Lock()
	tot.foreignAtB.Add(int64(bRec.foreign))
	bRec.mu.Unlock()
	aTracer.mu.Lock()
	tot.droppedAtA.Add(int64(aTracer.dropped))
	aTracer.mu.Unlock()

	known := map[[32]byte]bool{}
	for _, m := range published {
		known[m.digest] = true
	}
	cRec.mu.Lock()
	for d := range cRec.recv {
		if !known[d] {
			tot.foreignAtC.Add(1)
		}
	}
	cRec.mu.Unlock()

	topoDesc := map[string]any{
		"A": idA.String(), "B": idB.String(), "C": idC.String(), "variant": variant,
		"how": "A publishes the payload on gossipsub topic consensus/v1; B = tmlibp2p.NewConnection; C's topic validator recorded the reception",
	}
	type obsKey struct {
		phase, kind, verdict string
		handled, relayed     bool
	}
	seenObs := map[obsKey]bool{}
	samples := 0
	for _, m := range published {
		recs := bRec.get(m.Tag)
		fate := bTracer.get(m.digest)
		switch {
		case fate.Deliver > 0:
			tot.reason("delivered").Add(1)
		case len(fate.Reject) > 0:
			tot.reason(fate.Reject[0]).Add(1)
		default:
			tot.reason("never-seen-or-pending").Add(1)
		}
		handled := len(recs) > 0
		if m.PhaseClass != "sentinel" && m.Decodable && handled {
			tot.handled[m.verdict].Add(1)
		}
		if fate.Deliver > 0 && !handled {
			switch {
			case m.PhaseClass == "dynamic" && m.HookDelay:
				tot.bDeliveredNoRecord.dynHook.Add(1)
			case m.PhaseClass == "dynamic":
				tot.bDeliveredNoRecord.dynNoHook.Add(1)
			case m.PhaseClass != "sentinel":
				tot.bDeliveredNoRecord.static.Add(1)
			}
		}

		got := cRec.get(m.digest)
		relayed := false
		var usable []c20Reception
		for _, g := range got {
			// A reception is only evidence of relaying by B if it came from B while
			// A and C were not connected, and B's pubsub did deliver the message.
			if g.ACConnected || !g.FromIsB || fate.Deliver == 0 {
				tot.inconclusiveReceptions.Add(1)
				continue
			}
			usable = append(usable, g)
		}
		relayed = len(usable) > 0
		if handled || relayed {
			k := obsKey{m.Phase, m.Kind, m.Verdict, handled, relayed}
			if !seenObs[k] {
				seenObs[k] = true
				r.Nontrivial("libp2p", idx, m.Phase, m.Kind, m.Verdict, handled, relayed)
			}
		}
		if len(m.Replays) > 0 {
			// C held the payload before it was published again, and B's handlers ignore repeats:
			// every reception after that point needs an accepting handler call after that point.
			first := m.Replays[0].OrderAt
			after, accepts := 0, 0
			for _, g := range usable {
				if g.Order > first {
					after++
				}
			}
			for _, hr := range recs {
				if hr.Order > first && hr.Verdict == "accepted" {
					accepts++
				}
			}
			tot.replaysJudged.Add(int64(len(m.Replays)))
			if after > accepts {
				r.Violate(c20KeyRepeat,
					fmt.Sprintf("C received %s payload %q again (%d receptions from B) after it was published a second time in phase %s, although B's handler accepted it only when it was first published (its later records: repeats ignored, or no call at all)",
						m.Kind, m.Tag, after, m.Replays[0].Phase), caseID,
					map[string]any{"message": m, "topology": topoDesc, "B_handler_records": recs, "C_receptions": usable, "fate_in_B_pubsub": fate})
			}
		}
		if !relayed || m.PhaseClass == "sentinel" && handled && recs[0].Verdict == "accepted" {
			continue
		}
		if m.NotJSON {
			tot.relayedBad.Add(1)
			r.Violate(c20KeyUndec+":not-a-json-document",
				fmt.Sprintf("C received %s payload %q (phase %s): B relayed bytes that are not one JSON document (a valid message followed by more bytes, or garbage), i.e. an undecodable message", m.Kind, m.Tag, m.Phase), caseID,
				map[string]any{"message": m, "topology": topoDesc, "B_handler_records": recs, "C_receptions": usable, "fate_in_B_pubsub": fate})
			continue
		}
		if m.Decodable {
			tot.relayed[m.verdict].Add(1)
		} else {
			tot.relayedBad.Add(1)
		}
		if samples < 2 && handled && recs[0].Verdict == "accepted" && idx == 0 {
			samples++
			r.Sample(map[string]any{"case": caseID, "message": m, "B_handler_records": recs, "C_receptions": usable, "fate_in_B_pubsub": fate})
		}
		wit := map[string]any{
			"message":           m,
			"topology":          topoDesc,
			"B_handler_records": recs,
			"C_receptions":      usable,
			"fate_in_B_pubsub":  fate,
			"B_handler":         "verdict = third field of the tag: 0 accepted, 1 rejected, 2 ignored, 3 Feedback(0), 4 Feedback(4), 5 Feedback(200)",
		}
		where := fmt.Sprintf("%s payload %q (phase %s)", m.Kind, m.Tag, m.Phase)
		switch {
		case m.PhaseClass == "static-nohandler":
			// Whoever answered, B had no handler installed from before the message was
			// published until after B's pubsub was done with it: it must not be relayed.
			// (A handler that was removed with SetConsensusHandler(nil) and is still being
			// consulted shows up here with a record and verdict "accepted".)
			tot.relayedNoRecord.staticNoHandler.Add(1)
			who := "no handler was called with it"
			if handled {
				who = fmt.Sprintf("the removed handler %s was still called and answered %s", recs[0].Handler, recs[0].Verdict)
			}
			r.Violate(c20KeyNoHdl, fmt.Sprintf("C received %s, published and fully processed by B while B had no consensus handler installed (%s)", where, who), caseID, wit)
		case handled && recs[0].Verdict == "accepted":
			// fine
		case handled:
			r.Violate(c20KeyVerdict+recs[0].Verdict,
				fmt.Sprintf("C received %s although B's handler %s answered %s", where, recs[0].Handler, recs[0].Verdict), caseID, wit)
		default:
			// no handler of B ever saw it
			switch m.PhaseClass {
			case "static-handler":
				tot.relayedNoRecord.staticHandler.Add(1)
				switch {
				case m.Kind == "no-variant":
					r.Violate(c20KeyNoVar, fmt.Sprintf("C received %s: B relayed a message with no variant set while a handler was installed and no replacement was in progress", where), caseID, wit)
				case !m.Decodable:
					r.Violate(c20KeyUndec, fmt.Sprintf("C received %s: B relayed an undecodable payload while a handler was installed and no replacement was in progress", where), caseID, wit)
				default:
					r.Violate(c20KeyNoCallS, fmt.Sprintf("C received %s although B's installed handler was never called with it (no replacement in progress)", where), caseID, wit)
				}
			default: // dynamic (or demoted)
				if m.HookDelay {
					tot.relayedNoRecord.dynHook.Add(1)
				} else {
					tot.relayedNoRecord.dynNoHook.Add(1)
				}
				r.Violate(c20KeyNoCall,
					fmt.Sprintf("C received %s although no handler of B was ever called with it (published while SetConsensusHandler calls were in progress; injected gap delay: %v)", where, m.HookDelay),
					caseID, wit)
			}
		}
	}
}
