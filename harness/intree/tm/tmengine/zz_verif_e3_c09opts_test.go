//go:build verif

package tmengine_test

// C09(a): option matrix for tmengine.New and tmengine.NewMirror.
//
// For every generated option list the outcome must be either an instance that
// survives a small workload (a single-validator chain committing two heights
// with its own messages looped back; for the mirror one proposal and its votes)
// and shuts down cleanly, or a non-nil error. When required options (those
// validateSettings / validateMirrorSettings check) are missing, the error text
// must name every one of them. The outcome must not depend on the order of the
// options. Never a panic.

import (
	"bytes"
	"context"
	"fmt"
	mrand "math/rand/v2"
	"os"
	"regexp"
	"sort"
	"strings"
	"sync"
	"testing"
	"time"

	"github.com/gordian-engine/gordian/gassert/gasserttest"
	"github.com/gordian-engine/gordian/gwatchdog"
	"github.com/gordian-engine/gordian/internal/verifhook"
	"github.com/gordian-engine/gordian/internal/verifkit"
	"github.com/gordian-engine/gordian/tm/tmconsensus"
	"github.com/gordian-engine/gordian/tm/tmdriver"
	"github.com/gordian-engine/gordian/tm/tmengine"
	"github.com/gordian-engine/gordian/tm/tmengine/tmelink"
	"github.com/gordian-engine/gordian/tm/tmstore/tmmemstore"
)

// Options whose absence validateSettings reports (engine.go), with the name the error text uses.
var e3NewJudged = map[string]string{
	"WithGenesis":                           "WithGenesis",
	"WithHashScheme":                        "WithHashScheme",
	"WithSignatureScheme":                   "WithSignatureScheme",
	"WithCommonMessageSignatureProofScheme": "WithCommonMessageSignatureProofScheme",
	"WithGossipStrategy":                    "WithGossipStrategy",
	"WithActionStore":                       "WithActionStore", // only while a signer is configured
	"WithFinalizationStore":                 "WithFinalizationStore",
	"WithMirrorStore":                       "WithMirrorStore",
	"WithRoundStore":                        "WithRoundStore",
	"WithStateMachineStore":                 "WithStateMachineStore",
	"WithValidatorStore":                    "WithValidatorStore",
	"WithWatchdog":                          "WithWatchdog",
	"WithConsensusStrategy":                 "WithConsensusStrategy",
	"WithBlockFinalizationChannel":          "WithBlockFinalizationChannel",
	"WithInternalRoundTimer":                "WithTimeoutStrategy",
}

// Options whose absence validateMirrorSettings reports (mirror.go).
var e3MirrorJudged = map[string]string{
	"WithMirrorStore":                       "WithMirrorStore",
	"WithCommittedHeaderStore":              "WithCommittedHeaderStore",
	"WithRoundStore":                        "WithRoundStore",
	"WithValidatorStore":                    "WithValidatorStore",
	"WithHashScheme":                        "WithHashScheme",
	"WithSignatureScheme":                   "WithSignatureScheme",
	"WithCommonMessageSignatureProofScheme": "WithCommonMessageSignatureProofScheme",
}

var reWithName = regexp.MustCompile(`With[A-Za-z]+`)
var reOptFunc = regexp.MustCompile(`tm/tmengine\.With[A-Za-z]+\.func\d+`)

// e3OptPanicKey collapses "the option function dereferenced a nil target" into
// one key whatever option function it was (one defect, many option functions).
func e3OptPanicKey(key string) string {
	return reOptFunc.ReplaceAllString(key, "tm/tmengine.With*.func#")
}

type e3OptCase struct {
	Ctor        string   `json:"constructor"`
	Removed     []string `json:"removed,omitempty"`
	Invalid     string   `json:"invalid_option,omitempty"`
	InvalidKind string   `json:"invalid_kind,omitempty"`
	Extra       string   `json:"extra_option,omitempty"`
	Orders      int      `json:"orders"`
}

func (c e3OptCase) String() string {
	return fmt.Sprintf("%s removed=%v invalid=%s(%s) extra=%s", c.Ctor, c.Removed, c.Invalid, c.InvalidKind, c.Extra)
}

// e3InvalidOpt returns the invalid variants of one option.
func e3InvalidOpt(name string) map[string]tmengine.Opt {
	switch name {
	case "WithActionStore":
		return map[string]tmengine.Opt{"nil": tmengine.WithActionStore(nil)}
	case "WithCommittedHeaderStore":
		return map[string]tmengine.Opt{"nil": tmengine.WithCommittedHeaderStore(nil)}
	case "WithFinalizationStore":
		return map[string]tmengine.Opt{"nil": tmengine.WithFinalizationStore(nil)}
	case "WithMirrorStore":
		return map[string]tmengine.Opt{"nil": tmengine.WithMirrorStore(nil)}
	case "WithRoundStore":
		return map[string]tmengine.Opt{"nil": tmengine.WithRoundStore(nil)}
	case "WithStateMachineStore":
		return map[string]tmengine.Opt{"nil": tmengine.WithStateMachineStore(nil)}
	case "WithValidatorStore":
		return map[string]tmengine.Opt{"nil": tmengine.WithValidatorStore(nil)}
	case "WithHashScheme":
		return map[string]tmengine.Opt{"nil": tmengine.WithHashScheme(nil)}
	case "WithSignatureScheme":
		return map[string]tmengine.Opt{"nil": tmengine.WithSignatureScheme(nil)}
	case "WithCommonMessageSignatureProofScheme":
		return map[string]tmengine.Opt{"nil": tmengine.WithCommonMessageSignatureProofScheme(nil)}
	case "WithGossipStrategy":
		return map[string]tmengine.Opt{"nil": tmengine.WithGossipStrategy(nil)}
	case "WithConsensusStrategy":
		return map[string]tmengine.Opt{"nil": tmengine.WithConsensusStrategy(nil)}
	case "WithGenesis":
		return map[string]tmengine.Opt{
			"nil":  tmengine.WithGenesis(nil),
			"zero": tmengine.WithGenesis(&tmconsensus.ExternalGenesis{}),
			"no-validators": tmengine.WithGenesis(&tmconsensus.ExternalGenesis{
				ChainID: e3ChainID, InitialHeight: 1, InitialAppState: bytes.NewReader(nil),
			}),
		}
	case "WithInternalRoundTimer":
		return map[string]tmengine.Opt{"nil": tmengine.WithInternalRoundTimer(nil)}
	case "WithBlockFinalizationChannel":
		return map[string]tmengine.Opt{"nil": tmengine.WithBlockFinalizationChannel(nil)}
	case "WithInitChainChannel":
		return map[string]tmengine.Opt{"nil": tmengine.WithInitChainChannel(nil)}
	case "WithSigner":
		return map[string]tmengine.Opt{"nil": tmengine.WithSigner(nil)}
	case "WithWatchdog":
		return map[string]tmengine.Opt{"nil": tmengine.WithWatchdog(nil)}
	case "WithBlockDataArrivalChannel":
		return map[string]tmengine.Opt{"nil": tmengine.WithBlockDataArrivalChannel(nil)}
	case "WithLagStateChannel":
		return map[string]tmengine.Opt{
			"nil":      tmengine.WithLagStateChannel(nil),
			"buffered": tmengine.WithLagStateChannel(make(chan tmelink.LagState, 4)),
		}
	case "WithProposedHeaderInterceptor":
		return map[string]tmengine.Opt{"nil": tmengine.WithProposedHeaderInterceptor(nil)}
	case "WithReplayedHeaderRequestChannel":
		return map[string]tmengine.Opt{"nil": tmengine.WithReplayedHeaderRequestChannel(nil)}
	case "WithMetricsChannel":
		full := make(chan tmengine.Metrics, 1)
		full <- tmengine.Metrics{}
		return map[string]tmengine.Opt{
			"nil":               tmengine.WithMetricsChannel(nil),
			"buffered-nonempty": tmengine.WithMetricsChannel(full),
		}
	}
	return nil
}

var e3NewOptionNames = []string{
	"WithActionStore", "WithCommittedHeaderStore", "WithFinalizationStore", "WithMirrorStore", "WithRoundStore",
	"WithStateMachineStore", "WithValidatorStore", "WithHashScheme", "WithSignatureScheme",
	"WithCommonMessageSignatureProofScheme", "WithGossipStrategy", "WithConsensusStrategy", "WithGenesis",
	"WithInternalRoundTimer", "WithBlockFinalizationChannel", "WithInitChainChannel", "WithSigner", "WithWatchdog",
	"WithAssertEnv", "WithBlockDataArrivalChannel", "WithLagStateChannel", "WithProposedHeaderInterceptor",
	"WithReplayedHeaderRequestChannel", "WithMetricsChannel",
}

var e3MirrorOptionNames = []string{
	"WithMirrorStore", "WithCommittedHeaderStore", "WithRoundStore", "WithValidatorStore",
	"WithHashScheme", "WithSignatureScheme", "WithCommonMessageSignatureProofScheme",
	"WithGenesis", "WithWatchdog", "WithAssertEnv",
	"WithLagStateChannel", "WithReplayedHeaderRequestChannel", "WithMetricsChannel",
}

// engine-only options a caller may also hand to NewMirror (it borrows the engine's Opt type)
var e3MirrorExtraNames = []string{
	"WithActionStore", "WithFinalizationStore", "WithStateMachineStore", "WithGossipStrategy", "WithConsensusStrategy",
	"WithInternalRoundTimer", "WithBlockFinalizationChannel", "WithInitChainChannel", "WithSigner",
	"WithBlockDataArrivalChannel", "WithProposedHeaderInterceptor",
}

func e3Subsets(names []string, maxK int) [][]string {
	var out [][]string
	n := len(names)
	for i := 0; i < n; i++ {
		out = append(out, []string{names[i]})
	}
	if maxK >= 2 {
		for i := 0; i < n; i++ {
			for j := i + 1; j < n; j++ {
				out = append(out, []string{names[i], names[j]})
			}
		}
	}
	if maxK >= 3 {
		for i := 0; i < n; i++ {
			for j := i + 1; j < n; j++ {
				for k := j + 1; k < n; k++ {
					out = append(out, []string{names[i], names[j], names[k]})
				}
			}
		}
	}
	return out
}

// e3OptCases is a pure function of (seed, tier).
func e3OptCases(r *verifkit.Run) []e3OptCase {
	rng := r.NamedRNG("optcases", 0)
	var cases []e3OptCase
	for _, ctor := range []string{"New", "NewMirror"} {
		names := e3NewOptionNames
		if ctor == "NewMirror" {
			names = e3MirrorOptionNames
		}
		cases = append(cases, e3OptCase{Ctor: ctor, Orders: 4}) // the full valid set
		subs := e3Subsets(names, 3)
		singles := subs[:len(names)]
		rest := subs[len(names):]
		for _, s := range singles {
			cases = append(cases, e3OptCase{Ctor: ctor, Removed: s, Orders: 3})
		}
		want := len(rest)
		if r.Quick() {
			want = 130
			if ctor == "NewMirror" {
				want = 60
			}
			want = int(float64(want) * r.Scale)
		}
		perm := rng.Perm(len(rest))
		if want > len(rest) {
			want = len(rest)
		}
		for _, i := range perm[:want] {
			orders := 1
			if rng.IntN(4) == 0 || !r.Quick() {
				orders = 3
			}
			cases = append(cases, e3OptCase{Ctor: ctor, Removed: rest[i], Orders: orders})
		}
		for _, name := range names {
			inv := e3InvalidOpt(name)
			kinds := make([]string, 0, len(inv))
			for k := range inv {
				kinds = append(kinds, k)
			}
			sort.Strings(kinds)
			for _, k := range kinds {
				cases = append(cases, e3OptCase{Ctor: ctor, Invalid: name, InvalidKind: k, Orders: 3})
			}
		}
		if ctor == "NewMirror" {
			for _, x := range e3MirrorExtraNames {
				cases = append(cases, e3OptCase{Ctor: ctor, Extra: x, Orders: 2})
			}
			// Every scheme option, WithWatchdog and WithAssertEnv write through the state machine
			// config that NewMirror passes as nil; these lists leave all of them out so that the
			// rest of NewMirror (genesis handling, settings validation) is reached at all.
			smcWriters := []string{"WithHashScheme", "WithSignatureScheme", "WithCommonMessageSignatureProofScheme", "WithWatchdog", "WithAssertEnv"}
			cases = append(cases, e3OptCase{Ctor: ctor, Removed: smcWriters, Orders: 3})
			for _, x := range []string{"WithGenesis", "WithMirrorStore", "WithCommittedHeaderStore", "WithRoundStore", "WithValidatorStore", "WithLagStateChannel"} {
				cases = append(cases, e3OptCase{Ctor: ctor, Removed: append(append([]string(nil), smcWriters...), x), Orders: 2})
			}
			cases = append(cases, e3OptCase{Ctor: ctor, Removed: smcWriters, Invalid: "WithGenesis", InvalidKind: "nil", Orders: 2})
			cases = append(cases, e3OptCase{Ctor: ctor, Removed: smcWriters, Invalid: "WithGenesis", InvalidKind: "zero", Orders: 2})
			cases = append(cases, e3OptCase{Ctor: ctor, Removed: smcWriters, Invalid: "WithLagStateChannel", InvalidKind: "buffered", Orders: 4})
		}
	}
	return cases
}

type e3OptOutcome struct {
	Order     []string `json:"order"`
	Class     string   `json:"class"` // instance | error | panic
	Err       string   `json:"error,omitempty"`
	Mentioned []string `json:"mentioned,omitempty"`
}

func e3Mentioned(err string) []string {
	set := map[string]bool{}
	for _, m := range reWithName.FindAllString(err, -1) {
		set[m] = true
	}
	out := make([]string, 0, len(set))
	for k := range set {
		out = append(out, k)
	}
	sort.Strings(out)
	return out
}

// e3ApplyCase turns the node's full named option list into the list of one case in one order.
func e3ApplyCase(c e3OptCase, named []e3NamedOpt, rng *mrand.Rand, orderIdx int) ([]tmengine.Opt, []string) {
	rm := map[string]bool{}
	for _, x := range c.Removed {
		rm[x] = true
	}
	var list []e3NamedOpt
	for _, o := range named {
		if rm[o.name] {
			continue
		}
		if o.name == c.Invalid {
			o.opt = e3InvalidOpt(o.name)[c.InvalidKind]
			o.name += "[" + c.InvalidKind + "]"
		}
		list = append(list, o)
	}
	switch {
	case orderIdx == 0:
	case c.Invalid != "" && (orderIdx == 1 || orderIdx == 2):
		// the invalid option last / first: an error returned by an option function must be
		// reported wherever the option stands
		rng.Shuffle(len(list), func(i, j int) { list[i], list[j] = list[j], list[i] })
		for i, o := range list {
			if strings.HasPrefix(o.name, c.Invalid+"[") {
				j := len(list) - 1
				if orderIdx == 2 {
					j = 0
				}
				list[i], list[j] = list[j], list[i]
				break
			}
		}
	default:
		rng.Shuffle(len(list), func(i, j int) { list[i], list[j] = list[j], list[i] })
	}
	opts := make([]tmengine.Opt, len(list))
	order := make([]string, len(list))
	for i, o := range list {
		opts[i], order[i] = o.opt, o.name
	}
	return opts, order
}

// e3RunNewCase builds a single-validator engine with the case's options and,
// when an instance comes back, lets it run the small workload.
func e3RunNewCase(r *verifkit.Run, id string, c e3OptCase, orderIdx int, rng *mrand.Rand) (e3OptOutcome, *e3Run) {
	cfg := e3Config{Mode: "C09opt", N: 1, Profile: 0, Policy: e3PolicyFair, TimerPolicy: e3TimerNeverEarly, Target: 2, MaxSteps: 400, LagNode: -1, MaxCrashes: 1}
	run := newE3Run(r, id, cfg, rng)
	run.panicPrefix = "C09:options:New:"
	run.loopback = true
	n := run.nodes[0]
	n.fullOptionSet = true
	var order []string
	n.optMod = func(named []e3NamedOpt) []tmengine.Opt {
		opts, ord := e3ApplyCase(c, named, rng, orderIdx)
		order = ord
		return opts
	}
	stopWatch := make(chan struct{})
	go func() {
		t := time.NewTimer(150 * time.Second)
		defer t.Stop()
		select {
		case <-stopWatch:
		case <-t.C:
			run.inconclusive("watchdog: option case did not end within 150s: %s", c)
			run.rootCancel()
		}
	}()
	defer close(stopWatch)
	out := e3OptOutcome{}
	key, msg := n.start()
	out.Order = order
	switch {
	case n.newPanicked:
		out.Class, out.Err = "panic", msg
		run.violate(e3OptPanicKey("C09:options:New:"+key), fmt.Sprintf("tmengine.New panicked: %s (%s)", msg, c),
			map[string]any{"case": c, "order": order, "panic": msg})
	case key != "":
		out.Class, out.Err = "error", msg
		out.Mentioned = e3Mentioned(msg)
		n.permaDown = true
	default:
		out.Class = "instance"
		if orderIdx == 0 {
			run.loop()
			run.handleDeaths()
		} else {
			// other orders only have to construct, start and stop cleanly
			run.waitActivity(2 * time.Millisecond)
			run.handleDeaths()
		}
	}
	run.stopAll()
	return out, run
}

// e3RunMirrorCase does the same for tmengine.NewMirror.
func e3RunMirrorCase(r *verifkit.Run, id string, c e3OptCase, orderIdx int, rng *mrand.Rand, viol func(key, what string, detail any)) e3OptOutcome {
	w := e3NewWorld(rng, 1, 0, false, false)
	var mu sync.Mutex
	var pKey, pMsg, pStack string
	root, rootCancel := context.WithCancel(context.Background())
	defer rootCancel()
	ctx, cancel := context.WithCancelCause(root)
	ctx = verifhook.WithCatcher(ctx, func(name string, val any, stack []byte) {
		mu.Lock()
		if pKey == "" {
			pMsg, pStack = fmt.Sprint(val), string(stack)
			pKey = verifkit.PanicKey(pMsg, pStack)
		}
		mu.Unlock()
		cancel(fmt.Errorf("goroutine %s panicked", name))
	})
	wd, wctx := gwatchdog.NewNopWatchdog(ctx, e3QuietLog)
	lagCh := make(chan tmelink.LagState)
	metCh := make(chan tmengine.Metrics)
	var aux sync.WaitGroup
	aux.Add(1)
	go func() {
		defer aux.Done()
		for {
			select {
			case <-wctx.Done():
				return
			case <-lagCh:
			case <-metCh:
			}
		}
	}()
	named := []e3NamedOpt{
		{"WithMirrorStore", tmengine.WithMirrorStore(tmmemstore.NewMirrorStore())},
		{"WithCommittedHeaderStore", tmengine.WithCommittedHeaderStore(tmmemstore.NewCommittedHeaderStore())},
		{"WithRoundStore", tmengine.WithRoundStore(tmmemstore.NewRoundStore())},
		{"WithValidatorStore", tmengine.WithValidatorStore(tmmemstore.NewValidatorStore(e3HashScheme))},
		{"WithHashScheme", tmengine.WithHashScheme(e3HashScheme)},
		{"WithSignatureScheme", tmengine.WithSignatureScheme(e3SigScheme)},
		{"WithCommonMessageSignatureProofScheme", tmengine.WithCommonMessageSignatureProofScheme(e3CmspScheme)},
		{"WithGenesis", tmengine.WithGenesis(&tmconsensus.ExternalGenesis{
			ChainID: e3ChainID, InitialHeight: 1, InitialAppState: bytes.NewReader(nil), GenesisValidatorSet: w.valSet(1),
		})},
		{"WithWatchdog", tmengine.WithWatchdog(wd)},
		{"WithAssertEnv", tmengine.WithAssertEnv(gasserttest.DefaultEnv())},
		{"WithLagStateChannel", tmengine.WithLagStateChannel(lagCh)},
		{"WithReplayedHeaderRequestChannel", tmengine.WithReplayedHeaderRequestChannel(make(chan tmelink.ReplayedHeaderRequest))},
		{"WithMetricsChannel", tmengine.WithMetricsChannel(metCh)},
	}
	if c.Extra != "" {
		var x tmengine.Opt
		switch c.Extra {
		case "WithActionStore":
			x = tmengine.WithActionStore(tmmemstore.NewActionStore())
		case "WithFinalizationStore":
			x = tmengine.WithFinalizationStore(tmmemstore.NewFinalizationStore())
		case "WithStateMachineStore":
			x = tmengine.WithStateMachineStore(tmmemstore.NewStateMachineStore())
		case "WithGossipStrategy":
			x = tmengine.WithGossipStrategy(nil)
		case "WithConsensusStrategy":
			x = tmengine.WithConsensusStrategy(nil)
		case "WithInternalRoundTimer":
			x = tmengine.WithInternalRoundTimer(nil)
		case "WithBlockFinalizationChannel":
			x = tmengine.WithBlockFinalizationChannel(make(chan tmdriver.FinalizeBlockRequest))
		case "WithInitChainChannel":
			x = tmengine.WithInitChainChannel(make(chan tmdriver.InitChainRequest))
		case "WithSigner":
			x = tmengine.WithSigner(tmconsensus.PassthroughSigner{Signer: w.pv[0].Signer, SignatureScheme: e3SigScheme})
		case "WithBlockDataArrivalChannel":
			x = tmengine.WithBlockDataArrivalChannel(make(chan tmelink.BlockDataArrival))
		case "WithProposedHeaderInterceptor":
			x = tmengine.WithProposedHeaderInterceptor(nil)
		}
		named = append(named, e3NamedOpt{c.Extra, x})
	}
	opts, order := e3ApplyCase(c, named, rng, orderIdx)
	out := e3OptOutcome{Order: order}
	var m tmengine.Mirror
	var err error
	p, key, msg, stack := verifkit.Guard(func() {
		m, err = tmengine.NewMirror(wctx, e3QuietLog, opts...)
	})
	if p && strings.Contains(stack, "/tm/tmengine/opts.go") {
		// the panic was raised inside an option function (they may be inlined into NewMirror):
		// one defect whatever option it was
		key = "panic:tm/tmengine.With*(option function called with a nil state machine config):" + verifkit.Normalize(msg)
	}
	finish := func() {
		cancel(errE3Stop)
		if m != nil {
			done := make(chan struct{})
			go func() { m.Wait(); close(done) }()
			select {
			case <-done:
			case <-time.After(90 * time.Second):
				r.Inconclusive("%s: watchdog: Mirror.Wait did not return within 90s", id)
			}
		}
		wd.Wait()
		aux.Wait()
	}
	switch {
	case p:
		out.Class, out.Err = "panic", msg
		viol(e3OptPanicKey("C09:options:NewMirror:"+key), fmt.Sprintf("tmengine.NewMirror panicked: %s (%s)", msg, c), map[string]any{"case": c, "order": order, "panic": msg, "stack": stack})
		finish()
		return out
	case err != nil:
		out.Class, out.Err = "error", err.Error()
		out.Mentioned = e3Mentioned(out.Err)
		finish()
		return out
	case m == nil:
		out.Class, out.Err = "error", "(nil mirror and nil error)"
		viol("C09:options:NewMirror:nil-instance-and-nil-error", "tmengine.NewMirror returned neither an instance nor an error", map[string]any{"case": c, "order": order})
		finish()
		return out
	}
	out.Class = "instance"
	// workload: one proposal of the single validator and its votes commit height 1;
	// then a proposal for height 2.
	pp, pkey, pmsg, _ := verifkit.Guard(func() {
		base := tmconsensus.Header{PrevBlockHash: e3GenesisHashFor(w), Height: 1, ValidatorSet: w.valSet(1), NextValidatorSet: w.valSet(2), PrevAppStateHash: w.initAppHash}
		w.byz[0] = true // the harness signs for the only validator of this stand-alone mirror
		ph := w.byzProposal(base, 1, 0, 0, 0)
		_ = m.HandleProposedHeader(wctx, ph)
		pv, pkh := w.byzVote(false, 1, 0, map[string][]int{string(ph.Header.Hash): {0}})
		_ = m.HandlePrevoteProofs(wctx, tmconsensus.PrevoteSparseProof{Height: 1, Round: 0, PubKeyHash: pkh, Proofs: pv})
		pc, _ := w.byzVote(true, 1, 0, map[string][]int{string(ph.Header.Hash): {0}})
		_ = m.HandlePrecommitProofs(wctx, tmconsensus.PrecommitSparseProof{Height: 1, Round: 0, PubKeyHash: pkh, Proofs: pc})
		_ = m.HandlePrecommitProofs(wctx, tmconsensus.PrecommitSparseProof{Height: 1, Round: 0, PubKeyHash: pkh, Proofs: pc})
		pv2, _ := w.byzVote(false, 2, 0, map[string][]int{"": {0}})
		_ = m.HandlePrevoteProofs(wctx, tmconsensus.PrevoteSparseProof{Height: 2, Round: 0, PubKeyHash: pkh, Proofs: pv2})
	})
	if pp {
		viol("C09:options:NewMirror:"+pkey, "a Handle* call on the stand-alone mirror panicked: "+pmsg, map[string]any{"case": c, "order": order})
	}
	time.Sleep(2 * time.Millisecond)
	finish()
	mu.Lock()
	k, km, ks := pKey, pMsg, pStack
	mu.Unlock()
	if k != "" {
		viol("C09:options:NewMirror:"+k, "a goroutine of the stand-alone mirror panicked: "+km, map[string]any{"case": c, "order": order, "stack": ks})
	}
	return out
}

func e3GenesisHashFor(w *e3World) []byte {
	// The stand-alone mirror takes the genesis validator set as given; the predecessor hash of
	// block 1 is not checked at the initial height.
	return w.genesisHash
}

func TestVerif_C09_options(t *testing.T) {
	r := verifkit.Start("C09")
	if r == nil {
		t.Skip("not started by the /verif driver")
	}
	defer r.Finish()
	r.SetRule("Option matrix for tmengine.New and tmengine.NewMirror: the full valid option set, every single option removed, subsets of 2-3 options removed (all in the thorough tier, a seeded sample in the quick tier), every option given an invalid value (nil; buffered channel where the option documents an unbuffered one; zero genesis; genesis without validators), engine-only options handed to NewMirror, each list in up to 4 orders (canonical + random). Outcome must be an instance that survives a scripted workload (single validator chain committing two heights with its own gossip looped back; for the mirror one proposal and its votes) and shuts down, or an error that names every missing option the settings validation checks; the outcome class and the options named must not depend on option order; never a panic (constructor under recover, goroutines under the hook catcher). Non-trivial = distinct option lists whose outcome was judged.")

	cases := e3OptCases(r)
	only := -1
	if s := os.Getenv("VERIF_ONLY_CASE"); s != "" {
		fmt.Sscanf(s, "%d", &only)
	}
	var agg sync.Mutex
	totals := map[string]int64{}
	r.Parallel(len(cases), func(i int) {
		if only >= 0 && i != only {
			return
		}
		c := cases[i]
		id := fmt.Sprintf("opt-%d", i)
		r.BeginCase(id)
		rng := r.CaseRNG(i)
		judged := e3NewJudged
		if c.Ctor == "NewMirror" {
			judged = e3MirrorJudged
		}
		viol := func(key, what string, detail any) {
			r.Violate(key, what, id, detail)
		}
		var outs []e3OptOutcome
		local := map[string]int64{}
		for o := 0; o < c.Orders; o++ {
			var out e3OptOutcome
			if c.Ctor == "New" {
				var run *e3Run
				out, run = e3RunNewCase(r, fmt.Sprintf("%s-order%d", id, o), c, o, rng)
				if o == 0 && out.Class == "instance" {
					local["New.instance.heights-finalized"] += int64(run.nodes[0].lastFinH)
					if run.nodes[0].lastFinH >= 2 {
						local["New.instance.workload-completed"]++
					} else {
						local["New.instance.workload-no-progress"]++
					}
				}
				for k, v := range run.counters {
					if strings.HasPrefix(k, "panic.") || strings.HasPrefix(k, "engine-log.ERROR") {
						local["New."+k] += v
					}
				}
			} else {
				out = e3RunMirrorCase(r, fmt.Sprintf("%s-order%d", id, o), c, o, rng, viol)
			}
			outs = append(outs, out)
			local[c.Ctor+".outcome."+out.Class]++
		}
		r.Eval(1)

		// every missing judged option must be named by the error
		missing := []string{}
		signerPresent := true
		for _, x := range c.Removed {
			if x == "WithSigner" {
				signerPresent = false
			}
		}
		if c.Invalid == "WithSigner" {
			signerPresent = false
		}
		for _, x := range c.Removed {
			if nm, ok := judged[x]; ok {
				if x == "WithActionStore" && c.Ctor == "New" && !signerPresent {
					continue
				}
				missing = append(missing, nm)
			}
		}
		if c.InvalidKind == "nil" {
			if nm, ok := judged[c.Invalid]; ok && !(c.Invalid == "WithActionStore" && !signerPresent) {
				missing = append(missing, nm)
			}
		}
		if c.Invalid != "" && c.InvalidKind != "nil" {
			// an option that is itself refused may legitimately end construction before the
			// settings validation: the missing-option rule is not applied to these lists
			missing = nil
		}
		for _, out := range outs {
			if len(missing) > 0 && out.Class == "instance" {
				viol(fmt.Sprintf("C09:options:%s:instance-despite-missing-required-option:%s", c.Ctor, missing[0]),
					fmt.Sprintf("%s returned an instance although required option(s) %v are missing or nil", c.Ctor, missing),
					map[string]any{"case": c, "outcome": out})
			}
			if out.Class != "error" {
				continue
			}
			for _, nm := range missing {
				if !strings.Contains(out.Err, nm) {
					viol(fmt.Sprintf("C09:options:%s:error-omits-rejected-option:%s", c.Ctor, nm),
						fmt.Sprintf("%s: options %v are missing/nil but the error does not mention %s: %q", c.Ctor, missing, nm, out.Err),
						map[string]any{"case": c, "outcome": out, "missing": missing})
				}
			}
		}
		// the outcome must not depend on the order of the options
		selfRejecting := false
		if c.Invalid != "" && len(outs) > 1 && outs[1].Class == "error" && strings.Contains(outs[1].Err, c.Invalid) {
			// placed last, the option function's own error comes back: the option rejects this value
			selfRejecting = true
			for _, out := range outs {
				if out.Class == "panic" {
					continue
				}
				if out.Class != "error" || !strings.Contains(out.Err, c.Invalid) {
					viol(fmt.Sprintf("C09:options:%s:option-error-reported-only-when-option-is-last", c.Ctor),
						fmt.Sprintf("%s: %s(%s) is refused by its option function (error %q when it is the last option) but with the option elsewhere the outcome is %s %q", c.Ctor, c.Invalid, c.InvalidKind, outs[1].Err, out.Class, out.Err),
						map[string]any{"case": c, "option_last": outs[1], "other_order": out})
					break
				}
			}
		}
		for _, out := range outs[1:] {
			a, b := outs[0], out
			if selfRejecting || a.Class == "panic" || b.Class == "panic" {
				continue // already reported
			}
			if a.Class != b.Class || strings.Join(a.Mentioned, ",") != strings.Join(b.Mentioned, ",") {
				which := c.Invalid
				if which == "" && len(c.Removed) > 0 {
					which = c.Removed[0]
				}
				viol(fmt.Sprintf("C09:options:%s:outcome-depends-on-option-order:%s[%s]", c.Ctor, which, c.InvalidKind),
					fmt.Sprintf("%s: the same options give %s %v in one order and %s %v in another (%s)", c.Ctor, a.Class, a.Mentioned, b.Class, b.Mentioned, c),
					map[string]any{"case": c, "first": a, "second": b})
				break
			}
		}
		r.Nontrivial(fmt.Sprintf("%+v|%v", c, outs))
		if r.WantSample() && i%97 == 3 {
			r.Sample(map[string]any{"case": c, "outcomes": outs})
		}
		agg.Lock()
		for k, v := range local {
			totals[k] += v
		}
		totals["cases."+c.Ctor]++
		agg.Unlock()
	})
	for k, v := range totals {
		r.Count(k, v)
	}
}
