//go:build verif

package tmengine_test

// E3 node: one full engine from tmengine.New on in-memory stores, with the
// harness on every boundary: lock-respecting consensus strategy, echo driver
// that records every FinalizeBlockRequest, virtual round timer, broadcaster
// feeding the router, hook catcher that turns a panic in one of the engine's
// goroutines into a recorded fail-stop crash of this node.

import (
	"bytes"
	"context"
	"errors"
	"fmt"
	"log/slog"
	"os"
	"strings"
	"sync"
	"sync/atomic"
	"time"

	"github.com/gordian-engine/gordian/gassert/gasserttest"
	"github.com/gordian-engine/gordian/gcrypto"
	"github.com/gordian-engine/gordian/gexchange"
	"github.com/gordian-engine/gordian/gwatchdog"
	"github.com/gordian-engine/gordian/internal/verifhook"
	"github.com/gordian-engine/gordian/internal/verifkit"
	"github.com/gordian-engine/gordian/tm/tmconsensus"
	"github.com/gordian-engine/gordian/tm/tmdriver"
	"github.com/gordian-engine/gordian/tm/tmengine"
	"github.com/gordian-engine/gordian/tm/tmengine/tmelink"
	"github.com/gordian-engine/gordian/tm/tmgossip"
	"github.com/gordian-engine/gordian/tm/tmstore/tmmemstore"
)

// ---------------------------------------------------------------------------
// lock-respecting strategy

type e3HR struct {
	H uint64
	R uint32
}

// e3LockStrategy is the Tendermint locking rule written against
// tmconsensus.ConsensusStrategy. Its state survives engine restarts (an
// application persists its lock); every decision is memoized per (height,
// round), so a re-asked question gets the same answer.
//
//   - prevote: the locked hash if locked at this height; else the first proposal
//     of this (height, round) signed by the expected proposer; else nil when the
//     proposal timeout elapsed.
//   - precommit X only if the summary shows > 2/3 of the available power
//     prevoting X (then lock X at this round); otherwise precommit nil.
//
// The lock is never released within a height, which is stricter than
// Tendermint's unlock-on-later-polka and therefore also safe.
type e3LockStrategy struct {
	run *e3Run
	n   *e3Node

	mu          sync.Mutex
	curH        uint64
	curR        uint32
	entered     bool
	expProposer gcrypto.PubKey
	lockH       uint64
	lockedHash  string
	lockedRound int64
	prevoted    map[e3HR]string
	precommit   map[e3HR]string
	proposed    map[e3HR]bool
	dataOf      map[string]string // block hash -> data id, from the proposals shown to the strategy
}

func newE3LockStrategy(run *e3Run, n *e3Node) *e3LockStrategy {
	return &e3LockStrategy{
		run: run, n: n, lockedRound: -1,
		prevoted: map[e3HR]string{}, precommit: map[e3HR]string{}, proposed: map[e3HR]bool{},
		dataOf: map[string]string{},
	}
}

func (s *e3LockStrategy) EnterRound(ctx context.Context, rv tmconsensus.RoundView, proposalOut chan<- tmconsensus.Proposal) error {
	s.run.activity.Add(1)
	s.n.smAlive.Store(true)
	if err := s.n.collaboratorDelay(ctx, "strategy.EnterRound"); err != nil {
		return nil
	}
	s.mu.Lock()
	defer s.mu.Unlock()
	s.curH, s.curR, s.entered = rv.Height, rv.Round, true
	if s.lockH != rv.Height {
		s.lockH, s.lockedHash, s.lockedRound = rv.Height, "", -1
	}
	nv := len(rv.ValidatorSet.Validators)
	if nv == 0 {
		return nil
	}
	pi := int((rv.Height + uint64(rv.Round)) % uint64(nv))
	s.expProposer = rv.ValidatorSet.Validators[pi].PubKey
	s.run.logf("n%d strategy EnterRound %d/%d proposer=%d(me=%v) locked=%x@%d", s.n.idx, rv.Height, rv.Round, pi, s.expProposer.Equal(s.n.pub), short(s.lockedHash), s.lockedRound)
	if s.expProposer.Equal(s.n.pub) && proposalOut != nil {
		hr := e3HR{rv.Height, rv.Round}
		if !s.proposed[hr] {
			p := tmconsensus.Proposal{DataID: string(e3DataID(rv.Height, rv.Round, s.n.idx, 0))}
			if d, ok := s.dataOf[s.lockedHash]; ok && s.lockedHash != "" && s.lockH == rv.Height {
				// a locked proposer proposes the data it is locked on again
				p.DataID = d
				s.run.count("strategy.reproposed-locked-data", 1)
			}
			select {
			case proposalOut <- p:
				s.proposed[hr] = true
				s.run.count("strategy.proposed", 1)
			default:
			}
		}
	}
	return nil
}

func (s *e3LockStrategy) pick(phs []tmconsensus.ProposedHeader) (string, bool) {
	hr := e3HR{s.curH, s.curR}
	for _, ph := range phs {
		s.dataOf[string(ph.Header.Hash)] = string(ph.Header.DataID)
	}
	if h, ok := s.prevoted[hr]; ok {
		return h, true
	}
	if s.lockH == s.curH && s.lockedHash != "" {
		s.prevoted[hr] = s.lockedHash
		s.run.count("strategy.prevote.locked", 1)
		return s.lockedHash, true
	}
	for _, ph := range phs {
		if ph.Header.Height != s.curH || ph.Round != s.curR {
			continue
		}
		if s.expProposer == nil || ph.ProposerPubKey == nil || !s.expProposer.Equal(ph.ProposerPubKey) {
			continue
		}
		if len(ph.Header.DataID) != 32 {
			continue
		}
		h := string(ph.Header.Hash)
		s.prevoted[hr] = h
		s.run.count("strategy.prevote.proposal", 1)
		return h, true
	}
	return "", false
}

func (s *e3LockStrategy) ConsiderProposedBlocks(ctx context.Context, phs []tmconsensus.ProposedHeader, _ tmconsensus.ConsiderProposedBlocksReason) (string, error) {
	s.run.activity.Add(1)
	if err := s.n.collaboratorDelay(ctx, "strategy.Consider"); err != nil {
		return "", tmconsensus.ErrProposedBlockChoiceNotReady
	}
	s.mu.Lock()
	defer s.mu.Unlock()
	if h, ok := s.pick(phs); ok {
		s.run.logf("n%d strategy Consider %d/%d -> %x", s.n.idx, s.curH, s.curR, short(h))
		return h, nil
	}
	return "", tmconsensus.ErrProposedBlockChoiceNotReady
}

func (s *e3LockStrategy) ChooseProposedBlock(ctx context.Context, phs []tmconsensus.ProposedHeader) (string, error) {
	s.run.activity.Add(1)
	if err := s.n.collaboratorDelay(ctx, "strategy.Choose"); err != nil {
		return "", nil
	}
	s.mu.Lock()
	defer s.mu.Unlock()
	if h, ok := s.pick(phs); ok {
		s.run.logf("n%d strategy Choose %d/%d -> %x", s.n.idx, s.curH, s.curR, short(h))
		return h, nil
	}
	s.prevoted[e3HR{s.curH, s.curR}] = ""
	s.run.count("strategy.prevote.nil", 1)
	s.run.logf("n%d strategy Choose %d/%d -> nil", s.n.idx, s.curH, s.curR)
	return "", nil
}

func (s *e3LockStrategy) DecidePrecommit(ctx context.Context, vs tmconsensus.VoteSummary) (string, error) {
	s.run.activity.Add(1)
	if err := s.n.collaboratorDelay(ctx, "strategy.Decide"); err != nil {
		return "", nil
	}
	s.mu.Lock()
	defer s.mu.Unlock()
	hr := e3HR{s.curH, s.curR}
	if h, ok := s.precommit[hr]; ok {
		return h, nil
	}
	choice := ""
	for hash, pow := range vs.PrevoteBlockPower {
		if hash == "" {
			continue
		}
		if e3ExceedsTwoThirds(pow, vs.AvailablePower) {
			choice = hash
			break
		}
	}
	if choice != "" {
		s.lockH, s.lockedHash, s.lockedRound = s.curH, choice, int64(s.curR)
		s.run.count("strategy.precommit.block", 1)
	} else {
		s.run.count("strategy.precommit.nil", 1)
	}
	s.precommit[hr] = choice
	s.run.logf("n%d strategy Decide %d/%d -> %x (prevote powers %v of %d)", s.n.idx, s.curH, s.curR, short(choice), shortPowers(vs.PrevoteBlockPower), vs.AvailablePower)
	return choice, nil
}

func short(s string) []byte {
	if len(s) > 4 {
		return []byte(s[:4])
	}
	return []byte(s)
}

func shortPowers(m map[string]uint64) string {
	out := ""
	for k, v := range m {
		out += fmt.Sprintf("%x:%d ", short(k), v)
	}
	return out
}

// ---------------------------------------------------------------------------
// virtual round timer

type e3Tmr struct {
	name string
	h    uint64
	r    uint32
	ch   chan struct{}
	done bool
}

type e3Timer struct {
	run *e3Run
	n   *e3Node

	mu     sync.Mutex
	active *e3Tmr
}

func (t *e3Timer) mk(name string, h uint64, r uint32) (<-chan struct{}, func()) {
	t.run.activity.Add(1)
	t.mu.Lock()
	defer t.mu.Unlock()
	if t.active != nil && !t.active.done {
		t.run.count("timer.requested-while-another-active", 1)
	}
	x := &e3Tmr{name: name, h: h, r: r, ch: make(chan struct{})}
	t.active = x
	return x.ch, func() {
		t.mu.Lock()
		defer t.mu.Unlock()
		if !x.done {
			x.done = true
			if t.active == x {
				t.active = nil
			}
		}
	}
}

func (t *e3Timer) ProposalTimer(_ context.Context, h uint64, r uint32) (<-chan struct{}, func()) {
	return t.mk("proposal", h, r)
}
func (t *e3Timer) PrevoteDelayTimer(_ context.Context, h uint64, r uint32) (<-chan struct{}, func()) {
	return t.mk("prevote-delay", h, r)
}
func (t *e3Timer) PrecommitDelayTimer(_ context.Context, h uint64, r uint32) (<-chan struct{}, func()) {
	return t.mk("precommit-delay", h, r)
}
func (t *e3Timer) CommitWaitTimer(_ context.Context, h uint64, r uint32) (<-chan struct{}, func()) {
	return t.mk("commit-wait", h, r)
}

// peek returns the active timer's name ("" if none).
func (t *e3Timer) peek() (string, uint64, uint32) {
	t.mu.Lock()
	defer t.mu.Unlock()
	if t.active == nil || t.active.done {
		return "", 0, 0
	}
	return t.active.name, t.active.h, t.active.r
}

func (t *e3Timer) fire() (string, uint64, uint32, bool) {
	t.mu.Lock()
	defer t.mu.Unlock()
	if t.active == nil || t.active.done {
		return "", 0, 0, false
	}
	x := t.active
	x.done = true
	t.active = nil
	close(x.ch)
	return x.name, x.h, x.r, true
}

// ---------------------------------------------------------------------------
// broadcaster

type e3Broadcaster struct {
	ph chan tmconsensus.ProposedHeader
	pv chan tmconsensus.PrevoteSparseProof
	pc chan tmconsensus.PrecommitSparseProof
}

func (b *e3Broadcaster) OutgoingProposedHeaders() chan<- tmconsensus.ProposedHeader { return b.ph }
func (b *e3Broadcaster) OutgoingPrevoteProofs() chan<- tmconsensus.PrevoteSparseProof {
	return b.pv
}
func (b *e3Broadcaster) OutgoingPrecommitProofs() chan<- tmconsensus.PrecommitSparseProof {
	return b.pc
}

// ---------------------------------------------------------------------------
// node

type e3FinRec struct {
	Seq   uint64 `json:"seq"`
	Node  int    `json:"node"`
	Inc   int    `json:"incarnation"`
	H     uint64 `json:"height"`
	Round uint32 `json:"round"`
	Hash  string `json:"hash"`
	Step  int    `json:"router_step"`
}

type e3Node struct {
	// replayCh is the node's ReplayedHeaderRequest channel in C03 runs (re-made per start).
	replayCh chan tmelink.ReplayedHeaderRequest

	run *e3Run
	idx int // base validator index
	pub gcrypto.PubKey

	as *tmmemstore.ActionStore
	hs *tmmemstore.CommittedHeaderStore
	fs *tmmemstore.FinalizationStore
	ms *tmmemstore.MirrorStore
	rs *tmmemstore.RoundStore
	ss *tmmemstore.StateMachineStore
	vs *tmmemstore.ValidatorStore

	strat *e3LockStrategy
	bc    *e3Broadcaster

	// per incarnation
	mu      sync.Mutex
	inc     int
	up      bool
	ctx     context.Context
	cancel  context.CancelCauseFunc
	eng     *tmengine.Engine
	handler tmconsensus.ConsensusHandler
	gs      *tmgossip.ChattyStrategy
	wd      *gwatchdog.Watchdog
	timer   *e3Timer
	aux     sync.WaitGroup // driver + broadcaster readers of this incarnation

	dead       atomic.Bool
	panicName  string
	panicKey   string
	panicMsg   string
	panicStack string

	crashes   int
	permaDown bool

	// signs of life of this incarnation's state machine: it entered a round on the
	// strategy or handed a block to the driver
	smAlive     atomic.Bool
	startedAt   time.Time
	startedStep int
	deadSeen    bool
	lastErrLog  atomic.Value // string: last ERROR line the engine logged

	// option matrix (C09(a))
	fullOptionSet bool
	optMod        func([]e3NamedOpt) []tmengine.Opt
	newErr        error // error of the last tmengine.New, if any
	newPanicked   bool

	// progress bookkeeping (router goroutine and driver goroutine; under run.mu)
	lastFinH       uint64
	finHeldAtStart map[int]map[uint64]bool // incarnation -> heights in the finalization store at its start
	lastProgress   int                     // router step of the last finalization by this node
}

func newE3Node(run *e3Run, idx int) *e3Node {
	n := &e3Node{
		run: run, idx: idx, pub: run.w.pv[idx].Signer.PubKey(),
		as: tmmemstore.NewActionStore(),
		hs: tmmemstore.NewCommittedHeaderStore(),
		fs: tmmemstore.NewFinalizationStore(),
		ms: tmmemstore.NewMirrorStore(),
		rs: tmmemstore.NewRoundStore(),
		ss: tmmemstore.NewStateMachineStore(),
		vs: tmmemstore.NewValidatorStore(e3HashScheme),
		bc: &e3Broadcaster{
			ph: make(chan tmconsensus.ProposedHeader),
			pv: make(chan tmconsensus.PrevoteSparseProof),
			pc: make(chan tmconsensus.PrecommitSparseProof),
		},
	}
	n.strat = newE3LockStrategy(run, n)
	return n
}

// collaboratorDelay implements the "slow collaborator" knobs of C09(c): a
// virtual delay (the answer is held for a number of router steps) and a real
// sleep. It returns an error only when the node's context ended while waiting.
func (n *e3Node) collaboratorDelay(ctx context.Context, what string) error {
	cfg := n.run.cfg
	if cfg.virtDelayMax > 0 {
		d := n.run.delayDraw(cfg.virtDelayMax)
		if d > 0 {
			n.run.count("delay.virtual."+what, 1)
			if !n.run.hold(ctx, d) {
				return context.Cause(ctx)
			}
		}
	}
	if cfg.realSleepMaxMs > 0 {
		d := n.run.delayDraw(cfg.realSleepMaxMs)
		if d > 0 {
			n.run.count("delay.real."+what, 1)
			n.run.sleeping.Add(1)
			defer n.run.sleeping.Add(-1)
			t := time.NewTimer(time.Duration(d) * time.Millisecond)
			defer t.Stop()
			select {
			case <-ctx.Done():
				return context.Cause(ctx)
			case <-t.C:
			}
		}
	}
	return nil
}

var errE3Stop = errors.New("harness stop")

// e3LogHandler copies the engine's own log lines into the run trace (diagnosis only, VERIF_E3_LOG=1).
type e3LogHandler struct {
	run     *e3Run
	node    int
	attrs   string
	verbose bool
}

func (h e3LogHandler) Enabled(_ context.Context, l slog.Level) bool {
	return h.verbose || l >= slog.LevelInfo
}
func (h e3LogHandler) Handle(_ context.Context, rec slog.Record) error {
	// Warnings, errors and a few telling info lines are tallied (never judged).
	if rec.Level >= slog.LevelError {
		if nd := h.run.nodes[h.node]; nd != nil {
			nd.lastErrLog.Store(rec.Message)
		}
	}
	if rec.Level >= slog.LevelWarn || strings.HasPrefix(rec.Message, "Dropping state machine") {
		h.run.count("engine-log."+rec.Level.String()+"."+verifkit.Normalize(rec.Message), 1)
	}
	if !h.verbose && !strings.HasPrefix(rec.Message, "State machine kernel quitting") && !strings.HasPrefix(rec.Message, "Mirror kernel stopping") && rec.Level < slog.LevelWarn {
		return nil
	}
	var sb strings.Builder
	rec.Attrs(func(a slog.Attr) bool {
		v := a.Value.String()
		if len(v) > 120 {
			v = v[:120] + "..."
		}
		fmt.Fprintf(&sb, " %s=%s", a.Key, v)
		return true
	})
	h.run.logf("n%d LOG %s%s: %s%s", h.node, rec.Level, h.attrs, rec.Message, sb.String())
	return nil
}
func (h e3LogHandler) WithAttrs(as []slog.Attr) slog.Handler {
	for _, a := range as {
		h.attrs += " " + a.Key + "=" + a.Value.String()
	}
	return h
}
func (h e3LogHandler) WithGroup(string) slog.Handler { return h }

func (n *e3Node) logger() *slog.Logger {
	return slog.New(e3LogHandler{run: n.run, node: n.idx, verbose: os.Getenv("VERIF_E3_LOG") != ""})
}

// start creates an engine incarnation on the node's stores. It reports a
// constructor panic or error as (key, msg); "" means the engine is running.
func (n *e3Node) start() (errKey, errMsg string) {
	run := n.run
	n.mu.Lock()
	n.inc++
	inc := n.inc
	// which heights the finalization store durably holds when this incarnation starts: a
	// finalization of such a height may not be requested again (C03 contiguity, C10)
	held := map[uint64]bool{}
	for h := uint64(1); h <= 64; h++ {
		if _, _, _, _, err := n.fs.LoadFinalizationByHeight(context.Background(), h); err == nil {
			held[h] = true
		}
	}
	if n.finHeldAtStart == nil {
		n.finHeldAtStart = map[int]map[uint64]bool{}
	}
	n.finHeldAtStart[inc] = held
	n.mu.Unlock()
	n.dead.Store(false)
	n.smAlive.Store(false)
	n.panicKey, n.panicMsg, n.panicStack, n.panicName = "", "", "", ""

	ctx, cancel := context.WithCancelCause(run.rootCtx)
	ctx = verifhook.WithCatcher(ctx, func(name string, val any, stack []byte) {
		n.mu.Lock()
		if inc != n.inc {
			n.mu.Unlock()
			return
		}
		if n.panicKey == "" {
			n.panicName = name
			n.panicMsg = fmt.Sprint(val)
			n.panicStack = string(stack)
			n.panicKey = verifkit.PanicKey(n.panicMsg, n.panicStack)
		}
		n.mu.Unlock()
		n.dead.Store(true)
		run.activity.Add(1)
		cancel(fmt.Errorf("goroutine %s panicked: %v", name, val))
	})
	wd, wctx := gwatchdog.NewNopWatchdog(ctx, e3QuietLog)
	n.ctx, n.cancel, n.wd = wctx, cancel, wd
	n.timer = &e3Timer{run: run, n: n}
	n.gs = tmgossip.NewChattyStrategy(wctx, e3QuietLog, n.bc)

	initCh := make(chan tmdriver.InitChainRequest)
	finCh := make(chan tmdriver.FinalizeBlockRequest)
	n.aux.Add(2)
	go n.driverLoop(wctx, inc, initCh, finCh)
	go n.broadcastLoop(wctx)

	named := n.namedOpts(wctx, initCh, finCh, wd)
	var opts []tmengine.Opt
	if n.optMod != nil {
		opts = n.optMod(named)
	} else {
		for _, o := range named {
			opts = append(opts, o.opt)
		}
	}

	var eng *tmengine.Engine
	var err error
	p, key, msg, _ := verifkit.Guard(func() {
		eng, err = tmengine.New(wctx, n.logger(), opts...)
	})
	n.newErr, n.newPanicked = err, p
	if p || err != nil {
		cancel(errE3Stop)
		if eng != nil {
			e3WaitOrGiveUp(run, "engine.Wait after failed New", eng.Wait)
		} else {
			e3WaitOrGiveUp(run, "gossip.Wait after failed New", n.gs.Wait)
		}
		e3WaitOrGiveUp(run, "watchdog.Wait", wd.Wait)
		e3WaitOrGiveUp(run, "aux.Wait", n.aux.Wait)
		if p {
			return key, msg
		}
		return "error:tmengine.New:" + verifkit.Normalize(err.Error()), err.Error()
	}
	n.eng = eng
	n.startedAt, n.startedStep, n.deadSeen = time.Now(), int(run.stepNo.Load()), false
	n.handler = tmconsensus.AcceptAllValidFeedbackMapper{Handler: eng}
	n.mu.Lock()
	n.up = true
	n.mu.Unlock()
	run.logf("n%d started (incarnation %d)", n.idx, inc)
	return "", ""
}

// stop cancels the incarnation and waits for all of its goroutines.
func (n *e3Node) stop() {
	n.mu.Lock()
	if !n.up {
		n.mu.Unlock()
		return
	}
	n.up = false
	n.inc++ // late panics of the stopped incarnation are not attributed
	n.mu.Unlock()
	n.cancel(errE3Stop)
	e3WaitOrGiveUp(n.run, "engine.Wait", n.eng.Wait)
	e3WaitOrGiveUp(n.run, "watchdog.Wait", n.wd.Wait)
	e3WaitOrGiveUp(n.run, "aux.Wait", n.aux.Wait)
	n.eng = nil
	n.handler = nil
}

func (n *e3Node) isUp() bool {
	n.mu.Lock()
	defer n.mu.Unlock()
	return n.up
}

// e3WaitOrGiveUp waits for fn with a generous watchdog; expiry is inconclusive.
func e3WaitOrGiveUp(run *e3Run, what string, fn func()) {
	done := make(chan struct{})
	go func() { fn(); close(done) }()
	t := time.NewTimer(90 * time.Second)
	defer t.Stop()
	select {
	case <-done:
	case <-t.C:
		run.inconclusive("watchdog: %s did not return within 90s", what)
	}
}

func (n *e3Node) driverLoop(ctx context.Context, inc int, initCh chan tmdriver.InitChainRequest, finCh chan tmdriver.FinalizeBlockRequest) {
	defer n.aux.Done()
	run := n.run
	for {
		select {
		case <-ctx.Done():
			return
		case req, ok := <-initCh:
			if !ok {
				initCh = nil
				continue
			}
			run.activity.Add(1)
			run.count("driver.initchain", 1)
			select {
			case req.Resp <- tmdriver.InitChainResponse{AppStateHash: bytes.Clone(run.w.initAppHash)}:
			case <-ctx.Done():
				return
			}
		case req := <-finCh:
			run.activity.Add(1)
			n.smAlive.Store(true)
			h := req.Header.Height
			run.recordFinalization(n, inc, h, req.Round, string(req.Header.Hash))
			if err := n.collaboratorDelay(ctx, "driver.Finalize"); err != nil {
				return
			}
			resp := tmdriver.FinalizeBlockResponse{
				Height:       h,
				Round:        req.Round,
				BlockHash:    bytes.Clone(req.Header.Hash),
				Validators:   run.w.vals(h + 2),
				AppStateHash: e3AppHash(req.Header.Hash),
			}
			select {
			case req.Resp <- resp:
			case <-ctx.Done():
				return
			}
			run.activity.Add(1)
		}
	}
}

// broadcastLoop receives what the node's gossip strategy publishes and hands
// deep copies to the router.
func (n *e3Node) broadcastLoop(ctx context.Context) {
	defer n.aux.Done()
	run := n.run
	for {
		select {
		case <-ctx.Done():
			return
		case ph := <-n.bc.ph:
			run.fromNode(n.idx, e3Msg{kind: e3KindPH, ph: e3ClonePH(ph)})
		case pv := <-n.bc.pv:
			run.fromNode(n.idx, e3Msg{kind: e3KindPrevote, pv: e3ClonePrevote(pv)})
		case pc := <-n.bc.pc:
			run.fromNode(n.idx, e3Msg{kind: e3KindPrecommit, pc: e3ClonePrecommit(pc)})
		}
	}
}

// e3NamedOpt is one engine option with the name of the With* function that made it.
type e3NamedOpt struct {
	name string
	opt  tmengine.Opt
}

// namedOpts builds the option set of one incarnation. With fullOptionSet every
// documented option is present (the optional channels get reader goroutines).
func (n *e3Node) namedOpts(wctx context.Context, initCh chan tmdriver.InitChainRequest, finCh chan tmdriver.FinalizeBlockRequest, wd *gwatchdog.Watchdog) []e3NamedOpt {
	run := n.run
	out := []e3NamedOpt{
		{"WithActionStore", tmengine.WithActionStore(n.as)},
		{"WithCommittedHeaderStore", tmengine.WithCommittedHeaderStore(n.hs)},
		{"WithFinalizationStore", tmengine.WithFinalizationStore(n.fs)},
		{"WithMirrorStore", tmengine.WithMirrorStore(n.ms)},
		{"WithRoundStore", tmengine.WithRoundStore(n.rs)},
		{"WithStateMachineStore", tmengine.WithStateMachineStore(n.ss)},
		{"WithValidatorStore", tmengine.WithValidatorStore(n.vs)},

		{"WithHashScheme", tmengine.WithHashScheme(e3HashScheme)},
		{"WithSignatureScheme", tmengine.WithSignatureScheme(e3SigScheme)},
		{"WithCommonMessageSignatureProofScheme", tmengine.WithCommonMessageSignatureProofScheme(e3CmspScheme)},

		{"WithGossipStrategy", tmengine.WithGossipStrategy(n.gs)},
		{"WithConsensusStrategy", tmengine.WithConsensusStrategy(n.strat)},

		{"WithGenesis", tmengine.WithGenesis(&tmconsensus.ExternalGenesis{
			ChainID:             e3ChainID,
			InitialHeight:       1,
			InitialAppState:     bytes.NewReader(nil),
			GenesisValidatorSet: run.w.valSet(1),
		})},

		{"WithInternalRoundTimer", tmengine.WithInternalRoundTimer(n.timer)},

		{"WithBlockFinalizationChannel", tmengine.WithBlockFinalizationChannel(finCh)},
		{"WithInitChainChannel", tmengine.WithInitChainChannel(initCh)},

		{"WithSigner", tmengine.WithSigner(tmconsensus.PassthroughSigner{
			Signer:          run.w.pv[n.idx].Signer,
			SignatureScheme: e3SigScheme,
		})},

		{"WithWatchdog", tmengine.WithWatchdog(wd)},
		{"WithAssertEnv", tmengine.WithAssertEnv(gasserttest.DefaultEnv())},
	}
	if run.cfg.Mode == "C03" && !n.fullOptionSet {
		// a catch-up source the harness can speak through (attack kind 4)
		n.replayCh = make(chan tmelink.ReplayedHeaderRequest)
		out = append(out, e3NamedOpt{"WithReplayedHeaderRequestChannel", tmengine.WithReplayedHeaderRequestChannel(n.replayCh)})
	}
	if n.fullOptionSet {
		lagCh := make(chan tmelink.LagState)
		metCh := make(chan tmengine.Metrics)
		n.aux.Add(1)
		go func() {
			defer n.aux.Done()
			for {
				select {
				case <-wctx.Done():
					return
				case <-lagCh:
					run.count("options.lag-state-received", 1)
				case <-metCh:
					run.count("options.metrics-received", 1)
				}
			}
		}()
		out = append(out,
			e3NamedOpt{"WithBlockDataArrivalChannel", tmengine.WithBlockDataArrivalChannel(make(chan tmelink.BlockDataArrival))},
			e3NamedOpt{"WithLagStateChannel", tmengine.WithLagStateChannel(lagCh)},
			e3NamedOpt{"WithProposedHeaderInterceptor", tmengine.WithProposedHeaderInterceptor(tmelink.ProposedHeaderInterceptorFunc(
				func(context.Context, *tmconsensus.ProposedHeader) error { return nil }))},
			e3NamedOpt{"WithReplayedHeaderRequestChannel", tmengine.WithReplayedHeaderRequestChannel(make(chan tmelink.ReplayedHeaderRequest))},
			e3NamedOpt{"WithMetricsChannel", tmengine.WithMetricsChannel(metCh)},
		)
	}
	return out
}

// deliver hands one message to the engine through the shipped feedback
// mapper. A panic on the calling goroutine is reported like a kernel panic.
func (n *e3Node) deliver(m *e3Msg) (fb gexchange.Feedback, panicked bool) {
	h := n.handler
	ctx := n.ctx
	p, key, msg, stack := verifkit.Guard(func() {
		switch m.kind {
		case e3KindPH:
			fb = h.HandleProposedHeader(ctx, e3ClonePH(m.ph))
		case e3KindPrevote:
			fb = h.HandlePrevoteProofs(ctx, e3ClonePrevote(m.pv))
		case e3KindPrecommit:
			fb = h.HandlePrecommitProofs(ctx, e3ClonePrecommit(m.pc))
		}
	})
	if p {
		n.mu.Lock()
		if n.panicKey == "" {
			n.panicName = "caller:Handle*"
			n.panicKey, n.panicMsg, n.panicStack = key, msg, stack
		}
		n.mu.Unlock()
		n.dead.Store(true)
		return fb, true
	}
	return fb, false
}
