//go:build verif

package tmengine_test

// E3 "world": everything the harness owns about one multi-engine run:
// keys, power distribution, who is Byzantine, the validator set the echo
// application prescribes for every height, block/app-hash helpers and the
// builders for hostile (Byzantine-signed) proposals and votes.
// Nothing in here trusts what an engine says.

import (
	"bytes"
	"context"
	"crypto/sha256"
	"encoding/binary"
	"fmt"
	"io"
	"log/slog"
	"math/bits"
	"math/rand/v2"

	"github.com/gordian-engine/gordian/gcrypto"
	"github.com/gordian-engine/gordian/tm/tmconsensus"
	"github.com/gordian-engine/gordian/tm/tmconsensus/tmconsensustest"
)

var e3QuietLog = slog.New(slog.NewTextHandler(io.Discard, &slog.HandlerOptions{Level: slog.LevelError + 10}))

var (
	e3HashScheme = tmconsensustest.SimpleHashScheme{}
	e3SigScheme  = tmconsensustest.SimpleSignatureScheme{}
	e3CmspScheme = gcrypto.SimpleCommonMessageSignatureProofScheme{}
)

const e3ChainID = "verif-e3"

// e3ExceedsTwoThirds reports 3*p > 2*total in 128-bit arithmetic.
func e3ExceedsTwoThirds(p, total uint64) bool {
	h1, l1 := bits.Mul64(p, 3)
	h2, l2 := bits.Mul64(total, 2)
	return h1 > h2 || (h1 == h2 && l1 > l2)
}

// e3BelowOneThird reports 3*p < total in 128-bit arithmetic.
func e3BelowOneThird(p, total uint64) bool {
	h1, l1 := bits.Mul64(p, 3)
	return h1 == 0 && l1 < total
}

type e3World struct {
	n  int
	pv tmconsensustest.PrivVals // base order; Val.Power overwritten with the run's powers
	// scalePowers: see powerScale
	scalePowers bool
	powers      []uint64
	total       uint64
	byz         map[int]bool // base index -> Byzantine
	rotate      bool

	initAppHash []byte
	genesisHash []byte
}

var e3PowerProfiles = []string{"equal", "fixture", "heavy-byz", "random-small", "huge", "skewed-correct"}

func e3NewWorld(rng *rand.Rand, n int, profile int, wantByz bool, rotate bool) *e3World {
	w := &e3World{n: n, rotate: rotate, byz: map[int]bool{}}
	base := tmconsensustest.DeterministicValidatorsEd25519(n)
	w.pv = make(tmconsensustest.PrivVals, n)
	copy(w.pv, base)
	pows := make([]uint64, n)
	heavy := -1
	switch profile % len(e3PowerProfiles) {
	case 0:
		for i := range pows {
			pows[i] = 1
		}
	case 1:
		for i := range pows {
			pows[i] = uint64(100_000 - i)
		}
	case 2:
		// one validator just below one third of the total; it is the Byzantine one
		for i := range pows {
			pows[i] = 10
		}
		heavy = rng.IntN(n)
		// p < (p + 10(n-1))/3  <=>  2p < 10(n-1)  <=> p < 5(n-1)
		pows[heavy] = uint64(5*(n-1) - 1)
	case 3:
		for i := range pows {
			pows[i] = 1 + uint64(rng.IntN(9))
		}
	case 4:
		for i := range pows {
			pows[i] = 1<<58 + uint64(rng.IntN(1000))
		}
	case 5:
		for i := range pows {
			pows[i] = 1 + uint64(rng.IntN(3))
		}
		// one validator with a large share (between 1/3 and 1/2 of the total)
		var rest uint64
		for _, p := range pows {
			rest += p
		}
		pows[rng.IntN(n)] = rest/2 + 1
	}
	for i := range pows {
		w.total += pows[i]
		w.pv[i].Val.Power = pows[i]
	}
	w.powers = pows
	// rotating worlds also rescale the powers per height (not the 2^58 profile, which would overflow)
	w.scalePowers = w.total < 1<<50
	if wantByz {
		var bp uint64
		if heavy >= 0 {
			w.byz[heavy] = true
			bp = pows[heavy]
		}
		maxByz := (n - 1) / 3
		for _, i := range rng.Perm(n) {
			if len(w.byz) >= maxByz {
				break
			}
			if w.byz[i] {
				continue
			}
			if e3BelowOneThird(bp+pows[i], w.total) {
				w.byz[i] = true
				bp += pows[i]
			}
		}
	}
	// Sanity: strictly below one third by construction.
	if !e3BelowOneThird(w.byzPower(), w.total) && len(w.byz) > 0 {
		panic("harness bug: Byzantine power not below one third")
	}
	ah := sha256.Sum256([]byte("verif-e3-initial-app-state"))
	w.initAppHash = ah[:]
	g := tmconsensus.Genesis{
		ChainID:             e3ChainID,
		InitialHeight:       1,
		CurrentAppStateHash: w.initAppHash,
		ValidatorSet:        w.valSet(1),
	}
	gh, err := g.Header(e3HashScheme)
	if err != nil {
		panic(err)
	}
	w.genesisHash = gh.Hash
	return w
}

func (w *e3World) byzPower() uint64 {
	var p uint64
	for i := range w.byz {
		p += w.powers[i]
	}
	return p
}

func (w *e3World) byzList() []int {
	var out []int
	for i := 0; i < w.n; i++ {
		if w.byz[i] {
			out = append(out, i)
		}
	}
	return out
}

func (w *e3World) correctList() []int {
	var out []int
	for i := 0; i < w.n; i++ {
		if !w.byz[i] {
			out = append(out, i)
		}
	}
	return out
}

// order returns the base indices in the order the validator set of height h lists them.
// Heights 1 and 2 use the genesis order (the genesis set is both the set of height 1 and
// the NextValidatorSet of block 1); from height 3 on a rotating application shifts the
// list cyclically, which changes key ids and both validator hashes at every height while
// keeping every validator's power (so the thresholds of the run stay what they are).
func (w *e3World) order(h uint64) []int {
	out := make([]int, w.n)
	shift := 0
	if w.rotate && h >= 3 {
		shift = int(h % uint64(w.n))
	}
	for i := range out {
		out[i] = (i + shift) % w.n
	}
	return out
}

// powerScale is the factor a rotating application applies to every validator's power at
// height h: shares, and with them who is below one third, stay what they are, while the
// total power (and every absolute threshold) differs from one height to the next.
func (w *e3World) powerScale(h uint64) uint64 {
	if !w.rotate || !w.scalePowers || h < 3 {
		return 1
	}
	return []uint64{1, 5, 2, 9}[h%4]
}

func (w *e3World) vals(h uint64) []tmconsensus.Validator {
	ord := w.order(h)
	out := make([]tmconsensus.Validator, len(ord))
	f := w.powerScale(h)
	for i, b := range ord {
		out[i] = w.pv[b].Val
		out[i].Power *= f
	}
	return out
}

func (w *e3World) valSet(h uint64) tmconsensus.ValidatorSet {
	vs, err := tmconsensus.NewValidatorSet(w.vals(h), e3HashScheme)
	if err != nil {
		panic(err)
	}
	return vs
}

// proposerBase returns the base index of the validator every harness strategy
// expects to propose at (h, r).
func (w *e3World) proposerBase(h uint64, r uint32) int {
	ord := w.order(h)
	return ord[int((h+uint64(r))%uint64(len(ord)))]
}

func e3AppHash(blockHash []byte) []byte {
	s := sha256.Sum256(append([]byte("verif-e3-app:"), blockHash...))
	return s[:]
}

func e3DataID(h uint64, r uint32, proposer int, variant byte) []byte {
	var b [8 + 4 + 4 + 1]byte
	binary.BigEndian.PutUint64(b[:], h)
	binary.BigEndian.PutUint32(b[8:], r)
	binary.BigEndian.PutUint32(b[12:], uint32(proposer))
	b[16] = variant
	s := sha256.Sum256(append([]byte("verif-e3-data:"), b[:]...))
	return s[:]
}

// ---------------------------------------------------------------------------
// deep copies: a message crossing the harness "network" must not share maps or
// slices between engines (a real network serializes).

func e3CloneSigs(in map[string][]gcrypto.SparseSignature) map[string][]gcrypto.SparseSignature {
	if in == nil {
		return nil
	}
	out := make(map[string][]gcrypto.SparseSignature, len(in))
	for k, v := range in {
		c := make([]gcrypto.SparseSignature, len(v))
		for i, s := range v {
			c[i] = gcrypto.SparseSignature{KeyID: bytes.Clone(s.KeyID), Sig: bytes.Clone(s.Sig)}
		}
		out[k] = c
	}
	return out
}

func e3CloneValSet(vs tmconsensus.ValidatorSet) tmconsensus.ValidatorSet {
	out := tmconsensus.ValidatorSet{
		PubKeyHash:    bytes.Clone(vs.PubKeyHash),
		VotePowerHash: bytes.Clone(vs.VotePowerHash),
	}
	if vs.Validators != nil {
		out.Validators = append([]tmconsensus.Validator(nil), vs.Validators...)
	}
	if vs.PubKeys != nil {
		out.PubKeys = append([]gcrypto.PubKey(nil), vs.PubKeys...)
	}
	return out
}

func e3CloneHeader(h tmconsensus.Header) tmconsensus.Header {
	out := h
	out.Hash = bytes.Clone(h.Hash)
	out.PrevBlockHash = bytes.Clone(h.PrevBlockHash)
	out.PrevCommitProof = tmconsensus.CommitProof{
		Round:      h.PrevCommitProof.Round,
		PubKeyHash: h.PrevCommitProof.PubKeyHash,
		Proofs:     e3CloneSigs(h.PrevCommitProof.Proofs),
	}
	out.ValidatorSet = e3CloneValSet(h.ValidatorSet)
	out.NextValidatorSet = e3CloneValSet(h.NextValidatorSet)
	out.DataID = bytes.Clone(h.DataID)
	out.PrevAppStateHash = bytes.Clone(h.PrevAppStateHash)
	out.Annotations = tmconsensus.Annotations{User: bytes.Clone(h.Annotations.User), Driver: bytes.Clone(h.Annotations.Driver)}
	return out
}

func e3ClonePH(ph tmconsensus.ProposedHeader) tmconsensus.ProposedHeader {
	out := ph
	out.Header = e3CloneHeader(ph.Header)
	out.Annotations = tmconsensus.Annotations{User: bytes.Clone(ph.Annotations.User), Driver: bytes.Clone(ph.Annotations.Driver)}
	out.Signature = bytes.Clone(ph.Signature)
	return out
}

func e3ClonePrevote(p tmconsensus.PrevoteSparseProof) tmconsensus.PrevoteSparseProof {
	return tmconsensus.PrevoteSparseProof{Height: p.Height, Round: p.Round, PubKeyHash: p.PubKeyHash, Proofs: e3CloneSigs(p.Proofs)}
}

func e3ClonePrecommit(p tmconsensus.PrecommitSparseProof) tmconsensus.PrecommitSparseProof {
	return tmconsensus.PrecommitSparseProof{Height: p.Height, Round: p.Round, PubKeyHash: p.PubKeyHash, Proofs: e3CloneSigs(p.Proofs)}
}

// ---------------------------------------------------------------------------
// hostile message builders

// byzVote builds a sparse vote message for (h, r) in which the Byzantine
// validators in signers vote for the given targets ("" = nil).
func (w *e3World) byzVote(precommit bool, h uint64, r uint32, targets map[string][]int) (map[string][]gcrypto.SparseSignature, string) {
	vs := w.valSet(h)
	out := make(map[string][]gcrypto.SparseSignature, len(targets))
	for hash, signers := range targets {
		vt := tmconsensus.VoteTarget{Height: h, Round: r, BlockHash: hash}
		var content []byte
		var err error
		if precommit {
			content, err = tmconsensus.PrecommitSignBytes(vt, e3SigScheme)
		} else {
			content, err = tmconsensus.PrevoteSignBytes(vt, e3SigScheme)
		}
		if err != nil {
			panic(err)
		}
		proof, err := e3CmspScheme.New(content, vs.PubKeys, string(vs.PubKeyHash))
		if err != nil {
			panic(err)
		}
		for _, b := range signers {
			if !w.byz[b] {
				panic("harness bug: signing with a correct validator's key")
			}
			sig, err := w.pv[b].Signer.Sign(context.Background(), content)
			if err != nil {
				panic(err)
			}
			if err := proof.AddSignature(sig, w.pv[b].Signer.PubKey()); err != nil {
				panic(err)
			}
		}
		out[hash] = proof.AsSparse().Signatures
	}
	return out, string(vs.PubKeyHash)
}

// forgedVote builds a vote message that claims signatures of the given
// validators (any, also correct ones) for target, but every signature is made
// with the key of the Byzantine validator forger (valid bytes, wrong key) or is
// random. A node must not count any of them.
func (w *e3World) forgedVote(rng *rand.Rand, precommit bool, h uint64, r uint32, target string, claimed []int, forger int) (map[string][]gcrypto.SparseSignature, string) {
	vs := w.valSet(h)
	ord := w.order(h)
	vt := tmconsensus.VoteTarget{Height: h, Round: r, BlockHash: target}
	var content []byte
	var err error
	if precommit {
		content, err = tmconsensus.PrecommitSignBytes(vt, e3SigScheme)
	} else {
		content, err = tmconsensus.PrevoteSignBytes(vt, e3SigScheme)
	}
	if err != nil {
		panic(err)
	}
	var sigs []gcrypto.SparseSignature
	for pos, b := range ord {
		keep := false
		for _, c := range claimed {
			if c == b {
				keep = true
			}
		}
		if !keep {
			continue
		}
		var sig []byte
		if rng.IntN(2) == 0 {
			sig, err = w.pv[forger].Signer.Sign(context.Background(), content)
			if err != nil {
				panic(err)
			}
		} else {
			sig = make([]byte, 64)
			for i := range sig {
				sig[i] = byte(rng.Uint32())
			}
		}
		var kid [2]byte
		binary.BigEndian.PutUint16(kid[:], uint16(pos))
		sigs = append(sigs, gcrypto.SparseSignature{KeyID: kid[:], Sig: sig})
	}
	return map[string][]gcrypto.SparseSignature{target: sigs}, string(vs.PubKeyHash)
}

// byzProposal signs a proposed header for (h, r) with the Byzantine validator
// signer. base supplies the chain-dependent fields (predecessor, commit proof,
// validator sets, previous app state hash).
func (w *e3World) byzProposal(base tmconsensus.Header, h uint64, r uint32, signer int, variant byte) tmconsensus.ProposedHeader {
	if !w.byz[signer] {
		panic("harness bug: signing with a correct validator's key")
	}
	hd := e3CloneHeader(base)
	hd.Height = h
	hd.DataID = e3DataID(h, r, signer, variant)
	hd.Hash = nil
	hash, err := e3HashScheme.Block(hd)
	if err != nil {
		panic(err)
	}
	hd.Hash = hash
	ph := tmconsensus.ProposedHeader{Header: hd, Round: r, ProposerPubKey: w.pv[signer].Signer.PubKey()}
	content, err := tmconsensus.ProposalSignBytes(ph.Header, ph.Round, ph.Annotations, e3SigScheme)
	if err != nil {
		panic(err)
	}
	ph.Signature, err = w.pv[signer].Signer.Sign(context.Background(), content)
	if err != nil {
		panic(err)
	}
	return ph
}

func (w *e3World) describe() map[string]any {
	return map[string]any{
		"n": w.n, "powers": fmt.Sprint(w.powers), "total": w.total,
		"byzantine": fmt.Sprint(w.byzList()), "byzantine_power": w.byzPower(),
		"rotate": w.rotate, "rescale_powers_per_height": w.rotate && w.scalePowers,
	}
}
