//go:build verif

package tmstate_test

import (
	"testing"

	"github.com/gordian-engine/gordian/internal/verifkit"
)

// TestVerif_C08: the round state machine follows the Tendermint round rules, forwards only.
// Engine E2; the oracle is the trace specification R1..R8 in zz_verif_e2_oracle_test.go.
func TestVerif_C08(t *testing.T) {
	r := verifkit.Start("C08")
	if r == nil {
		t.Skip("not started by the /verif driver")
	}
	defer r.Finish()
	r.SetRule("Each case builds a real tmstate.StateMachine whose every boundary is the harness (mirror channels, driver, recording signer/stores, virtual round timer, scripted consensus strategy) for 2..7 validators with power profiles whose sums land exactly on the 1/3 and 2/3 thresholds, and applies 15..85 PRNG-chosen events: view updates with monotone growth of proposals/prevotes/precommits over several candidate blocks and nil (real signatures), timer firings, strategy answers (any hash / nil / not-ready / held and released late), finalization responses before and after commit wait, height-committed signals, jump-ahead views, a timer elapse raced with a jump-ahead, bursts in which a timer elapse, the finalization response, the height-committed signal and a view update become ready together while the kernel is busy, views for other rounds, round entrances answered with views already past thresholds or with a committed header (catch-up), block-data arrivals. Ordering decisions come from the case PRNG only; judgements of absence are made at rest (no-op input barrier + sentinel through the consensus manager). Non-trivial = distinct event traces in which the strategy was consulted and at least one of R1/R3/R4/R5 was evaluated.")

	agg := newE2Agg()
	if i := e2ReplayIndex(r); i >= 0 {
		e2Guarded(r, "replay", func() { e2RunTrace(r, "C08", i, agg, "C08:") })
		agg.report(r)
		return
	}
	n := r.N(2400, 60000)
	r.Parallel(n, func(i int) {
		e2Guarded(r, "C08/case", func() { e2RunTrace(r, "C08", i, agg, "C08:") })
	})
	agg.report(r)
}
