//go:build verif

package tmstate_test

import (
	"fmt"
	"sync/atomic"
	"testing"

	"github.com/gordian-engine/gordian/internal/verifkit"
)

type c02Plan struct {
	restartAfter int  // restart after this many generator events (-1: never)
	freezeCall   int  // freeze at this ActionStore.Save* call (0: none) ...
	freezeAfter  bool // ... after persisting (else before)
}

func (p c02Plan) String() string {
	switch {
	case p.freezeCall > 0 && p.freezeAfter:
		return fmt.Sprintf("crash-after-persisting-save-%d", p.freezeCall)
	case p.freezeCall > 0:
		return fmt.Sprintf("crash-before-persisting-save-%d", p.freezeCall)
	case p.restartAfter >= 0:
		return fmt.Sprintf("restart-after-event-%d", p.restartAfter)
	}
	return "no-restart"
}

// c02Run replays the base history of case i (same PRNG stream, so the same
// events as far as the machine behaves the same) up to the planned crash
// point, restarts on the same stores and goes on with fresh events.
func c02Run(r *verifkit.Run, i int, s1, s2 uint64, cfg e2Cfg, nBase, nPost int, plan c02Plan, agg *e2Agg) (events int, saves int) {
	caseID := fmt.Sprintf("C02/case-%d/%s", i, plan)
	r.BeginCase(caseID)
	w := newE2World(r, e2pcg(s1, s2), caseID, cfg)
	if plan.freezeCall > 0 {
		fz := &e2Freeze{call: plan.freezeCall, after: plan.freezeAfter, hit: make(chan struct{})}
		w.aStore.fz = fz
		w.fzHit = fz.hit
	}
	limit := nBase
	if plan.restartAfter >= 0 {
		limit = plan.restartAfter
	}
	ok := w.start()
	for ok && events < limit && !w.frozen {
		if !w.step() {
			break
		}
		events++
	}
	restarted := false
	if plan.restartAfter >= 0 || w.frozen {
		if !w.wdFired {
			restarted = true
			if w.restart() {
				for k := 0; k < nPost && w.step(); k++ {
				}
				w.quiesce()
			}
		}
	} else if !w.alive() && !w.wdFired && plan.restartAfter < 0 && plan.freezeCall == 0 {
		// the base run ended in a fail-stop: a real node would be restarted
		restarted = true
		if w.restart() {
			for k := 0; k < nPost && w.step(); k++ {
			}
			w.quiesce()
		}
	}
	w.finish()
	saves = int(w.aStore.saves.Load())
	t := w.trace()
	fs := t.judgeC02()
	agg.merge(w, t)
	r.Eval(1)
	nSign := 0
	for _, e := range t.evs {
		if e.K == e2kSign {
			nSign++
		}
	}
	if restarted && nSign > 0 {
		r.Nontrivial(e2Digest(t))
		agg.mu.Lock()
		agg.counts["runs.restarted_with_signatures"]++
		agg.mu.Unlock()
	}
	for _, f := range fs {
		r.Violate(f.Key, f.What, caseID, e2Witness(w, t, f, map[string]any{
			"plan": plan.String(), "base_events": nBase, "post_restart_events": nPost, "prng": []uint64{s1, s2},
		}))
	}
	if r.WantSample() && restarted && nSign > 2 && len(t.evs) < 300 {
		je := make([]map[string]any, 0, len(t.evs))
		for _, e := range t.evs {
			je = append(je, e.J())
		}
		r.Sample(map[string]any{"case": caseID, "validators": cfg.nVals, "powers": cfg.powers, "events": je})
	}
	return events, saves
}

// c02Case enumerates the restart points of one short history.
func c02Case(r *verifkit.Run, i int, agg *e2Agg, runs *atomic.Int64) {
	rng := r.CaseRNG(i)
	cfg := e2DrawCfg(rng, "C02")
	cfg.participate = true
	s1, s2 := rng.Uint64(), rng.Uint64()
	nBase := 6 + rng.IntN(14)
	nPost := 5 + rng.IntN(9)

	// base run: how many events the history really has, and how many store writes.
	events, saves := c02Run(r, i, s1, s2, cfg, nBase, nPost, c02Plan{restartAfter: -1}, agg)
	runs.Add(1)
	for k := 0; k <= events; k++ {
		c02Run(r, i, s1, s2, cfg, nBase, nPost, c02Plan{restartAfter: k}, agg)
		runs.Add(1)
	}
	for j := 1; j <= saves; j++ {
		c02Run(r, i, s1, s2, cfg, nBase, nPost, c02Plan{restartAfter: -1, freezeCall: j, freezeAfter: false}, agg)
		c02Run(r, i, s1, s2, cfg, nBase, nPost, c02Plan{restartAfter: -1, freezeCall: j, freezeAfter: true}, agg)
		runs.Add(2)
	}
}

// TestVerif_C02: the local validator never signs two proposals or votes in one round,
// and every signature is in the action store before it is released -- for all event
// orders and across restarts on the same stores after every event index.
func TestVerif_C02(t *testing.T) {
	r := verifkit.Start("C02")
	if r == nil {
		t.Skip("not started by the /verif driver")
	}
	defer r.Finish()
	r.SetRule("Engine E2 (real tmstate.StateMachine, harness plays mirror, driver, strategy; recording signer and recording ActionStore around the tmmemstore one). Each case draws a short history of 6..19 events (views with monotone vote growth, timer firings, strategy answers with any hash / late, jump-aheads, finalizations, own proposals) and then enumerates its restart points: a restart on the same stores after every event index, and for every ActionStore.Save* call of the history the two crash positions around the write (persisted but caller frozen; frozen before persisting). After the restart the harness-mirror answers the round entrance with or without the node's own earlier actions, the strategy script is redrawn (may answer differently), and 5..13 further events follow. Oracle over the whole multi-instance trace: (i) per (kind, height, round) the set of distinct sign contents handed to the signer must have size <= 1 (an identical re-signature is not equivocation and only counted; a second signature whose predecessor was lost between signing and saving is counted as unjudged); (ii) every signature received on an actions channel must be preceded (global sequence number) by a successful ActionStore save of the same bytes; the store wrapper yields on entry to widen an emit-before-save window. Non-trivial = distinct restarted runs containing at least one signature.")

	agg := newE2Agg()
	var runs atomic.Int64
	if i := e2ReplayIndex(r); i >= 0 {
		e2Guarded(r, "replay", func() { c02Case(r, i, agg, &runs) })
		agg.report(r)
		return
	}
	n := r.N(320, 6000)
	r.Parallel(n, func(i int) {
		e2Guarded(r, fmt.Sprintf("C02/case-%d", i), func() { c02Case(r, i, agg, &runs) })
	})
	r.Count("histories", int64(n))
	r.Count("runs", runs.Load())
	agg.report(r)
}
