//go:build verif

package tmstate_test

// E2 state-machine trace engine, part 2: the world around one real
// tmstate.StateMachine. The harness goroutine that calls these methods plays
// the mirror (round entrances, round views), the driver (finalizations) and
// decides every ordering from the case PRNG.
//
// Barriers (DESIGN.md 3.9), no sleep decides anything:
//  (1) round views and block data arrivals go over unbuffered channels that the
//      machine reads only from its main select: when the next one is accepted,
//      the previous handler has returned, and it has handed any strategy request
//      to the consensus manager;
//  (2) a sentinel ConsiderProposedBlocks request pushed through the consensus
//      manager's own sequential request channel: when the scripted strategy sees
//      it, every earlier request has been answered;
//  (3) answers come back through 1-buffered channels and are picked up by the
//      machine's select in random order with other ready cases: e2NoopN accepted
//      no-op inputs (views for a round the machine is not in) leave a miss
//      probability of 2^-e2NoopN.

import (
	"context"
	"fmt"
	"log/slog"
	"math/rand/v2"
	"os"
	"path/filepath"
	"runtime"
	"sort"
	"sync"
	"sync/atomic"
	"time"

	"github.com/gordian-engine/gordian/gassert/gasserttest"
	"github.com/gordian-engine/gordian/gcrypto"
	"github.com/gordian-engine/gordian/gwatchdog"
	"github.com/gordian-engine/gordian/internal/verifhook"
	"github.com/gordian-engine/gordian/internal/verifkit"
	"github.com/gordian-engine/gordian/tm/tmconsensus"
	"github.com/gordian-engine/gordian/tm/tmconsensus/tmconsensustest"
	"github.com/gordian-engine/gordian/tm/tmdriver"
	"github.com/gordian-engine/gordian/tm/tmengine/internal/tmeil"
	"github.com/gordian-engine/gordian/tm/tmengine/internal/tmstate"
	"github.com/gordian-engine/gordian/tm/tmengine/internal/tmstate/internal/tsi"
	"github.com/gordian-engine/gordian/tm/tmengine/tmelink"
	"github.com/gordian-engine/gordian/tm/tmstore/tmmemstore"
)

var e2DumpOnce sync.Once

const (
	e2NoopN       = 64
	e2NoopRound   = uint32(0x7fff0000)
	e2CaseTimeout = 180 * time.Second // watchdog only; cases take milliseconds (60 s fired once on a machine running 8 other test suites)
	e2DeafProbe   = 250 * time.Millisecond
)

type e2HR struct {
	H uint64
	R uint32
}

// e2View is what the oracle knows about one view handed to the machine:
// who voted for what, by validator index (ground truth of the generator).
type e2View struct {
	ID         int
	Kind       string // entrance|update|jump|other-round|noop
	H          uint64
	R          uint32
	Version    uint32
	PHs        []string         // hashes of the proposed headers, in order
	PHRound    map[string]e2HR  // (height, round) named by each proposed header
	Prevotes   map[string][]int // target -> validator indices
	Precommits map[string][]int
	JumpRound  uint32 // != 0: a jump-ahead view for that round was attached
	JumpOnly   bool   // VRV was the zero value
	VS         tmconsensus.VoteSummary
}

func (v *e2View) J() map[string]any {
	pv := map[string][]int{}
	for k, idx := range v.Prevotes {
		pv[e2hexOrNil(k)] = idx
	}
	pc := map[string][]int{}
	for k, idx := range v.Precommits {
		pc[e2hexOrNil(k)] = idx
	}
	phs := make([]string, len(v.PHs))
	for i, h := range v.PHs {
		phs[i] = e2hex(h)
	}
	m := map[string]any{"id": v.ID, "kind": v.Kind, "hr": fmt.Sprintf("%d/%d", v.H, v.R), "version": v.Version, "phs": phs, "prevotes": pv, "precommits": pc}
	if v.JumpRound != 0 {
		m["jump_ahead_round"] = v.JumpRound
		m["jump_only"] = v.JumpOnly
	}
	return m
}

func e2hexOrNil(s string) string {
	if s == "" {
		return "nil"
	}
	return e2hex(s)
}

type e2Block struct {
	ph         tmconsensus.ProposedHeader
	hash       string
	acceptable bool
	badVals    bool // names a validator set other than the one prescribed for its height
}

// e2Round is the mirror-side truth of one (height, round).
type e2Round struct {
	h uint64
	r uint32

	cands      []*e2Block // pool of candidate proposals of other validators
	delivered  []*e2Block // shown to the machine so far, in order
	own        *e2Block   // the machine's own proposal, once emitted
	ownShown   bool
	prevotes   map[int]string
	precommits map[int]string
	version    uint32

	intent string // block|nil|split|soup
	fav    int    // favoured candidate

	ownPrevote, ownPrecommit *string // emitted by the machine
	showOwn                  bool
	pvQuorumOffered          bool
	quorumAccepted           bool // the machine accepted a view of this round showing a block precommit quorum
}

type e2Chain struct {
	header   tmconsensus.Header
	hash     string
	app      string
	round    uint32
	proof    tmconsensus.CommitProof
	hasProof bool
	invented bool // the machine never finalized this height under the harness's eyes
}

type e2Action struct {
	ent  e2HR
	kind string
	hash string
	ph   *tmconsensus.ProposedHeader
}

type e2FinReq struct {
	id   int
	inst int
	req  tmdriver.FinalizeBlockRequest
	at   e2HR
	done bool
}

type e2Inst struct {
	n      int
	ctx    context.Context
	cancel context.CancelFunc
	sm     *tmstate.StateMachine
	cm     *tsi.ConsensusManager
	wd     *gwatchdog.Watchdog

	viewCh chan tmeil.StateMachineRoundView
	entCh  chan tmeil.StateMachineRoundEntrance
	finCh  chan tmdriver.FinalizeBlockRequest
	bdCh   chan tmelink.BlockDataArrival

	dead     chan struct{}
	deadOnce sync.Once
	actionCh chan e2Action
	readers  sync.WaitGroup

	cur             e2HR
	entrances       int
	replay          bool // the last entrance was answered with a committed header
	replayListening bool // ... and the machine was seen to read round views nevertheless
	probePending    bool // whether the machine reads round views is not known yet
	everLive        bool // some entrance of this instance was answered with a round view
	deaf            bool // does not read the round view channel any more
	hc              chan<- struct{}
	stopped         bool
	panicked        atomic.Bool
	errLogged       atomic.Bool
}

type e2Cfg struct {
	prop        string // C08 | C12 | C02
	nVals       int
	powers      []uint64
	participate bool
	careful     bool // quiesce after every event
	holds       bool // scripted strategy may hold calls (late answers)
	blockData   bool
	catchup     bool
	maxHeight   uint64

	// planned: everything about a round (candidates, strategy script) is a pure function of
	// (planSeed, height, round), so that an interrupted and an uninterrupted run are comparable (C10).
	planned  bool
	planSeed uint64
	allCtl   bool // number the writes of all three stores (crash positions for each)

	// rotate: the application returns a different validator set at every finalization (the
	// fixture's keys with every power multiplied by a height-dependent factor, so that all
	// power fractions stay what the generator planned), and some candidate proposals name the
	// set of a neighbouring height. Used by the C07 state-machine sub-run.
	rotate bool
}

type e2World struct {
	run    *verifkit.Run
	rng    *rand.Rand
	caseID string
	cfg    e2Cfg

	log    *e2Log
	fx     *tmconsensustest.Fixture
	vals   []tmconsensus.Validator
	vset   tmconsensus.ValidatorSet
	total  uint64
	gen    tmconsensus.Genesis
	vsetMu sync.Mutex
	vsets  map[uint64]tmconsensus.ValidatorSet // rotate: prescribed set per height
	blocks map[string]*e2Block                 // every candidate ever built, by hash

	aStore  *e2AStore
	fStore  *e2FStore
	smStore *e2SMStore
	signer  *e2Signer
	rt      *e2RoundTimer
	strat   *e2Strategy

	inst      *e2Inst
	instCount int

	views   []*e2View
	rounds  map[e2HR]*e2Round
	chain   map[uint64]*e2Chain
	quorumB map[uint64]string // height -> block shown with a precommit quorum
	finreqs []*e2FinReq
	holds   []*e2Hold

	sentinelN int
	wdCh      chan struct{}
	wdTimer   *time.Timer
	wdFired   bool

	panicKeys []string
	events    int // generator events applied
	counts    map[string]int64
	skipped   bool // last view/blockdata op was withdrawn
	noHold    int  // >0 while a barrier runs: held strategy calls are released at once
	fzHit     <-chan struct{}
	frozen    bool
	ctl       *e2WriteCtl
	scriptFor func(rd *e2Round) *e2Script
}

func (w *e2World) count(name string) { w.counts[name]++ }

func newE2World(run *verifkit.Run, rng *rand.Rand, caseID string, cfg e2Cfg) *e2World {
	w := &e2World{run: run, rng: rng, caseID: caseID, cfg: cfg, log: &e2Log{}, counts: map[string]int64{}}
	w.fx = tmconsensustest.NewEd25519Fixture(cfg.nVals)
	for i := range w.fx.PrivVals {
		w.fx.PrivVals[i].Val.Power = cfg.powers[i]
		w.total += cfg.powers[i]
	}
	w.vals = w.fx.Vals()
	w.vset = w.fx.ValSet()
	w.gen = w.fx.DefaultGenesis()

	if cfg.allCtl {
		w.ctl = &e2WriteCtl{}
	}
	w.aStore = &e2AStore{log: w.log, inner: tmmemstore.NewActionStore(), ctl: w.ctl}
	w.fStore = &e2FStore{log: w.log, inner: tmmemstore.NewFinalizationStore(), ctl: w.ctl}
	w.smStore = &e2SMStore{log: w.log, inner: tmmemstore.NewStateMachineStore(), ctl: w.ctl}
	// The engine stores the genesis pseudo-finalization at initial height - 1 (tmengine.Engine.initChain).
	gh, err := w.gen.Header(w.fx.HashScheme)
	if err != nil {
		panic(err)
	}
	if err := w.fStore.inner.SaveFinalization(context.Background(), w.gen.InitialHeight-1, 0, string(gh.Hash), w.vset, string(w.gen.CurrentAppStateHash)); err != nil {
		panic(err)
	}
	if cfg.participate {
		w.signer = &e2Signer{log: w.log, ss: w.fx.SignatureScheme, inner: tmconsensus.PassthroughSigner{
			Signer: w.fx.PrivVals[0].Signer, SignatureScheme: w.fx.SignatureScheme,
		}}
	}
	w.rt = &e2RoundTimer{log: w.log}
	w.strat = newE2Strategy(w.log)
	w.rounds = map[e2HR]*e2Round{}
	w.chain = map[uint64]*e2Chain{}
	w.quorumB = map[uint64]string{}
	w.wdCh = make(chan struct{})
	w.wdTimer = time.AfterFunc(e2CaseTimeout, func() { close(w.wdCh) })
	return w
}

// ------------------------------------------------------------ instances ----

func (w *e2World) startInstance() {
	w.instCount++
	in := &e2Inst{
		n:        w.instCount,
		viewCh:   make(chan tmeil.StateMachineRoundView),
		entCh:    make(chan tmeil.StateMachineRoundEntrance),
		finCh:    make(chan tmdriver.FinalizeBlockRequest),
		bdCh:     make(chan tmelink.BlockDataArrival),
		dead:     make(chan struct{}),
		actionCh: make(chan e2Action, 256),
	}
	w.inst = in
	w.log.inst.Store(int64(in.n))
	w.log.add(e2Ev{K: e2kStart})

	ctx, cancel := context.WithCancel(context.Background())
	in.cancel = cancel
	ctx = verifhook.WithCatcher(ctx, func(name string, val any, stack []byte) {
		msg := fmt.Sprint(val)
		key := verifkit.PanicKey(msg, string(stack))
		w.log.add(e2Ev{K: e2kPanic, Sub: name, Note: key, Err: msg, Inst: in.n})
		in.panicked.Store(true)
		in.deadOnce.Do(func() { close(in.dead) })
	})
	log := slog.New(&e2LogHandler{w: w, inst: in.n, in: in})
	wd, wctx := gwatchdog.NewNopWatchdog(ctx, log)
	in.wd = wd
	in.ctx = wctx

	cfg := tmstate.StateMachineConfig{
		HashScheme:                        w.fx.HashScheme,
		SignatureScheme:                   w.fx.SignatureScheme,
		CommonMessageSignatureProofScheme: w.fx.CommonMessageSignatureProofScheme,
		Genesis:                           w.gen,
		ActionStore:                       w.aStore,
		FinalizationStore:                 w.fStore,
		StateMachineStore:                 w.smStore,
		RoundTimer:                        w.rt,
		ConsensusStrategy:                 w.strat,
		RoundViewInCh:                     in.viewCh,
		RoundEntranceOutCh:                in.entCh,
		FinalizeBlockRequestCh:            in.finCh,
		Watchdog:                          wd,
		AssertEnv:                         gasserttest.DefaultEnv(),
	}
	if w.cfg.blockData {
		cfg.BlockDataArrivalCh = in.bdCh
	}
	if w.signer != nil {
		cfg.Signer = w.signer
	}
	w.strat.setCurrent(nil)
	sm, err := tmstate.NewStateMachine(wctx, log, cfg)
	if err != nil {
		panic(err)
	}
	in.sm = sm
	in.cm = tmstate.VerifE2ConsMgr(sm)
	kd := tmstate.VerifE2KernelDone(sm)
	go func() {
		select {
		case <-kd:
			if wctx.Err() == nil {
				// kernelDone is closed before verifhook.Catch reports a panic. Give the report a
				// moment to arrive unless the machine logged an error (then it returned on its own).
				// This only decides how the death is labelled in the trace.
				for k := 0; k < 250 && !in.panicked.Load() && !in.errLogged.Load(); k++ {
					time.Sleep(time.Millisecond)
				}
				if !in.panicked.Load() {
					w.log.add(e2Ev{K: e2kExit, Inst: in.n})
				}
			}
		case <-wctx.Done():
			// cancelled by the harness (stopInstance) or by the machine's own watchdog.Terminate
			if c := context.Cause(wctx); c != nil && c != context.Canceled {
				w.log.add(e2Ev{K: e2kExit, Inst: in.n, Err: c.Error()})
			}
		}
		in.deadOnce.Do(func() { close(in.dead) })
	}()
}

// e2LogHandler keeps the machine's warnings and errors in the trace (diagnosis only, never judged).
type e2LogHandler struct {
	w    *e2World
	inst int
	in   *e2Inst
}

func (h *e2LogHandler) Enabled(_ context.Context, l slog.Level) bool { return l >= slog.LevelInfo }
func (h *e2LogHandler) Handle(_ context.Context, rec slog.Record) error {
	if rec.Level < slog.LevelWarn {
		// One informational line is an observation: on shutdown the main loop reports the
		// height, round and step it was waiting in (C12 compares that with the timers).
		if rec.Message == "State machine kernel quitting due to context cancellation in main loop (live events)" {
			ev := e2Ev{K: e2kQuitStep, Inst: h.inst}
			rec.Attrs(func(a slog.Attr) bool {
				switch a.Key {
				case "height":
					ev.H = a.Value.Uint64()
				case "round":
					ev.R = uint32(a.Value.Uint64())
				case "step":
					ev.Sub = a.Value.String()
				}
				return true
			})
			h.w.log.add(ev)
		}
		return nil
	}
	msg := rec.Message
	rec.Attrs(func(a slog.Attr) bool {
		if a.Key == "err" || a.Key == "cause" {
			msg += " " + a.Key + "=" + a.Value.String()
		}
		return true
	})
	if len(msg) > 300 {
		msg = msg[:300]
	}
	h.w.log.add(e2Ev{K: "log", Inst: h.inst, Note: msg})
	if rec.Level >= slog.LevelError && h.in != nil {
		h.in.errLogged.Store(true)
	}
	return nil
}
func (h *e2LogHandler) WithAttrs([]slog.Attr) slog.Handler { return h }
func (h *e2LogHandler) WithGroup(string) slog.Handler      { return h }

// stopInstance cancels the running instance and waits for all of its goroutines.
func (w *e2World) stopInstance() {
	in := w.inst
	if in == nil || in.stopped {
		return
	}
	in.stopped = true
	in.cancel()
	w.releaseHolds("stop")
	in.sm.Wait()
	in.wd.Wait()
	in.readers.Wait()
	// late hold notifications and action infos belong to the dead instance.
	for {
		select {
		case <-w.strat.heldCh:
			continue
		case a := <-in.actionCh:
			w.onAction(a)
			continue
		default:
		}
		break
	}
	w.holds = nil
	w.log.add(e2Ev{K: e2kStop, Inst: in.n})
}

func (w *e2World) finish() {
	w.stopInstance()
	w.wdTimer.Stop()
	for _, e := range w.log.snapshot() {
		if e.K == e2kPanic {
			w.panicKeys = append(w.panicKeys, e.Note)
		}
	}
}

func (w *e2World) alive() bool {
	in := w.inst
	if in == nil || in.stopped || w.wdFired {
		return false
	}
	select {
	case <-in.dead:
		return false
	default:
		return true
	}
}

// ----------------------------------------------------------------- pump ----

type e2Op struct {
	view     *tmeil.StateMachineRoundView
	viewID   int
	bd       *tmelink.BlockDataArrival
	sentinel *tsi.ConsiderProposedBlocksRequest
	wait     <-chan string
	until    func() bool
	avoid    *e2HR // withdraw the view if the machine enters this round while it is on offer
	only     *e2HR // withdraw the view if the machine leaves this round while it is on offer
}

// do performs one blocking operation towards the machine while servicing
// everything the machine may ask of the harness in the meantime. It returns
// false when the instance is dead or the watchdog fired.
func (w *e2World) do(op e2Op) bool {
	in := w.inst
	w.skipped = false
	var probe <-chan time.Time
	for {
		if op.until != nil && op.until() {
			return true
		}
		listening := !in.deaf && (!in.replay || in.replayListening || in.probePending)
		if (op.view != nil || op.bd != nil) && !listening {
			w.skipped = true
			return true
		}
		if op.view != nil && ((op.avoid != nil && in.cur == *op.avoid) || (op.only != nil && in.cur != *op.only)) {
			w.skipped = true
			return true
		}
		var (
			viewSend chan<- tmeil.StateMachineRoundView
			viewVal  tmeil.StateMachineRoundView
			bdSend   chan<- tmelink.BlockDataArrival
			bdVal    tmelink.BlockDataArrival
			consSend chan<- tsi.ConsiderProposedBlocksRequest
			consVal  tsi.ConsiderProposedBlocksRequest

			pER <-chan tsi.EnterRoundRequest
			pCo <-chan tsi.ConsiderProposedBlocksRequest
			pCh <-chan tsi.ChooseProposedBlockRequest
			pDc <-chan tsi.DecidePrecommitRequest
		)
		switch {
		case op.view != nil:
			viewSend, viewVal = in.viewCh, *op.view
			if in.probePending && probe == nil {
				// Around a replayed height the real machine may not read views (any more).
				// Wall clock decides only how the workload goes on, never a verdict.
				probe = time.After(e2DeafProbe)
			}
		case op.bd != nil:
			bdSend, bdVal = in.bdCh, *op.bd
			if in.probePending && probe == nil {
				probe = time.After(e2DeafProbe)
			}
		case op.sentinel != nil:
			consSend, consVal = in.cm.ConsiderProposedBlocksRequests, *op.sentinel
		}
		if len(w.holds) > 0 {
			// The consensus manager goroutine is parked inside a held strategy call,
			// so it is not receiving; the harness stands in to learn that the machine
			// is blocked on it.
			pER, pCo = in.cm.EnterRoundRequests, in.cm.ConsiderProposedBlocksRequests
			pCh, pDc = in.cm.ChooseProposedBlockRequests, in.cm.DecidePrecommitRequests
			if consSend != nil {
				pCo = nil
			}
		}

		select {
		case viewSend <- viewVal:
			if in.probePending {
				in.probePending = false
				if in.replay {
					in.replayListening = true
					w.count("replay.machine_reads_views")
				}
			}
			return true
		case bdSend <- bdVal:
			if in.probePending {
				in.probePending = false
				if in.replay {
					in.replayListening = true
					w.count("replay.machine_reads_views")
				}
			}
			return true
		case consSend <- consVal:
			return true
		case <-op.wait:
			return true

		case re := <-in.entCh:
			w.onEntrance(re)
		case fr := <-in.finCh:
			w.onFinReq(fr)
		case a := <-in.actionCh:
			w.onAction(a)
		case hd := <-w.strat.heldCh:
			if w.noHold > 0 {
				// a barrier is in progress: the call returns at once (a prompt strategy).
				close(hd.release)
			} else {
				w.holds = append(w.holds, hd)
			}

		// A request taken over from the machine is handed on to the consensus manager before
		// anything else is serviced (in particular before a round entrance is answered), so
		// that it is still attributed to the round in which the machine made it.
		case rq := <-pER:
			w.onProxied("enter")
			select {
			case in.cm.EnterRoundRequests <- rq:
			case <-in.dead:
				return false
			case <-w.wdCh:
				return w.watchdog()
			}
		case rq := <-pCo:
			w.onProxied("consider")
			select {
			case in.cm.ConsiderProposedBlocksRequests <- rq:
			case <-in.dead:
				return false
			case <-w.wdCh:
				return w.watchdog()
			}
		case rq := <-pCh:
			w.onProxied("choose")
			select {
			case in.cm.ChooseProposedBlockRequests <- rq:
			case <-in.dead:
				return false
			case <-w.wdCh:
				return w.watchdog()
			}
		case rq := <-pDc:
			w.onProxied("decide")
			select {
			case in.cm.DecidePrecommitRequests <- rq:
			case <-in.dead:
				return false
			case <-w.wdCh:
				return w.watchdog()
			}

		case <-probe:
			in.probePending = false
			probe = nil
			if in.replay {
				w.count("replay.machine_does_not_read_views")
			} else {
				in.deaf = true
				w.log.add(e2Ev{K: e2kDeaf, H: in.cur.H, R: in.cur.R})
				w.count("deaf_after_catchup")
			}
		case <-w.fzHit:
			// the machine is frozen inside an ActionStore write (crash position)
			w.fzHit = nil
			w.frozen = true
			return false
		case <-in.dead:
			return false
		case <-w.wdCh:
			return w.watchdog()
		}
	}
}

// watchdog records that the generous wall-clock watchdog fired (never a verdict).
func (w *e2World) watchdog() bool {
	if !w.wdFired {
		w.wdFired = true
		e2DumpOnce.Do(func() {
			buf := make([]byte, 1<<22)
			buf = buf[:runtime.Stack(buf, true)]
			_ = os.WriteFile(filepath.Join(w.run.OutDir, "e2-watchdog-goroutines."+w.run.Sub+".txt"), buf, 0o644)
		})
		w.run.Inconclusive("%s: watchdog (%s) fired while the harness waited for the state machine; last events: %v", w.caseID, e2CaseTimeout, w.tail(30))
	}
	return false
}

func (w *e2World) tail(n int) []map[string]any {
	evs := w.log.snapshot()
	if len(evs) > n {
		evs = evs[len(evs)-n:]
	}
	out := make([]map[string]any, len(evs))
	for i, e := range evs {
		out[i] = e.J()
	}
	return out
}

func (w *e2World) onProxied(kind string) {
	w.log.add(e2Ev{K: e2kProxy, Sub: kind})
	w.count("hold.ended_by_blocked_request")
	w.releaseHolds("blocked-request")
}

func (w *e2World) releaseHolds(why string) {
	for _, hd := range w.holds {
		close(hd.release)
	}
	w.holds = nil
}

// ageHolds is called once per generator event.
func (w *e2World) ageHolds() {
	keep := w.holds[:0]
	for _, hd := range w.holds {
		hd.span--
		if hd.span <= 0 {
			close(hd.release)
			w.count("hold.ended_by_schedule")
			continue
		}
		keep = append(keep, hd)
	}
	w.holds = keep
}

func (w *e2World) noopView() tmeil.StateMachineRoundView {
	h := w.inst.cur.H
	if h == 0 {
		h = 1
	}
	return tmeil.StateMachineRoundView{VRV: tmconsensus.VersionedRoundView{
		RoundView: tmconsensus.RoundView{Height: h, Round: e2NoopRound},
	}}
}

func (w *e2World) noops(n int) bool {
	v := w.noopView()
	for i := 0; i < n; i++ {
		if !w.do(e2Op{view: &v}) {
			return false
		}
		if w.skipped {
			return true
		}
	}
	return true
}

func (w *e2World) sentinel() bool {
	w.sentinelN++
	tag := fmt.Sprintf("%s%d", e2SentinelPrefix, w.sentinelN)
	rq := tsi.ConsiderProposedBlocksRequest{
		Reason: tmconsensus.ConsiderProposedBlocksReason{UpdatedBlockDataIDs: []string{tag}},
		Result: make(chan tsi.HashSelection, 1),
	}
	if !w.do(e2Op{sentinel: &rq}) {
		return false
	}
	// one sentinel is in flight at a time, so the next acknowledgement is this one's.
	return w.do(e2Op{wait: w.strat.sentinelAck})
}

// quiesce brings the machine to rest: every input delivered so far has been
// handled, every strategy request answered and every answer consumed.
func (w *e2World) quiesce() bool {
	if !w.alive() {
		return false
	}
	w.noHold++
	defer func() { w.noHold-- }()
	w.releaseHolds("quiesce")
	if !w.noops(e2NoopN) {
		return false
	}
	if !w.sentinel() {
		return false
	}
	if !w.noops(e2NoopN) {
		return false
	}
	if !w.alive() {
		return false
	}
	in := w.inst
	note := ""
	if in.replay {
		note = "replay"
	} else if in.deaf {
		note = "deaf"
	}
	w.log.add(e2Ev{K: e2kQuiesce, H: in.cur.H, R: in.cur.R, Note: note})
	return true
}

// -------------------------------------------------------- ground truth ----

func (w *e2World) pow(idx []int) uint64 {
	var p uint64
	for _, i := range idx {
		p += w.cfg.powers[i]
	}
	return p
}

// e2Quorum reports 3*p > 2*total without overflow for the small powers used here.
// powerFactor is the factor by which every validator's power is multiplied in the set
// prescribed for height h. Heights init and init+1 use the genesis set (the engine stores the
// genesis validators as the pseudo-finalization of height init-1); from init+2 on every
// height has its own factor, so no two neighbouring heights share a set.
func (w *e2World) powerFactor(h uint64) uint64 {
	if !w.cfg.rotate || h <= w.gen.InitialHeight+1 {
		return 1
	}
	return h - w.gen.InitialHeight
}

// vsetAt is the validator set the chain prescribes for height h: the genesis set for the first
// two heights, otherwise what the harness's driver returns when finalizing h-2.
func (w *e2World) vsetAt(h uint64) tmconsensus.ValidatorSet {
	k := w.powerFactor(h)
	if k == 1 {
		return w.vset
	}
	w.vsetMu.Lock()
	defer w.vsetMu.Unlock()
	if vs, ok := w.vsets[h]; ok {
		return vs
	}
	vals := make([]tmconsensus.Validator, len(w.vals))
	for i, v := range w.vals {
		vals[i] = tmconsensus.Validator{PubKey: v.PubKey, Power: v.Power * k}
	}
	vs, err := tmconsensus.NewValidatorSet(vals, w.fx.HashScheme)
	if err != nil {
		panic(err)
	}
	if w.vsets == nil {
		w.vsets = map[uint64]tmconsensus.ValidatorSet{}
	}
	w.vsets[h] = vs
	return vs
}

func (w *e2World) valsAt(h uint64) []tmconsensus.Validator { return w.vsetAt(h).Validators }

func (w *e2World) isQuorum(p uint64) bool { return 3*p > 2*w.total }
func (w *e2World) isThird(p uint64) bool  { return 3*p >= w.total }

func (w *e2World) prevHashApp(h uint64) (prevHash []byte, prevApp []byte, proof tmconsensus.CommitProof) {
	if h == w.gen.InitialHeight {
		gh, err := w.gen.Header(w.fx.HashScheme)
		if err != nil {
			panic(err)
		}
		return gh.Hash, w.gen.CurrentAppStateHash, tmconsensus.CommitProof{Proofs: map[string][]gcrypto.SparseSignature{}}
	}
	c := w.chainAt(h - 1)
	if !c.hasProof {
		// > 2/3 of the other validators (plus the machine's own key, which the mirror may well have seen) precommitted it.
		idx := make([]int, 0, w.cfg.nVals)
		for i := w.cfg.nVals - 1; i >= 0; i-- {
			idx = append(idx, i)
			if w.isQuorum(w.pow(idx)) && (w.cfg.planned || w.rng.IntN(2) == 0) {
				break
			}
		}
		sort.Ints(idx)
		vt := tmconsensus.VoteTarget{Height: h - 1, Round: c.round, BlockHash: c.hash}
		p := w.fx.PrecommitSignatureProof(context.Background(), vt, nil, idx)
		c.proof = tmconsensus.CommitProof{
			Round:      c.round,
			PubKeyHash: string(p.PubKeyHash()),
			Proofs:     map[string][]gcrypto.SparseSignature{c.hash: p.AsSparse().Signatures},
		}
		c.hasProof = true
	}
	return []byte(c.hash), []byte(c.app), c.proof.Clone()
}

// chainAt returns the block the world treats as committed at height h,
// inventing one if the machine moved on without a recorded finalization.
func (w *e2World) chainAt(h uint64) *e2Chain {
	if c, ok := w.chain[h]; ok {
		return c
	}
	b := w.newBlock(h, 0, 1, fmt.Sprintf("invented_%d", h), true)
	c := &e2Chain{header: b.ph.Header, hash: b.hash, app: w.appHash(h, b.hash), round: 0, invented: true}
	w.chain[h] = c
	w.count("chain.invented")
	return c
}

func (w *e2World) appHash(h uint64, hash string) string {
	return fmt.Sprintf("app_%d_%x", h, hash[:4])
}

func (w *e2World) newBlock(h uint64, r uint32, proposer int, data string, acceptable bool) *e2Block {
	prevHash, prevApp, proof := w.prevHashApp(h)
	hd := tmconsensus.Header{
		Height:           h,
		PrevBlockHash:    prevHash,
		PrevCommitProof:  proof,
		ValidatorSet:     w.vsetAt(h),
		NextValidatorSet: w.vsetAt(h + 1),
		DataID:           []byte(data),
		PrevAppStateHash: prevApp,
	}
	badVals := false
	if !acceptable {
		if w.cfg.rotate && w.rng.IntN(3) != 0 {
			// a proposal that names the validator set of a neighbouring height in one or both places
			alt := [][2]uint64{{h + 1, h + 1}, {h, h}, {h, h + 2}, {h + 1, h + 2}, {h + 1, h}}
			if h > w.gen.InitialHeight {
				alt = append(alt, [2]uint64{h - 1, h + 1}, [2]uint64{h - 1, h})
			}
			a := alt[w.rng.IntN(len(alt))]
			hd.ValidatorSet, hd.NextValidatorSet = w.vsetAt(a[0]), w.vsetAt(a[1])
			badVals = !hd.ValidatorSet.Equal(w.vsetAt(h)) || !hd.NextValidatorSet.Equal(w.vsetAt(h+1))
		}
		if !badVals {
			hd.PrevAppStateHash = []byte("wrong_app_state")
		}
	}
	w.fx.RecalculateHash(&hd)
	ph := tmconsensus.ProposedHeader{Header: hd, Round: r}
	w.fx.SignProposal(context.Background(), &ph, proposer)
	b := &e2Block{ph: ph, hash: string(hd.Hash), acceptable: acceptable, badVals: badVals}
	if w.blocks == nil {
		w.blocks = map[string]*e2Block{}
	}
	w.blocks[b.hash] = b
	return b
}

func (w *e2World) round(h uint64, r uint32) *e2Round { return w.roundX(h, r, true) }

// roundX with keep=false builds a throw-away round (content for views about rounds the
// machine is not in; what the mirror later shows for that round is independent of it).
func (w *e2World) roundX(h uint64, r uint32, keep bool) *e2Round {
	k := e2HR{h, r}
	if rd, ok := w.rounds[k]; ok && keep {
		return rd
	}
	rd := &e2Round{h: h, r: r, prevotes: map[int]string{}, precommits: map[int]string{}}
	if w.cfg.planned {
		// everything drawn below is a function of (planSeed, h, r) only
		save := w.rng
		w.rng = e2pcg(w.cfg.planSeed, h<<32|uint64(r))
		defer func() { w.rng = save }()
	}
	n := 1 + w.rng.IntN(3)
	for i := 0; i < n; i++ {
		proposer := 0
		if w.cfg.nVals > 1 {
			proposer = 1 + w.rng.IntN(w.cfg.nVals-1)
		}
		acceptable := w.rng.IntN(12) != 0 || w.cfg.planned
		if w.cfg.rotate && w.rng.IntN(4) == 0 {
			acceptable = false
		}
		rd.cands = append(rd.cands, w.newBlock(h, r, proposer, fmt.Sprintf("data_%d_%d_%d", h, r, i), acceptable))
	}
	if old, ok := w.quorumB[h]; ok && !w.cfg.planned && w.rng.IntN(2) == 0 {
		// a block of an earlier round of this height may be proposed again: one copy of it
		// (every earlier round may hold a copy already; copying them all doubles the candidate
		// pool with every round, which made a 40-round height take minutes)
		var again *e2Block
		for _, k := range w.sortedRounds() {
			ord := w.rounds[k]
			if ord.h != h || again != nil {
				continue
			}
			for _, b := range ord.cands {
				if b.hash == old {
					again = b
					break
				}
			}
		}
		if again != nil {
			nb := *again
			nb.ph.Round = r
			w.fx.SignProposal(context.Background(), &nb.ph, 1%w.cfg.nVals)
			rd.cands = append(rd.cands, &nb)
		}
	}
	switch x := w.rng.IntN(100); {
	case x < 50:
		rd.intent = "block"
	case x < 65:
		rd.intent = "nil"
	case x < 82:
		rd.intent = "split"
	default:
		rd.intent = "soup"
	}
	rd.fav = w.rng.IntN(len(rd.cands))
	rd.showOwn = w.rng.IntN(5) != 0 && !w.cfg.planned
	if keep {
		w.rounds[k] = rd
	}
	return rd
}

func e2group(m map[int]string) map[string][]int {
	out := map[string][]int{}
	for i, t := range m {
		out[t] = append(out[t], i)
	}
	for _, idx := range out {
		sort.Ints(idx)
	}
	return out
}

// buildVRV renders the current truth of rd as the next version of its view.
func (w *e2World) buildVRV(rd *e2Round, kind string) (tmconsensus.VersionedRoundView, *e2View) {
	ctx := context.Background()
	rd.version++
	_, _, proof := w.prevHashApp(rd.h)
	vs := tmconsensus.NewVoteSummary()
	vs.SetAvailablePower(w.valsAt(rd.h))
	vrv := tmconsensus.VersionedRoundView{
		RoundView: tmconsensus.RoundView{
			Height: rd.h, Round: rd.r,
			ValidatorSet:    w.vsetAt(rd.h),
			PrevCommitProof: proof,
			VoteSummary:     vs,
		},
		Version: rd.version,
	}
	ov := &e2View{ID: len(w.views) + 1, Kind: kind, H: rd.h, R: rd.r, Version: rd.version, PHRound: map[string]e2HR{}}
	for _, b := range rd.delivered {
		vrv.ProposedHeaders = append(vrv.ProposedHeaders, b.ph)
		ov.PHs = append(ov.PHs, b.hash)
		ov.PHRound[b.hash] = e2HR{b.ph.Header.Height, b.ph.Round}
	}
	pv := e2group(rd.prevotes)
	pc := e2group(rd.precommits)
	ov.Prevotes, ov.Precommits = pv, pc
	if len(pv) > 0 {
		vrv.PrevoteProofs = w.fx.PrevoteProofMap(ctx, rd.h, rd.r, pv)
		vrv.PrevoteVersion = rd.version
	}
	if len(pc) > 0 {
		vrv.PrecommitProofs = w.fx.PrecommitProofMap(ctx, rd.h, rd.r, pc)
		vrv.PrecommitVersion = rd.version
	}
	vrv.VoteSummary.SetPrevotePowers(w.valsAt(rd.h), vrv.PrevoteProofs)
	vrv.VoteSummary.SetPrecommitPowers(w.valsAt(rd.h), vrv.PrecommitProofs)
	ov.VS = vrv.VoteSummary.Clone()
	w.views = append(w.views, ov)
	for t, idx := range pc {
		if t != "" && w.isQuorum(w.pow(idx)) {
			if _, ok := w.quorumB[rd.h]; !ok {
				w.quorumB[rd.h] = t
			}
		}
	}
	return vrv, ov
}

// ------------------------------------------------- machine -> harness ----

func (w *e2World) onEntrance(re tmeil.StateMachineRoundEntrance) {
	in := w.inst
	in.entrances++
	in.cur = e2HR{re.H, re.R}
	in.hc = re.HeightCommitted
	note := ""
	if re.Actions == nil {
		note = "no-actions-channel"
	}
	w.log.add(e2Ev{K: e2kEntrance, H: re.H, R: re.R, Note: note})
	w.count("entrances")

	if re.Actions != nil {
		ent := in.cur
		ch := re.Actions
		in.readers.Add(1)
		go w.reader(in, ent, ch)
	}

	// Barrier: the machine is blocked until it gets the response, so it is not
	// talking to the consensus manager; every strategy call of the round it
	// leaves is drained before the script of the new round is installed.
	if in.entrances > 1 {
		w.noHold++
		w.releaseHolds("entrance")
		ok := w.sentinel()
		w.noHold--
		if !ok {
			return
		}
	}

	wasReplay := in.replay
	in.replayListening = false
	rd := w.round(re.H, re.R)

	// catch-up: answer with a committed header.
	_, shown := w.quorumB[re.H]
	if w.cfg.catchup && !shown && w.chain[re.H] == nil && len(rd.prevotes)+len(rd.precommits) == 0 &&
		w.rng.IntN(100) < w.catchupPct(wasReplay) {
		b := rd.cands[rd.fav]
		if !b.acceptable {
			b = w.newBlock(re.H, re.R, 1%w.cfg.nVals, fmt.Sprintf("catchup_%d", re.H), true)
		}
		cr := re.R
		if w.rng.IntN(10) == 0 {
			cr = re.R + 1 // committed in another round than the one entered (driver echoes it)
		}
		c := &e2Chain{header: b.ph.Header, hash: b.hash, app: w.appHash(re.H, b.hash), round: cr}
		w.chain[re.H] = c
		w.prevHashApp(re.H + 1) // builds c.proof
		in.replay = true
		in.probePending = in.everLive
		w.strat.setCurrent(nil)
		w.log.add(e2Ev{K: e2kEntranceResp, Sub: "ch", H: re.H, R: re.R, Hash: b.hash, ID: int(cr)})
		w.count("entrance.catchup")
		re.Response <- tmeil.RoundEntranceResponse{CH: tmconsensus.CommittedHeader{Header: b.ph.Header, Proof: c.proof.Clone()}}
		return
	}

	in.replay = false
	in.everLive = true
	if wasReplay {
		in.probePending = true
	}
	var sc *e2Script
	if w.scriptFor != nil {
		sc = w.scriptFor(rd)
	} else {
		w.seedRound(rd)
		sc = w.drawScript(rd)
	}
	w.strat.setCurrent(sc)
	vrv, ov := w.buildVRV(rd, "entrance")
	if f := w.factsOf(ov.Prevotes, ov.Precommits); f.pcBlockQuorum {
		rd.quorumAccepted = true
	}
	w.log.add(e2Ev{K: e2kEntranceResp, Sub: "vrv", H: re.H, R: re.R, View: ov.ID})
	re.Response <- tmeil.RoundEntranceResponse{VRV: vrv}
}

func (w *e2World) catchupPct(wasReplay bool) int {
	if wasReplay {
		return 50
	}
	return 6
}

// seedRound optionally puts content into a round before the machine sees it
// for the first time (a lagging state machine).
func (w *e2World) seedRound(rd *e2Round) {
	if rd.version > 0 {
		return // re-entered after a restart: the mirror keeps what it has
	}
	x := w.rng.IntN(100)
	if w.rng.IntN(2) == 0 {
		x = 0
	}
	switch {
	case x < 62:
	case x < 72:
		w.mutPH(rd)
	case x < 80:
		w.mutPH(rd)
		w.mutVotes(rd, false, 1+w.rng.IntN(w.cfg.nVals))
	case x < 88:
		w.mutPH(rd)
		w.mutVotes(rd, false, w.cfg.nVals)
		w.mutVotes(rd, true, w.rng.IntN(w.cfg.nVals))
	case x < 96:
		w.mutVotes(rd, false, w.rng.IntN(w.cfg.nVals))
		w.mutVotes(rd, true, 1+w.rng.IntN(w.cfg.nVals))
	default:
		w.mutPH(rd)
		w.mutVotes(rd, false, w.cfg.nVals)
		w.mutVotes(rd, true, w.cfg.nVals)
	}
}

func (w *e2World) drawScript(rd *e2Round) *e2Script {
	sc := &e2Script{inst: w.inst.n, h: rd.h, r: rd.r}
	switch x := w.rng.IntN(10); {
	case x < 5:
		sc.considerAnswerAt = 1
	case x < 7:
		sc.considerAnswerAt = 2
	}
	switch x := w.rng.IntN(20); {
	case x < 13:
		sc.prevoteRule = e2Rule{mode: e2RulePH, idx: w.rng.IntN(4)}
	case x < 17:
		sc.prevoteRule = e2Rule{mode: e2RuleNil}
	default:
		sc.prevoteRule = e2Rule{mode: e2RuleFixed, fixed: w.someHash(rd)}
	}
	switch x := w.rng.IntN(20); {
	case x < 11:
		sc.precommitRule = e2Rule{mode: e2RuleMostVoted}
	case x < 14:
		sc.precommitRule = e2Rule{mode: e2RulePH, idx: w.rng.IntN(4)}
	case x < 18:
		sc.precommitRule = e2Rule{mode: e2RuleNil}
	default:
		sc.precommitRule = e2Rule{mode: e2RuleFixed, fixed: w.someHash(rd)}
	}
	if w.cfg.holds && w.rng.IntN(2) == 0 {
		sc.holdKind = []string{"consider", "choose", "decide", "decide"}[w.rng.IntN(4)]
		sc.holdSpan = 1 + w.rng.IntN(4)
	}
	if w.rng.IntN(3) == 0 {
		sc.dupPrevote = true
		sc.dupRule = e2Rule{mode: e2RulePH, idx: 1 + w.rng.IntN(3)}
		if w.rng.IntN(3) == 0 {
			sc.dupRule = e2Rule{mode: e2RuleNil}
		}
	}
	sc.propose2 = w.rng.IntN(2) == 0
	if w.cfg.participate && w.rng.IntN(3) == 0 {
		sc.propose = true
		sc.proposeAt = w.rng.IntN(3)
		sc.dataID = fmt.Sprintf("own_%d_%d_i%d", rd.h, rd.r, w.inst.n)
	}
	return sc
}

// someHash: an arbitrary 32-byte value, or a block hash of an older round.
func (w *e2World) someHash(rd *e2Round) string {
	if w.rng.IntN(2) == 0 {
		var olds []string
		for k, ord := range w.rounds {
			if k.H == rd.h && k.R < rd.r {
				for _, b := range ord.cands {
					olds = append(olds, b.hash)
				}
			}
		}
		if len(olds) > 0 {
			sort.Strings(olds)
			return olds[w.rng.IntN(len(olds))]
		}
	}
	b := make([]byte, 32)
	for i := range b {
		b[i] = byte(w.rng.UintN(256))
	}
	return string(b)
}

func (w *e2World) reader(in *e2Inst, ent e2HR, ch <-chan tmeil.StateMachineRoundAction) {
	defer in.readers.Done()
	rec := func(a tmeil.StateMachineRoundAction) {
		var ai e2Action
		ai.ent = ent
		switch {
		case a.PH.Header.Height != 0 || len(a.PH.Signature) > 0:
			ph := a.PH
			ai.kind, ai.hash, ai.ph = "proposal", string(ph.Header.Hash), &ph
			w.aStore.seen.Store(string(ph.Signature), true)
			note := fmt.Sprintf("ph=%d/%d", ph.Header.Height, ph.Round)
			if w.cfg.rotate {
				// C07: the sets the machine's own proposal names, against the prescribed ones
				if !ph.Header.ValidatorSet.Equal(w.vsetAt(ph.Header.Height)) {
					note += " valset=other"
				}
				if !ph.Header.NextValidatorSet.Equal(w.vsetAt(ph.Header.Height + 1)) {
					note += " nextvalset=other"
				}
			}
			w.log.add(e2Ev{K: e2kAction, Inst: in.n, Sub: "proposal", H: ent.H, R: ent.R, Hash: string(ph.Header.Hash), Sig: string(ph.Signature),
				Note: note})
		case len(a.Prevote.Sig) > 0:
			ai.kind, ai.hash = "prevote", a.Prevote.TargetHash
			w.aStore.seen.Store(string(a.Prevote.Sig), true)
			w.log.add(e2Ev{K: e2kAction, Inst: in.n, Sub: "prevote", H: ent.H, R: ent.R, Hash: a.Prevote.TargetHash, Sig: string(a.Prevote.Sig), Content: string(a.Prevote.SignContent)})
		case len(a.Precommit.Sig) > 0:
			ai.kind, ai.hash = "precommit", a.Precommit.TargetHash
			w.aStore.seen.Store(string(a.Precommit.Sig), true)
			w.log.add(e2Ev{K: e2kAction, Inst: in.n, Sub: "precommit", H: ent.H, R: ent.R, Hash: a.Precommit.TargetHash, Sig: string(a.Precommit.Sig), Content: string(a.Precommit.SignContent)})
		default:
			ai.kind = "empty"
			w.log.add(e2Ev{K: e2kAction, Inst: in.n, Sub: "empty", H: ent.H, R: ent.R})
		}
		select {
		case in.actionCh <- ai:
		default:
		}
	}
	for {
		select {
		case a := <-ch:
			rec(a)
		case <-in.ctx.Done():
			for {
				select {
				case a := <-ch:
					rec(a)
					continue
				default:
				}
				return
			}
		}
	}
}

func (w *e2World) onAction(a e2Action) {
	rd, ok := w.rounds[a.ent]
	if !ok {
		return
	}
	w.count("action." + a.kind)
	if a.ent == w.inst.cur {
		w.strat.mu.Lock()
		if sc := w.strat.cur; sc != nil && sc.inst == w.inst.n {
			switch a.kind {
			case "prevote":
				sc.pvEffectSeen = true
			case "proposal":
				sc.proposalEffectSeen = true
			}
		}
		w.strat.mu.Unlock()
	}
	switch a.kind {
	case "proposal":
		if rd.own == nil && a.ph != nil {
			rd.own = &e2Block{ph: *a.ph, hash: a.hash, acceptable: true}
		}
	case "prevote":
		if rd.ownPrevote == nil {
			h := a.hash
			rd.ownPrevote = &h
		}
	case "precommit":
		if rd.ownPrecommit == nil {
			h := a.hash
			rd.ownPrecommit = &h
		}
	}
}

func (w *e2World) onFinReq(fr tmdriver.FinalizeBlockRequest) {
	in := w.inst
	q := &e2FinReq{id: len(w.finreqs) + 1, inst: in.n, req: fr, at: in.cur}
	w.finreqs = append(w.finreqs, q)
	w.log.add(e2Ev{K: e2kFinReq, H: in.cur.H, R: in.cur.R, Hash: string(fr.Header.Hash), ID: q.id,
		Note: fmt.Sprintf("header-height=%d req-round=%d", fr.Header.Height, fr.Round)})
	w.count("finreq")
}

// ------------------------------------------------------------ mutations ----

// syncOwn copies what the machine emitted into the mirror's truth.
func (w *e2World) syncOwn(rd *e2Round) {
	if !rd.showOwn {
		return
	}
	if rd.own != nil && !rd.ownShown {
		rd.ownShown = true
		rd.delivered = append(rd.delivered, rd.own)
	}
	if rd.ownPrevote != nil {
		if _, ok := rd.prevotes[0]; !ok {
			rd.prevotes[0] = *rd.ownPrevote
		}
	}
	if rd.ownPrecommit != nil {
		if _, ok := rd.precommits[0]; !ok {
			rd.precommits[0] = *rd.ownPrecommit
		}
	}
}

func (w *e2World) mutPH(rd *e2Round) bool {
	var rest []*e2Block
	for _, b := range rd.cands {
		found := false
		for _, d := range rd.delivered {
			if d == b {
				found = true
			}
		}
		if !found {
			rest = append(rest, b)
		}
	}
	if len(rest) == 0 {
		return false
	}
	b := rest[w.rng.IntN(len(rest))]
	if w.rng.IntN(3) != 0 {
		for _, c := range rest {
			if c == rd.cands[rd.fav] {
				b = c
			}
		}
	}
	rd.delivered = append(rd.delivered, b)
	return true
}

func (w *e2World) target(rd *e2Round) string {
	fav := rd.cands[rd.fav].hash
	other := func() string {
		if w.rng.IntN(8) == 0 {
			return w.someHash(rd)
		}
		return rd.cands[w.rng.IntN(len(rd.cands))].hash
	}
	x := w.rng.IntN(100)
	switch rd.intent {
	case "block":
		switch {
		case x < 84:
			return fav
		case x < 92:
			return ""
		}
		return other()
	case "nil":
		switch {
		case x < 84:
			return ""
		case x < 94:
			return fav
		}
		return other()
	case "split":
		switch {
		case x < 40:
			return fav
		case x < 75:
			return ""
		}
		return other()
	}
	switch {
	case x < 30:
		return ""
	case x < 55:
		return fav
	}
	return other()
}

// mutVotes lets up to k validators other than the machine's own cast a vote.
func (w *e2World) mutVotes(rd *e2Round, precommit bool, k int) bool {
	m := rd.prevotes
	if precommit {
		m = rd.precommits
	}
	var free []int
	for i := 1; i < w.cfg.nVals; i++ {
		if _, ok := m[i]; !ok {
			free = append(free, i)
		}
	}
	if len(free) == 0 || k <= 0 {
		return false
	}
	w.rng.Shuffle(len(free), func(i, j int) { free[i], free[j] = free[j], free[i] })
	if k > len(free) {
		k = len(free)
	}
	// validators that act together tend to agree
	t := w.target(rd)
	for _, i := range free[:k] {
		if w.rng.IntN(4) == 0 {
			t = w.target(rd)
		}
		m[i] = t
	}
	return true
}

// roundFacts are oracle-side facts about what a round's truth shows.
type e2Facts struct {
	pvTotal, pcTotal     uint64
	pvQuorumTarget       *string
	pcQuorumTarget       *string
	pvTotalQ, pcTotalQ   bool
	pcAll, pcThird       bool
	pcBlockQuorum, pcNil bool
}

func (w *e2World) factsOf(pv, pc map[string][]int) e2Facts {
	var f e2Facts
	for t, idx := range pv {
		p := w.pow(idx)
		f.pvTotal += p
		if w.isQuorum(p) {
			tt := t
			f.pvQuorumTarget = &tt
		}
	}
	for t, idx := range pc {
		p := w.pow(idx)
		f.pcTotal += p
		if w.isQuorum(p) {
			tt := t
			f.pcQuorumTarget = &tt
			if t == "" {
				f.pcNil = true
			} else {
				f.pcBlockQuorum = true
			}
		}
	}
	f.pvTotalQ = w.isQuorum(f.pvTotal)
	f.pcTotalQ = w.isQuorum(f.pcTotal)
	f.pcAll = f.pcTotal == w.total
	f.pcThird = f.pcTotal > 0 && w.isThird(f.pcTotal)
	return f
}

// --------------------------------------------------- harness -> machine ----

// gateChoose is called before an input that, by the property text, makes the
// machine ask ChooseProposedBlock (proposal timeout, prevote quorum seen first).
// If ConsiderProposedBlocks already answered with a hash in this round, the
// harness first lets that answer be consumed: two answers racing into the same
// 1-slot result channel can wedge the consensus manager, which is C09's
// business and would only make this workload stall.
func (w *e2World) gateChoose() bool {
	s := w.strat
	s.mu.Lock()
	sc := s.cur
	st := e2PvNone
	if sc != nil {
		st = sc.pvState
		if st == e2PvNone {
			sc.pvState = e2PvChooseExpected
		}
	}
	s.mu.Unlock()
	if st == e2PvConsiderAnswered {
		return w.quiesce()
	}
	return true
}

func (w *e2World) deliver(v tmeil.StateMachineRoundView, ov *e2View) bool {
	if (ov.Kind == "update" || ov.Kind == "jump") && !ov.JumpOnly {
		if rd, ok := w.rounds[e2HR{ov.H, ov.R}]; ok && !rd.pvQuorumOffered {
			if f := w.factsOf(ov.Prevotes, ov.Precommits); f.pvQuorumTarget != nil {
				rd.pvQuorumOffered = true
				if !w.gateChoose() {
					return false
				}
			}
		}
	}
	w.log.add(e2Ev{K: e2kViewOffer, H: ov.H, R: ov.R, View: ov.ID, Sub: ov.Kind})
	op := e2Op{view: &v, viewID: ov.ID}
	switch ov.Kind {
	case "other-round":
		// it must stay a view for a round the machine is not in
		op.avoid = &e2HR{ov.H, ov.R}
	case "jump":
		cur := w.inst.cur
		op.only = &cur
	}
	if !w.do(op) {
		return false
	}
	if w.skipped {
		w.log.add(e2Ev{K: e2kViewSkip, H: ov.H, R: ov.R, View: ov.ID})
		return true
	}
	w.log.add(e2Ev{K: e2kViewAccept, H: ov.H, R: ov.R, View: ov.ID, Sub: ov.Kind})
	if ov.Kind == "update" || ov.Kind == "jump" {
		if f := w.factsOf(ov.Prevotes, ov.Precommits); f.pcBlockQuorum {
			if rd, ok := w.rounds[e2HR{ov.H, ov.R}]; ok {
				rd.quorumAccepted = true
			}
		}
	}
	w.count("view." + ov.Kind)
	return true
}

// evView applies 1..3 mutations to the current round and delivers the new view.
func (w *e2World) evView(rd *e2Round) bool {
	changed := false
	w.syncOwn(rd)
	n := 1 + w.rng.IntN(3)
	for i := 0; i < n; i++ {
		switch x := w.rng.IntN(10); {
		case x < 3:
			changed = w.mutPH(rd) || changed
		case x < 7:
			changed = w.mutVotes(rd, false, 1+w.rng.IntN(w.cfg.nVals)) || changed
		default:
			changed = w.mutVotes(rd, true, 1+w.rng.IntN(w.cfg.nVals)) || changed
		}
	}
	_ = changed
	vrv, ov := w.buildVRV(rd, "update")
	return w.deliver(tmeil.StateMachineRoundView{VRV: vrv}, ov)
}

func (w *e2World) evJump(rd *e2Round) bool {
	k := uint32(1 + w.rng.IntN(3))
	jr := w.round(rd.h, rd.r+k)
	if jr.version == 0 {
		w.mutVotes(jr, w.rng.IntN(2) == 0, 1+w.rng.IntN(w.cfg.nVals))
	}
	jv, _ := w.buildVRV(jr, "jump-target")
	var sv tmeil.StateMachineRoundView
	sv.JumpAheadRoundView = &jv
	var ov *e2View
	if w.rng.IntN(3) == 0 {
		w.syncOwn(rd)
		w.mutVotes(rd, w.rng.IntN(2) == 0, 1)
		var vrv tmconsensus.VersionedRoundView
		vrv, ov = w.buildVRV(rd, "jump")
		sv.VRV = vrv
	} else {
		ov = &e2View{ID: len(w.views) + 1, Kind: "jump", H: rd.h, R: rd.r, JumpOnly: true, PHRound: map[string]e2HR{}}
		w.views = append(w.views, ov)
	}
	ov.JumpRound = jr.r
	return w.deliver(sv, ov)
}

// evRace makes a step timer elapse and a jump-ahead view arrive while the kernel is busy
// with something else, so that both are ready when it returns to its select and Go picks
// one at random: the jump-ahead message is built first, a no-op view is handed over (the
// send completes when the kernel has taken it and starts handling it), and in that window
// the timer is fired and the jump-ahead view is offered. Whichever the kernel takes first,
// the other must be dealt with as if it had come later.
func (w *e2World) evRace(rd *e2Round) bool {
	ts := w.rt.outstanding(w.inst.n)
	if len(ts) == 0 || len(w.holds) > 0 {
		return true
	}
	tm := ts[w.rng.IntN(len(ts))]
	if tm.kind == "proposal" {
		if !w.gateChoose() {
			return false
		}
	}
	k := uint32(1 + w.rng.IntN(2))
	jr := w.round(rd.h, rd.r+k)
	if jr.version == 0 {
		w.mutVotes(jr, w.rng.IntN(2) == 0, 1+w.rng.IntN(w.cfg.nVals))
	}
	jv, _ := w.buildVRV(jr, "jump-target")
	var sv tmeil.StateMachineRoundView
	sv.JumpAheadRoundView = &jv
	ov := &e2View{ID: len(w.views) + 1, Kind: "jump", H: rd.h, R: rd.r, JumpOnly: true, PHRound: map[string]e2HR{}}
	w.views = append(w.views, ov)
	ov.JumpRound = jr.r
	if !w.noops(1) {
		return false
	}
	if cur := w.inst.cur; cur.H != rd.h || cur.R != rd.r || tm.h != rd.h || tm.r != rd.r {
		// the machine had moved on before the harness knew (an entrance was waiting to be
		// serviced): the prepared message is for a round it has left; drop the attempt
		w.count("race.abandoned-machine-had-moved-on")
		return true
	}
	if !w.rt.fire(tm.id) {
		w.count("race.abandoned-timer-no-longer-outstanding")
		return true
	}
	w.count("race.timer-fired-while-kernel-busy." + tm.kind)
	return w.deliver(sv, ov)
}

// evBurst generalises evRace to the other inputs of the state machine's select: while the
// kernel is busy with a no-op view, two or three of {a step timer elapses, the driver's
// finalization response arrives, the height-committed signal closes, a view update that may
// cross a threshold is offered} are made ready together, so that Go's select picks their
// order. Whatever the order, every rule of C08/C12 must hold and nothing may panic.
func (w *e2World) evBurst(rd *e2Round) bool {
	if len(w.holds) > 0 {
		return true
	}
	in := w.inst
	var tm *e2Timer
	if ts := w.rt.outstanding(in.n); len(ts) > 0 && w.rng.IntN(4) != 0 {
		tm = ts[w.rng.IntN(len(ts))]
		if tm.kind == "proposal" {
			if !w.gateChoose() {
				return false
			}
		}
	}
	var view *tmconsensus.VersionedRoundView
	var ov *e2View
	if w.rng.IntN(3) != 0 {
		w.syncOwn(rd)
		for i, n := 0, 1+w.rng.IntN(3); i < n; i++ {
			switch x := w.rng.IntN(10); {
			case x < 2:
				w.mutPH(rd)
			case x < 6:
				w.mutVotes(rd, false, 1+w.rng.IntN(w.cfg.nVals))
			default:
				w.mutVotes(rd, true, 1+w.rng.IntN(w.cfg.nVals))
			}
		}
		v, o := w.buildVRV(rd, "update")
		view, ov = &v, o
	}
	if !w.noops(1) {
		return false
	}
	if cur := in.cur; w.inst != in || cur.H != rd.h || cur.R != rd.r {
		// the prepared view was never offered; the round's version counter moved on, which a
		// later view of that round only makes look newer
		w.count("burst.abandoned-machine-had-moved-on")
		return true
	}
	acts := []string{}
	if tm != nil && tm.h == rd.h && tm.r == rd.r {
		acts = append(acts, "timer")
	}
	for _, q := range w.finreqs {
		if !q.done && q.inst == in.n {
			acts = append(acts, "finresp")
			break
		}
	}
	if in.hc != nil && (rd.quorumAccepted || w.rng.IntN(8) == 0) {
		acts = append(acts, "hcommitted")
	}
	w.rng.Shuffle(len(acts), func(i, j int) { acts[i], acts[j] = acts[j], acts[i] })
	n := 0
	for _, a := range acts {
		if n >= 2 && w.rng.IntN(2) == 0 {
			break
		}
		switch a {
		case "timer":
			if w.rt.fire(tm.id) {
				w.count("burst.timer." + tm.kind)
				n++
			}
		case "finresp":
			if !w.evFinResp() {
				return false
			}
			w.count("burst.finresp")
			n++
		case "hcommitted":
			w.evHeightCommitted(rd)
			w.count("burst.hcommitted")
			n++
		}
	}
	if view != nil {
		w.count(fmt.Sprintf("burst.view-with-%d-other-inputs", n))
		return w.deliver(tmeil.StateMachineRoundView{VRV: *view}, ov)
	}
	w.count(fmt.Sprintf("burst.%d-inputs", n))
	return true
}

// evOtherRound delivers a view for a round the machine is not in, with content
// that would matter if it were taken for the current round.
func (w *e2World) evOtherRound(rd *e2Round) bool {
	var h uint64
	var r uint32
	switch x := w.rng.IntN(6); {
	case x < 3:
		h, r = rd.h, rd.r+1+uint32(w.rng.IntN(2))
	case x < 4 && rd.r > 0:
		h, r = rd.h, rd.r-1
	case x < 5:
		h, r = rd.h+1, 0
	default:
		h, r = rd.h, rd.r+1
	}
	if h == rd.h+1 {
		// the world cannot build the next height before this one is decided; use a synthetic empty view
		ov := &e2View{ID: len(w.views) + 1, Kind: "other-round", H: h, R: r, Version: 1 << 20, PHRound: map[string]e2HR{}}
		w.views = append(w.views, ov)
		vs := tmconsensus.NewVoteSummary()
		vs.SetAvailablePower(w.valsAt(h))
		return w.deliver(tmeil.StateMachineRoundView{VRV: tmconsensus.VersionedRoundView{
			RoundView: tmconsensus.RoundView{Height: h, Round: r, ValidatorSet: w.vsetAt(h), VoteSummary: vs}, Version: 1 << 20,
		}}, ov)
	}
	or := w.roundX(h, r, false)
	w.mutPH(or)
	w.mutVotes(or, false, w.cfg.nVals)
	w.mutVotes(or, true, w.cfg.nVals)
	vrv, ov := w.buildVRV(or, "other-round")
	// version far above anything of the current round, so that a machine that
	// mistakes it for the current round cannot reject it as stale.
	vrv.Version += 1 << 20
	ov.Version = vrv.Version
	return w.deliver(tmeil.StateMachineRoundView{VRV: vrv}, ov)
}

func (w *e2World) evFireTimer() bool {
	ts := w.rt.outstanding(w.inst.n)
	if len(ts) == 0 {
		return true
	}
	tm := ts[w.rng.IntN(len(ts))]
	if tm.kind == "proposal" {
		if !w.gateChoose() {
			return false
		}
	}
	if w.rt.fire(tm.id) {
		w.count("timer.fired." + tm.kind)
	}
	return true
}

func (w *e2World) evFinResp() bool {
	var pend []*e2FinReq
	for _, q := range w.finreqs {
		if !q.done && q.inst == w.inst.n {
			pend = append(pend, q)
		}
	}
	if len(pend) == 0 {
		return true
	}
	q := pend[w.rng.IntN(len(pend))]
	q.done = true
	hh := q.req.Header.Height
	hash := string(q.req.Header.Hash)
	app := w.appHash(hh, hash)
	if _, ok := w.chain[hh]; !ok {
		w.chain[hh] = &e2Chain{header: q.req.Header, hash: hash, app: app, round: q.req.Round}
	}
	resp := tmdriver.FinalizeBlockResponse{
		Height: hh, Round: q.req.Round,
		BlockHash:    q.req.Header.Hash,
		Validators:   w.valsAt(hh + 2),
		AppStateHash: []byte(w.chain[hh].app),
	}
	w.log.add(e2Ev{K: e2kFinResp, H: q.at.H, R: q.at.R, Hash: hash, ID: q.id})
	select {
	case q.req.Resp <- resp:
		w.count("finresp")
	default:
		w.count("finresp.channel_full")
	}
	return true
}

func (w *e2World) evHeightCommitted(rd *e2Round) bool {
	in := w.inst
	if in.hc == nil {
		return true
	}
	w.log.add(e2Ev{K: e2kHCommitted, H: in.cur.H, R: in.cur.R})
	close(in.hc)
	in.hc = nil
	w.count("height_committed")
	return true
}

func (w *e2World) evBlockData(rd *e2Round) bool {
	a := tmelink.BlockDataArrival{Height: rd.h, Round: rd.r}
	var older []*e2Block
	if rd.r > 0 {
		if prd, ok := w.rounds[e2HR{rd.h, rd.r - 1}]; ok {
			older = prd.delivered
		}
	}
	switch x := w.rng.IntN(6); {
	case x < 1 && len(older) > 0:
		// data of a block proposed in the previous round, announced for the current one
		a.ID = string(older[w.rng.IntN(len(older))].ph.Header.DataID)
	case x < 4 && len(rd.delivered) > 0:
		a.ID = string(rd.delivered[w.rng.IntN(len(rd.delivered))].ph.Header.DataID)
	case x < 5:
		a.ID = "unrelated"
	default:
		a.Round++
		a.ID = "late"
	}
	if !w.do(e2Op{bd: &a}) {
		return false
	}
	if !w.skipped {
		w.log.add(e2Ev{K: e2kBlockData, H: a.Height, R: a.Round, Note: a.ID})
		w.count("blockdata")
	}
	return true
}

func (w *e2World) evPropose() bool {
	s := w.strat
	s.mu.Lock()
	sc := s.cur
	var out chan<- tmconsensus.Proposal
	var p tmconsensus.Proposal
	if sc != nil && sc.propose && !sc.proposed && sc.proposalOut != nil {
		sc.proposed = true
		out = sc.proposalOut
		p = tmconsensus.Proposal{DataID: sc.dataID}
	} else if sc != nil && sc.propose && sc.proposed && sc.propose2 && !sc.proposed2 && sc.proposalEffectSeen && sc.proposalOut != nil {
		// a duplicate: a second, different proposal after the first was emitted
		sc.proposed2 = true
		out = sc.proposalOut
		p = tmconsensus.Proposal{DataID: sc.dataID + "_second"}
	}
	s.mu.Unlock()
	if out == nil {
		return true
	}
	select {
	case out <- p:
		w.log.add(e2Ev{K: e2kProposalSent, H: sc.h, R: sc.r, Note: p.DataID})
		w.count("proposal_sent")
	default:
	}
	return true
}

// step applies one generator event. It returns false when the case is over.
func (w *e2World) step() bool {
	if !w.alive() {
		return false
	}
	in := w.inst
	w.events++
	w.ageHolds()

	if in.deaf {
		return false
	}
	if in.replay {
		// The only input a replaying machine is meant to take is the driver's finalization.
		hasPending := false
		for _, q := range w.finreqs {
			if !q.done && q.inst == in.n {
				hasPending = true
			}
		}
		if !hasPending {
			if in.replayListening {
				// answered already, still no new entrance: nothing the interface permits is left
				w.count("replay.no_progress_after_finalization")
				return false
			}
			// wait for the finalize request of the replayed header (or death).
			got := func() bool {
				for _, q := range w.finreqs {
					if !q.done && q.inst == in.n {
						return true
					}
				}
				return !in.replay
			}
			return w.do(e2Op{until: got})
		}
		before := in.entrances
		if !w.evFinResp() {
			return false
		}
		if in.probePending || in.replayListening {
			if !w.quiesce() {
				return false
			}
			if in.entrances > before || !in.replay {
				return true
			}
			if in.replayListening {
				w.count("replay.no_progress_after_finalization")
				return false
			}
		}
		// the response is consumed by the replay loop; its effect is the next entrance.
		return w.do(e2Op{until: func() bool { return in.entrances > before }})
	}

	rd := w.round(in.cur.H, in.cur.R)
	f := w.factsOf(e2group(rd.prevotes), e2group(rd.precommits))
	timers := w.rt.outstanding(in.n)
	pendingFin := false
	for _, q := range w.finreqs {
		if !q.done && q.inst == in.n {
			pendingFin = true
		}
	}
	allIn := len(rd.prevotes) >= w.cfg.nVals-1 && len(rd.precommits) >= w.cfg.nVals-1

	type choice struct {
		name string
		wt   int
	}
	cs := []choice{{"view", 40}}
	if allIn {
		cs[0].wt = 6
	}
	if len(timers) > 0 {
		wt := 10
		if allIn {
			wt = 40
		}
		if timers[0].kind == "commit-wait" {
			wt = 25
		}
		cs = append(cs, choice{"timer", wt})
	}
	if pendingFin {
		cs = append(cs, choice{"finresp", 30})
	}
	if rd.quorumAccepted && in.hc != nil {
		cs = append(cs, choice{"hcommitted", 10})
	} else if in.hc != nil {
		// the mirror may have committed the height before the machine saw the deciding view
		// (a lagging state machine); uncommon, but every case should meet it a few times
		if w.rng.IntN(6) == 0 {
			cs = append(cs, choice{"hcommitted", 3})
		}
	}
	jw := 2
	if allIn && len(timers) == 0 && !pendingFin && !f.pcBlockQuorum {
		jw = 40
	}
	cs = append(cs, choice{"jump", jw}, choice{"other", 3}, choice{"propose", 6})
	if len(timers) > 0 && len(w.holds) == 0 {
		cs = append(cs, choice{"race", 4})
	}
	if len(w.holds) == 0 && !w.cfg.planned && (len(timers) > 0 || pendingFin || in.hc != nil) {
		cs = append(cs, choice{"burst", 6})
	}
	if w.cfg.blockData {
		cs = append(cs, choice{"blockdata", 5})
	}
	tot := 0
	for _, c := range cs {
		tot += c.wt
	}
	x := w.rng.IntN(tot)
	name := ""
	for _, c := range cs {
		if x < c.wt {
			name = c.name
			break
		}
		x -= c.wt
	}
	ok := true
	switch name {
	case "view":
		ok = w.evView(rd)
	case "timer":
		ok = w.evFireTimer()
	case "finresp":
		ok = w.evFinResp()
	case "hcommitted":
		ok = w.evHeightCommitted(rd)
	case "race":
		ok = w.evRace(rd)
	case "burst":
		ok = w.evBurst(rd)
	case "jump":
		ok = w.evJump(rd)
	case "other":
		ok = w.evOtherRound(rd)
	case "propose":
		ok = w.evPropose()
	case "blockdata":
		ok = w.evBlockData(rd)
	}
	w.count("event." + name)
	if !ok {
		return false
	}
	if w.cfg.careful || (!w.cfg.holds && w.rng.IntN(3) == 0) || (w.cfg.holds && w.rng.IntN(7) == 0) {
		if !w.quiesce() {
			return false
		}
	}
	if w.cfg.maxHeight > 0 && w.inst.cur.H > w.cfg.maxHeight {
		return false
	}
	return true
}

// restart stops the running instance (wherever it is) and starts a new one on the same
// stores, signer and strategy; the mirror keeps what it knows about every round.
func (w *e2World) restart() bool {
	w.stopInstance()
	w.frozen = false
	for _, q := range w.finreqs {
		q.done = true
	}
	// after a restart the mirror answers with or without the node's own earlier actions in the view
	if !w.cfg.planned {
		for _, k := range w.sortedRounds() {
			w.rounds[k].showOwn = w.rng.IntN(2) == 0
		}
	}
	w.count("restart")
	w.startInstance()
	in := w.inst
	return w.do(e2Op{until: func() bool { return in.entrances > 0 }})
}

func (w *e2World) sortedRounds() []e2HR {
	ks := make([]e2HR, 0, len(w.rounds))
	for k := range w.rounds {
		ks = append(ks, k)
	}
	sort.Slice(ks, func(i, j int) bool {
		if ks[i].H != ks[j].H {
			return ks[i].H < ks[j].H
		}
		return ks[i].R < ks[j].R
	})
	return ks
}

// start brings up the first instance and services it until the first round is entered.
func (w *e2World) start() bool {
	w.startInstance()
	in := w.inst
	return w.do(e2Op{until: func() bool { return in.entrances > 0 }})
}

// e2DrawCfg draws the validator set and modes of one case.
func e2DrawCfg(rng *rand.Rand, prop string) e2Cfg {
	cfg := e2Cfg{prop: prop}
	cfg.nVals = []int{2, 3, 4, 4, 4, 5, 6, 7}[rng.IntN(8)]
	cfg.powers = make([]uint64, cfg.nVals)
	switch rng.IntN(5) {
	case 0: // fixture default
		for i := range cfg.powers {
			cfg.powers[i] = uint64(100_000 - i)
		}
	case 1, 2: // all equal: sums land exactly on the thresholds
		for i := range cfg.powers {
			cfg.powers[i] = 1
		}
	case 3: // small random
		for i := range cfg.powers {
			cfg.powers[i] = 1 + rng.Uint64N(5)
		}
	default: // one validator holds a third or more
		for i := range cfg.powers {
			cfg.powers[i] = 1
		}
		cfg.powers[rng.IntN(cfg.nVals)] = uint64(cfg.nVals)/2 + 1
	}
	cfg.participate = rng.IntN(10) != 0
	cfg.careful = rng.IntN(4) != 0
	cfg.holds = rng.IntN(3) == 0
	if cfg.holds {
		// late answers need room between two points of rest
		cfg.careful = false
	}
	cfg.blockData = rng.IntN(2) == 0
	cfg.catchup = rng.IntN(3) == 0
	if prop == "C07" {
		cfg.rotate = true
		cfg.participate = true
		cfg.catchup = rng.IntN(6) == 0
	}
	return cfg
}
