//go:build verif

package tmstate_test

// C12 part (b): the production round timer.
//
// The real tmstate.StandardRoundTimer is driven the way the state machine
// drives it: one caller, strictly sequential start -> (cancel | elapse) ->
// start cycles, the next start issued immediately after the cancel.
// Whether that is safe depends on how the timer goroutine is scheduled
// between the cancel and the next start; the harness runs very many cycles,
// with and without a handler at hook point "roundtimer.armed" that yields or
// sleeps for microseconds between "answered the request" and "selecting".
//
// All identifiers in this file are prefixed c12p / C12P (other harness files
// live in the same package).

import (
	"context"
	"fmt"
	"math/rand/v2"
	"runtime"
	"sync"
	"sync/atomic"
	"testing"
	"time"

	"github.com/gordian-engine/gordian/internal/verifhook"
	"github.com/gordian-engine/gordian/internal/verifkit"
	"github.com/gordian-engine/gordian/tm/tmengine/internal/tmstate"
)

const (
	c12pKeyNilChan       = "C12:production:start-after-cancel-returned-nil-channel"
	c12pKeyCancelElapsed = "C12:production:cancelled-timer-reported-elapsed"
	c12pHookArmed        = "roundtimer.armed"
	c12pCatchName        = "tmstate.roundtimer"
)

// c12pStrategy: the requested duration is carried in the height argument,
// so every duration is a pure function of the call's arguments.
type c12pStrategy struct {
	calls *[4]atomic.Int64
}

func (s c12pStrategy) ProposalTimeout(h uint64, _ uint32) time.Duration {
	s.calls[0].Add(1)
	return time.Duration(h)
}
func (s c12pStrategy) PrevoteDelayTimeout(h uint64, _ uint32) time.Duration {
	s.calls[1].Add(1)
	return time.Duration(h)
}
func (s c12pStrategy) PrecommitDelayTimeout(h uint64, _ uint32) time.Duration {
	s.calls[2].Add(1)
	return time.Duration(h)
}
func (s c12pStrategy) CommitWaitTimeout(h uint64, _ uint32) time.Duration {
	s.calls[3].Add(1)
	return time.Duration(h)
}

var c12pMethodNames = [4]string{"ProposalTimer", "PrevoteDelayTimer", "PrecommitDelayTimer", "CommitWaitTimer"}

var c12pDurations = [4]time.Duration{0, time.Microsecond, time.Millisecond, time.Hour}

// c12pInst is one StandardRoundTimer with its catcher.
type c12pInst struct {
	rt         *tmstate.StandardRoundTimer
	stop       context.CancelFunc // ends the timer goroutine
	callCtx    context.Context    // passed to the *Timer methods; cancelled by the catcher
	callCancel context.CancelFunc

	hook     bool
	hookHits *atomic.Int64 // shared counter of hook point hits

	mu         sync.Mutex
	panicked   bool
	panicMsg   string
	panicStack string
	watchdog   bool
}

func c12pNewInst(strat c12pStrategy, hook bool, hookRNG *rand.Rand, hits *atomic.Int64) *c12pInst {
	in := &c12pInst{hook: hook, hookHits: hits}
	base, stop := context.WithCancel(context.Background())
	in.stop = stop
	in.callCtx, in.callCancel = context.WithCancel(context.Background())
	ctx := verifhook.WithCatcher(base, func(name string, val any, stack []byte) {
		in.mu.Lock()
		in.panicked = true
		in.panicMsg = fmt.Sprint(val)
		in.panicStack = string(stack)
		in.mu.Unlock()
		// The caller may be blocked waiting for the dead goroutine's answer.
		in.callCancel()
	})
	if hook {
		// The handler runs on the timer goroutine only, so hookRNG needs no lock.
		ctx = verifhook.WithPoints(ctx, func(_ context.Context, name string) {
			if name != c12pHookArmed {
				return
			}
			in.hookHits.Add(1)
			switch hookRNG.IntN(4) {
			case 0:
				runtime.Gosched()
			case 1:
				verifhook.Yield(2 + hookRNG.IntN(20))
			case 2:
				time.Sleep(time.Duration(1+hookRNG.IntN(50)) * time.Microsecond)
			case 3:
				// no delay: the hook itself must not be what makes it fail
			}
		})
	}
	in.rt = tmstate.NewStandardRoundTimer(ctx, strat)
	return in
}

func (in *c12pInst) close() {
	in.stop()
	in.callCancel()
}

func (in *c12pInst) panicInfo() (bool, string, string) {
	in.mu.Lock()
	defer in.mu.Unlock()
	return in.panicked, in.panicMsg, in.panicStack
}

// start requests a timer through method m with duration d.
// A generous watchdog releases the caller if the timer goroutine neither
// answers nor dies (that would be inconclusive, not a violation).
func (in *c12pInst) start(m int, d time.Duration) (<-chan struct{}, func()) {
	wd := time.AfterFunc(60*time.Second, func() {
		in.mu.Lock()
		in.watchdog = true
		in.mu.Unlock()
		in.callCancel()
	})
	defer wd.Stop()
	h := uint64(d)
	switch m {
	case 0:
		return in.rt.ProposalTimer(in.callCtx, h, 0)
	case 1:
		return in.rt.PrevoteDelayTimer(in.callCtx, h, 1)
	case 2:
		return in.rt.PrecommitDelayTimer(in.callCtx, h, 2)
	default:
		return in.rt.CommitWaitTimer(in.callCtx, h, 3)
	}
}

func c12pClosed(ch <-chan struct{}) bool {
	select {
	case <-ch:
		return true
	default:
		return false
	}
}

const (
	c12pActCancelNow = iota
	c12pActYieldCancel
	c12pActDoubleCancel
	c12pActConcurrentCancel
	c12pActWaitElapseCancel
	c12pActWaitElapseNoCancel
	c12pNActs
)

var c12pActNames = [c12pNActs]string{"cancel", "yield+cancel", "cancel+cancel", "cancel||cancel", "elapse+cancel", "elapse"}

type c12pOp struct {
	Method string `json:"method"`
	Dur    string `json:"duration"`
	Act    string `json:"then"`
}

type c12pPrev struct {
	ch        <-chan struct{}
	dur       time.Duration
	cancelled bool
	elapsed   bool
	op        c12pOp
}

// c12pStall is a canary: a goroutine that sleeps 1ms at a time and notes
// when it overslept badly (machine overloaded). Cases that depend on the
// timer goroutine being scheduled within 200ms are left unjudged then.
type c12pStall struct {
	last atomic.Int64 // unix nanos of the most recent stall > 50ms
	stop chan struct{}
}

func c12pStartStall() *c12pStall {
	s := &c12pStall{stop: make(chan struct{})}
	go func() {
		prev := time.Now()
		for {
			select {
			case <-s.stop:
				return
			default:
			}
			time.Sleep(time.Millisecond)
			now := time.Now()
			if now.Sub(prev) > 50*time.Millisecond {
				s.last.Store(now.UnixNano())
			}
			prev = now
		}
	}()
	return s
}

func TestVerif_C12_production(t *testing.T) {
	r := verifkit.Start("C12")
	if r == nil {
		t.Skip("not started by the /verif driver")
	}
	defer r.Finish()
	r.SetRule("Real tmstate.StandardRoundTimer, one sequential caller per instance. Cycle cases: case i (PRNG from seed) runs start->action->start cycles, method drawn from the four timer methods, duration from {0,1us,1ms,1h}, action from {cancel, yield+cancel, cancel twice, two concurrent cancels, wait for elapse then cancel, wait for elapse}; the next start is issued at once. Half of the cases run with a handler at hook 'roundtimer.armed' that yields/sleeps <=50us on the timer goroutine. A panic of the timer goroutine is caught (verifhook.Catch) and is a violation; the instance is replaced. Late-close cases: start 200ms, cancel within <=1ms, (optionally start a 1h timer,) look at the channel 450ms later. Non-trivial = a cycle case that completed at least one cancel->start pair, or a late-close case that was judged; digest = (kind, hook, case index, ops digest).")

	var calls [4]atomic.Int64
	strat := c12pStrategy{calls: &calls}

	canary := c12pStartStall()
	defer close(canary.stop)

	// ---------------------------------------------------------------- cycles
	totalCycles := r.N(200_000, 10_000_000)
	nCases := 128
	perCase := totalCycles / nCases
	if perCase < 10 {
		perCase = 10
	}

	var (
		cyclesByMode      [2]atomic.Int64
		panicsByMode      [2]atomic.Int64
		cancelStartByMode [2]atomic.Int64 // starts issued right after a cancel
		hookHits          atomic.Int64
		elapsedSeen       atomic.Int64
		startsOK          atomic.Int64
		panicAfterAct     [c12pNActs]atomic.Int64
		panicByDur        [4]atomic.Int64
		longCancelledOK   atomic.Int64
		instances         atomic.Int64
	)

	r.Parallel(nCases, func(i int) {
		caseID := fmt.Sprintf("cycles-%d", i)
		r.BeginCase(caseID)
		rng := r.CaseRNG(i)
		hook := i%2 == 1
		mode := 0
		if hook {
			mode = 1
		}
		newInst := func(gen int) *c12pInst {
			instances.Add(1)
			return c12pNewInst(strat, hook, r.NamedRNG(fmt.Sprintf("hook-%d", i), gen), &hookHits)
		}
		gen := 0
		in := newInst(gen)
		defer func() { in.close() }()

		var prev *c12pPrev
		var recent []c12pOp
		pairs := 0
		opsDigest := uint64(0)

		for c := 0; c < perCase; c++ {
			m := rng.IntN(4)
			di := rng.IntN(4)
			d := c12pDurations[di]
			act := rng.IntN(c12pNActs)
			if d == time.Hour && act >= c12pActWaitElapseCancel {
				act = rng.IntN(c12pActWaitElapseCancel)
			}
			op := c12pOp{Method: c12pMethodNames[m], Dur: d.String(), Act: c12pActNames[act]}
			recent = append(recent, op)
			if len(recent) > 6 {
				recent = recent[1:]
			}
			opsDigest = opsDigest*1099511628211 + uint64(m*64+di*8+act+1)

			afterCancel := prev != nil && prev.cancelled
			if afterCancel {
				cancelStartByMode[mode].Add(1)
			}
			ch, cancel := in.start(m, d)
			cyclesByMode[mode].Add(1)

			if p, msg, stack := in.panicInfo(); p {
				panicsByMode[mode].Add(1)
				if prev != nil {
					for a := range c12pActNames {
						if c12pActNames[a] == prev.op.Act {
							panicAfterAct[a].Add(1)
						}
					}
					for k := range c12pDurations {
						if c12pDurations[k] == prev.dur {
							panicByDur[k].Add(1)
						}
					}
				}
				r.Violate(verifkit.PanicKey(msg, stack),
					fmt.Sprintf("StandardRoundTimer goroutine panicked when a new timer was requested right after the previous one was %s: %s",
						c12pPrevState(prev), msg),
					caseID,
					map[string]any{
						"hook_delay":  hook,
						"cycle":       c,
						"recent_ops":  append([]c12pOp(nil), recent...),
						"previous":    c12pPrevState(prev),
						"panic":       msg,
						"stack":       stack,
						"reproduce":   "rt := NewStandardRoundTimer(ctx, strat); _, cancel := rt.ProposalTimer(ctx, h, r); cancel(); rt.PrevoteDelayTimer(ctx, h, r) in a loop",
						"hook_points": c12pHookArmed,
					})
				in.close()
				gen++
				in = newInst(gen)
				prev = nil
				continue
			}
			in.mu.Lock()
			wd := in.watchdog
			in.mu.Unlock()
			if wd {
				r.Inconclusive("case %s: timer request did not return within 60s (cycle %d)", caseID, c)
				return
			}
			if ch == nil {
				r.Violate(c12pKeyNilChan,
					"a timer request issued right after cancelling the previous timer returned a nil channel although neither context was cancelled",
					caseID, map[string]any{"hook_delay": hook, "cycle": c, "recent_ops": append([]c12pOp(nil), recent...)})
				in.close()
				gen++
				in = newInst(gen)
				prev = nil
				continue
			}
			startsOK.Add(1)
			if afterCancel {
				pairs++
			}

			// The goroutine answered the new request, so it has left the
			// "running" phase of the previous timer: if that one was cancelled
			// and could not possibly have elapsed (1h), its channel must be open.
			if prev != nil && prev.cancelled && !prev.elapsed && prev.dur == time.Hour {
				if c12pClosed(prev.ch) {
					r.Violate(c12pKeyCancelElapsed,
						"the elapsed channel of a 1h timer that was cancelled at once is closed",
						caseID, map[string]any{"hook_delay": hook, "cycle": c, "recent_ops": append([]c12pOp(nil), recent...)})
				} else {
					longCancelledOK.Add(1)
				}
			}

			cur := &c12pPrev{ch: ch, dur: d, op: op}
			// cancel functions run on this goroutine: "safe to call multiple times,
			// and concurrently" is part of the RoundTimer contract, so a panic in
			// one is a violation, not the end of the process.
			gcancel := func() bool {
				p, key, msg, stack := verifkit.Guard(cancel)
				if p {
					r.Violate(key, "the cancel function of a StandardRoundTimer timer panicked ("+op.Act+"): "+msg, caseID,
						map[string]any{"hook_delay": hook, "cycle": c, "recent_ops": append([]c12pOp(nil), recent...), "panic": msg, "stack": stack})
				}
				return !p
			}
			switch act {
			case c12pActCancelNow:
				gcancel()
				cur.cancelled = true
			case c12pActYieldCancel:
				for k := rng.IntN(4); k >= 0; k-- {
					runtime.Gosched()
				}
				gcancel()
				cur.cancelled = true
			case c12pActDoubleCancel:
				gcancel()
				gcancel()
				cur.cancelled = true
			case c12pActConcurrentCancel:
				done := make(chan struct{})
				go func() { defer close(done); gcancel() }()
				gcancel()
				<-done
				cur.cancelled = true
			case c12pActWaitElapseCancel, c12pActWaitElapseNoCancel:
				select {
				case <-ch:
					elapsedSeen.Add(1)
					cur.elapsed = true
				case <-time.After(60 * time.Second):
					r.Inconclusive("case %s: a %s timer did not fire within 60s", caseID, d)
					return
				}
				if act == c12pActWaitElapseCancel {
					gcancel()
					gcancel()
					cur.cancelled = true
				}
				// A second close of the channel would panic the timer goroutine;
				// the catcher reports that at the next start.
			}
			prev = cur
		}
		r.Eval(1)
		if pairs > 0 {
			r.Nontrivial("cycles", hook, i, opsDigest)
		}
		if i < 2 {
			r.Sample(map[string]any{"case": caseID, "hook_delay": hook, "cycles": perCase, "cancel_then_start_pairs": pairs, "last_ops": recent})
		}
	})

	// ------------------------------------------------------------ late close
	nLate := r.N(256, 4096)
	var lateJudged, lateUnjudged, lateWithRestart atomic.Int64
	lateWorkers := 64
	var wg sync.WaitGroup
	var next atomic.Int64
	for w := 0; w < lateWorkers; w++ {
		wg.Add(1)
		go func() {
			defer wg.Done()
			for {
				i := int(next.Add(1) - 1)
				if i >= nLate {
					return
				}
				c12pLateCase(r, strat, canary, i, &lateJudged, &lateUnjudged, &lateWithRestart, &hookHits, &panicsByMode)
			}
		}()
	}
	wg.Wait()

	for k, name := range []string{"nohook", "hook"} {
		r.Count("cycles."+name, cyclesByMode[k].Load())
		r.Count("cancel_then_start."+name, cancelStartByMode[k].Load())
		r.Count("timer_goroutine_panics."+name, panicsByMode[k].Load())
	}
	r.Count("hook_hits.roundtimer.armed", hookHits.Load())
	r.Count("starts_answered", startsOK.Load())
	r.Count("elapses_observed", elapsedSeen.Load())
	r.Count("cancelled_1h_timers_checked_open", longCancelledOK.Load())
	r.Count("timer_instances", instances.Load())
	for a := range c12pActNames {
		r.Count("panic_after."+c12pActNames[a], panicAfterAct[a].Load())
	}
	for k := range c12pDurations {
		r.Count("panic_prev_duration."+c12pDurations[k].String(), panicByDur[k].Load())
	}
	for m := range c12pMethodNames {
		r.Count("calls."+c12pMethodNames[m], calls[m].Load())
	}
	r.Count("late_close.judged", lateJudged.Load())
	r.Count("late_close.unjudged", lateUnjudged.Load())
	r.Count("late_close.with_restart", lateWithRestart.Load())
	if hookHits.Load() == 0 {
		r.Inconclusive("hook point %s was never reached (hooks not compiled in?)", c12pHookArmed)
	}
}

func c12pPrevState(p *c12pPrev) string {
	if p == nil {
		return "absent (first request)"
	}
	switch {
	case p.cancelled && p.elapsed:
		return "observed elapsed and then cancelled (" + p.op.Dur + ")"
	case p.cancelled:
		return "cancelled (" + p.op.Dur + ", " + p.op.Act + ")"
	case p.elapsed:
		return "observed elapsed (" + p.op.Dur + ")"
	}
	return "left running"
}

// c12pLateCase: a timer cancelled long before its deadline must not have its
// channel closed later.
func c12pLateCase(r *verifkit.Run, strat c12pStrategy, canary *c12pStall, i int,
	judged, unjudged, withRestart, hookHits *atomic.Int64, panicsByMode *[2]atomic.Int64) {
	caseID := fmt.Sprintf("late-%d", i)
	rng := r.NamedRNG("late", i)
	hook := rng.IntN(2) == 1
	mode := 0
	if hook {
		mode = 1
	}
	in := c12pNewInst(strat, hook, r.NamedRNG("late-hook", i), hookHits)
	defer in.close()

	const deadline = 200 * time.Millisecond
	m := rng.IntN(4)
	delay := time.Duration(rng.IntN(1000)) * time.Microsecond
	restart := rng.IntN(2) == 1
	m2 := rng.IntN(4)

	t0 := time.Now()
	ch, cancel := in.start(m, deadline)
	if ch == nil {
		if p, msg, stack := in.panicInfo(); p {
			panicsByMode[mode].Add(1)
			r.Violate(verifkit.PanicKey(msg, stack), "StandardRoundTimer goroutine panicked on the first request: "+msg, caseID,
				map[string]any{"panic": msg, "stack": stack})
		} else {
			r.Inconclusive("case %s: first timer request returned nil", caseID)
		}
		return
	}
	switch {
	case delay < 50*time.Microsecond:
		// cancel at once
	case delay < 300*time.Microsecond:
		runtime.Gosched()
	default:
		time.Sleep(delay)
	}
	if p, key, msg, stack := verifkit.Guard(cancel); p {
		r.Violate(key, "the cancel function of a StandardRoundTimer timer panicked: "+msg, caseID, map[string]any{"panic": msg, "stack": stack})
		return
	}
	cancelledAfter := time.Since(t0)

	var ch2 <-chan struct{}
	var cancel2 func()
	restarted := false
	if restart {
		ch2, cancel2 = in.start(m2, time.Hour)
		if p, msg, stack := in.panicInfo(); p {
			panicsByMode[mode].Add(1)
			r.Violate(verifkit.PanicKey(msg, stack),
				"StandardRoundTimer goroutine panicked when a new timer was requested right after the previous one was cancelled (200ms): "+msg,
				caseID, map[string]any{"hook_delay": hook, "panic": msg, "stack": stack,
					"ops": []c12pOp{{c12pMethodNames[m], deadline.String(), "cancel"}, {c12pMethodNames[m2], "1h0m0s", "-"}}})
			// The goroutine is dead and cannot close anything: nothing to observe.
			unjudged.Add(1)
			r.Eval(1)
			return
		}
		if ch2 == nil {
			r.Violate(c12pKeyNilChan, "a timer request issued right after cancelling the previous timer returned a nil channel", caseID,
				map[string]any{"hook_delay": hook})
			return
		}
		restarted = true
		withRestart.Add(1)
	}

	time.Sleep(450*time.Millisecond - time.Since(t0))
	tEnd := time.Now()
	r.Eval(1)

	stalled := false
	if ls := canary.last.Load(); ls != 0 {
		lt := time.Unix(0, ls)
		if lt.After(t0) && lt.Before(tEnd.Add(100*time.Millisecond)) {
			stalled = true
		}
	}
	if cancelledAfter > 50*time.Millisecond || stalled {
		// The cancel may have been concurrent with the deadline from the timer
		// goroutine's point of view: not judged.
		unjudged.Add(1)
	} else {
		judged.Add(1)
		r.Nontrivial("late", hook, i, m, restart)
		if c12pClosed(ch) {
			r.Violate(c12pKeyCancelElapsed,
				fmt.Sprintf("a %s timer cancelled %s after it was started had its elapsed channel closed %s later", deadline, cancelledAfter, time.Since(t0)),
				caseID, map[string]any{"hook_delay": hook, "method": c12pMethodNames[m], "deadline": deadline.String(),
					"cancelled_after": cancelledAfter.String(), "restarted_with_1h_timer": restarted})
		}
		if restarted && c12pClosed(ch2) {
			// Not claimed by the property text (a running 1h timer reporting elapsed
			// early); recorded only.
			r.Count("late_close.new_1h_timer_closed_early(not judged)", 1)
		}
	}
	if cancel2 != nil {
		verifkit.Guard(cancel2)
	}
	if i < 2 {
		r.Sample(map[string]any{"case": caseID, "hook_delay": hook, "method": c12pMethodNames[m], "deadline": deadline.String(),
			"cancelled_after": cancelledAfter.String(), "restarted": restarted, "closed_later": c12pClosed(ch)})
	}
}
