//go:build verif

package tmstate_test

import (
	"fmt"
	"strings"
	"testing"

	"github.com/gordian-engine/gordian/internal/verifkit"
)

// TestVerif_C09_statemachine: the E2 event histories (every boundary of a real
// tmstate.StateMachine is the harness: views in any monotone order, timer firings, strategy
// answers held and released late, finalization responses early and late, height-committed
// signals, jump-aheads, catch-up, restarts) judged by one thing only: a panic of a state
// machine goroutine (kernel, consensus manager, round timer), caught by the Catch hooks and
// keyed by its site, is a violation of "no schedule makes the engine panic".
func TestVerif_C09_statemachine(t *testing.T) {
	r := verifkit.Start("C09")
	if r == nil {
		t.Skip("not started by the /verif driver")
	}
	defer r.Finish()
	r.SetRule("E2 event histories (as for C08) against a real tmstate.StateMachine; every panic of one of its goroutines is caught by the build-tagged Catch hooks (tmstate.kernel, tsi.consmgr, tmstate.roundtimer), keyed by panic site with numbers stripped, and reported as C09:statemachine:<site>. Non-trivial = distinct event traces in which the strategy was consulted.")
	agg := newE2Agg()
	run := func(i int) {
		e2Guarded(r, "C09sm/case", func() {
			w := e2RunTraceWorld(r, "C09sm", i, agg)
			for _, k := range w.panicKeys {
				r.Violate("C09:statemachine:"+k, fmt.Sprintf("a state machine goroutine panicked: %s", k), fmt.Sprintf("C09sm/case-%d", i),
					map[string]any{"events": w.tail(120), "validators": w.cfg.nVals, "powers": w.cfg.powers})
			}
		})
	}
	if i := e2ReplayIndex(r); i >= 0 {
		run(i)
		agg.report(r)
		return
	}
	n := r.N(2400, 40000)
	if strings.HasSuffix(r.Sub, "race") {
		n = r.N(300, 5000) // the race detector costs 5-10x
	}
	r.Parallel(n, run)
	agg.report(r)
}
