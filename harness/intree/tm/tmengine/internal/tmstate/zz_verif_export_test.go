//go:build verif

package tmstate

import "github.com/gordian-engine/gordian/tm/tmengine/internal/tmstate/internal/tsi"

// Accessors for the /verif E2 harness (export_test pattern; add-only, test build only).

// VerifE2ConsMgr exposes the consensus manager so that the harness can push a
// sentinel request through its strictly sequential request channels (barrier)
// and act as a stand-in receiver while the scripted strategy holds a call.
func VerifE2ConsMgr(m *StateMachine) *tsi.ConsensusManager { return m.cm }

// VerifE2KernelDone is closed when the state machine's kernel goroutine returned
// (context cancellation, an error path, or a panic recovered by verifhook.Catch).
func VerifE2KernelDone(m *StateMachine) <-chan struct{} { return m.kernelDone }
