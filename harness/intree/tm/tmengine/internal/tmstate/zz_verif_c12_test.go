//go:build verif

package tmstate_test

import (
	"testing"

	"github.com/gordian-engine/gordian/internal/verifkit"
)

// TestVerif_C12_discipline: part (a) of C12, timer discipline of the state machine,
// observed with the recording virtual round timer of engine E2:
// at most one timer outstanding; none of an old round outstanding when a round is
// entered; at rest, a timer is outstanding exactly if the observable step is a timed
// one, and it is that step's timer. The virtual timer is fired only by the harness
// and never after it was cancelled.
func TestVerif_C12_discipline(t *testing.T) {
	r := verifkit.Start("C12")
	if r == nil {
		t.Skip("not started by the /verif driver")
	}
	defer r.Finish()
	r.SetRule("Same engine and workload as C08 (real tmstate.StateMachine, harness plays mirror, driver, strategy, signer, stores) with a recording virtual RoundTimer that only the harness fires and never after a cancel. Judged on every trace: every timer start while another timer of the instance is outstanding; every round entrance while a timer of another round is outstanding; and, at every point of rest (no-op input barrier + consensus-manager sentinel), whether the outstanding timer equals the one implied by the observable step (awaiting proposal: no prevote chosen, no threshold visible, proposal timer not fired; prevote delay: > 2/3 prevotes without a quorum, delay not fired; precommit delay: > 2/3 precommits without a quorum; commit wait: block precommit quorum visible, wait not fired, height-committed not signalled; otherwise none). Observations that do not determine the step (1/3..2/3 precommits, replayed heights, a held strategy call) are counted as unjudged. Non-trivial = distinct traces with at least one timer started and one armed-iff-waiting judgement.")

	agg := newE2Agg()
	if i := e2ReplayIndex(r); i >= 0 {
		e2Guarded(r, "replay", func() { e2RunTrace(r, "C12", i, agg, "C12:") })
		agg.report(r)
		return
	}
	n := r.N(2400, 60000)
	r.Parallel(n, func(i int) {
		e2Guarded(r, "C12/case", func() { e2RunTrace(r, "C12", i, agg, "C12:") })
	})
	agg.report(r)
}
