//go:build verif

package tmstate_test

// E2 oracles: trace specifications evaluated over the recorded event log.
// They are written from the property texts (properties.jsonl C08, C12, C02),
// not from statemachine.go. Vote power is always recomputed from the validator
// indices the generator put into a view, never read from a VoteSummary.

import (
	"crypto/ed25519"
	"fmt"
	"maps"
	"sort"
	"strings"

	"github.com/gordian-engine/gordian/tm/tmconsensus"
)

type e2Finding struct {
	Key  string
	What string
	Seq  uint64
}

type e2Trace struct {
	evs    []e2Ev
	views  []*e2View
	powers []uint64
	total  uint64
	pub    ed25519.PublicKey
	strat  *e2Strategy
	initH  uint64

	unjudged map[string]int64
	judged   map[string]int64
	states   map[string]struct{}
	maxH     uint64
	maxR     uint32

	// C07 (state machine side): set only by worlds whose application rotates the validator set
	c07 *e2C07
}

// e2C07 gives the oracle the harness's ground truth about validator sets: the set prescribed
// for each height (a function of the height alone) and what every candidate block names.
type e2C07 struct {
	vsetAt   func(h uint64) tmconsensus.ValidatorSet
	blocks   map[string]*e2Block
	invented map[uint64]bool // heights whose committed block the harness had to invent
}

func (w *e2World) trace() *e2Trace {
	t := &e2Trace{
		evs: w.log.snapshot(), views: w.views, powers: w.cfg.powers, total: w.total, strat: w.strat,
		initH:    w.gen.InitialHeight,
		unjudged: map[string]int64{}, judged: map[string]int64{}, states: map[string]struct{}{},
	}
	t.pub = ed25519.PublicKey(w.fx.PrivVals[0].Val.PubKey.PubKeyBytes())
	if w.cfg.rotate {
		inv := map[uint64]bool{}
		for h, c := range w.chain {
			if c.invented {
				inv[h] = true
			}
		}
		t.c07 = &e2C07{vsetAt: w.vsetAt, blocks: w.blocks, invented: inv}
	}
	return t
}

func (t *e2Trace) pow(idx []int) uint64 {
	var p uint64
	for _, i := range idx {
		p += t.powers[i]
	}
	return p
}
func (t *e2Trace) quorum(p uint64) bool { return 3*p > 2*t.total }
func (t *e2Trace) third(p uint64) bool  { return p > 0 && 3*p >= t.total }

type e2VF struct {
	pvQ, pcQ       *string // target holding more than 2/3 (prevote, precommit)
	pvTotalQ       bool
	pcTotalQ       bool
	pcAll, pcThird bool
}

func (t *e2Trace) facts(v *e2View) e2VF {
	var f e2VF
	var pvT, pcT uint64
	for tg, idx := range v.Prevotes {
		p := t.pow(idx)
		pvT += p
		if t.quorum(p) {
			x := tg
			f.pvQ = &x
		}
	}
	for tg, idx := range v.Precommits {
		p := t.pow(idx)
		pcT += p
		if t.quorum(p) {
			x := tg
			f.pcQ = &x
		}
	}
	f.pvTotalQ = t.quorum(pvT)
	f.pcTotalQ = t.quorum(pcT)
	f.pcAll = pcT == t.total
	f.pcThird = t.third(pcT)
	return f
}

// independent re-encoding of the sign content of the test signature scheme.
func e2VoteContent(kind string, h uint64, r uint32, hash string) string {
	K := "PREVOTE"
	if kind == "precommit" {
		K = "PRECOMMIT"
	}
	if hash == "" {
		return fmt.Sprintf("NIL %s:\nHeight=%d\nRound=%d\n", K, h, r)
	}
	return fmt.Sprintf("%s:\nHeight=%d\nRound=%d\nBlockHash=%x\n", K, h, r, hash)
}

type e2OView struct {
	v         *e2View
	offerSeq  uint64
	acceptSeq uint64 // 0 = not (yet) accepted
}

// e2RS is the oracle's record of one round of one instance.
type e2RS struct {
	inst    int
	hr      e2HR
	entSeq  uint64
	resp    string // vrv|ch|"" (not answered yet)
	chHash  string
	views   []*e2OView
	jumpSeq uint64
	jumpTo  uint32

	fired map[string]uint64 // timer kind -> fire seq

	pvAnswers, pcAnswers map[string]uint64 // answer hash -> seq of the strategy return
	chooseCalls          int
	decideCalls          int
	emitted              map[string]int
	ownPHs               map[string]bool

	hcSeq       uint64
	holdEndSeq  uint64
	holdOpen    int
	lastQuiesce uint64
	rests       []uint64 // seqs of the points of rest reached in this round
	left        bool
	r5Reported  bool

	firstOfInst bool            // the first round an instance entered (after a restart: resumed, not fresh)
	shown       map[string]bool // C07: hashes of the proposed headers handed to the strategy in this round
	c07Reported bool
}

func (rs *e2RS) lastAccepted(before uint64) *e2OView {
	var out *e2OView
	for _, ov := range rs.views {
		if ov.acceptSeq != 0 && ov.acceptSeq < before && ov.v != nil && !ov.v.JumpOnly {
			out = ov
		}
	}
	return out
}

// -------------------------------------------------------------------- C08 ----

// judgeC08 evaluates rules R1..R8 and C12's discipline rules (same walk).
func (t *e2Trace) judge(wantC08, wantC12 bool) (out []e2Finding) {
	add := func(seq uint64, key, format string, a ...any) {
		out = append(out, e2Finding{Key: key, What: fmt.Sprintf(format, a...), Seq: seq})
	}

	finStored := map[uint64]uint64{} // height -> seq of first successful SaveFinalization
	ownSaved := map[e2HR]map[string]bool{}
	var cur *e2RS
	rounds := map[[3]uint64]*e2RS{}
	var prevEnt *e2RS
	timers := map[int]*e2Ev{}         // armed timers by id (start event)
	everStarted := map[string]bool{}  // instance/kind/height/round of every timer started
	harnessFired := map[string]bool{} // ... whose latest timer the harness has fired
	timerOf := func(inst int) []*e2Ev {
		var l []*e2Ev
		for _, e := range timers {
			if e.Inst == inst {
				l = append(l, e)
			}
		}
		sort.Slice(l, func(i, j int) bool { return l[i].ID < l[j].ID })
		return l
	}

	for i := range t.evs {
		e := &t.evs[i]
		switch e.K {
		case e2kStart:
			cur, prevEnt = nil, nil

		case e2kFSaveOut:
			if e.OK {
				if _, ok := finStored[e.H]; !ok {
					finStored[e.H] = e.Seq
				}
			}

		case e2kASaveOut:
			if e.OK && e.Sub == "proposal" {
				k := e2HR{e.H, e.R}
				if ownSaved[k] == nil {
					ownSaved[k] = map[string]bool{}
				}
				ownSaved[k][e.Hash] = true
			}

		case e2kEntrance:
			hr := e2HR{e.H, e.R}
			if e.H > t.maxH {
				t.maxH = e.H
			}
			if e.R > t.maxR {
				t.maxR = e.R
			}
			if wantC12 {
				for _, ts := range timerOf(e.Inst) {
					if ts.H != e.H || ts.R != e.R {
						add(e.Seq, "C12:timer-of-old-round-outstanding-at-round-entrance",
							"%s timer #%d of %d/%d still outstanding when %d/%d is entered", ts.Sub, ts.ID, ts.H, ts.R, e.H, e.R)
					}
				}
			}
			if wantC08 {
				if prevEnt != nil {
					p := prevEnt.hr
					if !(hr.H > p.H || (hr.H == p.H && hr.R > p.R)) {
						add(e.Seq, "C08:R6:entered-rounds-not-strictly-increasing", "entered %d/%d after %d/%d", hr.H, hr.R, p.H, p.R)
					}
				}
				if hr.H > t.initH {
					if s, ok := finStored[hr.H-1]; !ok || s > e.Seq {
						add(e.Seq, "C08:R2:next-height-entered-before-finalization-stored",
							"entered %d/%d but no finalization for height %d had been stored", hr.H, hr.R, hr.H-1)
					}
					t.judged["R2"]++
				}
				if prevEnt != nil && prevEnt.hr.H == hr.H && hr.R > prevEnt.hr.R {
					t.judged["R3"]++
					why := t.roundLeftCause(prevEnt, e.Seq)
					if why == "" {
						// a jump-ahead naming a later round was delivered while the machine was in an earlier
						// round of this height (it may travel in the same message as the view that ended that round)
						for _, rs := range rounds {
							if rs.inst == e.Inst && rs.hr.H == hr.H && rs.jumpSeq != 0 && rs.jumpSeq < e.Seq && rs.jumpTo > prevEnt.hr.R {
								why = "jump-ahead-delivered-in-earlier-round"
							}
						}
					}
					if why == "" {
						add(e.Seq, "C08:R3:round-left-without-cause",
							"left %d/%d for %d/%d without nil precommit quorum, fully voted round, precommit-delay timeout or jump-ahead", hr.H, prevEnt.hr.R, hr.H, hr.R)
					} else {
						t.judged["R3.cause."+why]++
					}
				}
			}
			if prevEnt != nil {
				prevEnt.left = true
			}
			cur = &e2RS{inst: e.Inst, hr: hr, entSeq: e.Seq, fired: map[string]uint64{}, pvAnswers: map[string]uint64{}, pcAnswers: map[string]uint64{},
				emitted: map[string]int{}, ownPHs: map[string]bool{}}
			rounds[[3]uint64{uint64(e.Inst), e.H, uint64(e.R)}] = cur
			cur.firstOfInst = prevEnt == nil
			prevEnt = cur

		case e2kEntranceResp:
			if cur == nil {
				break
			}
			cur.resp = e.Sub
			if e.Sub == "ch" {
				cur.chHash = e.Hash
			} else {
				cur.views = append(cur.views, &e2OView{v: t.views[e.View-1], offerSeq: e.Seq, acceptSeq: e.Seq})
			}

		case e2kViewOffer:
			if cur == nil || e.Sub == "other-round" || e.Sub == "noop" {
				break
			}
			v := t.views[e.View-1]
			if v.H != cur.hr.H || v.R != cur.hr.R {
				// A bare jump-ahead signal prepared for an earlier round of this height still
				// names a round: if that is later than the round the machine is in now, the
				// machine follows it (handleJumpAhead goes by the named round alone).
				if v.JumpOnly && v.H == cur.hr.H && v.JumpRound > cur.hr.R {
					if cur.jumpSeq == 0 {
						cur.jumpSeq = e.Seq
					}
					if v.JumpRound > cur.jumpTo {
						cur.jumpTo = v.JumpRound
					}
				}
				break
			}
			cur.views = append(cur.views, &e2OView{v: v, offerSeq: e.Seq})
			if v.JumpRound != 0 {
				if cur.jumpSeq == 0 {
					cur.jumpSeq = e.Seq
				}
				if v.JumpRound > cur.jumpTo {
					cur.jumpTo = v.JumpRound
				}
			}

		case e2kViewAccept:
			if cur == nil {
				break
			}
			for _, ov := range cur.views {
				if ov.v.ID == e.View && ov.acceptSeq == 0 {
					ov.acceptSeq = e.Seq
				}
			}

		case e2kTimerStart:
			if wantC12 {
				for _, ts := range timerOf(e.Inst) {
					add(e.Seq, "C12:two-timers-outstanding", "%s timer #%d for %d/%d started while %s timer #%d for %d/%d is outstanding",
						e.Sub, e.ID, e.H, e.R, ts.Sub, ts.ID, ts.H, ts.R)
				}
				t.judged["D1"]++
			}
			timers[e.ID] = e
			everStarted[e2TimerKey(e)] = true
			delete(harnessFired, e2TimerKey(e))
		case e2kTimerCancel:
			delete(timers, e.ID)
		case e2kTimerFire:
			delete(timers, e.ID)
			harnessFired[e2TimerKey(e)] = true
			if rs := rounds[[3]uint64{uint64(e.Inst), e.H, uint64(e.R)}]; rs != nil {
				if _, ok := rs.fired[e.Sub]; !ok {
					rs.fired[e.Sub] = e.Seq
				}
			}
		case e2kQuitStep:
			if wantC12 {
				t.c12QuitStep(e, timerOf(e.Inst), everStarted, harnessFired, add)
			}
		case e2kStop:
			for id, ts := range timers {
				if ts.Inst == e.Inst {
					delete(timers, id)
				}
			}

		case e2kHCommitted:
			if cur != nil {
				cur.hcSeq = e.Seq
			}

		case e2kHoldStart:
			if cur != nil {
				cur.holdOpen++
			}
		case e2kHoldEnd:
			if cur != nil {
				cur.holdOpen--
				cur.holdEndSeq = e.Seq
			}

		case e2kStratCall:
			if !wantC08 || cur == nil {
				break
			}
			t.judged["strategy-call."+e.Sub]++
			if t.c07 != nil {
				t.c07Shown(e, rounds[[3]uint64{uint64(e.Inst), e.H, uint64(e.R)}], add)
			}
			if e.Sub == "enter" {
				if e.H != cur.hr.H || e.R != cur.hr.R {
					add(e.Seq, "C08:R7:enter-round-names-other-round", "EnterRound for %d/%d while in %d/%d", e.H, e.R, cur.hr.H, cur.hr.R)
				}
				break
			}
			// The call is attributed to the round in which the machine handed the request to its
			// consensus manager (exact: the harness drains the manager before it answers a round
			// entrance). The strategy may run it after the machine left that round; the text does not
			// say whether such a call still "refers to the round it is in", so that is only counted.
			real := cur
			cur := rounds[[3]uint64{uint64(e.Inst), e.H, uint64(e.R)}]
			if cur == nil {
				t.unjudged["R7.strategy-call-without-round"]++
				break
			}
			if cur != real {
				t.unjudged["R7.strategy-call-executed-after-round-was-left"]++
			}
			switch e.Sub {
			case "consider", "choose":
				t.checkPHArgs(e, cur, ownSaved, add)
				if e.Sub == "choose" {
					cur.chooseCalls++
					if cur.chooseCalls > 1 {
						add(e.Seq, "C08:R8:choose-proposed-block-called-twice-in-round", "ChooseProposedBlock called %d times in %d/%d", cur.chooseCalls, cur.hr.H, cur.hr.R)
					}
					_, fired := cur.fired["proposal"]
					pvq := false
					for _, ov := range cur.views {
						if ov.offerSeq < e.Seq && ov.v != nil && !ov.v.JumpOnly && t.facts(ov.v).pvQ != nil {
							pvq = true
						}
					}
					if !fired && !pvq {
						add(e.Seq, "C08:R8:choose-proposed-block-without-timeout-or-prevote-quorum",
							"ChooseProposedBlock in %d/%d although the proposal timer was not fired and no prevote quorum was shown", cur.hr.H, cur.hr.R)
					}
				}
			case "decide":
				cur.decideCalls++
				if cur.decideCalls > 1 {
					add(e.Seq, "C08:R5:decide-precommit-requested-twice", "DecidePrecommit called %d times in %d/%d", cur.decideCalls, cur.hr.H, cur.hr.R)
				}
				trig := ""
				match := false
				vs := t.strat.callVS[e.ID]
				for _, ov := range cur.views {
					if ov.offerSeq > e.Seq || ov.v == nil || ov.v.JumpOnly {
						continue
					}
					f := t.facts(ov.v)
					if f.pvQ != nil {
						trig = "prevote-quorum"
					} else if f.pcThird && trig == "" {
						trig = "one-third-precommits"
					}
					if e2SameVS(vs, ov.v.VS) {
						match = true
					}
				}
				if _, ok := cur.fired["prevote-delay"]; ok && trig == "" {
					trig = "prevote-delay"
				}
				if trig == "" {
					add(e.Seq, "C08:R5:decide-precommit-requested-without-trigger",
						"DecidePrecommit in %d/%d although no prevote quorum, no elapsed prevote delay and less than 1/3 precommits were shown", cur.hr.H, cur.hr.R)
				}
				if !match {
					add(e.Seq, "C08:R7:decide-precommit-summary-not-from-current-round",
						"DecidePrecommit in %d/%d got a vote summary that equals no view delivered for that round", cur.hr.H, cur.hr.R)
				}
			}

		case e2kStratRet:
			if !e.OK || e.Sub == "enter" {
				break
			}
			rs := rounds[[3]uint64{uint64(e.Inst), e.H, uint64(e.R)}]
			if rs == nil {
				break
			}
			m := rs.pvAnswers
			if e.Sub == "decide" {
				m = rs.pcAnswers
			}
			if _, ok := m[e.Hash]; !ok {
				m[e.Hash] = e.Seq
			}

		case e2kAction:
			rs := rounds[[3]uint64{uint64(e.Inst), e.H, uint64(e.R)}]
			if rs == nil {
				break
			}
			if e.Sub == "proposal" {
				rs.ownPHs[e.Hash] = true
				if t.c07 != nil {
					t.judged["C07.own-proposal"]++
					if strings.Contains(e.Note, " valset=other") {
						add(e.Seq, "C07:statemachine:own-proposal-names-other-validator-set",
							"the state machine proposed a header at height %d whose ValidatorSet is not the set the driver returned when finalizing height %d (genesis set for the first two heights)", e.H, int64(e.H)-2)
					}
					if strings.Contains(e.Note, " nextvalset=other") {
						add(e.Seq, "C07:statemachine:own-proposal-names-other-next-validator-set",
							"the state machine proposed a header at height %d whose NextValidatorSet is not the set the driver returned when finalizing height %d", e.H, int64(e.H)-1)
					}
					if i := strings.Index(e.Note, " "); i >= 0 {
						e.Note = e.Note[:i]
					}
				}
			}
			if !wantC08 {
				break
			}
			rs.emitted[e.Sub]++
			t.judged["action."+e.Sub]++
			if rs.emitted[e.Sub] > 1 {
				add(e.Seq, "C08:R4:second-"+e.Sub+"-emitted-in-round", "%d %ss emitted in %d/%d", rs.emitted[e.Sub], e.Sub, e.H, e.R)
			}
			switch e.Sub {
			case "prevote", "precommit":
				m := rs.pvAnswers
				if e.Sub == "precommit" {
					m = rs.pcAnswers
				}
				if s, ok := m[e.Hash]; !ok || s > e.Seq {
					add(e.Seq, "C08:R4:"+e.Sub+"-target-not-chosen-by-strategy-in-this-round",
						"%s for %s emitted in %d/%d, but the strategy gave no such answer to a call made in that round", e.Sub, e2hexOrNil(e.Hash), e.H, e.R)
				}
				want := e2VoteContent(e.Sub, e.H, e.R, e.Hash)
				if e.Content != want {
					add(e.Seq, "C08:R7:"+e.Sub+"-sign-content-not-for-current-round", "sign content %q, expected %q", e.Content, want)
				} else if !ed25519.Verify(t.pub, []byte(e.Content), []byte(e.Sig)) {
					add(e.Seq, "C08:R7:"+e.Sub+"-signature-does-not-verify", "signature over %q does not verify", e.Content)
				}
			case "proposal":
				if e.Note != fmt.Sprintf("ph=%d/%d", e.H, e.R) {
					add(e.Seq, "C08:R7:proposal-for-other-round", "proposed header %s emitted in %d/%d", e.Note, e.H, e.R)
				}
			}

		case e2kFinReq:
			if !wantC08 || cur == nil {
				break
			}
			t.judged["R1"]++
			if cur.resp == "ch" {
				if e.Hash != cur.chHash {
					add(e.Seq, "C08:R1:finalize-request-differs-from-committed-header", "catch-up in %d/%d: asked to finalize %s, mirror supplied %s",
						cur.hr.H, cur.hr.R, e2hex(e.Hash), e2hex(cur.chHash))
				}
				t.judged["R1.catchup"]++
				break
			}
			ok := false
			for _, ov := range cur.views {
				if ov.offerSeq < e.Seq && ov.v != nil && !ov.v.JumpOnly {
					if q := t.facts(ov.v).pcQ; q != nil && *q != "" && *q == e.Hash {
						ok = true
					}
				}
			}
			if !ok {
				add(e.Seq, "C08:R1:finalize-request-without-precommit-quorum",
					"asked the driver to finalize %s in %d/%d; no view delivered for that round shows more than 2/3 precommit power for it", e2hex(e.Hash), cur.hr.H, cur.hr.R)
			}

		case e2kQuiesce:
			if cur == nil || e.Note != "" || cur.resp != "vrv" {
				if cur != nil {
					t.unjudged["quiesce.replay-or-deaf"]++
				}
				break
			}
			lv := cur.lastAccepted(e.Seq)
			if lv == nil {
				break
			}
			f := t.facts(lv.v)
			armed := timerOf(e.Inst)
			t.states[t.abstract(cur, f, armed)] = struct{}{}
			if wantC08 {
				t.r5Absence(cur, e, add)
			}
			if t.c07 != nil {
				t.c07Withheld(cur, e, add)
			}
			if wantC12 {
				t.c12Armed(cur, f, armed, e, add)
			}
			cur.lastQuiesce = e.Seq
			cur.rests = append(cur.rests, e.Seq)
		}
	}
	return out
}

func e2SameVS(a, b tmconsensus.VoteSummary) bool {
	eq := func(x, y map[string]uint64) bool {
		// entries with zero power carry no information
		for k, v := range x {
			if v != 0 && y[k] != v {
				return false
			}
		}
		for k, v := range y {
			if v != 0 && x[k] != v {
				return false
			}
		}
		return true
	}
	return a.AvailablePower == b.AvailablePower && a.TotalPrevotePower == b.TotalPrevotePower && a.TotalPrecommitPower == b.TotalPrecommitPower &&
		eq(a.PrevoteBlockPower, b.PrevoteBlockPower) && eq(a.PrecommitBlockPower, b.PrecommitBlockPower)
}

// roundLeftCause names the permitted reason for leaving round rs before seq, or "".
func (t *e2Trace) roundLeftCause(rs *e2RS, seq uint64) string {
	if rs.resp != "vrv" {
		// a replayed height is not left for another round of the same height by the machine's own decision
		return ""
	}
	if rs.jumpSeq != 0 && rs.jumpSeq < seq {
		return "jump-ahead"
	}
	if s, ok := rs.fired["precommit-delay"]; ok && s < seq {
		return "precommit-delay-timeout"
	}
	for _, ov := range rs.views {
		if ov.offerSeq > seq || ov.v == nil || ov.v.JumpOnly {
			continue
		}
		f := t.facts(ov.v)
		if f.pcQ != nil && *f.pcQ == "" {
			return "nil-precommit-quorum"
		}
		if f.pcAll && f.pcQ == nil {
			return "fully-voted-without-quorum"
		}
	}
	return ""
}

func (t *e2Trace) checkPHArgs(e *e2Ev, cur *e2RS, ownSaved map[e2HR]map[string]bool, add func(uint64, string, string, ...any)) {
	known := map[string]bool{}
	for _, ov := range cur.views {
		if ov.offerSeq < e.Seq && ov.v != nil {
			for _, h := range ov.v.PHs {
				known[h] = true
			}
		}
	}
	maps.Copy(known, ownSaved[cur.hr]) // the machine's own proposal for this round (possibly of an earlier run on the same stores)
	for _, ph := range t.strat.callPHs[e.ID] {
		if ph.Header.Height != cur.hr.H || ph.Round != cur.hr.R {
			add(e.Seq, "C08:R7:"+e.Sub+"-names-other-round", "%s in %d/%d was given a proposed header for %d/%d", e.Sub, cur.hr.H, cur.hr.R, ph.Header.Height, ph.Round)
		}
		if !known[string(ph.Header.Hash)] {
			add(e.Seq, "C08:R8:"+e.Sub+"-with-header-not-from-delivered-view", "%s in %d/%d was given header %s that no delivered view of the round contains",
				e.Sub, cur.hr.H, cur.hr.R, e2hex(string(ph.Header.Hash)))
		}
	}
}

// r5Absence: "asks it for its precommit exactly once, as soon as a prevote quorum
// is visible, the prevote delay elapses, or precommits from at least one third of
// the power are seen" -- judged at rest, i.e. after the trigger was delivered and
// the machine handled further (no-op) events without leaving the round.
func (t *e2Trace) r5Absence(cur *e2RS, q *e2Ev, add func(uint64, string, string, ...any)) {
	if cur.decideCalls > 0 || cur.r5Reported {
		return
	}
	trig := ""
	var trigSeq uint64
	phase := ""
	for _, ov := range cur.views {
		if ov.acceptSeq == 0 || ov.acceptSeq > q.Seq || ov.v == nil || ov.v.JumpOnly {
			continue
		}
		f := t.facts(ov.v)
		if f.pcQ != nil || f.pcAll {
			// the round is decided (block or nil quorum, or fully voted): the text does not say
			// whether the local precommit is still owed. Not judged.
			t.unjudged["R5.round-already-decided"]++
			return
		}
		if trig == "" {
			if f.pvQ != nil {
				trig, trigSeq = "prevote-quorum", ov.acceptSeq
			} else if f.pcThird {
				trig, trigSeq = "one-third-precommits", ov.acceptSeq
			}
		}
	}
	if s, ok := cur.fired["prevote-delay"]; ok && s < q.Seq && (trig == "" || s < trigSeq) {
		trig, trigSeq = "prevote-delay", s
	}
	if trig == "" {
		return
	}
	if cur.holdOpen > 0 || cur.holdEndSeq > trigSeq {
		t.unjudged["R5.late-strategy-answer-in-window"]++
		return
	}
	// Observable step of the machine just before the trigger arrived. It is only known if
	// everything that changes it was delivered before the last point of rest preceding the trigger.
	var q0 uint64
	for _, s := range cur.rests {
		if s < trigSeq && s > q0 {
			q0 = s
		}
	}
	if q0 == 0 {
		q0 = cur.entSeq + 1 // nothing but the entrance view before the trigger
	}
	step := "awaiting-proposal"
	undetermined := false
	pvBefore := false
	mark := func(s uint64, to string) {
		if s >= trigSeq {
			return
		}
		if s > q0 {
			undetermined = true
			return
		}
		step = to
	}
	for _, s := range cur.pvAnswers {
		if s < trigSeq {
			pvBefore = true
		}
		mark(s, "awaiting-prevotes")
	}
	if s, ok := cur.fired["proposal"]; ok {
		mark(s, "awaiting-prevotes")
	}
	for _, ov := range cur.views {
		if ov.acceptSeq != 0 && ov.v != nil && !ov.v.JumpOnly && t.facts(ov.v).pvTotalQ {
			mark(ov.acceptSeq, "in-prevote-delay")
		}
	}
	if trig == "prevote-delay" {
		step, undetermined = "in-prevote-delay", false
	}
	if undetermined {
		t.unjudged["R5.step-before-trigger-undetermined"]++
		return
	}
	t.judged["R5.absence"]++
	if pvBefore {
		phase = "the strategy had already chosen the prevote"
	} else {
		phase = "no prevote had been chosen yet"
	}
	cur.r5Reported = true
	add(q.Seq, "C08:R5:decide-precommit-not-requested-after-"+trig+":seen-"+step,
		"in %d/%d the trigger (%s) was delivered at seq %d while the machine was, by what it had been shown, %s (%s); it came to rest at seq %d still in the round, undecided, and DecidePrecommit was never requested",
		cur.hr.H, cur.hr.R, trig, trigSeq, step, phase, q.Seq)
}

// -------------------------------------------------------------------- C12 ----

// c12Armed: "one is armed exactly while it waits in a timed step (awaiting a
// proposal, prevote delay, precommit delay, commit wait)". The step is derived
// from observables only; where they do not determine it, nothing is judged.
func (t *e2Trace) c12Armed(cur *e2RS, f e2VF, armed []*e2Ev, q *e2Ev, add func(uint64, string, string, ...any)) {
	firedBefore := func(kind string) bool {
		s, ok := cur.fired[kind]
		return ok && s < q.Seq
	}
	if cur.holdOpen > 0 {
		t.unjudged["D3.hold-open"]++
		return
	}
	want := ""
	step := ""
	switch {
	case f.pcQ != nil && *f.pcQ == "", f.pcAll && f.pcQ == nil:
		t.unjudged["D3.round-over"]++
		return
	case f.pcQ != nil:
		step = "commit-wait"
		if firedBefore("commit-wait") || (cur.hcSeq != 0 && cur.hcSeq < q.Seq) {
			want = "none"
			step = "after-commit-wait"
		} else {
			want = "commit-wait"
		}
	case f.pcTotalQ:
		if firedBefore("precommit-delay") {
			t.unjudged["D3.round-over"]++
			return
		}
		want, step = "precommit-delay", "precommit-delay"
	case f.pcThird:
		// whether a machine that saw 1/3 precommits is still in a prevote step depends on the order of arrival
		t.unjudged["D3.one-third-precommits"]++
		return
	case f.pvQ != nil:
		want, step = "none", "awaiting-precommits"
	case f.pvTotalQ:
		if firedBefore("prevote-delay") {
			want, step = "none", "after-prevote-delay"
		} else {
			want, step = "prevote-delay", "prevote-delay"
		}
	default:
		chosen := false
		for _, s := range cur.pvAnswers {
			if s < q.Seq {
				chosen = true
			}
		}
		if firedBefore("proposal") || chosen {
			want, step = "none", "awaiting-prevotes"
		} else {
			want, step = "proposal", "awaiting-proposal"
		}
	}
	t.judged["D3."+step]++
	if want != "none" {
		found := false
		for _, ts := range armed {
			if ts.Sub == want && ts.H == cur.hr.H && ts.R == cur.hr.R {
				found = true
			}
		}
		if !found {
			add(q.Seq, "C12:no-"+want+"-timer-armed-while-in-"+step,
				"at rest in %d/%d, observable step %s, but no %s timer is outstanding (outstanding: %s)", cur.hr.H, cur.hr.R, step, want, e2TimerList(armed))
		}
	}
	for _, ts := range armed {
		if ts.Sub != want {
			add(q.Seq, "C12:"+ts.Sub+"-timer-armed-while-in-"+step,
				"at rest in %d/%d, observable step %s, but a %s timer (#%d for %d/%d) is outstanding", cur.hr.H, cur.hr.R, step, ts.Sub, ts.ID, ts.H, ts.R)
		}
	}
}

func e2TimerKey(e *e2Ev) string { return fmt.Sprintf("%d/%s/%d/%d", e.Inst, e.Sub, e.H, e.R) }

// c12QuitStep judges the one place where the state machine itself says which step it is
// waiting in: the shutdown line of its main loop, written between two events. A timed step
// needs its timer outstanding at the timer boundary, any other step needs none. A timer the
// harness has fired is not judged (the machine may not have read the elapsed channel yet).
func (t *e2Trace) c12QuitStep(e *e2Ev, armed []*e2Ev, everStarted, harnessFired map[string]bool, add func(uint64, string, string, ...any)) {
	want, ok := map[string]string{
		"AwaitingProposal": "proposal", "PrevoteDelay": "prevote-delay", "PrecommitDelay": "precommit-delay", "CommitWait": "commit-wait",
		"AwaitingPrevotes": "none", "AwaitingPrecommits": "none", "AwaitingFinalization": "none",
	}[e.Sub]
	if !ok {
		t.unjudged["D4.unknown-step-name"]++
		return
	}
	key := fmt.Sprintf("%d/%s/%d/%d", e.Inst, want, e.H, e.R)
	if want != "none" && harnessFired[key] {
		t.unjudged["D4.timer-fired-not-yet-consumed"]++
		return
	}
	t.judged["D4."+e.Sub]++
	if want != "none" {
		found := false
		for _, ts := range armed {
			if ts.Sub == want && ts.H == e.H && ts.R == e.R {
				found = true
			}
		}
		if !found {
			how := "never started one for this round"
			if everStarted[key] {
				how = "cancelled the one it had started"
			}
			add(e.Seq, "C12:no-"+want+"-timer-armed-while-in-step-reported-at-shutdown:"+e.Sub,
				"on shutdown the state machine reported that it was waiting in %d/%d in step %s, but no %s timer is outstanding (it %s; outstanding: %s)", e.H, e.R, e.Sub, want, how, e2TimerList(armed))
		}
		return
	}
	for _, ts := range armed {
		if harnessFired[e2TimerKey(ts)] {
			continue
		}
		add(e.Seq, "C12:"+ts.Sub+"-timer-armed-while-in-step-reported-at-shutdown:"+e.Sub,
			"on shutdown the state machine reported that it was waiting in %d/%d in step %s, but a %s timer (#%d for %d/%d) is outstanding", e.H, e.R, e.Sub, ts.Sub, ts.ID, ts.H, ts.R)
	}
}

func e2TimerList(armed []*e2Ev) string {
	if len(armed) == 0 {
		return "none"
	}
	s := ""
	for _, ts := range armed {
		s += fmt.Sprintf("%s#%d(%d/%d) ", ts.Sub, ts.ID, ts.H, ts.R)
	}
	return s
}

// abstract renders the abstract state of the machine at rest, from observables.
func (t *e2Trace) abstract(cur *e2RS, f e2VF, armed []*e2Ev) string {
	b := func(x bool) int {
		if x {
			return 1
		}
		return 0
	}
	tk := "none"
	if len(armed) > 0 {
		tk = armed[0].Sub
	}
	pcq := "-"
	if f.pcQ != nil {
		pcq = "blk"
		if *f.pcQ == "" {
			pcq = "nil"
		}
	}
	pvq := "-"
	if f.pvQ != nil {
		pvq = "blk"
		if *f.pvQ == "" {
			pvq = "nil"
		}
	}
	h := cur.hr.H
	if h > 3 {
		h = 3
	}
	r := cur.hr.R
	if r > 2 {
		r = 2
	}
	_, fp := cur.fired["proposal"]
	return fmt.Sprintf("h%d r%d t=%s pvq=%s pvT=%d pcq=%s pcT=%d pc3=%d pvAns=%d dec=%d em=%d%d%d fp=%d",
		h, r, tk, pvq, b(f.pvTotalQ), pcq, b(f.pcTotalQ), b(f.pcThird), b(len(cur.pvAnswers) > 0), cur.decideCalls,
		cur.emitted["proposal"], cur.emitted["prevote"], cur.emitted["precommit"], b(fp))
}

// -------------------------------------------------------------------- C02 ----

func (t *e2Trace) judgeC02() (out []e2Finding) {
	type key struct {
		kind string
		h    uint64
		r    uint32
	}
	type signed struct {
		content string
		sig     string
		inst    int
		seq     uint64
		hash    string
	}
	signs := map[key][]signed{}
	saved := map[string]uint64{}     // kind|sig -> seq of the first successful (persisting) save
	savedHash := map[string]string{} // kind|sig -> target the signature was recorded for
	visible := map[string]uint64{}   // kind|sig -> seq at which the signature became durable or left the machine
	reported := map[key]bool{}
	for i := range t.evs {
		e := &t.evs[i]
		switch e.K {
		case e2kSign:
			if !e.OK {
				break
			}
			k := key{e.Sub, e.H, e.R}
			t.judged["sign."+e.Sub]++
			dup := false
			for _, s := range signs[k] {
				if s.content == e.Content {
					dup = true
				}
			}
			if dup {
				// signing the identical content again is not equivocation (ed25519 is deterministic)
				t.judged["resigned-identical-content."+e.Sub]++
				break
			}
			for _, p := range signs[k] {
				if reported[k] {
					break
				}
				if _, ok := visible[e.Sub+"|"+p.sig]; !ok {
					// the earlier signature was neither stored nor released (lost in a crash between
					// signing and saving): whether that counts as "signed" is not decided by the text.
					t.unjudged["second-signature-after-first-was-lost-before-save."+e.Sub]++
					continue
				}
				where := "in-one-run"
				if p.inst != e.Inst {
					where = "after-restart"
				}
				reported[k] = true
				out = append(out, e2Finding{Seq: e.Seq, Key: "C02:second-" + e.Sub + "-signed-" + where,
					What: fmt.Sprintf("the validator key signed a second, different %s for %d/%d: first %s (instance %d, seq %d, stored or released), now %s (instance %d, seq %d)",
						e.Sub, e.H, e.R, e2hexOrNil(p.hash), p.inst, p.seq, e2hexOrNil(e.Hash), e.Inst, e.Seq)})
			}
			signs[k] = append(signs[k], signed{e.Content, e.Sig, e.Inst, e.Seq, e.Hash})
		case e2kASaveOut:
			if e.OK {
				k := e.Sub + "|" + e.Sig
				if _, ok := saved[k]; !ok {
					saved[k] = e.Seq
					savedHash[k] = e.Hash
				}
				if _, ok := visible[k]; !ok {
					visible[k] = e.Seq
				}
			}
		case e2kAction:
			if e.Sub == "empty" {
				break
			}
			k := e.Sub + "|" + e.Sig
			if _, ok := visible[k]; !ok {
				visible[k] = e.Seq
			}
			t.judged["released."+e.Sub]++
			if s, ok := saved[k]; !ok || s > e.Seq {
				out = append(out, e2Finding{Seq: e.Seq, Key: "C02:" + e.Sub + "-released-before-recorded-in-action-store",
					What: fmt.Sprintf("%s signature %s for %d/%d arrived on the actions channel at seq %d; no earlier successful ActionStore save of these bytes (first save seq: %d)",
						e.Sub, e2hex(e.Sig), e.H, e.R, e.Seq, s)})
			} else if h, ok := savedHash[k]; ok && (e.Sub == "prevote" || e.Sub == "precommit") && h != e.Hash {
				// what is released must be what was recorded: the same signature handed on as a
				// vote for another target is a second, different vote in the eyes of everybody else
				out = append(out, e2Finding{Seq: e.Seq, Key: "C02:" + e.Sub + "-released-for-other-target-than-recorded",
					What: fmt.Sprintf("%s signature %s for %d/%d was recorded in the action store as a vote for %s and released to the mirror as a vote for %s",
						e.Sub, e2hex(e.Sig), e.H, e.R, e2hexOrNil(h), e2hexOrNil(e.Hash))})
			}
		}
	}
	return out
}

// -------------------------------------------------------------------- C07 ----

// c07Shown: "the set the state machine proposes and votes with at h+2 is exactly what the
// driver returned when finalizing h" seen at the strategy boundary: every proposed header the
// machine lets its consensus strategy vote on must name the prescribed validator set of its
// height and the prescribed next set. rs is the round the call names (may be nil).
func (t *e2Trace) c07Shown(e *e2Ev, rs *e2RS, add func(uint64, string, string, ...any)) {
	var phs []tmconsensus.ProposedHeader
	switch e.Sub {
	case "consider", "choose":
		phs = t.strat.callPHs[e.ID]
	default:
		// EnterRound is handed the round view as the mirror sent it (informational: the strategy
		// cannot vote from there); the votes are chosen in Consider/ChooseProposedBlock(s).
		return
	}
	for _, ph := range phs {
		if rs != nil {
			if rs.shown == nil {
				rs.shown = map[string]bool{}
			}
			rs.shown[string(ph.Header.Hash)] = true
		}
		t.judged["C07.header-shown-to-strategy"]++
		h := ph.Header.Height
		if !ph.Header.ValidatorSet.Equal(t.c07.vsetAt(h)) {
			add(e.Seq, "C07:statemachine:strategy-given-header-with-other-validator-set:"+e.Sub,
				"%s for %d/%d handed the strategy header %s whose ValidatorSet is not the set prescribed for height %d", e.Sub, e.H, e.R, e2hex(string(ph.Header.Hash)), h)
		}
		if !ph.Header.NextValidatorSet.Equal(t.c07.vsetAt(h + 1)) {
			add(e.Seq, "C07:statemachine:strategy-given-header-with-other-next-validator-set:"+e.Sub,
				"%s for %d/%d handed the strategy header %s whose NextValidatorSet is not the set prescribed for height %d", e.Sub, e.H, e.R, e2hex(string(ph.Header.Hash)), h+1)
		}
	}
}

// c07Withheld is the converse, judged at rest: a header naming exactly the prescribed sets (and
// the right application state) that reached the machine while it was still waiting for a
// proposal must have been handed to the strategy. A machine that works with another set than
// the prescribed one filters every honest proposal out and never says so.
// Judged only where the harness's observables determine that the machine was awaiting a
// proposal when the header arrived: live round, no strategy answer and no proposal timeout
// before, no view so far with one third or more precommit power, no held strategy call.
func (t *e2Trace) c07Withheld(cur *e2RS, q *e2Ev, add func(uint64, string, string, ...any)) {
	if cur.c07Reported || cur.resp != "vrv" || cur.hr.H == 0 {
		return
	}
	if cur.firstOfInst && cur.inst > 1 {
		// resumed after a restart: the machine may have voted in this round before
		t.unjudged["C07.withheld.round-resumed-after-restart"]++
		return
	}
	if cur.hr.H > t.initH && t.c07.invented[cur.hr.H-1] {
		t.unjudged["C07.withheld.previous-height-invented"]++
		return
	}
	if cur.holdOpen > 0 || cur.holdEndSeq != 0 {
		t.unjudged["C07.withheld.held-strategy-call"]++
		return
	}
	for _, ov := range cur.views {
		if ov.acceptSeq == 0 || ov.acceptSeq > q.Seq || ov.v == nil || ov.v.JumpOnly {
			continue
		}
		f := t.facts(ov.v)
		if f.pcThird || f.pcTotalQ || f.pcQ != nil || f.pcAll {
			return // from here on the machine need not look at proposals any more
		}
		if ov.offerSeq == ov.acceptSeq && f.pvQ != nil {
			return // a round entered with a prevote quorum already visible starts by awaiting precommits
		}
		for _, s := range cur.pvAnswers {
			if s < ov.acceptSeq {
				return
			}
		}
		if s, ok := cur.fired["proposal"]; ok && s < ov.acceptSeq {
			return
		}
		if cur.jumpSeq != 0 && cur.jumpSeq <= ov.acceptSeq {
			return
		}
		for _, hash := range ov.v.PHs {
			b := t.c07.blocks[hash]
			if b == nil || !b.acceptable || b.badVals || b.ph.Header.Height != cur.hr.H || b.ph.Round != cur.hr.R {
				continue
			}
			t.judged["C07.withheld"]++
			if !cur.shown[hash] {
				cur.c07Reported = true
				add(q.Seq, "C07:statemachine:header-with-prescribed-validator-sets-withheld-from-strategy",
					"in %d/%d the view accepted at seq %d carried header %s, which names the validator sets prescribed for heights %d and %d and the right application state, while the machine was awaiting a proposal; at rest (seq %d) no ConsiderProposedBlocks or ChooseProposedBlock call of that round had been given it",
					cur.hr.H, cur.hr.R, ov.acceptSeq, e2hex(hash), cur.hr.H, cur.hr.H+1, q.Seq)
				return
			}
		}
		if f.pvQ != nil || f.pvTotalQ {
			return // this view ended the wait for a proposal (choose / prevote delay)
		}
	}
}
