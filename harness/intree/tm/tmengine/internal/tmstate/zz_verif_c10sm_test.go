//go:build verif

package tmstate_test

// C10, state-machine half: restart on the same stores resumes without loss or
// regression. Engine E2 in "planned" mode: everything the harness does in a
// round (candidate blocks, growth of the votes, what ends the round, strategy
// answers, driver answers) is a pure function of (history seed, height, round),
// so an interrupted run can go on with exactly the history the uninterrupted
// run had, and the two are comparable.
//
// Crash points (enumerated per history): after every driver event, and the two
// positions around every single write to the ActionStore, the FinalizationStore
// and the StateMachineStore (persisted but the writer never returns; writer
// frozen before persisting).

import (
	"context"
	"fmt"
	"math/rand/v2"
	"sort"
	"strings"
	"sync/atomic"
	"testing"

	"github.com/gordian-engine/gordian/internal/verifkit"
	"github.com/gordian-engine/gordian/tm/tmengine/internal/tmeil"
)

const (
	c10MaxHeight = 3
	c10MaxEvents = 160
)

type c10Step struct {
	ph bool
	pv map[int]string // validator index -> target ("" = nil, "fav" = the round's favoured block)
	pc map[int]string
}

// c10RoundPlan is the whole harness-side history of one (height, round).
type c10RoundPlan struct {
	outcome      string // commit | nil | timeout | jump
	steps        []c10Step
	next         int
	timeoutFirst bool // fire the proposal timer before the first step
	respondFirst bool // answer the finalize request before the commit wait ends (else after)
	useHC        bool // end the commit wait by the height-committed signal
	jumped       bool
}

type c10World struct {
	w     *e2World
	seed  uint64
	plans map[e2HR]*c10RoundPlan
}

func c10rng(seed, salt uint64, h uint64, r uint32) *rand.Rand {
	return e2pcg(seed^salt, h<<32|uint64(r))
}

func (c *c10World) plan(rd *e2Round) *c10RoundPlan {
	k := e2HR{rd.h, rd.r}
	if p, ok := c.plans[k]; ok {
		return p
	}
	rng := c10rng(c.seed, 0x5151, rd.h, rd.r)
	n := c.w.cfg.nVals
	p := &c10RoundPlan{}
	switch x := rng.IntN(100); {
	case rd.r >= 2 || x < 58:
		p.outcome = "commit"
	case x < 73:
		p.outcome = "nil"
	case x < 85:
		p.outcome = "timeout"
	default:
		p.outcome = "jump"
	}
	p.timeoutFirst = rng.IntN(5) == 0
	p.respondFirst = rng.IntN(2) == 0
	p.useHC = rng.IntN(4) == 0

	others := make([]int, 0, n-1)
	for i := 1; i < n; i++ {
		others = append(others, i)
	}
	rng.Shuffle(len(others), func(i, j int) { others[i], others[j] = others[j], others[i] })
	pvT := map[int]string{}
	pcT := map[int]string{}
	for k, i := range others {
		switch p.outcome {
		case "commit":
			pvT[i], pcT[i] = "fav", "fav"
			if k == len(others)-1 && n > 4 && rng.IntN(2) == 0 {
				pvT[i] = ""
			}
		case "nil":
			pvT[i], pcT[i] = []string{"fav", ""}[rng.IntN(2)], ""
		case "timeout":
			// > 2/3 precommits present (the others alone hold that), no target above 2/3
			pvT[i] = []string{"fav", ""}[k%2]
			pcT[i] = []string{"fav", ""}[k%2]
		case "jump":
			pvT[i] = []string{"fav", ""}[rng.IntN(2)]
		}
	}
	// chunk the growth into views
	type item struct {
		kind int // 0 ph, 1 prevote, 2 precommit
		idx  int
	}
	var items []item
	items = append(items, item{0, 0})
	for _, i := range others {
		items = append(items, item{1, i})
	}
	if p.outcome != "jump" {
		for _, i := range others {
			items = append(items, item{2, i})
		}
	} else {
		items = items[:1+rng.IntN(len(others))]
	}
	// a few local swaps: precommits may overtake prevotes, votes may precede the proposal
	for s := rng.IntN(4); s > 0; s-- {
		a := rng.IntN(len(items))
		b := a + 1 + rng.IntN(3)
		if b < len(items) {
			items[a], items[b] = items[b], items[a]
		}
	}
	for len(items) > 0 {
		k := 1 + rng.IntN(3)
		if rng.IntN(6) == 0 {
			k = len(items)
		}
		if k > len(items) {
			k = len(items)
		}
		st := c10Step{pv: map[int]string{}, pc: map[int]string{}}
		for _, it := range items[:k] {
			switch it.kind {
			case 0:
				st.ph = true
			case 1:
				st.pv[it.idx] = pvT[it.idx]
			case 2:
				st.pc[it.idx] = pcT[it.idx]
			}
		}
		p.steps = append(p.steps, st)
		items = items[k:]
	}
	c.plans[k] = p
	return p
}

// script: the strategy's behaviour in a round, the same in every run and instance.
func (c *c10World) script(rd *e2Round) *e2Script {
	rng := c10rng(c.seed, 0xa7a7, rd.h, rd.r)
	sc := &e2Script{inst: c.w.inst.n, h: rd.h, r: rd.r}
	if rng.IntN(10) < 7 {
		sc.considerAnswerAt = 1
	}
	if rng.IntN(5) == 0 {
		sc.prevoteRule = e2Rule{mode: e2RuleNil}
	} else {
		sc.prevoteRule = e2Rule{mode: e2RulePH, idx: 0}
	}
	if rng.IntN(10) < 7 {
		sc.precommitRule = e2Rule{mode: e2RuleMostVoted}
	} else {
		sc.precommitRule = e2Rule{mode: e2RuleNil}
	}
	if rng.IntN(10) < 3 {
		sc.propose = true
		sc.dataID = fmt.Sprintf("own_%d_%d", rd.h, rd.r)
	}
	return sc
}

func (c *c10World) pendingFin() bool {
	for _, q := range c.w.finreqs {
		if !q.done && q.inst == c.w.inst.n {
			return true
		}
	}
	return false
}

// event applies the next event of the history. done reports that nothing is left to do.
func (c *c10World) event() (ok bool, done bool) {
	w := c.w
	in := w.inst
	if !w.alive() {
		return false, false
	}
	if in.cur.H > c10MaxHeight {
		return true, true
	}
	rd := w.round(in.cur.H, in.cur.R)
	p := c.plan(rd)
	fav := rd.cands[rd.fav]
	tgt := func(t string) string {
		if t == "fav" {
			return fav.hash
		}
		return t
	}
	switch {
	case p.timeoutFirst && p.next == 0 && len(w.rt.outstanding(in.n)) > 0 && w.rt.outstanding(in.n)[0].kind == "proposal":
		p.timeoutFirst = false
		if !w.evFireTimer() {
			return false, false
		}
	case p.next < len(p.steps):
		st := p.steps[p.next]
		p.next++
		p.timeoutFirst = false
		if st.ph {
			present := false
			for _, d := range rd.delivered {
				if d == fav {
					present = true
				}
			}
			if !present {
				rd.delivered = append(rd.delivered, fav)
			}
		}
		for i, t := range st.pv {
			rd.prevotes[i] = tgt(t)
		}
		for i, t := range st.pc {
			rd.precommits[i] = tgt(t)
		}
		vrv, ov := w.buildVRV(rd, "update")
		if !w.deliver(tmeil.StateMachineRoundView{VRV: vrv}, ov) {
			return false, false
		}
	default:
		// the round's views are all delivered: let it end the way the plan says.
		ts := w.rt.outstanding(in.n)
		fin := c.pendingFin()
		switch {
		case fin && (p.respondFirst || len(ts) == 0):
			if !w.evFinResp() {
				return false, false
			}
		case len(ts) > 0 && ts[0].kind == "commit-wait" && p.useHC && in.hc != nil:
			if !w.evHeightCommitted(rd) {
				return false, false
			}
		case len(ts) > 0:
			if !w.evFireTimer() {
				return false, false
			}
		case fin:
			if !w.evFinResp() {
				return false, false
			}
		case p.outcome == "jump" && !p.jumped:
			p.jumped = true
			ov := &e2View{ID: len(w.views) + 1, Kind: "jump", H: rd.h, R: rd.r, JumpOnly: true, JumpRound: rd.r + 1, PHRound: map[string]e2HR{}}
			w.views = append(w.views, ov)
			jr := w.round(rd.h, rd.r+1)
			jv, _ := w.buildVRV(jr, "jump-target")
			if !w.deliver(tmeil.StateMachineRoundView{JumpAheadRoundView: &jv}, ov) {
				return false, false
			}
		default:
			return true, true // nothing the history still holds for this round
		}
	}
	w.events++
	if !w.quiesce() {
		return false, false
	}
	return true, false
}

type c10Crash struct {
	afterEvent int  // restart after this many events (-1: none)
	write      int  // freeze at this store write (0: none) ...
	after      bool // ... after persisting (else before)
}

func (p c10Crash) String() string {
	switch {
	case p.write > 0 && p.after:
		return fmt.Sprintf("crash-after-persisting-write-%d", p.write)
	case p.write > 0:
		return fmt.Sprintf("crash-before-persisting-write-%d", p.write)
	case p.afterEvent >= 0:
		return fmt.Sprintf("restart-after-event-%d", p.afterEvent)
	}
	return "uninterrupted"
}

type c10Result struct {
	ok        bool // ran to the end of the history with a live machine
	stuck     bool
	events    int
	writes    int
	entrances [][]e2HR // per instance
	fins      map[uint64]string
	restarted bool
}

func (c *c10World) storedFins() map[uint64]string {
	out := map[uint64]string{}
	for h := uint64(1); h <= c10MaxHeight+2; h++ {
		r, hash, vs, app, err := c.w.fStore.inner.LoadFinalizationByHeight(context.Background(), h)
		if err == nil {
			out[h] = e2FinContent(r, hash, vs, app)
		}
	}
	return out
}

func c10FailReason(t *e2Trace, inst int) string {
	lastLog := ""
	for _, e := range t.evs {
		if e.Inst != inst {
			continue
		}
		switch e.K {
		case e2kPanic:
			return e.Note
		case "log":
			lastLog = e.Note
		case e2kExit:
			if e.Err != "" {
				return "kernel-exit:" + verifkit.Normalize(e.Err)
			}
		}
	}
	if lastLog != "" {
		return "kernel-exit:" + verifkit.Normalize(lastLog)
	}
	return "kernel-exit"
}

// c10Run runs the history of (i, seed) with one crash point and judges oracles (1)-(3);
// ref (nil for the uninterrupted run itself) is the result to compare with for (4).
func c10Run(r *verifkit.Run, i int, seed uint64, cfg e2Cfg, crash c10Crash, ref *c10Result, agg *e2Agg) *c10Result {
	caseID := fmt.Sprintf("C10sm/case-%d/%s", i, crash)
	r.BeginCase(caseID)
	cfg.planSeed = seed
	w := newE2World(r, e2pcg(seed, 0xc10), caseID, cfg)
	c := &c10World{w: w, seed: seed, plans: map[e2HR]*c10RoundPlan{}}
	w.scriptFor = c.script
	if crash.write > 0 {
		fz := &e2Freeze{call: crash.write, after: crash.after, hit: make(chan struct{})}
		w.ctl.fz = fz
		w.fzHit = fz.hit
	}
	res := &c10Result{}
	var findings []e2Finding
	add := func(key, format string, a ...any) {
		findings = append(findings, e2Finding{Key: key, What: fmt.Sprintf(format, a...), Seq: w.log.seq.Load()})
	}

	drive := func() (finished bool) {
		for w.events < c10MaxEvents {
			if crash.afterEvent >= 0 && !res.restarted && res.events >= crash.afterEvent {
				return false
			}
			ok, done := c.event()
			if !ok {
				return false
			}
			if done {
				return true
			}
			if !res.restarted {
				res.events++
			}
		}
		return false
	}

	finished := false
	if w.start() {
		finished = drive()
	}
	wantRestart := !finished && !w.wdFired && (w.frozen || (crash.afterEvent >= 0 && w.alive()))
	var finsAtCrash map[uint64]string
	var recorded e2HR
	var recordedSet bool
	if wantRestart {
		res.restarted = true
		w.stopInstance()
		finsAtCrash = c.storedFins()
		if h, rr, err := w.smStore.inner.StateMachineHeightRound(context.Background()); err == nil {
			recorded, recordedSet = e2HR{h, rr}, true
		}
		started := w.restart()
		if pl := c.plans[w.inst.cur]; pl != nil {
			// a jump-ahead message that was in flight when the machine stopped is delivered again
			pl.jumped = false
		}
		if started {
			// a kernel that dies right after start did not start
			w.quiesce()
		}
		if !w.alive() && !w.wdFired && c10TimedSendPanic(w) {
			// the machine died of its 100 ms timed send to the consensus manager (known finding of
			// C09, keyed by that site): whether that happens depends on the wall clock of a loaded
			// machine, not on the stores, so the restart is not judged here.
			agg.mu.Lock()
			agg.counts["unjudged.run-ended-by-timed-send-panic"]++
			agg.mu.Unlock()
		} else if !w.alive() && !w.wdFired {
			tr := w.trace()
			add("C10:statemachine:restart-failed:"+c10FailReason(tr, w.inst.n),
				"after %s the state machine restarted on the same stores did not keep running (first round entrance seen: %v)", crash, started)
		} else if !w.wdFired {
			// (2) the position it resumes in, against what the stores durably hold
			first := w.inst.cur
			if ents := c.entrancesOf(w.inst.n); len(ents) > 0 {
				first = ents[0]
			}
			want := e2HR{w.gen.InitialHeight, 0}
			if recordedSet {
				want = recorded
			}
			if _, ok := finsAtCrash[want.H]; ok {
				want = e2HR{want.H + 1, 0}
			}
			switch {
			case first.H < want.H || (first.H == want.H && first.R < want.R):
				add("C10:statemachine:entered-behind-recorded-position",
					"after %s the stores held position %d/%d (state machine store: %v %d/%d; finalizations stored for heights %v) but the restarted machine entered %d/%d",
					crash, want.H, want.R, recordedSet, recorded.H, recorded.R, c10Heights(finsAtCrash), first.H, first.R)
			case first.H == want.H && first.R > want.R:
				add("C10:statemachine:entered-later-round-than-uninterrupted-run",
					"after %s the stores held position %d/%d (state machine store: %v %d/%d; finalizations stored for heights %v) but the restarted machine entered %d/%d, a round the uninterrupted run only reaches through %d/%d",
					crash, want.H, want.R, recordedSet, recorded.H, recorded.R, c10Heights(finsAtCrash), first.H, first.R, want.H, want.R)
			case first.H > want.H:
				add("C10:statemachine:entered-later-height-than-recorded",
					"after %s the stores held position %d/%d but the restarted machine entered %d/%d", crash, want.H, want.R, first.H, first.R)
			}
			finished = drive()
		}
	}
	res.ok = finished && w.alive()
	res.stuck = !finished
	w.finish()
	res.writes = 0
	if w.ctl != nil {
		res.writes = int(w.ctl.n.Load())
	}
	res.fins = c.storedFins()
	t := w.trace()
	for n := 1; n <= w.instCount; n++ {
		res.entrances = append(res.entrances, c.entrancesOfTrace(t, n))
	}

	// (3) finalizations: never attempted with different content, never changed.
	stored := map[uint64]string{}
	for _, e := range t.evs {
		switch e.K {
		case e2kFSaveIn:
			if old, ok := stored[e.H]; ok {
				if old != e.Content {
					add("C10:statemachine:finalization-overwritten-or-saved-differently",
						"SaveFinalization attempted for height %d with %s, but %s is already stored", e.H, e.Content, old)
				} else {
					t.judged["finalization-saved-again-identical"]++
				}
			}
		case e2kFSaveOut:
			if e.OK {
				if _, ok := stored[e.H]; !ok {
					stored[e.H] = e.Content
				}
			}
		}
	}
	for h, was := range finsAtCrash {
		if now, ok := res.fins[h]; !ok || now != was {
			add("C10:statemachine:finalization-overwritten-or-saved-differently",
				"the finalization stored for height %d before the crash (%s) reads %q at the end of the run", h, was, now)
		}
	}
	for h, first := range stored {
		if now := res.fins[h]; now != first {
			add("C10:statemachine:finalization-overwritten-or-saved-differently",
				"height %d was stored as %s and reads %q at the end of the run", h, first, now)
		}
	}
	// finalize requests re-issued for a stored height: counted only.
	for _, e := range t.evs {
		if e.K == e2kFinReq && e.Inst > 1 {
			var hh uint64
			fmt.Sscanf(e.Note, "header-height=%d", &hh)
			if _, ok := finsAtCrash[hh]; ok {
				t.judged["finalize-request-reissued-for-stored-height"]++
			}
		}
	}

	// (4) same history, same end.
	if ref != nil && res.restarted && len(findings) == 0 && !w.wdFired && c10TimedSendPanic(w) {
		agg.mu.Lock()
		agg.counts["unjudged.run-ended-by-timed-send-panic"]++
		agg.mu.Unlock()
	} else if ref != nil && res.restarted && len(findings) == 0 && !w.wdFired {
		refE := ref.entrances[0]
		post := res.entrances[len(res.entrances)-1]
		okSuffix := false
		if len(post) > 0 {
			for k := range refE {
				if refE[k] == post[0] {
					okSuffix = len(refE)-k == len(post)
					for j := 0; okSuffix && j < len(post); j++ {
						if refE[k+j] != post[j] {
							okSuffix = false
						}
					}
					break
				}
			}
		}
		if !okSuffix || !res.ok {
			add("C10:statemachine:final-position-differs-from-uninterrupted-run",
				"after %s and continuation with the same history the restarted machine entered %v (still running at the end: %v); the uninterrupted run entered %v",
				crash, post, res.ok, refE)
		} else {
			t.judged["same-entrance-suffix"]++
		}
		if !c10SameFins(ref.fins, res.fins) {
			add("C10:statemachine:stored-finalizations-differ-from-uninterrupted-run",
				"after %s and continuation with the same history the finalization store holds %v; after the uninterrupted run it holds %v", crash, res.fins, ref.fins)
		}
	}

	// every vote handed to the mirror, before or after the restart, is the one recorded in the
	// action store for that height, round and kind (same target, same signature)
	{
		type ak struct {
			sub string
			h   uint64
			r   uint32
		}
		saved := map[ak]*e2Ev{}
		for k := range t.evs {
			e := &t.evs[k]
			switch e.K {
			case e2kASaveOut:
				if e.OK && (e.Sub == "prevote" || e.Sub == "precommit") {
					key := ak{e.Sub, e.H, e.R}
					if saved[key] == nil {
						saved[key] = e
					}
				}
			case e2kAction:
				if e.Sub != "prevote" && e.Sub != "precommit" {
					continue
				}
				sv := saved[ak{e.Sub, e.H, e.R}]
				if sv == nil {
					continue // released before recorded is C02's matter
				}
				t.judged["released-vote-compared-with-recorded"]++
				if sv.Hash != e.Hash || sv.Sig != e.Sig {
					add("C10:statemachine:released-vote-differs-from-the-one-recorded",
						"the %s handed to the mirror for %d/%d by instance %d (target %x) is not the one the action store recorded for that round (target %x): a vote persisted before the stop does not come back as it was",
						e.Sub, e.H, e.R, e.Inst, e.Hash, sv.Hash)
				}
			}
		}
	}

	agg.merge(w, t)
	r.Eval(1)
	if res.restarted {
		r.Nontrivial(fmt.Sprintf("%d/%d/%s", seed, i, crash))
	}
	for _, f := range findings {
		r.Violate(f.Key, f.What, caseID, e2Witness(w, t, f, map[string]any{"crash": crash.String(), "history_seed": seed}))
	}
	if ref != nil && r.WantSample() && res.restarted && len(t.evs) < 260 && len(res.entrances) > 1 && len(res.entrances[1]) > 2 {
		je := make([]map[string]any, 0, len(t.evs))
		for _, e := range t.evs {
			je = append(je, e.J())
		}
		r.Sample(map[string]any{"case": caseID, "validators": cfg.nVals, "entrances": fmt.Sprint(res.entrances), "reference_entrances": fmt.Sprint(ref.entrances), "events": je})
	}
	return res
}

// c10TimedSendPanic reports whether a goroutine of the machine under test died of the
// 100 ms timed send in handleProposalViewUpdate ("TODO: handle blocked send to ..."), which C09
// lists as a known finding by site. Its occurrence is decided by the wall clock.
func c10TimedSendPanic(w *e2World) bool {
	w.log.mu.Lock()
	defer w.log.mu.Unlock()
	for _, e := range w.log.evs {
		if e.K == e2kPanic && strings.Contains(e.Err, "TODO: handle blocked send to") {
			return true
		}
	}
	return false
}

func c10Heights(m map[uint64]string) []uint64 {
	hs := make([]uint64, 0, len(m))
	for h := range m {
		hs = append(hs, h)
	}
	sort.Slice(hs, func(i, j int) bool { return hs[i] < hs[j] })
	return hs
}

func c10SameFins(a, b map[uint64]string) bool {
	if len(a) != len(b) {
		return false
	}
	for h, x := range a {
		if b[h] != x {
			return false
		}
	}
	return true
}

func (c *c10World) entrancesOf(inst int) []e2HR { return c.entrancesOfTrace(c.w.trace(), inst) }

func (c *c10World) entrancesOfTrace(t *e2Trace, inst int) []e2HR {
	var out []e2HR
	for _, e := range t.evs {
		if e.K == e2kEntrance && e.Inst == inst {
			out = append(out, e2HR{e.H, e.R})
		}
	}
	return out
}

func c10Case(r *verifkit.Run, i int, agg *e2Agg, runs *atomic.Int64) {
	rng := r.CaseRNG(i)
	cfg := e2Cfg{prop: "C10", planned: true, allCtl: true, participate: true, careful: true}
	cfg.nVals = 4 + rng.IntN(4)
	cfg.powers = make([]uint64, cfg.nVals)
	for k := range cfg.powers {
		if i%2 == 0 {
			cfg.powers[k] = 1
		} else {
			cfg.powers[k] = uint64(100_000 - k)
		}
	}
	seed := rng.Uint64()

	ref := c10Run(r, i, seed, cfg, c10Crash{afterEvent: -1}, nil, agg)
	runs.Add(1)
	if !ref.ok {
		// the uninterrupted run itself did not get through (a panic or wedge that C09 judges): nothing to compare with
		agg.mu.Lock()
		agg.counts["history.uninterrupted-run-did-not-finish"]++
		agg.mu.Unlock()
		return
	}
	agg.mu.Lock()
	agg.counts["history.usable"]++
	agg.counts["history.store-writes"] += int64(ref.writes)
	agg.counts["history.events"] += int64(ref.events)
	agg.mu.Unlock()
	for k := 0; k <= ref.events; k++ {
		c10Run(r, i, seed, cfg, c10Crash{afterEvent: k}, ref, agg)
		runs.Add(1)
	}
	for j := 1; j <= ref.writes; j++ {
		c10Run(r, i, seed, cfg, c10Crash{afterEvent: -1, write: j, after: false}, ref, agg)
		c10Run(r, i, seed, cfg, c10Crash{afterEvent: -1, write: j, after: true}, ref, agg)
		runs.Add(2)
	}
}

// TestVerif_C10_statemachine: see the head of this file.
func TestVerif_C10_statemachine(t *testing.T) {
	r := verifkit.Start("C10")
	if r == nil {
		t.Skip("not started by the /verif driver")
	}
	defer r.Finish()
	r.SetRule("[state machine] Engine E2 in planned mode: a history is a pure function of (seed, height, round): candidate blocks, growth of proposals/prevotes/precommits in 1..n views per round, what ends the round (block commit, nil precommit quorum, precommit-delay timeout, jump-ahead), strategy and driver answers; 4..7 validators; run until height 4 is entered. Each history is run once uninterrupted (reference: entrance sequence, stored finalizations, W store writes, E events) and then once per crash point: a restart after each of the E events, and for each of the W writes to ActionStore/FinalizationStore/StateMachineStore the two positions around it (persisted but never returned; frozen before persisting). After the crash a new StateMachine is built on the same store objects and the same history goes on. Judged: (1) the restarted machine reaches a round entrance and is still running at rest afterwards; (2) its first round entrance is exactly the position the stores hold (StateMachineStore record, or height+1/round 0 if that height's finalization is stored); (3) no SaveFinalization attempt with different content for a stored height, and stored finalizations read the same before the crash and at the end; (4) the entrance sequence after the restart is a suffix of the reference sequence, the machine is still running at the end, and the stored finalizations equal the reference. Non-trivial = distinct (history, crash point) runs in which a restart happened.")

	agg := newE2Agg()
	var runs atomic.Int64
	if i := e2ReplayIndex(r); i >= 0 {
		e2Guarded(r, "replay", func() { c10Case(r, i, agg, &runs) })
		agg.report(r)
		return
	}
	n := r.N(24, 1500)
	r.Parallel(n, func(i int) {
		e2Guarded(r, fmt.Sprintf("C10sm/case-%d", i), func() { c10Case(r, i, agg, &runs) })
	})
	r.Count("histories", int64(n))
	r.Count("runs", runs.Load())
	agg.report(r)
}
