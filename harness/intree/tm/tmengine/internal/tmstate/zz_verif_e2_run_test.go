//go:build verif

package tmstate_test

// E2 case runners shared by TestVerif_C08, TestVerif_C12_discipline and TestVerif_C02.

import (
	"encoding/json"
	"fmt"
	"math/rand/v2"
	"os"
	"regexp"
	"sort"
	"strconv"
	"strings"
	"sync"

	"github.com/gordian-engine/gordian/internal/verifkit"
)

type e2Agg struct {
	mu       sync.Mutex
	states   map[string]struct{}
	panics   map[string]int64
	counts   map[string]int64
	maxH     uint64
	maxR     uint32
	unjudged map[string]int64
	judged   map[string]int64
}

func newE2Agg() *e2Agg {
	return &e2Agg{states: map[string]struct{}{}, panics: map[string]int64{}, counts: map[string]int64{}, unjudged: map[string]int64{}, judged: map[string]int64{}}
}

func (a *e2Agg) merge(w *e2World, t *e2Trace) {
	a.mu.Lock()
	defer a.mu.Unlock()
	for s := range t.states {
		a.states[s] = struct{}{}
	}
	for _, k := range w.panicKeys {
		a.panics[k]++
	}
	for k, v := range w.counts {
		a.counts[k] += v
	}
	for _, e := range t.evs {
		a.counts["trace."+e.K]++
		if e.K == "log" || e.K == e2kExit {
			a.counts["machine-"+e.K+"."+verifkit.Normalize(e.Note+e.Err)]++
		}
	}
	for k, v := range t.unjudged {
		a.unjudged[k] += v
	}
	for k, v := range t.judged {
		a.judged[k] += v
	}
	if t.maxH > a.maxH {
		a.maxH = t.maxH
	}
	if t.maxR > a.maxR {
		a.maxR = t.maxR
	}
}

func (a *e2Agg) report(r *verifkit.Run) {
	a.mu.Lock()
	defer a.mu.Unlock()
	for k, v := range a.counts {
		r.Count(k, v)
	}
	for k, v := range a.unjudged {
		r.Count("unjudged."+k, v)
	}
	for k, v := range a.judged {
		r.Count("judged."+k, v)
	}
	for k, v := range a.panics {
		r.Count("panic."+k, v)
	}
	r.Count("distinct_abstract_states", int64(len(a.states)))
	r.Count("max_height_entered", int64(a.maxH))
	r.Count("max_round_entered", int64(a.maxR))
	if len(a.panics) > 0 {
		ks := make([]string, 0, len(a.panics))
		for k, v := range a.panics {
			ks = append(ks, fmt.Sprintf("%s x%d", k, v))
		}
		sort.Strings(ks)
		r.Note("panics caught in the state machine / consensus manager (counted only; judged by C09): %s", strings.Join(ks, " | "))
	}
}

// witness renders everything needed to re-read a failing trace.
func e2Witness(w *e2World, t *e2Trace, f e2Finding, extra map[string]any) map[string]any {
	evs := t.evs
	// noop views are never logged; the trace is short enough to keep whole, but bound it anyway
	if len(evs) > 1200 {
		evs = evs[len(evs)-1200:]
	}
	je := make([]map[string]any, 0, len(evs))
	for _, e := range evs {
		je = append(je, e.J())
	}
	jv := make([]map[string]any, 0, len(t.views))
	for _, v := range t.views {
		jv = append(jv, v.J())
	}
	m := map[string]any{
		"case": w.caseID,
		"config": map[string]any{
			"validators": w.cfg.nVals, "powers": w.cfg.powers, "participates": w.cfg.participate,
			"quiesce_after_every_event": w.cfg.careful, "late_answers": w.cfg.holds, "block_data": w.cfg.blockData, "catchup": w.cfg.catchup,
		},
		"violation_at_seq": f.Seq,
		"events":           je,
		"views":            jv,
	}
	for k, v := range extra {
		m[k] = v
	}
	return m
}

var e2reCase = regexp.MustCompile(`case-(\d+)`)

// e2ReplayIndex returns the case index named in the witness to replay, or -1.
func e2ReplayIndex(r *verifkit.Run) int {
	if r.Replay == "" {
		return -1
	}
	b, err := os.ReadFile(r.Replay)
	if err != nil {
		return -1
	}
	var wt struct {
		Case string `json:"case"`
	}
	if json.Unmarshal(b, &wt) != nil {
		return -1
	}
	m := e2reCase.FindStringSubmatch(wt.Case)
	if m == nil {
		return -1
	}
	i, _ := strconv.Atoi(m[1])
	return i
}

func e2Digest(t *e2Trace) string {
	var sb strings.Builder
	for _, e := range t.evs {
		switch e.K {
		case e2kQuiesce, e2kViewOffer:
			continue
		}
		fmt.Fprintf(&sb, "%s/%s/%d/%d/%x;", e.K, e.Sub, e.H, e.R, e.Hash)
	}
	return sb.String()
}

// e2RunTrace runs one free-form trace (no restarts) and judges it against C08 and C12(a).
// e2RunTraceWorld runs case i like e2RunTrace and returns the finished world; the trace is
// only used for the non-triviality digest.
func e2RunTraceWorld(r *verifkit.Run, prop string, i int, agg *e2Agg) *e2World {
	rng := r.CaseRNG(i)
	cfg := e2DrawCfg(rng, "C08")
	caseID := fmt.Sprintf("%s/case-%d", prop, i)
	r.BeginCase(caseID)
	w := newE2World(r, rng, caseID, cfg)
	nEv := 15 + rng.IntN(70)
	if w.start() {
		for k := 0; k < nEv && w.step(); k++ {
		}
		w.quiesce()
	}
	w.finish()
	t := w.trace()
	agg.merge(w, t)
	r.Eval(1)
	for _, e := range t.evs {
		if e.K == e2kStratCall && e.Sub != "enter" {
			r.Nontrivial(e2Digest(t))
			break
		}
	}
	return w
}

func e2RunTrace(r *verifkit.Run, prop string, i int, agg *e2Agg, prefix string) {
	rng := r.CaseRNG(i)
	cfg := e2DrawCfg(rng, prop)
	caseID := fmt.Sprintf("%s/case-%d", prop, i)
	r.BeginCase(caseID)
	w := newE2World(r, rng, caseID, cfg)
	nEv := 15 + rng.IntN(70)
	if w.start() {
		for k := 0; k < nEv && w.step(); k++ {
		}
		w.quiesce()
	}
	w.finish()
	t := w.trace()
	fs := t.judge(true, true)
	agg.merge(w, t)
	r.Eval(1)

	nStrat, nTimer := 0, 0
	for _, e := range t.evs {
		switch e.K {
		case e2kStratCall:
			if e.Sub != "enter" {
				nStrat++
			}
		case e2kTimerStart:
			nTimer++
		}
	}
	switch prop {
	case "C08":
		if nStrat > 0 && (t.judged["R1"]+t.judged["R3"]+t.judged["R5.absence"]+t.judged["action.prevote"]+t.judged["action.precommit"]) > 0 {
			r.Nontrivial(e2Digest(t))
		}
	case "C12":
		n := int64(0)
		for k, v := range t.judged {
			if strings.HasPrefix(k, "D3.") {
				n += v
			}
		}
		if nTimer > 0 && n > 0 {
			r.Nontrivial(e2Digest(t))
		}
	}
	for _, f := range fs {
		if !strings.HasPrefix(f.Key, prefix) {
			continue
		}
		r.Violate(f.Key, f.What, caseID, e2Witness(w, t, f, nil))
	}
	if prop == "C12" {
		// The state machine treats the elapse of anything but the timer of its current timed
		// step as a bug and panics: a timer it had cancelled (or one of another round) was
		// still being listened to. That is C12's clause "a cancelled timer never reports
		// elapsed", seen from the consumer's side.
		for _, k := range w.panicKeys {
			if strings.Contains(k, "handleTimerElapsed") {
				r.Violate("C12:state-machine-acted-on-an-elapse-that-is-not-its-step-timer:"+k,
					"the state machine kernel panicked in handleTimerElapsed: "+k, caseID,
					map[string]any{"events": w.tail(80)})
			}
		}
	}
	if r.WantSample() && nStrat > 3 && len(t.evs) < 400 {
		je := make([]map[string]any, 0, len(t.evs))
		for _, e := range t.evs {
			je = append(je, e.J())
		}
		r.Sample(map[string]any{"case": caseID, "validators": cfg.nVals, "powers": cfg.powers, "events": je})
	}
}

func e2Guarded(r *verifkit.Run, id string, fn func()) {
	if p, _, msg, stack := verifkit.Guard(fn); p {
		r.Inconclusive("%s: the harness itself panicked: %s\n%s", id, msg, stack)
	}
}

func e2pcg(a, b uint64) *rand.Rand { return rand.New(rand.NewPCG(a, b)) }
