//go:build verif

package tmstate_test

// E2 state-machine trace engine, part 1: the event trace and every recording
// boundary object (virtual round timer, signer, stores, scripted strategy).
//
// Everything that the real tmstate.StateMachine talks to is one of these
// objects; each of them stamps what it sees with one global sequence number.

import (
	"context"
	"encoding/hex"
	"fmt"
	"runtime"
	"sort"
	"sync"
	"sync/atomic"

	"github.com/gordian-engine/gordian/gcrypto"
	"github.com/gordian-engine/gordian/tm/tmconsensus"
	"github.com/gordian-engine/gordian/tm/tmstore"
	"github.com/gordian-engine/gordian/tm/tmstore/tmmemstore"
)

// ---------------------------------------------------------------- trace ----

const (
	e2kEntrance     = "entrance"      // received on RoundEntranceOutCh
	e2kEntranceResp = "entrance-resp" // harness-mirror answered (Sub vrv|ch)
	e2kViewOffer    = "view-offer"    // harness starts offering a view on the round view channel
	e2kViewAccept   = "view-accept"   // the machine received it
	e2kViewSkip     = "view-skip"     // offer withdrawn (machine stopped listening)
	e2kTimerStart   = "timer-start"
	e2kTimerCancel  = "timer-cancel"
	e2kTimerFire    = "timer-fire"
	e2kStratCall    = "strat-call" // Sub enter|consider|choose|decide
	e2kStratRet     = "strat-ret"
	e2kSign         = "sign" // Sub proposal|prevote|precommit
	e2kASaveIn      = "astore-save-in"
	e2kASaveOut     = "astore-save-out"
	e2kALoad        = "astore-load"
	e2kFSaveIn      = "fstore-save-in"
	e2kFSaveOut     = "fstore-save-out"
	e2kSMSet        = "smstore-set"
	e2kAction       = "action" // received on an Actions channel (Sub proposal|prevote|precommit)
	e2kFinReq       = "finreq"
	e2kFinResp      = "finresp"
	e2kHCommitted   = "height-committed"
	e2kBlockData    = "blockdata"
	e2kProposalSent = "proposal-sent"
	e2kPanic        = "panic"
	e2kExit         = "kernel-exit"
	e2kStart        = "instance-start"
	e2kStop         = "instance-stop"
	// the step the state machine itself reports in its shutdown log line (main loop, live events)
	e2kQuitStep  = "kernel-quit-step"
	e2kQuiesce   = "quiesce"
	e2kHoldStart = "hold-start"
	e2kHoldEnd   = "hold-end"
	e2kProxy     = "proxied-request"
	e2kFreeze    = "store-freeze"
	e2kDeaf      = "deaf-after-catchup"
)

type e2Ev struct {
	Seq     uint64
	Inst    int
	K       string
	H       uint64
	R       uint32
	Sub     string
	Hash    string // raw bytes
	Sig     string // raw bytes
	Content string // raw sign content
	View    int    // 1-based view id, 0 = none
	ID      int    // timer id, strategy call id, finreq id
	OK      bool
	Err     string
	Hashes  []string // raw hashes (proposed headers in a strategy call)
	Note    string
}

func e2hex(s string) string {
	if len(s) > 12 {
		return hex.EncodeToString([]byte(s[:12])) + ".."
	}
	return hex.EncodeToString([]byte(s))
}

// J renders an event for witnesses.
func (e e2Ev) J() map[string]any {
	m := map[string]any{"seq": e.Seq, "inst": e.Inst, "k": e.K}
	if e.H != 0 {
		m["hr"] = fmt.Sprintf("%d/%d", e.H, e.R)
	}
	if e.Sub != "" {
		m["sub"] = e.Sub
	}
	if e.Hash != "" {
		m["hash"] = e2hex(e.Hash)
	} else if e.K == e2kSign || e.K == e2kAction || e.K == e2kStratRet {
		m["hash"] = "nil"
	}
	if e.Sig != "" {
		m["sig"] = e2hex(e.Sig)
	}
	if e.View != 0 {
		m["view"] = e.View
	}
	if e.ID != 0 {
		m["id"] = e.ID
	}
	if e.OK {
		m["ok"] = true
	}
	if e.Err != "" {
		m["err"] = e.Err
	}
	if len(e.Hashes) > 0 {
		hs := make([]string, len(e.Hashes))
		for i, h := range e.Hashes {
			hs[i] = e2hex(h)
		}
		m["phs"] = hs
	}
	if e.Note != "" {
		m["note"] = e.Note
	}
	return m
}

type e2Log struct {
	mu   sync.Mutex
	seq  atomic.Uint64
	evs  []e2Ev
	inst atomic.Int64 // current instance number, stamped on every event
}

func (l *e2Log) add(e e2Ev) uint64 {
	l.mu.Lock()
	e.Seq = l.seq.Add(1)
	if e.Inst == 0 {
		e.Inst = int(l.inst.Load())
	}
	l.evs = append(l.evs, e)
	l.mu.Unlock()
	return e.Seq
}

func (l *e2Log) snapshot() []e2Ev {
	l.mu.Lock()
	defer l.mu.Unlock()
	out := make([]e2Ev, len(l.evs))
	copy(out, l.evs)
	return out
}

// ------------------------------------------------------- virtual timer ----

const (
	e2TimerArmed = iota
	e2TimerFired
	e2TimerCancelled
)

type e2Timer struct {
	id    int
	inst  int
	kind  string // proposal|prevote-delay|precommit-delay|commit-wait
	h     uint64
	r     uint32
	ch    chan struct{}
	state int
}

// e2RoundTimer is a recording virtual tmstate.RoundTimer: timers never elapse
// on their own; only the harness fires them, and never a cancelled one.
type e2RoundTimer struct {
	log    *e2Log
	mu     sync.Mutex
	timers []*e2Timer
}

func (t *e2RoundTimer) mk(kind string, h uint64, r uint32) (<-chan struct{}, func()) {
	t.mu.Lock()
	tm := &e2Timer{id: len(t.timers) + 1, inst: int(t.log.inst.Load()), kind: kind, h: h, r: r, ch: make(chan struct{})}
	t.timers = append(t.timers, tm)
	t.log.add(e2Ev{K: e2kTimerStart, Sub: kind, H: h, R: r, ID: tm.id})
	t.mu.Unlock()
	return tm.ch, func() {
		t.mu.Lock()
		note := ""
		switch tm.state {
		case e2TimerArmed:
			tm.state = e2TimerCancelled
		case e2TimerFired:
			note = "after-fire"
		case e2TimerCancelled:
			note = "again"
		}
		t.log.add(e2Ev{K: e2kTimerCancel, Sub: kind, H: h, R: r, ID: tm.id, Note: note, Inst: tm.inst})
		t.mu.Unlock()
	}
}

func (t *e2RoundTimer) ProposalTimer(_ context.Context, h uint64, r uint32) (<-chan struct{}, func()) {
	return t.mk("proposal", h, r)
}
func (t *e2RoundTimer) PrevoteDelayTimer(_ context.Context, h uint64, r uint32) (<-chan struct{}, func()) {
	return t.mk("prevote-delay", h, r)
}
func (t *e2RoundTimer) PrecommitDelayTimer(_ context.Context, h uint64, r uint32) (<-chan struct{}, func()) {
	return t.mk("precommit-delay", h, r)
}
func (t *e2RoundTimer) CommitWaitTimer(_ context.Context, h uint64, r uint32) (<-chan struct{}, func()) {
	return t.mk("commit-wait", h, r)
}

// outstanding returns the armed timers of instance inst (normally zero or one).
func (t *e2RoundTimer) outstanding(inst int) []*e2Timer {
	t.mu.Lock()
	defer t.mu.Unlock()
	var out []*e2Timer
	for _, tm := range t.timers {
		if tm.inst == inst && tm.state == e2TimerArmed {
			out = append(out, tm)
		}
	}
	return out
}

// fire elapses timer id if (and only if) it is still armed.
func (t *e2RoundTimer) fire(id int) bool {
	t.mu.Lock()
	defer t.mu.Unlock()
	tm := t.timers[id-1]
	if tm.state != e2TimerArmed {
		return false
	}
	tm.state = e2TimerFired
	t.log.add(e2Ev{K: e2kTimerFire, Sub: tm.kind, H: tm.h, R: tm.r, ID: tm.id, Inst: tm.inst})
	close(tm.ch)
	return true
}

// ---------------------------------------------------------------- signer ----

type e2Signer struct {
	log   *e2Log
	inner tmconsensus.Signer
	ss    tmconsensus.SignatureScheme
}

func (s *e2Signer) Prevote(ctx context.Context, vt tmconsensus.VoteTarget) ([]byte, []byte, error) {
	c, sig, err := s.inner.Prevote(ctx, vt)
	s.log.add(e2Ev{K: e2kSign, Sub: "prevote", H: vt.Height, R: vt.Round, Hash: vt.BlockHash, Content: string(c), Sig: string(sig), OK: err == nil, Err: e2err(err)})
	return c, sig, err
}

func (s *e2Signer) Precommit(ctx context.Context, vt tmconsensus.VoteTarget) ([]byte, []byte, error) {
	c, sig, err := s.inner.Precommit(ctx, vt)
	s.log.add(e2Ev{K: e2kSign, Sub: "precommit", H: vt.Height, R: vt.Round, Hash: vt.BlockHash, Content: string(c), Sig: string(sig), OK: err == nil, Err: e2err(err)})
	return c, sig, err
}

func (s *e2Signer) SignProposedHeader(ctx context.Context, ph *tmconsensus.ProposedHeader) error {
	err := s.inner.SignProposedHeader(ctx, ph)
	// The sign content of a proposal, recorded as bytes so that "same content" is decidable.
	c, _ := tmconsensus.ProposalSignBytes(ph.Header, ph.Round, ph.Annotations, s.ss)
	// The simple scheme does not cover the block hash; two different headers are two proposals.
	content := string(c) + "|hash=" + string(ph.Header.Hash)
	s.log.add(e2Ev{K: e2kSign, Sub: "proposal", H: ph.Header.Height, R: ph.Round, Hash: string(ph.Header.Hash), Content: content, Sig: string(ph.Signature), OK: err == nil, Err: e2err(err)})
	return err
}

func (s *e2Signer) PubKey() gcrypto.PubKey { return s.inner.PubKey() }

func e2err(err error) string {
	if err == nil {
		return ""
	}
	return err.Error()
}

// ---------------------------------------------------------------- stores ----

// e2Freeze describes one crash position at the action store boundary.
type e2Freeze struct {
	call   int  // 1-based index of the Save* call (over the whole history) to freeze at; 0 = none
	after  bool // persist first, then freeze ("persisted, not emitted"); else freeze before persisting
	hit    chan struct{}
	hitOne sync.Once
}

// e2WriteCtl numbers the writes of all three stores of one world (one crash
// position per write for the C10 state-machine check).
type e2WriteCtl struct {
	n  atomic.Int64
	fz *e2Freeze
}

// around runs one store write with the crash positions of ctl applied. logOut is
// called with the outcome that is true of the store (persisted or not).
func (c *e2WriteCtl) around(ctx context.Context, log *e2Log, what string, h uint64, r uint32, do func() error, logOut func(err error, note string)) error {
	if c == nil {
		err := do()
		logOut(err, "")
		return err
	}
	n := int(c.n.Add(1))
	fz := c.fz
	if fz != nil && fz.call == n && !fz.after {
		log.add(e2Ev{K: e2kFreeze, Sub: what, H: h, R: r, ID: n, Note: "before-persist"})
		logOut(errFrozen, "frozen before persisting")
		fz.hitOne.Do(func() { close(fz.hit) })
		<-ctx.Done()
		return context.Cause(ctx)
	}
	err := do()
	if fz != nil && fz.call == n && fz.after {
		logOut(err, "persisted-then-frozen")
		log.add(e2Ev{K: e2kFreeze, Sub: what, H: h, R: r, ID: n, Note: "after-persist"})
		fz.hitOne.Do(func() { close(fz.hit) })
		<-ctx.Done()
		return context.Cause(ctx)
	}
	logOut(err, "")
	return err
}

var errFrozen = fmt.Errorf("frozen before persisting")

type e2AStore struct {
	log   *e2Log
	inner *tmmemstore.ActionStore
	ctl   *e2WriteCtl

	saves atomic.Int64
	fz    *e2Freeze

	// signatures the harness' action receivers have seen so far (sig bytes -> seq).
	seen sync.Map
}

// nudge gives an "emit before save" reordering the chance to become visible:
// it yields until the receiver has seen sig or a bounded number of yields passed.
func (s *e2AStore) nudge(sig string) {
	for i := 0; i < 64; i++ {
		if _, ok := s.seen.Load(sig); ok {
			return
		}
		runtime.Gosched()
	}
}

func (s *e2AStore) save(ctx context.Context, sub string, h uint64, r uint32, hash, sig string, do func() error) error {
	n := int(s.saves.Add(1))
	s.log.add(e2Ev{K: e2kASaveIn, Sub: sub, H: h, R: r, Hash: hash, Sig: sig, ID: n})
	s.nudge(sig)
	if fz := s.fz; fz != nil && fz.call == n && !fz.after {
		s.log.add(e2Ev{K: e2kFreeze, Sub: sub, H: h, R: r, ID: n, Note: "before-persist"})
		fz.hitOne.Do(func() { close(fz.hit) })
		<-ctx.Done()
		s.log.add(e2Ev{K: e2kASaveOut, Sub: sub, H: h, R: r, Hash: hash, Sig: sig, ID: n, Err: "frozen before persisting"})
		return context.Cause(ctx)
	}
	if s.ctl != nil {
		return s.ctl.around(ctx, s.log, "astore-"+sub, h, r, do, func(err error, note string) {
			s.log.add(e2Ev{K: e2kASaveOut, Sub: sub, H: h, R: r, Hash: hash, Sig: sig, ID: n, OK: err == nil, Err: e2err(err), Note: note})
		})
	}
	err := do()
	if fz := s.fz; fz != nil && fz.call == n && fz.after {
		// persisted; the caller never learns it.
		s.log.add(e2Ev{K: e2kASaveOut, Sub: sub, H: h, R: r, Hash: hash, Sig: sig, ID: n, OK: err == nil, Err: e2err(err), Note: "persisted-then-frozen"})
		s.log.add(e2Ev{K: e2kFreeze, Sub: sub, H: h, R: r, ID: n, Note: "after-persist"})
		fz.hitOne.Do(func() { close(fz.hit) })
		<-ctx.Done()
		return context.Cause(ctx)
	}
	s.log.add(e2Ev{K: e2kASaveOut, Sub: sub, H: h, R: r, Hash: hash, Sig: sig, ID: n, OK: err == nil, Err: e2err(err)})
	return err
}

func (s *e2AStore) SaveProposedHeaderAction(ctx context.Context, ph tmconsensus.ProposedHeader) error {
	return s.save(ctx, "proposal", ph.Header.Height, ph.Round, string(ph.Header.Hash), string(ph.Signature), func() error {
		return s.inner.SaveProposedHeaderAction(ctx, ph)
	})
}

func (s *e2AStore) SavePrevoteAction(ctx context.Context, pk gcrypto.PubKey, vt tmconsensus.VoteTarget, sig []byte) error {
	return s.save(ctx, "prevote", vt.Height, vt.Round, vt.BlockHash, string(sig), func() error {
		return s.inner.SavePrevoteAction(ctx, pk, vt, sig)
	})
}

func (s *e2AStore) SavePrecommitAction(ctx context.Context, pk gcrypto.PubKey, vt tmconsensus.VoteTarget, sig []byte) error {
	return s.save(ctx, "precommit", vt.Height, vt.Round, vt.BlockHash, string(sig), func() error {
		return s.inner.SavePrecommitAction(ctx, pk, vt, sig)
	})
}

func (s *e2AStore) LoadActions(ctx context.Context, h uint64, r uint32) (tmstore.RoundActions, error) {
	ra, err := s.inner.LoadActions(ctx, h, r)
	s.log.add(e2Ev{K: e2kALoad, H: h, R: r, OK: err == nil, Err: e2err(err)})
	return ra, err
}

type e2FStore struct {
	log   *e2Log
	inner *tmmemstore.FinalizationStore
	ctl   *e2WriteCtl
}

// e2FinContent is the comparable content of one finalization.
func e2FinContent(r uint32, blockHash string, vs tmconsensus.ValidatorSet, app string) string {
	return fmt.Sprintf("round=%d block=%x app=%x vals=%x/%x", r, blockHash, app, vs.PubKeyHash, vs.VotePowerHash)
}

func (s *e2FStore) SaveFinalization(ctx context.Context, h uint64, r uint32, blockHash string, vs tmconsensus.ValidatorSet, app string) error {
	content := e2FinContent(r, blockHash, vs, app)
	s.log.add(e2Ev{K: e2kFSaveIn, H: h, R: r, Hash: blockHash, Content: content})
	return s.ctl.around(ctx, s.log, "fstore", h, r, func() error {
		return s.inner.SaveFinalization(ctx, h, r, blockHash, vs, app)
	}, func(err error, note string) {
		s.log.add(e2Ev{K: e2kFSaveOut, H: h, R: r, Hash: blockHash, Content: content, OK: err == nil, Err: e2err(err), Note: note})
	})
}

func (s *e2FStore) LoadFinalizationByHeight(ctx context.Context, h uint64) (uint32, string, tmconsensus.ValidatorSet, string, error) {
	return s.inner.LoadFinalizationByHeight(ctx, h)
}

type e2SMStore struct {
	log   *e2Log
	inner *tmmemstore.StateMachineStore
	ctl   *e2WriteCtl
}

func (s *e2SMStore) SetStateMachineHeightRound(ctx context.Context, h uint64, r uint32) error {
	return s.ctl.around(ctx, s.log, "smstore", h, r, func() error {
		return s.inner.SetStateMachineHeightRound(ctx, h, r)
	}, func(err error, note string) {
		s.log.add(e2Ev{K: e2kSMSet, H: h, R: r, OK: err == nil, Err: e2err(err), Note: note})
	})
}

func (s *e2SMStore) StateMachineHeightRound(ctx context.Context) (uint64, uint32, error) {
	return s.inner.StateMachineHeightRound(ctx)
}

// ------------------------------------------------------ scripted strategy ----

const (
	e2RulePH        = iota // the idx-th proposed header offered (mod len), nil if none
	e2RuleNil              // nil
	e2RuleMostVoted        // precommit: the most voted prevote hash of the summary
	e2RuleFixed            // a fixed hash (arbitrary, or a block of an older round)
)

type e2Rule struct {
	mode  int
	idx   int
	fixed string
}

func (ru e2Rule) prevote(phs []tmconsensus.ProposedHeader) string {
	switch ru.mode {
	case e2RulePH:
		if len(phs) == 0 {
			return ""
		}
		return string(phs[ru.idx%len(phs)].Header.Hash)
	case e2RuleFixed:
		return ru.fixed
	}
	return ""
}

func (ru e2Rule) precommit(vs tmconsensus.VoteSummary) string {
	switch ru.mode {
	case e2RuleMostVoted:
		return vs.MostVotedPrevoteHash
	case e2RulePH:
		ks := make([]string, 0, len(vs.PrevoteBlockPower))
		for k := range vs.PrevoteBlockPower {
			ks = append(ks, k)
		}
		if len(ks) == 0 {
			return ""
		}
		sort.Strings(ks)
		return ks[ru.idx%len(ks)]
	case e2RuleFixed:
		return ru.fixed
	}
	return ""
}

const (
	e2PvNone = iota
	e2PvChooseExpected
	e2PvConsiderAnswered
)

// e2Script is the scripted behaviour of the consensus strategy for one round of
// one instance. It is drawn by the harness main goroutine from the case PRNG
// when the round is entered; strategy calls (consensus manager goroutine) only
// read it and advance its counters under strat.mu.
type e2Script struct {
	inst int
	h    uint64
	r    uint32

	considerAnswerAt int // answer the k-th ConsiderProposedBlocks with a hash (0: never)
	prevoteRule      e2Rule
	precommitRule    e2Rule

	holdKind  string // "", "consider", "choose", "decide": hold the first call of that kind ...
	holdSpan  int    // ... across this many further harness events
	propose   bool   // send a Proposal
	proposeAt int    // 0: inside EnterRound; >0: as a later harness event
	dataID    string

	dupPrevote bool   // answer a later ConsiderProposedBlocks with a second, different hash (duplicate answer) ...
	dupRule    e2Rule // ... once the first prevote is known to have been emitted
	propose2   bool   // send a second Proposal once the first one is known to have been emitted

	// state
	firstPv                                 string
	pvAnswered, pvEffectSeen, dupGiven      bool
	proposalEffectSeen, proposed2           bool
	considerCalls, chooseCalls, decideCalls int
	pvState                                 int
	held                                    bool
	proposalOut                             chan<- tmconsensus.Proposal
	proposed                                bool
}

type e2Hold struct {
	sc      *e2Script
	kind    string
	release chan struct{}
	span    int
}

type e2Strategy struct {
	log *e2Log

	mu      sync.Mutex
	scripts map[[3]uint64]*e2Script // (inst, h, r)
	cur     *e2Script
	calls   int

	// per call id: the arguments, for the oracle
	callPHs map[int][]tmconsensus.ProposedHeader
	callVS  map[int]tmconsensus.VoteSummary
	callRV  map[int]tmconsensus.RoundView

	heldCh      chan *e2Hold
	sentinelAck chan string
}

const e2SentinelPrefix = "\x00e2-sentinel-"

func newE2Strategy(log *e2Log) *e2Strategy {
	return &e2Strategy{
		log:         log,
		scripts:     map[[3]uint64]*e2Script{},
		callPHs:     map[int][]tmconsensus.ProposedHeader{},
		callVS:      map[int]tmconsensus.VoteSummary{},
		callRV:      map[int]tmconsensus.RoundView{},
		heldCh:      make(chan *e2Hold, 64),
		sentinelAck: make(chan string, 64),
	}
}

func (s *e2Strategy) script(inst int, h uint64, r uint32) *e2Script {
	return s.scripts[[3]uint64{uint64(inst), h, uint64(r)}]
}

// currentLocked returns the script of the round the running instance is in.
// The harness installs it (setCurrent) while the machine waits for the round
// entrance response, after a barrier that drained every older strategy call.
func (s *e2Strategy) currentLocked() *e2Script { return s.cur }

func (s *e2Strategy) setCurrent(sc *e2Script) {
	s.mu.Lock()
	s.cur = sc
	if sc != nil {
		s.scripts[[3]uint64{uint64(sc.inst), sc.h, uint64(sc.r)}] = sc
	}
	s.mu.Unlock()
}

func e2phHashes(phs []tmconsensus.ProposedHeader) []string {
	out := make([]string, len(phs))
	for i, ph := range phs {
		out[i] = string(ph.Header.Hash)
	}
	return out
}

// maybeHold blocks the calling strategy method until the harness releases it.
func (s *e2Strategy) maybeHold(ctx context.Context, sc *e2Script, kind string, id int) {
	s.mu.Lock()
	if sc == nil || sc.holdKind != kind || sc.held {
		s.mu.Unlock()
		return
	}
	sc.held = true
	hd := &e2Hold{sc: sc, kind: kind, release: make(chan struct{}), span: sc.holdSpan}
	s.mu.Unlock()
	s.log.add(e2Ev{K: e2kHoldStart, Sub: kind, H: sc.h, R: sc.r, ID: id})
	s.heldCh <- hd
	select {
	case <-hd.release:
	case <-ctx.Done():
	}
	s.log.add(e2Ev{K: e2kHoldEnd, Sub: kind, H: sc.h, R: sc.r, ID: id})
}

func (s *e2Strategy) EnterRound(ctx context.Context, rv tmconsensus.RoundView, proposalOut chan<- tmconsensus.Proposal) error {
	s.mu.Lock()
	s.calls++
	id := s.calls
	s.callRV[id] = rv
	sc := s.script(int(s.log.inst.Load()), rv.Height, rv.Round)
	var p *tmconsensus.Proposal
	if sc != nil {
		sc.proposalOut = proposalOut
		if sc.propose && sc.proposeAt == 0 && proposalOut != nil && !sc.proposed {
			sc.proposed = true
			p = &tmconsensus.Proposal{DataID: sc.dataID}
		}
	}
	s.mu.Unlock()
	note := ""
	if proposalOut == nil {
		note = "no-proposal-channel"
	}
	s.log.add(e2Ev{K: e2kStratCall, Sub: "enter", H: rv.Height, R: rv.Round, ID: id, Hashes: e2phHashes(rv.ProposedHeaders), Note: note})
	if p != nil {
		select {
		case proposalOut <- *p:
			s.log.add(e2Ev{K: e2kProposalSent, H: rv.Height, R: rv.Round, Note: p.DataID})
		default:
		}
	}
	s.log.add(e2Ev{K: e2kStratRet, Sub: "enter", H: rv.Height, R: rv.Round, ID: id, OK: true})
	return nil
}

func (s *e2Strategy) ConsiderProposedBlocks(ctx context.Context, phs []tmconsensus.ProposedHeader, reason tmconsensus.ConsiderProposedBlocksReason) (string, error) {
	if len(reason.UpdatedBlockDataIDs) == 1 && len(reason.UpdatedBlockDataIDs[0]) > len(e2SentinelPrefix) &&
		reason.UpdatedBlockDataIDs[0][:len(e2SentinelPrefix)] == e2SentinelPrefix {
		// Harness barrier: every request queued before this one has been answered.
		s.sentinelAck <- reason.UpdatedBlockDataIDs[0]
		return "", tmconsensus.ErrProposedBlockChoiceNotReady
	}

	s.mu.Lock()
	s.calls++
	id := s.calls
	s.callPHs[id] = phs
	sc := s.currentLocked()
	var h uint64
	var r uint32
	answer := false
	hash := ""
	if sc != nil {
		h, r = sc.h, sc.r
		sc.considerCalls++
		if sc.considerAnswerAt > 0 && sc.considerCalls >= sc.considerAnswerAt && sc.pvState == e2PvNone && len(phs) > 0 {
			answer = true
			hash = sc.prevoteRule.prevote(phs)
			sc.pvState = e2PvConsiderAnswered
			sc.pvAnswered, sc.firstPv = true, hash
		} else if sc.dupPrevote && sc.pvAnswered && sc.pvEffectSeen && !sc.dupGiven {
			// a duplicate answer: the first one has been consumed (its prevote was seen on the
			// actions channel), so this one cannot collide with it in the 1-slot result channel.
			hash = sc.dupRule.prevote(phs)
			if hash == sc.firstPv {
				hash = "dup-" + sc.firstPv
			}
			answer, sc.dupGiven = true, true
		}
	}
	s.mu.Unlock()
	note := ""
	if reason.MajorityVotingPowerPresent {
		note = "majority-present"
	}
	if len(reason.UpdatedBlockDataIDs) > 0 {
		note += " data-arrived"
	}
	s.log.add(e2Ev{K: e2kStratCall, Sub: "consider", H: h, R: r, ID: id, Hashes: e2phHashes(phs), Note: note})
	s.maybeHold(ctx, sc, "consider", id)
	if !answer {
		s.log.add(e2Ev{K: e2kStratRet, Sub: "consider", H: h, R: r, ID: id, Note: "not-ready"})
		return "", tmconsensus.ErrProposedBlockChoiceNotReady
	}
	s.log.add(e2Ev{K: e2kStratRet, Sub: "consider", H: h, R: r, ID: id, Hash: hash, OK: true})
	return hash, nil
}

func (s *e2Strategy) ChooseProposedBlock(ctx context.Context, phs []tmconsensus.ProposedHeader) (string, error) {
	s.mu.Lock()
	s.calls++
	id := s.calls
	s.callPHs[id] = phs
	sc := s.currentLocked()
	var h uint64
	var r uint32
	hash := ""
	if sc != nil {
		h, r = sc.h, sc.r
		sc.chooseCalls++
		hash = sc.prevoteRule.prevote(phs)
		if !sc.pvAnswered {
			sc.pvAnswered, sc.firstPv = true, hash
		}
	}
	s.mu.Unlock()
	s.log.add(e2Ev{K: e2kStratCall, Sub: "choose", H: h, R: r, ID: id, Hashes: e2phHashes(phs)})
	s.maybeHold(ctx, sc, "choose", id)
	s.log.add(e2Ev{K: e2kStratRet, Sub: "choose", H: h, R: r, ID: id, Hash: hash, OK: true})
	return hash, nil
}

func (s *e2Strategy) DecidePrecommit(ctx context.Context, vs tmconsensus.VoteSummary) (string, error) {
	s.mu.Lock()
	s.calls++
	id := s.calls
	s.callVS[id] = vs.Clone()
	sc := s.currentLocked()
	var h uint64
	var r uint32
	hash := ""
	if sc != nil {
		h, r = sc.h, sc.r
		sc.decideCalls++
		hash = sc.precommitRule.precommit(vs)
	}
	s.mu.Unlock()
	s.log.add(e2Ev{K: e2kStratCall, Sub: "decide", H: h, R: r, ID: id})
	s.maybeHold(ctx, sc, "decide", id)
	s.log.add(e2Ev{K: e2kStratRet, Sub: "decide", H: h, R: r, ID: id, Hash: hash, OK: true})
	return hash, nil
}
