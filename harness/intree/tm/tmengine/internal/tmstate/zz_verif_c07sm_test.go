//go:build verif

package tmstate_test

import (
	"fmt"
	"strings"
	"testing"

	"github.com/gordian-engine/gordian/internal/verifkit"
)

// TestVerif_C07_statemachine: the state-machine half of C07 -- "the set the state machine
// proposes and votes with at h+2 is exactly what the driver returned when finalizing h".
// Engine E2 with an application that returns a different validator set at every finalization
// (the fixture's keys, every power multiplied by a factor that is a function of the height, so
// that all vote fractions stay what the generator planned), candidate proposals that name the
// sets of neighbouring heights, and restarts on the same stores at PRNG-chosen events (the
// sets are then read back from the finalization store instead of being cycled in memory).
// Judged at the three places where the machine's idea of the validator set is observable:
// its own signed proposals, the proposed headers it lets the consensus strategy vote on
// (nothing with other sets may get through; everything with the prescribed sets must).
func TestVerif_C07_statemachine(t *testing.T) {
	r := verifkit.Start("C07")
	if r == nil {
		t.Skip("not started by the /verif driver")
	}
	defer r.Finish()
	r.SetRule("[statemachine] E2 event histories (as for C08, 30..150 events, restarts on the same stores at PRNG-chosen events) against a real tmstate.StateMachine whose driver returns, when finalizing height h, the validator set for h+2 as a function of h (same keys, all powers times a height-dependent factor); a quarter of the candidate proposals are unacceptable, most of them by naming the set of a neighbouring height as ValidatorSet and/or NextValidatorSet. Oracle: (1) every proposed header the machine signs names the prescribed set of its height and the prescribed next set; (2) every proposed header handed to EnterRound / ConsiderProposedBlocks / ChooseProposedBlock names the prescribed sets; (3) at rest, a header with the prescribed sets and application state that arrived while the machine was awaiting a proposal (as far as the observables determine that) has been handed to the strategy. Non-trivial = distinct traces that reached a height whose prescribed set differs from the genesis set and in which (1), (2) or (3) was evaluated there.")
	agg := newE2Agg()
	run := func(i int) {
		e2Guarded(r, "C07sm/case", func() {
			rng := r.CaseRNG(i)
			cfg := e2DrawCfg(rng, "C07")
			caseID := fmt.Sprintf("C07sm/case-%d", i)
			r.BeginCase(caseID)
			w := newE2World(r, rng, caseID, cfg)
			nEv := 30 + rng.IntN(120)
			pRestart := []int{0, 40, 25, 15}[rng.IntN(4)]
			restarts := 0
			if w.start() {
				for k := 0; k < nEv; k++ {
					if pRestart > 0 && rng.IntN(pRestart) == 0 && !w.wdFired {
						if !w.restart() {
							break
						}
						restarts++
						continue
					}
					if !w.step() {
						if w.wdFired || restarts >= 6 {
							break
						}
						// fail-stop or exit: a real node would be restarted
						if !w.restart() {
							break
						}
						restarts++
					}
				}
				w.quiesce()
			}
			w.finish()
			tr := w.trace()
			fs := tr.judge(true, false)
			agg.merge(w, tr)
			r.Eval(1)
			n := tr.judged["C07.own-proposal"] + tr.judged["C07.header-shown-to-strategy"] + tr.judged["C07.withheld"]
			if tr.maxH >= w.gen.InitialHeight+2 && n > 0 {
				r.Nontrivial(e2Digest(tr))
			}
			agg.mu.Lock()
			agg.counts[fmt.Sprintf("c07.restarts_in_case.%d", restarts)]++
			agg.counts[fmt.Sprintf("c07.heights_above_initial.%d", tr.maxH-w.gen.InitialHeight)]++
			agg.mu.Unlock()
			for _, f := range fs {
				if !strings.HasPrefix(f.Key, "C07:") {
					continue
				}
				r.Violate(f.Key, f.What, caseID, e2Witness(w, tr, f, map[string]any{"restarts": restarts}))
			}
			if r.WantSample() && tr.maxH >= w.gen.InitialHeight+2 && len(tr.evs) < 500 {
				je := make([]map[string]any, 0, len(tr.evs))
				for _, e := range tr.evs {
					je = append(je, e.J())
				}
				r.Sample(map[string]any{"case": caseID, "validators": cfg.nVals, "powers": cfg.powers, "restarts": restarts, "events": je})
			}
		})
	}
	if i := e2ReplayIndex(r); i >= 0 {
		run(i)
		agg.report(r)
		return
	}
	n := r.N(1000, 16000)
	r.Parallel(n, run)
	agg.report(r)
}
