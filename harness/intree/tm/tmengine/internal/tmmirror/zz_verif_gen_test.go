//go:build verif

package tmmirror_test

// E1 generator: stateful, position-aware generation of honest progress
// (so that heights really commit and rounds really end) and of hostile
// messages aimed relative to the node's position.

import (
	"bytes"
	"fmt"
	"math/rand/v2"
	"sort"
	"strconv"

	"github.com/gordian-engine/gordian/gcrypto"
	"github.com/gordian-engine/gordian/tm/tmconsensus"
	"github.com/gordian-engine/gordian/tm/tmengine/internal/tmeil"
)

// sigMeta describes one generated sparse signature.
type sigMeta struct {
	idx   int  // signer index the key id names (or -1)
	valid bool // valid for exactly the (kind,h,r,hash) it is filed under, under key idx of the prescribed set
	mode  string
}

type voteMsg struct {
	kind       string
	h          uint64
	r          uint32
	pubKeyHash string
	proofs     map[string][]gcrypto.SparseSignature
	meta       map[string][]sigMeta
	desc       string
	hashOK     bool // pubKeyHash is the prescribed set's hash
}

func (m *voteMsg) anyValid() bool {
	for _, ms := range m.meta {
		for _, x := range ms {
			if x.valid {
				return true
			}
		}
	}
	return false
}

func (m *voteMsg) String() string {
	var parts []string
	hs := make([]string, 0, len(m.proofs))
	for h := range m.proofs {
		hs = append(hs, h)
	}
	sort.Strings(hs)
	for _, h := range hs {
		var ss []string
		for i, x := range m.meta[h] {
			kid := fmt.Sprintf("%x", m.proofs[h][i].KeyID)
			ss = append(ss, fmt.Sprintf("%s:%s", kid, x.mode))
		}
		parts = append(parts, fmt.Sprintf("%s=>[%s]", shortHash(h), joinStr(ss, " ")))
	}
	return fmt.Sprintf("%s h=%d r=%d pkh=%v %s {%s}", m.kind, m.h, m.r, m.hashOK, m.desc, joinStr(parts, "; "))
}

func joinStr(a []string, sep string) string {
	var b bytes.Buffer
	for i, s := range a {
		if i > 0 {
			b.WriteString(sep)
		}
		b.WriteString(s)
	}
	return b.String()
}

func shortHash(h string) string {
	if h == "" {
		return "nil"
	}
	if len(h) > 4 {
		return fmt.Sprintf("%x", h[:4])
	}
	return fmt.Sprintf("%x", h)
}

// gen drives one node.
type gen struct {
	n   *node
	w   *world
	cs  *caseState
	rng *rand.Rand

	// wantRestart asks the case runner for a clean restart of the node before the next step
	wantRestart bool
	// allowAbandon: callers may give up on a call while it is being worked on (C09 profile)
	allowAbandon bool

	// legit block hashes the harness proposed, by (h, r)
	roundBlocks map[[2]uint64][]string
	// all headers (legit or not) ever offered, for duplicates
	offered []tmconsensus.ProposedHeader

	attackWeight int // percent of steps that are attacks
	allowCrashy  bool

	mo *monitors

	// tape: when non-nil, every executed delivery is also appended here
	// so that the same history can be replayed against another node (C10).
	tape *[]func()

	// record mode (concurrent phase): deliveries are collected as closures
	// instead of being executed.
	recording bool
	record    []func()
	recordSM  []func()

	allInvalidJudged int
	lateForCommitted int
	forgedCopies     int
	minorityJudged   int
	attacks          int
}

func newGen(n *node, rng *rand.Rand) *gen {
	return &gen{n: n, w: n.w, cs: n.cs, rng: rng, roundBlocks: map[[2]uint64][]string{}, attackWeight: 50}
}

func (g *gen) pick(n int) int { return g.rng.IntN(n) }

func (g *gen) randSubset(n int, pIn int) []int {
	var out []int
	for i := 0; i < n; i++ {
		if g.pick(100) < pIn {
			out = append(out, i)
		}
	}
	if len(out) == 0 {
		out = []int{g.pick(n)}
	}
	return out
}

func (g *gen) randHash() string {
	b := make([]byte, 32)
	for i := range b {
		b[i] = byte(g.rng.Uint32())
	}
	return string(b)
}

// parentFor returns the hash the node committed at h-1 and a fresh valid
// commit proof for it, for building a block at height h.
func (g *gen) parentFor(h uint64, cr uint32) ([]byte, tmconsensus.CommitProof, bool) {
	if h <= g.w.initH {
		return g.w.genesisHash, initialPrevProof(), true
	}
	g.cs.mu.Lock()
	ph, ok := g.cs.committedHash[h-1]
	g.cs.mu.Unlock()
	if !ok {
		return nil, tmconsensus.CommitProof{}, false
	}
	idxs := g.w.quorumSubset(g.rng, h-1, g.pick(3) == 0)
	var others map[string][]int
	if g.pick(2) == 0 {
		// Proposers also report the nil precommits they saw: some of the validators whose
		// nil precommit for that round was delivered before (so nothing new is signed here).
		// The node then holds both targets already, and a proof may add to one and not to
		// the other.
		g.w.mu.Lock()
		var nils []int
		for i := range g.w.delivered[voteKey{kindPrecommit, h - 1, cr, ""}] {
			nils = append(nils, i)
		}
		g.w.mu.Unlock()
		sort.Ints(nils)
		if len(nils) > 0 {
			g.rng.Shuffle(len(nils), func(a, b int) { nils[a], nils[b] = nils[b], nils[a] })
			others = map[string][]int{"": nils[:1+g.pick(len(nils))]}
		}
	}
	cp := g.w.commitProofFor(h-1, cr, ph, idxs, others)
	return []byte(ph), cp, true
}

// certifiedInRound returns the hash for which the harness already issued more than
// 2/3 of precommits at (h, r), if any. Honest validators holding more than 2/3 of
// the power never precommit two blocks in one round, so the harness issues at most
// one certificate per round; a second "commit round" in the same round re-delivers
// for the same block.
func (g *gen) certifiedInRound(h uint64, r uint32) (string, bool) {
	g.w.mu.Lock()
	defer g.w.mu.Unlock()
	for hash, rounds := range g.w.certs[h] {
		for _, x := range rounds {
			if x == r {
				return hash, true
			}
		}
	}
	return "", false
}

// newLegitBlock builds a consistent block at the node's voting position.
func (g *gen) newLegitBlock(h uint64, r uint32, cr uint32) (tmconsensus.ProposedHeader, bool) {
	if hash, ok := g.certifiedInRound(h, r); ok {
		g.w.mu.Lock()
		bi := g.w.blocks[hash]
		g.w.mu.Unlock()
		if bi != nil {
			return bi.ph, true
		}
	}
	parent, cp, ok := g.parentFor(h, cr)
	if !ok {
		return tmconsensus.ProposedHeader{}, false
	}
	ph := g.w.makeBlock(h, r, parent, cp, fmt.Sprintf("data-%d-%d-%d", h, r, g.rng.Uint32()), g.pick(g.w.set(h).n()))
	k := [2]uint64{h, uint64(r)}
	g.roundBlocks[k] = append(g.roundBlocks[k], string(ph.Header.Hash))
	return ph, true
}

// validVote builds a vote message with valid signatures of idxs for hash.
func (g *gen) validVote(kind string, h uint64, r uint32, hash string, idxs []int) *voteMsg {
	m := &voteMsg{kind: kind, h: h, r: r, pubKeyHash: string(g.w.set(h).vs.PubKeyHash), hashOK: true,
		proofs: map[string][]gcrypto.SparseSignature{}, meta: map[string][]sigMeta{}, desc: "valid"}
	m.proofs[hash] = g.w.validSparse(kind, h, r, hash, idxs)
	for _, i := range idxs {
		m.meta[hash] = append(m.meta[hash], sigMeta{idx: i, valid: true, mode: "ok"})
	}
	return m
}

// sendVote records the delivery in the ledger and hands the message to the node.
func (g *gen) sendVote(m *voteMsg) (res tmconsensus.HandleVoteProofsResult, ok bool) {
	for hash, ms := range m.meta {
		var idxs []int
		for _, x := range ms {
			if x.valid {
				idxs = append(idxs, x.idx)
			}
		}
		if len(idxs) > 0 {
			g.w.noteDelivered(voteKey{m.kind, m.h, m.r, hash}, idxs)
		}
	}
	if g.recording {
		g.record = append(g.record, func() { g.doSendVote(m, false) })
		return 0, false
	}
	if g.tape != nil {
		*g.tape = append(*g.tape, func() { g.doSendVote(m, false) })
	}
	return g.doSendVote(m, true)
}

func (g *gen) doSendVote(m *voteMsg, judge bool) (res tmconsensus.HandleVoteProofsResult, ok bool) {
	return g.doSendVoteHeld(m, judge, nil)
}

func (g *gen) doSendVoteHeld(m *voteMsg, judge bool, hold *voteHold) (res tmconsensus.HandleVoteProofsResult, ok bool) {
	judgeInvalid := judge && g.mo != nil && !m.anyValid() && len(m.proofs) > 0
	if judgeInvalid && m.desc == "previous-height-validator-set" {
		// For a height the node has not reached, the validator set is not determined yet;
		// the node can only go by the set the message names. Whether it keeps such votes is
		// not judged; for heights it has reached it knows the set and must refuse them.
		if vh, _, _, _, okp := g.n.pos(); !okp || m.h > vh {
			judgeInvalid = false
			g.cs.count("unjudged.vote-by-another-known-set-for-a-height-not-reached")
		}
	}
	var before string
	if judgeInvalid {
		before, judgeInvalid = g.mo.stateDigest(m.h, m.r)
	}
	if m.kind == kindPrevote {
		res, ok = g.n.deliverPrevotesHeld(tmconsensus.PrevoteSparseProof{Height: m.h, Round: m.r, PubKeyHash: m.pubKeyHash, Proofs: m.proofs}, hold)
	} else {
		res, ok = g.n.deliverPrecommitsHeld(tmconsensus.PrecommitSparseProof{Height: m.h, Round: m.r, PubKeyHash: m.pubKeyHash, Proofs: m.proofs}, hold)
	}
	g.cs.logf("%s -> %s ok=%v", m.String(), res, ok)
	g.cs.count("msg." + m.kind)
	g.cs.count("result.vote." + res.String())
	if judgeInvalid && ok {
		after, ok2 := g.mo.stateDigest(m.h, m.r)
		if ok2 {
			g.allInvalidJudged++
			if res == tmconsensus.HandleVoteProofsAccepted || res == tmconsensus.HandleVoteProofsFutureVerified {
				g.cs.violate("C05", "C05:message-without-valid-signature-reported-accepted:"+m.kind+":"+m.desc,
					fmt.Sprintf("a %s message for %d/%d in which no signature is valid (%s) returned %s", m.kind, m.h, m.r, m.desc, res), map[string]any{"message": m.String()})
			}
			if before != after {
				g.cs.violate("C05", "C05:message-without-valid-signature-changed-state:"+m.kind+":"+m.desc,
					fmt.Sprintf("a %s message for %d/%d in which no signature is valid (%s) changed the views or the round store (result %s)", m.kind, m.h, m.r, m.desc, res),
					map[string]any{"message": m.String(), "before": before, "after": after})
			}
		}
	}
	return res, ok
}

func (g *gen) sendPH(ph tmconsensus.ProposedHeader, desc string) (tmconsensus.HandleProposedHeaderResult, bool) {
	g.offered = append(g.offered, ph)
	// A proposed header carries a previous commit proof: its valid signatures reach the node too.
	g.notePrevCommitDelivered(ph.Header)
	if g.recording {
		g.record = append(g.record, func() { g.doSendPH(ph, desc) })
		return 0, false
	}
	if g.tape != nil {
		*g.tape = append(*g.tape, func() { g.doSendPH(ph, desc) })
	}
	return g.doSendPH(ph, desc)
}

func (g *gen) doSendPH(ph tmconsensus.ProposedHeader, desc string) (tmconsensus.HandleProposedHeaderResult, bool) {
	res, ok := g.n.deliverPH(ph)
	g.cs.logf("PH h=%d r=%d hash=%s %s -> %s ok=%v", ph.Header.Height, ph.Round, shortHash(string(ph.Header.Hash)), desc, res, ok)
	g.cs.count("msg.ph")
	g.cs.count("result.ph." + res.String())
	if ok && res == tmconsensus.HandleProposedHeaderAccepted && !g.recording {
		g.n.settlePH(ph)
	}
	return res, ok
}

// notePrevCommitDelivered adds to the ledger the precommit signatures inside a
// header's previous commit proof that are valid for (h-1, proof round, hash).
func (g *gen) notePrevCommitDelivered(hd tmconsensus.Header) {
	if hd.Height <= g.w.initH {
		return
	}
	h := hd.Height - 1
	set := g.w.set(h)
	for hash, sigs := range hd.PrevCommitProof.Proofs {
		var idxs []int
		for _, s := range sigs {
			if i, ok := verifySparse(set, kindPrecommit, h, hd.PrevCommitProof.Round, hash, s); ok {
				idxs = append(idxs, i)
			}
		}
		if len(idxs) > 0 {
			g.w.noteDelivered(voteKey{kindPrecommit, h, hd.PrevCommitProof.Round, hash}, idxs)
		}
	}
}

func (g *gen) noteProofDelivered(h uint64, p tmconsensus.CommitProof) {
	set := g.w.set(h)
	for hash, sigs := range p.Proofs {
		var idxs []int
		for _, s := range sigs {
			if i, ok := verifySparse(set, kindPrecommit, h, p.Round, hash, s); ok {
				idxs = append(idxs, i)
			}
		}
		if len(idxs) > 0 {
			g.w.noteDelivered(voteKey{kindPrecommit, h, p.Round, hash}, idxs)
		}
	}
}

func (g *gen) sendReplay(hd tmconsensus.Header, proof tmconsensus.CommitProof, desc string) (error, bool) {
	g.notePrevCommitDelivered(hd)
	g.noteProofDelivered(hd.Height, proof)
	if g.recording {
		g.record = append(g.record, func() { g.doSendReplay(hd, proof, desc) })
		return nil, false
	}
	if g.tape != nil {
		*g.tape = append(*g.tape, func() { g.doSendReplay(hd, proof, desc) })
	}
	return g.doSendReplay(hd, proof, desc)
}

func (g *gen) doSendReplay(hd tmconsensus.Header, proof tmconsensus.CommitProof, desc string) (error, bool) {
	// A replayed header accepted without error is a commit event of its own.
	err, ok := g.n.deliverReplay(hd, proof)
	g.cs.logf("REPLAY h=%d r=%d hash=%s %s -> err=%v ok=%v", hd.Height, proof.Round, shortHash(string(hd.Hash)), desc, err, ok)
	g.cs.count("msg.replay")
	if ok && err == nil {
		g.cs.count("result.replay.accepted")
		g.cs.mu.Lock()
		g.cs.commitEvents = append(g.cs.commitEvents, commitEvent{source: "ReplayedHeaderResponse", h: hd.Height, round: proof.Round, hash: string(hd.Hash), proof: proof.Clone(), header: hd})
		g.cs.mu.Unlock()
	} else if ok {
		g.cs.count("result.replay.rejected")
	}
	return err, ok
}

// ---------------------------------------------------------------------------
// honest progress

// progress runs one honest round at the node's position. mode selects how the
// round ends.
func (g *gen) progress() {
	vh, vr, _, cr, ok := g.n.pos()
	if !ok {
		return
	}
	mode := g.pick(100)
	switch {
	case mode < 55:
		g.commitRound(vh, vr, cr, g.pick(100))
	case mode < 70:
		g.nilRound(vh, vr)
	case mode < 78:
		g.splitRound(vh, vr, cr)
	case mode < 86:
		g.jumpRound(vh, vr)
	default:
		g.replayCommit(vh, vr, cr)
	}
}

// chunks splits idxs into 1..3 consecutive chunks.
func (g *gen) chunks(idxs []int) [][]int {
	if len(idxs) <= 1 || g.pick(3) == 0 {
		return [][]int{idxs}
	}
	c := 1 + g.pick(len(idxs)-1)
	out := [][]int{idxs[:c], idxs[c:]}
	if len(out[1]) > 1 && g.pick(2) == 0 {
		d := 1 + g.pick(len(out[1])-1)
		out = [][]int{out[0], out[1][:d], out[1][d:]}
	}
	// overlapping re-delivery sometimes
	if g.pick(4) == 0 {
		out = append(out, idxs)
	}
	return out
}

func (g *gen) commitRound(vh uint64, vr uint32, cr uint32, flavour int) {
	ph, ok := g.newLegitBlock(vh, vr, cr)
	if !ok {
		g.cs.count("progress.no-parent")
		return
	}
	hash := string(ph.Header.Hash)
	late := flavour < 15 // votes before the proposal
	if flavour >= 15 && flavour < 40 {
		// a copy whose validator lists were altered in transit (hashes and
		// signature untouched) arrives before, or right after, the original
		forged := ph
		switch g.pick(3) {
		case 0:
			forged.Header.ValidatorSet = forgeLists(ph.Header.ValidatorSet, g, flavour%2 == 0)
			forged.Header.NextValidatorSet = forgeLists(ph.Header.NextValidatorSet, g, flavour%3 != 0)
		case 1:
			forged.Header.NextValidatorSet = forgeLists(ph.Header.NextValidatorSet, g, flavour%3 != 0)
		default:
			forged.Header.ValidatorSet = forgeLists(ph.Header.ValidatorSet, g, flavour%2 == 0)
		}
		if flavour < 32 {
			g.sendPH(forged, "forged-lists-copy-first")
			g.sendPH(ph, "legit-after-forged-copy")
		} else {
			g.sendPH(ph, "legit")
			g.sendPH(forged, "forged-lists-copy-second")
		}
		g.forgedCopies++
	} else if !late {
		g.sendPH(ph, "legit")
	}
	// prevotes
	pv := g.w.quorumSubset(g.rng, vh, false)
	for _, c := range g.chunks(pv) {
		g.sendVote(g.validVote(kindPrevote, vh, vr, hash, c))
	}
	// a few nil prevotes from the rest
	if g.pick(3) == 0 {
		rest := complement(g.w.set(vh).n(), pv)
		if len(rest) > 0 {
			g.sendVote(g.validVote(kindPrevote, vh, vr, "", rest))
		}
	}
	// precommits
	pc := g.w.quorumSubset(g.rng, vh, flavour%2 == 0)
	g.w.noteCert(vh, hash, vr)
	for _, c := range g.chunks(pc) {
		g.sendVote(g.validVote(kindPrecommit, vh, vr, hash, c))
	}
	if late {
		g.sendPH(ph, "legit-late")
	}
	g.cs.count("progress.commit-round")
}

func complement(n int, idxs []int) []int {
	in := map[int]bool{}
	for _, i := range idxs {
		in[i] = true
	}
	var out []int
	for i := 0; i < n; i++ {
		if !in[i] {
			out = append(out, i)
		}
	}
	return out
}

func (g *gen) nilRound(vh uint64, vr uint32) {
	if g.pick(2) == 0 {
		if ph, ok := g.newLegitBlock(vh, vr, 0); ok && vh == g.w.initH {
			g.sendPH(ph, "legit-then-nil")
		}
	}
	pv := g.w.quorumSubset(g.rng, vh, false)
	g.sendVote(g.validVote(kindPrevote, vh, vr, "", pv))
	pc := g.w.quorumSubset(g.rng, vh, g.pick(2) == 0)
	for _, c := range g.chunks(pc) {
		g.sendVote(g.validVote(kindPrecommit, vh, vr, "", c))
	}
	g.noteEnded(vh, vr, "nil-quorum")
	g.cs.count("progress.nil-round")
}

// splitRound: every validator precommits, no target above 2/3.
func (g *gen) splitRound(vh uint64, vr uint32, cr uint32) {
	set := g.w.set(vh)
	if set.n() < 2 {
		g.nilRound(vh, vr)
		return
	}
	ph, ok := g.newLegitBlock(vh, vr, cr)
	if !ok {
		return
	}
	g.sendPH(ph, "legit-split")
	a := g.w.subQuorumSubset(g.rng, vh, true)
	b := complement(set.n(), a)
	if len(b) == 0 {
		return
	}
	if exceedsTwoThirds(set.power(toSet(b)), set.total) {
		a, b = b, a // cannot happen, defensive
	}
	g.sendVote(g.validVote(kindPrecommit, vh, vr, string(ph.Header.Hash), a))
	// the rest vote nil (or are split further)
	if !exceedsTwoThirds(set.power(toSet(b)), set.total) {
		g.sendVote(g.validVote(kindPrecommit, vh, vr, "", b))
		if !exceedsTwoThirds(set.power(toSet(a)), set.total) {
			g.noteEnded(vh, vr, "fully-voted-without-quorum")
		}
	}
	g.cs.count("progress.split-round")
}

func toSet(a []int) map[int]struct{} {
	m := map[int]struct{}{}
	for _, i := range a {
		m[i] = struct{}{}
	}
	return m
}

// jumpRound: at least 1/3 of the power votes in the next round.
func (g *gen) jumpRound(vh uint64, vr uint32) {
	set := g.w.set(vh)
	perm := g.rng.Perm(set.n())
	var idxs []int
	var p uint64
	for _, i := range perm {
		idxs = append(idxs, i)
		p += set.vs.Validators[i].Power
		if atLeastOneThird(p, set.total) {
			break
		}
	}
	sort.Ints(idxs)
	kind := kindPrevote
	if g.pick(2) == 0 {
		kind = kindPrecommit
	}
	hash := ""
	if g.pick(2) == 0 {
		hash = g.randHash()
	}
	if kind == kindPrecommit && exceedsTwoThirds(p, set.total) {
		hash = "" // do not fabricate a commit certificate for an unknown block
	}
	g.sendVote(g.validVote(kind, vh, vr+1, hash, idxs))
	g.cs.count("progress.jump-round")
}

// replayCommit commits the voting height through the header replay path.
func (g *gen) replayCommit(vh uint64, vr uint32, cr uint32) {
	ph, ok := g.newLegitBlock(vh, vr, cr)
	if !ok {
		return
	}
	idxs := g.w.quorumSubset(g.rng, vh, g.pick(2) == 0)
	hash := string(ph.Header.Hash)
	g.w.noteCert(vh, hash, vr)
	proof := g.w.commitProofFor(vh, vr, hash, idxs, nil)
	if g.pick(4) == 0 {
		hd := ph.Header
		if g.pick(2) == 0 {
			hd.ValidatorSet = forgeLists(hd.ValidatorSet, g, g.pick(2) == 0)
		}
		hd.NextValidatorSet = forgeLists(hd.NextValidatorSet, g, g.pick(3) != 0)
		g.sendReplay(hd, proof, "forged-lists-copy-first")
		g.forgedCopies++
	}
	g.sendReplay(ph.Header, proof, "legit")
	g.cs.count("progress.replay-commit")
}

// ---------------------------------------------------------------------------
// hostile votes

func flip(b []byte, rng *rand.Rand) []byte {
	c := bytes.Clone(b)
	if len(c) == 0 {
		return []byte{1}
	}
	c[rng.IntN(len(c))] ^= 1 << uint(rng.IntN(8))
	return c
}

// attackVote builds a hostile vote message aimed at (h, r).
func (g *gen) attackVote(kind string, h uint64, r uint32) *voteMsg {
	set := g.w.set(h)
	n := set.n()
	m := &voteMsg{kind: kind, h: h, r: r, pubKeyHash: string(set.vs.PubKeyHash), hashOK: true,
		proofs: map[string][]gcrypto.SparseSignature{}, meta: map[string][]sigMeta{}}
	other := kindPrecommit
	if kind == kindPrecommit {
		other = kindPrevote
	}
	// candidate targets
	targets := []string{"", g.randHash()}
	for _, bh := range g.roundBlocks[[2]uint64{h, uint64(r)}] {
		targets = append(targets, bh)
	}
	if r > 0 {
		for _, bh := range g.roundBlocks[[2]uint64{h, uint64(r - 1)}] {
			targets = append(targets, bh)
		}
	}
	tgt := func() string { return targets[g.pick(len(targets))] }

	add := func(hash string, ss gcrypto.SparseSignature, meta sigMeta) {
		m.proofs[hash] = append(m.proofs[hash], ss)
		m.meta[hash] = append(m.meta[hash], meta)
	}
	// safeQuorum: hostile *valid* precommits must not fabricate a commit
	// certificate for a block the chain never agreed on; cap valid non-nil
	// precommit signers per target below 2/3 unless the target is nil.
	capSigners := func(hash string, idxs []int) []int {
		if kind != kindPrecommit {
			return idxs
		}
		if hash == "" {
			return idxs
		}
		// For legit blocks of this round a certificate is fine (the harness is the
		// network and may decide any legit block); unknown hashes are capped.
		if bi, ok := g.w.blocks[hash]; ok && bi.legit && bi.h == h {
			if other, have := g.certifiedInRound(h, r); !have || other == hash {
				g.w.noteCert(h, hash, r)
				return idxs
			}
		}
		var out []int
		var p uint64
		for _, i := range idxs {
			q := p + set.vs.Validators[i].Power
			if exceedsTwoThirds(q, set.total) {
				continue
			}
			out = append(out, i)
			p = q
		}
		return out
	}

	att := g.pick(18)
	switch att {
	case 17: // one or two genuine signatures, each listed under its own key id first and then,
		// the very same bytes, under the key ids of the other validators
		m.desc = "one-signature-many-keyids"
		hash := tgt()
		if bs := g.roundBlocks[[2]uint64{h, uint64(r)}]; len(bs) > 0 && g.pick(3) != 0 {
			// mostly for a block the node knows: the copies would make it a commit or a quorum
			hash = bs[g.pick(len(bs))]
		}
		signers := capSigners(hash, g.randSubset(n, 30))
		if len(signers) > 2 {
			signers = signers[:2]
		}
		for _, i := range signers {
			sig := g.w.sign(set.keys[i], kind, h, r, hash)
			add(hash, gcrypto.SparseSignature{KeyID: be16(i), Sig: sig}, sigMeta{i, true, "ok"})
			for j := 0; j < n; j++ {
				own := false
				for _, k := range signers {
					own = own || k == j
				}
				if !own && g.pick(4) != 0 {
					add(hash, gcrypto.SparseSignature{KeyID: be16(j), Sig: bytes.Clone(sig)}, sigMeta{j, false, "copied"})
				}
			}
		}
	case 16: // signed by the previous height's validator set, labelled with that set's hash
		// (a stale peer, or validators the last block removed); nothing here is valid for
		// this height unless the two sets share a key at the same index
		m.desc = "previous-height-validator-set"
		prev := g.w.set(h - 1)
		if h <= g.w.initH+1 || string(prev.vs.PubKeyHash) == string(set.vs.PubKeyHash) {
			prev = g.w.foreignSet(n)
		}
		m.hashOK = false
		m.pubKeyHash = string(prev.vs.PubKeyHash)
		hash := tgt()
		for _, i := range g.randSubset(prev.n(), 70) {
			sig := g.w.sign(prev.keys[i], kind, h, r, hash)
			valid := i < n && string(set.keys[i].pub) == string(prev.keys[i].pub)
			add(hash, gcrypto.SparseSignature{KeyID: be16(i), Sig: sig}, sigMeta{i, valid, "prevset"})
		}
	case 0: // valid votes for an unknown hash
		m.desc = "valid-unknown-hash"
		hash := g.randHash()
		for _, i := range capSigners(hash, g.randSubset(n, 40)) {
			add(hash, gcrypto.SparseSignature{KeyID: be16(i), Sig: g.w.sign(set.keys[i], kind, h, r, hash)}, sigMeta{i, true, "ok"})
		}
	case 1: // mix of valid and bit-flipped in one target
		m.desc = "mixed-valid-and-flipped"
		hash := tgt()
		for _, i := range capSigners(hash, g.randSubset(n, 60)) {
			sig := g.w.sign(set.keys[i], kind, h, r, hash)
			if g.pick(2) == 0 {
				add(hash, gcrypto.SparseSignature{KeyID: be16(i), Sig: flip(sig, g.rng)}, sigMeta{i, false, "flip"})
			} else {
				add(hash, gcrypto.SparseSignature{KeyID: be16(i), Sig: sig}, sigMeta{i, true, "ok"})
			}
		}
	case 2: // all flipped
		m.desc = "all-flipped"
		hash := tgt()
		for _, i := range g.randSubset(n, 50) {
			add(hash, gcrypto.SparseSignature{KeyID: be16(i), Sig: flip(g.w.sign(set.keys[i], kind, h, r, hash), g.rng)}, sigMeta{i, false, "flip"})
		}
	case 3: // foreign keys, right pubkey hash
		m.desc = "foreign-keys"
		f := g.w.foreignSet(n)
		hash := tgt()
		for _, i := range g.randSubset(n, 70) {
			add(hash, gcrypto.SparseSignature{KeyID: be16(i), Sig: g.w.sign(f.keys[i], kind, h, r, hash)}, sigMeta{i, false, "foreign"})
		}
	case 4: // wrong kind
		m.desc = "wrong-kind"
		hash := tgt()
		for _, i := range g.randSubset(n, 70) {
			add(hash, gcrypto.SparseSignature{KeyID: be16(i), Sig: g.w.sign(set.keys[i], other, h, r, hash)}, sigMeta{i, false, "otherkind"})
		}
	case 5: // signed for another round / height / hash
		m.desc = "wrong-target"
		hash := tgt()
		if hash == "" && g.pick(2) == 0 {
			hash = g.randHash()
		}
		variant := g.pick(5)
		for _, i := range g.randSubset(n, 70) {
			var sig []byte
			switch variant {
			case 0:
				sig = g.w.sign(set.keys[i], kind, h, r+1, hash)
			case 1:
				sig = g.w.sign(set.keys[i], kind, h+1, r, hash)
			case 2:
				sig = g.w.sign(set.keys[i], kind, h, r, hash+"x")
			case 3:
				// a genuine nil vote of that validator for this very round, filed under a block hash
				// (or a genuine block vote filed under nil)
				if hash == "" {
					sig = g.w.sign(set.keys[i], kind, h, r, g.randHash())
				} else {
					sig = g.w.sign(set.keys[i], kind, h, r, "")
				}
			default:
				// a genuine vote for another block of the same round
				sig = g.w.sign(set.keys[i], kind, h, r, g.randHash())
			}
			add(hash, gcrypto.SparseSignature{KeyID: be16(i), Sig: sig}, sigMeta{i, false, "othertarget"})
		}
	case 6: // malformed key ids
		m.desc = "malformed-keyid"
		hash := tgt()
		for _, i := range g.randSubset(n, 70) {
			sig := g.w.sign(set.keys[i], kind, h, r, hash)
			var kid []byte
			switch g.pick(6) {
			case 0:
				kid = nil
			case 1:
				kid = []byte{byte(i)}
			case 2:
				kid = append(be16(i), 0)
			case 3:
				kid = append([]byte{0, 0}, be16(i)...)
			case 4:
				kid = be16(n + g.pick(3))
			default:
				kid = []byte{0xff, 0xff}
			}
			add(hash, gcrypto.SparseSignature{KeyID: kid, Sig: sig}, sigMeta{-1, false, "badkid"})
		}
	case 7: // wrong pubkey hash with valid signatures
		m.desc = "wrong-pubkeyhash"
		m.hashOK = false
		switch g.pick(3) {
		case 0:
			m.pubKeyHash = string(g.w.foreignSet(n).vs.PubKeyHash)
		case 1:
			m.pubKeyHash = g.randHash()
		default:
			m.pubKeyHash = ""
		}
		hash := tgt()
		for _, i := range capSigners(hash, g.randSubset(n, 70)) {
			add(hash, gcrypto.SparseSignature{KeyID: be16(i), Sig: g.w.sign(set.keys[i], kind, h, r, hash)}, sigMeta{i, true, "ok"})
		}
	case 8: // equivocation: one or two signers, many targets, all valid
		m.desc = "equivocation"
		signers := g.w.minoritySubset(g.rng, h)
		if len(signers) == 0 {
			signers = []int{g.pick(n)}
		}
		if len(signers) > 2 {
			signers = signers[:2]
		}
		nt := 2 + g.pick(4)
		for t := 0; t < nt; t++ {
			hash := g.randHash()
			if t == 0 {
				hash = ""
			} else if t == 1 {
				hash = tgt()
			}
			if _, dup := m.proofs[hash]; dup {
				continue
			}
			for _, i := range capSigners(hash, signers) {
				add(hash, gcrypto.SparseSignature{KeyID: be16(i), Sig: g.w.sign(set.keys[i], kind, h, r, hash)}, sigMeta{i, true, "ok"})
			}
		}
	case 9: // empty shapes
		m.desc = "empty-shapes"
		switch g.pick(3) {
		case 0: // no entries at all
		case 1:
			m.proofs[tgt()] = nil
		default:
			m.proofs[tgt()] = []gcrypto.SparseSignature{}
		}
		for k := range m.proofs {
			m.meta[k] = nil
		}
	case 10: // duplicate key ids
		m.desc = "duplicate-keyid"
		hash := tgt()
		for _, i := range capSigners(hash, g.randSubset(n, 40)) {
			sig := g.w.sign(set.keys[i], kind, h, r, hash)
			add(hash, gcrypto.SparseSignature{KeyID: be16(i), Sig: sig}, sigMeta{i, true, "ok"})
			add(hash, gcrypto.SparseSignature{KeyID: be16(i), Sig: sig}, sigMeta{i, true, "ok-dup"})
		}
	case 11: // garbage signature bytes
		m.desc = "garbage-sig"
		hash := tgt()
		for _, i := range g.randSubset(n, 60) {
			var sig []byte
			switch g.pick(4) {
			case 0:
				sig = nil
			case 1:
				sig = []byte{1, 2, 3}
			case 2:
				sig = bytes.Repeat([]byte{0xaa}, 64)
			default:
				sig = bytes.Repeat([]byte{7}, 200)
			}
			add(hash, gcrypto.SparseSignature{KeyID: be16(i), Sig: sig}, sigMeta{i, false, "garbage"})
		}
	case 12: // valid signature under a different validator's key id
		m.desc = "swapped-keyid"
		hash := tgt()
		if n >= 2 {
			for _, i := range g.randSubset(n, 60) {
				j := (i + 1) % n
				add(hash, gcrypto.SparseSignature{KeyID: be16(j), Sig: g.w.sign(set.keys[i], kind, h, r, hash)}, sigMeta{j, false, "swapped"})
			}
		}
	case 13: // several targets, each with valid minority support
		m.desc = "multi-target-valid"
		perm := g.rng.Perm(n)
		hashes := []string{"", tgt(), g.randHash()}
		for k, i := range perm {
			hash := hashes[k%len(hashes)]
			for _, ii := range capSigners(hash, []int{i}) {
				add(hash, gcrypto.SparseSignature{KeyID: be16(ii), Sig: g.w.sign(set.keys[ii], kind, h, r, hash)}, sigMeta{ii, true, "ok"})
			}
		}
	case 14: // valid nil votes from a random subset
		m.desc = "valid-nil"
		for _, i := range g.randSubset(n, 50) {
			add("", gcrypto.SparseSignature{KeyID: be16(i), Sig: g.w.sign(set.keys[i], kind, h, r, "")}, sigMeta{i, true, "ok"})
		}
	default: // valid votes for a known block from a random subset
		m.desc = "valid-known"
		hash := tgt()
		for _, i := range capSigners(hash, g.randSubset(n, 50)) {
			add(hash, gcrypto.SparseSignature{KeyID: be16(i), Sig: g.w.sign(set.keys[i], kind, h, r, hash)}, sigMeta{i, true, "ok"})
		}
	}
	// same-signer equivocation across messages must not fabricate commits either:
	// capSigners already limits valid precommits for unknown hashes per message,
	// and unknown hashes are fresh random values per message.
	return m
}

// ---------------------------------------------------------------------------
// hostile proposed headers

func (g *gen) attackPH(h uint64, r uint32, cr uint32) (tmconsensus.ProposedHeader, string, bool) {
	set := g.w.set(h)
	parent, cp, ok := g.parentFor(h, cr)
	// parentQuorum picks the signers of a previous commit proof for parent. When the
	// harness knows no committed parent (h-1 is still being voted on), parent is junk,
	// and a mirror voting on h-1 legitimately files these precommits in its voting
	// round; the honest >2/3 never certify a junk block beside the real one, so only a
	// <1/3 minority signs it.
	parentQuorum := func() []int {
		if !ok {
			return g.w.minoritySubset(g.rng, h-1)
		}
		return g.w.quorumSubset(g.rng, h-1, false)
	}
	if !ok {
		// no committed parent known to the harness for that height: use junk
		parent = []byte(g.randHash())
		cp = initialPrevProof()
		if h > g.w.initH {
			cp = g.w.commitProofFor(h-1, cr, string(parent), parentQuorum(), nil)
		}
	}
	base := func() tmconsensus.ProposedHeader {
		return g.w.makeBlock(h, r, parent, cp, fmt.Sprintf("atk-%d-%d-%d", h, r, g.rng.Uint32()), g.pick(set.n()))
	}
	unlegit := func(ph tmconsensus.ProposedHeader) {
		g.w.mu.Lock()
		if bi, ok := g.w.blocks[string(ph.Header.Hash)]; ok {
			bi.legit = false
		}
		g.w.mu.Unlock()
	}
	att := g.pick(17)
	switch att {
	case 0: // second legit block in the round
		ph := base()
		k := [2]uint64{h, uint64(r)}
		g.roundBlocks[k] = append(g.roundBlocks[k], string(ph.Header.Hash))
		return ph, "second-legit", true
	case 1: // tampered field, hash kept
		ph := base()
		unlegit(ph)
		switch g.pick(4) {
		case 0:
			ph.Header.DataID = []byte("tampered")
		case 1:
			ph.Header.PrevAppStateHash = []byte("tampered")
		case 2:
			ph.Header.Height = h // same; tamper hash instead
			ph.Header.Hash = flip(ph.Header.Hash, g.rng)
		default:
			ph.Header.PrevBlockHash = flip(ph.Header.PrevBlockHash, g.rng)
		}
		return ph, "bad-hash", true
	case 2: // bad signature
		ph := base()
		unlegit(ph)
		switch g.pick(3) {
		case 0:
			ph.Signature = flip(ph.Signature, g.rng)
		case 1:
			ph.Signature = nil
		default:
			// signed by another validator, claiming the original proposer
			orig := ph.ProposerPubKey
			g.w.signProposal(&ph, g.w.foreignSet(set.n()).keys[0])
			ph.ProposerPubKey = orig
		}
		return ph, "bad-signature", true
	case 3: // unknown or nil proposer
		ph := base()
		unlegit(ph)
		if g.pick(2) == 0 {
			g.w.signProposal(&ph, g.w.foreignSet(set.n()).keys[0])
		} else {
			ph.ProposerPubKey = nil
		}
		return ph, "unknown-or-nil-proposer", true
	case 4, 5: // forged copy of a legit block: validator lists altered, hashes and signature kept
		var ph tmconsensus.ProposedHeader
		if bl := g.roundBlocks[[2]uint64{h, uint64(r)}]; len(bl) > 0 && g.pick(2) == 0 {
			ph = g.w.blocks[bl[g.pick(len(bl))]].ph
		} else {
			ph = base()
			k := [2]uint64{h, uint64(r)}
			g.roundBlocks[k] = append(g.roundBlocks[k], string(ph.Header.Hash))
		}
		forged := ph
		forged.Header.ValidatorSet = forgeLists(ph.Header.ValidatorSet, g, att == 4)
		forged.Header.NextValidatorSet = forgeLists(ph.Header.NextValidatorSet, g, true)
		return forged, "forged-validator-lists", true
	case 6: // wrong PrevBlockHash, otherwise consistent and well signed
		if h <= g.w.initH {
			return tmconsensus.ProposedHeader{}, "", false
		}
		wrongParent := []byte(g.randHash())
		ph := g.w.makeBlock(h, r, wrongParent, cp, "fork", g.pick(set.n()))
		unlegit(ph)
		k := [2]uint64{h, uint64(r)}
		_ = k
		return ph, "wrong-prev-block-hash", true
	case 7, 8, 9, 10: // previous commit proof variants
		if h <= g.w.initH {
			return tmconsensus.ProposedHeader{}, "", false
		}
		pset := g.w.set(h - 1)
		var bad tmconsensus.CommitProof
		var desc string
		sub := g.pick(9)
		if !ok && sub != 2 && sub != 3 {
			// junk parent: validators of h-1 sign it only as a <1/3 minority (see parentQuorum)
			sub = -1
		}
		switch sub {
		case -1:
			bad = g.w.commitProofFor(h-1, cr+uint32(g.pick(2)), string(parent), parentQuorum(), nil)
			desc = "prevcommit-junk-parent-minority"
		case 0:
			bad = g.w.commitProofFor(h-1, cr, string(parent), g.w.subQuorumSubset(g.rng, h-1, true), nil)
			desc = "prevcommit-underpowered"
		case 1:
			q := parentQuorum()
			bad = g.w.commitProofFor(h-1, cr, string(parent), q, map[string][]int{"": {q[0]}})
			desc = "prevcommit-double-signed"
		case 2:
			f := g.w.foreignSet(pset.n())
			bad = tmconsensus.CommitProof{Round: cr, PubKeyHash: string(f.vs.PubKeyHash), Proofs: map[string][]gcrypto.SparseSignature{}}
			for i := range f.keys {
				bad.Proofs[string(parent)] = append(bad.Proofs[string(parent)], gcrypto.SparseSignature{KeyID: be16(i), Sig: g.w.sign(f.keys[i], kindPrecommit, h-1, cr, string(parent))})
			}
			desc = "prevcommit-foreign-set"
		case 3:
			f := g.w.foreignSet(pset.n())
			bad = tmconsensus.CommitProof{Round: cr, PubKeyHash: string(pset.vs.PubKeyHash), Proofs: map[string][]gcrypto.SparseSignature{}}
			for i := range f.keys {
				bad.Proofs[string(parent)] = append(bad.Proofs[string(parent)], gcrypto.SparseSignature{KeyID: be16(i), Sig: g.w.sign(f.keys[i], kindPrecommit, h-1, cr, string(parent))})
			}
			desc = "prevcommit-foreign-sigs-right-hash"
		case 4:
			bad = g.w.commitProofFor(h-1, cr, string(parent), parentQuorum(), nil)
			sigs := bad.Proofs[string(parent)]
			sigs[g.pick(len(sigs))].KeyID = [][]byte{nil, {1}, {0, 0, 0}}[g.pick(3)]
			desc = "prevcommit-short-keyid"
		case 8:
			// the validator hash of the proof left empty (for a header of the committing
			// height the mirror has no previous validator set at hand, whose hash is empty too)
			bad = g.w.commitProofFor(h-1, cr, string(parent), parentQuorum(), nil)
			bad.PubKeyHash = ""
			if g.pick(3) == 0 {
				bad.Proofs = map[string][]gcrypto.SparseSignature{}
			}
			desc = "prevcommit-empty-pubkeyhash"
		case 5:
			bad = g.w.commitProofFor(h-1, cr+1, string(parent), parentQuorum(), nil)
			desc = "prevcommit-other-round-valid"
		case 6:
			q := parentQuorum()
			rest := complement(pset.n(), q)
			others := map[string][]int{}
			if len(rest) > 0 {
				others[""] = rest
			}
			bad = g.w.commitProofFor(h-1, cr, string(parent), q, others)
			desc = "prevcommit-with-extra-nil-target"
		default:
			q := parentQuorum()
			rest := complement(pset.n(), q)
			others := map[string][]int{}
			if len(rest) > 0 {
				others[g.randHash()] = rest
			}
			bad = g.w.commitProofFor(h-1, cr, string(parent), q, others)
			desc = "prevcommit-with-extra-unknown-target"
		}
		ph := g.w.makeBlock(h, r, parent, bad, "pcp", g.pick(set.n()))
		if desc != "prevcommit-with-extra-nil-target" && desc != "prevcommit-with-extra-unknown-target" && desc != "prevcommit-other-round-valid" {
			unlegit(ph)
		} else {
			k := [2]uint64{h, uint64(r)}
			g.roundBlocks[k] = append(g.roundBlocks[k], string(ph.Header.Hash))
		}
		return ph, desc, true
	case 11: // duplicate of something offered before
		if len(g.offered) == 0 {
			return tmconsensus.ProposedHeader{}, "", false
		}
		return g.offered[g.pick(len(g.offered))], "duplicate", true
	case 12: // same header re-signed by another validator of the set
		bl := g.roundBlocks[[2]uint64{h, uint64(r)}]
		if len(bl) == 0 || set.n() < 2 {
			return tmconsensus.ProposedHeader{}, "", false
		}
		ph := g.w.blocks[bl[g.pick(len(bl))]].ph
		for _, k := range set.keys {
			if !k.pub.Equal(ph.ProposerPubKey) {
				g.w.signProposal(&ph, k)
				break
			}
		}
		return ph, "resigned-by-other-validator", true
	case 13: // annotations variants (signed)
		ph := base()
		ph.Annotations = tmconsensus.Annotations{User: []byte("u"), Driver: []byte{}}
		g.w.signProposal(&ph, set.keys[g.pick(set.n())])
		k := [2]uint64{h, uint64(r)}
		g.roundBlocks[k] = append(g.roundBlocks[k], string(ph.Header.Hash))
		return ph, "annotated", true
	case 14: // empty validator lists
		ph := base()
		unlegit(ph)
		ph.Header.ValidatorSet.Validators = nil
		ph.Header.ValidatorSet.PubKeys = nil
		return ph, "empty-validator-lists", true
	case 15: // nil commit proof map
		ph := base()
		unlegit(ph)
		ph.Header.PrevCommitProof.Proofs = nil
		return ph, "nil-prevcommit-map", true
	default: // header for another height but block round mismatch
		ph := base()
		ph.Round = r + 1
		unlegit(ph)
		return ph, "round-field-differs-from-signed", true
	}
}

// forgeLists returns a copy of vs whose validator lists were altered while
// both hashes stay as they were. keys=true swaps keys, false alters powers.
func forgeLists(vs tmconsensus.ValidatorSet, g *gen, keys bool) tmconsensus.ValidatorSet {
	mode := []int{1, 1, 4}[g.pick(3)]
	if keys {
		mode = []int{0, 0, 2, 3}[g.pick(4)]
	}
	return forgeListsMode(vs, g, mode)
}

// forgeListsMode: 0 = foreign keys in both lists, 1 = powers altered,
// 2 = only the PubKeys list replaced (Validators untouched),
// 3 = only the Validators' keys replaced (PubKeys untouched),
// 4 = the digits of two neighbouring powers split elsewhere.
func forgeListsMode(vs tmconsensus.ValidatorSet, g *gen, mode int) tmconsensus.ValidatorSet {
	out := tmconsensus.ValidatorSet{PubKeyHash: vs.PubKeyHash, VotePowerHash: vs.VotePowerHash}
	out.Validators = append([]tmconsensus.Validator(nil), vs.Validators...)
	out.PubKeys = append([]gcrypto.PubKey(nil), vs.PubKeys...)
	n := len(out.Validators)
	if n == 0 {
		return out
	}
	f := g.w.foreignSet(n)
	switch mode {
	case 0:
		for i := range out.Validators {
			out.Validators[i].PubKey = f.keys[i].pub
			out.PubKeys[i] = f.keys[i].pub
		}
	case 1:
		for i := range out.Validators {
			out.Validators[i].Power = 1
		}
		out.Validators[0].Power = 1 << 40
	case 2:
		for i := range out.PubKeys {
			out.PubKeys[i] = f.keys[i].pub
		}
	case 4:
		// the decimal digits of two neighbouring powers split at another place ("12","3" ->
		// "1","23"): the list a separator-free power hash cannot tell from the original;
		// falls back to mode 1 when no other split exists
		done := false
		for i := 0; i+1 < n && !done; i++ {
			a, b := strconv.FormatUint(out.Validators[i].Power, 10), strconv.FormatUint(out.Validators[i+1].Power, 10)
			digits := a + b
			for c := 1; c < len(digits) && !done; c++ {
				if c == len(a) || digits[c] == '0' {
					continue
				}
				p0, e0 := strconv.ParseUint(digits[:c], 10, 64)
				p1, e1 := strconv.ParseUint(digits[c:], 10, 64)
				if e0 == nil && e1 == nil && p0 > 0 && p1 > 0 {
					out.Validators[i].Power, out.Validators[i+1].Power = p0, p1
					done = true
				}
			}
		}
		if !done {
			return forgeListsMode(vs, g, 1)
		}
	default:
		for i := range out.Validators {
			out.Validators[i].PubKey = f.keys[i].pub
		}
	}
	return out
}

// overlappingVotes is the two-callers schedule: message M1 carries valid votes for two
// targets {X: a, T: b}; while its call is parked between the mirror's merge and the kernel
// request (hook point mirror.vote.beforeAdd), message M2 = {T: b} is delivered completely;
// then M1 continues: its part for T is now stale, its part for X is new. Whatever the kernel
// makes of that, the views and what the consumers are told must agree afterwards.
func (g *gen) overlappingVotes(vh uint64, vr uint32, cr uint32) {
	if g.recording || g.tape != nil {
		return
	}
	set := g.w.set(vh)
	if set.n() < 2 {
		return
	}
	if g.pick(4) == 0 {
		// third schedule: two copies of one vote for a round beyond the next one (or for the
		// next height) are handled concurrently: both pass the mirror's look at the round store
		// before either reaches the kernel
		kind := kindPrevote
		if g.pick(2) == 0 {
			kind = kindPrecommit
		}
		h, r := vh, vr+2+uint32(g.pick(2))
		if g.pick(4) == 0 {
			h, r = vh+1, uint32(g.pick(2))
		}
		one := g.w.minoritySubset(g.rng, h)
		if len(one) == 0 {
			return
		}
		target := ""
		if g.pick(2) == 0 {
			target = g.randHash()
		}
		m1 := g.validVote(kind, h, r, target, one[:1])
		m1.desc = "future-vote(held)"
		m2 := g.validVote(kind, h, r, target, one[:1])
		m2.desc = "future-vote-duplicate"
		g.w.noteDelivered(voteKey{kind, h, r, target}, one[:1])
		hold := newVoteHold()
		done := make(chan struct{})
		go func() {
			defer close(done)
			g.doSendVoteHeld(m1, false, hold)
		}()
		select {
		case <-hold.arrived:
			g.cs.count("overlap.future-vote-parked-before-add")
			// the duplicate is parked at the same point, then both continue
			hold2 := newVoteHold()
			done2 := make(chan struct{})
			go func() {
				defer close(done2)
				g.doSendVoteHeld(m2, false, hold2)
			}()
			select {
			case <-hold2.arrived:
				g.cs.count("overlap.future-vote-duplicate-parked-too")
			case <-done2:
			}
			close(hold.release)
			close(hold2.release)
			<-done
			<-done2
		case <-done:
			g.cs.count("overlap.first-call-returned-before-the-hook")
		}
		return
	}
	if g.pick(3) == 0 {
		// second schedule: a vote for the next round is parked between the mirror's merge and
		// the kernel request while the voting round commits; when it continues, its round is a
		// later round of the committing height
		kind := kindPrevote
		if g.pick(2) == 0 {
			kind = kindPrecommit
		}
		one := g.w.minoritySubset(g.rng, vh)
		if len(one) == 0 {
			return
		}
		target := ""
		if g.pick(2) == 0 {
			target = g.randHash()
		}
		m1 := g.validVote(kind, vh, vr+1, target, one[:1])
		m1.desc = "next-round-vote(held across the commit)"
		g.w.noteDelivered(voteKey{kind, vh, vr + 1, target}, one[:1])
		hold := newVoteHold()
		done := make(chan struct{})
		go func() {
			defer close(done)
			g.doSendVoteHeld(m1, false, hold)
		}()
		select {
		case <-hold.arrived:
			g.cs.count("overlap.next-round-vote-parked-across-commit")
			g.commitRound(vh, vr, cr, g.pick(4))
			close(hold.release)
			<-done
		case <-done:
			g.cs.count("overlap.first-call-returned-before-the-hook")
		}
		return
	}
	kind := kindPrevote
	if g.pick(3) == 0 {
		kind = kindPrecommit
	}
	r := vr
	if g.pick(4) == 0 {
		r = vr + 1
	}
	// two different validators that together stay below one third (so that nothing shifts
	// between the two deliveries); else any two
	a, b := g.pick(set.n()), g.pick(set.n())
	if m := g.w.minoritySubset(g.rng, vh); len(m) >= 2 {
		a, b = m[0], m[1]
	}
	if a == b {
		b = (a + 1) % set.n()
	}
	x, t := g.randHash(), ""
	if bl := g.roundBlocks[[2]uint64{vh, uint64(r)}]; len(bl) > 0 {
		x = bl[g.pick(len(bl))]
	}
	if g.pick(3) == 0 {
		t = g.randHash()
	}
	m1 := g.validVote(kind, vh, r, x, []int{a})
	m1.desc = "overlap-first(held)"
	m1.proofs[t] = g.w.validSparse(kind, vh, r, t, []int{b})
	m1.meta[t] = append(m1.meta[t], sigMeta{idx: b, valid: true, mode: "ok"})
	m2 := g.validVote(kind, vh, r, t, []int{b})
	m2.desc = "overlap-second"
	g.w.noteDelivered(voteKey{kind, vh, r, x}, []int{a})
	g.w.noteDelivered(voteKey{kind, vh, r, t}, []int{b})

	hold := newVoteHold()
	done := make(chan struct{})
	go func() {
		defer close(done)
		g.doSendVoteHeld(m1, false, hold)
	}()
	reached := false
	select {
	case <-hold.arrived:
		reached = true
	case <-done:
	}
	if reached {
		g.cs.count("overlap.first-call-parked-before-add")
		g.doSendVote(m2, false)
		close(hold.release)
		<-done
	} else {
		g.cs.count("overlap.first-call-returned-before-the-hook")
		g.doSendVote(m2, false)
	}
}

// ---------------------------------------------------------------------------
// hostile replays

func (g *gen) attackReplay(vh uint64, vr uint32, cr uint32) {
	set := g.w.set(vh)
	att := g.pick(13)
	switch att {
	case 12: // genuine validators and hashes, only the PubKeys list replaced, certificate by those keys
		ph, ok := g.newLegitBlock(vh, vr, cr)
		if !ok {
			return
		}
		hd := ph.Header
		hd.ValidatorSet = forgeListsMode(hd.ValidatorSet, g, 2)
		f := g.w.foreignSet(len(hd.ValidatorSet.PubKeys))
		proof := tmconsensus.CommitProof{Round: vr, PubKeyHash: string(hd.ValidatorSet.PubKeyHash), Proofs: map[string][]gcrypto.SparseSignature{}}
		for i := range f.keys {
			proof.Proofs[string(hd.Hash)] = append(proof.Proofs[string(hd.Hash)], gcrypto.SparseSignature{KeyID: be16(i), Sig: g.w.sign(f.keys[i], kindPrecommit, vh, vr, string(hd.Hash))})
		}
		g.sendReplay(hd, proof, "pubkeys-list-swapped-certificate-by-those-keys")
	case 10, 11: // signatures of one round presented as the certificate of a later one
		// The node is first given one genuine precommit for the block in the source round
		// (its voting round or the next one), so that it holds a proof entry for that hash;
		// the replay then claims a round two or three past the voting round and carries a
		// quorum of signatures that are genuine precommits for the source round. For the
		// claimed round they are worth nothing.
		ph, ok := g.newLegitBlock(vh, vr, cr)
		if !ok {
			return
		}
		hash := string(ph.Header.Hash)
		src := vr
		if att == 11 {
			src = vr + 1
		}
		one := g.w.minoritySubset(g.rng, vh)
		if len(one) > 1 {
			one = one[:1]
		}
		if len(one) == 1 {
			if att == 10 {
				g.sendPH(ph, "legit")
			}
			g.sendVote(g.validVote(kindPrecommit, vh, src, hash, one))
		}
		claimed := vr + 2 + uint32(g.pick(2))
		proof := g.w.commitProofFor(vh, src, hash, g.w.quorumSubset(g.rng, vh, false), nil)
		proof.Round = claimed
		g.sendReplay(ph.Header, proof, fmt.Sprintf("round-%d-signatures-relabelled-as-round-%d", src, claimed))
	case 0: // wrong height
		dh := []int{-2, -1, 1, 2, 3}[g.pick(5)]
		h := int64(vh) + int64(dh)
		if h < int64(g.w.initH) {
			h = int64(g.w.initH)
		}
		if uint64(h) == vh {
			return
		}
		parent, cp, ok := g.parentFor(uint64(h), cr)
		if !ok {
			parent, cp = []byte(g.randHash()), initialPrevProof()
		}
		ph := g.w.makeBlock(uint64(h), 0, parent, cp, "replay-wrong-height", 0)
		g.w.mu.Lock()
		g.w.blocks[string(ph.Header.Hash)].legit = false
		g.w.mu.Unlock()
		// sub-quorum proof: it must be refused for its height alone
		g.sendReplay(ph.Header, g.w.commitProofFor(uint64(h), 0, string(ph.Header.Hash), g.w.subQuorumSubset(g.rng, uint64(h), true), nil), "wrong-height")
	case 1: // under-powered
		ph, ok := g.newLegitBlock(vh, vr, cr)
		if !ok {
			return
		}
		sub := g.w.subQuorumSubset(g.rng, vh, true)
		desc := "underpowered"
		if len(sub) >= 2 && g.pick(2) == 0 {
			// the node already holds a precommit for the block (from a validator outside the
			// replay's proof), so the replay's signatures are merged into an existing entry
			// before the replay is refused
			g.sendPH(ph, "legit")
			g.sendVote(g.validVote(kindPrecommit, vh, vr, string(ph.Header.Hash), sub[:1]))
			sub = sub[1:]
			desc = "underpowered-onto-existing-precommits"
		}
		g.sendReplay(ph.Header, g.w.commitProofFor(vh, vr, string(ph.Header.Hash), sub, nil), desc)
	case 2: // tampered header (hash no longer matches)
		ph, ok := g.newLegitBlock(vh, vr, cr)
		if !ok {
			return
		}
		hd := ph.Header
		hd.DataID = []byte("tampered")
		g.sendReplay(hd, g.w.commitProofFor(vh, vr, string(hd.Hash), g.w.quorumSubset(g.rng, vh, false), nil), "tampered-header")
	case 3: // foreign validator set in the header, certificate by that foreign set
		parent, cp, ok := g.parentFor(vh, cr)
		if !ok {
			return
		}
		f := g.w.foreignSet(set.n())
		hd := tmconsensus.Header{Height: vh, PrevBlockHash: parent, PrevCommitProof: cp, ValidatorSet: f.vs, NextValidatorSet: f.vs, DataID: []byte("foreign"), PrevAppStateHash: []byte("x")}
		rehash(&hd)
		proof := tmconsensus.CommitProof{Round: vr, PubKeyHash: string(f.vs.PubKeyHash), Proofs: map[string][]gcrypto.SparseSignature{}}
		for i := range f.keys {
			proof.Proofs[string(hd.Hash)] = append(proof.Proofs[string(hd.Hash)], gcrypto.SparseSignature{KeyID: be16(i), Sig: g.w.sign(f.keys[i], kindPrecommit, vh, vr, string(hd.Hash))})
		}
		g.sendReplay(hd, proof, "foreign-validator-set")
	case 4: // forged lists in an otherwise legit header, legit certificate
		ph, ok := g.newLegitBlock(vh, vr, cr)
		if !ok {
			return
		}
		hd := ph.Header
		hd.ValidatorSet = forgeLists(hd.ValidatorSet, g, g.pick(2) == 0)
		hd.NextValidatorSet = forgeLists(hd.NextValidatorSet, g, true)
		g.w.noteCert(vh, string(hd.Hash), vr)
		g.sendReplay(hd, g.w.commitProofFor(vh, vr, string(hd.Hash), g.w.quorumSubset(g.rng, vh, false), nil), "forged-validator-lists")
	case 5: // certificate for another hash
		ph, ok := g.newLegitBlock(vh, vr, cr)
		if !ok {
			return
		}
		other := g.randHash()
		idxs := g.w.subQuorumSubset(g.rng, vh, true)
		g.sendReplay(ph.Header, g.w.commitProofFor(vh, vr, other, idxs, nil), "proof-for-other-hash")
	case 6: // one invalid signature inside an otherwise sufficient proof
		ph, ok := g.newLegitBlock(vh, vr, cr)
		if !ok {
			return
		}
		proof := g.w.commitProofFor(vh, vr, string(ph.Header.Hash), g.w.subQuorumSubset(g.rng, vh, true), nil)
		sigs := proof.Proofs[string(ph.Header.Hash)]
		if len(sigs) > 0 {
			k := g.pick(len(sigs))
			sigs[k].Sig = flip(sigs[k].Sig, g.rng)
		}
		g.sendReplay(ph.Header, proof, "invalid-signature-inside")
	case 7: // later round
		ph, ok := g.newLegitBlock(vh, vr+1+uint32(g.pick(2)), cr)
		if !ok {
			return
		}
		idxs := g.w.quorumSubset(g.rng, vh, false)
		g.w.noteCert(vh, string(ph.Header.Hash), ph.Round)
		g.sendReplay(ph.Header, g.w.commitProofFor(vh, ph.Round, string(ph.Header.Hash), idxs, nil), "later-round")
	case 8: // wrong prev block hash, valid certificate
		if vh <= g.w.initH {
			return
		}
		_, cp, ok := g.parentFor(vh, cr)
		if !ok {
			return
		}
		ph := g.w.makeBlock(vh, vr, []byte(g.randHash()), cp, "fork-replay", 0)
		g.w.mu.Lock()
		g.w.blocks[string(ph.Header.Hash)].legit = false
		g.w.mu.Unlock()
		g.w.noteCert(vh, string(ph.Header.Hash), vr)
		g.sendReplay(ph.Header, g.w.commitProofFor(vh, vr, string(ph.Header.Hash), g.w.quorumSubset(g.rng, vh, false), nil), "wrong-prev-block-hash")
	default: // wrong pubkey hash on the proof
		ph, ok := g.newLegitBlock(vh, vr, cr)
		if !ok {
			return
		}
		proof := g.w.commitProofFor(vh, vr, string(ph.Header.Hash), g.w.subQuorumSubset(g.rng, vh, true), nil)
		proof.PubKeyHash = g.randHash()
		g.sendReplay(ph.Header, proof, "proof-wrong-pubkeyhash")
	}
}

// ---------------------------------------------------------------------------
// state machine stand-in steps

func (g *gen) smStep(vh uint64, vr uint32, ch uint64) {
	if g.recording {
		// state-machine stand-in steps all run on one goroutine of the concurrent phase
		seed := g.rng.Uint64()
		g.recordSM = append(g.recordSM, func() {
			sub := *g
			sub.recording = false
			sub.rng = rand.New(rand.NewPCG(seed, 7))
			sub.smStepNow(vh, vr, ch)
		})
		return
	}
	g.smStepNow(vh, vr, ch)
}

func (g *gen) smStepNow(vh uint64, vr uint32, ch uint64) {
	switch g.pick(6) {
	case 0, 1: // enter the voting round
		var key *vkey
		if g.pick(4) != 0 {
			k := g.w.set(vh).keys[g.pick(g.w.set(vh).n())]
			key = &k
		}
		resp, ok := g.n.smEnter(vh, vr, key)
		g.cs.logf("SM enter %d/%d key=%v -> vrv=%v ch=%v ok=%v", vh, vr, key != nil, resp.IsVRV(), resp.IsCH(), ok)
		g.cs.count("msg.sm-enter")
	case 2: // enter an old, committed height: the answer is a committed header
		if ch == 0 || ch <= g.w.initH {
			return
		}
		h := g.w.initH + uint64(g.pick(int(ch-g.w.initH)))
		resp, ok := g.n.smEnter(h, 0, nil)
		g.cs.logf("SM enter old %d/0 -> vrv=%v ch=%v ok=%v", h, resp.IsVRV(), resp.IsCH(), ok)
		g.cs.count("msg.sm-enter-old")
		if ok && resp.IsCH() {
			if debugCH {
				fmt.Printf("DEBUG CH h=%d hash=%x proofRound=%d pkh=%x nproofs=%d\n", resp.CH.Header.Height, resp.CH.Header.Hash, resp.CH.Proof.Round, resp.CH.Proof.PubKeyHash, len(resp.CH.Proof.Proofs))
				for k, v := range resp.CH.Proof.Proofs {
					fmt.Printf("   %x => %d sigs\n", k, len(v))
				}
			}
			g.cs.mu.Lock()
			g.cs.commitEvents = append(g.cs.commitEvents, commitEvent{source: "RoundEntranceResponse.CH", h: resp.CH.Header.Height, round: resp.CH.Proof.Round, hash: string(resp.CH.Header.Hash), proof: resp.CH.Proof.Clone(), header: resp.CH.Header})
			g.cs.mu.Unlock()
		}
	case 3: // enter the next round (state machine timed out first)
		resp, ok := g.n.smEnter(vh, vr+1, nil)
		g.cs.logf("SM enter next %d/%d -> vrv=%v ok=%v", vh, vr+1, resp.IsVRV(), ok)
		g.cs.count("msg.sm-enter-next")
	default: // local action in the round the stand-in is in
		if g.n.smActions == nil || g.n.smKey == nil {
			return
		}
		h, r, key := g.n.smH, g.n.smR, *g.n.smKey
		set := g.w.set(h)
		idx := -1
		for i, k := range set.keys {
			if k.pub.Equal(key.pub) {
				idx = i
			}
		}
		if idx < 0 {
			return
		}
		hash := ""
		if bl := g.roundBlocks[[2]uint64{h, uint64(r)}]; len(bl) > 0 && g.pick(3) != 0 {
			hash = bl[g.pick(len(bl))]
		}
		kind := kindPrevote
		if g.pick(2) == 0 {
			kind = kindPrecommit
		}
		sig := g.w.sign(key, kind, h, r, hash)
		g.w.noteDelivered(voteKey{kind, h, r, hash}, []int{idx})
		sc := tmeil.ScopedSignature{TargetHash: hash, SignContent: voteSignBytes(kind, h, r, hash), Sig: sig}
		var act tmeil.StateMachineRoundAction
		if kind == kindPrevote {
			act.Prevote = sc
		} else {
			act.Precommit = sc
		}
		ok := g.n.smAct(act)
		g.cs.logf("SM action %s %d/%d idx=%d hash=%s ok=%v", kind, h, r, idx, shortHash(hash), ok)
		g.cs.count("msg.sm-action")
	}
}

// ---------------------------------------------------------------------------
// one generated step

// offsets near the node's position, biased towards 0.
// conflictingCertificate: "late ... and conflicting certificates for already committed heights"
// (C04's quantifier). After the node committed block A at height ch in round cr, every
// validator's genuine precommit for another block B of that same round is delivered (more
// than one third of the power equivocates: outside what a BFT network tolerates, inside what
// C04 promises of a single node's chain), and then a proposed header for the voting height that
// builds on B and carries B's certificate as its previous commit proof. Only if the node accepts
// that header does it also get the precommits that would commit it. Whatever happens, the
// chain monitors of C04 look at the stores after this step as after every other one.
func (g *gen) conflictingCertificate(vh uint64, vr uint32, ch uint64, cr uint32) {
	if ch == 0 || ch < g.w.initH || vh != ch+1 {
		return
	}
	g.cs.mu.Lock()
	a, ok := g.cs.committedHash[ch]
	g.cs.mu.Unlock()
	if !ok {
		return
	}
	b := ""
	g.w.mu.Lock()
	for _, bh := range g.roundBlocks[[2]uint64{ch, uint64(cr)}] {
		if bi := g.w.blocks[bh]; bh != a && bi != nil && bi.legit && bi.h == ch {
			b = bh
		}
	}
	g.w.mu.Unlock()
	if b == "" {
		g.cs.count("attack.conflicting-certificate.no-second-block-in-commit-round")
		return
	}
	set := g.w.set(ch)
	all := make([]int, set.n())
	for i := range all {
		all[i] = i
	}
	g.cs.count("attack.conflicting-certificate")
	g.cs.logf("ATTACK conflicting certificate: height %d round %d committed %s, now every validator precommits %s", ch, cr, shortHash(a), shortHash(b))
	m := g.validVote(kindPrecommit, ch, cr, b, all)
	m.desc = "conflicting-certificate-for-committed-height"
	g.sendVote(m)
	// a header for the voting height on top of B, with B's certificate
	cp := g.w.commitProofFor(ch, cr, b, all, nil)
	g.noteProofDelivered(ch, cp)
	ph := g.w.makeBlock(vh, vr, []byte(b), cp, fmt.Sprintf("on-conflicting-%d-%d-%d", vh, vr, g.rng.Uint32()), g.pick(g.w.set(vh).n()))
	g.w.mu.Lock()
	if bi, ok := g.w.blocks[string(ph.Header.Hash)]; ok {
		bi.legit = false
	}
	g.w.mu.Unlock()
	if g.pick(2) == 0 {
		// restart on the same stores before the next step: the committing header must come back as
		// what the committed-header store holds, not as what the precommits now favour
		g.wantRestart = true
	}
	res, ok := g.sendPH(ph, "builds-on-conflicting-certificate")
	if ok && res == tmconsensus.HandleProposedHeaderAccepted {
		g.cs.count("attack.conflicting-certificate.header-on-other-block-accepted")
		g.sendVote(g.validVote(kindPrecommit, vh, vr, string(ph.Header.Hash), g.w.quorumSubset(g.rng, vh, false)))
	}
}

func (g *gen) off() int {
	return []int{0, 0, 0, 0, 1, 1, -1, -1, 2, -2, 3, -3}[g.pick(12)]
}

func (g *gen) attack() {
	vh, vr, ch, cr, ok := g.n.pos()
	if !ok {
		return
	}
	g.attacks++
	h := int64(vh) + int64(g.off())
	if h < 0 {
		h = 0 // height 0 is encodable too: before the first commit the committing view is the zero view
	}
	r := int64(vr) + int64(g.off())
	if r < 0 {
		r = 0
	}
	if !g.allowCrashy {
		// Stay inside the window for which the tree classifies messages
		// (outside of it the kernel panics: known C09 findings).
		h, r = clampWindow(h, r, vh, vr, ch, cr)
	}
	if ch > 0 && uint64(h) <= ch {
		g.lateForCommitted++
	}
	switch x := g.pick(100); {
	case x < 4:
		g.overlappingVotes(vh, vr, cr)
	case x < 6:
		g.conflictingCertificate(vh, vr, ch, cr)
	case x < 8 && g.allowAbandon:
		// a genuine vote for a round beyond the next one (or for the next height) whose caller
		// gives up while the kernel is working on it
		kind := kindPrevote
		if g.pick(2) == 0 {
			kind = kindPrecommit
		}
		fh, fr := vh, vr+2+uint32(g.pick(2))
		if g.pick(4) == 0 {
			fh, fr = vh+1, uint32(g.pick(2))
		}
		m := g.validVote(kind, fh, fr, "", g.w.minoritySubset(g.rng, fh))
		m.desc = "abandoned-future-vote"
		g.cs.count("attack.abandoned-future-vote")
		g.n.abandonNext.Store(true)
		g.sendVote(m)
		g.n.abandonNext.Store(false)
	case x < 40:
		kind := kindPrevote
		if g.pick(2) == 0 {
			kind = kindPrecommit
		}
		g.sendVote(g.attackVote(kind, uint64(h), uint32(r)))
	case x < 75:
		ph, desc, ok := g.attackPH(uint64(h), uint32(r), cr)
		if ok {
			g.sendPH(ph, desc)
		}
	case x < 88:
		g.attackReplay(vh, vr, cr)
	default:
		g.smStep(vh, vr, ch)
	}
}

// clampWindow keeps (h, r) where the current tree has a defined classification.
func clampWindow(h, r int64, vh uint64, vr uint32, ch uint64, cr uint32) (int64, int64) {
	return h, r
}

func (g *gen) step() {
	if g.pick(100) < g.attackWeight {
		g.attack()
	} else {
		g.progress()
	}
}

// pregen generates the next step in record mode and returns its deliveries
// as one closure (nil if the step produced nothing).
func (g *gen) pregen() func() {
	g.recording = true
	g.record = nil
	g.step()
	g.recording = false
	fs := g.record
	g.record = nil
	if len(fs) == 0 {
		return nil
	}
	return func() {
		for _, f := range fs {
			f()
		}
	}
}

// takeRecordedSM returns the state-machine stand-in closures collected in record mode.
func (g *gen) takeRecordedSM() []func() {
	fs := g.recordSM
	g.recordSM = nil
	return fs
}

// minorityOnly is the C06 consequence scenario: from now on only a set of
// validators holding less than one third of the power speaks, voting for many
// targets in the voting round, the next round and future rounds. The node
// must not leave its voting round.
func (g *gen) minorityOnly() {
	vh, vr, _, _, ok := g.n.pos()
	if !ok {
		return
	}
	set := g.w.set(vh)
	b := g.w.minoritySubset(g.rng, vh)
	if len(b) == 0 {
		return
	}
	// only votes delivered from here on matter; the round must be fresh
	// (nobody outside b may have voted in vr or later rounds of vh).
	for k := range g.w.delivered {
		if k.h == vh && k.r >= vr {
			for i := range g.w.delivered[k] {
				inB := false
				for _, j := range b {
					if i == j {
						inB = true
					}
				}
				if !inB {
					return
				}
			}
		}
	}
	g.cs.logf("MINORITY-ONLY scenario at %d/%d signers=%v power<1/3 of %d", vh, vr, b, set.total)
	nmsg := 4 + g.pick(8)
	for m := 0; m < nmsg; m++ {
		kind := kindPrevote
		if g.pick(2) == 0 {
			kind = kindPrecommit
		}
		r := vr + uint32([]int{0, 1, 1, 1, 2, 3}[g.pick(6)])
		msg := &voteMsg{kind: kind, h: vh, r: r, pubKeyHash: string(set.vs.PubKeyHash), hashOK: true,
			proofs: map[string][]gcrypto.SparseSignature{}, meta: map[string][]sigMeta{}, desc: "minority-multi-target"}
		nt := 1 + g.pick(5)
		for t := 0; t < nt; t++ {
			hash := g.randHash()
			if t == 0 && g.pick(2) == 0 {
				hash = ""
			}
			for _, i := range b {
				if g.pick(4) == 0 {
					continue
				}
				msg.proofs[hash] = append(msg.proofs[hash], gcrypto.SparseSignature{KeyID: be16(i), Sig: g.w.sign(set.keys[i], kind, vh, r, hash)})
				msg.meta[hash] = append(msg.meta[hash], sigMeta{i, true, "ok"})
			}
		}
		if len(msg.proofs) == 0 {
			continue
		}
		g.sendVote(msg)
		if g.mo != nil {
			g.mo.afterStep()
		}
		nh, nr, _, _, ok := g.n.pos()
		if !ok {
			return
		}
		g.minorityJudged++
		if nh != vh || nr != vr {
			g.cs.violate("C06", "C06:minority-below-one-third-moved-the-voting-round",
				fmt.Sprintf("only validators %v (power below 1/3 of %d) voted at height %d from round %d on, yet the voting position moved from %d/%d to %d/%d", b, set.total, vh, vr, vh, vr, nh, nr),
				map[string]any{"signers": b, "last_message": msg.String()})
			return
		}
	}
}

// noteEnded records that the harness ended round (h, r) by its own precommits,
// if the node really is past that round now and nothing else (a jump caused by
// next-round votes) can have moved it.
func (g *gen) noteEnded(h uint64, r uint32, how string) {
	if g.mo == nil || g.recording {
		return
	}
	nh, nr, _, _, ok := g.n.pos()
	if !ok || nh != h || nr != r+1 {
		return
	}
	// a jump would need valid votes delivered for round r+1 or later before this point
	g.w.mu.Lock()
	for k, m := range g.w.delivered {
		if k.h == h && k.r > r && len(m) > 0 {
			g.w.mu.Unlock()
			return
		}
	}
	g.w.mu.Unlock()
	g.mo.c11.endedRounds[hrKey{h, r}] = how
}
