//go:build verif

package tmmirror_test

// E1 "world": the harness-side ground truth for a mirror scenario.
// The harness owns every private key, prescribes one validator set per height
// (different keys, sizes and powers at every height), builds blocks, signs votes,
// and keeps a ledger of every valid vote signature whose delivery to the node
// has started. Nothing in here trusts what the node says.

import (
	"bytes"
	"crypto/ed25519"
	"encoding/binary"
	"fmt"
	"math/bits"
	"math/rand/v2"
	"sort"
	"sync"

	"github.com/gordian-engine/gordian/gcrypto"
	"github.com/gordian-engine/gordian/tm/tmconsensus"
	"github.com/gordian-engine/gordian/tm/tmconsensus/tmconsensustest"
)

type vkey struct {
	priv ed25519.PrivateKey
	pub  gcrypto.Ed25519PubKey
}

func newVKey(rng *rand.Rand) vkey {
	var seed [32]byte
	for i := 0; i < 4; i++ {
		binary.LittleEndian.PutUint64(seed[i*8:], rng.Uint64())
	}
	priv := ed25519.NewKeyFromSeed(seed[:])
	return vkey{priv: priv, pub: gcrypto.Ed25519PubKey(priv.Public().(ed25519.PublicKey))}
}

// vset is a validator set with its private keys.
type vset struct {
	keys  []vkey
	vs    tmconsensus.ValidatorSet
	total uint64
}

func (s *vset) n() int { return len(s.keys) }

func (s *vset) power(idxs map[int]struct{}) uint64 {
	var p uint64
	for i := range idxs {
		if i >= 0 && i < len(s.vs.Validators) {
			p += s.vs.Validators[i].Power
		}
	}
	return p
}

// exceedsTwoThirds reports 3*p > 2*total in 128-bit arithmetic.
func exceedsTwoThirds(p, total uint64) bool {
	h1, l1 := bits.Mul64(p, 3)
	h2, l2 := bits.Mul64(total, 2)
	return h1 > h2 || (h1 == h2 && l1 > l2)
}

// atLeastOneThird reports 3*p >= total.
func atLeastOneThird(p, total uint64) bool {
	h1, l1 := bits.Mul64(p, 3)
	return h1 > 0 || l1 >= total
}

var hashScheme = tmconsensustest.SimpleHashScheme{}
var sigScheme = tmconsensustest.SimpleSignatureScheme{}
var cmspScheme = gcrypto.SimpleCommonMessageSignatureProofScheme{}

func newVSet(rng *rand.Rand, n int, profile int) *vset {
	s := &vset{keys: make([]vkey, n)}
	vals := make([]tmconsensus.Validator, n)
	for i := range s.keys {
		s.keys[i] = newVKey(rng)
	}
	pows := make([]uint64, n)
	switch profile % 6 {
	case 0: // equal
		for i := range pows {
			pows[i] = 1
		}
	case 1: // descending, like the repo fixture
		for i := range pows {
			pows[i] = uint64(100000 - 10*i)
		}
	case 2: // one validator holds >= 1/3
		for i := range pows {
			pows[i] = 10
		}
		pows[0] = uint64(10*(n-1))/2 + 1 + uint64(rng.IntN(5))
	case 3: // random small, sums often land near a multiple of 3
		for i := range pows {
			pows[i] = 1 + uint64(rng.IntN(9))
		}
	case 4: // huge scale
		for i := range pows {
			pows[i] = 1<<59 + uint64(rng.IntN(1000))
		}
	case 5: // very skewed
		for i := range pows {
			pows[i] = 1 + uint64(rng.IntN(3))
		}
		pows[n-1] = 1000
	}
	for i := range vals {
		vals[i] = tmconsensus.Validator{PubKey: s.keys[i].pub, Power: pows[i]}
		s.total += pows[i]
	}
	vs, err := tmconsensus.NewValidatorSet(vals, hashScheme)
	if err != nil {
		panic(err)
	}
	s.vs = vs
	return s
}

const (
	kindPrevote   = "prevote"
	kindPrecommit = "precommit"
)

type voteKey struct {
	kind string
	h    uint64
	r    uint32
	hash string
}

// world is the ground truth of one case.
type world struct {
	mu sync.Mutex

	rng          *rand.Rand
	seedA, seedB uint64
	initH        uint64

	nVals   int
	profile int
	rotate  bool // different validator set at every height

	sets    map[uint64]*vset
	foreign map[int]*vset // by size

	genesisHash []byte

	// delivered[voteKey] = validator indices (in the prescribed set of that height) for
	// which a signature valid for exactly that key was in a message whose delivery started.
	delivered map[voteKey]map[int]struct{}

	// issued certificates: rounds in which the harness produced precommits
	// from more than 2/3 for a non-nil hash at a height (whether or not delivered).
	certs map[uint64]map[string][]uint32

	// legit blocks built by the harness, by hash.
	blocks map[string]*blockInfo

	// signature cache
	sigCache map[string][]byte
}

type blockInfo struct {
	ph     tmconsensus.ProposedHeader
	h      uint64
	r      uint32
	legit  bool // consistent header built on the harness's chain
	parent string
}

func newWorld(rng *rand.Rand, nVals, profile int, rotate bool) *world {
	w := &world{
		rng:       rng,
		seedA:     rng.Uint64(),
		seedB:     rng.Uint64(),
		initH:     1,
		nVals:     nVals,
		profile:   profile,
		rotate:    rotate,
		sets:      map[uint64]*vset{},
		foreign:   map[int]*vset{},
		delivered: map[voteKey]map[int]struct{}{},
		certs:     map[uint64]map[string][]uint32{},
		blocks:    map[string]*blockInfo{},
		sigCache:  map[string][]byte{},
	}
	// Two of three chains start at height 1 like every chain in the repository's tests;
	// the others start higher, which leaves a gap of heights below the initial height
	// that no view covers before the first commit.
	if rng.IntN(3) == 0 {
		w.initH = 2 + uint64(rng.IntN(20))
	}
	g := tmconsensus.Genesis{ChainID: "verif", InitialHeight: w.initH, CurrentAppStateHash: []byte{0}, ValidatorSet: w.set(w.initH).vs}
	gh, err := g.Header(hashScheme)
	if err != nil {
		panic(err)
	}
	w.genesisHash = gh.Hash
	return w
}

// set returns the validator set the chain prescribes for height h.
// Every legit block at h-1 carries it as NextValidatorSet.
func (w *world) set(h uint64) *vset {
	if h < w.initH {
		h = w.initH
	}
	if !w.rotate {
		h = w.initH
	}
	// The initial height and the one after it share the genesis set
	// (a header's NextValidatorSet takes effect two heights later in gordian's
	// state machine, but the mirror uses header(h-1).NextValidatorSet for h;
	// for the mirror-only engine the harness is the chain, so the rule is
	// simply: set(h) for h <= initH+1 is the genesis set).
	if h <= w.initH+1 {
		h = w.initH
	}
	w.mu.Lock()
	defer w.mu.Unlock()
	if s, ok := w.sets[h]; ok {
		return s
	}
	// deterministic per height, independent of the order of first use
	hr := rand.New(rand.NewPCG(w.seedA, w.seedB^h))
	var s *vset
	if h == w.initH {
		s = newVSet(hr, w.nVals, w.profile)
	} else {
		n := 2 + int((uint64(w.nVals)+h*5)%6)
		s = newVSet(hr, n, w.profile+int(h))
	}
	w.sets[h] = s
	return s
}

// setByPubKeyHash finds the validator set (prescribed for some height, or one of the
// foreign sets) with the given public key hash, nil if the harness never made one.
func (w *world) setByPubKeyHash(h []byte) *vset {
	w.mu.Lock()
	defer w.mu.Unlock()
	for _, s := range w.sets {
		if bytes.Equal(s.vs.PubKeyHash, h) {
			return s
		}
	}
	for _, s := range w.foreign {
		if bytes.Equal(s.vs.PubKeyHash, h) {
			return s
		}
	}
	return nil
}

func (w *world) foreignSet(n int) *vset {
	w.mu.Lock()
	defer w.mu.Unlock()
	if s, ok := w.foreign[n]; ok {
		return s
	}
	s := newVSet(rand.New(rand.NewPCG(w.seedB, w.seedA^uint64(n)^0xf0f0)), n, w.profile)
	w.foreign[n] = s
	return s
}

func voteSignBytes(kind string, h uint64, r uint32, hash string) []byte {
	vt := tmconsensus.VoteTarget{Height: h, Round: r, BlockHash: hash}
	var b []byte
	var err error
	if kind == kindPrevote {
		b, err = tmconsensus.PrevoteSignBytes(vt, sigScheme)
	} else {
		b, err = tmconsensus.PrecommitSignBytes(vt, sigScheme)
	}
	if err != nil {
		panic(err)
	}
	return b
}

// sign returns key's signature for a vote (cached; ed25519 is deterministic).
func (w *world) sign(k vkey, kind string, h uint64, r uint32, hash string) []byte {
	ck := fmt.Sprintf("%x|%s|%d|%d|%x", k.pub[:8], kind, h, r, hash)
	w.mu.Lock()
	if s, ok := w.sigCache[ck]; ok {
		w.mu.Unlock()
		return s
	}
	w.mu.Unlock()
	s := ed25519.Sign(k.priv, voteSignBytes(kind, h, r, hash))
	w.mu.Lock()
	w.sigCache[ck] = s
	w.mu.Unlock()
	return s
}

func be16(i int) []byte {
	var b [2]byte
	binary.BigEndian.PutUint16(b[:], uint16(i))
	return b[:]
}

// validSparse returns valid sparse signatures of the given signers of set(h).
func (w *world) validSparse(kind string, h uint64, r uint32, hash string, idxs []int) []gcrypto.SparseSignature {
	s := w.set(h)
	out := make([]gcrypto.SparseSignature, 0, len(idxs))
	for _, i := range idxs {
		out = append(out, gcrypto.SparseSignature{KeyID: be16(i), Sig: w.sign(s.keys[i], kind, h, r, hash)})
	}
	return out
}

// noteDelivered records that valid signatures of idxs for vk are about to reach the node.
func (w *world) noteDelivered(vk voteKey, idxs []int) {
	w.mu.Lock()
	defer w.mu.Unlock()
	m := w.delivered[vk]
	if m == nil {
		m = map[int]struct{}{}
		w.delivered[vk] = m
	}
	for _, i := range idxs {
		m[i] = struct{}{}
	}
}

// outOfModel reports whether, in some round of a height >= fromH, validators holding
// at least one third of the power have had valid signatures for two different targets
// of the same kind delivered to the node. Tendermint-style consensus (and every
// statement about what the mirror does with certificates) assumes less than one third
// equivocates; a history beyond that has no defined correct outcome.
func (w *world) outOfModel(fromH uint64) (bool, string) {
	type rk struct {
		kind string
		h    uint64
		r    uint32
	}
	w.mu.Lock()
	seen := map[rk]map[int]int{}
	for vk, idxs := range w.delivered {
		if vk.h < fromH {
			continue
		}
		k := rk{vk.kind, vk.h, vk.r}
		m := seen[k]
		if m == nil {
			m = map[int]int{}
			seen[k] = m
		}
		for i := range idxs {
			m[i]++
		}
	}
	w.mu.Unlock()
	for k, m := range seen {
		eq := map[int]struct{}{}
		for i, n := range m {
			if n >= 2 {
				eq[i] = struct{}{}
			}
		}
		if len(eq) == 0 {
			continue
		}
		set := w.set(k.h)
		if p := set.power(eq); atLeastOneThird(p, set.total) {
			return true, fmt.Sprintf("%s %d/%d: equivocating power %d of %d", k.kind, k.h, k.r, p, set.total)
		}
	}
	return false, ""
}

func (w *world) deliveredPower(vk voteKey) uint64 {
	set := w.set(vk.h)
	w.mu.Lock()
	defer w.mu.Unlock()
	return set.power(w.delivered[vk])
}

// quorumSubset picks a random subset of set(h) with more than 2/3 of the power;
// with tight=true it is minimal (removing any member drops it to <= 2/3).
func (w *world) quorumSubset(rng *rand.Rand, h uint64, tight bool) []int {
	s := w.set(h)
	perm := rng.Perm(s.n())
	var idxs []int
	var p uint64
	for _, i := range perm {
		idxs = append(idxs, i)
		p += s.vs.Validators[i].Power
		if exceedsTwoThirds(p, s.total) {
			break
		}
	}
	if !tight {
		// add some more
		for _, i := range perm[len(idxs):] {
			if rng.IntN(2) == 0 {
				idxs = append(idxs, i)
			}
		}
	} else {
		// drop members that are not needed
		for j := 0; j < len(idxs); {
			q := p - s.vs.Validators[idxs[j]].Power
			if exceedsTwoThirds(q, s.total) {
				p = q
				idxs = append(idxs[:j], idxs[j+1:]...)
			} else {
				j++
			}
		}
	}
	sort.Ints(idxs)
	return idxs
}

// subQuorumSubset picks a subset whose power is at most 2/3 (as large as possible when big=true).
func (w *world) subQuorumSubset(rng *rand.Rand, h uint64, big bool) []int {
	s := w.set(h)
	perm := rng.Perm(s.n())
	var idxs []int
	var p uint64
	for _, i := range perm {
		q := p + s.vs.Validators[i].Power
		if exceedsTwoThirds(q, s.total) {
			continue
		}
		if !big && len(idxs) > 0 && rng.IntN(2) == 0 {
			continue
		}
		idxs = append(idxs, i)
		p = q
	}
	sort.Ints(idxs)
	return idxs
}

// minoritySubset picks a non-empty subset with power strictly below 1/3, or nil if none exists.
func (w *world) minoritySubset(rng *rand.Rand, h uint64) []int {
	s := w.set(h)
	perm := rng.Perm(s.n())
	var idxs []int
	var p uint64
	for _, i := range perm {
		q := p + s.vs.Validators[i].Power
		if atLeastOneThird(q, s.total) {
			continue
		}
		idxs = append(idxs, i)
		p = q
	}
	sort.Ints(idxs)
	return idxs
}

// commitProofFor builds a PrevCommitProof for (h, r, hash) from the given signers
// (plus optional votes for other targets).
func (w *world) commitProofFor(h uint64, r uint32, hash string, idxs []int, others map[string][]int) tmconsensus.CommitProof {
	cp := tmconsensus.CommitProof{
		Round:      r,
		PubKeyHash: string(w.set(h).vs.PubKeyHash),
		Proofs:     map[string][]gcrypto.SparseSignature{},
	}
	cp.Proofs[hash] = w.validSparse(kindPrecommit, h, r, hash, idxs)
	for oh, oi := range others {
		cp.Proofs[oh] = w.validSparse(kindPrecommit, h, r, oh, oi)
	}
	return cp
}

func (w *world) noteCert(h uint64, hash string, r uint32) {
	w.mu.Lock()
	defer w.mu.Unlock()
	m := w.certs[h]
	if m == nil {
		m = map[string][]uint32{}
		w.certs[h] = m
	}
	for _, x := range m[hash] {
		if x == r {
			return
		}
	}
	m[hash] = append(m[hash], r)
}

// makeBlock builds a consistent, correctly hashed and signed proposed header at (h, r)
// on top of parentHash with the given previous commit proof.
func (w *world) makeBlock(h uint64, r uint32, parentHash []byte, prevProof tmconsensus.CommitProof, data string, proposer int) tmconsensus.ProposedHeader {
	hd := tmconsensus.Header{
		Height:           h,
		PrevBlockHash:    bytes.Clone(parentHash),
		PrevCommitProof:  prevProof,
		ValidatorSet:     w.set(h).vs,
		NextValidatorSet: w.set(h + 1).vs,
		DataID:           []byte(data),
		PrevAppStateHash: []byte(fmt.Sprintf("app-%d", h-1)),
	}
	bh, err := hashScheme.Block(hd)
	if err != nil {
		panic(err)
	}
	hd.Hash = bh
	ph := tmconsensus.ProposedHeader{Header: hd, Round: r}
	w.signProposal(&ph, w.set(h).keys[proposer%w.set(h).n()])
	w.mu.Lock()
	w.blocks[string(bh)] = &blockInfo{ph: ph, h: h, r: r, legit: true, parent: string(parentHash)}
	w.mu.Unlock()
	return ph
}

func (w *world) signProposal(ph *tmconsensus.ProposedHeader, k vkey) {
	b, err := tmconsensus.ProposalSignBytes(ph.Header, ph.Round, ph.Annotations, sigScheme)
	if err != nil {
		panic(err)
	}
	ph.Signature = ed25519.Sign(k.priv, b)
	ph.ProposerPubKey = k.pub
}

func rehash(hd *tmconsensus.Header) {
	bh, err := hashScheme.Block(*hd)
	if err != nil {
		panic(err)
	}
	hd.Hash = bh
}

// initialPrevProof is what a header at the initial height carries.
func initialPrevProof() tmconsensus.CommitProof {
	return tmconsensus.CommitProof{Proofs: map[string][]gcrypto.SparseSignature{}}
}

// verifySparse is the independent signature oracle: it checks one sparse signature
// with crypto/ed25519 directly under key keyID of set, for the vote target given.
func verifySparse(set *vset, kind string, h uint64, r uint32, hash string, ss gcrypto.SparseSignature) (idx int, ok bool) {
	if len(ss.KeyID) != 2 {
		return -1, false
	}
	idx = int(binary.BigEndian.Uint16(ss.KeyID))
	if idx >= set.n() {
		return idx, false
	}
	return idx, ed25519.Verify(ed25519.PublicKey(set.keys[idx].pub), voteSignBytes(kind, h, r, hash), ss.Sig)
}
