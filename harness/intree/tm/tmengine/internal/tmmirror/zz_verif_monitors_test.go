//go:build verif

package tmmirror_test

// E1 monitors: independent oracles evaluated after every step.

import (
	"bytes"
	"context"
	"crypto/sha256"
	"fmt"
	"sort"
	"strings"

	"github.com/bits-and-blooms/bitset"
	"github.com/gordian-engine/gordian/gcrypto"
	"github.com/gordian-engine/gordian/tm/tmconsensus"
)

type monitors struct {
	n  *node
	cs *caseState
	w  *world

	havePos            bool
	lastVH             uint64
	lastVR             uint32
	lastCH             uint64
	lastCR             uint32
	judgedCommits      int
	judgedShownQuorums int
	sigsVerified       int
	summariesJudged    int
	multiTarget        int
	setChecks          int
	setChanges         int

	c11 *c11state
}

func newMonitors(n *node) *monitors { return &monitors{n: n, cs: n.cs, w: n.w, c11: newC11()} }

// verifyCached is verifySparse with a per-case cache.
func (mo *monitors) verifyCached(set *vset, kind string, h uint64, r uint32, hash string, ss gcrypto.SparseSignature) (int, bool) {
	hh := sha256.New()
	fmt.Fprintf(hh, "%x|%s|%d|%d|%x|%x|%x", set.vs.PubKeyHash, kind, h, r, hash, ss.KeyID, ss.Sig)
	var d [32]byte
	copy(d[:], hh.Sum(nil))
	mo.cs.mu.Lock()
	v, ok := mo.cs.sigOK[d]
	mo.cs.mu.Unlock()
	idx := -1
	if len(ss.KeyID) == 2 {
		idx = int(ss.KeyID[0])<<8 | int(ss.KeyID[1])
	}
	if ok {
		return idx, v
	}
	idx, v = verifySparse(set, kind, h, r, hash, ss)
	mo.cs.mu.Lock()
	mo.cs.sigOK[d] = v
	mo.cs.mu.Unlock()
	mo.sigsVerified++
	return idx, v
}

// certPower sums the power of the distinct validators of set whose
// signatures in sigs verify for a precommit of (h, r, hash).
func (mo *monitors) certPower(set *vset, h uint64, r uint32, hash string, sigs []gcrypto.SparseSignature) (uint64, int, int) {
	seen := map[int]struct{}{}
	bad := 0
	for _, s := range sigs {
		if i, ok := mo.verifyCached(set, kindPrecommit, h, r, hash, s); ok {
			seen[i] = struct{}{}
		} else {
			bad++
		}
	}
	return set.power(seen), len(seen), bad
}

// judgeCommit is the C01 oracle for one commit event.
func (mo *monitors) judgeCommit(ev commitEvent) {
	mo.judgedCommits++
	set := mo.w.set(ev.h)
	detail := map[string]any{"source": ev.source, "height": ev.h, "round": ev.round, "hash": fmt.Sprintf("%x", ev.hash), "total_power": set.total}
	if ev.hash == "" {
		mo.cs.violate("C01", "C01:nil-hash-committed:"+ev.source, fmt.Sprintf("%s: height %d committed with an empty block hash", ev.source, ev.h), detail)
		return
	}
	if ev.header.Height != 0 && ev.header.Height != ev.h {
		mo.cs.violate("C01", "C01:committed-header-height-mismatch:"+ev.source, "header height differs from the height it is committed at", detail)
	}
	// (a) the certificate the node itself holds
	pow, nSigners, bad := mo.certPower(set, ev.h, ev.round, ev.hash, ev.proof.Proofs[ev.hash])
	detail["claimed_valid_power"], detail["claimed_valid_signers"], detail["claimed_invalid_sigs"] = pow, nSigners, bad
	// For an accepted replay the proof in the message is only part of what the node
	// holds (it is merged with the precommits already in the view), so clause (a) is
	// judged on the SaveCommittedHeader / CommittingView events the replay causes,
	// and the replay response itself only by the delivered-signature ledger (b).
	if ev.source != "ReplayedHeaderResponse" && !exceedsTwoThirds(pow, set.total) {
		mo.cs.violate("C01", "C01:commit-without-valid-certificate:"+ev.source,
			fmt.Sprintf("%s: height %d round %d hash %x committed; the certificate held verifies for power %d of %d under the prescribed validator set (needs > 2/3)", ev.source, ev.h, ev.round, ev.hash, pow, set.total), detail)
	}
	// (b) what was ever delivered
	dp := mo.w.deliveredPower(voteKey{kindPrecommit, ev.h, ev.round, ev.hash})
	detail["delivered_valid_power"] = dp
	if !exceedsTwoThirds(dp, set.total) {
		mo.cs.violate("C01", "C01:commit-without-delivered-quorum:"+ev.source,
			fmt.Sprintf("%s: height %d round %d hash %x committed; valid precommits ever delivered for exactly that target have power %d of %d", ev.source, ev.h, ev.round, ev.hash, dp, set.total), detail)
	}
}

// judgeShownQuorum is the C01 oracle at the state machine's door: a view handed to the state
// machine whose vote summary shows more than two thirds of the available power precommitted
// to one block is the mirror telling the state machine that this block is decided (the state
// machine asks the driver to finalize on exactly that). It must be backed by a certificate:
// valid precommits for exactly (height, round, hash) in that same view, and ever delivered,
// from more than two thirds of the prescribed set's power.
func (mo *monitors) judgeShownQuorum(v *tmconsensus.VersionedRoundView, label string) {
	vs := v.VoteSummary
	if vs.AvailablePower == 0 {
		return
	}
	// every block the summary credits with more than two thirds, not only the most voted one
	for hash, p := range vs.PrecommitBlockPower {
		if hash != "" && exceedsTwoThirds(p, vs.AvailablePower) {
			mo.judgeShownQuorumFor(v, label, hash)
		}
	}
}

func (mo *monitors) judgeShownQuorumFor(v *tmconsensus.VersionedRoundView, label, hash string) {
	vs := v.VoteSummary
	mo.judgedShownQuorums++
	set := mo.w.set(v.Height)
	var sigs []gcrypto.SparseSignature
	if p := v.PrecommitProofs[hash]; p != nil {
		sigs = p.AsSparse().Signatures
	}
	pow, nSigners, bad := mo.certPower(set, v.Height, v.Round, hash, sigs)
	dp := mo.w.deliveredPower(voteKey{kindPrecommit, v.Height, v.Round, hash})
	if exceedsTwoThirds(pow, set.total) && exceedsTwoThirds(dp, set.total) {
		return
	}
	mo.cs.violate("C01", "C01:state-machine-shown-precommit-quorum-without-valid-certificate:"+label,
		fmt.Sprintf("%s: view %d/%d tells the state machine that %x holds %d of %d precommit power (more than 2/3); the precommits the view itself carries for it verify for power %d of %d under the prescribed validator set, valid precommits ever delivered for exactly that target have power %d",
			label, v.Height, v.Round, hash, vs.PrecommitBlockPower[hash], vs.AvailablePower, pow, set.total, dp),
		map[string]any{"height": v.Height, "round": v.Round, "hash": fmt.Sprintf("%x", hash), "view_valid_power": pow, "view_valid_signers": nSigners, "view_invalid_sigs": bad, "delivered_valid_power": dp, "total_power": set.total})
}

// checkViewSigs is the C05 oracle for one view.
func (mo *monitors) checkViewSigs(v *tmconsensus.VersionedRoundView, label string) {
	if v == nil || v.Height == 0 {
		return
	}
	set := mo.w.set(v.Height)
	for _, kp := range []struct {
		kind   string
		proofs map[string]gcrypto.CommonMessageSignatureProof
	}{{kindPrevote, v.PrevoteProofs}, {kindPrecommit, v.PrecommitProofs}} {
		for hash, proof := range kp.proofs {
			if proof == nil {
				continue
			}
			if !bytes.Equal(proof.PubKeyHash(), set.vs.PubKeyHash) {
				// The property speaks about signatures, not about this label:
				// counted, and the signatures are still judged under the prescribed set.
				mo.cs.count("unjudged.proof-labelled-with-other-pubkeyhash:" + label)
			}
			sp := proof.AsSparse()
			verified := map[int]struct{}{}
			for _, ss := range sp.Signatures {
				idx, ok := mo.verifyCached(set, kp.kind, v.Height, v.Round, hash, ss)
				if !ok {
					mo.cs.violate("C05", "C05:invalid-signature-in-view:"+kp.kind+":"+label,
						fmt.Sprintf("%s view %d/%d holds a %s signature for target %s with key id %x that does not verify under the prescribed validator set", label, v.Height, v.Round, kp.kind, shortHash(hash), ss.KeyID),
						map[string]any{"keyid": fmt.Sprintf("%x", ss.KeyID), "sig": fmt.Sprintf("%x", ss.Sig), "target": fmt.Sprintf("%x", hash)})
					continue
				}
				verified[idx] = struct{}{}
			}
			var bs bitset.BitSet
			proof.SignatureBitSet(&bs)
			for i, ok := bs.NextSet(0); ok; i, ok = bs.NextSet(i + 1) {
				if _, in := verified[int(i)]; !in {
					mo.cs.violate("C05", "C05:bit-set-without-verified-signature:"+kp.kind+":"+label,
						fmt.Sprintf("%s view %d/%d %s target %s: bit %d set but no verifying signature of that validator is held", label, v.Height, v.Round, kp.kind, shortHash(hash), i), nil)
				}
			}
			for i := range verified {
				if !bs.Test(uint(i)) {
					mo.cs.violate("C05", "C05:verified-signature-without-bit:"+kp.kind+":"+label,
						fmt.Sprintf("%s view %d/%d %s target %s: signature of validator %d held but bit not set", label, v.Height, v.Round, kp.kind, shortHash(hash), i), nil)
				}
			}
		}
	}
	// the previous commit proof a view carries is a commit proof the node built
	if v.Height > mo.w.initH && len(v.PrevCommitProof.Proofs) > 0 {
		pset := mo.w.set(v.Height - 1)
		for hash, sigs := range v.PrevCommitProof.Proofs {
			for _, ss := range sigs {
				if _, ok := mo.verifyCached(pset, kindPrecommit, v.Height-1, v.PrevCommitProof.Round, hash, ss); !ok {
					mo.cs.violate("C05", "C05:invalid-signature-in-built-commit-proof:"+label,
						fmt.Sprintf("%s view %d/%d carries a previous commit proof (round %d) with a signature for %s that does not verify", label, v.Height, v.Round, v.PrevCommitProof.Round, shortHash(hash)), nil)
				}
			}
		}
	}
}

// checkRoundStore is the C05 oracle for the round store.
func (mo *monitors) checkRoundStore(h uint64, r uint32) {
	_, pv, pc, err := mo.n.rs.in.LoadRoundState(context.Background(), h, r)
	if err != nil {
		return
	}
	set := mo.w.set(h)
	for _, kc := range []struct {
		kind string
		c    tmconsensus.SparseSignatureCollection
	}{{kindPrevote, pv}, {kindPrecommit, pc}} {
		if len(kc.c.BlockSignatures) == 0 {
			continue
		}
		judgeSet := set
		if !bytes.Equal(kc.c.PubKeyHash, set.vs.PubKeyHash) {
			// The collection is filed under another validator set's hash. For a round of a
			// height the node had not reached when it stored the votes, the set of that height
			// was not determined yet and the node verifies against the set the message names
			// (if it knows it). Such an entry claims to be votes of the set it names: it is
			// judged against that set; it must never show up in a view (checkViewSigs does
			// judge views against the prescribed set).
			other := mo.w.setByPubKeyHash(kc.c.PubKeyHash)
			if other == nil {
				mo.cs.count("unjudged.round-store-collection-labelled-with-unknown-pubkeyhash")
				continue
			}
			mo.cs.count("round-store-collection-judged-against-the-set-it-names")
			judgeSet = other
		}
		for hash, sigs := range kc.c.BlockSignatures {
			for _, ss := range sigs {
				if _, ok := mo.verifyCached(judgeSet, kc.kind, h, r, hash, ss); !ok {
					mo.cs.violate("C05", "C05:invalid-signature-in-round-store:"+kc.kind,
						fmt.Sprintf("round store %d/%d holds a %s signature for %s (key id %x) that does not verify", h, r, kc.kind, shortHash(hash), ss.KeyID), nil)
				}
			}
		}
	}
}

// checkCommittedProofs is the C05 oracle for stored commit proofs.
func (mo *monitors) checkCommittedProof(h uint64) {
	ch, err := mo.n.hs.in.LoadCommittedHeader(context.Background(), h)
	if err != nil {
		return
	}
	set := mo.w.set(h)
	for hash, sigs := range ch.Proof.Proofs {
		for _, ss := range sigs {
			if _, ok := mo.verifyCached(set, kindPrecommit, h, ch.Proof.Round, hash, ss); !ok {
				mo.cs.violate("C05", "C05:invalid-signature-in-stored-commit-proof",
					fmt.Sprintf("committed header store height %d: commit proof (round %d) holds a signature for %s that does not verify", h, ch.Proof.Round, shortHash(hash)), nil)
			}
		}
	}
}

// checkSummary is the C06 oracle for one view.
func (mo *monitors) checkSummary(v *tmconsensus.VersionedRoundView, label string) {
	if v == nil || v.Height == 0 {
		return
	}
	if v.VoteSummary.PrevoteBlockPower == nil && v.VoteSummary.PrecommitBlockPower == nil && v.VoteSummary.AvailablePower == 0 {
		return // summary not populated in this copy
	}
	set := mo.w.set(v.Height)
	mo.summariesJudged++
	vs := v.VoteSummary
	if vs.AvailablePower != set.total {
		mo.cs.violate("C06", "C06:available-power-differs-from-validator-set-total:"+label,
			fmt.Sprintf("%s view %d/%d reports available power %d, prescribed set has %d", label, v.Height, v.Round, vs.AvailablePower, set.total), nil)
	}
	for _, kp := range []struct {
		kind   string
		proofs map[string]gcrypto.CommonMessageSignatureProof
		block  map[string]uint64
		total  uint64
		most   string
	}{
		{kindPrevote, v.PrevoteProofs, vs.PrevoteBlockPower, vs.TotalPrevotePower, vs.MostVotedPrevoteHash},
		{kindPrecommit, v.PrecommitProofs, vs.PrecommitBlockPower, vs.TotalPrecommitPower, vs.MostVotedPrecommitHash},
	} {
		union := map[int]struct{}{}
		want := map[string]uint64{}
		var maxPow uint64
		for hash, proof := range kp.proofs {
			if proof == nil {
				continue
			}
			var bs bitset.BitSet
			proof.SignatureBitSet(&bs)
			m := map[int]struct{}{}
			for i, ok := bs.NextSet(0); ok; i, ok = bs.NextSet(i + 1) {
				m[int(i)] = struct{}{}
				union[int(i)] = struct{}{}
			}
			want[hash] = set.power(m)
			if want[hash] > maxPow {
				maxPow = want[hash]
			}
		}
		if len(want) >= 2 {
			mo.multiTarget++
		}
		for hash, p := range want {
			if kp.block[hash] != p {
				mo.cs.violate("C06", "C06:target-power-differs-from-recomputed:"+kp.kind+":"+label,
					fmt.Sprintf("%s view %d/%d %s power for %s reported %d, recomputed %d", label, v.Height, v.Round, kp.kind, shortHash(hash), kp.block[hash], p), nil)
			}
		}
		for hash, p := range kp.block {
			if _, ok := want[hash]; !ok && p != 0 {
				mo.cs.violate("C06", "C06:power-reported-for-target-without-votes:"+kp.kind+":"+label,
					fmt.Sprintf("%s view %d/%d %s power %d reported for %s which has no proof", label, v.Height, v.Round, kp.kind, p, shortHash(hash)), nil)
			}
		}
		up := set.power(union)
		if kp.total != up {
			key := "C06:total-power-differs-from-union-of-signers:" + kp.kind
			mo.cs.violate("C06", key,
				fmt.Sprintf("%s view %d/%d total %s power reported %d, distinct signers hold %d (available %d)", label, v.Height, v.Round, kp.kind, kp.total, up, set.total),
				map[string]any{"label": label, "reported": kp.total, "union": up, "targets": len(want)})
		}
		if len(want) > 0 && want[kp.most] != maxPow {
			mo.cs.violate("C06", "C06:most-voted-target-is-not-maximal:"+kp.kind+":"+label,
				fmt.Sprintf("%s view %d/%d most voted %s target %s has %d, maximum is %d", label, v.Height, v.Round, kp.kind, shortHash(kp.most), want[kp.most], maxPow), nil)
		}
	}
}

// checkValSet is the C07 oracle for one view.
func (mo *monitors) checkValSet(vs tmconsensus.ValidatorSet, h uint64, label string) {
	if h == 0 {
		return
	}
	mo.setChecks++
	want := mo.w.set(h).vs
	if len(vs.Validators) == 0 && len(vs.PubKeys) == 0 {
		return // not populated in this copy
	}
	consistent := len(vs.Validators) == len(vs.PubKeys)
	if consistent {
		for i := range vs.Validators {
			if vs.Validators[i].PubKey == nil || vs.PubKeys[i] == nil || !vs.Validators[i].PubKey.Equal(vs.PubKeys[i]) {
				consistent = false
			}
		}
	}
	if consistent {
		kh, err1 := hashScheme.PubKeys(vs.PubKeys)
		ph, err2 := hashScheme.VotePowers(tmconsensus.ValidatorsToVotePowers(vs.Validators))
		if err1 != nil || err2 != nil || !bytes.Equal(kh, vs.PubKeyHash) || !bytes.Equal(ph, vs.VotePowerHash) {
			consistent = false
		}
	}
	if !consistent {
		mo.cs.violate("C07", "C07:validator-lists-do-not-match-their-hashes:"+label,
			fmt.Sprintf("%s: validator set in use at height %d has lists that do not hash to its pubkey/power hashes", label, h), nil)
	}
	if !vs.Equal(want) {
		mo.cs.violate("C07", "C07:validator-set-differs-from-prescribed:"+label,
			fmt.Sprintf("%s: validator set in use at height %d (pubkey hash %x, %d validators) is not the set the chain prescribes (pubkey hash %x, %d validators)", label, h, vs.PubKeyHash, len(vs.Validators), want.PubKeyHash, len(want.Validators)), nil)
	}
}

// viewDigest is a canonical rendering of what a view holds (versions excluded).
func viewDigest(v *tmconsensus.VersionedRoundView) string {
	var b bytes.Buffer
	fmt.Fprintf(&b, "%d/%d|", v.Height, v.Round)
	var phs []string
	for _, ph := range v.ProposedHeaders {
		phs = append(phs, fmt.Sprintf("%x:%x", ph.Header.Hash, ph.Signature))
	}
	sort.Strings(phs)
	fmt.Fprintf(&b, "ph=%v|", phs)
	for _, kp := range []map[string]gcrypto.CommonMessageSignatureProof{v.PrevoteProofs, v.PrecommitProofs} {
		var ts []string
		for hash, proof := range kp {
			var ss []string
			if proof != nil {
				for _, s := range proof.AsSparse().Signatures {
					ss = append(ss, fmt.Sprintf("%x:%x", s.KeyID, s.Sig))
				}
			}
			sort.Strings(ss)
			ts = append(ts, fmt.Sprintf("%x=>%v", hash, ss))
		}
		sort.Strings(ts)
		fmt.Fprintf(&b, "votes=%v|", ts)
	}
	vs := v.VoteSummary
	fmt.Fprintf(&b, "sum=%d,%d,%d,%x,%x|", vs.AvailablePower, vs.TotalPrevotePower, vs.TotalPrecommitPower, vs.MostVotedPrevoteHash, vs.MostVotedPrecommitHash)
	for _, m := range []map[string]uint64{vs.PrevoteBlockPower, vs.PrecommitBlockPower} {
		var ks []string
		for k, p := range m {
			ks = append(ks, fmt.Sprintf("%x=%d", k, p))
		}
		sort.Strings(ks)
		fmt.Fprintf(&b, "%v|", ks)
	}
	return b.String()
}

func (mo *monitors) storeDigest(h uint64, r uint32) string {
	phs, pv, pc, err := mo.n.rs.in.LoadRoundState(context.Background(), h, r)
	if err != nil {
		return "unknown-round"
	}
	var b bytes.Buffer
	var ps []string
	for _, ph := range phs {
		ps = append(ps, fmt.Sprintf("%x:%x", ph.Header.Hash, ph.Signature))
	}
	sort.Strings(ps)
	fmt.Fprintf(&b, "ph=%v|", ps)
	for _, c := range []tmconsensus.SparseSignatureCollection{pv, pc} {
		var ts []string
		for hash, sigs := range c.BlockSignatures {
			var ss []string
			for _, s := range sigs {
				ss = append(ss, fmt.Sprintf("%x:%x", s.KeyID, s.Sig))
			}
			sort.Strings(ss)
			ts = append(ts, fmt.Sprintf("%x=>%v", hash, ss))
		}
		sort.Strings(ts)
		fmt.Fprintf(&b, "%x %v|", c.PubKeyHash, ts)
	}
	return b.String()
}

// stateDigest renders views and the round store entry for (h, r).
func (mo *monitors) stateDigest(h uint64, r uint32) (string, bool) {
	vv, cv, ok := mo.n.views()
	if !ok {
		return "", false
	}
	return viewDigest(&vv) + "#" + viewDigest(&cv) + "#" + mo.storeDigest(h, r), true
}

// afterStep evaluates every monitor at a quiescent point.
// It returns false when the node is not answering (dead).
func (mo *monitors) afterStep() bool {
	vv, cv, ok := mo.n.views()
	gossip := mo.n.takeGossip()
	sm := mo.n.takeSM()
	mo.n.takeFetches()

	// C01: commit events recorded during the step.
	mo.cs.mu.Lock()
	evs := mo.cs.commitEvents
	mo.cs.commitEvents = nil
	mo.cs.mu.Unlock()
	for _, ev := range evs {
		mo.judgeCommit(ev)
	}
	mo.c11consume(gossip, sm)
	if !ok {
		return false
	}
	// C11: a version identifies its content. Whenever the newest view a consumer holds has the
	// height, round and version of the mirror's own snapshot, the two must hold the same
	// proposed headers and signatures (no quiescence needed for this direction).
	for _, pr := range []struct {
		mine *tmconsensus.VersionedRoundView
		got  *tmconsensus.VersionedRoundView
		role string
	}{{&vv, mo.c11.lastGossipVoting, "voting"}, {&cv, mo.c11.lastGossipCommitting, "committing"}} {
		if pr.got == nil || pr.mine.Height == 0 || pr.got.Height != pr.mine.Height || pr.got.Round != pr.mine.Round || pr.got.Version != pr.mine.Version {
			continue
		}
		mo.c11.sameVersionCompared++
		if a, b := viewDigest(pr.mine), viewDigest(pr.got); a != b {
			mo.cs.violate("C11", "C11:view-content-differs-at-the-same-version:gossip:"+pr.role,
				fmt.Sprintf("the mirror's %s view %d/%d and the newest one gossip received both have version %d but differ in content", pr.role, pr.mine.Height, pr.mine.Round, pr.mine.Version),
				map[string]any{"mirror": a, "gossip": b})
		}
	}

	// C01/C04 from the views.
	if cv.Height > 0 && (!mo.havePos || cv.Height != mo.lastCH || cv.Round != mo.lastCR) {
		// a new committing view: what the node holds for it must be a certificate
		ch, err := mo.n.hs.in.LoadCommittedHeader(context.Background(), cv.Height)
		if err != nil {
			mo.cs.violate("C04", "C04:committing-height-not-in-committed-header-store", fmt.Sprintf("committing view at height %d but the committed header store has no header for it: %v", cv.Height, err), nil)
		} else {
			hash := string(ch.Header.Hash)
			var sigs []gcrypto.SparseSignature
			if p := cv.PrecommitProofs[hash]; p != nil {
				sigs = p.AsSparse().Signatures
			}
			mo.judgeCommit(commitEvent{source: "CommittingView", h: cv.Height, round: cv.Round, hash: hash,
				proof: tmconsensus.CommitProof{Round: cv.Round, Proofs: map[string][]gcrypto.SparseSignature{hash: sigs}}, header: ch.Header})
		}
	}
	if cv.Height > 0 && vv.Height != cv.Height+1 {
		mo.cs.violate("C04", "C04:view-voting-height-not-committing-plus-one", fmt.Sprintf("voting view at height %d, committing view at height %d", vv.Height, cv.Height), nil)
	}
	if mo.havePos {
		if vv.Height < mo.lastVH || (vv.Height == mo.lastVH && vv.Round < mo.lastVR) {
			mo.cs.violate("C04", "C04:view-voting-position-moved-backwards", fmt.Sprintf("voting view %d/%d after %d/%d", vv.Height, vv.Round, mo.lastVH, mo.lastVR), nil)
		}
		if cv.Height < mo.lastCH {
			mo.cs.violate("C04", "C04:view-committing-height-moved-backwards", fmt.Sprintf("committing view height %d after %d", cv.Height, mo.lastCH), nil)
		}
		if vv.Height != mo.lastVH {
			mo.setChanges++
		}
	}
	mo.havePos, mo.lastVH, mo.lastVR, mo.lastCH, mo.lastCR = true, vv.Height, vv.Round, cv.Height, cv.Round

	// C04: reload the whole chain and compare with the first-seen table.
	mo.cs.mu.Lock()
	top := mo.cs.topCommitted
	first := make(map[uint64]string, len(mo.cs.committedHash))
	for h, x := range mo.cs.committedHash {
		first[h] = x
	}
	mo.cs.mu.Unlock()
	for h := mo.w.initH; h <= top; h++ {
		ch, err := mo.n.hs.in.LoadCommittedHeader(context.Background(), h)
		if err != nil {
			mo.cs.violate("C04", "C04:committed-height-missing-from-store", fmt.Sprintf("height %d (top %d) not loadable: %v", h, top, err), nil)
			continue
		}
		if string(ch.Header.Hash) != first[h] {
			mo.cs.violate("C04", "C04:stored-committed-hash-differs-from-first-seen", fmt.Sprintf("height %d stored %x, first committed %x", h, ch.Header.Hash, first[h]), nil)
		}
		if h > mo.w.initH {
			if prev, ok := first[h-1]; ok && !bytes.Equal(ch.Header.PrevBlockHash, []byte(prev)) {
				mo.cs.violate("C04", "C04:committed-header-not-linked-to-predecessor", fmt.Sprintf("height %d names predecessor %x but committed hash at %d is %x", h, ch.Header.PrevBlockHash, h-1, prev), nil)
			}
		}
	}

	// C05 / C06 / C07 on every observable view.
	type lv struct {
		v     *tmconsensus.VersionedRoundView
		label string
	}
	views := []lv{{&vv, "voting"}, {&cv, "committing"}}
	for i := range gossip {
		u := &gossip[i].u
		views = append(views, lv{u.Voting, "gossip.voting"}, lv{u.Committing, "gossip.committing"}, lv{u.NextRound, "gossip.nextround"}, lv{u.NilVotedRound, "gossip.nilvoted"})
	}
	for i := range sm {
		if e := sm[i].entrance; e != nil {
			if e.resp.IsVRV() {
				views = append(views, lv{&e.resp.VRV, "statemachine.entrance"})
			}
			continue
		}
		v := &sm[i].v
		if v.VRV.Height > 0 {
			views = append(views, lv{&v.VRV, "statemachine.view"})
		}
		views = append(views, lv{v.JumpAheadRoundView, "statemachine.jumpahead"})
	}
	for _, x := range views {
		if x.v == nil || x.v.Height == 0 {
			continue
		}
		mo.checkViewSigs(x.v, x.label)
		mo.checkSummary(x.v, x.label)
		if strings.HasPrefix(x.label, "statemachine.") {
			mo.judgeShownQuorum(x.v, x.label)
		}
		mo.checkValSet(x.v.ValidatorSet, x.v.Height, x.label)
	}

	// C05 on the stores.
	mo.cs.mu.Lock()
	touched := mo.cs.touchedRounds
	mo.cs.touchedRounds = map[[2]uint64]struct{}{}
	mo.cs.mu.Unlock()
	for hr := range touched {
		mo.checkRoundStore(hr[0], uint32(hr[1]))
	}
	if cv.Height > 0 {
		mo.checkCommittedProof(cv.Height)
	}
	// C07 on committed headers: contents must match the hashes the block hash covers.
	if cv.Height > 0 {
		if ch, err := mo.n.hs.in.LoadCommittedHeader(context.Background(), cv.Height); err == nil {
			mo.checkValSet(ch.Header.ValidatorSet, cv.Height, "committed-header.validator-set")
			mo.checkValSet(ch.Header.NextValidatorSet, cv.Height+1, "committed-header.next-validator-set")
		}
	}
	return true
}
