//go:build verif

package tmmirror_test

// C10: crash after every individual store write of a recorded history,
// restart on the same stores, redeliver the interrupted message and the rest,
// compare with the uninterrupted run.

import (
	"bytes"
	"context"
	"crypto/sha256"
	"fmt"
	"math/rand/v2"
	"os"
	"sort"
	"sync"
	"sync/atomic"
	"testing"
	"time"

	"github.com/gordian-engine/gordian/internal/verifkit"
	"github.com/gordian-engine/gordian/tm/tmconsensus"
)

type c10Ref struct {
	chain  map[uint64]string
	top    uint64
	vh     uint64
	vr     uint32
	ch     uint64
	cr     uint32
	writes int64
}

// c10Prop is the property this run of the fault enumeration judges: C10, or C04 when the
// driver runs it as C04's "crash" sub-run (the same crash points and recoveries, judged by the
// chain monitors of C04 only: store-write wrappers and the full chain reload after every step).
var c10Prop = "C10"

func TestVerif_C10(t *testing.T) {
	if os.Getenv("VERIF_PROP") == "C04" {
		c10Prop = "C04"
	}
	r := verifkit.Start(c10Prop)
	if r == nil {
		t.Skip("not started by the /verif driver")
	}
	defer r.Finish()
	r.SetRule("Fault enumeration: for each generated honest-plus-hostile mirror history H (recorded as a fixed tape of messages), the uninterrupted run gives the reference chain, voting position and number W of store writes; then for EVERY k in 1..W a fresh mirror replays H with the writer of store write k frozen (nothing of write k or later reaches the stores), is cancelled, restarted on the same stores, and the interrupted message plus the rest of H are redelivered. Oracles: restart succeeds; positions not behind the stores; votes/proposals persisted for the resumed rounds are in the views again and verify; final chain and voting position equal the reference. Thorough tier adds a second crash inside the recovery run. Non-trivial = distinct (history, k) pairs in which the crash hit a write that belongs to a commit or vote persist and the recovery reached the end of H.")

	nHist := r.N(16, 150)
	var mu sync.Mutex
	totals := map[string]int64{}
	// histories are independent (own world, generator, stores); the crash points of one
	// history run one after the other
	r.Parallel(nHist, func(hi int) {
		rng := r.NamedRNG("c10-history", hi)
		id := fmt.Sprintf("c10-h%d", hi)
		r.BeginCase(id)
		c := runC10History(r, id, rng, !r.Quick())
		mu.Lock()
		for k, v := range c {
			totals[k] += v
		}
		mu.Unlock()
	})
	for k, v := range totals {
		r.Count(k, v)
	}
}

func c10Setup(r *verifkit.Run, id string, w *world) (*caseState, *node, context.CancelFunc) {
	cs := newCaseState(r, c10Prop, id, w)
	ctx, cancel := context.WithCancel(context.Background())
	n := newNode(ctx, cs)
	return cs, n, cancel
}

func runC10History(r *verifkit.Run, id string, rng *rand.Rand, double bool) map[string]int64 {
	counters := map[string]int64{}
	nVals := []int{2, 3, 4, 4, 5, 7}[rng.IntN(6)]
	profile := rng.IntN(6)
	rotate := rng.IntN(4) != 0
	w := newWorld(rng, nVals, profile, rotate)

	// --- reference run, recording the tape
	cs, n, cancel := c10Setup(r, id+"-ref", w)
	if key, msg := n.start(); key != "" {
		cancel()
		cs.violate("C10", "C10:initial-start-failed:"+key, msg, nil)
		return counters
	}
	g := newGen(n, rng)
	g.attackWeight = 25
	var tape []func()
	g.tape = &tape
	mo := newMonitors(n)
	g.mo = mo
	steps := 12 + rng.IntN(14)
	dead := false
	for s := 0; s < steps; s++ {
		g.step()
		if !mo.afterStep() {
			dead = true
			break
		}
	}
	ref := c10Ref{chain: map[uint64]string{}}
	if !dead {
		vv, cv, ok := n.views()
		if ok {
			ref.vh, ref.vr, ref.ch, ref.cr = vv.Height, vv.Round, cv.Height, cv.Round
		} else {
			dead = true
		}
	}
	cs.mu.Lock()
	for h, x := range cs.committedHash {
		ref.chain[h] = x
	}
	ref.top = cs.topCommitted
	cs.mu.Unlock()
	ref.writes = cs.storeWrites.Load()
	refTrace := cs.traceCopy()
	n.stop()
	cancel()
	if dead {
		// the uninterrupted run itself crashed (a C09 matter); nothing to compare with
		counters["reference-run-died"]++
		return counters
	}
	counters["histories"]++
	counters["tape_messages"] += int64(len(tape))
	counters["reference_store_writes"] += ref.writes
	counters["reference_heights_committed"] += int64(ref.top)
	g.tape = nil

	// --- one faulty run per store write
	W := int(ref.writes)
	var gmu sync.Mutex // the generator's node pointer is swapped per run: runs are serialized per history
	_ = gmu
	for k := 1; k <= W; k++ {
		c10RunWithCrash(r, id, w, g, tape, ref, refTrace, k, 0, counters)
		if double {
			// a second crash inside the recovery: after j further writes
			j := 1 + rng.IntN(6)
			c10RunWithCrash(r, id, w, g, tape, ref, refTrace, k, j, counters)
		}
	}
	return counters
}

// deliverUntilCrash runs f and reports whether the crash point was hit while it ran.
func deliverUntilCrash(cs *caseState, n *node, f func()) (crashed bool) {
	done := make(chan struct{})
	go func() {
		defer close(done)
		f()
	}()
	select {
	case <-done:
		select {
		case <-cs.crashed:
			return true
		default:
			return false
		}
	case <-cs.crashed:
		// the writer is frozen; the process "dies" now
		n.stop()
		<-done
		return true
	case <-time.After(5 * time.Minute):
		cs.r.Inconclusive("C10: a delivery neither finished nor reached the crash point within 5 minutes (%s)", cs.id)
		n.stop()
		<-done
		return true
	}
}

func c10RunWithCrash(r *verifkit.Run, id string, w *world, g *gen, tape []func(), ref c10Ref, refTrace []string, k int, second int, counters map[string]int64) {
	rid := fmt.Sprintf("%s-k%d", id, k)
	if second > 0 {
		rid = fmt.Sprintf("%s-k%d+%d", id, k, second)
	}
	r.BeginCase(rid)
	cs, n, cancel := c10Setup(r, rid, w)
	defer cancel()
	cs.logf("C10 run %s: crash at store write %d of %d (second crash after %d more writes)", rid, k, ref.writes, second)
	fail := func(key, what string, detail map[string]any) {
		if detail == nil {
			detail = map[string]any{}
		}
		if oom, why := w.outOfModel(0); oom {
			// one third or more of the power equivocated in this history: unjudged
			counters["unjudged-one-third-or-more-equivocated"]++
			cs.logf("UNJUDGED %s (%s)", key, why)
			return
		}
		detail["crash_at_write"] = k
		detail["second_crash_after"] = second
		detail["reference_trace"] = refTrace
		detail["reference_chain"] = fmtChain(ref.chain)
		detail["reference_position"] = fmt.Sprintf("voting %d/%d committing %d/%d", ref.vh, ref.vr, ref.ch, ref.cr)
		cs.violate("C10", key, what, detail)
	}
	atomicStoreCrash(cs, int64(k))

	g.n, g.cs = n, cs
	mo := newMonitors(n)
	g.mo = mo
	r.Eval(1)

	// start may itself hit the crash point (constructor writes)
	startCrashed := false
	var skey, smsg string
	startCrashed = deliverUntilCrash(cs, n, func() { skey, smsg = n.start() })
	if !startCrashed && skey != "" {
		fail("C10:initial-start-failed:"+skey, smsg, nil)
		return
	}
	next := 0
	crashed := startCrashed
	for !crashed && next < len(tape) {
		f := tape[next]
		crashed = deliverUntilCrash(cs, n, f)
		if !crashed {
			next++
			if n.dead.Load() {
				// a panic of the kernel in the faulty run that the reference did not have
				counters["faulty-run-kernel-panic"]++
				n.stop()
				return
			}
		}
	}
	if !crashed {
		// W was counted on the reference; the faulty run may take fewer writes only if behaviour diverged
		counters["crash-point-not-reached"]++
		n.stop()
		return
	}
	counters["crashes_injected"]++
	if startCrashed {
		counters["crashes_in_constructor"]++
	}
	cs.mu.Lock()
	storedNHR, haveNHR := cs.lastNHR, cs.haveNHR
	storedTop := cs.topCommitted
	var futureAtCrash [][2]uint64
	for hr := range cs.futureStored {
		futureAtCrash = append(futureAtCrash, hr)
	}
	cs.mu.Unlock()
	cs.logf("CRASH at write %d while delivering tape[%d]; stores hold NHR=%v top=%d", k, next, storedNHR, storedTop)

	// --- restart on the same stores
	restart := func(crashAfter int) (ok bool, crashedAgain bool) {
		n.stop()
		cs.crashed = make(chan struct{})
		cs.crashOnce = sync.Once{}
		if crashAfter > 0 {
			atomicStoreCrash(cs, cs.storeWrites.Load()+int64(crashAfter))
		} else {
			atomicStoreCrash(cs, 0)
		}
		var key, msg string
		c := deliverUntilCrash(cs, n, func() { key, msg = n.start() })
		if c {
			return false, true
		}
		if key != "" {
			fail("C10:restart-failed:"+key, "the mirror could not be restarted on its own stores after a crash: "+msg, nil)
			return false, false
		}
		return true, false
	}
	ok, again := restart(second)
	for again {
		counters["second_crashes_injected"]++
		ok, again = restart(0)
	}
	if !ok {
		return
	}
	mo.havePos = false

	check := func(when string) bool {
		vv, cv, okv := n.views()
		if !okv {
			if n.dead.Load() {
				n.rmu.Lock()
				key, msg := n.panicKey, n.panicMsg
				n.rmu.Unlock()
				fail("C10:kernel-panicked-after-restart:"+key, "after the restart the kernel panicked ("+when+"): "+msg, nil)
			}
			return false
		}
		// (2) not behind the stores
		if haveNHR {
			if vv.Height < storedNHR[0] || (vv.Height == storedNHR[0] && uint64(vv.Round) < storedNHR[1]) {
				fail("C10:voting-position-behind-store-after-restart", fmt.Sprintf("%s: voting %d/%d, store held %d/%d", when, vv.Height, vv.Round, storedNHR[0], storedNHR[1]), nil)
			}
			if cv.Height < storedNHR[2] {
				fail("C10:committing-position-behind-store-after-restart", fmt.Sprintf("%s: committing %d, store held %d", when, cv.Height, storedNHR[2]), nil)
			}
		}
		// (3a) the precommits persisted for the committing round come back as the voting
		// view's previous commit proof: every signature in it still verifies for the
		// height, round and hash the proof names
		if vv.Height > w.initH && cv.Height == vv.Height-1 {
			pset := w.set(vv.Height - 1)
			for hash, sigs := range vv.PrevCommitProof.Proofs {
				for _, ss := range sigs {
					if _, okSig := verifySparse(pset, kindPrecommit, vv.Height-1, vv.PrevCommitProof.Round, hash, ss); !okSig {
						fail("C10:previous-commit-proof-does-not-verify-after-restart", fmt.Sprintf("%s: the voting view %d/%d carries a previous commit proof for round %d (committing view is %d/%d) with a signature (key id %x, target %s) that does not verify for that round", when, vv.Height, vv.Round, vv.PrevCommitProof.Round, cv.Height, cv.Round, ss.KeyID, shortHash(hash)), nil)
						break
					}
				}
			}
		}
		// (3) persisted votes and proposals of the resumed rounds are present again. Only right
		// after the restart: later the views are those of rounds entered by the running
		// mirror, which does not load what the round store holds for a round it enters (the
		// known finding about future votes); the property speaks of the rounds it resumes in.
		if when != "right after restart" {
			return true
		}
		for _, v := range []*tmconsensus.VersionedRoundView{&vv, &cv} {
			if v.Height == 0 {
				continue
			}
			phs, pvs, pcs, err := n.rs.in.LoadRoundState(context.Background(), v.Height, v.Round)
			if err != nil {
				continue
			}
			have := map[string]bool{}
			for _, ph := range v.ProposedHeaders {
				have[string(ph.Header.Hash)] = true
			}
			for _, ph := range phs {
				if !have[string(ph.Header.Hash)] {
					fail("C10:persisted-proposed-header-missing-from-view-after-restart", fmt.Sprintf("%s: round store holds proposed header %x for %d/%d but the view does not", when, ph.Header.Hash, v.Height, v.Round), nil)
				}
			}
			for _, kc := range []struct {
				kind   string
				stored tmconsensus.SparseSignatureCollection
				inView map[string]map[string]bool
			}{
				{kindPrevote, pvs, sparseIndex(v, kindPrevote)},
				{kindPrecommit, pcs, sparseIndex(v, kindPrecommit)},
			} {
				if len(kc.stored.PubKeyHash) > 0 && !bytes.Equal(kc.stored.PubKeyHash, v.ValidatorSet.PubKeyHash) {
					// filed under another validator set's hash while this was a round of a height
					// not reached yet (DESIGN Appendix B 13): not votes of this round's set, and
					// since f34f085 deliberately not loaded
					counters["stored-collection-of-another-validator-set-not-expected-in-view"]++
					continue
				}
				for hash, sigs := range kc.stored.BlockSignatures {
					for _, s := range sigs {
						if !kc.inView[hash][string(s.KeyID)+"|"+string(s.Sig)] {
							fail("C10:persisted-vote-missing-from-view-after-restart:"+kc.kind, fmt.Sprintf("%s: round store holds a %s for %s (key id %x) at %d/%d that the view does not", when, kc.kind, shortHash(hash), s.KeyID, v.Height, v.Round), nil)
						}
					}
				}
			}
		}
		return true
	}
	if !check("right after restart") {
		return
	}
	// Known finding C10:...:future-votes-only-loaded-on-restart. Votes for rounds beyond
	// the next-round view go to the round store only; the running mirror starts such a
	// round with empty views when it gets there (TODO in kState.ShiftVotingToCommitting /
	// incrementVotingRound), a restarted mirror loads them. A divergence is attributed to
	// that only when the stores held such votes, at the crash, for a round between the
	// stored voting position and the next round of the position the restart resumed in.
	futureSuffix := ""
	if vvA, _, okA := n.views(); okA && haveNHR {
		for _, hr := range futureAtCrash {
			notBefore := hr[0] > storedNHR[0] || (hr[0] == storedNHR[0] && hr[1] >= storedNHR[1])
			notAfter := hr[0] < vvA.Height || (hr[0] == vvA.Height && hr[1] <= uint64(vvA.Round)+1)
			if notBefore && notAfter {
				futureSuffix = ":future-votes-only-loaded-on-restart"
				counters["restarts_that_loaded_future_votes"]++
				break
			}
		}
	}
	if !mo.afterStep() {
		return
	}

	// --- redeliver the interrupted message and the rest of the history
	for i := next; i < len(tape); i++ {
		if startCrashed && i == next && next == 0 {
			// nothing was interrupted; the whole tape is still to come
		}
		tape[i]()
		if !mo.afterStep() {
			if n.dead.Load() {
				n.rmu.Lock()
				key, msg := n.panicKey, n.panicMsg
				n.rmu.Unlock()
				fail("C10:kernel-panicked-after-restart:"+key, "while redelivering the rest of the history after the restart the kernel panicked: "+msg, nil)
			}
			return
		}
	}
	if !check("after redelivery") {
		return
	}

	// (4) same chain and position as the uninterrupted run
	vv, cv, _ := n.views()
	cs.mu.Lock()
	got := map[uint64]string{}
	for h, x := range cs.committedHash {
		got[h] = x
	}
	cs.mu.Unlock()
	same := len(got) == len(ref.chain)
	for h, x := range ref.chain {
		if got[h] != x {
			same = false
		}
	}
	if !same {
		fail("C10:committed-chain-differs-from-uninterrupted-run"+futureSuffix, fmt.Sprintf("after crash at write %d, restart and redelivery the chain is %s, uninterrupted run has %s", k, fmtChain(got), fmtChain(ref.chain)), nil)
	}
	if vv.Height != ref.vh || vv.Round != ref.vr || cv.Height != ref.ch || cv.Round != ref.cr {
		fail("C10:position-differs-from-uninterrupted-run"+futureSuffix, fmt.Sprintf("after crash at write %d, restart and redelivery the node is at voting %d/%d committing %d/%d; the uninterrupted run reached voting %d/%d committing %d/%d", k, vv.Height, vv.Round, cv.Height, cv.Round, ref.vh, ref.vr, ref.ch, ref.cr), nil)
	}
	counters["recoveries_completed"]++
	n.stop()
	h := sha256.Sum256([]byte(rid + fmt.Sprint(refTrace)))
	r.Nontrivial(h[:])
	if r.WantSample() && k == W2(ref.writes) {
		tr := cs.traceCopy()
		if len(tr) > 30 {
			tr = tr[len(tr)-30:]
		}
		r.Sample(map[string]any{"run": rid, "crash_at_write": k, "of_writes": ref.writes, "tape_messages": len(tape), "resumed_from_tape_index": next, "final": fmt.Sprintf("voting %d/%d committing %d/%d", vv.Height, vv.Round, cv.Height, cv.Round), "trace_tail": tr})
	}
}

func W2(w int64) int { return int(w/2) + 1 }

func atomicStoreCrash(cs *caseState, at int64) {
	atomic.StoreInt64(&cs.crashAt, at)
}

func sparseIndex(v *tmconsensus.VersionedRoundView, kind string) map[string]map[string]bool {
	out := map[string]map[string]bool{}
	proofs := v.PrevoteProofs
	if kind == kindPrecommit {
		proofs = v.PrecommitProofs
	}
	for hash, p := range proofs {
		m := map[string]bool{}
		if p != nil {
			for _, s := range p.AsSparse().Signatures {
				m[string(s.KeyID)+"|"+string(s.Sig)] = true
			}
		}
		out[hash] = m
	}
	return out
}

func fmtChain(c map[uint64]string) string {
	hs := make([]uint64, 0, len(c))
	for h := range c {
		hs = append(hs, h)
	}
	sort.Slice(hs, func(i, j int) bool { return hs[i] < hs[j] })
	s := ""
	for _, h := range hs {
		s += fmt.Sprintf("%d:%s ", h, shortHash(c[h]))
	}
	return s
}

var _ = os.Getenv
