//go:build verif

package tmmirror_test

// C11 monitor: judged at the consumer side of the two view channels.

import (
	"fmt"
	"sort"

	"github.com/bits-and-blooms/bitset"
	"github.com/gordian-engine/gordian/gcrypto"
	"github.com/gordian-engine/gordian/tm/tmconsensus"
)

type hrKey struct {
	h uint64
	r uint32
}

type viewMem struct {
	version uint32
	phs     map[string]bool
	votes   map[string]map[string]bool // "kind|hash" -> "keyid|sig"
}

type c11state struct {
	gossip map[hrKey]*viewMem
	sm     map[hrKey]*viewMem

	lastGossipVoting     *tmconsensus.VersionedRoundView
	lastGossipCommitting *tmconsensus.VersionedRoundView
	lastSMView           *tmconsensus.VersionedRoundView

	// rounds the harness ended by nil quorum or by a fully voted round without quorum
	smH               uint64
	smR               uint32
	smIn              bool
	smEntranceVersion uint32

	endedRounds map[hrKey]string
	// did gossip receive the justification for hrKey before anything for a later round?
	justified           map[hrKey]bool
	laterSeen           map[hrKey]bool
	updatesJudged       int
	viewsJudged         int
	jumpAheadsJudged    int
	sameVersionCompared int
	jumpAheadsLive      int
	smLive              bool
	smOrphan            bool
	smJumpSeen          bool
	orphansJudged       int
	quiescences         int
}

func newC11() *c11state {
	return &c11state{
		gossip: map[hrKey]*viewMem{}, sm: map[hrKey]*viewMem{},
		endedRounds: map[hrKey]string{}, justified: map[hrKey]bool{}, laterSeen: map[hrKey]bool{},
	}
}

// reset forgets per-incarnation version memory (versions restart with the kernel).
func (c *c11state) reset() {
	c.gossip = map[hrKey]*viewMem{}
	c.sm = map[hrKey]*viewMem{}
	c.lastGossipVoting, c.lastGossipCommitting, c.lastSMView = nil, nil, nil
	c.smIn = false
	c.endedRounds = map[hrKey]string{}
	c.justified = map[hrKey]bool{}
}

func sigSets(v *tmconsensus.VersionedRoundView) (map[string]bool, map[string]map[string]bool) {
	phs := map[string]bool{}
	for _, ph := range v.ProposedHeaders {
		phs[string(ph.Header.Hash)+"|"+string(ph.Signature)] = true
	}
	votes := map[string]map[string]bool{}
	for kind, proofs := range map[string]map[string]gcrypto.CommonMessageSignatureProof{kindPrevote: v.PrevoteProofs, kindPrecommit: v.PrecommitProofs} {
		for hash, p := range proofs {
			m := map[string]bool{}
			if p != nil {
				for _, s := range p.AsSparse().Signatures {
					m[string(s.KeyID)+"|"+string(s.Sig)] = true
				}
			}
			votes[kind+"|"+hash] = m
		}
	}
	return phs, votes
}

// observe judges one received view against what the same consumer saw before for (h, r).
func (mo *monitors) c11observe(mem map[hrKey]*viewMem, v *tmconsensus.VersionedRoundView, consumer, role string, strict bool) {
	if v == nil || v.Height == 0 {
		return
	}
	c := mo.c11
	c.viewsJudged++
	k := hrKey{v.Height, v.Round}
	phs, votes := sigSets(v)
	prev := mem[k]
	if prev != nil {
		if strict && v.Version <= prev.version {
			mo.cs.violate("C11", "C11:version-not-strictly-newer:"+consumer,
				fmt.Sprintf("%s received %s view %d/%d with version %d after version %d", consumer, role, v.Height, v.Round, v.Version, prev.version), nil)
		}
		if v.Version >= prev.version {
			for x := range prev.phs {
				if !phs[x] {
					mo.cs.violate("C11", "C11:proposed-header-disappeared:"+consumer,
						fmt.Sprintf("%s: %s view %d/%d version %d lacks a proposed header that version %d had", consumer, role, v.Height, v.Round, v.Version, prev.version), nil)
					break
				}
			}
			for t, sigs := range prev.votes {
				for x := range sigs {
					if !votes[t][x] {
						mo.cs.violate("C11", "C11:vote-disappeared:"+consumer,
							fmt.Sprintf("%s: %s view %d/%d version %d lacks a %s signature that version %d had", consumer, role, v.Height, v.Round, v.Version, t[:9], prev.version), nil)
						break
					}
				}
			}
		}
	}
	if prev == nil || v.Version >= prev.version {
		mem[k] = &viewMem{version: v.Version, phs: phs, votes: votes}
	}
}

// justifies reports whether the precommits in v justify leaving its round by
// nil quorum or by every validator having precommitted without a quorum.
func (mo *monitors) justifies(v *tmconsensus.VersionedRoundView) bool {
	set := mo.w.set(v.Height)
	union := map[int]struct{}{}
	var nilPow uint64
	for hash, p := range v.PrecommitProofs {
		if p == nil {
			continue
		}
		var bs bitset.BitSet
		p.SignatureBitSet(&bs)
		m := map[int]struct{}{}
		for i, ok := bs.NextSet(0); ok; i, ok = bs.NextSet(i + 1) {
			m[int(i)] = struct{}{}
			union[int(i)] = struct{}{}
		}
		if hash == "" {
			nilPow = set.power(m)
		}
	}
	return exceedsTwoThirds(nilPow, set.total) || set.power(union) == set.total
}

// c11jumpAhead judges a jump-ahead view as the state machine stand-in received it:
// it is the mirror's message "round skipped, go to this one", so it has to carry the
// votes that justified the skip (at least the Byzantine minority of the power in
// prevotes or in precommits for the target round, the kernel's own rule), and its vote
// summary has to describe the proofs it carries. The mirror may have moved on since;
// what it handed over must not have changed with it.
func (mo *monitors) c11jumpAhead(ja *tmconsensus.VersionedRoundView) {
	c := mo.c11
	c.jumpAheadsJudged++
	set := mo.w.set(ja.Height)
	min := tmconsensus.ByzantineMinority(set.total)
	pow := func(proofs map[string]gcrypto.CommonMessageSignatureProof) uint64 {
		union := map[int]struct{}{}
		for _, p := range proofs {
			if p == nil {
				continue
			}
			var bs bitset.BitSet
			p.SignatureBitSet(&bs)
			for i, ok := bs.NextSet(0); ok; i, ok = bs.NextSet(i + 1) {
				union[int(i)] = struct{}{}
			}
		}
		return set.power(union)
	}
	pv, pc := pow(ja.PrevoteProofs), pow(ja.PrecommitProofs)
	// The votes are demanded only of a jump that happened while the state machine was in a
	// round the mirror still held when it answered the entrance: a state machine that
	// enters a round the mirror has left already is sent on to the mirror's voting round,
	// whatever that holds.
	live := c.smIn && c.smLive && ja.Height == c.smH && ja.Round > c.smR
	if live {
		c.jumpAheadsLive++
	}
	if live && pv < min && pc < min {
		mo.cs.violate("C11", "C11:jump-ahead-view-lacks-the-votes-that-justified-the-jump",
			fmt.Sprintf("the state machine received a jump-ahead view for %d/%d (version %d) whose proofs carry prevote power %d and precommit power %d; a jump needs %d of %d", ja.Height, ja.Round, ja.Version, pv, pc, min, set.total), nil)
	}
	if ja.VoteSummary.TotalPrevotePower != pv || ja.VoteSummary.TotalPrecommitPower != pc {
		mo.cs.violate("C11", "C11:jump-ahead-view-summary-disagrees-with-its-proofs",
			fmt.Sprintf("the state machine received a jump-ahead view for %d/%d (version %d) whose summary reports prevote power %d and precommit power %d while its proofs carry %d and %d", ja.Height, ja.Round, ja.Version, ja.VoteSummary.TotalPrevotePower, ja.VoteSummary.TotalPrecommitPower, pv, pc), nil)
	}
}

func (mo *monitors) c11consume(gossip []recvGossip, sm []recvSM) {
	c := mo.c11
	for i := range gossip {
		u := &gossip[i].u
		c.updatesJudged++
		// first: justification bookkeeping (order inside one update: nil-voted and the
		// old round's views count as delivered together with the update)
		for _, v := range []*tmconsensus.VersionedRoundView{u.NilVotedRound, u.Voting, u.Committing, u.NextRound} {
			if v == nil || v.Height == 0 {
				continue
			}
			k := hrKey{v.Height, v.Round}
			if _, ended := c.endedRounds[k]; ended && !c.justified[k] && mo.justifies(v) {
				c.justified[k] = true
			}
		}
		mo.c11observe(c.gossip, u.Committing, "gossip", "committing", true)
		mo.c11observe(c.gossip, u.NilVotedRound, "gossip", "nil-voted", false)
		mo.c11observe(c.gossip, u.Voting, "gossip", "voting", true)
		mo.c11observe(c.gossip, u.NextRound, "gossip", "next-round", true)
		if u.Voting != nil {
			c.lastGossipVoting = u.Voting
		}
		if u.Committing != nil {
			c.lastGossipCommitting = u.Committing
		}
	}
	for i := range sm {
		if e := sm[i].entrance; e != nil {
			// the stand-in entered a round: version memory starts from the entrance response
			c.sm = map[hrKey]*viewMem{}
			c.lastSMView = nil
			c.smH, c.smR, c.smIn = e.h, e.r, true
			c.smLive = e.live
			c.smOrphan, c.smJumpSeen = e.orphan, false
			c.smEntranceVersion = 0
			if e.resp.IsVRV() {
				c.smEntranceVersion = e.resp.VRV.Version
				mo.c11observe(c.sm, &e.resp.VRV, "statemachine", "entrance", true)
			}
			continue
		}
		v := &sm[i].v
		if ja := v.JumpAheadRoundView; ja != nil && ja.Height > 0 {
			mo.c11jumpAhead(ja)
			if c.smIn && ja.Height == c.smH && ja.Round > c.smR {
				c.smJumpSeen = true
			}
		}
		if v.VRV.Height > 0 {
			if !c.smIn || v.VRV.Height != c.smH || v.VRV.Round != c.smR {
				// The harness's one-slot buffer can hold a view the kernel handed over
				// before it processed the entrance; the production channel is unbuffered
				// and the real state machine ignores views for other rounds. Not judged.
				mo.cs.count("c11.sm-view-for-other-round-unjudged")
			} else {
				mo.c11observe(c.sm, &v.VRV, "statemachine", "round", true)
				c.lastSMView = &v.VRV
			}
		}
	}
}

// c11quiesce establishes quiescence without sleeping. Gossip: the reader goroutine is
// parked (acknowledged), so the only reader is this function; the channel has one slot
// of buffer, so whenever the kernel has something to send and the slot is empty its
// send case is ready, whatever the scheduler does to the harness. State machine: the
// stand-in goroutine itself stays parked on its unbuffered channel while goroutines it
// starts force kernel iterations (smDrain). A round
// drains both slots and then forces 48 kernel loop iterations (24 view snapshots of
// two requests each); the kernel picks among its ready cases at random, so an update
// that is pending survives one round with probability < (5/6)^48 < 2e-4 and two
// consecutive empty rounds with probability < 3e-8. Then the consumers' last views
// are compared with the mirror's.
func (mo *monitors) c11quiesce() {
	n := mo.n
	n.gossipPaused.Store(false)
	n.smPaused.Store(false)
	c := mo.c11
	resume, okp := n.parkReaders()
	if !okp {
		return
	}
	defer resume()
	drain := func() int {
		got := 0
		for {
			select {
			case u := <-n.gossipOut:
				n.recordGossip(u)
				got++
				continue
			default:
			}
			break
		}
		g := n.takeGossip()
		s := n.takeSM()
		for i := range g {
			u := &g[i].u
			for _, v := range []*tmconsensus.VersionedRoundView{u.Voting, u.Committing, u.NextRound, u.NilVotedRound} {
				if v != nil && v.Height > 0 {
					mo.checkViewSigs(v, "gossip")
					mo.checkSummary(v, "gossip")
				}
			}
		}
		mo.c11consume(g, s)
		return got + len(g) + len(s)
	}
	still := 0
	for round := 0; round < 150 && still < 3; round++ {
		got := drain()
		for i := 0; i < 24; i++ {
			if _, _, ok := n.views(); !ok {
				return
			}
			got += drain()
		}
		// the state-machine reader: parked on its unbuffered channel across forced kernel iterations
		k, ok := n.smDrain(48)
		if !ok {
			return
		}
		got += k + drain()
		if got == 0 {
			still++
		} else {
			still = 0
		}
	}
	if still < 3 {
		mo.cs.r.Inconclusive("C11: consumers never became quiescent in case %s", mo.cs.id)
		return
	}
	vv, cv, ok := n.views()
	if !ok {
		return
	}
	c.quiescences++
	if c.lastGossipVoting == nil || c.lastGossipVoting.Height != vv.Height || c.lastGossipVoting.Round != vv.Round || c.lastGossipVoting.Version != vv.Version || viewDigest(c.lastGossipVoting) != viewDigest(&vv) {
		got := "nothing"
		if c.lastGossipVoting != nil {
			got = fmt.Sprintf("%d/%d version %d", c.lastGossipVoting.Height, c.lastGossipVoting.Round, c.lastGossipVoting.Version)
		}
		mo.cs.violate("C11", "C11:gossip-not-current-at-quiescence:voting",
			fmt.Sprintf("inputs stopped; the mirror's voting view is %d/%d version %d, the last voting view gossip received is %s", vv.Height, vv.Round, vv.Version, got),
			map[string]any{"mirror": viewDigest(&vv), "gossip": func() string {
				if c.lastGossipVoting == nil {
					return ""
				}
				return viewDigest(c.lastGossipVoting)
			}()})
	}
	if cv.Height > 0 {
		if c.lastGossipCommitting == nil || c.lastGossipCommitting.Height != cv.Height || c.lastGossipCommitting.Round != cv.Round || c.lastGossipCommitting.Version != cv.Version || viewDigest(c.lastGossipCommitting) != viewDigest(&cv) {
			got := "nothing"
			if c.lastGossipCommitting != nil {
				got = fmt.Sprintf("%d/%d version %d", c.lastGossipCommitting.Height, c.lastGossipCommitting.Round, c.lastGossipCommitting.Version)
			}
			mo.cs.violate("C11", "C11:gossip-not-current-at-quiescence:committing",
				fmt.Sprintf("inputs stopped; the mirror's committing view is %d/%d version %d, the last committing view gossip received is %s", cv.Height, cv.Round, cv.Version, got), nil)
		}
	}
	// the state machine stand-in is entitled to the view of the round it entered,
	// if that round is still the voting round
	if c.smIn && c.smH == vv.Height && c.smR == vv.Round {
		have := c.smEntranceVersion
		if c.lastSMView != nil && c.lastSMView.Height == vv.Height && c.lastSMView.Round == vv.Round && c.lastSMView.Version > have {
			have = c.lastSMView.Version
		}
		if have != vv.Version {
			mo.cs.violate("C11", "C11:statemachine-not-current-at-quiescence",
				fmt.Sprintf("inputs stopped; the state machine is in %d/%d, the mirror's view of it has version %d, the newest version the state machine received is %d", vv.Height, vv.Round, vv.Version, have), nil)
		}
	}
	// a state machine that entered a round the mirror had already dropped is entitled to
	// a jump-ahead signal, however many rounds the mirror is ahead
	if c.smIn && c.smOrphan && c.smH == vv.Height && c.smR < vv.Round {
		c.orphansJudged++
		if !c.smJumpSeen {
			mo.cs.violate("C11", "C11:state-machine-in-a-dropped-round-never-told-to-jump-ahead",
				fmt.Sprintf("inputs stopped; the state machine entered %d/%d after the mirror had left it, the mirror is voting on %d/%d, and no jump-ahead view has reached the state machine", c.smH, c.smR, vv.Height, vv.Round), nil)
		}
	}
	// every ended round whose later round gossip has seen must have been justified (checked on arrival);
	// ended rounds that are still the newest thing gossip knows need the justification by now
	keys := make([]hrKey, 0, len(c.endedRounds))
	for k := range c.endedRounds {
		keys = append(keys, k)
	}
	sort.Slice(keys, func(i, j int) bool { return keys[i].h < keys[j].h || (keys[i].h == keys[j].h && keys[i].r < keys[j].r) })
	for _, k := range keys {
		if !c.justified[k] {
			mo.cs.violate("C11", "C11:votes-that-ended-round-never-delivered-to-gossip:"+c.endedRounds[k],
				fmt.Sprintf("round %d/%d ended (%s) and the mirror is at %d/%d; inputs stopped and both readers drained, yet gossip never received (as voting, committing or nil-voted view of that round) the precommits that ended it", k.h, k.r, c.endedRounds[k], vv.Height, vv.Round), nil)
		}
	}
}
