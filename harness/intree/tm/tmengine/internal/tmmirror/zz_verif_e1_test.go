//go:build verif

package tmmirror_test

import (
	"context"
	"crypto/sha256"
	"fmt"
	"math/rand/v2"
	"os"
	"runtime"
	"strings"
	"sync"
	"testing"

	"github.com/gordian-engine/gordian/internal/verifkit"
	"github.com/gordian-engine/gordian/tm/tmconsensus"
)

// e1Profile selects workload weights per property.
type e1Profile struct {
	prop          string
	attackWeight  int
	steps         [2]int // min, extra
	concurrent    bool
	restartPct    int
	quickCases    int
	thoroughCases int
	rule          string
}

var e1Profiles = map[string]e1Profile{
	"C11": {prop: "C11", attackWeight: 45, steps: [2]int{30, 50}, concurrent: true, restartPct: 2, quickCases: 400, thoroughCases: 8000,
		rule: "E1 histories with the harness as both view consumers (gossip reader and state-machine reader each randomly stalled and resumed, round entrances issued while views shift, nil / fully-voted / jumped rounds, replays), judged at the consumer side: per (height, round) strictly increasing versions, proposals and per-target signature sets only grow; when a round the harness ended by nil quorum or by a fully voted round is followed by a later round at the gossip reader, the justifying precommits must have arrived first; at quiescence (no output during 3 x 24 served snapshot requests) the last views each consumer holds equal the mirror's VotingView/CommittingView. Race detector sub-run (a view mutated after delivery is a race between kernel and reader). Non-trivial = distinct histories with >= 1 quiescence comparison and >= 20 received views judged."},
	"C09": {prop: "C09", attackWeight: 65, steps: [2]int{40, 60}, concurrent: true, restartPct: 2, quickCases: 1000, thoroughCases: 20000,
		rule: "E1 histories at full hostile width (every height/round offset -3..+3, every key-id length, every commit-proof shape, replays, state-machine entrances and actions), sequential then 2-6 concurrent deliverers, with stalled gossip/state-machine readers; two thirds of the messages go through the shipped AcceptAllValid/DropDuplicate feedback mappers. Monitors: hook Catch on the kernel goroutine and recover around every Handle* call (panic => violation keyed by site), logical livelock bound on HandleProposedHeader's restart label, defined-result and defined-feedback checks, liveness probe (VotingView must answer after every input). Non-trivial = distinct histories with >= 10 hostile messages handled."},
	"C01": {prop: "C01", attackWeight: 45, steps: [2]int{30, 60}, concurrent: true, restartPct: 2, quickCases: 800, thoroughCases: 16000,
		rule: "E1 histories (honest rounds, nil/split/jump rounds, replays, hostile proposals/votes/replays at offsets -3..+3 around the node's position, state-machine entrances and actions, restarts), sequential then concurrent phase; every commit event (SaveCommittedHeader, new committing view, accepted replay, RoundEntranceResponse.CH) judged by (a) crypto/ed25519 re-verification of the held certificate under the harness-prescribed validator set and (b) the ledger of valid precommits ever delivered. Non-trivial = distinct history digests with >= 1 commit event judged."},
	"C04": {prop: "C04", attackWeight: 50, steps: [2]int{30, 60}, concurrent: true, restartPct: 4, quickCases: 800, thoroughCases: 16000,
		rule: "E1 histories as for C01 with more restarts; store wrappers assert on every SaveCommittedHeader (top+1 or identical, hash-linked to predecessor) and SetNetworkHeightRound (positions monotone, voting = committing+1); whole chain reloaded and compared with the first-seen table after every step. Non-trivial = distinct histories with >= 2 committed heights and >= 1 hostile message for an already committed height."},
	"C05": {prop: "C05", attackWeight: 60, steps: [2]int{30, 50}, concurrent: true, restartPct: 2, quickCases: 700, thoroughCases: 14000,
		rule: "E1 histories weighted towards hostile vote messages; after every step each signature in the voting/committing views, in every view handed to gossip and the state machine, in the round store and in stored/built commit proofs is re-verified with crypto/ed25519 under the prescribed set, bit sets compared with verified signer sets; messages without any valid signature must leave views and round store byte-identical and must not be reported accepted. Non-trivial = distinct histories with >= 1 all-invalid message judged and >= 20 signatures re-verified."},
	"C06": {prop: "C06", attackWeight: 55, steps: [2]int{30, 50}, concurrent: true, restartPct: 2, quickCases: 700, thoroughCases: 14000,
		rule: "E1 histories weighted towards equivocation and multi-target votes over six power distributions; every vote summary seen (snapshots, gossip output, state-machine output) recomputed from bit sets and prescribed powers: available, per-target, total = power of the union of signers, most-voted is maximal; plus directed minority-only scenarios in which validators below 1/3 vote for many targets and rounds and the voting round must not move. Non-trivial = distinct histories with >= 1 summary over >= 2 targets judged."},
	"C07": {prop: "C07", attackWeight: 50, steps: [2]int{30, 60}, concurrent: true, restartPct: 3, quickCases: 800, thoroughCases: 16000,
		rule: "E1 histories on a chain whose validator keys, set size and powers change at every height, with forged copies (validator lists altered, hashes and signature kept) of proposals and replayed headers delivered before or after the original; the validator set of every observable view and of every committed header compared with the harness-prescribed set and re-hashed. Non-trivial = distinct histories with >= 1 commit followed by a validator-set change."},
}

func TestVerif_E1(t *testing.T) {
	prop := os.Getenv("VERIF_PROP")
	pf, ok := e1Profiles[prop]
	if !ok {
		t.Skip("VERIF_PROP does not name an E1 property")
	}
	r := verifkit.Start(prop)
	if r == nil {
		t.Skip("not started by the /verif driver")
	}
	defer r.Finish()
	r.SetRule(pf.rule)

	nCases := r.N(pf.quickCases, pf.thoroughCases)
	if strings.HasSuffix(r.Sub, "race") {
		nCases = nCases / 8
		if nCases < 8 {
			nCases = 8
		}
	}
	only := -1
	if s := os.Getenv("VERIF_ONLY_CASE"); s != "" {
		fmt.Sscanf(s, "%d", &only)
	}
	var agg sync.Mutex
	totals := map[string]int64{}
	r.Parallel(nCases, func(i int) {
		if only >= 0 && i != only {
			return
		}
		id := fmt.Sprintf("e1-%s-%d", r.Sub, i)
		r.BeginCase(id)
		c := runE1Case(r, pf, id, r.CaseRNG(i))
		r.Eval(1)
		agg.Lock()
		for k, v := range c {
			totals[k] += v
		}
		agg.Unlock()
	})
	for k, v := range totals {
		r.Count(k, v)
	}
}

// runE1Case runs one history and returns its counters.
func runE1Case(r *verifkit.Run, pf e1Profile, id string, rng *rand.Rand) map[string]int64 {
	nVals := []int{1, 2, 3, 4, 4, 5, 7}[rng.IntN(7)]
	profile := rng.IntN(6)
	rotate := rng.IntN(5) != 0
	w := newWorld(rng, nVals, profile, rotate)
	cs := newCaseState(r, pf.prop, id, w)
	ctx, cancel := context.WithCancel(context.Background())
	defer cancel()
	n := newNode(ctx, cs)
	cs.logf("case %s: nVals=%d profile=%d rotate=%v", id, nVals, profile, rotate)
	if key, msg := n.start(); key != "" {
		cs.violate("C09", "C09:initial-start-failed:"+key, msg, nil)
		return cs.counter
	}
	defer n.stop()
	n.useMappers = pf.prop == "C09"
	n.dstMode = int(uint64(nVals+profile)+w.initH) % 3
	g := newGen(n, rng)
	g.attackWeight = pf.attackWeight
	g.allowAbandon = pf.prop == "C09"
	mo := newMonitors(n)
	g.mo = mo

	restarts := 0
	handleDeath := func() bool {
		// returns true if the case can continue
		if n.dead.Load() {
			n.rmu.Lock()
			key, msg, stack := n.panicKey, n.panicMsg, n.panicStack
			n.rmu.Unlock()
			cs.logf("NODE PANIC %s: %s", key, msg)
			cs.count("panic." + key)
			cs.violate("C09", "C09:"+key, "mirror goroutine panicked: "+msg, map[string]any{"stack": stack})
		} else {
			// The kernel did not answer a snapshot request within the generous call
			// timeout and did not panic. Ask once more before calling it wedged.
			if _, _, ok := n.views(); ok {
				cs.count("slow-answer-recovered")
				return true
			}
			cs.logf("NODE NOT ANSWERING")
			cs.count("not-answering")
			buf := make([]byte, 1<<20)
			buf = buf[:runtime.Stack(buf, true)]
			cs.violate("C09", "C09:mirror-stopped-serving", "the mirror kernel did not answer two consecutive view requests (60 s each) and did not panic", map[string]any{"goroutines": string(buf)})
		}
		n.stop()
		mo.c11consume(n.takeGossip(), n.takeSM())
		mo.c11.reset()
		restarts++
		if restarts > 3 {
			cs.ended = "too many crashes"
			return false
		}
		if key, msg := n.start(); key != "" {
			cs.logf("RESTART FAILED %s: %s", key, msg)
			cs.count("restart-failed." + key)
			cs.violate("C10", "C10:restart-failed:"+key, "mirror could not be restarted on its own stores: "+msg, nil)
			cs.ended = "restart failed"
			return false
		}
		cs.logf("RESTARTED after crash")
		mo.havePos = false
		mo.c11.reset()
		return true
	}

	steps := pf.steps[0] + rng.IntN(pf.steps[1])
	alive := true
	for s := 0; s < steps && alive; s++ {
		if rng.IntN(100) < pf.restartPct || g.wantRestart {
			g.wantRestart = false
			n.stop()
			mo.c11consume(n.takeGossip(), n.takeSM())
			mo.c11.reset()
			if key, msg := n.start(); key != "" {
				cs.violate("C10", "C10:restart-failed:"+key, "mirror could not be restarted on its own stores: "+msg, nil)
				cs.ended = "restart failed"
				alive = false
				break
			}
			cs.logf("RESTART (clean)")
			cs.count("restart.clean")
			mo.havePos = false
			mo.c11.reset()
		}
		if pf.prop == "C09" || pf.prop == "C11" {
			// readers of the two view channels stall and resume
			if rng.IntN(8) == 0 {
				n.gossipPaused.Store(!n.gossipPaused.Load())
			}
			if rng.IntN(8) == 0 {
				n.smPaused.Store(!n.smPaused.Load())
			}
		}
		g.step()
		if !mo.afterStep() {
			alive = handleDeath()
			if alive {
				mo.afterStep()
			}
		}
	}
	n.gossipPaused.Store(false)
	n.smPaused.Store(false)

	if alive && pf.prop == "C06" {
		// progress to a fresh round first, then let only a minority speak
		g.attackWeight = 0
		g.step()
		if !mo.afterStep() {
			alive = handleDeath()
		}
		g.attackWeight = pf.attackWeight
		if alive {
			g.minorityOnly()
			if !mo.afterStep() {
				alive = handleDeath()
			}
		}
	}

	// concurrent phase: pre-generated deliveries from several goroutines.
	if alive && pf.concurrent {
		nw := 2 + rng.IntN(5)
		per := 3 + rng.IntN(6)
		var batches [][]func()
		for k := 0; k < nw; k++ {
			var b []func()
			for j := 0; j < per; j++ {
				if f := g.pregen(); f != nil {
					b = append(b, f)
				}
			}
			batches = append(batches, b)
		}
		if smb := g.takeRecordedSM(); len(smb) > 0 {
			batches = append(batches, smb)
		}
		cs.logf("CONCURRENT PHASE %d goroutines x %d", nw, per)
		var wg sync.WaitGroup
		for _, b := range batches {
			wg.Add(1)
			go func(b []func()) {
				defer wg.Done()
				for _, f := range b {
					f()
				}
			}(b)
		}
		wg.Wait()
		cs.count("concurrent-phase")
		if !mo.afterStep() {
			alive = handleDeath()
		}
		// and a few more sequential steps afterwards
		for s := 0; s < 6 && alive; s++ {
			g.step()
			if !mo.afterStep() {
				alive = handleDeath()
			}
		}
	}

	if alive && pf.prop == "C11" {
		if rng.IntN(2) == 0 {
			// the state machine stand-in shows up late: it enters a round of the voting height
			// that the mirror left two or more rounds ago, and must be sent on
			if vh, vr, _, _, okp := n.pos(); okp && vr >= 2 {
				back := 2 + uint32(rng.IntN(int(vr)-1))
				resp, oke := n.smEnter(vh, vr-back, nil)
				cs.logf("SM enter late %d/%d (mirror at %d/%d) -> vrv=%v ok=%v", vh, vr-back, vh, vr, resp.IsVRV(), oke)
				cs.count("c11.late-entrance-into-dropped-round")
				if !mo.afterStep() {
					alive = handleDeath()
				}
			}
		}
	}
	if alive && pf.prop == "C11" {
		mo.c11quiesce()
	}

	// final: all touched rounds, all committed proofs
	cs.mu.Lock()
	top := cs.topCommitted
	cs.mu.Unlock()
	for h := w.initH; h <= top; h++ {
		mo.checkCommittedProof(h)
	}

	cs.counter["commit_events_judged"] += int64(mo.judgedCommits)
	cs.counter["quorums_shown_to_state_machine_judged"] += int64(mo.judgedShownQuorums)
	cs.counter["signatures_reverified"] += int64(mo.sigsVerified)
	cs.counter["summaries_judged"] += int64(mo.summariesJudged)
	cs.counter["summaries_multi_target"] += int64(mo.multiTarget)
	cs.counter["validator_set_checks"] += int64(mo.setChecks)
	cs.counter["heights_committed"] += int64(top)
	cs.counter["store_writes"] += cs.storeWrites.Load()
	cs.counter["all_invalid_judged"] += int64(g.allInvalidJudged)
	cs.counter["late_conflicting_for_committed"] += int64(g.lateForCommitted)
	cs.counter["forged_list_copies_delivered"] += int64(g.forgedCopies)
	cs.counter["c11_views_judged"] += int64(mo.c11.viewsJudged)
	cs.counter["c11_jump_ahead_views_judged"] += int64(mo.c11.jumpAheadsJudged)
	cs.counter["c11_orphaned_entrances_judged_at_quiescence"] += int64(mo.c11.orphansJudged)
	cs.counter["c11_same_version_content_comparisons"] += int64(mo.c11.sameVersionCompared)
	cs.counter["c11_jump_ahead_views_judged_for_justifying_votes"] += int64(mo.c11.jumpAheadsLive)
	cs.counter["c11_updates_judged"] += int64(mo.c11.updatesJudged)
	cs.counter["c11_quiescence_comparisons"] += int64(mo.c11.quiescences)
	cs.counter["c11_rounds_ended_by_harness"] += int64(len(mo.c11.endedRounds))
	cs.counter["minority_only_messages_judged"] += int64(g.minorityJudged)

	nontrivial := false
	switch pf.prop {
	case "C01":
		nontrivial = mo.judgedCommits >= 1
	case "C04":
		nontrivial = top >= w.initH+1 && g.lateForCommitted >= 1
	case "C05":
		nontrivial = g.allInvalidJudged >= 1 && mo.sigsVerified >= 20
	case "C06":
		nontrivial = mo.multiTarget >= 1
	case "C07":
		nontrivial = top >= w.initH && mo.setChanges >= 1 && g.forgedCopies >= 1
	case "C09":
		nontrivial = g.attacks >= 10
	case "C11":
		nontrivial = mo.c11.quiescences >= 1 && mo.c11.viewsJudged >= 20
	}
	if nontrivial {
		h := sha256.New()
		for _, l := range cs.traceCopy() {
			h.Write([]byte(l))
		}
		r.Nontrivial(h.Sum(nil))
	}
	if r.WantSample() && nontrivial {
		tr := cs.traceCopy()
		if len(tr) > 40 {
			tr = append(tr[:40:40], fmt.Sprintf("... %d more steps", len(tr)-40))
		}
		r.Sample(map[string]any{"case": id, "validators": nVals, "power_profile": profile, "rotate_sets": rotate, "heights_committed": top, "commit_events_judged": mo.judgedCommits, "trace_head": tr})
	}
	return cs.counter
}

var _ = tmconsensus.HandleVoteProofsAccepted

func init() {
	if os.Getenv("VERIF_DEBUG_CH") != "" {
		debugCH = true
	}
}

var debugCH bool
