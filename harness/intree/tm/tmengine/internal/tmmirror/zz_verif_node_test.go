//go:build verif

package tmmirror_test

// E1 node: a real tmmirror.Mirror on wrapped in-memory stores, with the harness
// on every channel. Store wrappers assert the C04 invariants where the state
// advances, record C01 commit events, count writes and can freeze the writer
// (crash injection for C10).

import (
	"bytes"
	"context"
	"fmt"
	"io"
	"log/slog"
	"os"
	"strings"
	"sync"
	"sync/atomic"
	"time"

	"github.com/gordian-engine/gordian/gassert/gasserttest"
	"github.com/gordian-engine/gordian/gcrypto"
	"github.com/gordian-engine/gordian/gexchange"
	"github.com/gordian-engine/gordian/gwatchdog"
	"github.com/gordian-engine/gordian/internal/verifhook"
	"github.com/gordian-engine/gordian/internal/verifkit"
	"github.com/gordian-engine/gordian/tm/tmconsensus"
	"github.com/gordian-engine/gordian/tm/tmengine/internal/tmeil"
	"github.com/gordian-engine/gordian/tm/tmengine/internal/tmmirror"
	"github.com/gordian-engine/gordian/tm/tmengine/tmelink"
	"github.com/gordian-engine/gordian/tm/tmstore"
	"github.com/gordian-engine/gordian/tm/tmstore/tmmemstore"
)

var quietLog = slog.New(slog.NewTextHandler(io.Discard, &slog.HandlerOptions{Level: slog.LevelError + 10}))

// callTimeout is a watchdog on operations that take microseconds.
// Its firing is never a violation by itself (see probeLiveness).
const callTimeout = 60 * time.Second

// caseState is everything that survives restarts of the node within one case.
type caseState struct {
	r    *verifkit.Run
	prop string
	id   string
	w    *world

	mu    sync.Mutex
	trace []string

	// C04 first-seen table and positions, updated by the store wrappers.
	committedHash map[uint64]string
	committedPrev map[uint64]string
	topCommitted  uint64
	haveNHR       bool
	lastNHR       [4]uint64

	// C01 commit events not yet judged (judged by the monitor after the step,
	// when the delivered-ledger is complete for that step).
	commitEvents []commitEvent

	touchedRounds map[[2]uint64]struct{}

	// rounds whose votes were written to the round store while the round was
	// beyond the mirror's next-round view (future votes), see noteFutureStored
	futureStored map[[2]uint64]bool

	storeWrites atomic.Int64
	crashAt     int64 // freeze the writer of write number crashAt (1-based); 0 = never
	crashed     chan struct{}
	crashOnce   sync.Once

	nViol   int
	sigOK   map[[32]byte]bool
	ended   string // reason the case ended early
	counter map[string]int64
}

// noteFutureStored records a vote write for a round that is neither the voting
// nor the next round at the position last persisted: a future vote, which only
// the round store holds.
func (cs *caseState) noteFutureStored(h uint64, r uint32) {
	cs.mu.Lock()
	defer cs.mu.Unlock()
	if !cs.haveNHR {
		return
	}
	vh, vr := cs.lastNHR[0], cs.lastNHR[1]
	if h > vh || (h == vh && uint64(r) > vr+1) {
		if cs.futureStored == nil {
			cs.futureStored = map[[2]uint64]bool{}
		}
		cs.futureStored[[2]uint64{h, uint64(r)}] = true
	}
}

type commitEvent struct {
	source string
	h      uint64
	round  uint32
	hash   string
	proof  tmconsensus.CommitProof
	header tmconsensus.Header
}

func newCaseState(r *verifkit.Run, prop, id string, w *world) *caseState {
	return &caseState{
		r: r, prop: prop, id: id, w: w,
		committedHash: map[uint64]string{},
		committedPrev: map[uint64]string{},
		touchedRounds: map[[2]uint64]struct{}{},
		crashed:       make(chan struct{}),
		sigOK:         map[[32]byte]bool{},
		counter:       map[string]int64{},
	}
}

func (cs *caseState) logf(format string, a ...any) {
	cs.mu.Lock()
	if len(cs.trace) < 2000 {
		cs.trace = append(cs.trace, fmt.Sprintf(format, a...))
	}
	cs.mu.Unlock()
}

func (cs *caseState) count(name string) {
	cs.mu.Lock()
	cs.counter[name]++
	cs.mu.Unlock()
}

func (cs *caseState) traceCopy() []string {
	cs.mu.Lock()
	defer cs.mu.Unlock()
	t := cs.trace
	if len(t) > 400 {
		t = append([]string{fmt.Sprintf("... %d earlier steps omitted ...", len(t)-400)}, t[len(t)-400:]...)
	}
	return append([]string(nil), t...)
}

// violate records a violation of property prop. Only the property under
// check counts; what other monitors see is tallied for information.
func (cs *caseState) violate(prop, key, what string, detail any) {
	if prop != cs.prop && os.Getenv("VERIF_OBSERVE_ALL") == "" {
		// VERIF_OBSERVE_ALL=1 is a debugging aid: report what the other monitors see as well.
		cs.r.Count("other_property_observation."+key, 1)
		return
	}
	cs.mu.Lock()
	cs.nViol++
	cs.mu.Unlock()
	cs.r.Violate(key, what, cs.id, map[string]any{
		"detail": detail,
		"trace":  cs.traceCopy(),
		"world":  cs.w.describe(),
	})
}

func (w *world) describe() map[string]any {
	w.mu.Lock()
	defer w.mu.Unlock()
	sets := map[string]any{}
	for h, s := range w.sets {
		pows := make([]uint64, s.n())
		for i, v := range s.vs.Validators {
			pows[i] = v.Power
		}
		sets[fmt.Sprint(h)] = map[string]any{"n": s.n(), "powers": fmt.Sprint(pows), "pubkeyhash": fmt.Sprintf("%x", s.vs.PubKeyHash)}
	}
	return map[string]any{"initial_height": w.initH, "rotate": w.rotate, "profile": w.profile, "sets": sets}
}

// ---------------------------------------------------------------------------
// store wrappers

type storeHook struct {
	cs  *caseState
	ctx func() context.Context
	// onOp runs at the start of every round-store operation (whoever calls it)
	onOp func()
}

// beforeWrite counts a store write and freezes the caller when this is the
// write chosen as the crash point: nothing of this write (or any later one)
// reaches the store.
func (h storeHook) beforeWrite(what string) error {
	n := h.cs.storeWrites.Add(1)
	if at := atomic.LoadInt64(&h.cs.crashAt); at != 0 && n >= at {
		h.cs.crashOnce.Do(func() { close(h.cs.crashed) })
		<-h.ctx().Done()
		return context.Cause(h.ctx())
	}
	return nil
}

type mirrorStoreW struct {
	storeHook
	in *tmmemstore.MirrorStore
}

func (s *mirrorStoreW) SetNetworkHeightRound(ctx context.Context, vh uint64, vr uint32, ch uint64, cr uint32) error {
	if err := s.beforeWrite("nhr"); err != nil {
		return err
	}
	cs := s.cs
	cs.mu.Lock()
	prev, have := cs.lastNHR, cs.haveNHR
	cs.lastNHR = [4]uint64{vh, uint64(vr), ch, uint64(cr)}
	cs.haveNHR = true
	cs.mu.Unlock()
	if have {
		if vh < prev[0] || (vh == prev[0] && uint64(vr) < prev[1]) {
			cs.violate("C04", "C04:voting-position-moved-backwards", fmt.Sprintf("SetNetworkHeightRound voting %d/%d after %d/%d", vh, vr, prev[0], prev[1]), map[string]any{"prev": prev, "new": []uint64{vh, uint64(vr), ch, uint64(cr)}})
		}
		if ch < prev[2] || (ch == prev[2] && uint64(cr) < prev[3]) {
			cs.violate("C04", "C04:committing-position-moved-backwards", fmt.Sprintf("SetNetworkHeightRound committing %d/%d after %d/%d", ch, cr, prev[2], prev[3]), map[string]any{"prev": prev})
		}
		if ch > prev[2]+1 && prev[2] != 0 {
			cs.violate("C04", "C04:committing-height-skipped", fmt.Sprintf("committing height %d after %d", ch, prev[2]), nil)
		}
	}
	if ch != 0 && vh != ch+1 {
		cs.violate("C04", "C04:voting-height-not-committing-plus-one", fmt.Sprintf("voting height %d, committing height %d", vh, ch), nil)
	}
	return s.in.SetNetworkHeightRound(ctx, vh, vr, ch, cr)
}

func (s *mirrorStoreW) NetworkHeightRound(ctx context.Context) (uint64, uint32, uint64, uint32, error) {
	return s.in.NetworkHeightRound(ctx)
}

type headerStoreW struct {
	storeHook
	in *tmmemstore.CommittedHeaderStore
}

func (s *headerStoreW) SaveCommittedHeader(ctx context.Context, ch tmconsensus.CommittedHeader) error {
	if err := s.beforeWrite("committed-header"); err != nil {
		return err
	}
	cs := s.cs
	h := ch.Header.Height
	hash := string(ch.Header.Hash)
	cs.mu.Lock()
	top := cs.topCommitted
	old, had := cs.committedHash[h]
	prevHash, hadPrev := cs.committedHash[h-1]
	if !had {
		cs.committedHash[h] = hash
		cs.committedPrev[h] = string(ch.Header.PrevBlockHash)
		if h > cs.topCommitted {
			cs.topCommitted = h
		}
	}
	cs.commitEvents = append(cs.commitEvents, commitEvent{source: "SaveCommittedHeader", h: h, round: ch.Proof.Round, hash: hash, proof: ch.Proof.Clone(), header: ch.Header})
	cs.mu.Unlock()
	if had && old != hash {
		cs.violate("C04", "C04:committed-hash-changed", fmt.Sprintf("height %d committed %x, later saved as %x", h, old, hash), nil)
	}
	if !had && top != 0 && h != top+1 {
		cs.violate("C04", "C04:committed-height-gap", fmt.Sprintf("committed header saved at height %d while top was %d", h, top), nil)
	}
	if !had && top == 0 && h != cs.w.initH {
		cs.violate("C04", "C04:first-commit-not-initial-height", fmt.Sprintf("first committed header at height %d, initial height %d", h, cs.w.initH), nil)
	}
	if h > cs.w.initH && hadPrev && !bytes.Equal(ch.Header.PrevBlockHash, []byte(prevHash)) {
		cs.violate("C04", "C04:committed-header-not-linked-to-predecessor", fmt.Sprintf("height %d names predecessor %x but committed hash at %d is %x", h, ch.Header.PrevBlockHash, h-1, prevHash), nil)
	}
	return s.in.SaveCommittedHeader(ctx, ch)
}

func (s *headerStoreW) LoadCommittedHeader(ctx context.Context, h uint64) (tmconsensus.CommittedHeader, error) {
	return s.in.LoadCommittedHeader(ctx, h)
}

type roundStoreW struct {
	storeHook
	in *tmmemstore.RoundStore
}

func (s *roundStoreW) touch(h uint64, r uint32) {
	s.cs.mu.Lock()
	s.cs.touchedRounds[[2]uint64{h, uint64(r)}] = struct{}{}
	s.cs.mu.Unlock()
}

func (s *roundStoreW) SaveRoundProposedHeader(ctx context.Context, ph tmconsensus.ProposedHeader) error {
	if err := s.beforeWrite("ph"); err != nil {
		return err
	}
	s.touch(ph.Header.Height, ph.Round)
	return s.in.SaveRoundProposedHeader(ctx, ph)
}

func (s *roundStoreW) SaveRoundReplayedHeader(ctx context.Context, h tmconsensus.Header) error {
	if err := s.beforeWrite("replayed"); err != nil {
		return err
	}
	return s.in.SaveRoundReplayedHeader(ctx, h)
}

func (s *roundStoreW) OverwriteRoundPrevoteProofs(ctx context.Context, h uint64, r uint32, p tmconsensus.SparseSignatureCollection) error {
	if s.onOp != nil {
		s.onOp()
	}
	if err := s.beforeWrite("prevotes"); err != nil {
		return err
	}
	s.touch(h, r)
	s.cs.noteFutureStored(h, r)
	return s.in.OverwriteRoundPrevoteProofs(ctx, h, r, p)
}

func (s *roundStoreW) OverwriteRoundPrecommitProofs(ctx context.Context, h uint64, r uint32, p tmconsensus.SparseSignatureCollection) error {
	if s.onOp != nil {
		s.onOp()
	}
	if err := s.beforeWrite("precommits"); err != nil {
		return err
	}
	s.touch(h, r)
	s.cs.noteFutureStored(h, r)
	return s.in.OverwriteRoundPrecommitProofs(ctx, h, r, p)
}

func (s *roundStoreW) LoadRoundState(ctx context.Context, h uint64, r uint32) ([]tmconsensus.ProposedHeader, tmconsensus.SparseSignatureCollection, tmconsensus.SparseSignatureCollection, error) {
	if s.onOp != nil {
		s.onOp()
	}
	return s.in.LoadRoundState(ctx, h, r)
}

type valStoreW struct {
	storeHook
	in *tmmemstore.ValidatorStore
}

func (s *valStoreW) SavePubKeys(ctx context.Context, k []gcrypto.PubKey) (string, error) {
	if err := s.beforeWrite("pubkeys"); err != nil {
		return "", err
	}
	return s.in.SavePubKeys(ctx, k)
}
func (s *valStoreW) SaveVotePowers(ctx context.Context, p []uint64) (string, error) {
	if err := s.beforeWrite("powers"); err != nil {
		return "", err
	}
	return s.in.SaveVotePowers(ctx, p)
}
func (s *valStoreW) LoadPubKeys(ctx context.Context, h string) ([]gcrypto.PubKey, error) {
	return s.in.LoadPubKeys(ctx, h)
}
func (s *valStoreW) LoadVotePowers(ctx context.Context, h string) ([]uint64, error) {
	return s.in.LoadVotePowers(ctx, h)
}
func (s *valStoreW) LoadValidators(ctx context.Context, kh, ph string) ([]tmconsensus.Validator, error) {
	return s.in.LoadValidators(ctx, kh, ph)
}

var (
	_ tmstore.MirrorStore          = (*mirrorStoreW)(nil)
	_ tmstore.CommittedHeaderStore = (*headerStoreW)(nil)
	_ tmstore.RoundStore           = (*roundStoreW)(nil)
	_ tmstore.ValidatorStore       = (*valStoreW)(nil)
)

// ---------------------------------------------------------------------------
// node

type recvGossip struct {
	seq uint64
	u   tmelink.NetworkViewUpdate
}
type recvSM struct {
	seq uint64
	v   tmeil.StateMachineRoundView

	// entrance != nil marks the point at which the stand-in entered a round
	// (the stand-in is one goroutine, like the real state machine, so the order
	// of entrances and received views in this log is the order it saw them in).
	entrance *smEntranceRec
}

type smEntranceRec struct {
	h    uint64
	r    uint32
	resp tmeil.RoundEntranceResponse
	// live: the voting position last persisted, read after the response arrived, was not
	// beyond the entered round, so the mirror still held that round when it answered
	// (positions only move forward). False also when that is merely unknown.
	live bool
	// orphan: the mirror had left the entered round for a later round of the same height
	// before the entrance was sent (positions only move forward, so this is certain)
	orphan bool
}

type smEnterCmd struct {
	re   tmeil.StateMachineRoundEntrance
	done chan smEnterResult

	// drain > 0: instead of entering a round, force that many kernel loop
	// iterations while this goroutine is parked receiving on the view channel,
	// and report how many views arrived.
	drain     int
	drainDone chan int

	// the voting position last persisted, read before the entrance is sent
	nhrBefore  [4]uint64
	haveBefore bool
}

type smEnterResult struct {
	resp tmeil.RoundEntranceResponse
	ok   bool
}

type node struct {
	cs *caseState
	w  *world

	ms *mirrorStoreW
	hs *headerStoreW
	rs *roundStoreW
	vs *valStoreW

	rootCtx context.Context

	// per incarnation
	ctx    context.Context
	cancel context.CancelCauseFunc
	m      *tmmirror.Mirror
	wd     *gwatchdog.Watchdog

	gossipOut chan tmelink.NetworkViewUpdate
	smViewOut chan tmeil.StateMachineRoundView
	smCmds    chan smEnterCmd
	// parkReq asks a reader goroutine to stop reading until the channel it receives is closed
	parkReq    chan chan struct{}
	smEntrance chan tmeil.StateMachineRoundEntrance
	replayIn   chan tmelink.ReplayedHeaderRequest
	lagOut     chan tmelink.LagState
	fetchReq   chan tmelink.ProposedHeaderFetchRequest
	fetched    chan tmconsensus.ProposedHeader

	consumersDone sync.WaitGroup

	seq atomic.Uint64

	// consumer control: when paused the consumer does not read its channel.
	gossipPaused atomic.Bool
	smPaused     atomic.Bool

	rmu       sync.Mutex
	gossipLog []recvGossip
	smLog     []recvSM
	fetchLog  []tmelink.ProposedHeaderFetchRequest

	dead       atomic.Bool
	panicKey   string
	panicMsg   string
	panicStack string
	panicName  string

	incarnation int

	// C09: deliver through the shipped feedback mappers (0 = direct, else alternate)
	useMappers bool
	mapperTurn atomic.Uint64

	// state machine stand-in
	smActions chan tmeil.StateMachineRoundAction
	smH       uint64
	smR       uint32
	smKey     *vkey
	smHC      chan struct{}

	pointFn verifhook.PointFunc

	// snapshot destinations: 0 = a fresh value per call; 1 = one value per view kept and passed
	// again (what the doc comments of VotingView/CommittingView recommend, to save garbage);
	// 2 = one single value passed alternately to VotingView and CommittingView
	// abandonNext makes the next Handle*Proofs call one whose caller gives up while the request
	// is being worked on: its context is cancelled at the next round-store operation (for a
	// future-round vote that is the kernel, between taking the request and answering it), as a
	// p2p layer with per-message deadlines or a disconnecting peer does.
	abandonNext atomic.Bool
	abandon     atomic.Pointer[context.CancelFunc]

	dstMode      int
	dstMu        sync.Mutex
	dstVV, dstCV tmconsensus.VersionedRoundView
}

func (n *node) storeOp() {
	if c := n.abandon.Swap(nil); c != nil {
		(*c)()
		n.cs.count("abandoned-call.context-cancelled-at-a-round-store-operation")
	}
}

func newNode(ctx context.Context, cs *caseState) *node {
	n := &node{cs: cs, w: cs.w, rootCtx: ctx}
	hook := storeHook{cs: cs, ctx: func() context.Context { return n.ctx }, onOp: n.storeOp}
	n.ms = &mirrorStoreW{hook, tmmemstore.NewMirrorStore()}
	n.hs = &headerStoreW{hook, tmmemstore.NewCommittedHeaderStore()}
	n.rs = &roundStoreW{hook, tmmemstore.NewRoundStore()}
	n.vs = &valStoreW{hook, tmmemstore.NewValidatorStore(hashScheme)}
	return n
}

// start creates a mirror incarnation on the node's stores.
// It returns an error string (constructor error or panic) or "".
func (n *node) start() (errKey string, errMsg string) {
	n.rmu.Lock()
	n.incarnation++
	n.rmu.Unlock()
	ctx, cancel := context.WithCancelCause(n.rootCtx)
	n.cancel = cancel
	n.dead.Store(false)
	n.panicKey, n.panicMsg, n.panicStack = "", "", ""

	inc := n.incarnation
	ctx = verifhook.WithCatcher(ctx, func(name string, val any, stack []byte) {
		n.rmu.Lock()
		if inc != n.incarnation {
			// a goroutine of an incarnation the harness already stopped ("the process is gone")
			n.rmu.Unlock()
			return
		}
		n.panicName = name
		n.panicMsg = fmt.Sprint(val)
		n.panicStack = string(stack)
		n.panicKey = verifkit.PanicKey(n.panicMsg, n.panicStack)
		n.rmu.Unlock()
		n.dead.Store(true)
		cancel(fmt.Errorf("kernel goroutine %s panicked: %v", name, val))
	})
	ctx = verifhook.WithPoints(ctx, n.onPoint)
	wd, wctx := gwatchdog.NewNopWatchdog(ctx, quietLog)
	n.wd = wd
	n.ctx = wctx

	// Gossip channel: one slot of buffering, so the kernel can hand over an update
	// whenever the slot is free, whether or not the reader goroutine happens to be
	// scheduled, which is what makes quiescence detectable without sleeping (see
	// c11quiesce). A reader that leaves the slot full is a stalled reader.
	// State-machine channel: unbuffered as in the engine (the real state machine
	// does not read views while it waits for an entrance response, and a buffered
	// slot would hand it views from before the entrance).
	n.gossipOut = make(chan tmelink.NetworkViewUpdate, 1)
	n.smViewOut = make(chan tmeil.StateMachineRoundView)
	n.parkReq = make(chan chan struct{})
	n.smCmds = make(chan smEnterCmd)
	n.smEntrance = make(chan tmeil.StateMachineRoundEntrance, 1)
	n.replayIn = make(chan tmelink.ReplayedHeaderRequest)
	n.lagOut = make(chan tmelink.LagState)
	n.fetchReq = make(chan tmelink.ProposedHeaderFetchRequest, 64)
	n.fetched = make(chan tmconsensus.ProposedHeader)
	n.smActions = nil
	n.smH, n.smR = 0, 0

	cfg := tmmirror.MirrorConfig{
		Store:                n.ms,
		CommittedHeaderStore: n.hs,
		RoundStore:           n.rs,
		ValidatorStore:       n.vs,

		InitialHeight:       n.w.initH,
		InitialValidatorSet: n.w.set(n.w.initH).vs,

		HashScheme:                        hashScheme,
		SignatureScheme:                   sigScheme,
		CommonMessageSignatureProofScheme: cmspScheme,

		ProposedHeaderFetcher: tmelink.ProposedHeaderFetcher{
			FetchRequests:          n.fetchReq,
			FetchedProposedHeaders: n.fetched,
		},

		ReplayedHeadersIn: n.replayIn,
		GossipStrategyOut: n.gossipOut,
		LagStateOut:       n.lagOut,

		StateMachineRoundEntranceIn: n.smEntrance,
		StateMachineRoundViewOut:    n.smViewOut,

		Watchdog:  wd,
		AssertEnv: gasserttest.DefaultEnv(),
	}

	var m *tmmirror.Mirror
	var err error
	p, key, msg, _ := verifkit.Guard(func() {
		m, err = tmmirror.NewMirror(n.ctx, quietLog, cfg)
	})
	if p {
		cancel(fmt.Errorf("constructor panicked"))
		wd.Wait()
		return key, msg
	}
	if err != nil {
		cancel(err)
		wd.Wait()
		return "error:NewMirror:" + verifkit.Normalize(err.Error()), err.Error()
	}
	n.m = m

	n.consumersDone.Add(3)
	go n.consumeGossip(n.ctx, n.gossipOut)
	go n.consumeSM(n.ctx, n.smViewOut)
	go n.consumeLag(n.ctx, n.lagOut, n.fetchReq)
	return "", ""
}

// stop cancels the incarnation and waits for its goroutines.
func (n *node) stop() {
	if n.cancel == nil {
		return
	}
	n.rmu.Lock()
	n.incarnation++
	n.rmu.Unlock()
	n.cancel(fmt.Errorf("harness stop"))
	if n.m != nil {
		n.m.Wait()
	}
	n.wd.Wait()
	n.consumersDone.Wait()
	n.m = nil
}

func (n *node) consumeGossip(ctx context.Context, ch <-chan tmelink.NetworkViewUpdate) {
	defer n.consumersDone.Done()
	for {
		if n.gossipPaused.Load() {
			select {
			case <-ctx.Done():
				return
			case resume := <-n.parkReq:
				select {
				case <-resume:
				case <-ctx.Done():
					return
				}
			case <-time.After(200 * time.Microsecond):
			}
			continue
		}
		select {
		case <-ctx.Done():
			return
		case resume := <-n.parkReq:
			select {
			case <-resume:
			case <-ctx.Done():
				return
			}
		case u := <-ch:
			n.recordGossip(u)
		}
	}
}

func (n *node) recordGossip(u tmelink.NetworkViewUpdate) {
	s := n.seq.Add(1)
	n.rmu.Lock()
	n.gossipLog = append(n.gossipLog, recvGossip{seq: s, u: u})
	n.rmu.Unlock()
}

func (n *node) recordSMView(v tmeil.StateMachineRoundView) {
	s := n.seq.Add(1)
	n.rmu.Lock()
	n.smLog = append(n.smLog, recvSM{seq: s, v: v})
	n.rmu.Unlock()
}

// parkReaders stops both reader goroutines (they acknowledge by accepting the
// request) and returns the function that lets them continue.
func (n *node) parkReaders() (resume func(), ok bool) {
	ch := make(chan struct{})
	for i := 0; i < 1; i++ {
		select {
		case n.parkReq <- ch:
		case <-n.ctx.Done():
			close(ch)
			return func() {}, false
		case <-time.After(callTimeout):
			close(ch)
			return func() {}, false
		}
	}
	return func() { close(ch) }, true
}

func (n *node) consumeSM(ctx context.Context, ch <-chan tmeil.StateMachineRoundView) {
	defer n.consumersDone.Done()
	enter := func(cmd smEnterCmd) {
		if cmd.drain > 0 {
			got := 0
			for i := 0; i < cmd.drain; i++ {
				done := make(chan struct{})
				go func() {
					defer close(done)
					var v tmconsensus.VersionedRoundView
					cctx, cancel := n.callCtx()
					defer cancel()
					_ = n.m.VotingView(cctx, &v)
				}()
				// This goroutine parks in the select below before the goroutine just
				// started gets to send its request, so when the kernel serves that
				// request its send to this channel (if it has anything) is ready too.
				select {
				case v := <-ch:
					n.recordSMView(v)
					got++
					<-done
				case <-done:
				case <-ctx.Done():
					cmd.drainDone <- got
					return
				}
			}
			cmd.drainDone <- got
			return
		}
		var res smEnterResult
		select {
		case n.smEntrance <- cmd.re:
			select {
			case res.resp = <-cmd.re.Response:
				res.ok = true
				s := n.seq.Add(1)
				n.rmu.Lock()
				n.cs.mu.Lock()
				nhr, have := n.cs.lastNHR, n.cs.haveNHR
				n.cs.mu.Unlock()
				live := have && (nhr[0] < cmd.re.H || (nhr[0] == cmd.re.H && nhr[1] <= uint64(cmd.re.R)))
				// orphan: read BEFORE the entrance was sent, the persisted voting position was
				// already in a later round of the same height, so the mirror had dropped the round
				orphan := cmd.haveBefore && cmd.nhrBefore[0] == cmd.re.H && cmd.nhrBefore[1] > uint64(cmd.re.R)
				n.smLog = append(n.smLog, recvSM{seq: s, entrance: &smEntranceRec{h: cmd.re.H, r: cmd.re.R, resp: res.resp, live: live, orphan: orphan}})
				n.rmu.Unlock()
			case <-ctx.Done():
			}
		case <-ctx.Done():
		}
		cmd.done <- res
	}
	for {
		if n.smPaused.Load() {
			select {
			case <-ctx.Done():
				return
			case cmd := <-n.smCmds:
				enter(cmd)
			case <-time.After(200 * time.Microsecond):
			}
			continue
		}
		select {
		case <-ctx.Done():
			return
		case cmd := <-n.smCmds:
			enter(cmd)
		case v := <-ch:
			n.recordSMView(v)
		}
	}
}

func (n *node) consumeLag(ctx context.Context, ch <-chan tmelink.LagState, fr <-chan tmelink.ProposedHeaderFetchRequest) {
	defer n.consumersDone.Done()
	for {
		select {
		case <-ctx.Done():
			return
		case <-ch:
		case req := <-fr:
			n.rmu.Lock()
			n.fetchLog = append(n.fetchLog, req)
			n.rmu.Unlock()
		}
	}
}

// takeGossip returns and clears what the gossip consumer received.
func (n *node) takeGossip() []recvGossip {
	n.rmu.Lock()
	defer n.rmu.Unlock()
	g := n.gossipLog
	n.gossipLog = nil
	return g
}

func (n *node) takeSM() []recvSM {
	n.rmu.Lock()
	defer n.rmu.Unlock()
	g := n.smLog
	n.smLog = nil
	return g
}

func (n *node) takeFetches() []tmelink.ProposedHeaderFetchRequest {
	n.rmu.Lock()
	defer n.rmu.Unlock()
	g := n.fetchLog
	n.fetchLog = nil
	return g
}

// callCtx is the context handed to Handle* calls: cancelled with the incarnation.
func (n *node) callCtx() (context.Context, context.CancelFunc) {
	return context.WithTimeout(n.ctx, callTimeout)
}

// views returns snapshots of the voting and committing views, ok=false if the
// node is dead or does not answer.
func (n *node) views() (vv, cv tmconsensus.VersionedRoundView, ok bool) {
	if n.m == nil || n.dead.Load() {
		return vv, cv, false
	}
	ctx, cancel := n.callCtx()
	defer cancel()
	if n.dstMode != 0 {
		// reused destinations; the caller gets independent copies
		n.dstMu.Lock()
		defer n.dstMu.Unlock()
		pv, pc := &n.dstVV, &n.dstCV
		if n.dstMode == 2 {
			pc = pv
		}
		if err := n.m.VotingView(ctx, pv); err != nil {
			return vv, cv, false
		}
		vv = pv.Clone()
		if err := n.m.CommittingView(ctx, pc); err != nil {
			return vv, cv, false
		}
		cv = pc.Clone()
		return vv, cv, true
	}
	if err := n.m.VotingView(ctx, &vv); err != nil {
		return vv, cv, false
	}
	if err := n.m.CommittingView(ctx, &cv); err != nil {
		return vv, cv, false
	}
	return vv, cv, true
}

func (n *node) pos() (vh uint64, vr uint32, ch uint64, cr uint32, ok bool) {
	vv, cv, ok := n.views()
	return vv.Height, vv.Round, cv.Height, cv.Round, ok
}

// restartBudget is how often one HandleProposedHeader call may pass its
// RESTART label before the harness calls it a livelock (a logical bound, not a clock).
const restartBudget = 1000

type loopGuard struct {
	n      atomic.Int64
	cancel context.CancelFunc
	tr     atomic.Bool
}

type loopGuardKey struct{}

// onPoint is the node's hook-point handler.
// voteHold parks one Handle*Proofs call at the hook point "mirror.vote.beforeAdd" (or, for a
// vote beyond the next round, "mirror.futurevote.beforeAdd"): after the
// mirror has looked up the view and merged and verified the message against it, right before
// it hands the result to the kernel. The call carries the hold in its context.
type voteHold struct {
	arrived chan struct{}
	release chan struct{}
	once    sync.Once
}

type voteHoldKey struct{}

func newVoteHold() *voteHold {
	return &voteHold{arrived: make(chan struct{}), release: make(chan struct{})}
}

func (n *node) onPoint(ctx context.Context, name string) {
	if name == "mirror.vote.beforeAdd" || name == "mirror.futurevote.beforeAdd" {
		if h, ok := ctx.Value(voteHoldKey{}).(*voteHold); ok && h != nil {
			h.once.Do(func() {
				close(h.arrived)
				select {
				case <-h.release:
				case <-ctx.Done():
				}
			})
		}
	}
	switch name {
	case "mirror.ph.restart":
		if lg, ok := ctx.Value(loopGuardKey{}).(*loopGuard); ok {
			if lg.n.Add(1) > restartBudget {
				lg.tr.Store(true)
				lg.cancel()
			}
		}
	}
	if n.pointFn != nil {
		n.pointFn(ctx, name)
	}
}

// neverAnsweredProbes is the logical bound behind "a call was never answered": the kernel
// handles its requests one per loop iteration and picks among the ready ones at random, so
// a request that is still waiting after the kernel has served this many snapshot requests
// sent after it (each a full loop iteration) will not be served any more.
const neverAnsweredProbes = 300

// awaitCall waits for a Handle*/replay call running in another goroutine. While it is
// outstanding (and not parked on purpose by hold) the kernel is made to serve snapshot
// requests; neverAnsweredProbes of them, over at least five seconds, without the call
// returning is the verdict that the call will never return.
func (n *node) awaitCall(method string, done <-chan struct{}, hold *voteHold, cancel context.CancelFunc, m *tmmirror.Mirror, pctx context.Context) {
	if hold != nil {
		select {
		case <-done:
			return
		case <-hold.release:
		}
	}
	served := 0
	start := time.Now()
	for {
		select {
		case <-done:
			return
		case <-time.After(15 * time.Millisecond):
		}
		if n.dead.Load() || pctx.Err() != nil {
			<-done // the incarnation is over: its context ends the call
			return
		}
		// probe the mirror and incarnation this call belongs to (the node's fields may be
		// replaced by a restart while the call is still winding down)
		var pv tmconsensus.VersionedRoundView
		c, pcancel := context.WithTimeout(pctx, callTimeout)
		err := m.VotingView(c, &pv)
		pcancel()
		if err != nil {
			continue // a kernel that does not answer is judged elsewhere
		}
		served++
		if served >= neverAnsweredProbes && time.Since(start) > 5*time.Second {
			select {
			case <-done:
				return
			default:
			}
			n.cs.logf("CALL NEVER ANSWERED %s", method)
			n.cs.violate("C09", "C09:call-never-answered:"+method,
				fmt.Sprintf("%s did not return although the kernel served %d snapshot requests sent after it (%.0f s): whatever it waits for will not arrive", method, served, time.Since(start).Seconds()), nil)
			cancel()
			<-done
			return
		}
	}
}

// deliverPH hands a proposed header to the mirror.
// livelock is true when the call passed its RESTART label more than restartBudget times.
func (n *node) deliverPH(ph tmconsensus.ProposedHeader) (res tmconsensus.HandleProposedHeaderResult, ok bool) {
	if n.m == nil || n.dead.Load() {
		return 0, false
	}
	m, pctx := n.m, n.ctx
	ctx, cancel := context.WithTimeout(pctx, callTimeout)
	defer cancel()
	lg := &loopGuard{cancel: cancel}
	ctx = context.WithValue(ctx, loopGuardKey{}, lg)
	var p bool
	var key, msg, stack string
	done := make(chan struct{})
	go func() {
		defer close(done)
		p, key, msg, stack = verifkit.Guard(func() {
			if h, rec := n.mapped(m); h != nil {
				fb := h.HandleProposedHeader(ctx, ph)
				res = rec.ph
				n.checkFeedback(fb, "HandleProposedHeader", res.String())
			} else {
				res = m.HandleProposedHeader(ctx, ph)
			}
		})
	}()
	n.awaitCall("HandleProposedHeader", done, nil, cancel, m, pctx)
	if p {
		n.callerPanic(key, msg, stack)
		return res, false
	}
	if ctx.Err() == nil && !lg.tr.Load() && !definedResult(res.String()) {
		n.cs.violate("C09", "C09:undefined-result:HandleProposedHeader", "HandleProposedHeader returned the undefined result "+res.String(), nil)
	}
	if lg.tr.Load() {
		n.cs.count("livelock.HandleProposedHeader")
		n.cs.logf("LIVELOCK HandleProposedHeader passed RESTART more than %d times for one message (h=%d r=%d)", restartBudget, ph.Header.Height, ph.Round)
		n.cs.violate("C09", "C09:livelock:HandleProposedHeader:restart-loop", fmt.Sprintf("HandleProposedHeader passed its RESTART label more than %d times for one proposed header at height %d round %d", restartBudget, ph.Header.Height, ph.Round), nil)
		return res, false
	}
	if ctx.Err() != nil {
		return res, false
	}
	return res, true
}

// callerPanic records a panic raised in the goroutine that called Handle*.
func (n *node) callerPanic(key, msg, stack string) {
	n.cs.count("panic." + key)
	n.cs.logf("CALLER PANIC %s: %s", key, msg)
	n.cs.violate("C09", "C09:"+key, "Handle* call panicked in the caller's goroutine: "+msg, map[string]any{"stack": stack})
}

func (n *node) deliverPrevotes(p tmconsensus.PrevoteSparseProof) (tmconsensus.HandleVoteProofsResult, bool) {
	return n.deliverPrevotesHeld(p, nil)
}

func (n *node) deliverPrevotesHeld(p tmconsensus.PrevoteSparseProof, hold *voteHold) (tmconsensus.HandleVoteProofsResult, bool) {
	if n.m == nil || n.dead.Load() {
		return 0, false
	}
	m, pctx := n.m, n.ctx
	ctx, cancel := context.WithTimeout(pctx, callTimeout)
	defer cancel()
	if hold != nil {
		ctx = context.WithValue(ctx, voteHoldKey{}, hold)
	}
	if n.abandonNext.CompareAndSwap(true, false) {
		n.abandon.Store(&cancel)
		defer n.abandon.Store(nil)
	}
	var res tmconsensus.HandleVoteProofsResult
	var pn bool
	var key, msg, stack string
	done := make(chan struct{})
	go func() {
		defer close(done)
		pn, key, msg, stack = verifkit.Guard(func() {
			if h, rec := n.mapped(m); h != nil {
				fb := h.HandlePrevoteProofs(ctx, p)
				res = rec.v
				n.checkFeedback(fb, "HandlePrevoteProofs", res.String())
			} else {
				res = m.HandlePrevoteProofs(ctx, p)
			}
		})
	}()
	n.awaitCall("HandlePrevoteProofs", done, hold, cancel, m, pctx)
	if pn {
		n.callerPanic(key, msg, stack)
		return res, false
	}
	if ctx.Err() == nil && !definedResult(res.String()) {
		n.cs.violate("C09", "C09:undefined-result:HandlePrevoteProofs", "HandlePrevoteProofs returned the undefined result "+res.String(), nil)
	}
	return res, ctx.Err() == nil
}

func (n *node) deliverPrecommits(p tmconsensus.PrecommitSparseProof) (tmconsensus.HandleVoteProofsResult, bool) {
	return n.deliverPrecommitsHeld(p, nil)
}

func (n *node) deliverPrecommitsHeld(p tmconsensus.PrecommitSparseProof, hold *voteHold) (tmconsensus.HandleVoteProofsResult, bool) {
	if n.m == nil || n.dead.Load() {
		return 0, false
	}
	m, pctx := n.m, n.ctx
	ctx, cancel := context.WithTimeout(pctx, callTimeout)
	defer cancel()
	if hold != nil {
		ctx = context.WithValue(ctx, voteHoldKey{}, hold)
	}
	if n.abandonNext.CompareAndSwap(true, false) {
		n.abandon.Store(&cancel)
		defer n.abandon.Store(nil)
	}
	var res tmconsensus.HandleVoteProofsResult
	var pn bool
	var key, msg, stack string
	done := make(chan struct{})
	go func() {
		defer close(done)
		pn, key, msg, stack = verifkit.Guard(func() {
			if h, rec := n.mapped(m); h != nil {
				fb := h.HandlePrecommitProofs(ctx, p)
				res = rec.v
				n.checkFeedback(fb, "HandlePrecommitProofs", res.String())
			} else {
				res = m.HandlePrecommitProofs(ctx, p)
			}
		})
	}()
	n.awaitCall("HandlePrecommitProofs", done, hold, cancel, m, pctx)
	if pn {
		n.callerPanic(key, msg, stack)
		return res, false
	}
	if ctx.Err() == nil && !definedResult(res.String()) {
		n.cs.violate("C09", "C09:undefined-result:HandlePrecommitProofs", "HandlePrecommitProofs returned the undefined result "+res.String(), nil)
	}
	return res, ctx.Err() == nil
}

// deliverReplay sends a replayed header and waits for the response.
func (n *node) deliverReplay(hd tmconsensus.Header, proof tmconsensus.CommitProof) (err error, ok bool) {
	if n.m == nil || n.dead.Load() {
		return nil, false
	}
	resp := make(chan tmelink.ReplayedHeaderResponse, 1)
	m, pctx := n.m, n.ctx
	ctx, cancel := context.WithTimeout(pctx, callTimeout)
	defer cancel()
	select {
	case n.replayIn <- tmelink.ReplayedHeaderRequest{Header: hd, Proof: proof, Resp: resp}:
	case <-ctx.Done():
		return nil, false
	}
	var out tmelink.ReplayedHeaderResponse
	got := false
	done := make(chan struct{})
	go func() {
		defer close(done)
		select {
		case out = <-resp:
			got = true
		case <-ctx.Done():
		}
	}()
	n.awaitCall("ReplayedHeaderRequest", done, nil, cancel, m, pctx)
	if got {
		return out.Err, true
	}
	return nil, false
}

// smEnter plays the state machine entering (h, r) with the given key.
func (n *node) smEnter(h uint64, r uint32, key *vkey) (resp tmeil.RoundEntranceResponse, ok bool) {
	if n.m == nil || n.dead.Load() {
		return resp, false
	}
	re := tmeil.StateMachineRoundEntrance{
		H: h, R: r,
		Actions:  make(chan tmeil.StateMachineRoundAction, 3),
		Response: make(chan tmeil.RoundEntranceResponse, 1),
	}
	hc := make(chan struct{})
	re.HeightCommitted = hc
	if key != nil {
		re.PubKey = key.pub
	}
	ctx, cancel := n.callCtx()
	defer cancel()
	cmd := smEnterCmd{re: re, done: make(chan smEnterResult, 1)}
	n.cs.mu.Lock()
	cmd.nhrBefore, cmd.haveBefore = n.cs.lastNHR, n.cs.haveNHR
	n.cs.mu.Unlock()
	select {
	case n.smCmds <- cmd:
	case <-ctx.Done():
		return resp, false
	}
	var res smEnterResult
	select {
	case res = <-cmd.done:
	case <-ctx.Done():
		return resp, false
	}
	if !res.ok {
		return resp, false
	}
	n.smActions = re.Actions
	n.smH, n.smR, n.smKey, n.smHC = h, r, key, hc
	return res.resp, true
}

// smAct sends a state machine action on the current round's action channel.
func (n *node) smAct(act tmeil.StateMachineRoundAction) bool {
	if n.m == nil || n.dead.Load() || n.smActions == nil {
		return false
	}
	ctx, cancel := n.callCtx()
	defer cancel()
	select {
	case n.smActions <- act:
		return true
	case <-ctx.Done():
		return false
	}
}

// barrier makes sure every fire-and-forget request sent before it has been
// processed by the kernel: all request channels of the kernel are served by one
// goroutine, and a buffered proposed-header add is re-offered until the kernel
// reports it stored (or refuses it for another reason).
func (n *node) settlePH(ph tmconsensus.ProposedHeader) {
	for i := 0; i < 64; i++ {
		res, ok := n.deliverPH(ph)
		if !ok || res != tmconsensus.HandleProposedHeaderAccepted {
			return
		}
	}
}

// fgRecorder is a FineGrainedConsensusHandler that remembers the mirror's result
// while a shipped feedback mapper translates it.
type fgRecorder struct {
	m  *tmmirror.Mirror
	ph tmconsensus.HandleProposedHeaderResult
	v  tmconsensus.HandleVoteProofsResult
}

func (r *fgRecorder) HandleProposedHeader(ctx context.Context, ph tmconsensus.ProposedHeader) tmconsensus.HandleProposedHeaderResult {
	r.ph = r.m.HandleProposedHeader(ctx, ph)
	return r.ph
}
func (r *fgRecorder) HandlePrevoteProofs(ctx context.Context, p tmconsensus.PrevoteSparseProof) tmconsensus.HandleVoteProofsResult {
	r.v = r.m.HandlePrevoteProofs(ctx, p)
	return r.v
}
func (r *fgRecorder) HandlePrecommitProofs(ctx context.Context, p tmconsensus.PrecommitSparseProof) tmconsensus.HandleVoteProofsResult {
	r.v = r.m.HandlePrecommitProofs(ctx, p)
	return r.v
}

// mapped returns one of the two shipped feedback mappers in front of the mirror
// (alternating), or nil when the case delivers directly.
func (n *node) mapped(m *tmmirror.Mirror) (tmconsensus.ConsensusHandler, *fgRecorder) {
	if !n.useMappers {
		return nil, nil
	}
	rec := &fgRecorder{m: m}
	switch n.mapperTurn.Add(1) % 3 {
	case 0:
		return tmconsensus.AcceptAllValidFeedbackMapper{Handler: rec}, rec
	case 1:
		return tmconsensus.DropDuplicateFeedbackMapper{Handler: rec}, rec
	default:
		return nil, nil
	}
}

func (n *node) checkFeedback(fb gexchange.Feedback, method, res string) {
	n.cs.count(fmt.Sprintf("feedback.%d", fb))
	switch fb {
	case gexchange.FeedbackAccepted, gexchange.FeedbackRejected, gexchange.FeedbackIgnored, gexchange.FeedbackRejectAndDisconnect:
	default:
		n.cs.violate("C09", "C09:feedback-mapper-returned-undefined-feedback:"+method, fmt.Sprintf("feedback mapper translated %s into feedback value %d", res, fb), nil)
	}
}

// definedResult reports whether a stringer rendering names a declared constant.
func definedResult(s string) bool {
	return s != "" && !strings.Contains(s, "(")
}

// smDrain asks the state-machine stand-in goroutine to stay parked on its view
// channel across k forced kernel iterations; it returns the number of views received.
func (n *node) smDrain(k int) (int, bool) {
	cmd := smEnterCmd{drain: k, drainDone: make(chan int, 1)}
	ctx, cancel := n.callCtx()
	defer cancel()
	select {
	case n.smCmds <- cmd:
	case <-ctx.Done():
		return 0, false
	}
	select {
	case got := <-cmd.drainDone:
		return got, true
	case <-ctx.Done():
		return 0, false
	}
}
