//go:build verif

package tmengine_test

// C09(c): the engine under lag and slow collaborators. E3 with four honest
// nodes: one node's deliveries are held back for many router steps and then
// released (lag by rounds / by heights), strategy and driver answers are held for
// a number of router steps (virtual delay), or surrounded by real sleeps of
// 0-300 ms. Every caught panic of a node goroutine is a violation keyed by site.

import (
	"fmt"
	mrand "math/rand/v2"
	"os"
	"strings"
	"sync"
	"testing"

	"github.com/gordian-engine/gordian/internal/verifkit"
)

var e3C09Variants = []string{"lag-rounds", "lag-heights", "virtual-delay", "real-sleep", "lag-heights+virtual-delay", "lag-rounds+real-sleep"}

func e3C09Config(rng *mrand.Rand, i int) (e3Config, string) {
	v := e3C09Variants[i%len(e3C09Variants)]
	cfg := e3Config{
		Mode:        "C09",
		N:           4,
		Profile:     rng.IntN(2), // equal or fixture powers: three of four nodes hold > 2/3
		WantByz:     false,
		Rotate:      rng.IntN(2) == 0,
		Policy:      []int{e3PolicyFair, e3PolicyReorder, e3PolicyDup}[rng.IntN(3)],
		TimerPolicy: []int{e3TimerNeverEarly, e3TimerNeverEarly, e3TimerMixed, e3TimerAggressive}[rng.IntN(4)],
		Target:      3 + uint64(rng.IntN(3)),
		MaxSteps:    12000,
		LagNode:     -1,
		MaxCrashes:  6,
	}
	if strings.Contains(v, "lag-rounds") {
		cfg.LagNode, cfg.LagKind = rng.IntN(4), "rounds"
		cfg.TimerPolicy = e3TimerMixed // rounds pass only when timers fire while the node is held back
	}
	if strings.Contains(v, "lag-heights") {
		cfg.LagNode, cfg.LagKind = rng.IntN(4), "heights"
	}
	if strings.Contains(v, "virtual-delay") {
		cfg.VirtDelayMax = 5 + rng.IntN(60)
	}
	if strings.Contains(v, "real-sleep") {
		cfg.RealSleepMaxMs = 300
		cfg.Target = 3
	}
	return cfg, v
}

func TestVerif_C09_engine(t *testing.T) {
	r := verifkit.Start("C09")
	if r == nil {
		t.Skip("not started by the /verif driver")
	}
	defer r.Finish()
	r.SetRule("E3 with N=4 honest engines (no Byzantine input, no loss, no partition): one node lagging by rounds or by heights (its deliveries are held for many router steps, then released, up to 6 episodes), strategy and driver answers held for 0..65 router steps of virtual time, or real sleeps of 0-300 ms around every strategy/driver answer (the state machine's consensus-manager hand-off gives up after 100 ms). Monitors: hook catcher on every engine goroutine and recover around every Handle* call (panic => violation keyed C09:engine:<site>), restart on the same stores must succeed. A node that stops finalizing while the others go on is counted (stall.*), not judged. Non-trivial = distinct (configuration, finalization log) digests of runs in which >= 1 height was finalized by >= 2 nodes while lag or delays were active.")

	nCases := r.N(6, 150)
	if strings.HasSuffix(r.Sub, "race") {
		nCases = nCases / 8
		if nCases < 2 {
			nCases = 2
		}
	}
	only := -1
	if s := os.Getenv("VERIF_ONLY_CASE"); s != "" {
		fmt.Sscanf(s, "%d", &only)
	}
	var agg sync.Mutex
	totals := map[string]int64{}
	r.Parallel(nCases, func(i int) {
		if only >= 0 && i != only {
			return
		}
		id := fmt.Sprintf("e3-c09-%s-%d", r.Sub, i)
		r.BeginCase(id)
		rng := r.CaseRNG(i)
		cfg, variant := e3C09Config(rng, i)
		if strings.HasSuffix(r.Sub, "race") {
			cfg.MaxSteps = 4000
		}
		run := e3Execute(r, id, cfg, rng)
		r.Eval(1)
		nt, digest, sample := run.summary()
		sample["variant"] = variant
		if nt {
			r.Nontrivial(digest)
			if r.WantSample() {
				r.Sample(sample)
			}
		}
		// progress bookkeeping (counted, not judged)
		var maxH, minH uint64 = 0, ^uint64(0)
		for _, n := range run.nodes {
			if n == nil {
				continue
			}
			if n.lastFinH > maxH {
				maxH = n.lastFinH
			}
			if n.lastFinH < minH {
				minH = n.lastFinH
			}
		}
		agg.Lock()
		for k, v := range run.counters {
			totals[k] += v
		}
		for k, v := range run.faults {
			totals["fault."+k] += v
		}
		totals["variant."+variant]++
		totals["router.steps"] += run.stepNo.Load()
		totals["finalizations"] += int64(len(run.fin))
		totals["heights.finalized-by-two-or-more"] += int64(sample["heights_finalized_by_two_or_more"].(int))
		totals["end."+strings.SplitN(run.endReason, ":", 2)[0]]++
		if maxH >= minH+2 {
			totals["stall.node-two-or-more-heights-behind-at-end"]++
		}
		if nt {
			totals["runs.nontrivial"]++
		}
		agg.Unlock()
	})
	for k, v := range totals {
		r.Count(k, v)
	}
}
