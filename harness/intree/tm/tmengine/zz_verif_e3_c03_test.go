//go:build verif

package tmengine_test

import (
	"fmt"
	mrand "math/rand/v2"
	"os"
	"sort"
	"strings"
	"sync"
	"testing"
	"time"

	"github.com/gordian-engine/gordian/internal/verifkit"
)

// e3Execute runs one configured E3 case to its end and returns the run.
func e3Execute(r *verifkit.Run, id string, cfg e3Config, rng *mrand.Rand) *e3Run {
	run := newE3Run(r, id, cfg, rng)
	run.logf("case %s: %+v world=%v", id, cfg, run.w.describe())
	stopWatch := make(chan struct{})
	var wg sync.WaitGroup
	wg.Add(1)
	go func() {
		// generous watchdog: a router step that does not end is inconclusive, never a violation
		defer wg.Done()
		run.stepWall.Store(time.Now().UnixNano())
		t := time.NewTicker(time.Second)
		defer t.Stop()
		for {
			select {
			case <-stopWatch:
				return
			case <-t.C:
				if time.Since(time.Unix(0, run.stepWall.Load())) > 150*time.Second {
					run.inconclusive("watchdog: router step %d did not end within 150s", run.stepNo.Load())
					run.rootCancel()
					return
				}
			}
		}
	}()
	if run.startAll() {
		run.loop()
	} else {
		run.endReason = "initial start failed"
	}
	run.stepWall.Store(time.Now().UnixNano())
	run.handleDeaths()
	run.checkDeadStateMachines()
	run.stepWall.Store(time.Now().UnixNano())
	run.stopAll()
	close(stopWatch)
	wg.Wait()
	run.flushViolations()
	run.oracle(true)
	if d := os.Getenv("VERIF_E3_TRACE_DIR"); d != "" {
		_ = os.MkdirAll(d, 0o755)
		_ = os.WriteFile(d+"/"+id+".trace", []byte(fmt.Sprintf("end: %s\nfaults: %v\n", run.endReason, run.faults)+strings.Join(run.traceCopy(), "\n")+"\n"+fmt.Sprintf("locks: %v\nstores: %v\n", run.lockSummary(), run.storeSummary())), 0o644)
	}
	return run
}

func e3C03Config(rng *mrand.Rand, quick bool, i int) e3Config {
	var n int
	switch {
	case i%4 == 3:
		n = 7
	case i%2 == 0:
		n = 4
	default:
		n = 5
	}
	cfg := e3Config{
		Mode:        "C03",
		N:           n,
		Profile:     rng.IntN(len(e3PowerProfiles)),
		WantByz:     rng.IntN(4) != 0,
		Rotate:      rng.IntN(2) == 0,
		Policy:      rng.IntN(len(e3PolicyNames)),
		TimerPolicy: []int{e3TimerNeverEarly, e3TimerNeverEarly, e3TimerNeverEarly, e3TimerMixed, e3TimerMixed, e3TimerAggressive}[rng.IntN(6)],
		Target:      3 + uint64(rng.IntN(4)),
		LagNode:     -1,
	}
	if cfg.WantByz && rng.IntN(2) == 0 {
		cfg.Attack = true
		cfg.AttackKind = rng.IntN(5)
	}
	// seven of every eight runs are given to the directed attacks, whatever was drawn
	switch i % 8 {
	case 5:
		cfg.WantByz, cfg.Attack, cfg.AttackKind = true, true, 1
	case 6:
		cfg.WantByz, cfg.Rotate, cfg.Attack, cfg.AttackKind = true, true, true, 2
	case 7:
		cfg.WantByz, cfg.Attack, cfg.AttackKind = true, true, 0
	case 2:
		cfg.WantByz, cfg.Rotate, cfg.Attack, cfg.AttackKind = true, true, true, 2
	case 3:
		cfg.WantByz, cfg.Attack, cfg.AttackKind = true, true, 3
	case 4:
		cfg.WantByz, cfg.Rotate, cfg.Attack, cfg.AttackKind = true, i%16 < 8, true, 5
	case 0:
		cfg.WantByz, cfg.Attack, cfg.AttackKind = true, true, 4
	}
	if f := os.Getenv("VERIF_E3_FORCE"); f != "" {
		// debugging aid: VERIF_E3_FORCE=kind=<0|1|2> makes every run a rotating world with
		// Byzantine validators under that directed attack
		var k int
		if _, err := fmt.Sscanf(f, "kind=%d", &k); err == nil {
			cfg.WantByz, cfg.Rotate, cfg.Attack, cfg.AttackKind = true, true, true, k
		}
	}
	if n == 7 && cfg.Target > 4 {
		cfg.Target = 4
	}
	cfg.MaxSteps = 2500 * n
	maxRestart := (n - 1) / 3
	k := rng.IntN(maxRestart + 1)
	if k > 0 {
		// restart only nodes that are correct in this run's world: decided after the world is drawn,
		// so here only steps are fixed and nodes are given as ranks among the correct nodes
		for j := 0; j < k; j++ {
			rs := e3Restart{Step: 20 + rng.IntN(1200), Node: -1 - rng.IntN(n)}
			// half of the restarts wait until the node has finalized two heights; the others come
			// at any time, also during the first heights and their commit waits
			switch rng.IntN(4) {
			case 0, 1:
				rs.MinFinalized = 2
			case 2:
				// at the first router step after the node's driver answered the finalization of its
				// first, second or third height: with the router's virtual timers that is inside the
				// commit wait, finalization stored, next height not yet entered
				rs.Step, rs.MinFinalized = 0, uint64(1+rng.IntN(3))
			}
			cfg.Restarts = append(cfg.Restarts, rs)
		}
		if rng.IntN(3) == 0 {
			// a second restart of the same node later
			cfg.Restarts = append(cfg.Restarts, e3Restart{Step: 1300 + rng.IntN(1500), Node: cfg.Restarts[0].Node, MinFinalized: 2})
		}
	}
	return cfg
}

// e3ResolveRestarts maps the rank placeholders to correct nodes of the world
// (at most floor((N-1)/3) distinct nodes).
func e3ResolveRestarts(cfg *e3Config, correct []int) {
	for i := range cfg.Restarts {
		if cfg.Restarts[i].Node < 0 {
			rank := -1 - cfg.Restarts[i].Node
			cfg.Restarts[i].Node = correct[rank%len(correct)]
		}
	}
	sort.Slice(cfg.Restarts, func(a, b int) bool { return cfg.Restarts[a].Step < cfg.Restarts[b].Step })
}

func TestVerif_C03(t *testing.T) {
	prop := "C03"
	if os.Getenv("VERIF_PROP") == "C07" {
		prop = "C07" // C07's "engine" sub-run, see (*e3Run).violate
	}
	r := verifkit.Start(prop)
	if r == nil {
		t.Skip("not started by the /verif driver")
	}
	defer r.Finish()
	r.SetRule("E3: N in {4,5,7} full engines from tmengine.New in one process (mem stores, ed25519 fixture keys, six power distributions, optional per-height validator rotation by the echo driver), ChattyStrategy on a harness broadcaster feeding a seeded adversarial router (fair / heavy reorder / duplicate-happy / lossy with retransmission / rolling partitions that heal), virtual round timers fired only by the router's PRNG (never early / aggressively early / mixed), a lock-respecting Tendermint strategy, a Byzantine injector signing anything (proposal and vote equivocation, unknown hashes, selective support, different messages to different nodes) with keys holding < 1/3 of the power, clean restarts of up to floor((N-1)/3) correct nodes on the same stores, hook-caught panics as fail-stop crashes followed by restart. Oracle (after every router step that produced a finalization and at the end, over the drivers' FinalizeBlockRequest logs and the CommittedHeaderStores of the correct nodes): one block hash per height; per node heights contiguous increasing from the initial height (a repeat of the last height with the same hash as first request after a restart allowed). Premise monitor: every vote a correct node really signed (crypto/ed25519 under its own key, taken from the gossip of all nodes) must equal the decision its strategy memoized for that height and round. In a third of the runs with Byzantine validators the random injector is replaced by a directed split attack (selective precommits to one victim whose own precommits are delayed, then support for any other block towards the rest). Non-trivial = distinct (configuration, finalization log) digests of runs in which >= 1 height was finalized by >= 2 correct nodes while >= 1 fault class (reorder, duplication, loss, partition, byzantine, restart, crash, early timer) was active.")

	nCases := r.N(64, 600)
	if strings.HasSuffix(r.Sub, "race") {
		nCases = nCases / 10
		if nCases < 3 {
			nCases = 3
		}
	}
	only := -1
	if s := os.Getenv("VERIF_ONLY_CASE"); s != "" {
		fmt.Sscanf(s, "%d", &only)
	}
	var agg sync.Mutex
	totals := map[string]int64{}
	r.Parallel(nCases, func(i int) {
		if only >= 0 && i != only {
			return
		}
		id := fmt.Sprintf("e3-c03-%s-%d", r.Sub, i)
		r.BeginCase(id)
		rng := r.CaseRNG(i)
		cfg := e3C03Config(rng, r.Quick(), i)
		if strings.HasSuffix(r.Sub, "race") {
			cfg.MaxSteps = 1000 * cfg.N // the race detector costs 5-10x
		}
		run := e3Execute(r, id, cfg, rng)
		r.Eval(1)
		nt, digest, sample := run.summary()
		if nt {
			r.Nontrivial(digest)
		}
		if r.WantSample() && nt {
			r.Sample(sample)
		}
		agg.Lock()
		for k, v := range run.counters {
			totals[k] += v
		}
		for k, v := range run.faults {
			totals["fault."+k] += v
		}
		totals["router.steps"] += run.stepNo.Load()
		totals["finalizations"] += int64(len(run.fin))
		totals["heights.finalized-by-two-or-more"] += int64(sample["heights_finalized_by_two_or_more"].(int))
		totals["restarts.planned-done"] += int64(run.restartsDone)
		totals["end."+strings.SplitN(run.endReason, ":", 2)[0]]++
		totals["policy."+e3PolicyNames[cfg.Policy]]++
		totals["timer-policy."+e3TimerNames[cfg.TimerPolicy]]++
		totals[fmt.Sprintf("n.%d", cfg.N)]++
		if len(run.w.byz) > 0 {
			totals["runs.with-byzantine"]++
		}
		if nt {
			totals["runs.nontrivial"]++
		}
		agg.Unlock()
	})
	for k, v := range totals {
		r.Count(k, v)
	}
}
