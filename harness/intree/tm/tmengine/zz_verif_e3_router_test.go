//go:build verif

package tmengine_test

// E3 router: the seeded adversarial network between the engines of one run.
// Every broadcast becomes (message, destination) items in a pool; each router
// step picks one item by the case PRNG and delivers it. Policies: fair, heavy
// reorder, duplicate-happy, lossy with later retransmission, rolling partitions
// that heal. Virtual timers are fired only from here. A Byzantine injector signs
// anything with the keys of validators that hold < 1/3 of the power.

import (
	"context"
	"crypto/ed25519"
	"encoding/binary"
	"fmt"
	mrand "math/rand/v2"
	"regexp"
	"sort"
	"strings"
	"sync"
	"sync/atomic"
	"time"

	"github.com/gordian-engine/gordian/gcrypto"
	"github.com/gordian-engine/gordian/internal/verifkit"
	"github.com/gordian-engine/gordian/tm/tmconsensus"
	"github.com/gordian-engine/gordian/tm/tmconsensus/tmconsensustest"
	"github.com/gordian-engine/gordian/tm/tmengine/tmelink"
)

const (
	e3KindPH = iota
	e3KindPrevote
	e3KindPrecommit
)

var e3KindNames = []string{"proposal", "prevote", "precommit"}

type e3Msg struct {
	kind int
	ph   tmconsensus.ProposedHeader
	pv   tmconsensus.PrevoteSparseProof
	pc   tmconsensus.PrecommitSparseProof
}

func (m *e3Msg) hr() (uint64, uint32) {
	switch m.kind {
	case e3KindPH:
		return m.ph.Header.Height, m.ph.Round
	case e3KindPrevote:
		return m.pv.Height, m.pv.Round
	default:
		return m.pc.Height, m.pc.Round
	}
}

func (m *e3Msg) brief() string {
	h, r := m.hr()
	switch m.kind {
	case e3KindPH:
		return fmt.Sprintf("proposal %d/%d hash=%x", h, r, short(string(m.ph.Header.Hash)))
	case e3KindPrevote:
		return fmt.Sprintf("prevote %d/%d %s", h, r, briefSigs(m.pv.Proofs))
	default:
		return fmt.Sprintf("precommit %d/%d %s", h, r, briefSigs(m.pc.Proofs))
	}
}

func briefSigs(m map[string][]gcrypto.SparseSignature) string {
	ks := make([]string, 0, len(m))
	for k, v := range m {
		ids := ""
		for _, s := range v {
			ids += fmt.Sprintf("%x,", s.KeyID)
		}
		ks = append(ks, fmt.Sprintf("%x:[%s]", short(k), strings.TrimSuffix(ids, ",")))
	}
	sort.Strings(ks)
	return strings.Join(ks, " ")
}

type e3Item struct {
	id      uint64 // id of the broadcast this item came from
	seq     uint64 // arrival order at the router
	src     int    // base index of the sender, -1 = Byzantine injector
	dst     int
	msg     *e3Msg
	byz     bool
	redeliv int
	// pass: injected by the late-header attack for its victim; exempt from that attack's hold
	pass bool
}

const (
	e3PolicyFair = iota
	e3PolicyReorder
	e3PolicyDup
	e3PolicyLossy
	e3PolicyPartition
)

var e3PolicyNames = []string{"fair", "heavy-reorder", "duplicate-happy", "lossy-retransmit", "rolling-partitions"}

const (
	e3TimerNeverEarly = iota
	e3TimerAggressive
	e3TimerMixed
)

var e3TimerNames = []string{"never-early", "aggressively-early", "mixed"}

type e3Restart struct {
	Step int `json:"step"`
	Node int `json:"node"`
	// MinFinalized > 0 postpones the restart until the node finalized that many heights
	// (restarting a full engine at the first two heights leaves its state machine dead, see report).
	MinFinalized uint64 `json:"min_finalized,omitempty"`
	done         bool
}

type e3Config struct {
	Mode        string      `json:"mode"` // "C03" or "C09"
	N           int         `json:"n"`
	Profile     int         `json:"power_profile"`
	WantByz     bool        `json:"byzantine"`
	Rotate      bool        `json:"rotate_validators"`
	Policy      int         `json:"policy"`
	TimerPolicy int         `json:"timer_policy"`
	Target      uint64      `json:"target_height"`
	MaxSteps    int         `json:"max_steps"`
	Restarts    []e3Restart `json:"restarts"`
	Gomaxprocs  int         `json:"gomaxprocs,omitempty"`
	MaxCrashes  int         `json:"max_crashes,omitempty"` // a node that crashed more often stays down (default 12)
	// Attack: a directed adversary instead of the random injector: per height it picks a victim,
	// shows its Byzantine precommits for a block only to the victim (nil to everybody else), holds
	// back the victim's precommits and later messages, and once the victim finalized alone it
	// supports whatever else is proposed in later rounds towards the other nodes.
	Attack bool `json:"directed_split_attack,omitempty"`
	// AttackKind 1 (with Attack): the late-header attack. A Byzantine proposer shows block X to the
	// victim only and block Y to everybody else and helps Y to a decision; the victim is shown the
	// precommits for Y and one Byzantine prevote for X, while every header and every other prevote
	// of that height addressed to it is held back; when the others have finalized Y the victim gets
	// the header of X, and only later everything that was held.
	// AttackKind 2: see nextRoundStep. AttackKind 3: see inflatedSetStep. AttackKind 4: see hostileCatchupStep.
	AttackKind int `json:"attack_kind,omitempty"`

	// C09(c)
	virtDelayMax   int
	realSleepMaxMs int
	LagNode        int    `json:"lag_node"`
	LagKind        string `json:"lag_kind,omitempty"`
	VirtDelayMax   int    `json:"virtual_delay_max_steps,omitempty"`
	RealSleepMaxMs int    `json:"real_sleep_max_ms,omitempty"`
}

type e3Hold struct {
	at int
	ch chan struct{}
}

type e3Run struct {
	r   *verifkit.Run
	id  string
	cfg e3Config
	w   *e3World
	rng *mrand.Rand

	rootCtx    context.Context
	rootCancel context.CancelFunc

	nodes []*e3Node // by base index; nil for Byzantine validators

	activity atomic.Int64
	stepNo   atomic.Int64
	stepWall atomic.Int64
	sleeping atomic.Int64
	aborted  atomic.Bool

	mu       sync.Mutex
	trace    []string
	traceOff int
	counters map[string]int64
	inbox    []e3Item
	nextSeq  uint64
	nextID   uint64
	fin      []e3FinRec
	finDirty bool
	holds    []*e3Hold
	delayRng *mrand.Rand
	inconc   []string

	// router-goroutine only
	pool        []e3Item
	lost        []e3Item
	lastTo      map[int]*e3Item
	maxSeqTo    map[int]uint64
	group       map[int]int // partition group per node; nil = no partition
	partUntil   int
	partNext    int
	faults      map[string]int64
	lagHeld     bool
	lagUntil    int
	lagTargetH  uint64
	lagEpisodes int

	// network knowledge for the Byzantine injector
	netH     uint64
	netR     map[uint64]uint32
	headers  map[uint64][]tmconsensus.ProposedHeader
	hashSeen map[string]bool

	// directed attack state
	atkVictim            int
	atkForged, atkSecond tmconsensus.ProposedHeader
	atkOthers            []int
	atkH                 uint64
	atkSince             int
	atkSent              map[string]bool
	// atkIsolate: also hold the victim's prevotes and show the Byzantine prevotes for the block to
	// the victim only (nil to the others), so that only the victim sees a polka
	atkIsolate bool
	// late-header attack: 0 waiting for a Byzantine proposer, 1 Y under way, 2 X shown to the victim
	atkStage      int
	atkStageSince int
	atkX          tmconsensus.ProposedHeader
	atkNudge      bool
	atkHeights    map[uint64]bool // attack kind 2: heights already attacked
	atkRound      uint32          // attack kind 2: the round of the block shown to the victim
	atkXHash      string
	// atkFromStart: attack kind 2 also at heights 1 and 2 (drawn per run); otherwise it starts
	// at height 3, the first height whose validator set differs from the genesis set
	atkFromStart bool

	// panicPrefix != "" makes every caught panic of a node goroutine a violation keyed panicPrefix+PanicKey.
	panicPrefix string
	loopback    bool // single-node runs: the node's own broadcasts are delivered back to it

	auditSeen map[string]bool
	pendingV  []func()

	violations   int
	endReason    string
	restartsDone int
	storeHashes  map[uint64]map[string][]string // filled by the oracle: height -> hash -> sources
}

func newE3Run(r *verifkit.Run, id string, cfg e3Config, rng *mrand.Rand) *e3Run {
	cfg.virtDelayMax, cfg.realSleepMaxMs = cfg.VirtDelayMax, cfg.RealSleepMaxMs
	run := &e3Run{
		r: r, id: id, cfg: cfg, rng: rng,
		counters:  map[string]int64{},
		auditSeen: map[string]bool{},
		lastTo:    map[int]*e3Item{},
		maxSeqTo:  map[int]uint64{},
		faults:    map[string]int64{},
		netR:      map[uint64]uint32{},
		headers:   map[uint64][]tmconsensus.ProposedHeader{},
		hashSeen:  map[string]bool{},
		delayRng:  mrand.New(mrand.NewPCG(rng.Uint64(), rng.Uint64())),
	}
	run.w = e3NewWorld(rng, cfg.N, cfg.Profile, cfg.WantByz, cfg.Rotate)
	run.atkFromStart = cfg.Attack && cfg.AttackKind == 2 && id[len(id)-1]%3 == 0
	e3ResolveRestarts(&run.cfg, run.w.correctList())
	run.rootCtx, run.rootCancel = context.WithCancel(context.Background())
	run.nodes = make([]*e3Node, cfg.N)
	for _, i := range run.w.correctList() {
		run.nodes[i] = newE3Node(run, i)
	}
	run.netH = 1
	if cfg.Mode == "C09" {
		run.panicPrefix = "C09:engine:"
	}
	return run
}

func (run *e3Run) logf(format string, a ...any) {
	s := fmt.Sprintf("[%d] ", run.stepNo.Load()) + fmt.Sprintf(format, a...)
	run.mu.Lock()
	const max = 1200
	if len(run.trace) < max {
		run.trace = append(run.trace, s)
	} else {
		run.trace[run.traceOff%max] = s
		run.traceOff++
	}
	run.mu.Unlock()
}

func (run *e3Run) traceCopy() []string {
	run.mu.Lock()
	defer run.mu.Unlock()
	const max = 1200
	if len(run.trace) < max {
		return append([]string(nil), run.trace...)
	}
	out := make([]string, 0, max+1)
	out = append(out, fmt.Sprintf("... %d earlier lines omitted ...", run.traceOff))
	for i := 0; i < max; i++ {
		out = append(out, run.trace[(run.traceOff+i)%max])
	}
	return out
}

func (run *e3Run) count(name string, n int64) {
	run.mu.Lock()
	run.counters[name] += n
	run.mu.Unlock()
}

func (run *e3Run) inconclusive(format string, a ...any) {
	s := fmt.Sprintf(format, a...)
	run.mu.Lock()
	run.inconc = append(run.inconc, s)
	run.mu.Unlock()
	run.r.Inconclusive("%s: %s", run.id, s)
	run.aborted.Store(true)
}

func (run *e3Run) delayDraw(max int) int {
	run.mu.Lock()
	defer run.mu.Unlock()
	if run.delayRng.IntN(2) == 0 {
		return 0
	}
	return run.delayRng.IntN(max + 1)
}

// hold blocks the caller for d router steps (virtual time). It reports false
// when ctx ended first.
func (run *e3Run) hold(ctx context.Context, d int) bool {
	h := &e3Hold{at: int(run.stepNo.Load()) + d, ch: make(chan struct{})}
	run.mu.Lock()
	run.holds = append(run.holds, h)
	run.mu.Unlock()
	select {
	case <-h.ch:
		return true
	case <-ctx.Done():
		return false
	}
}

func (run *e3Run) releaseHolds(all bool) int {
	step := int(run.stepNo.Load())
	run.mu.Lock()
	defer run.mu.Unlock()
	kept := run.holds[:0]
	for _, h := range run.holds {
		if all || h.at <= step {
			close(h.ch)
		} else {
			kept = append(kept, h)
		}
	}
	run.holds = kept
	return len(kept)
}

func (run *e3Run) recordFinalization(n *e3Node, inc int, h uint64, round uint32, hash string) {
	run.mu.Lock()
	run.nextSeq++
	rec := e3FinRec{Seq: run.nextSeq, Node: n.idx, Inc: inc, H: h, Round: round, Hash: fmt.Sprintf("%x", hash), Step: int(run.stepNo.Load())}
	run.fin = append(run.fin, rec)
	run.finDirty = true
	if h > n.lastFinH {
		n.lastFinH = h
		n.lastProgress = rec.Step
	}
	run.mu.Unlock()
	run.logf("n%d FINALIZE height=%d round=%d hash=%x", n.idx, h, round, short(hash))
}

// auditVotes is the premise monitor of C03: "correct" means the unmodified engine
// with the lock-respecting strategy, so every vote a correct node really signed
// (verified here with crypto/ed25519 under the node's own key) must be the
// decision its strategy memoized for that height and round. An engine that signs
// anything else (a precommit taken from the vote summary, an answer of round r
// signed for round r+1, a vote the strategy was never asked for) makes the node
// not lock-respecting from the inside.
// auditProposal is the second premise monitor: a proposed header that a correct node really
// signed as proposer must name the validator sets the application returned for its height and
// the next one (in this harness: w.valSet). A correct node proposing anything else has lost
// track of the chain's validator sets, and the agreement argument no longer covers it.
func (run *e3Run) auditProposal(m *e3Msg) {
	ph := m.ph
	h := ph.Header.Height
	if h == 0 || h > run.cfg.Target+8 || ph.ProposerPubKey == nil {
		return
	}
	var node *e3Node
	for _, n := range run.nodes {
		if n != nil && ph.ProposerPubKey.Equal(n.pub) {
			node = n
		}
	}
	if node == nil {
		return // Byzantine or unknown proposer
	}
	ck := fmt.Sprintf("ph|%x|%x", ph.Header.Hash, ph.Signature)
	run.mu.Lock()
	seen := run.auditSeen[ck]
	run.auditSeen[ck] = true
	run.mu.Unlock()
	if seen {
		return
	}
	content, err := tmconsensus.ProposalSignBytes(ph.Header, ph.Round, ph.Annotations, e3SigScheme)
	if err != nil || !ed25519.Verify(ed25519.PublicKey(node.pub.PubKeyBytes()), content, ph.Signature) {
		return // not really signed by that node
	}
	run.count("audit.correct-node-proposals-verified", 1)
	for _, c := range []struct {
		which string
		got   tmconsensus.ValidatorSet
		want  tmconsensus.ValidatorSet
	}{{"validator set", ph.Header.ValidatorSet, run.w.valSet(h)}, {"next validator set", ph.Header.NextValidatorSet, run.w.valSet(h + 1)}} {
		if !c.got.Equal(c.want) {
			run.violateAsync("C03:correct-node-proposed-validator-sets-the-application-did-not-return",
				fmt.Sprintf("node %d proposed %x at %d/%d whose %s (pub key hash %x, power hash %x) is not the one the application returned for that height (%x, %x)",
					node.idx, short(string(ph.Header.Hash)), h, ph.Round, c.which, short(string(c.got.PubKeyHash)), short(string(c.got.VotePowerHash)), short(string(c.want.PubKeyHash)), short(string(c.want.VotePowerHash))),
				map[string]any{"node": node.idx, "height": h, "round": ph.Round, "which": c.which})
		}
	}
}

func (run *e3Run) auditVotes(m *e3Msg) {
	if run.cfg.Mode == "C03" && m.kind == e3KindPH {
		run.auditProposal(m)
		return
	}
	if run.cfg.Mode != "C03" || m.kind == e3KindPH {
		return
	}
	precommit := m.kind == e3KindPrecommit
	h, r := m.hr()
	proofs := m.pv.Proofs
	if precommit {
		proofs = m.pc.Proofs
	}
	if h == 0 || h > run.cfg.Target+8 {
		return
	}
	ord := run.w.order(h)
	for hash, sigs := range proofs {
		var content []byte
		for _, sg := range sigs {
			if len(sg.KeyID) != 2 {
				continue
			}
			vi := int(binary.BigEndian.Uint16(sg.KeyID))
			if vi >= len(ord) {
				continue
			}
			base := ord[vi]
			n := run.nodes[base]
			if n == nil {
				continue // Byzantine validator
			}
			ck := fmt.Sprintf("%v|%d|%d|%x|%x", precommit, h, r, hash, sg.Sig)
			run.mu.Lock()
			seen := run.auditSeen[ck]
			run.auditSeen[ck] = true
			run.mu.Unlock()
			if seen {
				continue
			}
			if content == nil {
				vt := tmconsensus.VoteTarget{Height: h, Round: r, BlockHash: hash}
				var err error
				if precommit {
					content, err = tmconsensus.PrecommitSignBytes(vt, e3SigScheme)
				} else {
					content, err = tmconsensus.PrevoteSignBytes(vt, e3SigScheme)
				}
				if err != nil {
					return
				}
			}
			if !ed25519.Verify(ed25519.PublicKey(n.pub.PubKeyBytes()), content, sg.Sig) {
				continue // not this node's signature for this target: not judged here
			}
			run.count("audit.correct-node-votes-verified", 1)
			s := n.strat
			s.mu.Lock()
			var dec string
			var ok bool
			if precommit {
				dec, ok = s.precommit[e3HR{h, r}]
			} else {
				dec, ok = s.prevoted[e3HR{h, r}]
			}
			s.mu.Unlock()
			if ok && dec == hash {
				continue
			}
			kind := "prevote"
			if precommit {
				kind = "precommit"
			}
			decs := "(the strategy was never asked in that round)"
			if ok {
				decs = fmt.Sprintf("%x", dec)
			}
			run.violateAsync("C03:correct-node-vote-not-decided-by-its-strategy:"+kind,
				fmt.Sprintf("node %d signed a %s for %x at %d/%d, its lock-respecting strategy decided %s", base, kind, hash, h, r, decs),
				map[string]any{"node": base, "kind": kind, "height": h, "round": r, "signed_target": fmt.Sprintf("%x", hash), "strategy_decision": decs, "signature": fmt.Sprintf("%x", sg.Sig)})
		}
	}
}

// fromNode is called by a node's broadcaster goroutine.
func (run *e3Run) fromNode(src int, m e3Msg) {
	run.activity.Add(1)
	run.auditVotes(&m)
	run.mu.Lock()
	run.nextID++
	id := run.nextID
	mp := &m
	for dst := 0; dst < run.cfg.N; dst++ {
		if (dst == src && !run.loopback) || run.nodes[dst] == nil {
			continue
		}
		run.nextSeq++
		run.inbox = append(run.inbox, e3Item{id: id, seq: run.nextSeq, src: src, dst: dst, msg: mp})
	}
	run.counters["broadcast."+e3KindNames[m.kind]]++
	run.mu.Unlock()
}

// ---------------------------------------------------------------------------
// router loop

func (run *e3Run) fault(class string) { run.faults[class]++ }

func (run *e3Run) liveCorrect() []*e3Node {
	var out []*e3Node
	for _, n := range run.nodes {
		if n != nil && !n.permaDown {
			out = append(out, n)
		}
	}
	return out
}

func (run *e3Run) startAll() bool {
	for _, n := range run.nodes {
		if n == nil {
			continue
		}
		if key, msg := n.start(); key != "" {
			run.nodeStartFailed(n, key, msg, "initial start")
			return false
		}
	}
	return true
}

func (run *e3Run) nodeStartFailed(n *e3Node, key, msg, when string) {
	run.count("start-failed."+key, 1)
	run.logf("n%d start failed (%s): %s", n.idx, when, msg)
	n.permaDown = true
	if run.cfg.Mode == "C09" {
		run.violate(run.panicPrefix+"start-failed:"+key, fmt.Sprintf("tmengine.New failed at %s on the node's own stores: %s", when, msg), nil)
	}
}

func (run *e3Run) stopAll() {
	run.releaseHolds(true)
	var wg sync.WaitGroup
	for _, n := range run.nodes {
		if n == nil {
			continue
		}
		wg.Add(1)
		go func(n *e3Node) { defer wg.Done(); n.stop() }(n)
	}
	wg.Wait()
	run.rootCancel()
}

func (run *e3Run) drainInbox() {
	run.mu.Lock()
	in := run.inbox
	run.inbox = nil
	run.mu.Unlock()
	for _, it := range in {
		run.observe(it.msg)
		if run.cfg.Policy == e3PolicyLossy && run.rng.IntN(100) < 30 {
			run.lost = append(run.lost, it)
			run.fault("loss")
			continue
		}
		run.pool = append(run.pool, it)
	}
}

// observe keeps the injector's picture of the network position.
func (run *e3Run) observe(m *e3Msg) {
	h, r := m.hr()
	if h > run.netH {
		run.netH = h
	}
	if r > run.netR[h] {
		run.netR[h] = r
	}
	if m.kind == e3KindPH {
		k := string(m.ph.Header.Hash) + fmt.Sprint(m.ph.Round)
		if !run.hashSeen[k] {
			run.hashSeen[k] = true
			run.headers[h] = append(run.headers[h], m.ph)
		}
	}
}

func (run *e3Run) deliverable(it *e3Item) bool {
	n := run.nodes[it.dst]
	if n == nil || !n.isUp() || n.dead.Load() {
		return false
	}
	if run.group != nil && it.src >= 0 && run.group[it.src] != run.group[it.dst] {
		return false
	}
	if run.group != nil && it.src < 0 && it.byz && run.group[it.dst] != 0 && it.id%2 == 0 {
		// half of the injected messages respect the partition too
		return false
	}
	if run.lagHeld && it.dst == run.cfg.LagNode {
		return false
	}
	if run.cfg.Attack && (run.cfg.AttackKind == 3 || run.cfg.AttackKind == 4 || run.cfg.AttackKind == 5) {
		return true
	}
	if run.cfg.Attack && run.cfg.AttackKind == 2 {
		if run.atkH > 0 && run.atkStage == 1 {
			h, r := it.msg.hr()
			if it.dst == run.atkVictim && !it.pass && h == run.atkH && it.msg.kind == e3KindPrecommit {
				return false
			}
			if it.src == run.atkVictim && it.dst != run.atkVictim && (h > run.atkH || (h == run.atkH && r >= run.atkRound)) {
				// what the victim says about this height reaches the others only later
				return false
			}
		}
		return true
	}
	if run.cfg.Attack && run.cfg.AttackKind == 1 {
		if run.atkH > 0 && run.atkStage >= 1 && it.dst == run.atkVictim && !it.pass {
			if h, _ := it.msg.hr(); h == run.atkH && (it.msg.kind == e3KindPH || it.msg.kind == e3KindPrevote) {
				return false
			}
		}
		return true
	}
	if run.cfg.Attack && run.atkH > 0 && it.src == run.atkVictim && it.dst != run.atkVictim {
		// the victim's precommits for the height under attack and everything it says about
		// later heights are delayed until the attack on this height ends
		h, _ := it.msg.hr()
		if h > run.atkH || (h == run.atkH && (it.msg.kind == e3KindPrecommit || (run.atkIsolate && it.msg.kind == e3KindPrevote))) {
			return false
		}
	}
	return true
}

func (run *e3Run) pickItem() int {
	cand := make([]int, 0, len(run.pool))
	for i := range run.pool {
		if run.deliverable(&run.pool[i]) {
			cand = append(cand, i)
		}
	}
	if len(cand) == 0 {
		return -1
	}
	if run.cfg.Policy == e3PolicyReorder {
		switch x := run.rng.IntN(10); {
		case x < 5: // newest first
			best := cand[0]
			for _, i := range cand {
				if run.pool[i].seq > run.pool[best].seq {
					best = i
				}
			}
			return best
		case x < 6: // oldest
			best := cand[0]
			for _, i := range cand {
				if run.pool[i].seq < run.pool[best].seq {
					best = i
				}
			}
			return best
		}
	}
	return cand[run.rng.IntN(len(cand))]
}

func (run *e3Run) removePool(i int) {
	last := len(run.pool) - 1
	run.pool[i] = run.pool[last]
	run.pool = run.pool[:last]
}

func (run *e3Run) deliverIdx(i int) {
	it := run.pool[i]
	keep := false
	dupPct := 2
	if run.cfg.Policy == e3PolicyDup {
		dupPct = 35
	}
	if it.redeliv < 3 && run.rng.IntN(100) < dupPct {
		keep = true
	}
	if keep {
		run.pool[i].redeliv++
	} else {
		run.removePool(i)
	}
	n := run.nodes[it.dst]
	if it.redeliv > 0 {
		run.fault("duplication")
	}
	if it.seq < run.maxSeqTo[it.dst] {
		run.fault("reorder")
	} else {
		run.maxSeqTo[it.dst] = it.seq
	}
	cp := it
	run.lastTo[it.dst] = &cp
	fb, _ := n.deliver(it.msg)
	run.count("delivered."+e3KindNames[it.msg.kind], 1)
	run.count("feedback."+fb.String(), 1)
	src := fmt.Sprintf("n%d", it.src)
	if it.src < 0 {
		src = "BYZ"
	}
	run.logf("deliver #%d %s->n%d %s => %s", it.id, src, it.dst, it.msg.brief(), fb.String())
}

// waitActivity waits until a node published something (true) or nothing
// happened for the quiescence window (false). Wall clock is used only to
// decide when to look again; it never decides a verdict.
func (run *e3Run) waitActivity(window time.Duration) bool {
	last := run.activity.Load()
	lastChange := time.Now()
	for {
		run.mu.Lock()
		n := len(run.inbox)
		run.mu.Unlock()
		if n > 0 {
			return true
		}
		for _, nd := range run.nodes {
			if nd != nil && nd.dead.Load() && nd.isUp() {
				return true
			}
		}
		time.Sleep(50 * time.Microsecond)
		if a := run.activity.Load(); a != last {
			last, lastChange = a, time.Now()
			continue
		}
		if run.sleeping.Load() > 0 {
			lastChange = time.Now()
			if run.aborted.Load() {
				return false
			}
			continue
		}
		if time.Since(lastChange) >= window {
			return false
		}
	}
}

type e3TimerRef struct {
	n    *e3Node
	name string
	h    uint64
	r    uint32
}

func (run *e3Run) activeTimers(onlyCommitWait bool) []e3TimerRef {
	var out []e3TimerRef
	for _, n := range run.nodes {
		if n == nil || !n.isUp() || n.dead.Load() || n.timer == nil {
			continue
		}
		name, h, r := n.timer.peek()
		if name == "" || (onlyCommitWait && name != "commit-wait") {
			continue
		}
		out = append(out, e3TimerRef{n, name, h, r})
	}
	return out
}

func (run *e3Run) fireOne(ts []e3TimerRef, early bool) bool {
	if len(ts) == 0 {
		return false
	}
	t := ts[run.rng.IntN(len(ts))]
	name, h, r, ok := t.n.timer.fire()
	if !ok {
		return false
	}
	run.count("timer.fired."+name, 1)
	if early && name != "commit-wait" {
		run.fault("early-timer")
		run.count("timer.fired-early."+name, 1)
	}
	run.logf("timer n%d %s %d/%d fired (early=%v)", t.n.idx, name, h, r, early)
	return true
}

// checkDeadStateMachines runs at the end of a run. A live state machine enters a
// round on the strategy or hands a replayed block to the driver within
// microseconds of its start (the only things it waits for are the mirror's
// round entrance answer and the harness's own collaborators). An incarnation that
// was up for more than two seconds and 200 router steps without either sign gave
// up during initialization: no panic, no error from New, but the node can never
// finalize again. For C03 that is one more crashed node; for C09 it is "stops serving".
func (run *e3Run) checkDeadStateMachines() {
	step := int(run.stepNo.Load())
	for _, n := range run.nodes {
		if n == nil || !n.isUp() || n.dead.Load() || n.deadSeen || n.smAlive.Load() || n.ctx.Err() != nil {
			continue
		}
		if time.Since(n.startedAt) < 2*time.Second || step-n.startedStep < 200 {
			run.count("dead-state-machine.unjudged-too-early", 1)
			continue
		}
		n.deadSeen = true
		last, _ := n.lastErrLog.Load().(string)
		key := "state-machine-dead-after-restart:" + verifkit.Normalize(last)
		run.count("dead-state-machine."+key, 1)
		run.logf("n%d state machine never showed a sign of life in incarnation %d (crashes so far %d): %s", n.idx, n.inc, n.crashes, last)
		if run.panicPrefix != "" {
			run.violate(run.panicPrefix+key, fmt.Sprintf("node %d: after a restart on its own stores the state machine neither entered a round nor replayed a block (last error logged: %q); New returned no error, the engine answers Handle* but can never finalize again", n.idx, last),
				map[string]any{"node": n.idx, "incarnation": n.inc, "crashes_before": n.crashes, "last_error_log": last})
		}
	}
}

var reE3Step = regexp.MustCompile(`\b(AwaitingProposal|AwaitingPrevotes|PrevoteDelay|AwaitingPrecommits|PrecommitDelay|CommitWait|AwaitingFinalization)\b`)

// e3NormKey replaces state machine step names in a panic key: "expected commit wait,
// got AwaitingPrevotes" and "... got AwaitingProposal" are one defect.
func e3NormKey(k string) string { return reE3Step.ReplaceAllString(k, "<step>") }

func (run *e3Run) handleDeaths() {
	for _, n := range run.nodes {
		if n != nil && n.isUp() && !n.dead.Load() && n.ctx.Err() != nil && run.rootCtx.Err() == nil {
			// nobody of the harness cancelled this node: the engine terminated itself (watchdog)
			n.mu.Lock()
			if n.panicKey == "" {
				n.panicName = "watchdog"
				n.panicMsg = fmt.Sprint(context.Cause(n.ctx))
				n.panicKey = "self-termination:" + verifkit.Normalize(n.panicMsg)
			}
			n.mu.Unlock()
			n.dead.Store(true)
		}
	}
	for _, n := range run.nodes {
		if n == nil || !n.dead.Load() || !n.isUp() {
			continue
		}
		n.mu.Lock()
		key, msg, stack, name := e3NormKey(n.panicKey), n.panicMsg, n.panicStack, n.panicName
		n.mu.Unlock()
		last := run.lastTo[n.idx]
		lastBrief := "(none)"
		if last != nil {
			lastBrief = fmt.Sprintf("#%d %s", last.id, last.msg.brief())
		}
		run.count("panic."+key, 1)
		run.logf("n%d CRASHED in %s: %s (last delivery: %s)", n.idx, name, msg, lastBrief)
		if run.panicPrefix != "" {
			run.violate(run.panicPrefix+key, fmt.Sprintf("goroutine %s of node %d panicked: %s", name, n.idx, msg),
				map[string]any{"goroutine": name, "message": msg, "stack": stack, "last_delivery_to_node": lastBrief})
		}
		n.stop()
		n.dead.Store(false)
		n.crashes++
		run.fault("crash")
		if last != nil {
			// the router drops the message that killed the node, so a restart is not a crash loop
			for i := 0; i < len(run.pool); {
				if run.pool[i].id == last.id && run.pool[i].dst == n.idx {
					run.removePool(i)
					continue
				}
				i++
			}
		}
		maxCrashes := run.cfg.MaxCrashes
		if maxCrashes == 0 {
			maxCrashes = 12
		}
		if n.crashes >= maxCrashes {
			n.permaDown = true
			run.count("node.gave-up-after-crash-loop", 1)
			run.logf("n%d stays down after %d crashes", n.idx, n.crashes)
			continue
		}
		if k, m := n.start(); k != "" {
			run.nodeStartFailed(n, k, m, "restart after crash")
		}
	}
}

func (run *e3Run) plannedRestarts(step int) {
	for i := range run.cfg.Restarts {
		rs := &run.cfg.Restarts[i]
		if rs.done || step < rs.Step {
			continue
		}
		n := run.nodes[rs.Node]
		if n == nil || !n.isUp() || n.permaDown {
			continue
		}
		run.mu.Lock()
		fh := n.lastFinH
		run.mu.Unlock()
		if fh < rs.MinFinalized {
			continue
		}
		rs.done = true
		run.count(fmt.Sprintf("restart.at-finalized-height.%d", fh), 1)
		run.logf("n%d RESTART (planned)", n.idx)
		n.stop()
		run.fault("restart")
		run.restartsDone++
		if k, m := n.start(); k != "" {
			run.nodeStartFailed(n, k, m, "planned restart")
		}
	}
}

func (run *e3Run) partitionSchedule(step int) {
	if run.cfg.Policy != e3PolicyPartition {
		return
	}
	if run.group != nil && step >= run.partUntil {
		run.group = nil
		run.partNext = step + 20 + run.rng.IntN(120)
		run.logf("partition healed")
		return
	}
	if run.group == nil && step >= run.partNext {
		g := map[int]int{}
		ones := 0
		for i := 0; i < run.cfg.N; i++ {
			g[i] = run.rng.IntN(2)
			ones += g[i]
		}
		if ones == 0 || ones == run.cfg.N {
			g[run.rng.IntN(run.cfg.N)] ^= 1
		}
		run.group = g
		run.partUntil = step + 40 + run.rng.IntN(400)
		run.fault("partition")
		run.logf("partition %v until step %d", g, run.partUntil)
	}
}

func (run *e3Run) retransmit(max int) bool {
	if len(run.lost) == 0 {
		return false
	}
	for k := 0; k < max && len(run.lost) > 0; k++ {
		i := run.rng.IntN(len(run.lost))
		it := run.lost[i]
		run.lost[i] = run.lost[len(run.lost)-1]
		run.lost = run.lost[:len(run.lost)-1]
		run.pool = append(run.pool, it)
		run.count("retransmitted", 1)
	}
	return true
}

// lagControl holds back and releases the deliveries of the lagging node (C09(c)).
func (run *e3Run) lagControl(step int, quiescent bool) bool {
	if run.cfg.LagNode < 0 {
		return false
	}
	if run.lagHeld {
		release := quiescent || step >= run.lagUntil
		if run.lagTargetH > 0 {
			var othersH uint64
			run.mu.Lock()
			for _, n := range run.nodes {
				if n != nil && n.idx != run.cfg.LagNode && n.lastFinH > othersH {
					othersH = n.lastFinH
				}
			}
			run.mu.Unlock()
			if othersH >= run.lagTargetH {
				release = true
			}
		}
		if release {
			run.lagHeld = false
			run.lagUntil = step + 30 + run.rng.IntN(150) // next episode not before
			run.logf("lag: deliveries to n%d released", run.cfg.LagNode)
			return true
		}
		return false
	}
	if !quiescent && step >= run.lagUntil && run.lagEpisodes < 6 {
		run.lagHeld = true
		run.lagEpisodes++
		run.fault("lag")
		run.lagTargetH = 0
		if run.cfg.LagKind == "heights" {
			run.mu.Lock()
			cur := run.nodes[run.cfg.LagNode].lastFinH
			run.mu.Unlock()
			run.lagTargetH = cur + 1 + uint64(run.rng.IntN(3))
			run.lagUntil = step + 3000
		} else {
			run.lagUntil = step + 60 + run.rng.IntN(500)
		}
		run.logf("lag: deliveries to n%d held (kind=%s until step %d / others at height %d)", run.cfg.LagNode, run.cfg.LagKind, run.lagUntil, run.lagTargetH)
	}
	return false
}

func (run *e3Run) finished() bool {
	live := run.liveCorrect()
	if len(live) == 0 {
		run.endReason = "no live correct node left"
		return true
	}
	run.mu.Lock()
	defer run.mu.Unlock()
	all := true
	var maxH uint64
	for _, n := range live {
		if n.lastFinH < run.cfg.Target {
			all = false
		}
		if n.lastFinH > maxH {
			maxH = n.lastFinH
		}
	}
	if all {
		run.endReason = "all live correct nodes finalized the target height"
		return true
	}
	if maxH >= run.cfg.Target+6 {
		run.endReason = "some node is six heights past the target while another never reached it"
		return true
	}
	return false
}

func (run *e3Run) loop() {
	cfg := run.cfg
	earlyPct := []int{0, 10, 2}[cfg.TimerPolicy]
	byzPct := 0
	if len(run.w.byz) > 0 {
		byzPct = 6
	}
	idle := 0
	window := 1500 * time.Microsecond
	run.partNext = 30 + run.rng.IntN(100)
	if cfg.LagNode >= 0 {
		run.lagUntil = 20 + run.rng.IntN(100)
	}
	for step := 1; step <= cfg.MaxSteps && !run.aborted.Load(); step++ {
		run.stepNo.Store(int64(step))
		run.stepWall.Store(time.Now().UnixNano())
		run.releaseHolds(false)
		run.flushViolations()
		run.handleDeaths()
		run.plannedRestarts(step)
		run.partitionSchedule(step)
		run.lagControl(step, false)
		run.drainInbox()
		if cfg.Policy == e3PolicyLossy && run.rng.IntN(100) < 8 {
			run.retransmit(1 + run.rng.IntN(3))
		}
		if run.cfg.Attack && byzPct > 0 {
			run.attackStep(step)
			if run.rng.IntN(100) < 2 {
				run.byzInject()
			}
		} else if byzPct > 0 && run.rng.IntN(100) < byzPct {
			run.byzInject()
		}
		fired := false
		if earlyPct > 0 && run.rng.IntN(100) < earlyPct {
			fired = run.fireOne(run.activeTimers(false), true)
		}
		if run.rng.IntN(100) < 25 {
			if run.fireOne(run.activeTimers(true), false) {
				fired = true
			}
		}
		if i := run.pickItem(); i >= 0 {
			run.deliverIdx(i)
			idle = 0
		} else if !fired {
			if run.waitActivity(window) {
				idle = 0
			} else {
				// quiescent: nothing in flight that the router could see
				run.mu.Lock()
				nh := len(run.holds)
				run.mu.Unlock()
				switch {
				case nh > 0:
					// virtual time passes; holds are released by later steps
					idle = 0
				case run.fireOne(run.activeTimers(false), false):
					idle = 0
				case run.retransmit(8):
					idle = 0
				case run.group != nil:
					run.partUntil = step
					idle = 0
				case run.lagControl(step, true):
					idle = 0
				default:
					idle++
					if idle == 2 && run.cfg.Attack && run.cfg.AttackKind == 2 && run.atkH > 0 && run.atkStage == 1 {
						run.atkStage = 2
						idle = 0
					} else if idle == 2 && run.cfg.Attack && run.cfg.AttackKind == 1 && run.atkH > 0 && run.atkStage == 1 {
						// everything that could move has moved: time to show X to the victim
						run.atkNudge = true
						idle = 0
					} else if idle == 2 && run.cfg.Attack && run.atkH > 0 {
						// nothing moved for two long windows with the victim's messages held:
						// the attack on this height ends and the held messages flow
						run.logf("attack on height %d ends at quiescence", run.atkH)
						run.atkH = 0
						run.atkSince = step
						idle = 0
					}
					// a stall is only concluded after four ever longer silent windows (~0.4 s in total)
					window = time.Duration(25<<idle) * time.Millisecond
				}
			}
		} else {
			idle = 0
		}
		if idle == 0 {
			window = 1500 * time.Microsecond
		}
		run.mu.Lock()
		dirty := run.finDirty
		run.finDirty = false
		run.mu.Unlock()
		if dirty {
			run.oracle(false)
			if run.finished() {
				break
			}
		}
		if idle >= 4 {
			for _, n := range run.nodes {
				if n != nil && n.timer != nil {
					nm, h, r := n.timer.peek()
					run.logf("stall: n%d up=%v dead=%v timer=%q %d/%d pool=%d lost=%d", n.idx, n.isUp(), n.dead.Load(), nm, h, r, len(run.pool), len(run.lost))
				}
			}
			run.endReason = "stalled: quiescent with nothing to deliver, no timer, no retransmission"
			break
		}
	}
	if run.endReason == "" {
		run.endReason = "router step bound reached"
	}
}

// ---------------------------------------------------------------------------
// Byzantine injector

func (run *e3Run) inject(m e3Msg, dsts []int) {
	run.mu.Lock()
	run.nextID++
	id := run.nextID
	run.mu.Unlock()
	mp := &m
	for _, d := range dsts {
		run.mu.Lock()
		run.nextSeq++
		seq := run.nextSeq
		run.mu.Unlock()
		run.pool = append(run.pool, e3Item{id: id, seq: seq, src: -1, dst: d, msg: mp, byz: true})
	}
	run.count("byzantine.injected."+e3KindNames[m.kind], int64(len(dsts)))
	run.logf("BYZ inject #%d %s -> %v", id, m.brief(), dsts)
	run.fault("byzantine")
}

func (run *e3Run) splitCorrect() ([]int, []int) {
	c := run.w.correctList()
	run.rng.Shuffle(len(c), func(i, j int) { c[i], c[j] = c[j], c[i] })
	k := 1 + run.rng.IntN(len(c))
	if k == len(c) && len(c) > 1 && run.rng.IntN(2) == 0 {
		k--
	}
	return c[:k], c[k:]
}

func (run *e3Run) baseHeader(h uint64) (tmconsensus.Header, bool) {
	if hs := run.headers[h]; len(hs) > 0 {
		for _, ph := range hs {
			// prefer a header an engine produced
			if len(ph.Header.DataID) == 32 {
				return ph.Header, true
			}
		}
	}
	if h == 1 {
		return tmconsensus.Header{
			PrevBlockHash:    run.w.genesisHash,
			Height:           1,
			ValidatorSet:     run.w.valSet(1),
			NextValidatorSet: run.w.valSet(2),
			PrevAppStateHash: run.w.initAppHash,
		}, true
	}
	return tmconsensus.Header{}, false
}

func (run *e3Run) knownHashes(h uint64) []string {
	var out []string
	seen := map[string]bool{}
	for _, ph := range run.headers[h] {
		k := string(ph.Header.Hash)
		if !seen[k] {
			seen[k] = true
			out = append(out, k)
		}
	}
	return out
}

func (run *e3Run) randomHash() string {
	var b [32]byte
	for i := 0; i < 4; i++ {
		v := run.rng.Uint64()
		for j := 0; j < 8; j++ {
			b[i*8+j] = byte(v >> (8 * j))
		}
	}
	return string(b[:])
}

func (run *e3Run) byzInject() {
	byz := run.w.byzList()
	if len(byz) == 0 {
		return
	}
	rng := run.rng
	h := run.netH
	switch x := rng.IntN(20); {
	case x < 14:
	case x < 16:
		h++
	case x < 18:
		if h > 1 {
			h--
		}
	case x < 19:
		h += 2
	default:
		if h > 2 {
			h -= 2
		}
	}
	r := run.netR[h]
	switch x := rng.IntN(20); {
	case x < 12:
	case x < 17:
		r++
	case x < 19:
		r += 2 + uint32(rng.IntN(2))
	default:
		if r > 0 {
			r--
		}
	}
	signers := make([]int, 0, len(byz))
	for _, b := range byz {
		if rng.IntN(3) > 0 {
			signers = append(signers, b)
		}
	}
	if len(signers) == 0 {
		signers = append(signers, byz[rng.IntN(len(byz))])
	}
	a, b := run.splitCorrect()
	all := run.w.correctList()
	known := run.knownHashes(h)
	pickTarget := func() string {
		switch x := rng.IntN(10); {
		case x < 6 && len(known) > 0:
			return known[rng.IntN(len(known))]
		case x < 8:
			return ""
		default:
			return run.randomHash()
		}
	}
	mkVote := func(precommit bool, targets map[string][]int) e3Msg {
		sigs, pkh := run.w.byzVote(precommit, h, r, targets)
		if precommit {
			return e3Msg{kind: e3KindPrecommit, pc: tmconsensus.PrecommitSparseProof{Height: h, Round: r, PubKeyHash: pkh, Proofs: sigs}}
		}
		return e3Msg{kind: e3KindPrevote, pv: tmconsensus.PrevoteSparseProof{Height: h, Round: r, PubKeyHash: pkh, Proofs: sigs}}
	}
	if rng.IntN(100) < 18 {
		// forged votes: signatures claimed for correct validators, made with a Byzantine key or random
		t := pickTarget()
		pre := rng.IntN(2) == 0
		sigs, pkh := run.w.forgedVote(rng, pre, h, r, t, run.w.correctList(), byz[0])
		var m e3Msg
		if pre {
			m = e3Msg{kind: e3KindPrecommit, pc: tmconsensus.PrecommitSparseProof{Height: h, Round: r, PubKeyHash: pkh, Proofs: sigs}}
		} else {
			m = e3Msg{kind: e3KindPrevote, pv: tmconsensus.PrevoteSparseProof{Height: h, Round: r, PubKeyHash: pkh, Proofs: sigs}}
		}
		run.inject(m, a)
		run.count("byzantine.forged-votes", 1)
		return
	}
	switch x := rng.IntN(100); {
	case x < 25:
		// proposal equivocation: two different blocks for one (height, round), to different nodes
		base, ok := run.baseHeader(h)
		if !ok {
			run.count("byzantine.skipped.no-base-header", 1)
			return
		}
		signer := signers[0]
		if p := run.w.proposerBase(h, r); run.w.byz[p] {
			signer = p
		}
		phA := run.w.byzProposal(base, h, r, signer, 1)
		phB := run.w.byzProposal(base, h, r, signer, 2)
		run.observe(&e3Msg{kind: e3KindPH, ph: phA})
		run.observe(&e3Msg{kind: e3KindPH, ph: phB})
		run.inject(e3Msg{kind: e3KindPH, ph: phA}, a)
		if len(b) > 0 {
			run.inject(e3Msg{kind: e3KindPH, ph: phB}, b)
		} else {
			run.inject(e3Msg{kind: e3KindPH, ph: phB}, a)
		}
		run.count("byzantine.proposal-equivocation", 1)
	case x < 33:
		// a block of its own with all the Byzantine votes behind it, for some nodes only:
		// worth nothing by itself, whatever round it claims
		base, ok := run.baseHeader(h)
		if !ok {
			run.count("byzantine.skipped.no-base-header", 1)
			return
		}
		ph := run.w.byzProposal(base, h, r, byz[0], 8)
		run.observe(&e3Msg{kind: e3KindPH, ph: ph})
		t := string(ph.Header.Hash)
		run.inject(e3Msg{kind: e3KindPH, ph: ph}, a)
		signers = byz
		run.inject(mkVote(false, map[string][]int{t: signers}), a)
		run.inject(mkVote(true, map[string][]int{t: signers}), a)
		run.count("byzantine.own-block-own-votes", 1)
	case x < 60:
		// vote equivocation: different targets to different nodes, or two targets in one message
		precommit := rng.IntN(2) == 0
		t1, t2 := pickTarget(), pickTarget()
		for k := 0; k < 3 && t2 == t1; k++ {
			t2 = pickTarget()
		}
		if rng.IntN(4) == 0 {
			run.inject(mkVote(precommit, map[string][]int{t1: signers, t2: signers}), all)
		} else {
			run.inject(mkVote(precommit, map[string][]int{t1: signers}), a)
			if len(b) > 0 {
				run.inject(mkVote(precommit, map[string][]int{t2: signers}), b)
			}
		}
		run.count("byzantine.vote-equivocation", 1)
	case x < 75:
		// votes for a hash nobody proposed
		run.inject(mkVote(rng.IntN(2) == 0, map[string][]int{run.randomHash(): signers}), a)
		run.count("byzantine.vote-unknown-hash", 1)
	case x < 90:
		// "helpful" votes for a real block, shown to a few nodes only: pushes single
		// nodes over a threshold the others do not see
		if len(known) == 0 {
			return
		}
		t := known[rng.IntN(len(known))]
		run.inject(mkVote(false, map[string][]int{t: signers}), a)
		run.inject(mkVote(true, map[string][]int{t: signers}), a[:1])
		run.count("byzantine.selective-support", 1)
	default:
		// prevote every known block (each to everybody)
		if len(known) == 0 {
			return
		}
		tg := map[string][]int{}
		for _, k := range known {
			tg[k] = signers
		}
		tg[""] = signers
		run.inject(mkVote(false, tg), all)
		run.inject(mkVote(true, tg), all)
		run.count("byzantine.vote-for-everything", 1)
	}
}

// injectPass is inject for items that the late-header attack's hold lets through.
func (run *e3Run) injectPass(m e3Msg, dsts []int) {
	n0 := len(run.pool)
	run.inject(m, dsts)
	for i := n0; i < len(run.pool); i++ {
		run.pool[i].pass = true
	}
}

// lateHeaderStep drives the late-header attack (see e3Config.AttackKind).
func (run *e3Run) lateHeaderStep(step int) {
	byz := run.w.byzList()
	correct := run.liveCorrect()
	if len(byz) == 0 || len(correct) < 2 {
		return
	}
	run.mu.Lock()
	minFin := ^uint64(0)
	for _, n := range correct {
		if n.lastFinH < minFin {
			minFin = n.lastFinH
		}
	}
	run.mu.Unlock()
	h := minFin + 1
	end := func(why string) {
		run.logf("late-header attack on height %d ends (%s)", run.atkH, why)
		run.atkH, run.atkStage, run.atkNudge = 0, 0, false
		run.atkSince = step
	}
	if run.atkH != 0 && h > run.atkH {
		end("every live correct node finalized it")
	}
	if run.atkH == 0 {
		if step-run.atkSince < 40 && run.atkSince > 0 {
			return // let the held messages flow for a while
		}
		run.atkH = h
		// a victim without whose votes the others and the Byzantine validators still decide
		var cand []int
		for _, n := range correct {
			if 3*(run.w.total-run.w.powers[n.idx]) > 2*run.w.total {
				cand = append(cand, n.idx)
			}
		}
		if len(cand) == 0 {
			run.atkVictim = correct[run.rng.IntN(len(correct))].idx
		} else {
			run.atkVictim = cand[run.rng.IntN(len(cand))]
		}
		run.atkSince, run.atkStage, run.atkStageSince = step, 0, step
		run.atkSent = map[string]bool{}
		run.logf("late-header attack: height %d, victim n%d", h, run.atkVictim)
	}
	h = run.atkH
	var others []int
	othersDone := true
	run.mu.Lock()
	for _, n := range correct {
		if n.idx != run.atkVictim {
			others = append(others, n.idx)
			if n.lastFinH < h {
				othersDone = false
			}
		}
	}
	run.mu.Unlock()
	if len(others) == 0 {
		return
	}
	mkVote := func(precommit bool, r uint32, target string) e3Msg {
		sigs, pkh := run.w.byzVote(precommit, h, r, map[string][]int{target: byz})
		if precommit {
			return e3Msg{kind: e3KindPrecommit, pc: tmconsensus.PrecommitSparseProof{Height: h, Round: r, PubKeyHash: pkh, Proofs: sigs}}
		}
		return e3Msg{kind: e3KindPrevote, pv: tmconsensus.PrevoteSparseProof{Height: h, Round: r, PubKeyHash: pkh, Proofs: sigs}}
	}
	switch run.atkStage {
	case 0:
		r := run.netR[h]
		p := run.w.proposerBase(h, r)
		key := fmt.Sprintf("late:%d/%d", h, r)
		if !run.w.byz[p] || run.atkSent[key] {
			if step-run.atkStageSince > 1500 {
				end("no Byzantine proposer came up")
			}
			return
		}
		base, ok := run.baseHeader(h)
		if !ok {
			return
		}
		run.atkSent[key] = true
		phX := run.w.byzProposal(base, h, r, p, 6)
		phY := run.w.byzProposal(base, h, r, p, 7)
		run.observe(&e3Msg{kind: e3KindPH, ph: phX})
		run.observe(&e3Msg{kind: e3KindPH, ph: phY})
		y, x := string(phY.Header.Hash), string(phX.Header.Hash)
		all := append([]int{run.atkVictim}, others...)
		run.inject(e3Msg{kind: e3KindPH, ph: phY}, others)
		run.inject(mkVote(false, r, y), others)
		run.inject(mkVote(true, r, y), all)
		// the one prevote the victim gets to see: a Byzantine prevote for X
		run.injectPass(mkVote(false, r, x), []int{run.atkVictim})
		run.atkX = phX
		run.atkStage, run.atkStageSince, run.atkNudge = 1, step, false
		run.fault("byzantine")
		run.count("byzantine.attack.late-header.started", 1)
		run.logf("late-header attack: %d/%d proposer v%d shows X=%x to n%d and Y=%x to %v", h, r, p, short(x), run.atkVictim, short(y), others)
	case 1:
		if (othersDone && step-run.atkStageSince > 60) || run.atkNudge || step-run.atkStageSince > 2000 {
			run.injectPass(e3Msg{kind: e3KindPH, ph: run.atkX}, []int{run.atkVictim})
			run.atkStage, run.atkStageSince, run.atkNudge = 2, step, false
			run.count("byzantine.attack.late-header.x-shown", 1)
			if othersDone {
				run.count("byzantine.attack.late-header.x-shown-after-others-finalized", 1)
			}
		}
	case 2:
		if step-run.atkStageSince > 120 {
			end("X was shown; held messages released")
		}
	}
}

// nextRoundStep drives attack kind 2: at every height, as soon as a header of that height is
// known, the Byzantine validators show one victim a block of their own for the round after the
// current one together with their prevotes and precommits for it, and the victim's copies of
// everybody's precommits of that height are held back for a while. Less than one third of the
// power behind a block must neither move the victim out of its round nor decide anything.
func (run *e3Run) nextRoundStep(step int) {
	byz := run.w.byzList()
	correct := run.liveCorrect()
	if len(byz) == 0 || len(correct) < 2 {
		return
	}
	if run.atkH != 0 && run.atkStage == 1 && step-run.atkStageSince > 150 {
		run.logf("next-round attack on height %d: held messages released", run.atkH)
		run.atkStage = 2
	}
	if run.atkH != 0 && run.atkStage == 1 {
		// meanwhile the Byzantine validators help whatever the correct validators proposed
		// in the height's earlier rounds to a decision among the others
		var others []int
		for _, n := range correct {
			if n.idx != run.atkVictim {
				others = append(others, n.idx)
			}
		}
		for _, ph := range run.headers[run.atkH] {
			x := string(ph.Header.Hash)
			k := fmt.Sprintf("nr-support:%d/%d/%x", run.atkH, ph.Round, x)
			if ph.Round >= run.atkRound || x == run.atkXHash || run.atkSent[k] || len(others) == 0 {
				continue
			}
			run.atkSent[k] = true
			pv, pkh := run.w.byzVote(false, run.atkH, ph.Round, map[string][]int{x: byz})
			pc, _ := run.w.byzVote(true, run.atkH, ph.Round, map[string][]int{x: byz})
			run.inject(e3Msg{kind: e3KindPrevote, pv: tmconsensus.PrevoteSparseProof{Height: run.atkH, Round: ph.Round, PubKeyHash: pkh, Proofs: pv}}, others)
			run.inject(e3Msg{kind: e3KindPrecommit, pc: tmconsensus.PrecommitSparseProof{Height: run.atkH, Round: ph.Round, PubKeyHash: pkh, Proofs: pc}}, others)
			run.count("byzantine.attack.next-round.support-earlier-round-block", 1)
		}
	}
	// One attack per height and per victim candidate: as soon as some correct node's
	// strategy has entered a height for which a header to build on is known, that node is
	// shown the block for the round after the one it is in.
	if run.atkHeights == nil {
		run.atkHeights = map[uint64]bool{}
	}
	var h uint64
	var r uint32
	victim := -1
	for _, n := range correct {
		n.strat.mu.Lock()
		ch, cr, entered := n.strat.curH, n.strat.curR, n.strat.entered
		n.strat.mu.Unlock()
		if entered && !run.atkHeights[ch] && ch >= h && (ch >= 3 || run.atkFromStart) {
			if _, ok := run.baseHeader(ch); ok {
				h, r, victim = ch, cr+1, n.idx
			}
		}
	}
	if victim < 0 {
		return
	}
	base, _ := run.baseHeader(h)
	run.atkHeights[h] = true
	run.atkH = h
	run.atkVictim = victim
	run.atkRound = r
	run.atkSent = map[string]bool{}
	ph := run.w.byzProposal(base, h, r, byz[0], 9)
	run.observe(&e3Msg{kind: e3KindPH, ph: ph})
	x := string(ph.Header.Hash)
	run.atkXHash = x
	sigsV, pkh := run.w.byzVote(false, h, r, map[string][]int{x: byz})
	sigsC, _ := run.w.byzVote(true, h, r, map[string][]int{x: byz})
	v := []int{run.atkVictim}
	run.injectPass(e3Msg{kind: e3KindPH, ph: ph}, v)
	run.injectPass(e3Msg{kind: e3KindPrevote, pv: tmconsensus.PrevoteSparseProof{Height: h, Round: r, PubKeyHash: pkh, Proofs: sigsV}}, v)
	run.injectPass(e3Msg{kind: e3KindPrecommit, pc: tmconsensus.PrecommitSparseProof{Height: h, Round: r, PubKeyHash: pkh, Proofs: sigsC}}, v)
	run.atkSince, run.atkStage, run.atkStageSince = step, 1, step
	run.count("byzantine.attack.next-round-own-block", 1)
	run.logf("next-round attack: height %d, victim n%d is shown block %x for round %d with the Byzantine votes", h, run.atkVictim, short(x), r)
}

// inflatedSetStep drives attack kind 3. Stage 0: when a Byzantine validator is the proposer
// of the round, it proposes a block whose NextValidatorSet has the right keys in the right
// order but gives the Byzantine validators a thousand times their power (lists and hashes
// consistent), and votes for it. A correct engine never votes for a block whose next set is
// not the one its application returned, so nothing comes of it. Stage 1, only if the correct
// nodes finalized that block: at the next height the Byzantine validators alone exceed two
// thirds in every node's accounting, and they certify one block towards one node and another
// towards the rest.
func (run *e3Run) inflatedSetStep(step int) {
	byz := run.w.byzList()
	correct := run.liveCorrect()
	if len(byz) == 0 || len(correct) < 2 {
		return
	}
	if run.atkHeights == nil {
		run.atkHeights = map[uint64]bool{}
	}
	mkVotes := func(h uint64, r uint32, x string, dst []int) {
		pv, pkh := run.w.byzVote(false, h, r, map[string][]int{x: byz})
		pc, _ := run.w.byzVote(true, h, r, map[string][]int{x: byz})
		run.inject(e3Msg{kind: e3KindPrevote, pv: tmconsensus.PrevoteSparseProof{Height: h, Round: r, PubKeyHash: pkh, Proofs: pv}}, dst)
		run.inject(e3Msg{kind: e3KindPrecommit, pc: tmconsensus.PrecommitSparseProof{Height: h, Round: r, PubKeyHash: pkh, Proofs: pc}}, dst)
	}
	var all []int
	for _, n := range correct {
		all = append(all, n.idx)
	}
	switch run.atkStage {
	case 0:
		h := run.netH
		if h == 0 {
			h = 1
		}
		r := run.netR[h]
		p := run.w.proposerBase(h, r)
		key := fmt.Sprintf("%d/%d", h, r)
		if !run.w.byz[p] || run.atkSent[key] {
			return
		}
		base, ok := run.baseHeader(h)
		if !ok || len(base.NextValidatorSet.Validators) == 0 {
			return
		}
		if run.atkSent == nil {
			run.atkSent = map[string]bool{}
		}
		run.atkSent[key] = true
		vals := append([]tmconsensus.Validator{}, base.NextValidatorSet.Validators...)
		inflated := false
		for i := range vals {
			for _, b := range byz {
				if vals[i].PubKey.Equal(run.w.pv[b].Val.PubKey) && vals[i].Power < 1<<50 {
					vals[i].Power *= 1000
					inflated = true
				}
			}
		}
		if !inflated {
			return // powers near 2^58: nothing to inflate without overflow
		}
		nvs, err := tmconsensus.NewValidatorSet(vals, e3HashScheme)
		if err != nil {
			return
		}
		hd := e3CloneHeader(base)
		hd.NextValidatorSet = nvs
		ph := run.w.byzProposal(hd, h, r, p, 10)
		run.observe(&e3Msg{kind: e3KindPH, ph: ph})
		run.inject(e3Msg{kind: e3KindPH, ph: ph}, all)
		mkVotes(h, r, string(ph.Header.Hash), all)
		run.atkH, run.atkXHash, run.atkStageSince = h, string(ph.Header.Hash), step
		run.atkStage = 1
		run.count("byzantine.attack.inflated-next-set.proposed", 1)
		run.logf("inflated-set attack: %d/%d proposer v%d proposes %x whose next validator set gives the Byzantine validators 1000x their power", h, r, p, short(run.atkXHash))
	case 1:
		// did the correct nodes finalize that block?
		run.mu.Lock()
		taken, other := 0, 0
		for _, f := range run.fin {
			if f.H == run.atkH {
				if f.Hash == fmt.Sprintf("%x", run.atkXHash) {
					taken++
				} else {
					other++
				}
			}
		}
		run.mu.Unlock()
		if other > 0 || step-run.atkStageSince > 1500 {
			run.atkStage = 0 // refused, as it should be: try again at a later height
			return
		}
		if taken < len(correct) {
			return
		}
		run.count("byzantine.attack.inflated-next-set.block-was-finalized", 1)
		run.atkStage, run.atkStageSince = 2, step
	case 2:
		// the height after: certify two different blocks, alone
		h := run.atkH + 1
		base, ok := run.baseHeader(h)
		if !ok {
			if step-run.atkStageSince > 1500 {
				run.atkStage = 3
			}
			return
		}
		r := run.netR[h]
		victim := all[run.rng.IntN(len(all))]
		var others []int
		for _, i := range all {
			if i != victim {
				others = append(others, i)
			}
		}
		phA := run.w.byzProposal(base, h, r, byz[0], 11)
		phB := run.w.byzProposal(base, h, r, byz[0], 12)
		run.observe(&e3Msg{kind: e3KindPH, ph: phA})
		run.observe(&e3Msg{kind: e3KindPH, ph: phB})
		run.inject(e3Msg{kind: e3KindPH, ph: phA}, []int{victim})
		mkVotes(h, r, string(phA.Header.Hash), []int{victim})
		run.inject(e3Msg{kind: e3KindPH, ph: phB}, others)
		mkVotes(h, r, string(phB.Header.Hash), others)
		run.count("byzantine.attack.inflated-next-set.split-certified", 1)
		run.atkStage = 3
	}
}

// forgedListStep drives attack kind 5. Stage 0: when a Byzantine validator is the proposer of
// the round it equivocates: one victim is shown a first, honest-looking block, and then a copy
// of a second block in which only the lists of the next validator set are altered (the
// Byzantine validators a thousand times as heavy; PubKeyHash, VotePowerHash, block hash and
// signature are those of the unaltered block, which everybody else gets). The Byzantine
// validators vote for the second block; it is an acceptable block, so the other correct nodes
// may well decide it. A correct node refuses the altered copy (its lists do not hash to what
// the block hash covers) whatever it has seen before, and takes the block from its peers.
// Stages 1 and 2 as for kind 3: only if all correct nodes finalized that block do the
// Byzantine validators, at the next height, certify one block towards the victim and another
// towards the rest.
func (run *e3Run) forgedListStep(step int) {
	byz := run.w.byzList()
	correct := run.liveCorrect()
	if len(byz) == 0 || len(correct) < 2 {
		return
	}
	if run.atkSent == nil {
		run.atkSent = map[string]bool{}
	}
	mkVotes := func(h uint64, r uint32, x string, dst []int) {
		pv, pkh := run.w.byzVote(false, h, r, map[string][]int{x: byz})
		pc, _ := run.w.byzVote(true, h, r, map[string][]int{x: byz})
		run.inject(e3Msg{kind: e3KindPrevote, pv: tmconsensus.PrevoteSparseProof{Height: h, Round: r, PubKeyHash: pkh, Proofs: pv}}, dst)
		run.inject(e3Msg{kind: e3KindPrecommit, pc: tmconsensus.PrecommitSparseProof{Height: h, Round: r, PubKeyHash: pkh, Proofs: pc}}, dst)
	}
	var all []int
	for _, n := range correct {
		all = append(all, n.idx)
	}
	switch run.atkStage {
	case 0:
		h := run.netH
		if h == 0 {
			h = 1
		}
		r := run.netR[h]
		p := run.w.proposerBase(h, r)
		key := fmt.Sprintf("%d/%d", h, r)
		if !run.w.byz[p] || run.atkSent[key] {
			return
		}
		base, ok := run.baseHeader(h)
		if !ok || len(base.NextValidatorSet.Validators) == 0 {
			return
		}
		run.atkSent[key] = true
		first := run.w.byzProposal(base, h, r, p, 13)
		second := run.w.byzProposal(base, h, r, p, 14)
		forged := second
		forged.Header = e3CloneHeader(second.Header)
		vals := forged.Header.NextValidatorSet.Validators
		altered := false
		for i := range vals {
			for _, b := range byz {
				if vals[i].PubKey.Equal(run.w.pv[b].Val.PubKey) && vals[i].Power < 1<<50 {
					vals[i].Power *= 1000
					altered = true
				}
			}
		}
		if !altered {
			return
		}
		victim := all[run.rng.IntN(len(all))]
		var others []int
		for _, i := range all {
			if i != victim {
				others = append(others, i)
			}
		}
		run.atkVictim = victim
		run.observe(&e3Msg{kind: e3KindPH, ph: first})
		run.observe(&e3Msg{kind: e3KindPH, ph: second})
		run.inject(e3Msg{kind: e3KindPH, ph: first}, []int{victim})
		run.atkForged, run.atkSecond, run.atkOthers = forged, second, others
		run.atkH, run.atkRound, run.atkXHash, run.atkStageSince = h, r, string(second.Header.Hash), step
		run.atkStage = 10
		run.count("byzantine.attack.forged-next-lists.proposed", 1)
		run.logf("forged-list attack: %d/%d proposer v%d shows n%d block %x and then a copy of %x with altered next-validator lists", h, r, p, victim, short(string(first.Header.Hash)), short(run.atkXHash))
	case 10:
		// a little later (the victim has handled the first block by then): the altered copy to
		// the victim, the unaltered block to the others, the Byzantine votes to everybody
		if step-run.atkStageSince < 6 {
			return
		}
		run.inject(e3Msg{kind: e3KindPH, ph: run.atkForged}, []int{run.atkVictim})
		run.inject(e3Msg{kind: e3KindPH, ph: run.atkSecond}, run.atkOthers)
		mkVotes(run.atkH, run.atkRound, run.atkXHash, all)
		run.atkStage, run.atkStageSince = 1, step
	case 1:
		run.mu.Lock()
		taken, other := 0, 0
		for _, f := range run.fin {
			if f.H == run.atkH {
				if f.Hash == fmt.Sprintf("%x", run.atkXHash) {
					taken++
				} else {
					other++
				}
			}
		}
		run.mu.Unlock()
		if other > 0 || step-run.atkStageSince > 1500 {
			run.atkStage = 0
			return
		}
		if taken < len(correct) {
			return
		}
		run.count("byzantine.attack.forged-next-lists.block-was-finalized", 1)
		run.atkStage, run.atkStageSince = 2, step
	case 2:
		h := run.atkH + 1
		base, ok := run.baseHeader(h)
		if !ok {
			if step-run.atkStageSince > 1500 {
				run.atkStage = 3
			}
			return
		}
		r := run.netR[h]
		victim := run.atkVictim
		var others []int
		for _, i := range all {
			if i != victim {
				others = append(others, i)
			}
		}
		phA := run.w.byzProposal(base, h, r, byz[0], 15)
		phB := run.w.byzProposal(base, h, r, byz[0], 16)
		run.observe(&e3Msg{kind: e3KindPH, ph: phA})
		run.observe(&e3Msg{kind: e3KindPH, ph: phB})
		run.inject(e3Msg{kind: e3KindPH, ph: phA}, []int{victim})
		mkVotes(h, r, string(phA.Header.Hash), []int{victim})
		run.inject(e3Msg{kind: e3KindPH, ph: phB}, others)
		mkVotes(h, r, string(phB.Header.Hash), others)
		run.count("byzantine.attack.forged-next-lists.split-certified", 1)
		run.atkStage = 3
	}
}

// hostileCatchupStep drives attack kind 4: a catch-up source without any voting power. Once
// per height, as soon as a header of that height is known, one correct node is offered, on
// its replayed-header channel, a header for the height it is voting on whose validator list
// and hashes are the genuine ones while the separate PubKeys list holds keys of the
// attacker's, with a commit certificate signed by those keys (and, every other time, a
// genuine header with a certificate by the Byzantine validators only). A correct engine
// refuses both; the answer is read and discarded, what counts is what the node finalizes.
func (run *e3Run) hostileCatchupStep(step int) {
	correct := run.liveCorrect()
	if len(correct) < 2 {
		return
	}
	if run.atkHeights == nil {
		run.atkHeights = map[uint64]bool{}
	}
	for _, n := range correct {
		n.strat.mu.Lock()
		h, entered := n.strat.curH, n.strat.entered
		n.strat.mu.Unlock()
		if !entered || run.atkHeights[h] || n.replayCh == nil {
			continue
		}
		base, ok := run.baseHeader(h)
		if !ok {
			continue
		}
		run.atkHeights[h] = true
		hd := e3CloneHeader(base)
		hd.DataID = e3DataID(h, 0, n.idx, 13)
		byz := run.w.byzList()
		forgedKeys := len(byz) == 0 || h%2 == 0
		var signers []tmconsensustest.PrivVal
		if forgedKeys {
			// genuine Validators and hashes, foreign PubKeys list
			fx := tmconsensustest.NewEd25519Fixture(len(hd.ValidatorSet.Validators) + 40)
			signers = fx.PrivVals[40:]
			vs := hd.ValidatorSet
			vs.PubKeys = make([]gcrypto.PubKey, len(signers))
			for i := range signers {
				vs.PubKeys[i] = signers[i].Val.PubKey
			}
			hd.ValidatorSet = vs
		}
		hd.Hash = nil
		hash, err := e3HashScheme.Block(hd)
		if err != nil {
			return
		}
		hd.Hash = hash
		vt := tmconsensus.VoteTarget{Height: h, Round: 0, BlockHash: string(hash)}
		content, err := tmconsensus.PrecommitSignBytes(vt, e3SigScheme)
		if err != nil {
			return
		}
		proof := tmconsensus.CommitProof{Round: 0, PubKeyHash: string(hd.ValidatorSet.PubKeyHash), Proofs: map[string][]gcrypto.SparseSignature{}}
		if forgedKeys {
			for i := range signers {
				sig, err := signers[i].Signer.Sign(context.Background(), content)
				if err != nil {
					return
				}
				proof.Proofs[string(hash)] = append(proof.Proofs[string(hash)], gcrypto.SparseSignature{KeyID: []byte{byte(i >> 8), byte(i)}, Sig: sig})
			}
		} else {
			sigs, pkh := run.w.byzVote(true, h, 0, map[string][]int{string(hash): byz})
			proof.PubKeyHash, proof.Proofs = pkh, sigs
		}
		resp := make(chan tmelink.ReplayedHeaderResponse, 1)
		ch, nctx := n.replayCh, n.ctx
		run.count("byzantine.attack.hostile-catchup.offered", 1)
		run.fault("byzantine")
		run.logf("hostile catch-up: n%d is offered a replayed header %x for height %d (foreign PubKeys list: %v)", n.idx, short(string(hash)), h, forgedKeys)
		go func(idx int) {
			select {
			case ch <- tmelink.ReplayedHeaderRequest{Header: hd, Proof: proof, Resp: resp}:
			case <-nctx.Done():
				return
			case <-time.After(10 * time.Second):
				return
			}
			select {
			case r := <-resp:
				if r.Err == nil {
					run.count("byzantine.attack.hostile-catchup.accepted", 1)
				} else {
					run.count("byzantine.attack.hostile-catchup.refused", 1)
				}
			case <-nctx.Done():
			case <-time.After(10 * time.Second):
			}
		}(n.idx)
		return
	}
}

// attackStep drives the directed split attack (see e3Config.Attack).
func (run *e3Run) attackStep(step int) {
	if run.cfg.AttackKind == 1 {
		run.lateHeaderStep(step)
		return
	}
	if run.cfg.AttackKind == 2 {
		run.nextRoundStep(step)
		return
	}
	if run.cfg.AttackKind == 3 {
		run.inflatedSetStep(step)
		return
	}
	if run.cfg.AttackKind == 4 {
		run.hostileCatchupStep(step)
		return
	}
	if run.cfg.AttackKind == 5 {
		run.forgedListStep(step)
		return
	}
	byz := run.w.byzList()
	correct := run.liveCorrect()
	if len(byz) == 0 || len(correct) < 2 {
		return
	}
	run.mu.Lock()
	minFin := ^uint64(0)
	for _, n := range correct {
		if n.lastFinH < minFin {
			minFin = n.lastFinH
		}
	}
	var victimFin uint64
	if run.atkH > 0 && run.nodes[run.atkVictim] != nil {
		victimFin = run.nodes[run.atkVictim].lastFinH
	}
	run.mu.Unlock()
	h := minFin + 1 // lowest height not yet finalized by every live correct node
	if run.atkH != 0 && (h > run.atkH || step-run.atkSince > 2500) {
		run.logf("attack on height %d ends (all finalized it or step budget)", run.atkH)
		run.atkH = 0
		run.atkSince = step
	}
	if run.atkH == 0 {
		if step-run.atkSince < 40 && run.atkSince > 0 {
			return // let the held messages flow for a while
		}
		run.atkH = h
		run.atkVictim = correct[run.rng.IntN(len(correct))].idx
		run.atkSince = step
		run.atkSent = map[string]bool{}
		run.atkIsolate = run.rng.IntN(2) == 0
		run.fault("byzantine")
		run.logf("attack: height %d, victim n%d, isolate-prevotes=%v", h, run.atkVictim, run.atkIsolate)
	}
	h = run.atkH
	var others []int
	for _, n := range correct {
		if n.idx != run.atkVictim {
			others = append(others, n.idx)
		}
	}
	all := append([]int{run.atkVictim}, others...)
	once := func(key string) bool {
		if run.atkSent[key] {
			return false
		}
		run.atkSent[key] = true
		return true
	}
	mkVote := func(precommit bool, r uint32, target string) e3Msg {
		sigs, pkh := run.w.byzVote(precommit, h, r, map[string][]int{target: byz})
		if precommit {
			return e3Msg{kind: e3KindPrecommit, pc: tmconsensus.PrecommitSparseProof{Height: h, Round: r, PubKeyHash: pkh, Proofs: sigs}}
		}
		return e3Msg{kind: e3KindPrevote, pv: tmconsensus.PrevoteSparseProof{Height: h, Round: r, PubKeyHash: pkh, Proofs: sigs}}
	}
	victimDone := victimFin >= h
	if !victimDone {
		// a Byzantine proposer equivocates: one block for the victim (and one more node), another for the rest
		r := run.netR[h]
		if p := run.w.proposerBase(h, r); run.w.byz[p] {
			if base, ok := run.baseHeader(h); ok && once(fmt.Sprintf("equiv:%d/%d", h, r)) {
				phA := run.w.byzProposal(base, h, r, p, 4)
				phB := run.w.byzProposal(base, h, r, p, 5)
				run.observe(&e3Msg{kind: e3KindPH, ph: phA})
				run.observe(&e3Msg{kind: e3KindPH, ph: phB})
				toA := []int{run.atkVictim}
				toB := others
				if len(others) > 1 {
					toA = append(toA, others[0])
					toB = others[1:]
				}
				run.inject(e3Msg{kind: e3KindPH, ph: phA}, toA)
				run.inject(e3Msg{kind: e3KindPH, ph: phB}, toB)
				run.count("byzantine.attack.proposal-equivocation", 1)
			}
		}
	}
	for _, ph := range run.headers[h] {
		x := string(ph.Header.Hash)
		r := ph.Round
		k := fmt.Sprintf("%d/%d/%x", h, r, x)
		if !victimDone {
			// help the block to a polka everywhere, but show the Byzantine precommits to the victim only
			if once("pv:" + k) {
				if run.atkIsolate {
					run.inject(mkVote(false, r, x), []int{run.atkVictim})
					if len(others) > 0 {
						run.inject(mkVote(false, r, ""), others)
					}
				} else {
					run.inject(mkVote(false, r, x), all)
				}
			}
			if once("forge:" + k) {
				// precommits "of" every correct validator, signed with the wrong key: must count for nothing
				sigs, pkh := run.w.forgedVote(run.rng, true, h, r, x, run.w.correctList(), byz[0])
				run.inject(e3Msg{kind: e3KindPrecommit, pc: tmconsensus.PrecommitSparseProof{Height: h, Round: r, PubKeyHash: pkh, Proofs: sigs}}, []int{run.atkVictim})
				run.count("byzantine.forged-votes", 1)
			}
			if once("pc:" + k) {
				run.inject(mkVote(true, r, x), []int{run.atkVictim})
				if len(others) > 0 {
					run.inject(mkVote(true, r, ""), others)
				}
				run.count("byzantine.attack.selective-precommit", 1)
			}
		} else if len(others) > 0 {
			// the victim finalized alone: support anything else that gets proposed towards the others
			var committed string
			run.mu.Lock()
			for _, f := range run.fin {
				if f.Node == run.atkVictim && f.H == h {
					committed = f.Hash
				}
			}
			run.mu.Unlock()
			if fmt.Sprintf("%x", x) == committed {
				continue
			}
			if once("pv2:" + k) {
				run.inject(mkVote(false, r, x), others)
				run.inject(mkVote(true, r, x), others)
				run.count("byzantine.attack.support-other-block", 1)
			}
		}
	}
	if victimDone && len(others) > 0 {
		// a Byzantine proposer offers another block in the current round
		r := run.netR[h]
		if p := run.w.proposerBase(h, r); run.w.byz[p] {
			if base, ok := run.baseHeader(h); ok && once(fmt.Sprintf("prop:%d/%d", h, r)) {
				ph := run.w.byzProposal(base, h, r, p, 3)
				run.observe(&e3Msg{kind: e3KindPH, ph: ph})
				run.inject(e3Msg{kind: e3KindPH, ph: ph}, others)
			}
		}
	}
}

// ---------------------------------------------------------------------------
// oracle (C03)

// violateAsync queues a violation found on a node's goroutine; the router
// goroutine records it (with the trace) at its next step.
func (run *e3Run) violateAsync(key, what string, detail any) {
	run.mu.Lock()
	run.pendingV = append(run.pendingV, func() { run.violate(key, what, detail) })
	run.mu.Unlock()
}

func (run *e3Run) flushViolations() {
	run.mu.Lock()
	p := run.pendingV
	run.pendingV = nil
	run.mu.Unlock()
	for _, f := range p {
		f()
	}
}

func (run *e3Run) violate(key, what string, detail any) {
	if run.r.Prop == "C07" {
		// C07's "engine" sub-run: the same networks, judged only by the monitor of the
		// validator sets correct nodes propose; what the C03 oracles see is tallied
		if !strings.HasPrefix(key, "C03:correct-node-proposed-validator-sets") {
			run.count("other_property_observation."+key, 1)
			return
		}
		key = "C07:" + strings.TrimPrefix(key, "C03:")
	}
	run.violations++
	run.mu.Lock()
	fin := append([]e3FinRec(nil), run.fin...)
	run.mu.Unlock()
	run.r.Violate(key, what, run.id, map[string]any{
		"config":        run.cfg,
		"policy":        e3PolicyNames[run.cfg.Policy],
		"timer_policy":  e3TimerNames[run.cfg.TimerPolicy],
		"world":         run.w.describe(),
		"detail":        detail,
		"finalizations": fin,
		"stores":        run.storeSummary(),
		"locks":         run.lockSummary(),
		"trace":         run.traceCopy(),
	})
}

func (run *e3Run) storeSummary() map[string]any {
	out := map[string]any{}
	ctx := context.Background()
	for _, n := range run.nodes {
		if n == nil {
			continue
		}
		hs := map[string]string{}
		for h := uint64(1); h <= run.cfg.Target+3; h++ {
			ch, err := n.hs.LoadCommittedHeader(ctx, h)
			if err != nil {
				break
			}
			hs[fmt.Sprint(h)] = fmt.Sprintf("%x (commit round %d)", ch.Header.Hash, ch.Proof.Round)
		}
		out[fmt.Sprintf("n%d", n.idx)] = hs
	}
	return out
}

func (run *e3Run) lockSummary() map[string]any {
	out := map[string]any{}
	for _, n := range run.nodes {
		if n == nil {
			continue
		}
		s := n.strat
		s.mu.Lock()
		pv := map[string]string{}
		for k, v := range s.prevoted {
			pv[fmt.Sprintf("%d/%d", k.H, k.R)] = fmt.Sprintf("%x", v)
		}
		pc := map[string]string{}
		for k, v := range s.precommit {
			pc[fmt.Sprintf("%d/%d", k.H, k.R)] = fmt.Sprintf("%x", v)
		}
		out[fmt.Sprintf("n%d", n.idx)] = map[string]any{
			"height": s.curH, "round": s.curR, "lock_height": s.lockH,
			"locked_hash": fmt.Sprintf("%x", s.lockedHash), "locked_round": s.lockedRound,
			"prevotes": pv, "precommits": pc,
		}
		s.mu.Unlock()
	}
	return out
}

// oracle judges the recorded finalization log and the committed header
// stores. It is independent of anything an engine reports about itself beyond
// the FinalizeBlockRequests its driver received and the store contents.
func (run *e3Run) oracle(final bool) {
	if run.cfg.Mode != "C03" {
		return
	}
	run.count("oracle.evaluations", 1)
	run.mu.Lock()
	fin := append([]e3FinRec(nil), run.fin...)
	run.mu.Unlock()

	// agreement
	byH := map[uint64]map[string][]string{}
	add := func(h uint64, hash, src string) {
		if byH[h] == nil {
			byH[h] = map[string][]string{}
		}
		byH[h][hash] = append(byH[h][hash], src)
	}
	for _, f := range fin {
		add(f.H, f.Hash, fmt.Sprintf("n%d:FinalizeBlockRequest(round %d, seq %d)", f.Node, f.Round, f.Seq))
	}
	ctx := context.Background()
	for _, n := range run.nodes {
		if n == nil {
			continue
		}
		for h := uint64(1); h <= run.cfg.Target+3; h++ {
			ch, err := n.hs.LoadCommittedHeader(ctx, h)
			if err != nil {
				break
			}
			add(h, fmt.Sprintf("%x", ch.Header.Hash), fmt.Sprintf("n%d:CommittedHeaderStore(round %d)", n.idx, ch.Proof.Round))
		}
	}
	run.storeHashes = byH
	for h, m := range byH {
		if len(m) > 1 {
			run.violate("C03:different-blocks-finalized-at-one-height",
				fmt.Sprintf("height %d: correct nodes finalized/committed %d different blocks", h, len(m)),
				map[string]any{"height": h, "blocks": m})
		}
	}

	// contiguity per node
	per := map[int][]e3FinRec{}
	for _, f := range fin {
		per[f.Node] = append(per[f.Node], f)
	}
	for node, recs := range per {
		for i, f := range recs {
			if i == 0 {
				if f.H != 1 {
					run.violate("C03:finalized-heights-not-contiguous",
						fmt.Sprintf("node %d: first finalized height is %d, initial height is 1", node, f.H), map[string]any{"node": node, "records": recs})
				}
				continue
			}
			p := recs[i-1]
			switch {
			case f.H == p.H+1:
			case f.H == p.H && f.Inc != p.Inc && f.Hash == p.Hash:
				// repeat of the last height right after a restart: fine if the finalization had not
				// been stored when the node stopped. If the store held it, the application is made to
				// execute a block twice: its finalized heights are not increasing.
				held := false
				if n := run.nodes[node]; n != nil {
					n.mu.Lock()
					held = n.finHeldAtStart[f.Inc][f.H]
					n.mu.Unlock()
				}
				if held {
					run.violate("C03:stored-height-finalized-again-after-restart",
						fmt.Sprintf("node %d: incarnation %d started with the finalization of height %d in its store and asked the driver to finalize that height again (hash %s)", node, f.Inc, f.H, f.Hash),
						map[string]any{"node": node, "records": recs})
				} else {
					run.count("oracle.repeat-after-restart", 1)
				}
			case f.H == p.H && f.Inc == p.Inc && f.Hash == p.Hash:
				// the same block handed to the driver twice by one running engine: not "increasing",
				// but kept apart from gaps and regressions (a different, milder defect)
				run.violate("C03:same-height-finalized-twice-without-restart",
					fmt.Sprintf("node %d: FinalizeBlockRequest for height %d (hash %s) sent twice by incarnation %d (rounds %d and %d)", node, f.H, f.Hash, f.Inc, p.Round, f.Round),
					map[string]any{"node": node, "records": recs})
			default:
				what := "not-contiguous"
				if f.H == p.H && f.Inc == p.Inc {
					what = "same height finalized twice by one incarnation with different blocks"
				}
				run.violate("C03:finalized-heights-not-contiguous",
					fmt.Sprintf("node %d: finalized height %d (incarnation %d) after height %d (incarnation %d): %s", node, f.H, f.Inc, p.H, p.Inc, what),
					map[string]any{"node": node, "records": recs})
			}
		}
	}
}

// summary folds the run into counters, the non-triviality judgement and a sample.
func (run *e3Run) summary() (nontrivial bool, digest string, sample map[string]any) {
	run.mu.Lock()
	fin := append([]e3FinRec(nil), run.fin...)
	run.mu.Unlock()
	nodesAt := map[uint64]map[int]bool{}
	var maxH uint64
	for _, f := range fin {
		if nodesAt[f.H] == nil {
			nodesAt[f.H] = map[int]bool{}
		}
		nodesAt[f.H][f.Node] = true
		if f.H > maxH {
			maxH = f.H
		}
	}
	shared := 0
	for _, m := range nodesAt {
		if len(m) >= 2 {
			shared++
		}
	}
	var fl []string
	for k := range run.faults {
		fl = append(fl, k)
	}
	sort.Strings(fl)
	nontrivial = shared >= 1 && len(fl) >= 1
	var sb strings.Builder
	fmt.Fprintf(&sb, "%+v|%v|", run.cfg, run.w.describe())
	for _, f := range fin {
		fmt.Fprintf(&sb, "%d:%d:%d:%s;", f.Node, f.H, f.Round, f.Hash)
	}
	digest = sb.String()
	rounds := map[uint32]int{}
	for _, f := range fin {
		rounds[f.Round]++
	}
	sample = map[string]any{
		"case": run.id, "config": run.cfg, "policy": e3PolicyNames[run.cfg.Policy], "timer_policy": e3TimerNames[run.cfg.TimerPolicy],
		"world": run.w.describe(), "end": run.endReason, "router_steps": run.stepNo.Load(),
		"heights_finalized_by_two_or_more": shared, "max_height": maxH,
		"finalizations": len(fin), "commit_rounds": fmt.Sprint(rounds), "faults": fmt.Sprint(run.faults),
	}
	return
}
