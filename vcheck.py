#!/usr/bin/env python3
"""Driver for the /verif runtime-monitoring checks.

usage:
  vcheck.py <ID> quick|thorough        run one property's check
  vcheck.py <ID> --replay <witness>    re-run the case recorded in a witness
  vcheck.py --setup                    warm the build cache for every check
  vcheck.py --list

Exit codes: 0 held on everything observed; 1 violation (a line
"VIOLATION property=<id> replay=<path>" is printed); 2 inconclusive.
"""
import hashlib
import json
import os
import re
import shutil
import subprocess
import sys
import time

VERIF = os.path.dirname(os.path.abspath(__file__))
REPO = os.environ.get("VERIF_REPO", "/repo")
WORK = os.environ.get("VERIF_WORK") or os.path.join(VERIF, "work")
ALT_REPO = os.path.abspath(REPO) != "/repo"
EXT = os.path.join(VERIF, "harness", "ext")
INTREE = os.path.join(VERIF, "harness", "intree")
KIT = os.path.join(EXT, "verifkit")
GORDIAN = "github.com/gordian-engine/gordian"

sys.path.insert(0, VERIF)
from checks import CHECKS  # noqa: E402


def go_env():
    env = dict(os.environ)
    env["GOFLAGS"] = "-mod=mod"
    env["GOPROXY"] = "off"
    env.pop("GOSUMDB", None)  # GOSUMDB=off breaks the offline toolchain switch
    env["GONOSUMDB"] = "*"
    env["GONOSUMCHECK"] = "1"
    env["GONOSUMDB"] = "*"
    env["GOFLAGS"] = "-mod=mod"
    env["GOTOOLCHAIN"] = "auto"
    env.setdefault("GOCACHE", os.path.expanduser("~/.cache/go-build"))
    return env


def go_bin():
    cached = os.path.expanduser(
        "~/go/pkg/mod/golang.org/toolchain@v0.0.1-go1.25.0.linux-amd64/bin/go")
    if os.path.exists(cached):
        return cached
    return shutil.which("go") or "go"


def sh(cmd, **kw):
    return subprocess.run(cmd, **kw)


def write_overlay():
    """Map harness files into /repo (add-only, zz_verif_ prefix) and the kit
    into internal/verifkit."""
    repl = {}
    for root, _dirs, files in os.walk(INTREE):
        for f in files:
            if not f.endswith(".go"):
                continue
            rel = os.path.relpath(os.path.join(root, f), INTREE)
            if not os.path.basename(rel).startswith("zz_verif_"):
                raise SystemExit("overlay file without zz_verif_ prefix: " + rel)
            dst = os.path.join(REPO, rel)
            if os.path.exists(dst):
                raise SystemExit("overlay would replace an existing file: " + dst)
            repl[dst] = os.path.join(root, f)
    for f in os.listdir(KIT):
        if f.endswith(".go") and not f.endswith("_test.go"):
            repl[os.path.join(REPO, "internal", "verifkit", f)] = os.path.join(KIT, f)
    os.makedirs(WORK, exist_ok=True)
    path = os.path.join(WORK, "overlay.json")
    with open(path, "w") as fh:
        json.dump({"Replace": repl}, fh, indent=1)
    return path


def prepare_modfiles():
    """Copies of /repo's go.mod/go.sum so that no check can rewrite them."""
    d = os.path.join(WORK, "gomod")
    os.makedirs(d, exist_ok=True)
    shutil.copy(os.path.join(REPO, "go.mod"), os.path.join(d, "go.mod"))
    shutil.copy(os.path.join(REPO, "go.sum"), os.path.join(d, "go.sum"))
    # the external module follows /repo's go.sum too
    base = open(os.path.join(REPO, "go.sum")).read()
    extra = open(os.path.join(EXT, "go.sum.extra")).read() if os.path.exists(
        os.path.join(EXT, "go.sum.extra")) else ""
    # the ext module is always built through -modfile so that (a) its go.mod in
    # /verif is never rewritten and (b) VERIF_REPO can point at a scratch worktree
    extmod = open(os.path.join(EXT, "go.mod")).read().replace("=> /repo", "=> " + os.path.abspath(REPO))
    with open(os.path.join(d, "ext.go.mod"), "w") as fh:
        fh.write(extmod)
    with open(os.path.join(d, "ext.go.sum"), "w") as fh:
        fh.write(base)
        if not base.endswith("\n"):
            fh.write("\n")
        fh.write(extra)
    return os.path.join(d, "go.mod")


def build_cmd(sub, overlay, modfile, compile_only=False, outbin=None):
    cmd = [go_bin(), "test", "-count=1", "-vet=off"]
    if sub.get("race"):
        cmd.append("-race")
    if sub.get("asan"):
        cmd.append("-asan")
    if sub["kind"] == "intree":
        cmd += ["-tags", "verif", "-overlay", overlay, "-modfile=" + modfile]
        cwd = REPO
        pkg = "./" + sub["pkg"]
    else:
        cmd += ["-tags", "verif", "-modfile=" + os.path.join(os.path.dirname(modfile), "ext.go.mod")]
        cwd = EXT
        pkg = "./" + sub["pkg"]
    if compile_only:
        cmd += ["-c", "-o", outbin, pkg]
    return cmd, cwd, pkg


def compile_sub(prop, sub, overlay, modfile):
    outdir = os.path.join(WORK, "bin")
    os.makedirs(outdir, exist_ok=True)
    tag = "%s.%s%s%s" % (prop, sub["name"], ".race" if sub.get("race") else "",
                        ".asan" if sub.get("asan") else "")
    outbin = os.path.join(outdir, tag + ".test")
    cmd, cwd, _ = build_cmd(sub, overlay, modfile, True, outbin)
    env = go_env()
    if sub.get("asan"):
        env["CGO_ENABLED"] = "1"
    t0 = time.time()
    p = sh(cmd, cwd=cwd, env=env, stdout=subprocess.PIPE, stderr=subprocess.STDOUT, text=True)
    return p.returncode, p.stdout, outbin, time.time() - t0


RE_PANIC = re.compile(r"^(panic: .*|fatal error: .*)$", re.M)
RE_GFRAME = re.compile(r"^(github\.com/gordian-engine/gordian/[^\s(]+(?:\([^)]*\))?[^\s(]*)\(", re.M)
RE_HARNESS = re.compile(r"verifkit|verifhook|zz_verif|_test\.|\.Verif|\.verif")
RE_HEX = re.compile(r"0x[0-9a-fA-F]+|\b[0-9a-fA-F]{8,}\b")
RE_NUM = re.compile(r"\d+")


def normalize(msg):
    msg = RE_HEX.sub("#", msg)
    msg = RE_NUM.sub("#", msg)
    return msg[:160]


def first_gordian_frame(text):
    for m in RE_GFRAME.finditer(text):
        f = m.group(1)
        if RE_HARNESS.search(f):
            continue
        return f.replace(GORDIAN + "/", "")
    return "?"


def classify_fatal(stderr_text):
    """A process death (uncaught panic in a gordian goroutine, fatal runtime
    error, sanitizer report) -> violation records."""
    out = []
    m = RE_PANIC.search(stderr_text)
    if m:
        rest = stderr_text[m.start():]
        msg = m.group(1)
        # go prints "panic: X [recovered]" chains; keep the first line
        fn = first_gordian_frame(rest)
        kind = "panic" if msg.startswith("panic:") else "fatal"
        body = msg.split(": ", 1)[1] if ": " in msg else msg
        body = re.sub(r"\s*\[recovered\].*$", "", body)
        out.append({"key": "%s:%s:%s" % (kind, fn, normalize(body)),
                    "what": "process died: " + msg[:300],
                    "witness": {"stderr_tail": rest[:6000]}})
    if "ERROR: AddressSanitizer" in stderr_text:
        i = stderr_text.index("ERROR: AddressSanitizer")
        rest = stderr_text[i:]
        line = rest.split("\n", 1)[0]
        out.append({"key": "asan:" + normalize(line)[:80] + ":" + first_gordian_frame(rest),
                    "what": line[:300], "witness": {"stderr_tail": rest[:6000]}})
    return out


def parse_race_logs(outdir, subname):
    """Return list of {key, what, witness, judged}."""
    reports = {}
    for f in sorted(os.listdir(outdir)):
        if not f.startswith("race." + subname + "."):
            continue
        text = open(os.path.join(outdir, f), errors="replace").read()
        for block in text.split("=================="):
            if "WARNING: DATA RACE" not in block:
                continue
            # sections: access 1, access 2 (Previous ...), then goroutine creation
            secs = re.split(r"\n(?=(?:Previous )?(?:[Rr]ead|[Ww]rite|atomic [a-z]+) (?:at|by)|Goroutine \d+ \()", block)
            acc = [s for s in secs if re.match(r"(?:WARNING: DATA RACE\n)?(?:Previous )?(?:[Rr]ead|[Ww]rite|atomic)", s.strip())]
            frames = []
            for s in acc[:2]:
                fr = "?"
                for m in re.finditer(r"^\s+(github\.com/gordian-engine/gordian/[^\s(]+(?:\([^)]*\))?[^\s(]*)\(", s, re.M):
                    f2 = m.group(1)
                    if RE_HARNESS.search(f2):
                        continue
                    fr = re.sub(r"\[go\.shape[^\]]*\]", "[...]", f2.replace(GORDIAN + "/", ""))
                    fr = re.sub(r"\[.{40,}\]", "[...]", fr)
                    break
                frames.append(fr)
            while len(frames) < 2:
                frames.append("?")
            key = "race:" + "|".join(sorted(frames))
            judged = any(x != "?" for x in frames)
            if key not in reports:
                reports[key] = {"key": key, "what": "data race between %s and %s" % tuple(frames[:2]),
                                "witness": {"report": block[:6000]}, "judged": judged, "count": 0}
            reports[key]["count"] += 1
    return list(reports.values())


def load_known():
    known, fixed = {}, {}
    p = os.path.join(VERIF, "known_findings.jsonl")
    if os.path.exists(p):
        for line in open(p):
            line = line.strip()
            if not line or line.startswith("#"):
                continue
            e = json.loads(line)
            (known if e.get("status") == "known" else fixed).setdefault(
                (e["property"], e["key"]), e)
    return known, fixed


def run_sub(prop, tier, seed, sub, overlay, modfile, outdir, replay=None):
    """Compile and run one sub-run; returns dict."""
    info = {"name": sub["name"], "race": bool(sub.get("race")), "asan": bool(sub.get("asan"))}
    rc, out, outbin, bt = compile_sub(prop, sub, overlay, modfile)
    info["build_s"] = round(bt, 1)
    if rc != 0:
        info["build_failed"] = out[-4000:]
        return info
    env = go_env()
    env["VERIF_OUT"] = outdir
    env["VERIF_SEED"] = str(seed)
    env["VERIF_TIER"] = tier
    env["VERIF_SUB"] = sub["name"]
    env["VERIF_PROP"] = prop
    if replay:
        env["VERIF_REPLAY"] = replay
        try:
            case = str(json.load(open(replay)).get("case") or "")
            env["VERIF_REPLAY_CASE"] = case
            m = re.search(r"(\d+)$", case)
            if m:
                env["VERIF_ONLY_CASE"] = m.group(1)
        except Exception:
            pass
    for k, v in (sub.get("env") or {}).items():
        env[k] = str(v)
    if sub.get("race"):
        env["GORACE"] = "halt_on_error=0 log_path=%s" % os.path.join(outdir, "race." + sub["name"])
    if sub.get("asan"):
        env["ASAN_OPTIONS"] = "detect_leaks=0:abort_on_error=0"
    tmo = sub.get("timeout_s", {}).get(tier, 900 if tier == "quick" else 7200)
    if os.environ.get("VERIF_SCALE"):
        tmo = int(tmo * max(1.0, float(os.environ["VERIF_SCALE"])))
    so = os.path.join(outdir, "stdout." + sub["name"])
    se = os.path.join(outdir, "stderr." + sub["name"])
    cwd = os.path.join(REPO, sub["pkg"]) if sub["kind"] == "intree" else os.path.join(EXT, sub["pkg"])
    if not os.path.isdir(cwd):
        cwd = outdir
    cmd = ["timeout", "-s", "QUIT", "-k", "30", str(tmo), outbin,
           "-test.run", "^" + sub["test"] + "$", "-test.count=1", "-test.timeout", "0", "-test.v"]
    t0 = time.time()
    with open(so, "w") as fo, open(se, "w") as fe:
        p = sh(cmd, cwd=cwd, env=env, stdout=fo, stderr=fe)
    info["run_s"] = round(time.time() - t0, 1)
    info["exit"] = p.returncode
    info["timed_out"] = p.returncode in (124, 137) or (p.returncode == 2 and "SIGQUIT" in open(se, errors="replace").read()[:200000])
    info["stdout"], info["stderr"] = so, se
    rp = os.path.join(outdir, "result.%s.json" % sub["name"])
    if os.path.exists(rp):
        try:
            info["result"] = json.load(open(rp))
        except Exception as e:  # noqa
            info["result_error"] = str(e)
    return info


def run_check(prop, tier, replay=None):
    spec = CHECKS[prop]
    seed = int(os.environ.get("VERIF_SEED", "1") or "1")
    t0 = time.time()
    replay_data = None
    if replay:
        replay_data = json.load(open(replay))
    outdir = os.path.join(WORK, prop + ("-replay" if replay else ""))
    shutil.rmtree(outdir, ignore_errors=True)
    os.makedirs(outdir, exist_ok=True)
    if replay:
        # keep a copy next to the replay output; the original may live in work/<prop>
        replay = os.path.join(outdir, "replay-input.json")
        with open(replay, "w") as fh:
            json.dump(replay_data, fh, indent=1)
    overlay = write_overlay()
    modfile = prepare_modfiles()
    known, _fixed = load_known()

    repo_status_before = sh(["git", "-C", REPO, "status", "--porcelain"], stdout=subprocess.PIPE, text=True).stdout

    subs = [s for s in spec["subs"] if tier in s.get("tiers", ("quick", "thorough"))]
    only_sub = os.environ.get("VERIF_ONLY_SUB")
    if only_sub:
        # development aid: run a single sub-run (evidence is then partial; not for registered commands)
        subs = [s for s in subs if s["name"] in only_sub.split(",")]
    if replay:
        w = replay_data
        subs = [s for s in spec["subs"] if s["name"] == w.get("sub")] or subs[:1]
        seed = int(w.get("seed", seed))
        tier = w.get("tier", tier)

    violations = []   # dicts: key, what, witness, sub, case
    inconclusive = []
    sub_infos = []
    evaluations = 0
    nontrivial = 0
    samples = []
    counters = {}
    rules = []
    notes = []
    races = []
    for sub in subs:
        info = run_sub(prop, tier, seed, sub, overlay, modfile, outdir, replay)
        sub_infos.append({k: v for k, v in info.items() if k not in ("result",)})
        name = sub["name"]
        if "build_failed" in info:
            inconclusive.append("sub %s: harness build failed (see work/%s): %s" % (name, prop, info["build_failed"][-600:].replace("\n", " | ")))
            continue
        res = info.get("result")
        stderr_text = open(info["stderr"], errors="replace").read()
        stdout_text = open(info["stdout"], errors="replace").read()
        fat = classify_fatal(stderr_text + "\n" + stdout_text) if info["exit"] != 0 else []
        cur = ""
        cp = os.path.join(outdir, "current_case." + name)
        if os.path.exists(cp):
            cur = open(cp).read()
        if res:
            evaluations += res.get("evaluations", 0)
            nontrivial += res.get("distinct_nontrivial", 0)
            for s in (res.get("samples") or []):
                if len(samples) < 6:
                    samples.append({"sub": name, "case": s})
            for k, v in (res.get("counters") or {}).items():
                counters["%s.%s" % (name, k)] = v
            if res.get("rule"):
                rules.append("[%s] %s" % (name, res["rule"]))
            for n in (res.get("notes") or []):
                notes.append("[%s] %s" % (name, n))
            for v in (res.get("violations") or []):
                v = dict(v)
                v["sub"] = name
                violations.append(v)
            for r in (res.get("inconclusive") or []):
                inconclusive.append("sub %s: %s" % (name, r))
        if info.get("timed_out"):
            inconclusive.append("sub %s: watchdog fired after %ss (case %s); goroutine dump in %s" % (name, info["run_s"], cur, info["stderr"]))
        elif fat:
            for v in fat:
                v["sub"] = name
                v["case"] = cur
                violations.append(v)
        elif info["exit"] != 0 and not (res and res.get("finished")):
            inconclusive.append("sub %s: harness exited %s without a finished result (case %s), see %s" % (name, info["exit"], cur, info["stderr"]))
        elif res and not res.get("finished"):
            inconclusive.append("sub %s: result not finished" % name)
        elif not res:
            inconclusive.append("sub %s: no result file" % name)
        if sub.get("race"):
            for rr in parse_race_logs(outdir, name):
                races.append({"sub": name, "key": rr["key"], "count": rr["count"], "judged": rr["judged"]})
                if rr["judged"] and sub.get("race_policy", "violation") == "violation":
                    violations.append({"key": rr["key"], "what": rr["what"], "witness": rr["witness"], "sub": name, "case": "", "count": rr["count"]})
                else:
                    notes.append("[%s] race report not judged (no gordian frame or policy=record): %s x%d" % (name, rr["key"], rr["count"]))

    floor = spec.get("floor", {}).get(tier, 2)
    if not replay and nontrivial < floor and not violations:
        inconclusive.append("only %d distinct non-trivial cases observed (floor %d)" % (nontrivial, floor))

    # classify against known findings
    lines = []
    unlisted = []
    known_hit = {}
    for i, v in enumerate(violations):
        k = (prop, v["key"])
        if k in known:
            if v["key"] not in known_hit:
                known_hit[v["key"]] = 0
                lines.append("KNOWN-FINDING: property=%s %s [%s]" % (prop, known[k].get("what", v.get("what", "")), v["key"]))
            known_hit[v["key"]] += v.get("count", 1)
            continue
        wpath = os.path.join(outdir, "witness-%d.json" % len(unlisted))
        with open(wpath, "w") as fh:
            json.dump({"property": prop, "sub": v.get("sub"), "seed": seed, "tier": tier,
                       "case": v.get("case"), "key": v["key"], "what": v.get("what"),
                       "witness": v.get("witness")}, fh, indent=1, default=str)
        unlisted.append(v)
        lines.append("VIOLATION property=%s replay=%s" % (prop, wpath))
        lines.append("  key=%s" % v["key"])
        lines.append("  what=%s" % (v.get("what") or "")[:400])

    repo_status_after = sh(["git", "-C", REPO, "status", "--porcelain"], stdout=subprocess.PIPE, text=True).stdout
    if repo_status_after != repo_status_before:
        notes.append("WARNING: /repo status changed during the run: %r -> %r" % (repo_status_before, repo_status_after))
        print("WARNING: /repo working tree changed during the check", file=sys.stderr)

    wall = time.time() - t0
    if not replay:
        ev = {
            "property_id": prop,
            "tier": tier,
            "seed": seed,
            "level": spec.get("level", "exploration"),
            "coverage": {
                "evaluations": int(evaluations),
                "distinct_nontrivial": int(nontrivial),
                "rule": " ".join(rules) or spec.get("rule", ""),
                "samples": samples,
                "counters": counters,
                "sub_runs": sub_infos,
                "race_reports": races,
                "known_findings_hit": known_hit,
                "unlisted_violation_keys": [v["key"] for v in unlisted],
                "inconclusive": inconclusive,
                "notes": notes[:100],
            },
            "assumptions": spec.get("assumptions", []),
            "wall_s": round(wall, 2),
            "violations": len(unlisted),
        }
        evdir = os.path.join(WORK, "evidence") if ALT_REPO else os.path.join(VERIF, "evidence")
        os.makedirs(evdir, exist_ok=True)
        with open(os.path.join(evdir, prop + ".json"), "w") as fh:
            json.dump(ev, fh, indent=1, default=str)

    for ln in lines:
        print(ln)
    print("%s %s seed=%d: evaluations=%d distinct_nontrivial=%d unlisted_violations=%d known_hit=%d inconclusive=%d wall=%.1fs" % (
        prop, tier, seed, evaluations, nontrivial, len(unlisted), len(known_hit), len(inconclusive), wall))
    if unlisted:
        return 1
    if inconclusive:
        for r in inconclusive:
            print("INCONCLUSIVE property=%s reason=%s" % (prop, r[:600]))
        return 2
    return 0


def setup():
    overlay = write_overlay()
    modfile = prepare_modfiles()
    rc_all = 0
    seen = set()
    for prop, spec in CHECKS.items():
        for sub in spec["subs"]:
            if os.environ.get("VERIF_SETUP_QUICK_ONLY") and "quick" not in sub.get("tiers", ("quick", "thorough")):
                continue
            key = (sub["kind"], sub["pkg"], bool(sub.get("race")), bool(sub.get("asan")))
            if key in seen:
                continue
            seen.add(key)
            rc, out, _bin, bt = compile_sub(prop, sub, overlay, modfile)
            print("setup: %s %s race=%s asan=%s -> rc=%d (%.0fs)" % (prop, sub["pkg"], key[2], key[3], rc, bt))
            if rc != 0:
                print(out[-3000:])
                rc_all = 1
    return rc_all


def main(argv):
    if len(argv) >= 2 and argv[1] == "--setup":
        return setup()
    if len(argv) >= 2 and argv[1] == "--list":
        for k, v in CHECKS.items():
            print(k, [s["name"] for s in v["subs"]])
        return 0
    if len(argv) < 3:
        print(__doc__)
        return 64
    prop = argv[1]
    if prop not in CHECKS:
        print("unknown property", prop)
        return 64
    if argv[2] == "--replay":
        return run_check(prop, "quick", replay=argv[3])
    tier = argv[2]
    if os.environ.get("VERIF_TIER") in ("quick", "thorough") and tier not in ("quick", "thorough"):
        tier = os.environ["VERIF_TIER"]
    return run_check(prop, tier)


if __name__ == "__main__":
    sys.exit(main(sys.argv))
