"""Registry of checks: per property the sub-runs the driver compiles and runs.
One JSON file per property under checks_d/ (so they can be developed independently).

sub-run keys:
  name      unique within the property
  kind      "ext"    -> package dir under /verif/harness/ext (public API of /repo via replace)
            "intree" -> package path under /repo, harness injected with -overlay
  pkg       package directory (relative to harness/ext or to /repo)
  test      test function name (TestVerif_...)
  race/asan build with the race detector / address sanitizer
  tiers     ["quick","thorough"] subset (default both)
  env       extra environment for the harness process
  timeout_s {"quick": s, "thorough": s} watchdog (inconclusive when it fires)
  race_policy "violation" (default) | "record"
"""
import glob
import json
import os

_D = os.path.join(os.path.dirname(os.path.abspath(__file__)), "checks_d")

NOT_BUILT_REASON = "check not built yet in this work-in-progress commit; runtime monitoring applies (see DESIGN.md section 4) and the check will be registered when its harness is silent on the unchanged tree"
NOT_APPLICABLE = {}

CHECKS = {}
for _f in sorted(glob.glob(os.path.join(_D, "C*.json"))):
    try:
        _spec = json.load(open(_f))
    except Exception as _e:  # a half-written file must not break the other checks
        import sys as _sys
        print("checks.py: skipping unparsable %s: %s" % (_f, _e), file=_sys.stderr)
        continue
    if _spec.get("disabled"):
        continue
    CHECKS[os.path.basename(_f)[:-5]] = _spec
