"""Registry of checks: per property the sub-runs the driver compiles and runs.

kind: "ext"    -> package under /verif/harness/ext (public API of /repo via replace)
      "intree" -> package path under /repo, harness injected with -overlay
"""

EXT_ASSUME = [
    "the Go toolchain, race detector and crypto/ed25519 are correct",
    "the harness generators reach the behaviours listed under coverage.rule; paths they do not reach are not covered",
]

NOT_BUILT_REASON = "check not built yet in this work-in-progress commit; runtime monitoring applies (see DESIGN.md section 4) and the check will be registered when its harness is silent on the unchanged tree"
NOT_APPLICABLE = {}

CHECKS = {
    "C18": {
        "engine": "E4-property",
        "technique": "runtime oracle: 128-bit reference arithmetic over exhaustive small range + structured edges + PRNG samples of the real functions",
        "level_text": "Exhaustive evaluation of the real ByzantineMajority/ByzantineMinority for every n up to 2^22 (quick) / 2^31 (thorough), all n within 1000 of every power of two and of thirds of powers of two up to 2^64-1, the top 2^20 values, and 10^6/10^8 PRNG values, each judged by a 128-bit oracle for minimality, quorum intersection and sub-minority harmlessness. Exhaustive below the bound, sampled above it: not a proof for all n.",
        "level_note": "Trusts math/bits 128-bit arithmetic and the Go compiler; claims nothing about n not evaluated.",
        "level": "exploration",
        "floor": {"quick": 100, "thorough": 100},
        "assumptions": EXT_ASSUME + ["128-bit reference arithmetic via math/bits"],
        "subs": [
            {"name": "main", "kind": "ext", "pkg": "c18", "test": "TestVerif_C18"},
        ],
    },
}
